/* include/config_liberasurecode.h.  Generated from config_liberasurecode.h.in by configure.  */
/* include/config_liberasurecode.h.in.  Generated from configure.ac by autoheader.  */

/* Define to 1 if you have the `calloc' function. */
#define HAVE_CALLOC 1

/* Define to 1 if you have the <ctype.h> header file. */
#define HAVE_CTYPE_H 1

/* Define to 1 if you have the <dlfcn.h> header file. */
#define HAVE_DLFCN_H 1

/* Define to 1 if you have the <errno.h> header file. */
#define HAVE_ERRNO_H 1

/* Define to 1 if you have the `free' function. */
#define HAVE_FREE 1

/* Define to 1 if you have the <iconv.h> header file. */
#define HAVE_ICONV_H 1

/* Define to 1 if you have the <inttypes.h> header file. */
#define HAVE_INTTYPES_H 1

/* Define to 1 if you have the <limits.h> header file. */
#define HAVE_LIMITS_H 1

/* Define to 1 if you have the `malloc' function. */
#define HAVE_MALLOC 1

/* Define to 1 if you have the <malloc.h> header file. */
#define HAVE_MALLOC_H 1

/* Define to 1 if you have the <memory.h> header file. */
#define HAVE_MEMORY_H 1

/* Define to 1 if you have the <minix/config.h> header file. */
/* #undef HAVE_MINIX_CONFIG_H */

/* Define to 1 if you have the `openlog' function. */
#define HAVE_OPENLOG 1

/* Define to 1 if you have the <pthread.h> header file. */
#define HAVE_PTHREAD_H 1

/* Define to 1 if you have the `realloc' function. */
#define HAVE_REALLOC 1

/* Define to 1 if you have the <signal.h> header file. */
#define HAVE_SIGNAL_H 1

/* Define to 1 if you have the <stdarg.h> header file. */
#define HAVE_STDARG_H 1

/* Define to 1 if you have the <stddef.h> header file. */
#define HAVE_STDDEF_H 1

/* Define to 1 if you have the <stdint.h> header file. */
#define HAVE_STDINT_H 1

/* Define to 1 if you have the <stdio.h> header file. */
#define HAVE_STDIO_H 1

/* Define to 1 if you have the <stdlib.h> header file. */
#define HAVE_STDLIB_H 1

/* Define to 1 if you have the <strings.h> header file. */
#define HAVE_STRINGS_H 1

/* Define to 1 if you have the <string.h> header file. */
#define HAVE_STRING_H 1

/* Define to 1 if you have the <syslog.h> header file. */
#define HAVE_SYSLOG_H 1

/* Define to 1 if you have the <sys/stat.h> header file. */
#define HAVE_SYS_STAT_H 1

/* Define to 1 if you have the <sys/types.h> header file. */
#define HAVE_SYS_TYPES_H 1

/* Define to 1 if you have the <unistd.h> header file. */
#define HAVE_UNISTD_H 1

/* Define to 1 if you have the <wchar.h> header file. */
#define HAVE_WCHAR_H 1

/* Define to the sub-directory where libtool stores uninstalled libraries. */
#define LT_OBJDIR ".libs/"

/* Name of package */
#define PACKAGE "liberasurecode"

/* Define to the address where bug reports for this package should be sent. */
#define PACKAGE_BUGREPORT "tusharsg AT gmail DOT com, kmgreen2 AT gmail DOT com"

/* Define to the full name of this package. */
#define PACKAGE_NAME "liberasurecode"

/* Define to the full name and version of this package. */
#define PACKAGE_STRING "liberasurecode -"

/* Define to the one symbol short name of this package. */
#define PACKAGE_TARNAME "liberasurecode"

/* Define to the home page for this package. */
#define PACKAGE_URL "https://github.com/openstack/liberasurecode"

/* Define to the version of this package. */
#define PACKAGE_VERSION "-"

/* The size of `long', as computed by sizeof. */
#define SIZEOF_LONG 8

/* Define to 1 if all of the C90 standard headers exist (not just the ones
   required in a freestanding environment). This macro is provided for
   backward compatibility; new code need not use it. */
#define STDC_HEADERS 1

/* Enable extensions on AIX 3, Interix.  */
#ifndef _ALL_SOURCE
# define _ALL_SOURCE 1
#endif
/* Enable general extensions on macOS.  */
#ifndef _DARWIN_C_SOURCE
# define _DARWIN_C_SOURCE 1
#endif
/* Enable general extensions on Solaris.  */
#ifndef __EXTENSIONS__
# define __EXTENSIONS__ 1
#endif
/* Enable GNU extensions on systems that have them.  */
#ifndef _GNU_SOURCE
# define _GNU_SOURCE 1
#endif
/* Enable X/Open compliant socket functions that do not require linking
   with -lxnet on HP-UX 11.11.  */
#ifndef _HPUX_ALT_XOPEN_SOCKET_API
# define _HPUX_ALT_XOPEN_SOCKET_API 1
#endif
/* Identify the host operating system as Minix.
   This macro does not affect the system headers' behavior.
   A future release of Autoconf may stop defining this macro.  */
#ifndef _MINIX
/* # undef _MINIX */
#endif
/* Enable general extensions on NetBSD.
   Enable NetBSD compatibility extensions on Minix.  */
#ifndef _NETBSD_SOURCE
# define _NETBSD_SOURCE 1
#endif
/* Enable OpenBSD compatibility extensions on NetBSD.
   Oddly enough, this does nothing on OpenBSD.  */
#ifndef _OPENBSD_SOURCE
# define _OPENBSD_SOURCE 1
#endif
/* Define to 1 if needed for POSIX-compatible behavior.  */
#ifndef _POSIX_SOURCE
/* # undef _POSIX_SOURCE */
#endif
/* Define to 2 if needed for POSIX-compatible behavior.  */
#ifndef _POSIX_1_SOURCE
/* # undef _POSIX_1_SOURCE */
#endif
/* Enable POSIX-compatible threading on Solaris.  */
#ifndef _POSIX_PTHREAD_SEMANTICS
# define _POSIX_PTHREAD_SEMANTICS 1
#endif
/* Enable extensions specified by ISO/IEC TS 18661-5:2014.  */
#ifndef __STDC_WANT_IEC_60559_ATTRIBS_EXT__
# define __STDC_WANT_IEC_60559_ATTRIBS_EXT__ 1
#endif
/* Enable extensions specified by ISO/IEC TS 18661-1:2014.  */
#ifndef __STDC_WANT_IEC_60559_BFP_EXT__
# define __STDC_WANT_IEC_60559_BFP_EXT__ 1
#endif
/* Enable extensions specified by ISO/IEC TS 18661-2:2015.  */
#ifndef __STDC_WANT_IEC_60559_DFP_EXT__
# define __STDC_WANT_IEC_60559_DFP_EXT__ 1
#endif
/* Enable extensions specified by ISO/IEC TS 18661-4:2015.  */
#ifndef __STDC_WANT_IEC_60559_FUNCS_EXT__
# define __STDC_WANT_IEC_60559_FUNCS_EXT__ 1
#endif
/* Enable extensions specified by ISO/IEC TS 18661-3:2015.  */
#ifndef __STDC_WANT_IEC_60559_TYPES_EXT__
# define __STDC_WANT_IEC_60559_TYPES_EXT__ 1
#endif
/* Enable extensions specified by ISO/IEC TR 24731-2:2010.  */
#ifndef __STDC_WANT_LIB_EXT2__
# define __STDC_WANT_LIB_EXT2__ 1
#endif
/* Enable extensions specified by ISO/IEC 24747:2009.  */
#ifndef __STDC_WANT_MATH_SPEC_FUNCS__
# define __STDC_WANT_MATH_SPEC_FUNCS__ 1
#endif
/* Enable extensions on HP NonStop.  */
#ifndef _TANDEM_SOURCE
# define _TANDEM_SOURCE 1
#endif
/* Enable X/Open extensions.  Define to 500 only if necessary
   to make mbstate_t available.  */
#ifndef _XOPEN_SOURCE
/* # undef _XOPEN_SOURCE */
#endif


/* Version number of package */
#define VERSION "-"
