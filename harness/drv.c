/*
 * drv.c — harness entry: drv <suite> <seed> <tier: 0 quick | 1 thorough>
 */
#include "common.h"
#include "ops.h"
#include <dlfcn.h>

void suite_wire(int), suite_hdr(int), suite_cksum(int), suite_endian(int), suite_valid(int);
void suite_force(int), suite_args(int), suite_hist(int);
void suite_ledger(int), suite_fault(int), suite_pure(int), suite_isal(int), suite_conc(int);
void suite_mt(int), suite_cat(int), suite_grid(int);
void suite_rt(int), suite_nsc(int), suite_recon(int), suite_rsmat(int), suite_xor(int), suite_need(int);

/* instance churn on its own (plain build: glibc hands freed blocks out again at once, which the
   sanitizer's quarantine prevents) */
void churn(const char *prop, int tier, int rs_only);
static void suite_churn04(int tier) { for (int r = 0; r < (tier ? 30 : 8); r++) churn("C04", tier, 1); }
static void suite_churn15(int tier) { for (int r = 0; r < (tier ? 30 : 8); r++) churn("C15", tier, 0); }

static struct { const char *name; void (*fn)(int); } SUITES[] = {
    { "churn04", suite_churn04 }, { "churn15", suite_churn15 },
    { "wire", suite_wire }, { "hdr", suite_hdr }, { "cksum", suite_cksum },
    { "endian", suite_endian }, { "valid", suite_valid },
    { "rt", suite_rt }, { "nsc", suite_nsc }, { "recon", suite_recon }, { "rsmat", suite_rsmat },
    { "xor", suite_xor }, { "need", suite_need },
    { "force", suite_force }, { "args", suite_args }, { "hist", suite_hist },
    { "ledger", suite_ledger }, { "fault", suite_fault }, { "pure", suite_pure }, { "isal", suite_isal }, { "conc", suite_conc }, { "mt", suite_mt }, { "cat", suite_cat }, { "grid", suite_grid },
};

int main(int argc, char **argv) {
    if (argc < 4) { fprintf(stderr, "usage: drv <suite> <seed> <tier>\n"); return 2; }
    g_rng = strtoull(argv[2], NULL, 10) * 0x9e3779b97f4a7c15ULL + 0x1234567;
    int tier = atoi(argv[3]);
    unsetenv("LIBERASURECODE_WRITE_LEGACY_CRC");
    g_isal = getenv("VERIF_ISAL") != NULL;
    setvbuf(stdout, NULL, _IOFBF, 1 << 20);
    for (unsigned i = 0; i < sizeof SUITES / sizeof SUITES[0]; i++) {
        if (!strcmp(SUITES[i].name, argv[1])) {
            SUITES[i].fn(tier);
            stat_dump();
            cfg_release_all();
            printf("#DONE %s\n", argv[1]);
            return 0;
        }
    }
    fprintf(stderr, "unknown suite %s\n", argv[1]);
    return 2;
}
