/*
 * suites2.c — erasure-code behaviour: round trip (C01), no silent corruption (C02),
 * reconstruct fidelity (C03), RS generator and tables (C04), flat-XOR tables (C05),
 * fragments needed (C06).
 */
#include "common.h"
#include "ops.h"
#include <dlfcn.h>

extern int *make_systematic_matrix(int k, int m);
extern void free_systematic_matrix(int *);
extern int *log_table, *ilog_table, *ilog_table_begin;
extern int rs_galois_mult(int, int), rs_galois_div(int, int);

/* next k-combination of {0..n-1} in lexicographic order; returns 0 when exhausted */
static int next_comb(int *c, int k, int n) {
    int i = k - 1;
    while (i >= 0 && c[i] == n - k + i) i--;
    if (i < 0) return 0;
    c[i]++;
    for (int j = i + 1; j < k; j++) c[j] = c[j - 1] + 1;
    return 1;
}

static void shuffle(char **a, int n) {
    for (int i = n - 1; i > 0; i--) { int j = (int)rnd(i + 1); char *t = a[i]; a[i] = a[j]; a[j] = t; }
}

/* survivors of stripe s without the indexes in `gone` (a bitmask) */
static int survivors(stripe_t *s, uint64_t gone, char **out) {
    int n = 0;
    for (int i = 0; i < s->n; i++) if (!((gone >> i) & 1)) out[n++] = s->all[i];
    return n;
}

static uint64_t random_erasures(int n, int cnt) {
    uint64_t g = 0; int have = 0;
    while (have < cnt) { int i = (int)rnd(n); if (!((g >> i) & 1)) { g |= 1ull << i; have++; } }
    return g;
}

static void note_cfg(const char *prefix, cfg_t c) {
    char key[64]; snprintf(key, sizeof key, "%s.be%d", prefix, c.be); stat_add(key, 1);
}

/* every erasure set of a stripe with at most `maxe` members: decode (and reconstruct of each missing
   member when `rec`), as direct oracles.  Sets larger than the tolerance are checked in mode 1. */
static void sweep_stripe(stripe_t *s, int maxe, int rec, const char *prop, const char *statkey) {
    int tol = cfg_tolerance(s->c);
    for (int e = 0; e <= maxe && e <= s->n; e++) {
        int comb[40]; for (int i = 0; i < e; i++) comb[i] = i;
        do {
            uint64_t g = 0; for (int i = 0; i < e; i++) g |= 1ull << comb[i];
            int mode = e > tol;
            sweep_dec(s, g, (int)rnd(2), (int)rnd(2), mode, prop);
            if (rec) for (int i = 0; i < e; i++) sweep_rec(s, g, comb[i], mode, prop);
            stat_add(statkey, 1);
        } while (e > 0 && next_comb(comb, e, s->n));
    }
}

/* all flat XOR tables (every set below hd, plus the sets of size hd when `beyond`), small RS codes
   (every set up to m, plus m+1 when `beyond`): payload sizes that are / are not multiples of 16 */
static void sweep_all(int tier, int rec, int beyond, const char *prop, const char *statkey) {
    for (int x = 0; x < n_xor_shapes; x++) {
        for (int pass = 0; pass < (tier ? 3 : 1); pass++) {
            cfg_t c = { 3, xor_shapes[x][0], xor_shapes[x][1], xor_shapes[x][2], 1 + (int)rnd(2) };
            size_t len = pass == 0 ? (size_t)c.k * 4 * (1 + rnd(7)) - rnd(3) : (pass == 1 ? 1 + rnd(c.k * 4) : (size_t)c.k * 16 * (1 + rnd(3)));
            stripe_t s;
            if (stripe_make(&s, c, len ? len : 1, 0, 0) != 0) { oracle_fail(prop, "cannot encode with XOR shape (%d,%d,%d)", c.k, c.m, c.hd); continue; }
            sweep_stripe(&s, c.hd - 1 + (beyond && c.k + c.m <= (tier ? 26 : 14) ? 1 : 0), rec, prop, statkey);
            stripe_free(&s);
        }
    }
    for (int n = 2; n <= (tier ? 12 : 9); n++) for (int k = 1; k < n; k++) {
        cfg_t c = { 6, k, n - k, n - k, 1 + (int)rnd(2) };
        stripe_t s;
        if (stripe_make(&s, c, 1 + rnd(6 * k), 0, 0) != 0) { oracle_fail(prop, "cannot encode with rs_vand (%d,%d)", k, n - k); continue; }
        sweep_stripe(&s, c.m + (beyond ? 1 : 0), rec && n <= (tier ? 12 : 8), prop, statkey);
        stripe_free(&s);
    }
}

/* large inputs (direct oracle only): per-fragment payloads from 1 KiB to beyond 1 MiB, every residue class
   of the payload size modulo 16/32/64, bulk code paths (vector loops, streaming copies, tails) */
static void sweep_large(int tier, int rec, const char *prop, const char *statkey) {
    static const cfg_t cfgs[] = { {3,3,3,3,2}, {3,5,5,3,1}, {3,10,6,4,2}, {6,4,2,2,2}, {6,10,4,4,1}, {6,2,1,1,1}, {3,12,6,4,1}, {6,1,3,3,2} };
    for (unsigned ci = 0; ci < sizeof cfgs / sizeof cfgs[0]; ci++) {
        cfg_t c = cfgs[ci]; int wb = cfg_wbytes(c);
        int nl = tier ? 24 : 6;
        for (int li = 0; li < nl; li++) {
            /* payload size: log-uniform, every third one above 256 KiB; then any residue */
            size_t P = (li % 3 == 0) ? (262144 + rnd(900000)) : ((size_t)1 << (10 + rnd(10))) + rnd(4096);
            if (c.k >= 10 && P > 400000) P = 262144 + rnd(100000);
            /* at every seed: one payload just above 1 MiB for the small codes (thresholds of bulk paths sit at powers of two) */
            if (li == 0 && c.k <= 5) P = ((size_t)1 << 20) + rnd(65536);
            if (li == 3 && c.k <= 5 && tier) P = ((size_t)1 << 21) + rnd(65536);
            P = P / wb * wb + (size_t)wb * rnd(16);
            size_t len = (size_t)c.k * P - rnd((uint32_t)(c.k * wb));
            stripe_t s;
            if (stripe_make(&s, c, len, 0, 0) != 0) { oracle_fail(prop, "cannot encode %zu bytes with be=%d (%d,%d,%d)", len, c.be, c.k, c.m, c.hd); continue; }
            int tol = cfg_tolerance(c);
            for (int q = 0; q < 3; q++) {
                int e = q == 0 ? 1 : (q == 1 ? tol : 1 + (int)rnd(tol));
                uint64_t g = 0;
                if (q < 2) { int have = 0; while (have < e && have < c.k) { int i = (int)rnd(c.k); if (!((g >> i) & 1)) { g |= 1ull << i; have++; } } }   /* data fragments */
                else g = random_erasures(s.n, e);
                sweep_dec(&s, g, (int)rnd(2), (int)rnd(2), 0, prop);
                if (rec) for (int i = 0; i < s.n; i++) if ((g >> i) & 1) sweep_rec(&s, g, i, 0, prop);
                stat_add(statkey, 1);
            }
            char key[64]; snprintf(key, sizeof key, "%s_payload_mod16_%d", statkey, (int)((s.flen - HDR) % 16)); stat_add(key, 1);
            stripe_free(&s);
        }
    }
}

/* shapes at the limits (k+m = 32, k = 1, m = 1, m > k) with erasure sets built from the boundary indexes
   (0, k-1, k, n-1, n-2): deterministic, whatever the seed */
void sweep_boundary(int be, int rec, const char *prop, const char *statkey, int (*decodable)(cfg_t, uint64_t)) {
    static const int shapes[][2] = { {28,4}, {16,16}, {31,1}, {1,31}, {24,8}, {20,12}, {4,28}, {30,2}, {1,1}, {2,1}, {17,15} };
    for (unsigned si = 0; si < sizeof shapes / sizeof shapes[0]; si++) {
        int k = shapes[si][0], m = shapes[si][1], n = k + m;
        cfg_t c = { be, k, m, m, 1 + (int)(si % 2) };
        stripe_t s;
        if (stripe_make(&s, c, 1 + rnd(5 * k), 0, 0) != 0) { oracle_fail(prop, "cannot encode with be=%d (%d,%d)", be, k, m); continue; }
        int cand[6] = { 0, k - 1, k, n - 1, n - 2, k / 2 };
        for (int mask = 1; mask < 64; mask++) {
            uint64_t g = 0;
            for (int b = 0; b < 6; b++) if ((mask >> b) & 1) { int i = cand[b]; if (i >= 0 && i < n) g |= 1ull << i; }
            if (!g || __builtin_popcountll(g) > m) continue;
            int mode = decodable ? (decodable(c, g) == 1 ? 0 : 1) : 0;      /* codes that are not MDS: an error is allowed on singular sets */
            sweep_dec(&s, g, (int)(mask & 1), 0, mode, prop);
            if (rec) for (int i = 0; i < n; i++) if ((g >> i) & 1) sweep_rec(&s, g, i, mode, prop);
            stat_add(statkey, 1);
        }
        /* the m highest and the m lowest fragments gone */
        { uint64_t hi = 0, lo = 0; for (int i = 0; i < m; i++) { hi |= 1ull << (n - 1 - i); lo |= 1ull << i; }
          int mh = decodable ? (decodable(c, hi) == 1 ? 0 : 1) : 0, ml = decodable ? (decodable(c, lo) == 1 ? 0 : 1) : 0;
          sweep_dec(&s, hi, 0, 0, mh, prop); sweep_dec(&s, lo, 0, 0, ml, prop);
          if (rec) { sweep_rec(&s, hi, n - 1, mh, prop); sweep_rec(&s, lo, 0, ml, prop); } }
        stripe_free(&s);
    }
}

/* ======================================================================= rt (C01) */
static void rt_one(stripe_t *s, uint64_t gone, int variant, int force) {
    char *fr[160]; int n = survivors(s, gone, fr);
    int misalign = 0;
    switch (variant) {
    case 1: shuffle(fr, n); break;
    case 2: if (n) { fr[n] = fr[rnd(n)]; n++; shuffle(fr, n); } break;          /* duplicate */
    case 3: misalign = 1 + (int)rnd(14); break;
    case 4: shuffle(fr, n); misalign = 1 + (int)rnd(14); if (n) { fr[n] = fr[0]; n++; } break;
    case 5: if (n && s->flen < 400) {   /* far more entries than the stripe has fragments: one survivor many times, in front or behind */
                char *rep = fr[rnd(n)]; int extra = 28 + (int)rnd(12), front = (int)rnd(2);
                if (front) { memmove(fr + extra, fr, sizeof(char *) * n); for (int i = 0; i < extra; i++) fr[i] = rep; }
                else for (int i = 0; i < extra; i++) fr[n + i] = rep;
                n += extra;
            } break;
    default: break;
    }
    int v = op_dec(s->c, force, s->flen, n, fr, misalign, s->data, s->len);
    if (v != 0) oracle_fail("C01", "decode of a tolerated erasure set (mask %llx, variant %d, force %d) returned %s%d",
                            (unsigned long long)gone, variant, force, v == 1 ? "wrong bytes " : "error ", v);
    int ne = __builtin_popcountll(gone);
    char key[64]; snprintf(key, sizeof key, "rt.erasures_%d", ne > 6 ? 7 : ne); stat_add(key, 1);
    snprintf(key, sizeof key, "rt.variant_%d", variant); stat_add(key, 1);
}

void suite_rt(int tier) {
    /* random configurations */
    int cases = tier ? 400 : 60;
    for (int t = 0; t < cases; t++) {
        cfg_t c = cfg_random_ec();
        size_t len = gen_len(c, 0);
        if (c.k + c.m > 16 && len > 256) len = 1 + rnd(256);
        unsigned char *d = gen_data(len, (int)rnd(4));
        stripe_t s;
        if (op_enc(c, rnd(5) == 0, d, len, &s) != 0) { free(d); continue; }
        free(d);
        note_cfg("rt", c);
        int tol = cfg_tolerance(c);
        int sizes[5] = { 0, 1, tol, (int)rnd(tol + 1), tol };
        for (int q = 0; q < 5; q++) {
            if (sizes[q] > tol) continue;
            rt_one(&s, random_erasures(s.n, sizes[q]), (int)rnd(6), (int)rnd(2));
        }
        stripe_free(&s);
    }
    /* direct oracle, exhaustive over erasure sets (every XOR table, small RS codes) */
    sweep_all(tier, 0, 0, "C01", "rt.sweep_sets");
    /* sequences of calls on one instance */
    for (int n = 3; n <= (tier ? 9 : 7); n++) for (int k = 1; k < n - 1; k++) {
        cfg_t c = { 6, k, n - k, n - k, 1 + (int)rnd(2) }; stripe_t s;
        if (stripe_make(&s, c, 1 + rnd(8 * k), 0, 0) == 0) { sweep_neighbours(&s, 0, "C01", "rt.sequence_pairs"); stripe_free(&s); }
    }
    for (int x = 0; x < n_xor_shapes; x++) {
        if (xor_shapes[x][0] + xor_shapes[x][1] > (tier ? 14 : 11)) continue;
        cfg_t c = { 3, xor_shapes[x][0], xor_shapes[x][1], xor_shapes[x][2], 1 }; stripe_t s;
        if (stripe_make(&s, c, 1 + rnd(60), 0, 0) == 0) { sweep_neighbours(&s, 0, "C01", "rt.sequence_pairs"); stripe_free(&s); }
    }
    sweep_large(tier, 0, "C01", "rt.large");
    sweep_boundary(6, 0, "C01", "rt.boundary_sets", NULL);
    /* every flat-XOR table: all erasure sets below hd (thorough) / a sample (quick) */
    for (int x = 0; x < n_xor_shapes; x++) {
        cfg_t c = { 3, xor_shapes[x][0], xor_shapes[x][1], xor_shapes[x][2], 1 + (int)rnd(2) };
        stripe_t s;
        if (stripe_make(&s, c, 1 + rnd(3 * c.k * 4), 0, 0) != 0) { oracle_fail("C01", "cannot encode with XOR shape (%d,%d,%d)", c.k, c.m, c.hd); continue; }
        for (int e = 0; e < c.hd; e++) {
            int comb[8]; for (int i = 0; i < e; i++) comb[i] = i;
            do {
                if (!tier && e >= 2 && rnd(e == 2 ? 6 : 40) != 0) continue;
                uint64_t g = 0; for (int i = 0; i < e; i++) g |= 1ull << comb[i];
                rt_one(&s, g, 0, 0);
                stat_add("rt.xor_sets", 1);
            } while (e > 0 && next_comb(comb, e, s.n));
        }
        stripe_free(&s);
    }
    /* small RS codes: every erasure set with at most m missing */
    for (int n = 2; n <= (tier ? 12 : 8); n++) for (int k = 1; k < n; k++) {
        int m = n - k;
        if (!tier && rnd(3) != 0) continue;
        for (int b = 0; b < (g_isal ? 3 : 1); b++) {
            cfg_t c = { b == 0 ? 6 : (b == 1 ? 4 : 7), k, m, m, 1 };
            stripe_t s;
            if (stripe_make(&s, c, 1 + rnd(4 * k * cfg_wbytes(c)), 0, 0) != 0) continue;
            for (uint64_t g = 0; g < (1ull << n); g++) {
                if (__builtin_popcountll(g) > m) continue;
                if (!tier && n > 6 && rnd(4) != 0) continue;
                rt_one(&s, g, 0, 0);
                stat_add("rt.rs_small_sets", 1);
            }
            stripe_free(&s);
        }
    }
}

/* ======================================================================= nsc (C02) */
static void nsc_one(stripe_t *s, uint64_t gone, int dup) {
    char *fr[80]; int n = survivors(s, gone, fr);
    if (dup && n) { fr[n] = fr[rnd(n)]; n++; if (rnd(2)) shuffle(fr, n); }
    int v = op_dec(s->c, 0, s->flen, n, fr, 0, s->data, s->len);
    if (v == 1) oracle_fail("C02", "decode succeeded with wrong bytes: be=%d (%d,%d,%d) missing mask %llx",
                            s->c.be, s->c.k, s->c.m, s->c.hd, (unsigned long long)gone);
    stat_add(v == 0 ? "nsc.dec_exact" : (v == 1 ? "nsc.dec_WRONG" : "nsc.dec_error"), 1);
    /* reconstruct each missing index (and one present) from the same set */
    for (int d = 0; d < s->n; d++) {
        if (!((gone >> d) & 1) && d != 0) continue;
        if (s->n > 10 && rnd(3) != 0) continue;
        int r = op_rec(s->c, 0, d, s->flen, n, fr, 0, (unsigned char *)s->all[d]);
        if (r == 1) oracle_fail("C02", "reconstruct of index %d succeeded with wrong bytes: be=%d (%d,%d,%d) missing mask %llx",
                                d, s->c.be, s->c.k, s->c.m, s->c.hd, (unsigned long long)gone);
        stat_add(r == 0 ? "nsc.rec_exact" : (r == 1 ? "nsc.rec_WRONG" : "nsc.rec_error"), 1);
    }
}

void suite_nsc(int tier) {
    /* direct oracle, exhaustive over erasure sets up to one beyond the tolerance */
    sweep_all(tier, 1, 1, "C02", "nsc.sweep_sets");
    sweep_large(tier, 1, "C02", "nsc.large");
    sweep_boundary(6, 1, "C02", "nsc.boundary_sets", NULL);
    /* sequences of calls on one instance (state kept between calls) */
    for (int n = 3; n <= (tier ? 8 : 7); n++) for (int k = 1; k < n - 1; k++) {
        cfg_t c = { 6, k, n - k, n - k, 1 + (int)rnd(2) }; stripe_t s;
        if (stripe_make(&s, c, 1 + rnd(8 * k), 0, 0) == 0) { sweep_neighbours(&s, n <= 6, "C02", "nsc.sequence_pairs"); stripe_free(&s); }
    }
    /* small codes: every subset of the stripe */
    for (int x = 0; x < n_xor_shapes; x++) {
        cfg_t c = { 3, xor_shapes[x][0], xor_shapes[x][1], xor_shapes[x][2], 1 };
        int n = c.k + c.m;
        stripe_t s;
        if (stripe_make(&s, c, 1 + rnd(2 * c.k * 4), 0, 0) != 0) continue;
        if (n <= (tier ? 12 : 6)) {
            for (uint64_t g = 0; g < (1ull << n); g++) nsc_one(&s, g, 0);
        } else {
            /* all sets of size hd..m are beyond the XOR tolerance but pass the front-end count check */
            int per = tier ? 400 : 14;
            for (int q = 0; q < per; q++) {
                int cnt = c.hd + (int)rnd(c.m - c.hd + 2);
                if (cnt > n) cnt = n;
                nsc_one(&s, random_erasures(n, cnt), rnd(4) == 0);
            }
            /* the all-data-prefix patterns that the classifier sees first */
            for (int cnt = c.hd; cnt <= c.m; cnt++) nsc_one(&s, (1ull << cnt) - 1, 0);
        }
        stripe_free(&s);
        stat_add("nsc.xor_tables", 1);
    }
    for (int n = 2; n <= (tier ? 10 : 7); n++) for (int k = 1; k < n; k++) {
        if (!tier && rnd(2) != 0) continue;
        for (int b = 0; b < (g_isal ? 3 : 1); b++) {
            cfg_t c = { b == 0 ? 6 : (b == 1 ? 4 : 7), k, n - k, n - k, 1 + (int)rnd(2) };
            stripe_t s;
            if (stripe_make(&s, c, 1 + rnd(3 * k * cfg_wbytes(c)), 0, 0) != 0) continue;
            for (uint64_t g = 0; g < (1ull << n); g++) {
                if (!tier && n > 5 && rnd(3) != 0) continue;
                nsc_one(&s, g, rnd(8) == 0);
            }
            stripe_free(&s);
            stat_add("nsc.rs_codes", 1);
        }
    }
    /* larger RS codes, sampled */
    for (int t = 0; t < (tier ? 120 : 12); t++) {
        cfg_t c = cfg_random_ec();
        if (c.be == 3) continue;
        stripe_t s;
        if (stripe_make(&s, c, 1 + rnd(64), 0, 0) != 0) continue;
        int cnt = c.m + 1 + (int)rnd(2); if (cnt > s.n) cnt = s.n;
        nsc_one(&s, random_erasures(s.n, cnt), rnd(3) == 0);
        nsc_one(&s, random_erasures(s.n, c.m), rnd(3) == 0);
        stripe_free(&s);
    }
}

/* ======================================================================= recon (C03) */
static void recon_set(stripe_t *s, uint64_t gone, int legacy, int all_dests) {
    char *fr[80]; int n = survivors(s, gone, fr);
    int variant = (int)rnd(4), misalign = 0;
    if (variant == 1) shuffle(fr, n);
    if (variant == 2) misalign = 1 + (int)rnd(14);
    if (variant == 3 && n) { fr[n] = fr[rnd(n)]; n++; }
    for (int d = 0; d < s->n; d++) {
        int in_e = (int)((gone >> d) & 1);
        if (!all_dests && !in_e && rnd(4) != 0) continue;
        int r = op_rec(s->c, legacy, d, s->flen, n, fr, misalign, (unsigned char *)s->all[d]);
        if (r != 0) oracle_fail("C03", "reconstruct index %d (%s the erasure set %llx) gave %s%d, be=%d (%d,%d,%d)",
                                d, in_e ? "in" : "outside", (unsigned long long)gone, r == 1 ? "different bytes " : "error ", r,
                                s->c.be, s->c.k, s->c.m, s->c.hd);
        stat_add(in_e ? "recon.dest_missing" : "recon.dest_present", 1);
    }
}

void suite_recon(int tier) {
    int cases = tier ? 250 : 40;
    for (int t = 0; t < cases; t++) {
        cfg_t c = cfg_random_ec();
        size_t len = gen_len(c, 0);
        if (c.k + c.m > 16 && len > 200) len = 1 + rnd(200);
        int legacy = rnd(5) == 0;
        stripe_t s;
        if (stripe_make(&s, c, len, (int)rnd(3), legacy) != 0) continue;
        note_cfg("recon", c);
        int tol = cfg_tolerance(c);
        recon_set(&s, random_erasures(s.n, tol), legacy, 0);
        recon_set(&s, random_erasures(s.n, 1), legacy, 0);
        if (rnd(3) == 0) recon_set(&s, 0, legacy, 0);
        /* out-of-range destinations must be refused */
        {
            char *fr[80]; int n = survivors(&s, 1, fr);
            int bad[] = { -1, s.n, s.n + 1, 64, 0x7fffffff, (int)0x80000000, -s.n };
            for (unsigned q = 0; q < sizeof bad / sizeof bad[0]; q++) {
                op_rec_g(c, 0, bad[q], s.flen, n, fr);
                stat_add("recon.dest_out_of_range", 1);
            }
        }
        stripe_free(&s);
    }
    /* direct oracle, exhaustive over erasure sets, every missing member rebuilt */
    sweep_all(tier, 1, 0, "C03", "recon.sweep_sets");
    for (int n = 3; n <= (tier ? 8 : 6); n++) for (int k = 1; k < n - 1; k++) {
        cfg_t c = { 6, k, n - k, n - k, 2 }; stripe_t s;
        if (stripe_make(&s, c, 1 + rnd(8 * k), 0, 0) == 0) { sweep_neighbours(&s, 1, "C03", "recon.sequence_pairs"); stripe_free(&s); }
    }
    sweep_large(tier, 1, "C03", "recon.large");
    sweep_boundary(6, 1, "C03", "recon.boundary_sets", NULL);
    /* XOR: every table, every set below hd, every destination */
    for (int x = 0; x < n_xor_shapes; x++) {
        cfg_t c = { 3, xor_shapes[x][0], xor_shapes[x][1], xor_shapes[x][2], 2 };
        stripe_t s;
        if (stripe_make(&s, c, 1 + rnd(2 * c.k * 4), 0, 0) != 0) continue;
        for (int e = 1; e < c.hd; e++) {
            int comb[8]; for (int i = 0; i < e; i++) comb[i] = i;
            do {
                if (!tier && rnd(e == 1 ? 3 : (e == 2 ? 25 : 200)) != 0) continue;
                uint64_t g = 0; for (int i = 0; i < e; i++) g |= 1ull << comb[i];
                recon_set(&s, g, 0, tier);
                stat_add("recon.xor_sets", 1);
            } while (next_comb(comb, e, s.n));
        }
        stripe_free(&s);
    }
    /* small RS: all sets, all destinations */
    for (int n = 2; n <= (tier ? 9 : 6); n++) for (int k = 1; k < n; k++) {
        if (!tier && rnd(3) != 0) continue;
        for (int b = 0; b < (g_isal ? 3 : 1); b++) {
            cfg_t c = { b == 0 ? 6 : (b == 1 ? 4 : 7), k, n - k, n - k, 2 };
            stripe_t s;
            if (stripe_make(&s, c, 1 + rnd(3 * k * cfg_wbytes(c)), 0, 0) != 0) continue;
            for (uint64_t g = 1; g < (1ull << n); g++) {
                if (__builtin_popcountll(g) > n - k) continue;
                if (!tier && rnd(3) != 0) continue;
                recon_set(&s, g, 0, 1);
            }
            stripe_free(&s);
        }
    }
}

/* ======================================================================= rsmat (C04) */
void suite_rsmat(int tier) {
    /* the same generator whatever other instances were created and destroyed before (runs first) */
    { extern void churn(const char *prop, int tier, int rs_only); for (int r = 0; r < (tier ? 10 : 3); r++) churn("C04", tier, 1); }
    /* make sure the tables exist */
    cfg_t c0 = { 6, 2, 1, 1, 1 };
    if (cfg_desc(c0) <= 0) { oracle_fail("C04", "cannot create an rs_vand instance"); return; }
    /* every shape: the library's matrix, entry by entry */
    for (int k = 1; k <= 31; k++) for (int m = 1; k + m <= 32; m++) {
        op_begin("matrix %d %d", k, m); op_sep();
        int *mat = make_systematic_matrix(k, m);
        if (!mat) { res_end("null"); continue; }
        res_hex_begin("ok 1 ");
        for (int i = 0; i < (k + m) * k; i++) printf("%s%d", i ? "," : "", mat[i]);
        res_nl();
        /* first parity row all ones, identity on top */
        for (int j = 0; j < k; j++) if (mat[k * k + j] != 1) { oracle_fail("C04", "first parity row of (%d,%d) has entry %d at column %d", k, m, mat[k * k + j], j); break; }
        for (int i = 0; i < k; i++) for (int j = 0; j < k; j++)
            if (mat[i * k + j] != (i == j)) { oracle_fail("C04", "(%d,%d) is not systematic at (%d,%d)", k, m, i, j); i = k; break; }
        free_systematic_matrix(mat);
        stat_add("rsmat.shapes", 1);
    }
    /* parity bytes: encode vs the model (and vs an independent shift-and-add product over the
       library's own matrix) for block sizes of every residue modulo 16 */
    for (int t = 0; t < (tier ? 400 : 60); t++) {
        int k = 1 + (int)rnd(t % 5 == 0 ? 31 : 12), m = 1 + (int)rnd(t % 5 == 0 ? 32 - k : 5);
        if (k + m > 32) m = 32 - k;
        cfg_t c = { 6, k, m, m, 1 };
        size_t bs = 2 * (1 + (t % 8)) + (rnd(4) == 0 ? 16 * rnd(20) : 0);
        if (t % 20 == 7) { bs = 2 * (8192 + rnd(200000)); if (k > 6) k = 1 + (int)rnd(6); if (m > 3) m = 1 + (int)rnd(3); c = (cfg_t){ 6, k, m, m, 1 }; }   /* bulk paths; oracle only for the bytes */
        if (t % 4 == 1) {   /* medium blocks (1-8 KiB: unrolled / fused kernels) for every residue of k modulo 8 */
            static const int ks[] = { 3, 7, 2, 5, 11, 4, 6, 9, 15, 1, 8, 13, 10, 12, 14, 16 };
            k = ks[(t / 4) % 16]; m = 2 + (int)rnd(3); bs = 2 * (512 + rnd(3584)); c = (cfg_t){ 6, k, m, m, 1 };
        }
        size_t len = (size_t)k * bs - (rnd(3) == 0 ? rnd(2 * k) % (k * bs) : 0);
        if (len == 0) len = 1;
        unsigned char *d = gen_data(len, (int)rnd(3));
        stripe_t s;
        int erc;
        if (bs > 4096) { erc = stripe_make(&s, c, len, 0, 0); }     /* large: the independent matrix*data oracle below, no model line */
        else erc = op_enc(c, 0, d, len, &s);
        if (erc != 0) { oracle_fail("C04", "encode failed for (%d,%d)", k, m); free(d); continue; }
        free(d);
        int *mat = make_systematic_matrix(k, m);
        uint64_t pb = s.flen - HDR;
        for (int r = 0; r < m && mat; r++) for (uint64_t w = 0; w + 1 < pb; w += 2) {
            unsigned acc = 0;
            for (int j = 0; j < k; j++) {
                unsigned x = (unsigned char)s.all[j][HDR + w] | ((unsigned)(unsigned char)s.all[j][HDR + w + 1] << 8);
                unsigned g = (unsigned)mat[(k + r) * k + j], pr = 0;
                for (int bit = 0; bit < 16; bit++) { if (g & (1u << bit)) pr ^= x; x <<= 1; if (x & 0x10000) x ^= 0x1100b; }
                acc ^= pr;
            }
            unsigned got = (unsigned char)s.all[k + r][HDR + w] | ((unsigned)(unsigned char)s.all[k + r][HDR + w + 1] << 8);
            if (got != acc) { oracle_fail("C04", "parity %d word %llu of (%d,%d) block size %llu is %04x, matrix*data gives %04x", r, (unsigned long long)(w / 2), k, m, (unsigned long long)pb, got, acc); r = m; break; }
        }
        if (mat) free_systematic_matrix(mat);
        /* the code is over GF(2^16) whatever word size the caller asked for at creation */
        if (t % 3 == 0) {
            static const int ws[] = { 8, 32, 16, 64, 9 };
            struct ec_args a; memset(&a, 0, sizeof a); a.k = k; a.m = m; a.hd = m; a.w = ws[rnd(5)]; a.ct = CHKSUM_NONE;
            int d2 = liberasurecode_instance_create(EC_BACKEND_LIBERASURECODE_RS_VAND, &a);
            if (d2 > 0) {
                char **ed = NULL, **ep = NULL; uint64_t fl = 0;
                if (liberasurecode_encode(d2, (char *)s.data, s.len, &ed, &ep, &fl) == 0) {
                    int same = fl == s.flen;
                    for (int i = 0; same && i < k; i++) same = !memcmp(ed[i], s.all[i], fl);
                    for (int i = 0; same && i < m; i++) same = !memcmp(ep[i], s.all[k + i], fl);
                    if (!same) oracle_fail("C04", "(%d,%d) len=%llu: fragments differ when the instance is created with w=%d (payload %llu vs %llu bytes)", k, m, (unsigned long long)s.len, a.w, (unsigned long long)(fl - HDR), (unsigned long long)pb);
                    liberasurecode_encode_cleanup(d2, ed, ep);
                } else oracle_fail("C04", "encode failed on an rs_vand instance created with w=%d", a.w);
                liberasurecode_instance_destroy(d2);
                stat_add("rsmat.w_variation", 1);
            }
        }
        char key[40]; snprintf(key, sizeof key, "rsmat.parity_bs_mod16_%llu", (unsigned long long)(pb % 16)); stat_add(key, 1);
        stripe_free(&s);
    }
    /* log / antilog tables, all entries */
    for (int start = 0; start < 65536; start += 4096) {
        op_begin("gftab %d %d", start, 4096); op_sep();
        res_hex_begin("ok ");
        for (int x = start; x < start + 4096; x++) printf("%s%d", x > start ? "," : "", x == 0 ? 0 : log_table[x]);
        fputc(' ', stdout);
        for (int x = start; x < start + 4096; x++) printf("%s%d", x > start ? "," : "", x < 65535 ? ilog_table_begin[x] : ilog_table_begin[x - 65535]);
        res_nl();
    }
    for (int i = 0; i < 65535; i += 997) {
        if (ilog_table_begin[i] != ilog_table_begin[i + 65535] || ilog_table_begin[i] != ilog_table_begin[i + 2 * 65535])
            oracle_fail("C04", "antilog table copies differ at %d", i);
    }
    /* field multiplication / division */
    int np = tier ? 200000 : 20000;
    int edge[] = { 0, 1, 2, 3, 0x8000, 0xffff, 0x100b, 0x1234 };
    for (int i = 0; i < np; i++) {
        int a, b;
        if (i < 64) { a = edge[i / 8]; b = edge[i % 8]; }
        else if (i < 64 + 8 * 256) { a = edge[(i - 64) % 8]; b = (int)rnd(65536); }
        else { a = (int)rnd(65536); b = (int)rnd(65536); }
        op_begin("gmul %d %d", a, b); op_sep();
        int p = rs_galois_mult(a, b);
        res_end("%d %d %d", p, p, rs_galois_div(a, b));
    }
    stat_add("rsmat.gmul_pairs", np);
}

/* ======================================================================= xor (C05) */
#include "xor_golden.h"
/* parity j of the stripe is the XOR of the data payloads its fixed (golden) equation names */
void xor_fixed_equations(stripe_t *s) {
    cfg_t c = s->c; size_t bs = s->flen - HDR;
    for (int g = 0; g < N_XOR_GOLDEN; g++) {
        if (XOR_GOLDEN[g].hd != c.hd || XOR_GOLDEN[g].m != c.m || XOR_GOLDEN[g].k != c.k) continue;
        unsigned char *acc = malloc(bs ? bs : 1);
        for (int j = 0; j < c.m; j++) {
            memset(acc, 0, bs);
            for (int i = 0; i < c.k; i++) if ((XOR_GOLDEN[g].pbm[j] >> i) & 1) for (size_t b = 0; b < bs; b++) acc[b] ^= (unsigned char)s->all[i][HDR + b];
            if (memcmp(acc, s->all[c.k + j] + HDR, bs)) oracle_fail("C05", "XOR (%d,%d,%d): parity %d is not the XOR of the data fragments its fixed equation (%#x) names", c.k, c.m, c.hd, j, XOR_GOLDEN[g].pbm[j]);
        }
        free(acc);
        stat_add("xor.fixed_equation_stripes", 1);
        return;
    }
    oracle_fail("C05", "no fixed equations recorded for XOR (%d,%d,%d)", c.k, c.m, c.hd);
}

void suite_xor(int tier) {
    /* every table x payload sizes x all erasure sets below hd: decode and reconstruct each member */
    for (int x = 0; x < n_xor_shapes; x++) {
        cfg_t c = { 3, xor_shapes[x][0], xor_shapes[x][1], xor_shapes[x][2], 1 };
        size_t unit = (size_t)c.k * 4;
        /* payload sizes 4,12,16,20,36,... bytes: multiples of 4 that are and are not multiples of 16 */
        size_t lens[] = { 1, unit * 3, unit * 4, unit * 5 - 1, unit * 9, unit * 17 + 3 };
        int nl = tier ? 6 : 3;
        for (int li = 0; li < nl; li++) {
            size_t len = tier ? lens[li] : lens[(x + li * 2) % 6];
            unsigned char *d = gen_data(len, li % 3);
            stripe_t s;
            if (op_enc(c, 0, d, len, &s) != 0) { oracle_fail("C05", "encode failed for XOR (%d,%d,%d)", c.k, c.m, c.hd); free(d); continue; }
            free(d);
            xor_fixed_equations(&s);
            for (int e = 1; e < c.hd; e++) {
                int comb[8]; for (int i = 0; i < e; i++) comb[i] = i;
                do {
                    if (!(tier && li == 0) && e >= 2 && rnd(e == 2 ? (tier ? 2 : 12) : (tier ? 10 : 120)) != 0) continue;
                    uint64_t g = 0; for (int i = 0; i < e; i++) g |= 1ull << comb[i];
                    char *fr[80]; int n = survivors(&s, g, fr);
                    int v = op_dec(c, 0, s.flen, n, fr, 0, s.data, s.len);
                    if (v != 0) oracle_fail("C05", "XOR (%d,%d,%d): erasure mask %llx not decoded (%d)", c.k, c.m, c.hd, (unsigned long long)g, v);
                    for (int i = 0; i < e; i++) {
                        int r = op_rec(c, 0, comb[i], s.flen, n, fr, 0, (unsigned char *)s.all[comb[i]]);
                        if (r != 0) oracle_fail("C05", "XOR (%d,%d,%d): index %d of erasure mask %llx not reconstructed (%d)", c.k, c.m, c.hd, comb[i], (unsigned long long)g, r);
                    }
                    stat_add("xor.sets", 1);
                } while (next_comb(comb, e, s.n));
            }
            stripe_free(&s);
        }
        stat_add("xor.tables", 1);
    }
    /* direct oracle: every table, every erasure set below hd, decode and every member rebuilt */
    for (int x = 0; x < n_xor_shapes; x++) {
        cfg_t c = { 3, xor_shapes[x][0], xor_shapes[x][1], xor_shapes[x][2], 1 };
        stripe_t s;
        if (stripe_make(&s, c, (size_t)c.k * 4 * (2 + rnd(5)) + rnd(4), 0, 0) != 0) continue;
        sweep_stripe(&s, c.hd - 1, 1, "C05", "xor.sweep_sets");
        stripe_free(&s);
    }
    sweep_large(tier, 1, "C05", "xor.large");
    /* the box of shapes around the whitelist */
    for (int k = -1; k <= 33; k++) for (int m = -1; m <= 33; m++) for (int hd = 0; hd <= 7; hd++) {
        int interesting = (m >= 2 && m <= 8) && k >= 1 && k <= 23;       /* the whole neighbourhood of the tables, every hd */
        if (!tier && !interesting && rnd(40) != 0) continue;
        op_create(3, k, m, hd, 0);
        stat_add("xor.create_box", 1);
    }
}

/* ======================================================================= need (C06) */
/* is `target` in the GF(2) span of `vecs`?  vectors are byte strings of length len */
static int in_span(unsigned char **vecs, int nv, const unsigned char *target, size_t len) {
    unsigned char **basis = malloc(sizeof(char *) * (nv + 1));
    int *pivot = malloc(sizeof(int) * (nv + 1));
    int nb = 0;
    for (int v = 0; v <= nv; v++) {
        unsigned char *cur = malloc(len);
        memcpy(cur, v < nv ? vecs[v] : target, len);
        for (int b = 0; b < nb; b++)
            if (cur[pivot[b] / 8] & (1u << (pivot[b] % 8))) for (size_t j = 0; j < len; j++) cur[j] ^= basis[b][j];
        int pv = -1;
        for (size_t j = 0; j < len * 8; j++) if (cur[j / 8] & (1u << (j % 8))) { pv = (int)j; break; }
        if (v == nv) { for (int b = 0; b < nb; b++) free(basis[b]); free(basis); free(pivot); free(cur); return pv < 0; }
        if (pv < 0) { free(cur); continue; }
        basis[nb] = cur; pivot[nb] = pv; nb++;
    }
    return 0;
}

static int g_need_quiet = 0;     /* 1: direct oracle only (no model line) */
static void need_case(stripe_t *s, int *r, int *x) {
    cfg_t c = s->c;
    int out[80]; out[0] = -1;
    int rc;
    if (g_need_quiet) { for (int i = 0; i < 80; i++) out[i] = -1; rc = liberasurecode_fragments_needed(s->desc, r, x, out); stat_add("need.sweep_cases", 1); }
    else rc = op_need(c, r, x, out, 0);
    int nr = 0, nx = 0; while (r[nr] >= 0) nr++; while (x[nx] >= 0) nx++;
    int tol = cfg_tolerance(c);
    if (rc != 0) {
        if (nr + nx <= tol) oracle_fail("C06", "fragments_needed failed (%d) within tolerance: be=%d (%d,%d,%d) |R|=%d |X|=%d R0=%d", rc, c.be, c.k, c.m, c.hd, nr, nx, r[0]);
        stat_add("need.error", 1);
        return;
    }
    stat_add("need.ok", 1);
    uint64_t seen = 0; int cnt = 0;
    for (int i = 0; out[i] != -1; i++, cnt++) {
        int v = out[i];
        if (v < 0 || v >= s->n) { oracle_fail("C06", "fragments_needed returned out-of-range index %d: be=%d (%d,%d,%d) R0=%d", v, c.be, c.k, c.m, c.hd, r[0]); return; }
        if ((seen >> v) & 1) { oracle_fail("C06", "fragments_needed returned index %d twice", v); return; }
        seen |= 1ull << v;
        for (int j = 0; j < nr; j++) if (r[j] == v) { oracle_fail("C06", "fragments_needed returned requested index %d", v); return; }
        for (int j = 0; j < nx; j++) if (x[j] == v) { oracle_fail("C06", "fragments_needed returned excluded index %d: be=%d (%d,%d,%d) R0=%d X0=%d", v, c.be, c.k, c.m, c.hd, r[0], x[0]); return; }
    }
    if (c.be != 3 && cnt != c.k) oracle_fail("C06", "Reed-Solomon fragments_needed returned %d indexes, k=%d", cnt, c.k);
    /* sufficiency: every requested payload lies in the span of the returned payloads (GF(2) for XOR);
       for RS: reconstruct through the API from exactly the returned fragments */
    if (c.be == 3) {
        unsigned char *vecs[80]; int nv = 0;
        for (int i = 0; out[i] != -1; i++) vecs[nv++] = (unsigned char *)s->all[out[i]] + HDR;
        for (int j = 0; j < nr; j++)
            if (!in_span(vecs, nv, (unsigned char *)s->all[r[j]] + HDR, s->flen - HDR))
                oracle_fail("C06", "returned set does not determine requested index %d: be=3 (%d,%d,%d)", r[j], c.k, c.m, c.hd);
    } else {
        char *fr[80]; int n = 0;
        for (int i = 0; out[i] != -1; i++) fr[n++] = s->all[out[i]];
        for (int j = 0; j < nr; j++) {
            char *of = malloc(s->flen);
            int rr = liberasurecode_reconstruct_fragment(s->desc, fr, n, s->flen, r[j], of);
            if (rr != 0 || memcmp(of, s->all[r[j]], s->flen))
                oracle_fail("C06", "reconstructing index %d from only the returned fragments failed (%d)", r[j], rr);
            free(of);
        }
    }
}

static void perm(int *a, int n) { for (int i = n - 1; i > 0; i--) { int j = (int)rnd(i + 1); int t = a[i]; a[i] = a[j]; a[j] = t; } }

void suite_need(int tier) {
    /* far beyond tolerance, and lists as long as (or longer than) the stripe: everything else excluded, every fragment
       requested, an index repeated many times — an error (model: -1), never a wrong list, never a fault */
    for (int xi = -3; xi < n_xor_shapes; xi++) {
        cfg_t c = xi >= 0 ? (cfg_t){ 3, xor_shapes[xi][0], xor_shapes[xi][1], xor_shapes[xi][2], 1 } : (xi == -1 ? (cfg_t){ 6, 4, 2, 2, 1 } : (xi == -2 ? (cfg_t){ 6, 1, 1, 1, 1 } : (cfg_t){ 6, 10, 4, 4, 1 }));
        if (!tier && xi >= 0 && xi % 3 != (int)rnd(3)) continue;
        int n = c.k + c.m, r[80], x[80];
        r[0] = 0; r[1] = -1; for (int i = 1; i < n; i++) x[i - 1] = i; x[n - 1] = -1;
        op_need(c, r, x, NULL, 1);                                   /* rebuild 0 from nothing */
        for (int i = 0; i < n; i++) r[i] = n - 1 - i; r[n] = -1; x[0] = -1;
        op_need(c, r, x, NULL, 1);                                   /* rebuild everything */
        r[0] = c.k - 1; r[1] = -1; for (int i = 0; i < n + 7; i++) x[i] = (i * 3) % n == c.k - 1 ? 0 : (i * 3) % n; x[n + 7] = -1;
        op_need(c, r, x, NULL, 1);                                   /* a long exclude list with repetitions */
        stat_add("need.long_lists", 3);
    }
    /* direct oracle, exhaustive: every XOR table, every set below hd, every split into (R, X), two orders */
    g_need_quiet = 1;
    for (int xi = 0; xi < n_xor_shapes; xi++) {
        cfg_t c = { 3, xor_shapes[xi][0], xor_shapes[xi][1], xor_shapes[xi][2], 1 };
        stripe_t s;
        if (stripe_make(&s, c, 8 * c.k * 4, 0, 0) != 0) continue;
        if (!tier && c.k + c.m > 20 && rnd(2)) { stripe_free(&s); continue; }
        for (int tot = 1; tot < c.hd; tot++) {
            int comb[8]; for (int i = 0; i < tot; i++) comb[i] = i;
            do {
                for (int mask = 1; mask < (1 << tot); mask++) for (int ord = 0; ord < 2; ord++) {
                    int r[8], x[8], nr = 0, nx = 0;
                    for (int i = 0; i < tot; i++) { int j = ord ? tot - 1 - i : i; if ((mask >> j) & 1) r[nr++] = comb[j]; else x[nx++] = comb[j]; }
                    r[nr] = -1; x[nx] = -1;
                    need_case(&s, r, x);
                }
            } while (next_comb(comb, tot, s.n));
        }
        stripe_free(&s);
    }
    g_need_quiet = 0;
    /* XOR tables: all disjoint (R, X) with |R| >= 1 and |R|+|X| < hd */
    for (int xi = 0; xi < n_xor_shapes; xi++) {
        cfg_t c = { 3, xor_shapes[xi][0], xor_shapes[xi][1], xor_shapes[xi][2], 1 };
        stripe_t s;
        if (stripe_make(&s, c, 16 * c.k * 4, 0, 0) != 0) continue;
        int n = s.n;
        for (int tot = 1; tot < c.hd; tot++) {
            int comb[8]; for (int i = 0; i < tot; i++) comb[i] = i;
            do {
                if (!tier && tot >= 2 && rnd(tot == 2 ? 5 : 60) != 0) continue;
                /* every split of the chosen set into R (non-empty) and X */
                for (int mask = 1; mask < (1 << tot); mask++) {
                    int r[8], x[8], nr = 0, nx = 0;
                    for (int i = 0; i < tot; i++) if ((mask >> i) & 1) r[nr++] = comb[i]; else x[nx++] = comb[i];
                    if (rnd(2)) { perm(r, nr); perm(x, nx); }
                    r[nr] = -1; x[nx] = -1;
                    need_case(&s, r, x);
                }
            } while (next_comb(comb, tot, n));
        }
        /* beyond tolerance: an error or a correct answer, never a wrong list */
        for (int q = 0; q < (tier ? 60 : 6); q++) {
            int tot = c.hd + (int)rnd(3); if (tot > n) tot = n;
            uint64_t g = random_erasures(n, tot);
            int r[40], x[40], nr = 0, nx = 0;
            for (int i = 0; i < n; i++) if ((g >> i) & 1) { if (nr == 0 || rnd(2)) r[nr++] = i; else x[nx++] = i; }
            r[nr] = -1; x[nx] = -1;
            need_case(&s, r, x);
            stat_add("need.beyond_tolerance", 1);
        }
        stripe_free(&s);
    }
    /* RS: n <= 12 exhaustive over sets (thorough), sampled otherwise */
    for (int n = 2; n <= (tier ? 12 : 7); n++) for (int k = 1; k < n; k++) {
        if (!tier && rnd(2) != 0) continue;
        for (int b = 0; b < (g_isal ? 3 : 1); b++) {
            cfg_t c = { b == 0 ? 6 : (b == 1 ? 4 : 7), k, n - k, n - k, 1 };
            stripe_t s;
            if (stripe_make(&s, c, 1 + rnd(2 * k * cfg_wbytes(c)), 0, 0) != 0) continue;
            for (uint64_t g = 1; g < (1ull << n); g++) {
                int tot = __builtin_popcountll(g);
                if (tot > n - k + 1) continue;
                if (!tier && rnd(n > 5 ? 6 : 2) != 0) continue;
                if (tier && n > 9 && rnd(4) != 0) continue;
                int idx[16], ni = 0; for (int i = 0; i < n; i++) if ((g >> i) & 1) idx[ni++] = i;
                int nr = 1 + (int)rnd(ni);
                perm(idx, ni);
                int r[16], x[16];
                for (int i = 0; i < nr; i++) r[i] = idx[i];
                for (int i = nr; i < ni; i++) x[i - nr] = idx[i];
                r[nr] = -1; x[ni - nr] = -1;
                need_case(&s, r, x);
            }
            stripe_free(&s);
        }
    }
    for (int t = 0; t < (tier ? 200 : 20); t++) {
        cfg_t c = cfg_random_ec();
        if (c.be == 3) continue;
        stripe_t s;
        if (stripe_make(&s, c, 1 + rnd(64), 0, 0) != 0) continue;
        int tot = 1 + (int)rnd(c.m);
        uint64_t g = random_erasures(s.n, tot);
        int r[40], x[40], nr = 0, nx = 0;
        for (int i = 0; i < s.n; i++) if ((g >> i) & 1) { if (nr == 0 || rnd(2)) r[nr++] = i; else x[nx++] = i; }
        r[nr] = -1; x[nx] = -1;
        need_case(&s, r, x);
        stripe_free(&s);
    }
}
