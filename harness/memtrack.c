/*
 * memtrack.c — allocation ledger for the plain (non-sanitizer) harness build.
 *
 * Defines malloc/calloc/realloc/free/posix_memalign/memalign/aligned_alloc in the
 * executable, so the dynamic linker resolves the library's allocator calls here
 * (symbol interposition); the real work is done by glibc's __libc_* entry points.
 * While tracking is on, every block handed out is recorded; frees are matched.
 */
#ifdef VERIF_MEMTRACK
#define _GNU_SOURCE 1
#include <stddef.h>
#include <stdint.h>
#include <string.h>
#include <errno.h>
#include "memtrack.h"

extern void *__libc_malloc(size_t);
extern void *__libc_calloc(size_t, size_t);
extern void *__libc_realloc(void *, size_t);
extern void *__libc_memalign(size_t, size_t);
extern void __libc_free(void *);

#define SLOTS (1u << 16)
static void *g_live[SLOTS];
static size_t g_size[SLOTS];
static void *g_dead[SLOTS];          /* recently freed tracked blocks (double-free detection) */
static volatile int g_on = 0;
static long g_blocks = 0, g_bytes = 0, g_double = 0, g_allocs = 0, g_frees = 0;
static int g_fail_after = -1;        /* allocation fault injection: fail the n-th allocation */

static unsigned hp(void *p) { return (unsigned)(((uintptr_t)p >> 4) * 2654435761u) & (SLOTS - 1); }

static void rec_alloc(void *p, size_t n) {
    if (!g_on || !p) return;
    unsigned h = hp(p);
    for (unsigned i = 0; i < SLOTS; i++) {
        unsigned s = (h + i) & (SLOTS - 1);
        if (g_dead[s] == p) g_dead[s] = NULL;
        if (!g_live[s]) { g_live[s] = p; g_size[s] = n; g_blocks++; g_bytes += (long)n; g_allocs++; return; }
    }
}
static void rec_free(void *p) {
    if (!p) return;
    unsigned h = hp(p);
    for (unsigned i = 0; i < SLOTS; i++) {
        unsigned s = (h + i) & (SLOTS - 1);
        if (g_live[s] == p) {
            g_live[s] = NULL; g_blocks--; g_bytes -= (long)g_size[s]; g_frees++;
            /* keep later probes reachable: re-insert the cluster that follows */
            unsigned j = (s + 1) & (SLOTS - 1);
            while (g_live[j]) { void *q = g_live[j]; size_t z = g_size[j]; g_live[j] = NULL;
                unsigned hh = hp(q); for (unsigned t = 0; t < SLOTS; t++) { unsigned u = (hh + t) & (SLOTS - 1); if (!g_live[u]) { g_live[u] = q; g_size[u] = z; break; } }
                j = (j + 1) & (SLOTS - 1); }
            if (g_on) g_dead[h] = p;
            return;
        }
        if (!g_live[s]) break;
    }
    if (g_on && g_dead[h] == p) g_double++;
}

static int should_fail(void) {
    if (!g_on || g_fail_after < 0) return 0;
    if (g_fail_after == 0) { g_fail_after = -1; return 1; }
    g_fail_after--; return 0;
}

void *malloc(size_t n) { if (should_fail()) { errno = ENOMEM; return NULL; } void *p = __libc_malloc(n); rec_alloc(p, n); return p; }
void *calloc(size_t a, size_t b) { if (should_fail()) { errno = ENOMEM; return NULL; } void *p = __libc_calloc(a, b); rec_alloc(p, a * b); return p; }
void *realloc(void *o, size_t n) { void *p = __libc_realloc(o, n); if (p) { if (o) rec_free(o); rec_alloc(p, n); } return p; }
void free(void *p) {
    if (p) {
        /* a tracked double free must not reach glibc (it would abort): count it instead */
        unsigned h = hp(p); int tracked_dead = (g_on && g_dead[h] == p);
        int live = 0; for (unsigned i = 0; i < SLOTS; i++) { unsigned s = (h + i) & (SLOTS - 1); if (g_live[s] == p) { live = 1; break; } if (!g_live[s]) break; }
        if (!live && tracked_dead) { g_double++; return; }
        rec_free(p);
    }
    __libc_free(p);
}
int posix_memalign(void **out, size_t al, size_t n) {
    if (should_fail()) return ENOMEM;
    void *p = __libc_memalign(al, n); if (!p) return ENOMEM; rec_alloc(p, n); *out = p; return 0;
}
void *memalign(size_t al, size_t n) { void *p = __libc_memalign(al, n); rec_alloc(p, n); return p; }
void *aligned_alloc(size_t al, size_t n) { void *p = __libc_memalign(al, n); rec_alloc(p, n); return p; }

void mt_on(void) { g_on = 1; }
void mt_off(void) { g_on = 0; }
long mt_blocks(void) { return g_blocks; }
long mt_bytes(void) { return g_bytes; }
long mt_double_frees(void) { return g_double; }
void mt_fail_after(int n) { g_fail_after = n; }
int  mt_available(void) { return 1; }
#else
#include "memtrack.h"
void mt_on(void) {}
void mt_off(void) {}
long mt_blocks(void) { return 0; }
long mt_bytes(void) { return 0; }
long mt_double_frees(void) { return 0; }
void mt_fail_after(int n) { (void)n; }
int  mt_available(void) { return 0; }
#endif
