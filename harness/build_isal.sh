#!/bin/bash
# build_isal.sh <outdir> <mode> — builds the verif-owned reference libisal.so.2 into <outdir>
set -e
OUT="$1"; MODE="${2:-asan}"
HERE="$(cd "$(dirname "$0")" && pwd)"
case "$MODE" in
  asan|asanstrict)  SAN="-O1 -fsanitize=address,undefined -fno-sanitize-recover=undefined -fno-omit-frame-pointer" ;;
  plain) SAN="-O2" ;;
  tsan)  SAN="-O1 -fsanitize=thread" ;;
esac
gcc -g -fPIC -std=gnu99 -Wall $SAN -shared -Wl,-soname,libisal.so.2 -o "$OUT/libisal.so.2" "$HERE/isal_ref/isal_ref.c"
