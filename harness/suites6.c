/*
 * suites6.c — concurrency (C18): shared-descriptor workloads, per-thread create/use/destroy,
 * and forced interleavings through the LIBERASURECODE_VERIF yield hooks.
 */
#include "common.h"
#include "ops.h"
#include <pthread.h>
#include <semaphore.h>
#include <time.h>
#include <errno.h>

extern void (*liberasurecode_verif_yield)(int point, void *obj);
extern void (*rs_galois_verif_yield)(int point);
extern int *log_table;

#define MAXT 16
static pthread_barrier_t g_bar;

/* erasure patterns of a code, most demanding first: data-only sets of the largest tolerated size
   (for flat XOR these are the ones that take the rarely used decoder paths), then smaller ones,
   then a sample of mixed data/parity sets */
static int patterns_for(cfg_t c, uint64_t *out, int max) {
    int n = c.k + c.m, tol = cfg_tolerance(c), cnt = 0;
    if (tol > 4) tol = 4;
    for (int e = tol; e >= 1 && cnt < max; e--) {
        int idx[4] = { 0, 1, 2, 3 };
        if (e > c.k) continue;
        for (;;) {
            uint64_t pat = 0; for (int i = 0; i < e; i++) pat |= 1ull << idx[i];
            if (cnt < max) out[cnt++] = pat;
            int i = e - 1;
            while (i >= 0 && idx[i] == c.k - e + i) i--;
            if (i < 0) break;
            idx[i]++; for (int j = i + 1; j < e; j++) idx[j] = idx[j - 1] + 1;
        }
    }
    for (int t = 0; t < 24 && cnt < max; t++) {
        int e = 1 + (int)rnd(tol); uint64_t pat = 1ull << rnd(c.k); int have = 1;
        while (have < e) { int i = (int)rnd(n); if (!((pat >> i) & 1)) { pat |= 1ull << i; have++; } }
        out[cnt++] = pat;
    }
    return cnt;
}

/* ------------------------------------------------------------------ A: one shared descriptor */
typedef struct { stripe_t *s; int rounds; int tid; int bad; const uint64_t *pats; int npats; } shared_a;

static void *shared_worker(void *va) {
    shared_a *a = va; stripe_t *s = a->s; cfg_t c = s->c;
    uint64_t st = 0x9e3779b97f4a7c15ull * (uint64_t)(a->tid + 1);
    pthread_barrier_wait(&g_bar);
    for (int r = 0; r < a->rounds; r++) {
        st = st * 6364136223846793005ull + 1442695040888963407ull;
        /* every thread has its own data: bytes must equal that thread's reference stripe */
        char **ed = NULL, **ep = NULL; uint64_t fl = 0;
        if (liberasurecode_encode(s->desc, (char *)s->data, s->len, &ed, &ep, &fl) != 0) { a->bad++; continue; }
        for (int i = 0; i < c.k; i++) if (memcmp(ed[i], s->all[i], fl)) a->bad++;
        for (int i = 0; i < c.m; i++) if (memcmp(ep[i], s->all[c.k + i], fl)) a->bad++;
        /* decode without the fragments of this round's pattern: all threads are in the same decoder
           path at the same time, each with different contents */
        uint64_t pat = a->pats[r % a->npats];
        int drop = __builtin_ctzll(pat);
        char *fr[80]; int n = 0;
        for (int i = 0; i < s->n; i++) if (!((pat >> i) & 1)) fr[n++] = i < c.k ? ed[i] : ep[i - c.k];
        pthread_barrier_wait(&g_bar);
        char *od = NULL; uint64_t ol = 0;
        if (liberasurecode_decode(s->desc, fr, n, fl, (int)(st & 1), &od, &ol) != 0) a->bad++;
        else { if (ol != s->len || memcmp(od, s->data, ol)) a->bad++; liberasurecode_decode_cleanup(s->desc, od); }
        char *of = malloc(fl);
        if (liberasurecode_reconstruct_fragment(s->desc, fr, n, fl, drop, of) != 0 || memcmp(of, s->all[drop], fl)) a->bad++;
        free(of);
        int rr[2] = { drop, -1 }, xx[1] = { -1 }, oo[64];
        if (liberasurecode_fragments_needed(s->desc, rr, xx, oo) != 0) a->bad++;
        fragment_metadata_t md;
        if (liberasurecode_get_fragment_metadata(ed[0], &md) != 0 || md.idx != 0) a->bad++;
        if (is_invalid_fragment(s->desc, ed[0])) a->bad++;
        if (liberasurecode_get_fragment_size(s->desc, (int)s->len) + HDR != (int)fl) a->bad++;
        liberasurecode_encode_cleanup(s->desc, ed, ep);
    }
    return NULL;
}

static int run_shared(cfg_t c, int threads, int rounds) {
    static stripe_t s[MAXT]; static uint64_t pats[512];
    size_t len = 300 + rnd(200);
    for (int t = 0; t < threads; t++) if (stripe_make(&s[t], c, len, 0, 0) != 0) return -1;   /* random, different contents */
    int np = patterns_for(c, pats, 512);
    if (rounds < 0) rounds = np;                 /* one pass over all patterns */
    rounds = (rounds + 7) & ~7;                  /* barrier every 8 rounds: same count in every thread */
    pthread_t th[MAXT]; shared_a a[MAXT];
    pthread_barrier_init(&g_bar, NULL, (unsigned)threads);
    for (int t = 0; t < threads; t++) { a[t] = (shared_a){ &s[t], rounds, t, 0, pats, np }; pthread_create(&th[t], NULL, shared_worker, &a[t]); }
    int bad = 0;
    for (int t = 0; t < threads; t++) { pthread_join(th[t], NULL); bad += a[t].bad; }
    pthread_barrier_destroy(&g_bar);
    for (int t = 0; t < threads; t++) stripe_free(&s[t]);
    return bad;
}

/* ------------------------------------------------------------------ B: own instances */
typedef struct { int tid; int rounds; int threads; int bad; int *descs; int same; } own_a;
static const int OWN_SHAPES[][4] = { {6,4,2,2}, {6,3,3,3}, {3,5,5,3}, {0,3,2,2}, {6,2,1,1}, {3,3,3,3}, {3,10,6,4}, {3,6,6,4} };
#define N_OWN 8

static void *own_worker(void *va) {
    own_a *a = va;
    unsigned char data[211]; for (int i = 0; i < 211; i++) data[i] = (unsigned char)(i * 3 + a->tid * 29 + (i >> 3));
    for (int r = 0; r < a->rounds; r++) {
        /* `same`: all threads use equally shaped instances of the hd=4 flat XOR code in this round */
        /* `same` 1: equally shaped hd=4 flat XOR instances; 2: only rs_vand instances, so that every round
           starts with concurrent first-ever creates (shared GF tables built) and ends with concurrent last destroys */
        const int *sh = a->same == 1 ? OWN_SHAPES[6 + (r & 1)] : (a->same == 2 ? OWN_SHAPES[(a->tid + r) % 2] : OWN_SHAPES[(a->tid + r) % N_OWN]);
        struct ec_args ar; memset(&ar, 0, sizeof ar); ar.k = sh[1]; ar.m = sh[2]; ar.hd = sh[3]; ar.ct = CHKSUM_CRC32;
        pthread_barrier_wait(&g_bar);                       /* creates collide */
        int d = liberasurecode_instance_create((ec_backend_id_t)sh[0], &ar);
        a->descs[a->tid] = d;
        if (d <= 0) a->bad++;
        pthread_barrier_wait(&g_bar);                       /* everybody holds one instance */
        for (int t = 0; t < a->threads; t++) if (t != a->tid && a->descs[t] == d) a->bad++;
        if (d > 0) {
            char **ed = NULL, **ep = NULL; uint64_t fl = 0;
            if (liberasurecode_encode(d, (char *)data, 211, &ed, &ep, &fl) != 0) a->bad++;
            else {
                if (sh[0] != 0) {
                    /* all data sets of the tolerated size (own mode "same": in lockstep), else the first fragment */
                    cfg_t c = { sh[0], sh[1], sh[2], sh[3], 2 };
                    int tol = cfg_tolerance(c); if (tol > 3) tol = 3; if (tol > c.k) tol = c.k;
                    int reps = a->same == 1 ? 40 : 1;
                    uint64_t pat = (1ull << tol) - 1;
                    for (int q = 0; q < reps; q++) {
                        char *fr[80]; int n = 0;
                        for (int i = 0; i < sh[1] + sh[2]; i++) if (!((pat >> i) & 1)) fr[n++] = i < sh[1] ? ed[i] : ep[i - sh[1]];
                        char *od = NULL; uint64_t ol = 0;
                        if (liberasurecode_decode(d, fr, n, fl, 0, &od, &ol) != 0) a->bad++;
                        else { if (ol != 211 || memcmp(od, data, 211)) a->bad++; liberasurecode_decode_cleanup(d, od); }
                        /* next k-bit pattern with the same number of bits (Gosper), wrapping */
                        uint64_t cc = pat & -pat, rr = pat + cc; pat = (((rr ^ pat) >> 2) / cc) | rr;
                        if (pat >> sh[1]) pat = (1ull << tol) - 1;
                    }
                }
                liberasurecode_encode_cleanup(d, ed, ep);
            }
        }
        pthread_barrier_wait(&g_bar);
        if (d > 0 && liberasurecode_instance_destroy(d) != 0) a->bad++;   /* destroys collide */
    }
    return NULL;
}

static int run_own(int threads, int rounds, int same) {
    pthread_t th[MAXT]; own_a a[MAXT]; int descs[MAXT];
    pthread_barrier_init(&g_bar, NULL, (unsigned)threads);
    for (int t = 0; t < threads; t++) { a[t] = (own_a){ t, rounds, threads, 0, descs, same }; pthread_create(&th[t], NULL, own_worker, &a[t]); }
    int bad = 0;
    for (int t = 0; t < threads; t++) { pthread_join(th[t], NULL); bad += a[t].bad; }
    pthread_barrier_destroy(&g_bar);
    return bad;
}

/* ------------------------------------------------------------------ C: forced interleavings */
static sem_t g_reached, g_resume;
static volatile int g_arm_point = -1; static volatile int g_armed_thread = 0; static void *g_arm_obj = NULL;
static pthread_t g_victim;

static void wait_ms(sem_t *s, int ms) {
    struct timespec ts; clock_gettime(CLOCK_REALTIME, &ts);
    ts.tv_nsec += (long)ms * 1000000L; ts.tv_sec += ts.tv_nsec / 1000000000L; ts.tv_nsec %= 1000000000L;
    while (sem_timedwait(s, &ts) != 0 && errno == EINTR) {}
}
/* the victim thread stops at the armed point (once), tells the driver, and waits to be resumed —
   or times out when the driver cannot run the conflicting step because a lock holds it back */
static void yield_cb(int point, void *obj) {
    if (point == g_arm_point && g_armed_thread && pthread_equal(pthread_self(), g_victim) && (!g_arm_obj || g_arm_obj == obj)) {
        g_armed_thread = 0;
        sem_post(&g_reached);
        wait_ms(&g_resume, 300);
    }
}
static void yield_cb_rs(int point) { yield_cb(point, NULL); }

typedef struct { int scenario; int result; int d_other; } sched_a;

static void *victim_main(void *va) {
    sched_a *a = va;
    unsigned char data[64]; memset(data, 0x5a, sizeof data);
    if (a->scenario == 1) {
        /* victim looks its own (older) instance up; the lookup passes over the newer instance */
        int r = liberasurecode_get_fragment_size(a->d_other, 100);
        a->result = r > 0 ? 0 : r;
    } else if (a->scenario == 2) {
        /* victim performs the first-ever rs_vand create and stops between counter and tables */
        struct ec_args ar; memset(&ar, 0, sizeof ar); ar.k = 4; ar.m = 2; ar.hd = 2;
        int d = liberasurecode_instance_create(EC_BACKEND_LIBERASURECODE_RS_VAND, &ar);
        a->result = d > 0 ? 0 : d;
        a->d_other = d;
    } else {
        /* victim registers an instance and stops after list insertion, before the descriptor is set */
        struct ec_args ar; memset(&ar, 0, sizeof ar); ar.k = 3; ar.m = 2; ar.hd = 2;
        int d = liberasurecode_instance_create(EC_BACKEND_NULL, &ar);
        a->result = d > 0 ? 0 : d;
        a->d_other = d;
    }
    return NULL;
}

static void run_sched(void *va, FILE *out) {
    sched_a *a = va;
    sem_init(&g_reached, 0, 0); sem_init(&g_resume, 0, 0);
    liberasurecode_verif_yield = yield_cb; rs_galois_verif_yield = yield_cb_rs;
    struct ec_args ar; memset(&ar, 0, sizeof ar); ar.k = 3; ar.m = 2; ar.hd = 2;
    int verdict = 0;
    if (a->scenario == 1) {
        int d_old = liberasurecode_instance_create(EC_BACKEND_NULL, &ar);     /* victim's instance */
        int d_new = liberasurecode_instance_create(EC_BACKEND_NULL, &ar);     /* driver's instance, at the list head */
        a->d_other = d_old;
        g_arm_point = 1; g_arm_obj = liberasurecode_backend_instance_get_by_desc(d_new); g_armed_thread = 1;
        pthread_create(&g_victim, NULL, victim_main, a);
        wait_ms(&g_reached, 2000);
        /* victim is standing on the driver's instance: destroy it now */
        int rc = liberasurecode_instance_destroy(d_new);
        sem_post(&g_resume);
        pthread_join(g_victim, NULL);
        if (rc != 0 || a->result != 0) verdict = 1;
        liberasurecode_instance_destroy(d_old);
    } else if (a->scenario == 2) {
        g_arm_point = 10; g_arm_obj = NULL; g_armed_thread = 1;
        pthread_create(&g_victim, NULL, victim_main, a);
        wait_ms(&g_reached, 2000);
        /* second creator arrives while the tables are not built yet, then encodes */
        struct ec_args br; memset(&br, 0, sizeof br); br.k = 2; br.m = 1; br.hd = 1;
        int d2 = liberasurecode_instance_create(EC_BACKEND_LIBERASURECODE_RS_VAND, &br);
        unsigned char data[32]; memset(data, 0x3c, sizeof data);
        char **ed = NULL, **ep = NULL; uint64_t fl = 0;
        int rc = d2 > 0 ? liberasurecode_encode(d2, (char *)data, 32, &ed, &ep, &fl) : -1;
        if (rc == 0) {
            /* parity of (2,1) is the xor of the two data payloads */
            for (uint64_t i = 0; i < fl - HDR; i++) if ((unsigned char)(ed[0][HDR + i] ^ ed[1][HDR + i]) != (unsigned char)ep[0][HDR + i]) verdict = 1;
            liberasurecode_encode_cleanup(d2, ed, ep);
        } else verdict = 1;
        sem_post(&g_resume);
        pthread_join(g_victim, NULL);
        if (a->result != 0) verdict = 1;
        if (d2 > 0) liberasurecode_instance_destroy(d2);
        if (a->d_other > 0) liberasurecode_instance_destroy(a->d_other);
    } else {
        g_arm_point = 2; g_arm_obj = NULL; g_armed_thread = 1;
        pthread_create(&g_victim, NULL, victim_main, a);
        wait_ms(&g_reached, 2000);
        /* a half-registered instance still carries descriptor 0: nobody may reach it through that */
        int r0 = liberasurecode_get_fragment_size(0, 100);
        sem_post(&g_resume);
        pthread_join(g_victim, NULL);
        if (r0 != -EBACKENDNOTAVAIL || a->result != 0) verdict = 1;
        if (a->d_other > 0) liberasurecode_instance_destroy(a->d_other);
    }
    liberasurecode_verif_yield = NULL; rs_galois_verif_yield = NULL;
    fprintf(out, verdict ? "DIFFERENT" : "ok");
}

/* ------------------------------------------------------------------ D: free-running create / use / destroy of rs_vand
   instances (no barriers): the last destroy of one thread keeps meeting the first create of another, so the shared,
   reference-counted GF tables are torn down and rebuilt thousands of times while others are inside create or encode */
typedef struct { int tid, iters, bad; } churn_a;
static void *churnrs_worker(void *va) {
    churn_a *a = va;
    unsigned char data[96], ref[3][2][HDR + 64]; int have_ref = 0; (void)ref;
    for (int i = 0; i < 96; i++) data[i] = (unsigned char)(i * 11 + a->tid);
    unsigned char first[HDR + 200]; uint64_t first_len = 0;
    for (int it = 0; it < a->iters; it++) {
        struct ec_args ar; memset(&ar, 0, sizeof ar); ar.k = 2 + (a->tid & 1); ar.m = 2; ar.hd = 2; ar.ct = CHKSUM_CRC32;
        int d = liberasurecode_instance_create(EC_BACKEND_LIBERASURECODE_RS_VAND, &ar);
        if (d <= 0) { a->bad++; continue; }
        char **ed = NULL, **ep = NULL; uint64_t fl = 0;
        if (liberasurecode_encode(d, (char *)data, 96, &ed, &ep, &fl) != 0) a->bad++;
        else {
            /* the second parity (a genuine field multiplication) must be the same every time */
            if (!have_ref) { memcpy(first, ep[1], fl < sizeof first ? fl : sizeof first); first_len = fl; have_ref = 1; }
            else if (fl != first_len || memcmp(first, ep[1], fl < sizeof first ? fl : sizeof first)) a->bad++;
            char *fr[8]; int n = 0; for (int i = 1; i < ar.k; i++) fr[n++] = ed[i]; fr[n++] = ep[0]; fr[n++] = ep[1];
            char *od = NULL; uint64_t ol = 0;
            if (liberasurecode_decode(d, fr, n, fl, 0, &od, &ol) != 0) a->bad++;
            else { if (ol != 96 || memcmp(od, data, 96)) a->bad++; liberasurecode_decode_cleanup(d, od); }
            liberasurecode_encode_cleanup(d, ed, ep);
        }
        if (liberasurecode_instance_destroy(d) != 0) a->bad++;
    }
    return NULL;
}
/* ------------------------------------------------------------------ E: descriptors that no create ever returned (0, -1, a
   large never-issued one) probed from other threads while instances are being created and destroyed: refused at every moment */
static int g_probe_stop = 0;      /* accessed with __atomic builtins only: the harness must not contribute races of its own */
static void *probe_worker(void *va) {
    churn_a *a = va; static const int never[] = { 0, -1, 0x7fff0000, -2147483647 };
    while (!__atomic_load_n(&g_probe_stop, __ATOMIC_ACQUIRE)) for (int q = 0; q < 4; q++) {
        if (liberasurecode_get_fragment_size(never[q], 64) >= 0) a->bad++;
        if (liberasurecode_get_minimum_encode_size(never[q]) >= 0) a->bad++;
        if (liberasurecode_decode_cleanup(never[q], NULL) == 0) a->bad++;
        if (liberasurecode_encode_cleanup(never[q], NULL, NULL) == 0) a->bad++;
    }
    return NULL;
}
static void *probe_churner(void *va) {
    churn_a *a = va; unsigned char data[64]; memset(data, 7 + a->tid, sizeof data);
    static const int shp[][4] = { {0,3,2,2}, {3,3,3,3}, {6,2,1,1}, {3,5,5,3} };
    for (int it = 0; it < a->iters; it++) {
        const int *sh = shp[(it + a->tid) % 4];
        struct ec_args ar; memset(&ar, 0, sizeof ar); ar.k = sh[1]; ar.m = sh[2]; ar.hd = sh[3]; ar.ct = CHKSUM_NONE;
        int d = liberasurecode_instance_create((ec_backend_id_t)sh[0], &ar);
        if (d <= 0) { a->bad++; continue; }
        char **ed = NULL, **ep = NULL; uint64_t fl = 0;
        if (liberasurecode_encode(d, (char *)data, 64, &ed, &ep, &fl) != 0) a->bad++; else liberasurecode_encode_cleanup(d, ed, ep);
        if (liberasurecode_instance_destroy(d) != 0) a->bad++;
    }
    return NULL;
}
static void run_probe(void *va, FILE *out) {
    int *cfg = va; int T = cfg[0], iters = cfg[1]; pthread_t th[MAXT], pr[2]; churn_a a[MAXT], p[2]; int bad = 0;
    if (g_progress) snprintf(g_progress, 200, "probing never-issued descriptors while %d threads create and destroy instances", T);
    __atomic_store_n(&g_probe_stop, 0, __ATOMIC_RELEASE);
    for (int q = 0; q < 2; q++) { p[q] = (churn_a){ q, 0, 0 }; pthread_create(&pr[q], NULL, probe_worker, &p[q]); }
    for (int t = 0; t < T; t++) { a[t] = (churn_a){ t, iters, 0 }; pthread_create(&th[t], NULL, probe_churner, &a[t]); }
    for (int t = 0; t < T; t++) { pthread_join(th[t], NULL); bad += a[t].bad; }
    __atomic_store_n(&g_probe_stop, 1, __ATOMIC_RELEASE);
    for (int q = 0; q < 2; q++) { pthread_join(pr[q], NULL); bad += p[q].bad; }
    if (bad) fprintf(out, "DIFFERENT %d", bad); else fprintf(out, "ok");
}

typedef struct { int threads, iters; } churnrs_t;
static void run_churnrs(void *va, FILE *out) {
    churnrs_t *c = va; pthread_t th[MAXT]; churn_a a[MAXT]; int bad = 0;
    if (g_progress) snprintf(g_progress, 200, "in free-running create/encode/decode/destroy of rs_vand instances on %d threads", c->threads);
    for (int t = 0; t < c->threads; t++) { a[t] = (churn_a){ t, c->iters, 0 }; pthread_create(&th[t], NULL, churnrs_worker, &a[t]); }
    for (int t = 0; t < c->threads; t++) { pthread_join(th[t], NULL); bad += a[t].bad; }
    if (bad) fprintf(out, "DIFFERENT %d", bad); else fprintf(out, "ok");
}

void suite_conc(int tier) {
#if defined(__SANITIZE_THREAD__)
    int tsan = 1;
#else
    int tsan = 0;
#endif
    cfg_t shared[] = { {6,4,2,2,2}, {3,5,5,3,2}, {3,10,6,4,1}, {6,10,4,4,1}, {3,12,6,4,2}, {3,6,6,4,2}, {3,10,5,3,2} };
    int tcounts[] = { 2, 3, 4, 8, 16 };
    for (unsigned ci = 0; ci < (tier ? 7u : 3u); ci++) for (unsigned ti = 0; ti < (tier ? 5u : 3u); ti++) {
        int T = tcounts[ti];
        if (!tier && ci == 2 && ti == 1) continue;
        op_begin("conc shared %d %d %d %d", shared[ci].be, shared[ci].k, shared[ci].m, T); op_sep();
        /* flat XOR: one pass over every pattern; others: a fixed number of rounds */
        int bad = run_shared(shared[ci], T, shared[ci].be == 3 ? -1 : (tier ? 60 : 15));
        res_end(bad == 0 ? "ok" : "DIFFERENT");
        if (bad) oracle_fail("C18", "%d results of concurrent shared-descriptor calls differ from the sequential ones (be=%d, %d threads)", bad, shared[ci].be, T);
        stat_add("conc.shared_runs", 1);
    }
    /* no instance left alive: the reference-counted GF tables must be built and torn down by the racing threads */
    cfg_release_all();
    for (unsigned ti = 0; ti < (tier ? 5u : 3u); ti++) {
        int T = tcounts[ti];
        op_begin("conc ownrs %d", T); op_sep();
        int bad = run_own(T, tier ? 200 : 60, 2);
        res_end(bad == 0 ? "ok" : "DIFFERENT");
        if (bad) oracle_fail("C18", "%d failures in concurrent first-create / last-destroy of rs_vand instances (%d threads)", bad, T);
        stat_add("conc.ownrs_runs", 1);
    }
    cfg_release_all();
    for (unsigned ti = 0; ti < (tier ? 4u : 2u); ti++) {
        churnrs_t c = { tcounts[ti], tsan ? (tier ? 3000 : 600) : (tier ? 30000 : 5000) };
        op_begin("conc churnrs %d", c.threads); op_sep();
        if (tsan) { run_churnrs(&c, stdout); res_nl(); } else guarded(run_churnrs, &c);     /* a crash of the child is the result */
        stat_add("conc.churnrs_iterations", (long)c.threads * c.iters);
    }
    for (unsigned ti = 0; ti < (tier ? 3u : 1u); ti++) {
        int cfgp[2] = { tcounts[ti + 1], tsan ? (tier ? 1500 : 400) : (tier ? 20000 : 4000) };
        op_begin("conc probe0 %d", cfgp[0]); op_sep();
        if (tsan) { run_probe(cfgp, stdout); res_nl(); } else guarded(run_probe, cfgp);
        stat_add("conc.probe_iterations", (long)cfgp[0] * cfgp[1]);
    }
    for (unsigned ti = 0; ti < (tier ? 5u : 3u); ti++) {
        int T = tcounts[ti];
        op_begin("conc own %d", T); op_sep();
        int bad = run_own(T, tier ? 40 : 10, 0);
        res_end(bad == 0 ? "ok" : "DIFFERENT");
        if (bad) oracle_fail("C18", "%d failures in concurrent create/use/destroy of per-thread instances (%d threads): duplicate descriptor, failed create or wrong round trip", bad, T);
        stat_add("conc.own_runs", 1);
    }
    for (unsigned ti = 0; ti < (tier ? 4u : 2u); ti++) {
        int T = tcounts[ti + 1];
        op_begin("conc ownsame %d", T); op_sep();
        int bad = run_own(T, tier ? 8 : 3, 1);
        res_end(bad == 0 ? "ok" : "DIFFERENT");
        if (bad) oracle_fail("C18", "%d failures in concurrent decodes through equally shaped per-thread flat XOR instances (%d threads)", bad, T);
        stat_add("conc.ownsame_runs", 1);
    }
    if (!tsan) {
        /* forced interleavings; a crash of the child is the result.  No instance may be alive:
           scenario 2 needs the first-ever rs_vand create. */
        cfg_release_all();
        for (int sc = 1; sc <= 3; sc++) for (int rep = 0; rep < (tier ? 5 : 2); rep++) {
            sched_a a = { sc, -1, -1 };
            op_begin("conc sched %d", sc); op_sep();
            guarded(run_sched, &a);
            stat_add("conc.forced_schedules", 1);
        }
    }
}
