#include "common.h"
#include <stdarg.h>
#include <zlib.h>

uint64_t g_rng = 1;
int g_isal = 0;

const int xor_shapes[][3] = {
    {3,3,3},
    {5,5,3},{6,5,3},{7,5,3},{8,5,3},{9,5,3},{10,5,3},
    {6,6,3},{7,6,3},{8,6,3},{9,6,3},{10,6,3},{11,6,3},{12,6,3},{13,6,3},{14,6,3},{15,6,3},
    {5,5,4},{6,5,4},{7,5,4},{8,5,4},{9,5,4},{10,5,4},
    {6,6,4},{7,6,4},{8,6,4},{9,6,4},{10,6,4},{11,6,4},{12,6,4},{13,6,4},{14,6,4},{15,6,4},
    {16,6,4},{17,6,4},{18,6,4},{19,6,4},{20,6,4},
};
const int n_xor_shapes = sizeof(xor_shapes) / sizeof(xor_shapes[0]);

/* ------------------------------------------------------------ instances */
#define MAXC 4096
static struct { cfg_t c; int desc; } g_cache[MAXC];
static int g_ncache = 0;

int cfg_desc(cfg_t c) {
    for (int i = 0; i < g_ncache; i++) {
        cfg_t *o = &g_cache[i].c;
        if (o->be == c.be && o->k == c.k && o->m == c.m && o->hd == c.hd && o->ct == c.ct)
            return g_cache[i].desc;
    }
    struct ec_args a;
    memset(&a, 0, sizeof(a));
    a.k = c.k; a.m = c.m; a.hd = c.hd; a.ct = (ec_checksum_type_t)c.ct;
    /* the word size a caller asks for: the built-in codes have a fixed one (null 32, flat XOR 32, rs_vand 16)
       whatever is requested, so every suite also runs over this dimension */
    {
        static const int w_fixed[] = { 0, 0, 8, 16, 32, 64, 7, 4 }, w_null[] = { 0, 0, 8, 16, 32 };
        if (c.be == 3 || c.be == 6) a.w = w_fixed[rnd(8)];
        else if (c.be == 0) a.w = w_null[rnd(5)];
        char key[40]; snprintf(key, sizeof key, "cfg.created_w_%d", a.w); stat_add(key, 1);
    }
    int d = liberasurecode_instance_create((ec_backend_id_t)c.be, &a);
    if (d > 0 && g_ncache < MAXC) { g_cache[g_ncache].c = c; g_cache[g_ncache].desc = d; g_ncache++; }
    return d;
}

void cfg_release_all(void) {
    for (int i = 0; i < g_ncache; i++) liberasurecode_instance_destroy(g_cache[i].desc);
    g_ncache = 0;
}

int cfg_wbytes(cfg_t c) { return c.be == 6 ? 2 : (c.be == 4 || c.be == 7) ? 1 : 4; }

int cfg_tolerance(cfg_t c) { return c.be == 3 ? c.hd - 1 : c.m; }

cfg_t cfg_random_ec(void) {
    cfg_t c; memset(&c, 0, sizeof c);
    c.ct = rnd(3) == 0 ? 1 : 2;
    uint32_t pick = rnd(g_isal ? 4 : 2);
    if (pick == 0) {
        const int *s = xor_shapes[rnd(n_xor_shapes)];
        c.be = 3; c.k = s[0]; c.m = s[1]; c.hd = s[2];
    } else {
        c.be = pick == 1 ? 6 : (pick == 2 ? 4 : 7);
        /* favour small shapes, include the extremes */
        uint32_t r = rnd(10);
        if (r == 0) { c.k = 1 + rnd(31); c.m = 1 + rnd(32 - c.k); }
        else if (r == 1) { c.k = 31; c.m = 1; }
        else if (r == 2) { c.k = 1; c.m = 1 + rnd(31); }
        else { c.k = 1 + rnd(10); c.m = 1 + rnd(6); }
        c.hd = c.m;
    }
    return c;
}

cfg_t cfg_random(int allow_null) {
    if (allow_null && rnd(8) == 0) {
        cfg_t c; memset(&c, 0, sizeof c);
        c.be = 0; c.k = 1 + rnd(16); c.m = rnd(8); c.hd = c.m; c.ct = 1 + rnd(3);
        return c;
    }
    return cfg_random_ec();
}

/* ------------------------------------------------------------ output */
static const char HEX[] = "0123456789abcdef";
void put_hex(const unsigned char *p, size_t n) {
    if (n == 0) { fputc('-', stdout); return; }
    static char buf[8192];
    size_t o = 0;
    for (size_t i = 0; i < n; i++) {
        buf[o++] = HEX[p[i] >> 4]; buf[o++] = HEX[p[i] & 15];
        if (o >= sizeof(buf)) { fwrite(buf, 1, o, stdout); o = 0; }
    }
    if (o) fwrite(buf, 1, o, stdout);
}
void op_begin(const char *fmt, ...) { va_list ap; va_start(ap, fmt); vprintf(fmt, ap); va_end(ap); }
void op_hex(const void *p, size_t n) { fputc(' ', stdout); put_hex((const unsigned char *)p, n); }
void op_sep(void) { fputs(" ## ", stdout); fflush(stdout); }
void res_end(const char *fmt, ...) { va_list ap; va_start(ap, fmt); vprintf(fmt, ap); va_end(ap); fputc('\n', stdout); }
void res_hex_begin(const char *fmt, ...) { va_list ap; va_start(ap, fmt); vprintf(fmt, ap); va_end(ap); }
void res_nl(void) { fputc('\n', stdout); }
void oracle_fail(const char *prop, const char *fmt, ...) {
    printf("!ORACLE %s ", prop);
    va_list ap; va_start(ap, fmt); vprintf(fmt, ap); va_end(ap);
    fputc('\n', stdout);
}
#define MAXS 256
static struct { char key[96]; long v; } g_stats[MAXS];
static int g_nstats = 0;
void stat_add(const char *key, long v) {
    for (int i = 0; i < g_nstats; i++) if (!strcmp(g_stats[i].key, key)) { g_stats[i].v += v; return; }
    if (g_nstats < MAXS) { strncpy(g_stats[g_nstats].key, key, 95); g_stats[g_nstats].v = v; g_nstats++; }
}
void stat_dump(void) { for (int i = 0; i < g_nstats; i++) printf("#STAT %s %ld\n", g_stats[i].key, g_stats[i].v); }

/* ------------------------------------------------------------ data */
unsigned char *gen_data(size_t len, int kind) {
    unsigned char *d = malloc(len ? len : 1);
    switch (kind) {
    case 0: for (size_t i = 0; i < len; i++) d[i] = (unsigned char)rnd64();
            /* every sixth random buffer starts, every other sixth one ends, with a run of zero bytes between a k-th and
               all of its length: whole data fragments (the first ones / the last ones) are then zero while others are not */
            { uint32_t z = rnd(6); if (z < 2 && len > 1) { size_t run = len / (1 + rnd(8)); if (rnd(4) == 0) run = len - 1; if (z == 0) memset(d, 0, run); else memset(d + len - run, 0, run); } }
            break;
    case 1: memset(d, (int)rnd(256), len); break;
    case 2: { unsigned s = rnd(256); for (size_t i = 0; i < len; i++) d[i] = (unsigned char)(s + i); } break;
    case 3: memset(d, 0, len); if (len) d[rnd((uint32_t)len)] = (unsigned char)(1u << rnd(8)); break;
    default: memset(d, 0, len); break;
    }
    return d;
}

size_t gen_len(cfg_t c, int tier) {
    size_t unit = (size_t)c.k * cfg_wbytes(c);
    size_t cap = tier ? 8192 : 640;
    switch (rnd(8)) {
    case 0: return 0;
    case 1: return 1;
    case 2: return unit * (1 + rnd(4));
    case 3: return unit * (1 + rnd(4)) + 1;
    case 4: { size_t v = unit * (1 + rnd(4)); return v ? v - 1 : 0; }
    case 5: return (size_t)1 << rnd(tier ? 13 : 9);
    default: return rnd((uint32_t)cap);
    }
}

/* ------------------------------------------------------------ stripes */
/* the switch has several spellings of "set" and of "not set"; every writer call of every suite goes through this
   function, so all of them are exercised everywhere (a rotating counter, not the PRNG: the sequence of random inputs
   does not depend on it) */
void set_legacy(int on) {
    static const char *ON[] = { "1", "yes", "00", "true", "false", "2", " " }, *OFF[] = { NULL, "", "0", NULL };
    static unsigned n_on = 0, n_off = 0;
    const char *v = on ? ON[n_on++ % 7] : OFF[n_off++ % 4];
    if (v) setenv("LIBERASURECODE_WRITE_LEGACY_CRC", v, 1); else unsetenv("LIBERASURECODE_WRITE_LEGACY_CRC");
}

int stripe_make(stripe_t *s, cfg_t c, size_t len, int kind, int legacy) {
    memset(s, 0, sizeof *s);
    s->c = c; s->desc = cfg_desc(c);
    if (s->desc <= 0) return s->desc ? s->desc : -1;
    s->len = len; s->data = gen_data(len, kind);
    set_legacy(legacy);
    int rc = liberasurecode_encode(s->desc, (char *)s->data, len, &s->ed, &s->ep, &s->flen);
    set_legacy(0);
    if (rc != 0) { free(s->data); s->data = NULL; return rc; }
    s->n = c.k + c.m;
    s->all = malloc(sizeof(char *) * (s->n ? s->n : 1));
    for (int i = 0; i < c.k; i++) s->all[i] = s->ed[i];
    for (int i = 0; i < c.m; i++) s->all[c.k + i] = s->ep[i];
    return 0;
}

void stripe_free(stripe_t *s) {
    if (s->ed || s->ep) liberasurecode_encode_cleanup(s->desc, s->ed, s->ep);
    free(s->all); free(s->data);
    memset(s, 0, sizeof *s);
}

/* ------------------------------------------------------------ guarded calls */
/* a note the child leaves about what it is doing, readable by the parent after a crash */
char *g_progress = NULL;

void guarded(guard_fn fn, void *arg) {
    fflush(stdout);
    if (!g_progress) {
        g_progress = mmap(NULL, 4096, PROT_READ | PROT_WRITE, MAP_SHARED | MAP_ANONYMOUS, -1, 0);
        if (g_progress == MAP_FAILED) g_progress = NULL;
    }
    if (g_progress) g_progress[0] = 0;
    int pfd[2];
    if (pipe(pfd) != 0) { res_end("harness-error pipe"); return; }
    pid_t pid = fork();
    if (pid == 0) {
        close(pfd[0]);
        /* keep sanitizer reports out of the protocol stream */
        FILE *out = fdopen(pfd[1], "w");
        fn(arg, out);
        fflush(out);
#ifdef VERIF_COV
        { extern void __gcov_dump(void); __gcov_dump(); }
#endif
        _exit(0);
    }
    close(pfd[1]);
    static char buf[1 << 22];
    size_t got = 0; ssize_t r;
    while ((r = read(pfd[0], buf + got, sizeof(buf) - 1 - got)) > 0) got += (size_t)r;
    close(pfd[0]);
    buf[got] = 0;
    int st = 0; waitpid(pid, &st, 0);
    if (WIFEXITED(st) && WEXITSTATUS(st) == 0 && got > 0) {
        while (got && (buf[got - 1] == '\n')) buf[--got] = 0;
        res_end("%s", buf);
    } else if (g_progress && g_progress[0]) {
        g_progress[200] = 0;
        res_end("crash %s", g_progress);
    } else {
        res_end("crash");
    }
}

void reseal(unsigned char *frag) {
    uint32_t c = (uint32_t)crc32(0, frag, 59);
    memcpy(frag + 67, &c, 4);
}
