#!/bin/bash
# Build liberasurecode and its built-in code libraries straight from /repo's
# *current* working tree (no autotools), into $1.
#   usage: build_lib.sh <outdir> [asan|plain|tsan] [sse2|portable]
# Guard define LIBERASURECODE_VERIF is always on here (hooks enabled).
set -e
OUT="$1"; MODE="${2:-asan}"; FLAVOUR="${3:-sse2}"
REPO="${VERIF_REPO:-/repo}"
HERE="$(cd "$(dirname "$0")" && pwd)"
mkdir -p "$OUT"
CC="${CC:-gcc}"
COMMON="-g -fPIC -D_GNU_SOURCE=1 -std=gnu99 -w -DLIBERASURECODE_VERIF"
case "$MODE" in
  asan)  SAN="-O1 -fsanitize=address,undefined -fno-sanitize-recover=undefined -fno-omit-frame-pointer -fno-sanitize=signed-integer-overflow,shift" ;;
  asanstrict) SAN="-O1 -fsanitize=address,undefined -fno-sanitize-recover=undefined -fno-omit-frame-pointer" ;;
  plain) SAN="-O2" ;;
  tsan)  SAN="-O1 -fsanitize=thread" ;;
  *) echo "bad mode $MODE" >&2; exit 2 ;;
esac
# the SIMD / architecture defines of the tree's own (autotools) build, so that code under
# INTEL_* / ARCH_64 conditionals is the code that is checked; a safe default without a Makefile
ARCHDEF="-DARCH_64"
SIMD_TREE=""
if [ -f "$REPO/Makefile" ]; then
  SIMD_TREE=$(grep -m1 '^CFLAGS *=' "$REPO/Makefile" | tr ' ' '\n' | grep -E '^(-m(mmx|sse[0-9.]*|ssse3|avx2?)|-DINTEL_[A-Z0-9]+|-DARCH_[0-9]+)$' | tr '\n' ' ')
fi
case "$FLAVOUR" in
  sse2) if [ -n "$SIMD_TREE" ]; then SIMD="$SIMD_TREE"; else SIMD="-msse2 -DINTEL_SSE2 $ARCHDEF"; fi ;;
  portable) SIMD="$ARCHDEF" ;;
esac
INC="-I$OUT/inc -I$REPO/include -I$REPO/include/erasurecode -I$REPO/include/xor_codes -I$REPO/include/rs_vand -I$REPO/include/isa_l -I$REPO/include/shss"
mkdir -p "$OUT/inc"
# config header: use the tree's generated one when present, else a minimal fallback
if [ ! -f "$REPO/include/config_liberasurecode.h" ]; then
  cp "$HERE/config_fallback.h" "$OUT/inc/config_liberasurecode.h"
fi
S="$REPO/src"
(
$CC $COMMON $SAN $SIMD $INC -shared -Wl,-soname,libXorcode.so.1 -o "$OUT/libXorcode.so.1" \
    $S/builtin/xor_codes/xor_code.c $S/builtin/xor_codes/xor_hd_code.c &
$CC $COMMON $SAN $SIMD $INC -shared -Wl,-soname,libnullcode.so.1 -o "$OUT/libnullcode.so.1" \
    $S/builtin/null_code/null_code.c &
$CC $COMMON $SAN $SIMD $INC -shared -Wl,-soname,liberasurecode_rs_vand.so.1 -o "$OUT/liberasurecode_rs_vand.so.1" \
    $S/builtin/rs_vand/rs_galois.c $S/builtin/rs_vand/liberasurecode_rs_vand.c &
wait
)
for f in libXorcode.so.1 libnullcode.so.1 liberasurecode_rs_vand.so.1; do
  [ -f "$OUT/$f" ] || { echo "build of $f failed" >&2; exit 3; }
done
ln -sf libXorcode.so.1 "$OUT/libXorcode.so"
ln -sf libnullcode.so.1 "$OUT/libnullcode.so"
ln -sf liberasurecode_rs_vand.so.1 "$OUT/liberasurecode_rs_vand.so"
LIBSRC="$S/erasurecode.c $S/erasurecode_helpers.c $S/erasurecode_preprocessing.c $S/erasurecode_postprocessing.c
 $S/utils/chksum/crc32.c $S/utils/chksum/alg_sig.c $S/backends/null/null.c $S/backends/xor/flat_xor_hd.c
 $S/backends/jerasure/jerasure_rs_vand.c $S/backends/jerasure/jerasure_rs_cauchy.c $S/backends/isa-l/isa_l_common.c
 $S/backends/isa-l/isa_l_rs_vand.c $S/backends/isa-l/isa_l_rs_cauchy.c $S/backends/rs_vand/liberasurecode_rs_vand.c
 $S/builtin/rs_vand/rs_galois.c $S/backends/shss/shss.c $S/backends/phazrio/libphazr.c"
# compile objects in parallel
pids=""
i=0
for src in $LIBSRC; do
  $CC $COMMON $SAN $SIMD $INC -c "$src" -o "$OUT/obj_$i.o" &
  pids="$pids $!"
  i=$((i+1))
done
for p in $pids; do wait $p || { echo "compile failed" >&2; exit 3; }; done
$CC $SAN -shared -Wl,-soname,liberasurecode.so.1 -o "$OUT/liberasurecode.so.1" "$OUT"/obj_*.o \
   -L"$OUT" -Wl,--no-as-needed -lXorcode -lnullcode -l:liberasurecode_rs_vand.so.1 -Wl,--as-needed -lpthread -lm -lz -ldl -Wl,-rpath,"$OUT"
ln -sf liberasurecode.so.1 "$OUT/liberasurecode.so"
rm -f "$OUT"/obj_*.o
echo "built $MODE/$FLAVOUR into $OUT"
