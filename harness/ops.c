/*
 * ops.c — one function per protocol operation: prints the op line, calls the real
 * library, prints the canonical result.  `*_g` variants run the call in a forked
 * child so that a crash becomes the result `crash`.
 */
#include "common.h"
#include "ops.h"
#include "memtrack.h"
#include <zlib.h>

extern int liberasurecode_crc32_alt(int crc, const void *buf, size_t size);
extern int is_invalid_fragment_header(fragment_header_t *header);

static void emit_cfg(cfg_t c) { printf(" %d %d %d %d %d", c.be, c.k, c.m, c.hd, c.ct); }

/* ---------------------------------------------------------------- enc */
int op_enc(cfg_t c, int legacy, const unsigned char *data, size_t len, stripe_t *keep) {
    op_begin("enc"); emit_cfg(c); printf(" %d", legacy); op_hex(data, len); op_sep();
    int desc = cfg_desc(c);
    if (desc <= 0) { res_end("err %d", desc); return desc; }
    char **ed = NULL, **ep = NULL; uint64_t flen = 0;
    set_legacy(legacy);
    int rc = liberasurecode_encode(desc, (const char *)data, len, &ed, &ep, &flen);
    set_legacy(0);
    if (rc != 0) { res_end("err %d", rc); return rc; }
    res_hex_begin("ok %llu", (unsigned long long)flen);
    for (int i = 0; i < c.k; i++) { fputc(' ', stdout); put_hex((unsigned char *)ed[i], flen); }
    for (int i = 0; i < c.m; i++) { fputc(' ', stdout); put_hex((unsigned char *)ep[i], flen); }
    res_nl();
    if (keep) {
        memset(keep, 0, sizeof *keep);
        keep->c = c; keep->desc = desc; keep->len = len;
        keep->data = malloc(len ? len : 1); memcpy(keep->data, data, len);
        keep->ed = ed; keep->ep = ep; keep->flen = flen; keep->n = c.k + c.m;
        keep->all = malloc(sizeof(char *) * (keep->n ? keep->n : 1));
        for (int i = 0; i < c.k; i++) keep->all[i] = ed[i];
        for (int i = 0; i < c.m; i++) keep->all[c.k + i] = ep[i];
    } else {
        liberasurecode_encode_cleanup(desc, ed, ep);
    }
    return 0;
}

/* Readers never look at the writer's switch: when a suite sets this, every reading call below runs with
   LIBERASURECODE_WRITE_LEGACY_CRC=1 in the environment (the model has no such input for these operations). */
int g_env_readers = 0;
#define READER_ENV_ON()  do { if (g_env_readers) setenv("LIBERASURECODE_WRITE_LEGACY_CRC", "1", 1); } while (0)
#define READER_ENV_OFF() do { if (g_env_readers) unsetenv("LIBERASURECODE_WRITE_LEGACY_CRC"); } while (0)

/* ---------------------------------------------------------------- dec */
typedef struct { cfg_t c; int force; uint64_t flen; int n; char **frags; int misalign;
                 const unsigned char *expect; uint64_t expect_len; int *verdict; } dec_a;

/* copies of the fragments at 16-byte aligned or deliberately mis-aligned addresses.  Every third call puts the copies on
   READ-ONLY pages that are followed by an unmapped page (same alignment classes): a write into a caller's fragment — even a
   transient one that restores the bytes — or a read past the declared length then faults instead of going unnoticed.  The
   other calls use exactly sized heap blocks, where the sanitizer sees the first byte read or written out of bounds. */
typedef struct { void *map; size_t maplen; } placed_t;
static unsigned g_place_calls = 0;
static char **place(char **frags, int n, uint64_t flen, int misalign, char ***bases) {
    char **out = malloc(sizeof(char *) * (n ? n : 1));
    placed_t *pl = malloc(sizeof(placed_t) * (n ? n : 1));
    *bases = (char **)pl;
    int ro = (g_place_calls++ % 3) == 1;
    stat_add(ro ? "place.readonly_calls" : "place.heap_calls", 1);
    for (int i = 0; i < n; i++) {
        int off = misalign ? (1 + (int)((i * 7 + misalign) % 15)) : 0;
        if (ro) {
            size_t pg = 4096, pages = ((size_t)flen + 16 + pg - 1) / pg + 1;
            unsigned char *map = mmap(NULL, (pages + 1) * pg, PROT_READ | PROT_WRITE, MAP_PRIVATE | MAP_ANONYMOUS, -1, 0);
            if (map == MAP_FAILED) abort();
            /* as close to the unmapped page as the alignment class allows (0..15 bytes of slack) */
            uintptr_t end = (uintptr_t)map + pages * pg, start = end - (size_t)flen;
            start -= (start - (uintptr_t)off) % 16;
            out[i] = (char *)start;
            memcpy(out[i], frags[i], flen);
            mprotect(map, pages * pg, PROT_READ); mprotect(map + pages * pg, pg, PROT_NONE);
            pl[i].map = map; pl[i].maplen = (pages + 1) * pg;
        } else {
            void *b = NULL;
            /* exactly off + flen bytes: a read beyond fragment_len is a read beyond the allocation */
            if (posix_memalign(&b, 16, flen + (size_t)off + (flen + (size_t)off == 0)) != 0) abort();
            pl[i].map = b; pl[i].maplen = 0;
            out[i] = (char *)b + off;
            memcpy(out[i], frags[i], flen);
        }
    }
    return out;
}
static void unplace(char **p, char **bases, int n) {
    placed_t *pl = (placed_t *)bases;
    for (int i = 0; i < n; i++) { if (pl[i].maplen) munmap(pl[i].map, pl[i].maplen); else free(pl[i].map); }
    free(p); free(pl);
}

static void run_dec(void *va, FILE *out) {
    dec_a *a = va;
    int desc = cfg_desc(a->c);
    char **bases; char **fr = place(a->frags, a->n, a->flen, a->misalign, &bases);
    char *od = NULL; uint64_t olen = 0;
    READER_ENV_ON();
    int rc = liberasurecode_decode(desc, fr, a->n, a->flen, a->force, &od, &olen);
    READER_ENV_OFF();
    if (rc != 0) {
        fprintf(out, "err %d", rc);
        if (a->verdict) *a->verdict = rc;
    } else {
        fprintf(out, "ok %llu ", (unsigned long long)olen);
        if (olen == 0) fputc('-', out);
        for (uint64_t i = 0; i < olen; i++) fprintf(out, "%02x", (unsigned char)od[i]);
        if (a->verdict) {
            *a->verdict = (a->expect && olen == a->expect_len && (olen == 0 || !memcmp(od, a->expect, olen))) ? 0 : 1;
        }
        liberasurecode_decode_cleanup(desc, od);
    }
    /* inputs must be untouched */
    for (int i = 0; i < a->n; i++)
        if (memcmp(fr[i], a->frags[i], a->flen)) fprintf(out, " INPUT-MODIFIED");
    unplace(fr, bases, a->n);
}

static void print_dec_op(cfg_t c, int force, uint64_t flen, int n, char **frags) {
    op_begin("dec"); emit_cfg(c); printf(" %d %llu %d", force, (unsigned long long)flen, n);
    for (int i = 0; i < n; i++) op_hex(frags[i], flen);
    op_sep();
}

int op_dec(cfg_t c, int force, uint64_t flen, int n, char **frags, int misalign,
           const unsigned char *expect, uint64_t expect_len) {
    int verdict = -9999;
    dec_a a = { c, force, flen, n, frags, misalign, expect, expect_len, &verdict };
    print_dec_op(c, force, flen, n, frags);
    run_dec(&a, stdout); res_nl();
    return verdict;
}

void op_dec_g(cfg_t c, int force, uint64_t flen, int n, char **frags) {
    dec_a a = { c, force, flen, n, frags, 0, NULL, 0, NULL };
    (void)cfg_desc(c);
    print_dec_op(c, force, flen, n, frags);
    guarded(run_dec, &a);
}

/* ---------------------------------------------------------------- rec */
typedef struct { cfg_t c; int legacy; int dest; uint64_t flen; int n; char **frags; int misalign;
                 const unsigned char *expect; int *verdict; } rec_a;

static void run_rec(void *va, FILE *out) {
    rec_a *a = va;
    int desc = cfg_desc(a->c);
    char **bases; char **fr = place(a->frags, a->n, a->flen, a->misalign, &bases);
    char *of = malloc(a->flen + 16);
    memset(of, 0xA5, a->flen + 16);
    set_legacy(a->legacy);
    int rc = liberasurecode_reconstruct_fragment(desc, fr, a->n, a->flen, a->dest, of);
    set_legacy(0);
    if (rc != 0) { fprintf(out, "err %d", rc); if (a->verdict) *a->verdict = rc; }
    else {
        fprintf(out, "ok ");
        for (uint64_t i = 0; i < a->flen; i++) fprintf(out, "%02x", (unsigned char)of[i]);
        if (a->flen == 0) fputc('-', out);
        if (a->verdict) *a->verdict = (a->expect && !memcmp(of, a->expect, a->flen)) ? 0 : 1;
        for (int i = 0; i < 16; i++) if ((unsigned char)of[a->flen + i] != 0xA5) { fprintf(out, " OUTPUT-OVERRUN"); break; }
    }
    for (int i = 0; i < a->n; i++)
        if (memcmp(fr[i], a->frags[i], a->flen)) fprintf(out, " INPUT-MODIFIED");
    free(of);
    unplace(fr, bases, a->n);
}

static void print_rec_op(cfg_t c, int legacy, int dest, uint64_t flen, int n, char **frags) {
    op_begin("rec"); emit_cfg(c); printf(" %d %d %llu %d", legacy, dest, (unsigned long long)flen, n);
    for (int i = 0; i < n; i++) op_hex(frags[i], flen);
    op_sep();
}

int op_rec(cfg_t c, int legacy, int dest, uint64_t flen, int n, char **frags, int misalign,
           const unsigned char *expect) {
    int verdict = -9999;
    rec_a a = { c, legacy, dest, flen, n, frags, misalign, expect, &verdict };
    print_rec_op(c, legacy, dest, flen, n, frags);
    run_rec(&a, stdout); res_nl();
    return verdict;
}

void op_rec_g(cfg_t c, int legacy, int dest, uint64_t flen, int n, char **frags) {
    rec_a a = { c, legacy, dest, flen, n, frags, 0, NULL, NULL };
    (void)cfg_desc(c);
    print_rec_op(c, legacy, dest, flen, n, frags);
    guarded(run_rec, &a);
}

/* ---------------------------------------------------------------- need */
typedef struct { cfg_t c; int *r; int *x; int *out_list; int *out_rc; } need_a;
static void run_need(void *va, FILE *out) {
    need_a *a = va;
    int desc = cfg_desc(a->c);
    int needed[80];
    for (int i = 0; i < 80; i++) needed[i] = -7777;
    int rc = liberasurecode_fragments_needed(desc, a->r, a->x, needed);
    if (a->out_rc) *a->out_rc = rc;
    if (rc != 0) { fprintf(out, "err %d", rc); return; }
    fprintf(out, "ok ");
    int i = 0;
    for (; i < 70 && needed[i] != -1; i++) {
        fprintf(out, "%s%d", i ? "," : "", needed[i]);
        if (a->out_list) a->out_list[i] = needed[i];
    }
    if (a->out_list) a->out_list[i] = -1;
    if (i == 0) fprintf(out, "-");
}
static void print_list(int *l) {
    if (l[0] < 0) { printf(" -"); return; }
    fputc(' ', stdout);
    for (int i = 0; l[i] >= 0; i++) printf("%s%d", i ? "," : "", l[i]);
}
int op_need(cfg_t c, int *r, int *x, int *out_list, int guarded_call) {
    int rc = -9999;
    need_a a = { c, r, x, out_list, &rc };
    (void)cfg_desc(c);
    op_begin("need %d %d %d %d", c.be, c.k, c.m, c.hd); print_list(r); print_list(x); op_sep();
    if (guarded_call) guarded(run_need, &a);
    else { run_need(&a, stdout); res_nl(); }
    return rc;
}

/* ---------------------------------------------------------------- meta / hdrinv / fraginv / stripe */
typedef struct { unsigned char *frag; size_t len; cfg_t c; int ro; } frag_a;

static void run_meta(void *va, FILE *out) {
    frag_a *a = va;
    unsigned char *copy;
    if (a->ro) {
        /* the fragment on read-only pages, ending at an unmapped page: a query neither writes nor overruns */
        size_t pg = 4096, pages = (a->len + pg - 1) / pg + 1;
        unsigned char *map = mmap(NULL, (pages + 1) * pg, PROT_READ | PROT_WRITE, MAP_PRIVATE | MAP_ANONYMOUS, -1, 0);
        copy = map + pages * pg - a->len;
        memcpy(copy, a->frag, a->len);
        mprotect(map, pages * pg, PROT_READ); mprotect(map + pages * pg, pg, PROT_NONE);
        if (g_progress) snprintf(g_progress, 200, "in get_fragment_metadata of a fragment on read-only pages");
    } else { copy = malloc(a->len); memcpy(copy, a->frag, a->len); }
    fragment_metadata_t md; memset(&md, 0xEE, sizeof md);
    READER_ENV_ON();
    int rc = liberasurecode_get_fragment_metadata((char *)copy, &md);
    READER_ENV_OFF();
    if (rc != 0) fprintf(out, "err %d", rc);
    else {
        fprintf(out, "ok %u %u %u %llu %u ", md.idx, md.size, md.frag_backend_metadata_size,
                (unsigned long long)md.orig_data_size, md.chksum_type);
        for (int i = 0; i < 8; i++) fprintf(out, "%s%u", i ? "," : "", md.chksum[i]);
        fprintf(out, " %u %u %u", md.chksum_mismatch, md.backend_id, md.backend_version);
    }
    if (memcmp(copy, a->frag, a->len)) fprintf(out, " INPUT-MODIFIED");
    /* the caller's result struct may sit at any address (arrays of the packed struct have a 59-byte stride): the answer
       is the same at all eight alignments */
    {
        unsigned char raw[sizeof(fragment_metadata_t) + 16] __attribute__((aligned(16)));
        for (int off = 1; off < 8; off++) {
            fragment_metadata_t *m2 = (fragment_metadata_t *)(raw + off); memset(raw, 0xEE, sizeof raw);
            READER_ENV_ON(); int rc2 = liberasurecode_get_fragment_metadata((char *)copy, m2); READER_ENV_OFF();
            if (rc2 != rc || (rc == 0 && memcmp(m2, &md, sizeof md))) { fprintf(out, " RESULT-DEPENDS-ON-OUTPUT-ALIGNMENT(%d)", off); break; }
        }
    }
    if (!a->ro) free(copy);
    if (a->ro && g_progress) g_progress[0] = 0;
}
/* g: 0 in process, 1 in a forked child, 2 in a forked child with the fragment on read-only pages */
void op_meta(unsigned char *frag, size_t len, int g) {
    frag_a a = { frag, len, {0}, g == 2 };
    op_begin("meta"); op_hex(frag, len); op_sep();
    if (g) guarded(run_meta, &a); else { run_meta(&a, stdout); res_nl(); }
}

static void run_hdrinv(void *va, FILE *out) {
    frag_a *a = va;
    unsigned char copy[HDR]; memcpy(copy, a->frag, HDR);
    READER_ENV_ON();
    int r = is_invalid_fragment_header((fragment_header_t *)copy);
    READER_ENV_OFF();
    fprintf(out, "%d", r ? 1 : 0);
    if (memcmp(copy, a->frag, HDR)) fprintf(out, " INPUT-MODIFIED");
}
void op_hdrinv(unsigned char *frag, int g) {
    frag_a a = { frag, HDR };
    op_begin("hdrinv"); op_hex(frag, HDR); op_sep();
    if (g) guarded(run_hdrinv, &a); else { run_hdrinv(&a, stdout); res_nl(); }
}

static void run_fraginv(void *va, FILE *out) {
    frag_a *a = va;
    int desc = cfg_desc(a->c);
    unsigned char *copy = malloc(a->len); memcpy(copy, a->frag, a->len);
    READER_ENV_ON();
    int r = is_invalid_fragment(desc, (char *)copy);
    READER_ENV_OFF();
    fprintf(out, "%d", r ? 1 : 0);
    if (memcmp(copy, a->frag, a->len)) fprintf(out, " INPUT-MODIFIED");
    free(copy);
}
int op_fraginv(cfg_t c, unsigned char *frag, size_t len, int g) {
    frag_a a = { frag, len, c };
    (void)cfg_desc(c);
    op_begin("fraginv"); emit_cfg(c); op_hex(frag, len); op_sep();
    if (g) { guarded(run_fraginv, &a); return -1; }
    run_fraginv(&a, stdout); res_nl();
    return is_invalid_fragment(cfg_desc(c), (char *)frag);
}

int op_stripe(cfg_t c, int n, char **frags, uint64_t flen) {
    op_begin("stripe"); emit_cfg(c); printf(" %d", n);
    for (int i = 0; i < n; i++) op_hex(frags[i], flen);
    op_sep();
    READER_ENV_ON();
    int rc = liberasurecode_verify_stripe_metadata(cfg_desc(c), frags, n);
    READER_ENV_OFF();
    res_end("%d", rc);
    return rc;
}

/* ---------------------------------------------------------------- size / create / crc */
void op_size(cfg_t c, uint64_t len) {
    int desc = cfg_desc(c);
    op_begin("size %d %d %d %d %llu", c.be, c.k, c.m, c.hd, (unsigned long long)len); op_sep();
    int a = liberasurecode_get_aligned_data_size(desc, len);
    int f = liberasurecode_get_fragment_size(desc, (int)len);
    int mn = liberasurecode_get_minimum_encode_size(desc);
    res_end("%d %d %d", a, f, mn);
    long unit = (long)c.k * cfg_wbytes(c);
    if (a < 0 || (uint64_t)a < len || a % unit != 0 || (uint64_t)a >= len + (uint64_t)unit)
        oracle_fail("C08", "aligned_data_size(%llu) = %d is not the least multiple of k*w/8 = %ld that is >= the length: be=%d k=%d", (unsigned long long)len, a, unit, c.be, c.k);
    int a1 = liberasurecode_get_aligned_data_size(desc, 1);
    if (mn != a1) oracle_fail("C08", "minimum_encode_size %d != aligned_data_size(1) %d", mn, a1);
    if ((long)f * c.k < (long)len || (long)f * c.k >= (long)len + unit) oracle_fail("C08", "fragment_size(%llu) = %d is not aligned/k: be=%d k=%d", (unsigned long long)len, f, c.be, c.k);
}

typedef struct { int be, k, m, hd, w; } create_a;
static void run_create_once(void *va, FILE *out);
static void run_create(void *va, FILE *out) {
    /* (in the forked child) no instance of the harness's own is alive: reference counts shared between instances start at
       zero, so a create / destroy pair that does not balance shows at once */
    cfg_release_all();
    if (mt_available()) {
        /* blocks are counted on the second of two identical runs (one-time allocations of libc / the loader happen on the first) */
        char *b = NULL; size_t n = 0; FILE *tmp = open_memstream(&b, &n);
        run_create_once(va, tmp); fclose(tmp); free(b);
    }
    run_create_once(va, out);
}
static void run_create_once(void *va, FILE *out) {
    create_a *a = va;
    struct ec_args args; memset(&args, 0, sizeof args);
    args.k = a->k; args.m = a->m; args.hd = a->hd; args.w = a->w; args.ct = CHKSUM_NONE;
    /* plain build: nothing may stay allocated after a refused create, nor after a full create..destroy cycle */
    /* a companion instance of the built-in RS code lives through the candidate's whole life and must still work afterwards
       (instances share arithmetic tables and the registry) */
    struct ec_args cargs; memset(&cargs, 0, sizeof cargs); cargs.k = 4; cargs.m = 2; cargs.hd = 2; cargs.ct = CHKSUM_NONE;
    int comp = liberasurecode_instance_create(EC_BACKEND_LIBERASURECODE_RS_VAND, &cargs);
    if (mt_available()) {   /* the loader's one-time / per-error allocations for this very request happen before the count starts */
        int w0 = liberasurecode_instance_create((ec_backend_id_t)a->be, &args); if (w0 > 0) liberasurecode_instance_destroy(w0);
    }
    long b0 = 0; if (mt_available()) { mt_on(); b0 = mt_blocks(); }
    int d = liberasurecode_instance_create((ec_backend_id_t)a->be, &args);
    long lk = (d <= 0 && mt_available()) ? mt_blocks() - b0 : 0;
    if (lk) fprintf(out, "LEAK%ld ", lk);
    if (d > 0) {
        /* an accepted instance must survive a full cycle */
        unsigned char data[37]; for (int i = 0; i < 37; i++) data[i] = (unsigned char)(i * 7 + 1);
        char **ed = NULL, **ep = NULL; uint64_t flen = 0;
        int rc = liberasurecode_encode(d, (char *)data, 37, &ed, &ep, &flen);
        if (rc == 0) {
            char *od = NULL; uint64_t ol = 0;
            int rd = liberasurecode_decode(d, ed, a->k, flen, 0, &od, &ol);
            if (rd == 0) {
                if (ol != 37 || memcmp(od, data, 37)) fprintf(out, "cycle-mismatch ");
                liberasurecode_decode_cleanup(d, od);
            } else fprintf(out, "cycle-dec-err%d ", rd);
            liberasurecode_encode_cleanup(d, ed, ep);
        } else fprintf(out, "cycle-enc-err%d ", rc);
        (void)liberasurecode_get_fragment_size(d, 100);
        (void)liberasurecode_get_aligned_data_size(d, 100);
        (void)liberasurecode_get_minimum_encode_size(d);
        int rx = liberasurecode_instance_destroy(d);
        lk = (rx == 0 && mt_available()) ? mt_blocks() - b0 : 0;     /* before the first write to `out` allocates its buffer */
        if (rx != 0) fprintf(out, "destroy-err%d ", rx);
        if (lk) fprintf(out, "LEAK%ld ", lk);
        fprintf(out, "ok");
    } else fprintf(out, "err %d", d);
    if (comp > 0) {
        if (g_progress) snprintf(g_progress, 200, "using a companion rs_vand (4,2) instance after the life cycle of be=%d (%d,%d,%d) w=%d", a->be, a->k, a->m, a->hd, a->w);
        unsigned char data[41]; for (int i = 0; i < 41; i++) data[i] = (unsigned char)(i * 9 + 2);
        char **ed = NULL, **ep = NULL; uint64_t flen = 0; int bad = 0;
        if (liberasurecode_encode(comp, (char *)data, 41, &ed, &ep, &flen) != 0) bad = 1;
        else {
            char *fr[4] = { ed[1], ed[3], ep[0], ep[1] }; char *od = NULL; uint64_t ol = 0;
            if (liberasurecode_decode(comp, fr, 4, flen, 0, &od, &ol) != 0) bad = 1;
            else { if (ol != 41 || memcmp(od, data, 41)) bad = 1; liberasurecode_decode_cleanup(comp, od); }
            liberasurecode_encode_cleanup(comp, ed, ep);
        }
        if (liberasurecode_instance_destroy(comp) != 0) bad = 1;
        if (bad) fprintf(out, " cycle-companion-broken");
        if (g_progress) g_progress[0] = 0;
    }
}
void op_create(int be, int k, int m, int hd, int w) {
    create_a a = { be, k, m, hd, w };
    op_begin("create %d %d %d %d %d", be, k, m, hd, w); op_sep();
    guarded(run_create, &a);
}

void op_crc(const unsigned char *p, size_t n) {
    op_begin("crc"); op_hex(p, n); op_sep();
    uint32_t s = (uint32_t)crc32(0, p, (uInt)n);
    uint32_t a = (uint32_t)liberasurecode_crc32_alt(0, p, n);
    res_end("%u %u", s, a);
}

/* ---------------------------------------------------------------- oracle sweeps */
/* every fourth sweep call hands the survivors over at addresses that are not 16-byte aligned (the library
   then works on private aligned copies) */
static char **misplace(char **fr, int n, uint64_t flen, char ***bases_out) {
    char **bases = malloc(sizeof(char *) * (n ? n : 1)), **out = malloc(sizeof(char *) * (n ? n : 1));
    for (int i = 0; i < n; i++) { bases[i] = malloc(flen + 32); out[i] = bases[i] + 1 + (int)rnd(15); if (((uintptr_t)out[i] & 15) == 0) out[i]++; memcpy(out[i], fr[i], flen); }
    *bases_out = bases; return out;
}
static void unmisplace(char **out, char **bases, int n) { for (int i = 0; i < n; i++) free(bases[i]); free(bases); free(out); }

int sweep_dec(stripe_t *s, uint64_t gone, int force, int shuffle_order, int mode, const char *prop) {
    char *fr0[80]; char **fr = fr0; int n = 0;
    for (int i = 0; i < s->n; i++) if (!((gone >> i) & 1)) fr[n++] = s->all[i];
    char **bases = NULL; int mis = s->flen < 70000 && rnd(4) == 0;
    if (mis) fr = misplace(fr0, n, s->flen, &bases);
    if (shuffle_order) for (int i = n - 1; i > 0; i--) { int j = (int)rnd(i + 1); char *t = fr[i]; fr[i] = fr[j]; fr[j] = t; }
    char *od = NULL; uint64_t ol = 0;
    int rc = liberasurecode_decode(s->desc, fr, n, s->flen, force, &od, &ol);
    int v = rc;
    if (rc == 0) {
        v = (ol == s->len && (ol == 0 || !memcmp(od, s->data, ol))) ? 0 : 1;
        liberasurecode_decode_cleanup(s->desc, od);
    }
    if (mis) unmisplace(fr, bases, n);
    if (v == 1 || (v != 0 && mode == 0))
        oracle_fail(prop, "decode without mask %llx (%s order, %s buffers, force %d) gave %s%d: be=%d (%d,%d,%d) len=%llu ct=%d",
                    (unsigned long long)gone, shuffle_order ? "shuffled" : "index", mis ? "unaligned" : "aligned", force, v == 1 ? "wrong bytes " : "error ", v,
                    s->c.be, s->c.k, s->c.m, s->c.hd, (unsigned long long)s->len, s->c.ct);
    return v;
}

int sweep_rec(stripe_t *s, uint64_t gone, int dest, int mode, const char *prop) {
    char *fr0[80]; char **fr = fr0; int n = 0;
    for (int i = 0; i < s->n; i++) if (!((gone >> i) & 1)) fr[n++] = s->all[i];
    char **bases = NULL; int mis = s->flen < 70000 && rnd(4) == 0;
    if (mis) fr = misplace(fr0, n, s->flen, &bases);
    char *of = malloc(s->flen + 16); memset(of, 0xA5, s->flen + 16);
    int rc = liberasurecode_reconstruct_fragment(s->desc, fr, n, s->flen, dest, of);
    int v = rc;
    if (rc == 0) {
        v = memcmp(of, s->all[dest], s->flen) ? 1 : 0;
        for (int i = 0; i < 16; i++) if ((unsigned char)of[s->flen + i] != 0xA5) v = 1;
    }
    free(of);
    if (mis) unmisplace(fr, bases, n);
    if (v == 1 || (v != 0 && mode == 0))
        oracle_fail(prop, "reconstruct of %d without mask %llx gave %s%d: be=%d (%d,%d,%d) len=%llu ct=%d",
                    dest, (unsigned long long)gone, v == 1 ? "different bytes " : "error ", v,
                    s->c.be, s->c.k, s->c.m, s->c.hd, (unsigned long long)s->len, s->c.ct);
    return v;
}

/* ---------------------------------------------------------------- enclen */
typedef struct { cfg_t c; uint64_t len; } enclen_a;
static void run_enclen(void *va, FILE *out) {
    enclen_a *a = va;
    int desc = cfg_desc(a->c);
    size_t maplen = (1ull << 32) + (1ull << 21);
    char *buf = mmap(NULL, maplen, PROT_READ | PROT_WRITE, MAP_PRIVATE | MAP_ANONYMOUS | MAP_NORESERVE, -1, 0);
    if (buf == MAP_FAILED) { fprintf(out, "harness-error mmap"); return; }
    char **ed = NULL, **ep = NULL; uint64_t fl = 0;
    /* an earlier, completed encode: the output variables keep their (now dangling) values */
    if (liberasurecode_encode(desc, buf, 100, &ed, &ep, &fl) == 0) liberasurecode_encode_cleanup(desc, ed, ep);
    if (g_progress) snprintf(g_progress, 200, "in encode of %llu bytes, be=%d (%d,%d,%d)", (unsigned long long)a->len, a->c.be, a->c.k, a->c.m, a->c.hd);
    int rc = liberasurecode_encode(desc, buf, a->len, &ed, &ep, &fl);
    if (rc != 0) fprintf(out, "err %d", rc);
    else { fprintf(out, "ok-size fragment_len=%llu", (unsigned long long)fl); liberasurecode_encode_cleanup(desc, ed, ep); }
    munmap(buf, maplen);
}
void op_enclen(cfg_t c, uint64_t len) {
    enclen_a a = { c, len };
    (void)cfg_desc(c);
    op_begin("enclen %d %d %d %d %llu", c.be, c.k, c.m, c.hd, (unsigned long long)len); op_sep();
    guarded(run_enclen, &a);
}

void sweep_neighbours(stripe_t *s, int rec, const char *prop, const char *statkey) {
    int tol = cfg_tolerance(s->c), n = s->n;
    for (uint64_t e1 = 1; e1 < (1ull << n); e1++) {
        int c1 = __builtin_popcountll(e1);
        if (c1 >= tol) continue;
        for (int j = 0; j < n; j++) {
            if ((e1 >> j) & 1) continue;
            uint64_t e2 = e1 | (1ull << j);
            sweep_dec(s, e1, 0, 0, 0, prop);
            sweep_dec(s, e2, 0, 0, 0, prop);
            if (rec) { sweep_rec(s, e1, __builtin_ctzll(e1), 0, prop); sweep_rec(s, e2, __builtin_ctzll(e1), 0, prop); sweep_rec(s, e2, j, 0, prop); }
            sweep_dec(s, e1, 0, 0, 0, prop);
            stat_add(statkey, 1);
        }
    }
}
