/*
 * suites3.c — forced metadata checks (C20), argument and shape validation (C13),
 * descriptor histories (C14).
 */
#include "common.h"
#include "ops.h"
#include "memtrack.h"
#include <zlib.h>

extern int next_backend_desc;

/* ======================================================================= force (C20) */
static void force_sweep(cfg_t c, size_t len);
void suite_force(int tier) {
    for (int n = 2; n <= (tier ? 9 : 7); n++) for (int k = 1; k < n; k++)
        force_sweep((cfg_t){ 6, k, n - k, n - k, 1 + (n + k) % 2 }, 1 + rnd(5 * k));
    for (int x = 0; x < n_xor_shapes; x++) {
        if (xor_shapes[x][0] + xor_shapes[x][1] > (tier ? 16 : 12)) continue;
        force_sweep((cfg_t){ 3, xor_shapes[x][0], xor_shapes[x][1], xor_shapes[x][2], 2 }, 1 + rnd(40));
    }
    int cases = tier ? 300 : 50;
    for (int t = 0; t < cases; t++) {
        cfg_t c = cfg_random_ec();
        c.ct = rnd(6) == 0 ? 1 : 2;
        if (c.k + c.m > 12 && c.be != 3) { c.k = 1 + rnd(6); c.m = 1 + rnd(4); c.hd = c.m; }
        size_t len = 1 + rnd(4 * c.k * cfg_wbytes(c));
        stripe_t s;
        if (stripe_make(&s, c, len, (int)rnd(3), 0) != 0) continue;
        int tol = cfg_tolerance(c);
        /* survivors S, damaged subset B of S */
        int nmiss = (int)rnd(tol + 1);
        uint64_t gone = 0; { int have = 0; while (have < nmiss) { int i = (int)rnd(s.n); if (!((gone >> i) & 1)) { gone |= 1ull << i; have++; } } }
        int nbad = (int)rnd(tol + 2);
        uint64_t bad = 0; { int have = 0, guard = 0; while (have < nbad && guard++ < 200) { int i = (int)rnd(s.n); if (!((gone >> i) & 1) && !((bad >> i) & 1)) { bad |= 1ull << i; have++; } } }
        char *fr[80]; unsigned char *copies[80]; int n = 0, ncopies = 0;
        for (int i = 0; i < s.n; i++) {
            if ((gone >> i) & 1) continue;
            if ((bad >> i) & 1) {
                unsigned char *m = malloc(s.flen); memcpy(m, s.all[i], s.flen);
                int kind = (int)rnd(c.ct == 2 ? 6 : 3);
                switch (kind) {
                case 4: case 5: {   /* payload bit + stored checksum replaced by a special value and re-sealed (CRC32 only) */
                    uint64_t bit = rnd64() % ((s.flen - HDR) * 8); m[HDR + bit / 8] ^= (unsigned char)(1u << (bit % 8));
                    uint32_t v = kind == 4 ? 0u : 0xffffffffu;
                    if ((uint32_t)crc32(0, m + HDR, (uInt)(s.flen - HDR)) == v) v ^= 0x5a5a5a5au;   /* keep it a mismatch */
                    memcpy(m + 21, &v, 4); reseal(m); } break;
                case 3: { uint64_t bit = rnd64() % ((s.flen - HDR) * 8); m[HDR + bit / 8] ^= (unsigned char)(1u << (bit % 8)); } break;  /* payload bit (CRC32 only) */
                case 0: m[54] ^= (unsigned char)(1 + rnd(255)); reseal(m); break;                       /* backend id */
                case 1: { uint32_t v; memcpy(&v, m + 55, 4); v += 1 + rnd(3); memcpy(m + 55, &v, 4); reseal(m); } break;  /* backend version */
                default: { uint32_t ix[] = { (uint32_t)(s.n + rnd(5)), (uint32_t)s.n, 0xffffffffu, 0x80000000u, 0x7fffffffu, 0x80000000u + rnd(40), 0xffffff00u + rnd(256) };
                           uint32_t v = ix[rnd(7)]; memcpy(m, &v, 4); reseal(m); } break;   /* index out of range, also values that are negative as an int */
                }
                copies[ncopies++] = m; fr[n++] = (char *)m;
                char key[32]; snprintf(key, sizeof key, "force.damage_kind_%d", kind); stat_add(key, 1);
            } else fr[n++] = s.all[i];
        }
        if (rnd(2)) for (int i = n - 1; i > 0; i--) { int j = (int)rnd(i + 1); char *tt = fr[i]; fr[i] = fr[j]; fr[j] = tt; }
        int lost = __builtin_popcountll(gone | bad);
        int v = op_dec(c, 1, s.flen, n, fr, 0, s.data, s.len);
        if (v == 1) oracle_fail("C20", "forced decode returned wrong bytes: be=%d (%d,%d,%d) missing %llx damaged %llx", c.be, c.k, c.m, c.hd, (unsigned long long)gone, (unsigned long long)bad);
        else if (lost <= tol && v != 0) oracle_fail("C20", "forced decode failed (%d) although the valid fragments are within tolerance: be=%d (%d,%d,%d) missing %llx damaged %llx", v, c.be, c.k, c.m, c.hd, (unsigned long long)gone, (unsigned long long)bad);
        else if (c.be != 3 && lost > tol && v == 0) { /* RS beyond m: cannot succeed */ oracle_fail("C20", "forced decode succeeded with only %d valid fragments", s.n - lost); }
        stat_add(v == 0 ? "force.exact" : "force.error", 1);
        stat_add(nbad ? "force.with_damage" : "force.no_damage", 1);
        /* the same set without forcing, for contrast (model comparison only) */
        op_dec(c, 0, s.flen, n, fr, 0, NULL, 0);
        for (int i = 0; i < ncopies; i++) free(copies[i]);
        stripe_free(&s);
    }
}

/* direct oracle, exhaustive on small codes: every disjoint (missing, damaged) pair with at most
   tolerance+1 members in total, every kind of damage in turn */
static void force_sweep(cfg_t c, size_t len) {
    stripe_t s;
    if (stripe_make(&s, c, len, 0, 0) != 0) return;
    int tol = cfg_tolerance(c), n = s.n, kind = 0;
    unsigned char *copies[40];
    for (uint64_t u = 0; u < (1ull << n); u++) {
        int tot = __builtin_popcountll(u);
        if (tot > tol + 1) continue;
        /* every subset of u is the damaged part */
        for (uint64_t bad = u;; bad = (bad - 1) & u) {
            uint64_t gone = u & ~bad;
            char *fr[40]; int cnt = 0, nc = 0;
            for (int i = 0; i < n; i++) {
                if ((gone >> i) & 1) continue;
                if ((bad >> i) & 1) {
                    unsigned char *m = malloc(s.flen); memcpy(m, s.all[i], s.flen);
                    switch (kind++ % (c.ct == 2 ? 6 : 3)) {
                    case 0: m[54] ^= 0x10; reseal(m); break;
                    case 1: { uint32_t v; memcpy(&v, m + 55, 4); v += 1; memcpy(m + 55, &v, 4); reseal(m); } break;
                    case 2: { uint32_t ix[] = { (uint32_t)n, 0xffffffffu, 0x80000000u, (uint32_t)n + 1, 0x7fffffffu, 0x80000000u + (uint32_t)i };
                              uint32_t v = ix[(kind / 6) % 6]; memcpy(m, &v, 4); reseal(m); } break;
                    case 3: m[HDR + (kind % (s.flen - HDR))] ^= 0x04; break;
                    case 4: { m[HDR] ^= 0x80; uint32_t v = 0; if ((uint32_t)crc32(0, m + HDR, (uInt)(s.flen - HDR)) == v) v = 7; memcpy(m + 21, &v, 4); reseal(m); } break;
                    default: m[s.flen - 1] ^= 0x01; break;
                    }
                    copies[nc++] = m; fr[cnt++] = (char *)m;
                } else fr[cnt++] = s.all[i];
            }
            char *od = NULL; uint64_t ol = 0;
            int rc = liberasurecode_decode(s.desc, fr, cnt, s.flen, 1, &od, &ol);
            if (rc == 0) {
                if (ol != s.len || memcmp(od, s.data, ol)) oracle_fail("C20", "forced decode returned wrong bytes: be=%d (%d,%d,%d) missing %llx damaged %llx", c.be, c.k, c.m, c.hd, (unsigned long long)gone, (unsigned long long)bad);
                else if (c.be != 3 && tot > tol) oracle_fail("C20", "forced decode succeeded with only %d valid fragments: be=%d (%d,%d)", n - tot, c.be, c.k, c.m);
                liberasurecode_decode_cleanup(s.desc, od);
            } else if (tot <= tol) oracle_fail("C20", "forced decode failed (%d) although the valid fragments are within tolerance: be=%d (%d,%d,%d) missing %llx damaged %llx", rc, c.be, c.k, c.m, c.hd, (unsigned long long)gone, (unsigned long long)bad);
            for (int i = 0; i < nc; i++) free(copies[i]);
            stat_add("force.sweep_cases", 1);
            if (bad == 0) break;
        }
    }
    stripe_free(&s);
}

/* ======================================================================= args (C13) */
typedef struct { int api; int a[8]; cfg_t c; stripe_t *s; } args_a;

enum { A_ENC, A_ENC_CLEAN, A_DEC, A_DEC_CLEAN, A_REC, A_NEED, A_META, A_ISINV, A_STRIPE, A_SIZES, A_DESTROY, A_CREATE_NULL, A_AVAIL, A_N };
static const char *ANAME[] = { "encode", "encode_cleanup", "decode", "decode_cleanup", "reconstruct", "fragments_needed",
    "get_fragment_metadata", "is_invalid_fragment", "verify_stripe_metadata", "sizes", "destroy", "create_nullargs", "backend_available" };

/* descriptor classes: 0 live, 1 never issued, 2 destroyed, 3 zero, 4 negative,
   5 / 6 used by the calling thread and then destroyed by another thread (caller: a second thread / the main thread) */
static int desc_of(int cls, int live) {
    switch (cls) { case 0: return live; case 1: return live + 100000; case 2: return -4242; case 3: return 0; default: return -1; }
}

/* the first `len` bytes of each fragment, on a page that ends at an unmapped one: a call that is given
   fragment_len = len must not look beyond */
static char **short_guarded(char **frags, int n, size_t len) {
    char **out = malloc(sizeof(char *) * (n > 0 ? n : 1));
    for (int i = 0; i < n; i++) {
        unsigned char *map = mmap(NULL, 8192, PROT_READ | PROT_WRITE, MAP_PRIVATE | MAP_ANONYMOUS, -1, 0);
        out[i] = (char *)map + 4096 - len;
        memcpy(out[i], frags[i], len);
        mprotect(map + 4096, 4096, PROT_NONE);
    }
    return out;
}

static void run_args_inner(args_a *a, FILE *out, int forced_desc);
#include <pthread.h>
#include <semaphore.h>
typedef struct { args_a *a; FILE *out; int desc; sem_t go, used; } xthread_t;
static void *xthread_user(void *vx) {
    xthread_t *x = vx;
    (void)liberasurecode_get_fragment_size(x->desc, 100);       /* a successful use of the descriptor on this thread */
    { char **ed = NULL, **ep = NULL; uint64_t fl = 0; unsigned char b[40] = { 1, 2, 3 };
      if (liberasurecode_encode(x->desc, (char *)b, 40, &ed, &ep, &fl) == 0) liberasurecode_encode_cleanup(x->desc, ed, ep); }
    sem_post(&x->used);
    sem_wait(&x->go);                                            /* ... the other thread destroys it ... */
    run_args_inner(x->a, x->out, x->desc);                       /* and this thread calls in again */
    return NULL;
}
static void *xthread_destroyer(void *vx) { xthread_t *x = vx; liberasurecode_instance_destroy(x->desc); return NULL; }

static void run_args(void *va, FILE *out) {
    args_a *a = va;
    if (a->a[0] == 5 || a->a[0] == 6) {
        /* a descriptor that was live, was used by the calling thread, and has been destroyed by ANOTHER thread
           (5: the caller is a second thread, the main thread destroys; 6: the caller is the main thread) */
        struct ec_args ar; memset(&ar, 0, sizeof ar); ar.k = a->c.k; ar.m = a->c.m; ar.hd = a->c.hd; ar.ct = CHKSUM_NONE;
        xthread_t x; x.a = a; x.out = out; sem_init(&x.go, 0, 0); sem_init(&x.used, 0, 0);
        x.desc = liberasurecode_instance_create((ec_backend_id_t)a->c.be, &ar);
        pthread_t t;
        if (a->a[0] == 5) {
            pthread_create(&t, NULL, xthread_user, &x);
            sem_wait(&x.used);
            liberasurecode_instance_destroy(x.desc);
            sem_post(&x.go);
            pthread_join(t, NULL);
        } else {
            (void)liberasurecode_get_fragment_size(x.desc, 100);
            { char **ed = NULL, **ep = NULL; uint64_t fl = 0; unsigned char b[40] = { 1, 2, 3 };
              if (liberasurecode_encode(x.desc, (char *)b, 40, &ed, &ep, &fl) == 0) liberasurecode_encode_cleanup(x.desc, ed, ep); }
            pthread_create(&t, NULL, xthread_destroyer, &x); pthread_join(t, NULL);
            run_args_inner(a, out, x.desc);
        }
        return;
    }
    run_args_inner(a, out, 0);
}

static void run_args_once(args_a *a, FILE *out, int forced_desc);
static void run_args_inner(args_a *a, FILE *out, int forced_desc) {
    if (mt_available()) {
        /* the blocks are counted on the second of two identical calls: one-time allocations of libc and the loader
           (syslog, dlerror strings, stdio buffers) happen on the first, a leak of the library on every call */
        char *b = NULL; size_t n = 0; FILE *tmp = open_memstream(&b, &n);
        run_args_once(a, tmp, forced_desc); fclose(tmp); free(b);
    }
    run_args_once(a, out, forced_desc);
}
static void run_args_once(args_a *a, FILE *out, int forced_desc) {
    stripe_t *s = a->s;
    int live = s->desc;
    int dead = -4242;
    if (!forced_desc) { /* a descriptor that was live and has been destroyed (not in the cross-thread classes: nothing else
                           may be looked up between the other thread's destroy and the call under test) */
        struct ec_args ar; memset(&ar, 0, sizeof ar); ar.k = 2; ar.m = 1; ar.hd = 1; ar.ct = CHKSUM_NONE;
        dead = liberasurecode_instance_create(EC_BACKEND_LIBERASURECODE_RS_VAND, &ar);
        liberasurecode_instance_destroy(dead);
    }
    int d = forced_desc ? forced_desc : (a->a[0] == 2 ? dead : desc_of(a->a[0], live));
    int rc = 12345;
    /* plain build: whatever the call answers, it (together with its cleanup call after a success) keeps nothing */
    long b0 = 0; if (mt_available()) { mt_on(); b0 = mt_blocks(); }
    switch (a->api) {
    case A_ENC: {
        char **ed = (char **)0x1, **ep = (char **)0x1; uint64_t fl = 7;   /* poisoned outputs: must not be touched on error */
        rc = liberasurecode_encode(d, a->a[1] ? NULL : (char *)s->data, s->len, a->a[2] ? NULL : &ed, a->a[3] ? NULL : &ep, a->a[4] ? NULL : &fl);
        if (rc == 0) liberasurecode_encode_cleanup(d, ed, ep);
        break; }
    case A_ENC_CLEAN: {
        if (a->a[1]) rc = liberasurecode_encode_cleanup(d, NULL, NULL);
        else {
            char **ed = NULL, **ep = NULL; uint64_t fl = 0;
            int r0 = liberasurecode_encode(live, (char *)s->data, s->len, &ed, &ep, &fl);
            rc = liberasurecode_encode_cleanup(d, ed, ep);
            if (rc != 0 && r0 == 0) liberasurecode_encode_cleanup(live, ed, ep);
        }
        break; }
    case A_DEC: {
        char *od = NULL; uint64_t ol = 0;
        int n = a->a[4] == 0 ? s->n : (a->a[4] == 1 ? 0 : (a->a[4] == 2 ? -1 : s->c.k - 1));
        uint64_t fl = a->a[5] == 0 ? s->flen : (a->a[5] == 1 ? 0 : (a->a[5] == 2 ? 79 : (a->a[5] == 3 ? 1 : (a->a[5] == 4 ? 70 : (a->a[5] == 5 ? 1 : 40)))));
        char **fr = s->all;
        if (a->a[5] >= 4) { fr = short_guarded(s->all, s->n, fl); if (g_progress) snprintf(g_progress, 200, "in decode with fragment_len=%llu and buffers of exactly that size", (unsigned long long)fl); }
        rc = liberasurecode_decode(d, a->a[1] ? NULL : fr, n, fl, a->a[6], a->a[2] ? NULL : &od, a->a[3] ? NULL : &ol);
        if (rc == 0) liberasurecode_decode_cleanup(d, od);
        if (fr != s->all) free(fr);
        break; }
    case A_DEC_CLEAN: {
        char *p = a->a[1] ? NULL : malloc(16);
        rc = liberasurecode_decode_cleanup(d, p);
        if (rc != 0) free(p);
        break; }
    case A_REC: {
        char *of = malloc(s->flen + 64);
        int n = a->a[3] == 0 ? s->n - 1 : (a->a[3] == 1 ? 0 : -1);
        uint64_t fl = a->a[4] == 0 ? s->flen : (a->a[4] == 1 ? 0 : (a->a[4] == 2 ? 79 : (a->a[4] == 3 ? 70 : 1)));
        int dest = a->a[5] == 0 ? 0 : (a->a[5] == 1 ? -1 : (a->a[5] == 2 ? s->n : 0x7fffffff));
        char **fr = s->all + 1;
        char *alt[80]; unsigned char *crafted = NULL;
        if (a->a[6]) {
            /* an out-of-range destination together with a list entry that "carries" that index: a buffer without the
               magic (the index getter answers -1 for it), or a well-formed fragment re-sealed with that very index */
            for (int q = 0; q < s->n - 1; q++) alt[q] = s->all[1 + q];
            crafted = malloc(s->flen); memcpy(crafted, s->all[1], s->flen);
            if (a->a[6] == 1) memset(crafted, 0x5a, s->flen);
            else { uint32_t v = (uint32_t)dest; memcpy(crafted, &v, 4); reseal(crafted); }
            alt[a->a[6] == 1 ? 0 : (s->n - 2)] = (char *)crafted;
            fr = alt;
        }
        if (a->a[4] >= 3) { fr = short_guarded(s->all + 1, s->n - 1, fl); if (g_progress) snprintf(g_progress, 200, "in reconstruct with fragment_len=%llu and buffers of exactly that size", (unsigned long long)fl); }
        rc = liberasurecode_reconstruct_fragment(d, a->a[1] ? NULL : fr, n, fl, dest, a->a[2] ? NULL : of);
        free(of);
        if (fr != s->all + 1 && fr != alt) free(fr);
        free(crafted);
        break; }
    case A_NEED: {
        int r[3] = { 0, -1, -1 }, x[2] = { -1, -1 }, o[64];
        rc = liberasurecode_fragments_needed(d, a->a[1] ? NULL : r, a->a[2] ? NULL : x, a->a[3] ? NULL : o);
        break; }
    case A_META: {
        fragment_metadata_t md;
        rc = liberasurecode_get_fragment_metadata(a->a[1] ? NULL : s->all[0], a->a[2] ? NULL : &md);
        break; }
    case A_ISINV:
        rc = is_invalid_fragment(d, a->a[1] ? NULL : s->all[0]);
        break;
    case A_STRIPE: {
        int n = a->a[2] == 0 ? s->n : (a->a[2] == 1 ? 0 : -3);
        rc = liberasurecode_verify_stripe_metadata(d, a->a[1] ? NULL : s->all, n);
        break; }
    case A_SIZES: {
        int r1 = liberasurecode_get_aligned_data_size(d, 100), r2 = liberasurecode_get_fragment_size(d, 100), r3 = liberasurecode_get_minimum_encode_size(d);
        long lk = mt_available() ? mt_blocks() - b0 : 0;      /* before the first write to `out` allocates its buffer */
        fprintf(out, "%d %d %d", r1, r2, r3);
        if (lk) fprintf(out, " LEAK%ld", lk);
        return; }
    case A_DESTROY:
        rc = liberasurecode_instance_destroy(a->a[0] == 0 ? dead : d);   /* never destroy the shared live one */
        break;
    case A_CREATE_NULL:
        rc = liberasurecode_instance_create((ec_backend_id_t)a->a[1], NULL);
        break;
    case A_AVAIL:
        rc = liberasurecode_backend_available((ec_backend_id_t)a->a[1]);
        if (mt_available()) b0 = mt_blocks();     /* the loader keeps the text of a failed dlopen: libc's blocks, not the library's */
        break;
    }
    long lk = mt_available() ? mt_blocks() - b0 : 0;
    fprintf(out, "%d", rc);
    if (lk) fprintf(out, " LEAK%ld", lk);
}

static void args_emit(args_a *a, int nargs) {
    op_begin("args %s %d %d %d", ANAME[a->api], a->c.be, a->c.k, a->c.m);
    for (int i = 0; i < nargs; i++) printf(" %d", a->a[i]);
    op_sep();
    guarded(run_args, a);
    stat_add("args.calls", 1);
}

void warmup(cfg_t c);
void suite_args(int tier) {
    cfg_t cfgs[3] = { { 6, 3, 2, 2, 2 }, { 3, 5, 5, 3, 1 }, { 0, 4, 2, 2, 1 } };
    /* plain build: libc's and the loader's one-time allocations happen before the children count blocks */
    if (mt_available()) { for (int ci = 0; ci < 3; ci++) warmup(cfgs[ci]); liberasurecode_backend_available((ec_backend_id_t)4); liberasurecode_backend_available((ec_backend_id_t)99); }
    for (int ci = 0; ci < 3; ci++) {
        stripe_t s;
        if (stripe_make(&s, cfgs[ci], 100, 0, 0) != 0) { oracle_fail("C13", "cannot set up configuration %d", ci); continue; }
        args_a a; memset(&a, 0, sizeof a); a.c = cfgs[ci]; a.s = &s;
        /* encode: desc class x data NULL x ed NULL x ep NULL x flen NULL */
        a.api = A_ENC;
        for (int d = 0; d < 7; d++) for (int m = 0; m < 16; m++) {
            if (d >= 5 && m) continue;
            a.a[0] = d; a.a[1] = m & 1; a.a[2] = (m >> 1) & 1; a.a[3] = (m >> 2) & 1; a.a[4] = (m >> 3) & 1;
            args_emit(&a, 5);
        }
        a.api = A_ENC_CLEAN;
        for (int d = 0; d < 7; d++) for (int z = 0; z < 2; z++) { a.a[0] = d; a.a[1] = z; args_emit(&a, 2); }
        /* decode: desc x frags NULL x out NULL x outlen NULL x count class x length class x force */
        a.api = A_DEC;
        for (int d = 0; d < 7; d++) for (int m = 0; m < 8; m++) for (int nc = 0; nc < 4; nc++) for (int lc = 0; lc < 7; lc++) {
            if (d >= 5 && (m || nc || lc)) continue;
            if (!tier && d > 0 && (nc + lc) % 2) continue;
            if (lc >= 4 && (m & 1)) continue;       /* truly short buffers only make sense with a fragment array */
            a.a[0] = d; a.a[1] = m & 1; a.a[2] = (m >> 1) & 1; a.a[3] = (m >> 2) & 1; a.a[4] = nc; a.a[5] = lc; a.a[6] = (m + nc) & 1;
            if (a.a[1] == 0 && lc == 3) continue;   /* length 1 with real buffers: same branch as 79 */
            args_emit(&a, 7);
        }
        a.api = A_DEC_CLEAN;
        for (int d = 0; d < 7; d++) for (int z = 0; z < 2; z++) { a.a[0] = d; a.a[1] = z; args_emit(&a, 2); }
        /* reconstruct: desc x frags NULL x out NULL x count class x length class x destination class */
        a.api = A_REC;
        for (int d = 0; d < 7; d++) for (int m = 0; m < 4; m++) for (int nc = 0; nc < 3; nc++) for (int lc = 0; lc < 5; lc++) for (int dc = 0; dc < 4; dc++) {
            if (d >= 5 && (m || nc || lc || dc)) continue;
            if (!tier && d > 0 && (nc + lc + dc) % 3) continue;
            if (lc >= 3 && (m & 1)) continue;
            a.a[0] = d; a.a[1] = m & 1; a.a[2] = (m >> 1) & 1; a.a[3] = nc; a.a[4] = lc; a.a[5] = dc; a.a[6] = 0;
            args_emit(&a, 6);
        }
        /* two bad things at once: an out-of-range destination and a list entry carrying that "index" */
        for (int dc = 1; dc < 4; dc++) for (int v = 1; v <= 2; v++) {
            a.a[0] = 0; a.a[1] = 0; a.a[2] = 0; a.a[3] = 0; a.a[4] = 0; a.a[5] = dc; a.a[6] = v;
            args_emit(&a, 7);
        }
        a.a[6] = 0;
        a.api = A_NEED;
        for (int d = 0; d < 7; d++) for (int m = 0; m < 8; m++) {
            if (d >= 5 && m) continue; a.a[0] = d; a.a[1] = m & 1; a.a[2] = (m >> 1) & 1; a.a[3] = (m >> 2) & 1; args_emit(&a, 4); }
        a.api = A_META;
        for (int m = 0; m < 4; m++) { a.a[0] = 0; a.a[1] = m & 1; a.a[2] = (m >> 1) & 1; args_emit(&a, 3); }
        a.api = A_ISINV;
        for (int d = 0; d < 7; d++) for (int z = 0; z < 2; z++) { a.a[0] = d; a.a[1] = z; args_emit(&a, 2); }
        a.api = A_STRIPE;
        for (int d = 0; d < 7; d++) for (int z = 0; z < 2; z++) for (int nc = 0; nc < 3; nc++) {
            if (d >= 5 && (z || nc)) continue; a.a[0] = d; a.a[1] = z; a.a[2] = nc; args_emit(&a, 3); }
        a.api = A_SIZES;
        for (int d = 0; d < 7; d++) { a.a[0] = d; args_emit(&a, 1); }
        a.api = A_DESTROY;
        for (int d = 0; d < 7; d++) { a.a[0] = d; args_emit(&a, 1); }
        if (ci == 0) {
            a.api = A_CREATE_NULL;
            int ids[] = { 0, 3, 6, 8, 9, 10, 255, -1 };
            for (unsigned q = 0; q < 8; q++) { a.a[0] = 0; a.a[1] = ids[q]; args_emit(&a, 2); }
            a.api = A_AVAIL;
            for (unsigned q = 0; q < 8; q++) { a.a[0] = 0; a.a[1] = ids[q]; args_emit(&a, 2); }
        }
        stripe_free(&s);
    }
    /* inputs beyond what the int size arithmetic can hold are refused, cleanly */
    {
        cfg_t cs[] = { { 6, 4, 2, 2, 2 }, { 3, 5, 5, 3, 1 }, { 0, 4, 2, 2, 1 }, { 6, 1, 1, 1, 2 }, { 6, 31, 1, 1, 1 } };
        for (unsigned ci = 0; ci < 5; ci++) {
            uint64_t am = (uint64_t)cs[ci].k * cfg_wbytes(cs[ci]);
            uint64_t lens[] = { 2147483647ull - am - 80 + 1, 2147483647ull - am, 2147483647ull, 2147483648ull, 2147483648ull + 4096, 4294967295ull, 4294967296ull,
                                4294967296ull + 4096, 1ull << 40, 1ull << 63, ~0ull };
            for (unsigned q = 0; q < sizeof lens / sizeof lens[0]; q++) { op_enclen(cs[ci], lens[q]); stat_add("args.too_large", 1); }
        }
    }
    /* the box of shapes: create refuses, or the instance survives a full cycle */
    int bes[] = { 0, 6, 1, 2, 5, 8, 4, 7, 9, 12 };
    for (unsigned b = 0; b < sizeof bes / sizeof bes[0]; b++) for (int k = -1; k <= 33; k++) for (int m = -1; m <= 33; m++) {
        int edge = (k <= 1 || m <= 1 || k + m >= 31);
        if (!tier && !edge && rnd(25) != 0) continue;
        if (!tier && edge && b >= 2 && rnd(8) != 0) continue;
        if (tier && b >= 2 && !edge && rnd(6) != 0) continue;
        int w = (bes[b] == 0) ? (int)((int[]){0, 8, 16, 32, 7, -1, 64}[rnd(7)]) : 0;
        op_create(bes[b], k, m, m, w);
        stat_add("args.create_box", 1);
    }
    /* flat XOR: the whole (k, m, hd) box around the supported tables, exhaustively */
    for (int hd = 0; hd <= 6; hd++) for (int m = 0; m <= 9; m++) for (int k = 0; k <= 34; k++) {
        if (!tier && (hd < 2 || hd > 5) && rnd(4) != 0) continue;
        op_create(3, k, m, hd, 0);
        stat_add("args.create_xor_box", 1);
    }
    /* rs_vand: hd is ignored beyond the documented checks, w restricted to 16 (or default) */
    for (int k = 1; k <= 32; k += (tier ? 1 : 3)) for (int m = 0; m <= 33 - k && m <= 32; m += (tier ? 1 : 5)) {
        op_create(6, k, m, (int)rnd(6), 0);
        op_create(6, k, 33 - k > 0 ? 32 - k : 0, 1, 0);
        stat_add("args.create_rs_box", 2);
    }
}

/* ======================================================================= hist (C14) */
/*
 * One history per line:  hist <preset> <op>;<op>;...   with ops
 *   c<slot>:<be>:<k>:<m>:<hd>[:<w>]  create into slot (optionally asking for word size w) -> descriptor or error code
 *   d<slot>                      destroy slot's value    -> rc        (also works on dead values: refused)
 *   u<slot>                      encode+decode round trip through slot's descriptor -> 0 / error code
 *   D<slot> U<slot> Q<slot>      the same as d / u / q, executed on a second (persistent) thread
 *   q<slot>                      fragment-size query     -> value / error
 *   f<slot>                      failed create (unsupported XOR shape) into slot -> error code
 *   n:<value>                    overwrite the exported counter next_backend_desc (so that the counter runs into
 *                                live descriptors, as it does after wrapping)          -> 0
 * `preset` is stored into next_backend_desc before the history starts (all instances destroyed).
 */
#define SLOTS 4
typedef struct { int nops; char ops[64][40]; int preset; } hist_t;

/* the descriptor-taking operations; lower-case letters run them on the main thread, upper-case ones on a second,
   persistent thread (a destroyed descriptor is unknown to every thread, whoever used it last) */
static const unsigned char HDATA[29] = { 3,14,25,36,47,58,69,80,91,102,113,124,135,146,157,168,179,190,201,212,223,234,245,0,11,22,33,44,55 };
static int hist_do(char kind, int desc, cfg_t cf) {
    int res = 0;
    if (kind == 'd') res = liberasurecode_instance_destroy(desc);
    else if (kind == 'q') res = liberasurecode_get_fragment_size(desc, 1000);
    else if (kind == 'u') {
        char **ed = NULL, **ep = NULL; uint64_t fl = 0;
        res = liberasurecode_encode(desc, (char *)HDATA, 29, &ed, &ep, &fl);
        if (res == 0) {
            /* drop the first data fragment, decode from the rest */
            char *fr[64]; int n = 0;
            for (int i = 1; i < cf.k; i++) fr[n++] = ed[i];
            for (int i = 0; i < cf.m; i++) fr[n++] = ep[i];
            char *od = NULL; uint64_t ol = 0;
            res = liberasurecode_decode(desc, fr, n, fl, 0, &od, &ol);
            if (res == 0) {
                if (ol != 29 || memcmp(od, HDATA, 29)) res = 1;
                liberasurecode_decode_cleanup(desc, od);
            }
            liberasurecode_encode_cleanup(desc, ed, ep);
        }
    }
    return res;
}
static struct { sem_t req, done; char kind; int desc; cfg_t cf; int res; int quit; } g_hw;
static void *hist_worker(void *unused) {
    (void)unused;
    for (;;) { sem_wait(&g_hw.req); if (g_hw.quit) return NULL; g_hw.res = hist_do(g_hw.kind, g_hw.desc, g_hw.cf); sem_post(&g_hw.done); }
}

static void run_hist(void *va, FILE *out) {
    hist_t *h = va;
    int slot[SLOTS] = { -1, -1, -1, -1 };
    cfg_t scfg[SLOTS]; memset(scfg, 0, sizeof scfg);
    next_backend_desc = h->preset;
    int live[128], nlive = 0, viol = 0; cfg_t lcfg[128];
    pthread_t worker; int have_worker = 0;
    for (int o = 0; o < h->nops; o++) {
        char *op = h->ops[o];
        int s = op[1] - '0';
        int res = 0;
        if (op[0] == 'c' || op[0] == 'f') {
            int be, k, m, hd, w = 0;
            sscanf(op + 3, "%d:%d:%d:%d:%d", &be, &k, &m, &hd, &w);
            struct ec_args ar; memset(&ar, 0, sizeof ar); ar.k = k; ar.m = m; ar.hd = hd; ar.w = w; ar.ct = CHKSUM_CRC32;
            res = liberasurecode_instance_create((ec_backend_id_t)be, &ar);
            if (res > 0) {
                /* direct oracle: a descriptor that is still live is never handed out again */
                for (int q = 0; q < nlive; q++) if (live[q] == res) viol = 1;
                if (nlive < 128) { lcfg[nlive] = (cfg_t){ be, k, m, hd, 2 }; live[nlive++] = res; }
                slot[s] = res; scfg[s] = (cfg_t){ be, k, m, hd, 2 };
            }
        } else if (strchr("duqDUQ", op[0])) {
            char kind = (char)(op[0] | 0x20);
            /* the shape belongs to the descriptor, not to the slot: a stale handle may name a newer instance */
            for (int q = 0; q < nlive; q++) if (live[q] == slot[s]) scfg[s] = lcfg[q];
            if (op[0] & 0x20) res = hist_do(kind, slot[s], scfg[s]);
            else {
                if (!have_worker) { sem_init(&g_hw.req, 0, 0); sem_init(&g_hw.done, 0, 0); g_hw.quit = 0; pthread_create(&worker, NULL, hist_worker, NULL); have_worker = 1; }
                g_hw.kind = kind; g_hw.desc = slot[s]; g_hw.cf = scfg[s];
                sem_post(&g_hw.req); sem_wait(&g_hw.done); res = g_hw.res;
            }
            if (kind == 'd' && res == 0) for (int q = 0; q < nlive; q++) if (live[q] == slot[s]) { --nlive; live[q] = live[nlive]; lcfg[q] = lcfg[nlive]; break; }
        } else if (op[0] == 'n') {
            next_backend_desc = atoi(op + 2); res = 0;
        }
        fprintf(out, "%s%d", o ? "," : "", res);
    }
    if (viol) fprintf(out, " !VIOL live descriptor handed out again");
    if (have_worker) { g_hw.quit = 1; sem_post(&g_hw.req); pthread_join(worker, NULL); }
    /* leave nothing behind */
    for (int s = 0; s < SLOTS; s++) if (slot[s] > 0) liberasurecode_instance_destroy(slot[s]);
}

static void hist_emit(hist_t *h) {
    op_begin("hist %d ", h->preset);
    for (int o = 0; o < h->nops; o++) printf("%s%s", o ? ";" : "", h->ops[o]);
    op_sep();
    guarded(run_hist, h);
    stat_add("hist.histories", 1);
    stat_add("hist.ops", h->nops);
}

static void hist_random_op(char *buf, int allow_fail) {
    static const int shapes[][4] = { {6,2,1,1}, {6,3,2,2}, {3,3,3,3}, {0,2,1,1}, {6,4,2,2}, {3,5,5,3} };
    int s = (int)rnd(SLOTS);
    switch (rnd(allow_fail ? 8 : 6)) {
    case 7: { static const int vals[] = { 0, 1, 2, 0x7fffffff, 0x7ffffffe, -1, 3 }; sprintf(buf, "n:%d", vals[rnd(7)]); } break;
    case 0: case 1: { const int *sh = shapes[rnd(6)]; static const int ws[] = { 8, 32, 64, 7, 16 };
                      if (rnd(3)) sprintf(buf, "c%d:%d:%d:%d:%d", s, sh[0], sh[1], sh[2], sh[3]);
                      else sprintf(buf, "c%d:%d:%d:%d:%d:%d", s, sh[0], sh[1], sh[2], sh[3], ws[rnd(sh[0] == 0 ? 2 : 5)]); } break;
    case 2: case 3: sprintf(buf, "%c%d", rnd(4) ? 'd' : 'D', s); break;
    case 4: sprintf(buf, "%c%d", rnd(3) ? 'u' : 'U', s); break;
    case 5: sprintf(buf, "%c%d", rnd(3) ? 'q' : 'Q', s); break;
    default: if (rnd(2)) sprintf(buf, "f%d:3:4:4:3", s); else sprintf(buf, "f%d:0:3:2:2:%d", s, rnd(2) ? 64 : 7); break;   /* refused: XOR shape / null word size */
    }
}

/* many instances alive at once (every bounded table, pool or counter a change may introduce has some capacity):
   creates either succeed with fresh positive descriptors or are refused — and a refused create leaves nothing
   behind: descriptor 0 and other never-issued descriptors stay unknown, the earlier instances keep working */
static void run_mass(void *va, FILE *out) {
    int N = *(int *)va; int *ds = malloc(sizeof(int) * N); int nlive = 0, refused = 0, bad = 0;
    unsigned char data[64]; for (int i = 0; i < 64; i++) data[i] = (unsigned char)(i * 5 + 1);
    static const int shp[][4] = { {0,2,1,1}, {6,2,1,1}, {3,3,3,3}, {0,4,2,2} };
    for (int i = 0; i < N; i++) {
        struct ec_args a; memset(&a, 0, sizeof a); const int *sh = shp[i % 13 == 0 ? 1 + i % 2 : (i % 4 == 3 ? 3 : 0)];
        a.k = sh[1]; a.m = sh[2]; a.hd = sh[3]; a.ct = CHKSUM_NONE;
        int d = liberasurecode_instance_create((ec_backend_id_t)sh[0], &a);
        if (d > 0) {
            for (int j = 0; j < nlive && j < 64; j++) if (ds[nlive - 1 - j] == d) bad++;   /* recent duplicates (full check below) */
            ds[nlive++] = d;
        } else {
            refused++;
            /* nothing left behind by the refusal */
            if (liberasurecode_get_fragment_size(0, 100) >= 0 || liberasurecode_get_fragment_size(d, 100) >= 0 ||
                liberasurecode_instance_destroy(0) == 0) { fprintf(out, "refused create #%d (rc %d) left an instance behind: descriptor 0 / the error value is accepted", i, d); free(ds); return; }
        }
    }
    /* all distinct */
    for (int i = 0; i < nlive && !bad; i++) { int d = ds[i]; for (int j = i + 1; j < nlive; j++) if (ds[j] == d) { bad++; break; } }
    if (bad) { fprintf(out, "duplicate live descriptors among %d instances", nlive); free(ds); return; }
    /* never-issued descriptors are unknown; a sample of the live ones works */
    if (liberasurecode_get_fragment_size(0, 100) >= 0) { fprintf(out, "descriptor 0 accepted with %d instances alive", nlive); free(ds); return; }
    for (int i = 0; i < nlive; i += 37) {
        char **ed = NULL, **ep = NULL; uint64_t fl = 0;
        if (liberasurecode_encode(ds[i], (char *)data, 64, &ed, &ep, &fl) != 0) { fprintf(out, "live descriptor %d (instance #%d of %d) refused", ds[i], i, nlive); free(ds); return; }
        liberasurecode_encode_cleanup(ds[i], ed, ep);
    }
    /* destroy in a scrambled order; every destroy succeeds exactly once */
    for (int i = 0; i < nlive; i++) { int j = (int)(((long)i * 7919) % nlive); (void)j; }
    for (int step = 0; step < nlive; step++) {
        int j = (int)(((long)step * 7919 + 13) % nlive);
        if (ds[j] > 0) { if (liberasurecode_instance_destroy(ds[j]) != 0) { fprintf(out, "destroy of live descriptor %d failed", ds[j]); free(ds); return; } ds[j] = -1; }
    }
    for (int j = 0; j < nlive; j++) if (ds[j] > 0) { if (liberasurecode_instance_destroy(ds[j]) != 0) { fprintf(out, "destroy of live descriptor %d failed", ds[j]); free(ds); return; } }
    free(ds);
    fprintf(out, "ok");
    (void)refused;
}

void suite_hist(int tier) {
    {
        int sizes[] = { 1100, 70, 4200 };
        for (int q = 0; q < (tier ? 3 : 2); q++) {
            cfg_release_all();
            op_begin("conc mass %d", sizes[q]); op_sep();      /* model: `ok` (C14.inv_history holds for histories of any length) */
            guarded(run_mass, &sizes[q]);
            stat_add("hist.mass_instances", sizes[q]);
        }
    }
    int presets[] = { 0, 5, 0x7ffffffd, 0x7ffffffe, 0x7fffffff, -5, -1 };
    /* bounded exhaustive over a small alphabet, depth 4 (quick) / 5 (thorough), 2 slots */
    const char *alpha[] = { "c0:6:2:1:1", "c1:6:3:2:2", "c1:3:3:3:3", "d0", "d1", "u0", "u1", "f0:3:4:4:3", "c0:6:4:2:2:8", "f1:0:3:2:2:64", "D0", "U0", "Q1", "c1:6:3:0:0", "c0:6:1:0:0" };
    int na = 15, depth = tier ? 5 : 4;
    long total = 1; for (int i = 0; i < depth; i++) total *= na;
    for (long code = 0; code < total; code++) {
        if (!tier && rnd(12) != 0) continue;
        if (tier && rnd(8) != 0) continue;
        hist_t h; h.nops = depth; h.preset = presets[rnd(7)];
        long c = code;
        for (int i = 0; i < depth; i++) { strcpy(h.ops[i], alpha[c % na]); c /= na; }
        hist_emit(&h);
    }
    /* the counter runs into a block of live descriptors (what happens after a wrap): every order of creation,
       every landing point, with and without holes */
    {
        static const char *mk[] = { "c0:6:2:1:1", "c1:6:3:2:2", "c2:3:3:3:3", "c3:0:2:1:1" };
        static const int land[] = { 0, 1, 2, 3, 0x7fffffff, 0x7ffffffe, -7 };
        for (int nlive = 2; nlive <= 4; nlive++) for (unsigned l = 0; l < 7; l++) for (int hole = -1; hole < nlive; hole++) for (int pre = 0; pre < 2; pre++) {
            if (!tier && nlive == 4 && hole >= 0 && rnd(2)) continue;
            hist_t h; h.nops = 0; h.preset = pre ? 0x7ffffffd : 0;
            for (int i = 0; i < nlive; i++) strcpy(h.ops[h.nops++], mk[i]);
            if (hole >= 0) sprintf(h.ops[h.nops++], "d%d", hole);
            sprintf(h.ops[h.nops++], "n:%d", land[l]);
            /* new instances land in the freed slot (or overwrite slot 0's handle: its instance stays live) */
            sprintf(h.ops[h.nops++], "c%d:6:2:1:1", hole >= 0 ? hole : 0);
            for (int i = 0; i < nlive; i++) sprintf(h.ops[h.nops++], "u%d", i);
            sprintf(h.ops[h.nops++], "c%d:6:4:2:2", hole >= 0 ? hole : 1);
            for (int i = 0; i < nlive; i++) sprintf(h.ops[h.nops++], "u%d", i);
            for (int i = 0; i < nlive; i++) sprintf(h.ops[h.nops++], "d%d", i);
            for (int i = 0; i < nlive; i++) sprintf(h.ops[h.nops++], "d%d", i);
            hist_emit(&h);
            stat_add("hist.collision_histories", 1);
        }
    }
    /* equally shaped instances alive together, another shape created, one of the equals destroyed, a block of the
       same size allocated again: the survivor must be untouched (private tables are per instance, shared ones counted) */
    {
        /* "6:3:0:0": an rs_vand instance without parity takes part in the shared-table count like any other */
        static const char *shp[] = { "6:4:2:2", "6:5:3:3", "6:3:5:5", "3:5:5:3", "0:3:2:2", "6:2:1:1", "6:3:0:0", "6:1:1:1", "6:1:3:3" };
        for (int a = 0; a < 9; a++) for (int b = 0; b < 9; b++) for (int third = 0; third < 9; third++) {
            if (b == a) continue;
            if (!tier && a >= 3 && a < 6 && rnd(3)) continue;
            if (!tier && third != a && third != b && rnd(3)) continue;
            for (int victim = 0; victim < 2; victim++) {
                hist_t h; h.nops = 0; h.preset = 0;
                sprintf(h.ops[h.nops++], "c0:%s", shp[a]); sprintf(h.ops[h.nops++], "c1:%s", shp[a]);
                sprintf(h.ops[h.nops++], "u%d", 1 - victim);
                sprintf(h.ops[h.nops++], "c2:%s", shp[b]);
                sprintf(h.ops[h.nops++], "d%d", victim);
                sprintf(h.ops[h.nops++], "c3:%s", shp[third]);
                sprintf(h.ops[h.nops++], "u%d", 1 - victim); sprintf(h.ops[h.nops++], "u2"); sprintf(h.ops[h.nops++], "u3");
                sprintf(h.ops[h.nops++], "d%d", 1 - victim); sprintf(h.ops[h.nops++], "u2"); sprintf(h.ops[h.nops++], "u3");
                sprintf(h.ops[h.nops++], "d2"); sprintf(h.ops[h.nops++], "d3");
                hist_emit(&h);
                stat_add("hist.sharing_histories", 1);
            }
        }
    }
    /* a descriptor used on one thread, destroyed on the other, used again on the first — every combination */
    {
        static const char *shp[] = { "6:4:2:2", "3:5:5:3", "0:3:2:2" };
        for (int sh = 0; sh < 3; sh++) for (int user = 0; user < 2; user++) for (int destroyer = 0; destroyer < 2; destroyer++) for (int probe = 0; probe < 2; probe++) {
            hist_t h; h.nops = 0; h.preset = sh;
            sprintf(h.ops[h.nops++], "c0:%s", shp[sh]); sprintf(h.ops[h.nops++], "c1:%s", shp[(sh + 1) % 3]);
            sprintf(h.ops[h.nops++], "%c0", user ? (probe ? 'U' : 'Q') : (probe ? 'u' : 'q'));
            sprintf(h.ops[h.nops++], "%c0", destroyer ? 'D' : 'd');
            sprintf(h.ops[h.nops++], "%c0", user ? 'Q' : 'q'); sprintf(h.ops[h.nops++], "%c0", user ? 'U' : 'u'); sprintf(h.ops[h.nops++], "%c0", user ? 'D' : 'd');
            sprintf(h.ops[h.nops++], "%c1", user ? 'U' : 'u'); sprintf(h.ops[h.nops++], "%c0", user ? 'q' : 'Q');
            sprintf(h.ops[h.nops++], "c0:%s", shp[sh]); sprintf(h.ops[h.nops++], "%c0", user ? 'U' : 'u'); sprintf(h.ops[h.nops++], "d0"); sprintf(h.ops[h.nops++], "D1");
            hist_emit(&h);
            stat_add("hist.cross_thread_histories", 1);
        }
    }
    /* random long histories */
    int nh = tier ? 150 : 25;
    for (int t = 0; t < nh; t++) {
        hist_t h; h.nops = 20 + (int)rnd(tier ? 44 : 30); h.preset = presets[rnd(7)];
        for (int i = 0; i < h.nops; i++) hist_random_op(h.ops[i], 1);
        hist_emit(&h);
    }
}
