/*
 * suites8.c — cat: one catalogue of fragment damage, every consumer applied to every entry.
 *
 * The suites of the individual properties grew their own lists of header / payload edits; a kind of
 * damage that one of them had and a sibling lacked was the commonest reason for a seeded change to be
 * missed (index >= 2^31 in `valid` but not in `force`, the writer version 1.2.0 in `hdr` but not in
 * `valid`, opposite-order twins in `endian` but not in `hdr`, ...).  Here every kind of damage is listed
 * once and every API that consumes fragments is run on every entry, through the model:
 *     hdrinv, meta, fraginv, stripe, dec (plain and forced; damaged fragment first / in the middle /
 *     last / duplicated), rec (damaged fragment among the sources; as an available destination).
 * The expected result of each line is the model's (proved: C09 accept_iff / gates, C10 mismatch_iff,
 * C11 twin_*, C12 invalid_iff / stripe_*, C20 forced_is_filtered); the check of a property counts the
 * lines whose operation it owns.
 */
#include "common.h"
#include "ops.h"
#include <zlib.h>

static uint32_t rd32(const unsigned char *p) { uint32_t v; memcpy(&v, p, 4); return v; }
static void wr32(unsigned char *p, uint32_t v) { memcpy(p, &v, 4); }
static void seal_alt(unsigned char *f) { wr32(f + 67, (uint32_t)liberasurecode_crc32_alt(0, f, 59)); }

/* returns 0 when the kind does not apply to this fragment */
static int damage(int kind, unsigned char *m, size_t flen, cfg_t c, int n, const char **name) {
    size_t bs = flen - HDR;
    switch (kind) {
    case 0:  *name = "idx=n-1";        wr32(m, (uint32_t)(n - 1)); reseal(m); return 1;
    case 1:  *name = "idx=n";          wr32(m, (uint32_t)n); reseal(m); return 1;
    case 2:  *name = "idx=n+1";        wr32(m, (uint32_t)(n + 1)); reseal(m); return 1;
    case 3:  *name = "idx=2^31-1";     wr32(m, 0x7fffffffu); reseal(m); return 1;
    case 4:  *name = "idx=2^31";       wr32(m, 0x80000000u); reseal(m); return 1;
    case 5:  *name = "idx=2^32-1";     wr32(m, 0xffffffffu); reseal(m); return 1;
    case 6:  *name = "idx=2^31+own";   wr32(m, 0x80000000u | rd32(m)); reseal(m); return 1;
    case 7:  *name = "size-1";         if (bs == 0) return 0; wr32(m + 4, (uint32_t)(bs - 1)); reseal(m); return 1;
    case 8:  *name = "size=0";         if (bs == 0) return 0; wr32(m + 4, 0); reseal(m); return 1;
    case 9:  *name = "ctype=0";        m[20] = 0; reseal(m); return 1;
    case 10: *name = "ctype=1";        if (m[20] == 1) return 0; m[20] = 1; reseal(m); return 1;
    case 11: *name = "ctype=3";        m[20] = 3; reseal(m); return 1;
    case 12: *name = "ctype=4";        m[20] = 4; reseal(m); return 1;
    case 13: *name = "ctype=255";      m[20] = 255; reseal(m); return 1;
    case 14: *name = "stored=0";       wr32(m + 21, 0); reseal(m); return 1;
    case 15: *name = "stored=~0";      wr32(m + 21, 0xffffffffu); reseal(m); return 1;
    case 16: *name = "stored=bswap";   wr32(m + 21, __builtin_bswap32(rd32(m + 21))); reseal(m); return 1;
    case 17: *name = "stored=alt";     if (c.ct != 2) return 0; wr32(m + 21, (uint32_t)liberasurecode_crc32_alt(0, m + HDR, bs)); reseal(m); return 1;
    case 18: *name = "stored=lowbyte"; if (c.ct != 2) return 0; wr32(m + 21, (rd32(m + 21) & 0xff) | 0x5a5a5a00u); reseal(m); return 1;
    case 19: *name = "flag=1";         m[53] = 1; reseal(m); return 1;
    case 20: *name = "beid^16";        m[54] ^= 0x10; reseal(m); return 1;
    case 21: *name = "beid=255";       m[54] = 255; reseal(m); return 1;
    case 22: *name = "bever+1";        wr32(m + 55, rd32(m + 55) + 1); reseal(m); return 1;
    case 23: *name = "bever-1";        wr32(m + 55, rd32(m + 55) - 1); reseal(m); return 1;
    case 24: *name = "bever+256";      wr32(m + 55, rd32(m + 55) + 256); reseal(m); return 1;
    case 25: *name = "bever+65536";    wr32(m + 55, rd32(m + 55) + 65536); reseal(m); return 1;
    case 26: *name = "magic=0";        wr32(m + 59, 0); return 1;
    case 27: *name = "magic-swapped";  wr32(m + 59, __builtin_bswap32(rd32(m + 59))); return 1;
    case 28: *name = "magic-bit";      m[59 + (flen % 4)] ^= (unsigned char)(1u << (flen % 8)); return 1;
    case 29: *name = "libver=0";       wr32(m + 63, 0); reseal(m); return 1;
    case 30: *name = "libver=1.1.0-unsealed"; wr32(m + 63, 0x010100); m[12] ^= 1; return 1;
    case 31: *name = "libver=1.2.0-unsealed"; wr32(m + 63, 0x010200); m[12] ^= 1; return 1;
    case 32: *name = "libver=1.1.255-unsealed"; wr32(m + 63, 0x0101ff); m[12] ^= 1; return 1;
    case 33: *name = "libver=future";  wr32(m + 63, 0x7f0000); reseal(m); return 1;
    case 34: *name = "libver=next";    wr32(m + 63, rd32(m + 63) + 1); reseal(m); return 1;
    case 35: *name = "crc-bit";        m[67 + (flen % 4)] ^= (unsigned char)(1u << (flen % 7)); return 1;
    case 36: *name = "crc=alt";        seal_alt(m); return 1;
    case 37: *name = "crc=alt-after-edit"; m[12] ^= 3; seal_alt(m); return 1;
    case 38: *name = "crc-lowbyte-only"; m[12] ^= 1; { uint32_t g = (uint32_t)crc32(0, m, 59); wr32(m + 67, (g & 0xff) | 0xa5a5a500u); } return 1;
    case 39: *name = "crc-highbytes-only"; m[12] ^= 1; { uint32_t g = (uint32_t)crc32(0, m, 59); wr32(m + 67, (g & 0xffffff00u) | ((g + 1) & 0xff)); } return 1;
    case 40: *name = "padding";        m[71 + flen % 9] = 0x77; return 1;
    case 41: *name = "twin";           make_twin(m); return 1;
    case 42: *name = "twin+payload";   if (bs == 0) return 0; make_twin(m); m[HDR + bs / 2] ^= 0x20; return 1;
    case 43: *name = "twin+idx=n";     wr32(m, (uint32_t)n); reseal(m); make_twin(m); return 1;
    case 44: *name = "payload-bit";    if (bs == 0) return 0; m[HDR + (flen * 7) % bs] ^= (unsigned char)(1u << (flen % 8)); return 1;
    case 45: *name = "payload-last";   if (bs == 0) return 0; m[flen - 1] ^= 0x80; return 1;
    case 46: *name = "payload-first";  if (bs == 0) return 0; m[HDR] ^= 0x01; return 1;
    case 47: *name = "unsealed-idx";   m[0] ^= 1; return 1;
    case 48: *name = "unsealed-size";  m[4] ^= 1; return 1;
    case 49: *name = "orig+1";         { uint64_t o; memcpy(&o, m + 12, 8); o += 1; memcpy(m + 12, &o, 8); } reseal(m); return 1;
    case 50: *name = "orig=0";         { uint64_t o = 0; memcpy(m + 12, &o, 8); } reseal(m); return 1;
    case 51: *name = "orig=2^31";      { uint64_t o = 1ull << 31; memcpy(m + 12, &o, 8); } reseal(m); return 1;
    case 52: *name = "orig=2^32+own";  { uint64_t o; memcpy(&o, m + 12, 8); o += 1ull << 32; memcpy(m + 12, &o, 8); } reseal(m); return 1;
    case 53: *name = "bmsize=4";       wr32(m + 8, 4); reseal(m); return 1;
    case 54: *name = "intact";         return 1;
    case 55: *name = "size+2";         wr32(m + 4, (uint32_t)(bs + 2)); reseal(m); return 1;
    case 56: *name = "size+4096";      wr32(m + 4, (uint32_t)(bs + 4096)); reseal(m); return 1;
    case 57: *name = "size=2^31";      wr32(m + 4, 0x80000000u); reseal(m); return 1;
    /* fragments of writers older than 1.2.0 (no metadata CRC; the slot holds anything), native and opposite order */
    case 58: *name = "libver=1.0.5";       wr32(m + 63, 0x010005); wr32(m + 67, 0); return 1;
    case 59: *name = "twin+libver=1.0.5";  wr32(m + 63, 0x010005); make_twin(m); wr32(m + 67, 0); return 1;
    case 60: *name = "twin+libver=1.1.1";  wr32(m + 63, 0x010101); make_twin(m); wr32(m + 67, 0x12345678u); return 1;
    case 61: *name = "twin+libver=1.1.255"; wr32(m + 63, 0x0101ff); make_twin(m); return 1;
    case 62: *name = "twin+libver=0.7.0";  wr32(m + 63, 0x000700); make_twin(m); wr32(m + 67, 0); return 1;
    case 63: *name = "twin+libver=1.2.0-unsealed"; wr32(m + 63, 0x010200); make_twin(m); m[14] ^= 1; return 1;
    case 64: *name = "libver=1.5.5";       wr32(m + 63, 0x010505); reseal(m); return 1;       /* older release, larger low digits */
    case 65: *name = "libver=0.9.9";       wr32(m + 63, 0x000909); return 1;
    default: return 0;
    }
}
#define N_DAMAGE 66

static void cat_stripe(cfg_t c, size_t len, int legacy, int tier, int reader_env) {
    stripe_t s;
    if (stripe_make(&s, c, len, 0, legacy) != 0) return;
    g_env_readers = reader_env;
    if (reader_env) stat_add("cat.stripes_read_with_switch_set", 1);
    int n = s.n;
    unsigned char *mut = malloc(s.flen);
    char **fr = malloc(sizeof(char *) * (n + 2));
    for (int kind = 0; kind < N_DAMAGE; kind++) {
        int fi = kind % 3 == 0 ? 0 : (kind % 3 == 1 ? n - 1 : (int)rnd(n));      /* a data / the last parity / any fragment */
        const char *name = "";
        memcpy(mut, s.all[fi], s.flen);
        if (!damage(kind, mut, s.flen, c, n, &name)) continue;
        { char key[64]; snprintf(key, sizeof key, "cat.%s", name); stat_add(key, 1); }
        /* readers (the two that take no length trust the header's size: not given inflated sizes) */
        op_hdrinv(mut, 0);
        if (kind < 55 || kind > 57 || c.ct != 2) { op_meta(mut, s.flen, kind % 5 == 0 ? 2 : 1); op_fraginv(c, mut, s.flen, 1); }
        /* the stripe with the damaged member */
        for (int i = 0; i < n; i++) fr[i] = i == fi ? (char *)mut : s.all[i];
        op_stripe(c, n, fr, s.flen);
        if (cfg_tolerance(c) < 1) continue;
        /* decode, plain and forced: whole stripe; then with one other fragment withheld and the damaged one
           moved to the front / the back / given twice */
        op_dec_g(c, 0, s.flen, n, fr); op_dec_g(c, 1, s.flen, n, fr);
        int other = (fi + 1 + (int)rnd(n - 1)) % n, cnt = 0;
        for (int i = 0; i < n; i++) if (i != other && i != fi) fr[cnt++] = s.all[i];
        int pos = kind % 4;
        if (pos == 0) { memmove(fr + 1, fr, sizeof(char *) * cnt); fr[0] = (char *)mut; cnt++; }
        else if (pos == 1) fr[cnt++] = (char *)mut;
        else if (pos == 2) { int at = cnt / 2; memmove(fr + at + 1, fr + at, sizeof(char *) * (cnt - at)); fr[at] = (char *)mut; cnt++; }
        else { memmove(fr + 1, fr, sizeof(char *) * cnt); fr[0] = (char *)mut; cnt++; fr[cnt++] = (char *)mut; }
        op_dec_g(c, (kind >> 1) & 1, s.flen, cnt, fr);
        if (tier || kind % 2) op_dec_g(c, !((kind >> 1) & 1), s.flen, cnt, fr);
        /* reconstruct: the damaged fragment among the sources (destination: the withheld one); the damaged
           fragment present while it is itself the destination */
        op_rec_g(c, reader_env, other, s.flen, cnt, fr);      /* reconstruct also writes: the switch is its input */
        if (tier || kind % 3 == 0) op_rec_g(c, reader_env, fi, s.flen, cnt, fr);
    }
    free(fr); free(mut);
    g_env_readers = 0;
    stripe_free(&s);
}

void suite_cat(int tier) {
    /* checksum type x writer flavour x backend, payload sizes with and without the top bit in the low byte */
    cfg_t cfgs[] = { {6,3,2,2,2}, {3,5,5,3,2}, {6,2,1,1,1}, {3,6,6,4,2}, {6,4,3,3,3}, {0,3,2,2,2}, {6,1,2,2,2}, {3,3,3,3,1} };
    size_t lens[] = { 37, 600, 1, 0, 130, 52, 200, 12 };
    int ns = tier ? 8 : 4;
    for (int i = 0; i < ns; i++) {
        int j = tier ? i : (i + (int)rnd(2) * 4) % 8;
        /* writer flavour x reader environment: all four combinations at every seed */
        cat_stripe(cfgs[j], lens[j] + rnd(3), (i & 1) && cfgs[j].ct == 2, tier, (i >> 1) & 1);
        stat_add("cat.stripes", 1);
    }
    if (g_isal) cat_stripe((cfg_t){ 4, 3, 2, 2, 2 }, 40 + rnd(9), 0, tier, 1);
}
