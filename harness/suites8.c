/*
 * suites8.c — cat: one catalogue of fragment damage, every consumer applied to every entry.
 *
 * The suites of the individual properties grew their own lists of header / payload edits; a kind of
 * damage that one of them had and a sibling lacked was the commonest reason for a seeded change to be
 * missed (index >= 2^31 in `valid` but not in `force`, the writer version 1.2.0 in `hdr` but not in
 * `valid`, opposite-order twins in `endian` but not in `hdr`, ...).  Here every kind of damage is listed
 * once and every API that consumes fragments is run on every entry, through the model:
 *     hdrinv, meta, fraginv, stripe, dec (plain and forced; damaged fragment first / in the middle /
 *     last / duplicated), rec (damaged fragment among the sources; as an available destination).
 * The expected result of each line is the model's (proved: C09 accept_iff / gates, C10 mismatch_iff,
 * C11 twin_*, C12 invalid_iff / stripe_*, C20 forced_is_filtered); the check of a property counts the
 * lines whose operation it owns.
 */
#include "common.h"
#include "ops.h"
#include <zlib.h>
#include <stdarg.h>

static uint32_t rd32(const unsigned char *p) { uint32_t v; memcpy(&v, p, 4); return v; }
static void wr32(unsigned char *p, uint32_t v) { memcpy(p, &v, 4); }
static void seal_alt(unsigned char *f) { wr32(f + 67, (uint32_t)liberasurecode_crc32_alt(0, f, 59)); }

/* returns 0 when the kind does not apply to this fragment */
static int damage(int kind, unsigned char *m, size_t flen, cfg_t c, int n, const char **name) {
    size_t bs = flen - HDR;
    switch (kind) {
    case 0:  *name = "idx=n-1";        wr32(m, (uint32_t)(n - 1)); reseal(m); return 1;
    case 1:  *name = "idx=n";          wr32(m, (uint32_t)n); reseal(m); return 1;
    case 2:  *name = "idx=n+1";        wr32(m, (uint32_t)(n + 1)); reseal(m); return 1;
    case 3:  *name = "idx=2^31-1";     wr32(m, 0x7fffffffu); reseal(m); return 1;
    case 4:  *name = "idx=2^31";       wr32(m, 0x80000000u); reseal(m); return 1;
    case 5:  *name = "idx=2^32-1";     wr32(m, 0xffffffffu); reseal(m); return 1;
    case 6:  *name = "idx=2^31+own";   wr32(m, 0x80000000u | rd32(m)); reseal(m); return 1;
    case 7:  *name = "size-1";         if (bs == 0) return 0; wr32(m + 4, (uint32_t)(bs - 1)); reseal(m); return 1;
    case 8:  *name = "size=0";         if (bs == 0) return 0; wr32(m + 4, 0); reseal(m); return 1;
    case 9:  *name = "ctype=0";        m[20] = 0; reseal(m); return 1;
    case 10: *name = "ctype=1";        if (m[20] == 1) return 0; m[20] = 1; reseal(m); return 1;
    case 11: *name = "ctype=3";        m[20] = 3; reseal(m); return 1;
    case 12: *name = "ctype=4";        m[20] = 4; reseal(m); return 1;
    case 13: *name = "ctype=255";      m[20] = 255; reseal(m); return 1;
    case 14: *name = "stored=0";       wr32(m + 21, 0); reseal(m); return 1;
    case 15: *name = "stored=~0";      wr32(m + 21, 0xffffffffu); reseal(m); return 1;
    case 16: *name = "stored=bswap";   wr32(m + 21, __builtin_bswap32(rd32(m + 21))); reseal(m); return 1;
    case 17: *name = "stored=alt";     if (c.ct != 2) return 0; wr32(m + 21, (uint32_t)liberasurecode_crc32_alt(0, m + HDR, bs)); reseal(m); return 1;
    case 18: *name = "stored=lowbyte"; if (c.ct != 2) return 0; wr32(m + 21, (rd32(m + 21) & 0xff) | 0x5a5a5a00u); reseal(m); return 1;
    case 19: *name = "flag=1";         m[53] = 1; reseal(m); return 1;
    case 20: *name = "beid^16";        m[54] ^= 0x10; reseal(m); return 1;
    case 21: *name = "beid=255";       m[54] = 255; reseal(m); return 1;
    case 22: *name = "bever+1";        wr32(m + 55, rd32(m + 55) + 1); reseal(m); return 1;
    case 23: *name = "bever-1";        wr32(m + 55, rd32(m + 55) - 1); reseal(m); return 1;
    case 24: *name = "bever+256";      wr32(m + 55, rd32(m + 55) + 256); reseal(m); return 1;
    case 25: *name = "bever+65536";    wr32(m + 55, rd32(m + 55) + 65536); reseal(m); return 1;
    case 26: *name = "magic=0";        wr32(m + 59, 0); return 1;
    case 27: *name = "magic-swapped";  wr32(m + 59, __builtin_bswap32(rd32(m + 59))); return 1;
    case 28: *name = "magic-bit";      m[59 + (flen % 4)] ^= (unsigned char)(1u << (flen % 8)); return 1;
    case 29: *name = "libver=0";       wr32(m + 63, 0); reseal(m); return 1;
    case 30: *name = "libver=1.1.0-unsealed"; wr32(m + 63, 0x010100); m[12] ^= 1; return 1;
    case 31: *name = "libver=1.2.0-unsealed"; wr32(m + 63, 0x010200); m[12] ^= 1; return 1;
    case 32: *name = "libver=1.1.255-unsealed"; wr32(m + 63, 0x0101ff); m[12] ^= 1; return 1;
    case 33: *name = "libver=future";  wr32(m + 63, 0x7f0000); reseal(m); return 1;
    case 34: *name = "libver=next";    wr32(m + 63, rd32(m + 63) + 1); reseal(m); return 1;
    case 35: *name = "crc-bit";        m[67 + (flen % 4)] ^= (unsigned char)(1u << (flen % 7)); return 1;
    case 36: *name = "crc=alt";        seal_alt(m); return 1;
    case 37: *name = "crc=alt-after-edit"; m[12] ^= 3; seal_alt(m); return 1;
    case 38: *name = "crc-lowbyte-only"; m[12] ^= 1; { uint32_t g = (uint32_t)crc32(0, m, 59); wr32(m + 67, (g & 0xff) | 0xa5a5a500u); } return 1;
    case 39: *name = "crc-highbytes-only"; m[12] ^= 1; { uint32_t g = (uint32_t)crc32(0, m, 59); wr32(m + 67, (g & 0xffffff00u) | ((g + 1) & 0xff)); } return 1;
    case 40: *name = "padding";        m[71 + flen % 9] = 0x77; return 1;
    case 41: *name = "twin";           make_twin(m); return 1;
    case 42: *name = "twin+payload";   if (bs == 0) return 0; make_twin(m); m[HDR + bs / 2] ^= 0x20; return 1;
    case 43: *name = "twin+idx=n";     wr32(m, (uint32_t)n); reseal(m); make_twin(m); return 1;
    case 44: *name = "payload-bit";    if (bs == 0) return 0; m[HDR + (flen * 7) % bs] ^= (unsigned char)(1u << (flen % 8)); return 1;
    case 45: *name = "payload-last";   if (bs == 0) return 0; m[flen - 1] ^= 0x80; return 1;
    case 46: *name = "payload-first";  if (bs == 0) return 0; m[HDR] ^= 0x01; return 1;
    case 47: *name = "unsealed-idx";   m[0] ^= 1; return 1;
    case 48: *name = "unsealed-size";  m[4] ^= 1; return 1;
    case 49: *name = "orig+1";         { uint64_t o; memcpy(&o, m + 12, 8); o += 1; memcpy(m + 12, &o, 8); } reseal(m); return 1;
    case 50: *name = "orig=0";         { uint64_t o = 0; memcpy(m + 12, &o, 8); } reseal(m); return 1;
    case 51: *name = "orig=2^31";      { uint64_t o = 1ull << 31; memcpy(m + 12, &o, 8); } reseal(m); return 1;
    case 52: *name = "orig=2^32+own";  { uint64_t o; memcpy(&o, m + 12, 8); o += 1ull << 32; memcpy(m + 12, &o, 8); } reseal(m); return 1;
    case 53: *name = "bmsize=4";       wr32(m + 8, 4); reseal(m); return 1;
    case 54: *name = "intact";         return 1;
    case 55: *name = "size+2";         wr32(m + 4, (uint32_t)(bs + 2)); reseal(m); return 1;
    case 56: *name = "size+4096";      wr32(m + 4, (uint32_t)(bs + 4096)); reseal(m); return 1;
    case 57: *name = "size=2^31";      wr32(m + 4, 0x80000000u); reseal(m); return 1;
    /* fragments of writers older than 1.2.0 (no metadata CRC; the slot holds anything), native and opposite order */
    case 58: *name = "libver=1.0.5";       wr32(m + 63, 0x010005); wr32(m + 67, 0); return 1;
    case 59: *name = "twin+libver=1.0.5";  wr32(m + 63, 0x010005); make_twin(m); wr32(m + 67, 0); return 1;
    case 60: *name = "twin+libver=1.1.1";  wr32(m + 63, 0x010101); make_twin(m); wr32(m + 67, 0x12345678u); return 1;
    case 61: *name = "twin+libver=1.1.255"; wr32(m + 63, 0x0101ff); make_twin(m); return 1;
    case 62: *name = "twin+libver=0.7.0";  wr32(m + 63, 0x000700); make_twin(m); wr32(m + 67, 0); return 1;
    case 63: *name = "twin+libver=1.2.0-unsealed"; wr32(m + 63, 0x010200); make_twin(m); m[14] ^= 1; return 1;
    case 64: *name = "libver=1.5.5";       wr32(m + 63, 0x010505); reseal(m); return 1;       /* older release, larger low digits */
    case 65: *name = "libver=0.9.9";       wr32(m + 63, 0x000909); return 1;
    /* writer release x flavour of the stored payload checksum x payload damage */
    case 66: *name = "libver=1.6.2+stored=alt"; if (c.ct != 2) return 0; wr32(m + 63, 0x010602); wr32(m + 21, (uint32_t)liberasurecode_crc32_alt(0, m + HDR, bs)); reseal(m); return 1;
    case 67: *name = "libver=1.6.3+stored=alt"; if (c.ct != 2) return 0; wr32(m + 63, 0x010603); wr32(m + 21, (uint32_t)liberasurecode_crc32_alt(0, m + HDR, bs)); seal_alt(m); return 1;
    case 68: *name = "libver=1.2.0+stored=alt"; if (c.ct != 2) return 0; wr32(m + 63, 0x010200); wr32(m + 21, (uint32_t)liberasurecode_crc32_alt(0, m + HDR, bs)); reseal(m); return 1;
    case 69: *name = "libver=1.5.0+stored=alt"; if (c.ct != 2) return 0; wr32(m + 63, 0x010500); wr32(m + 21, (uint32_t)liberasurecode_crc32_alt(0, m + HDR, bs)); reseal(m); return 1;
    case 70: *name = "libver=1.6.2";            wr32(m + 63, 0x010602); reseal(m); return 1;
    case 71: *name = "libver=1.0.5+payload-bit"; if (bs == 0) return 0; wr32(m + 63, 0x010005); wr32(m + 67, 0); m[HDR + bs / 3] ^= 0x08; return 1;
    case 72: *name = "libver=1.1.0+payload-bit"; if (bs == 0) return 0; wr32(m + 63, 0x010100); m[HDR + bs - 1] ^= 0x01; return 1;
    case 73: *name = "twin+libver=1.0.5+payload"; if (bs == 0) return 0; wr32(m + 63, 0x010005); make_twin(m); wr32(m + 67, 0); m[HDR] ^= 0x10; return 1;
    case 74: *name = "libver=1.6.2+stored=alt+payload-bit"; if (c.ct != 2 || bs == 0) return 0; wr32(m + 63, 0x010602); wr32(m + 21, (uint32_t)liberasurecode_crc32_alt(0, m + HDR, bs)); reseal(m); m[HDR + bs / 2] ^= 0x02; return 1;
    case 75: *name = "libver=own+stored=alt"; if (c.ct != 2) return 0; wr32(m + 21, (uint32_t)liberasurecode_crc32_alt(0, m + HDR, bs)); reseal(m); return 1;
    default: return 0;
    }
}
#define N_DAMAGE 76

static void cat_stripe(cfg_t c, size_t len, int legacy, int tier, int reader_env) {
    stripe_t s;
    if (stripe_make(&s, c, len, 0, legacy) != 0) return;
    g_env_readers = reader_env;
    if (reader_env) stat_add("cat.stripes_read_with_switch_set", 1);
    int n = s.n;
    unsigned char *mut = malloc(s.flen);
    char **fr = malloc(sizeof(char *) * (n + 2));
    for (int kind = 0; kind < N_DAMAGE; kind++) {
        int fi = kind % 3 == 0 ? 0 : (kind % 3 == 1 ? n - 1 : (int)rnd(n));      /* a data / the last parity / any fragment */
        const char *name = "";
        memcpy(mut, s.all[fi], s.flen);
        if (!damage(kind, mut, s.flen, c, n, &name)) continue;
        { char key[64]; snprintf(key, sizeof key, "cat.%s", name); stat_add(key, 1); }
        /* readers (the two that take no length trust the header's size: not given inflated sizes) */
        op_hdrinv(mut, 0);
        if (kind < 55 || kind > 57 || c.ct != 2) { op_meta(mut, s.flen, kind % 5 == 0 ? 2 : 1); op_fraginv(c, mut, s.flen, 1); }
        /* the stripe with the damaged member */
        for (int i = 0; i < n; i++) fr[i] = i == fi ? (char *)mut : s.all[i];
        op_stripe(c, n, fr, s.flen);
        if (cfg_tolerance(c) < 1) continue;
        /* decode, plain and forced: whole stripe; then with one other fragment withheld and the damaged one
           moved to the front / the back / given twice */
        op_dec_g(c, 0, s.flen, n, fr); op_dec_g(c, 1, s.flen, n, fr);
        int other = (fi + 1 + (int)rnd(n - 1)) % n, cnt = 0;
        for (int i = 0; i < n; i++) if (i != other && i != fi) fr[cnt++] = s.all[i];
        int pos = kind % 4;
        if (pos == 0) { memmove(fr + 1, fr, sizeof(char *) * cnt); fr[0] = (char *)mut; cnt++; }
        else if (pos == 1) fr[cnt++] = (char *)mut;
        else if (pos == 2) { int at = cnt / 2; memmove(fr + at + 1, fr + at, sizeof(char *) * (cnt - at)); fr[at] = (char *)mut; cnt++; }
        else { memmove(fr + 1, fr, sizeof(char *) * cnt); fr[0] = (char *)mut; cnt++; fr[cnt++] = (char *)mut; }
        op_dec_g(c, (kind >> 1) & 1, s.flen, cnt, fr);
        if (tier || kind % 2) op_dec_g(c, !((kind >> 1) & 1), s.flen, cnt, fr);
        /* the damaged fragment given IN ADDITION to the pristine one of the same index, before and after it */
        for (int i = 0; i < n; i++) fr[i + 1] = s.all[i];
        fr[0] = (char *)mut;
        op_dec_g(c, 1, s.flen, n + 1, fr);
        if (tier || kind % 2 == 0) op_dec_g(c, 0, s.flen, n + 1, fr);
        for (int i = 0; i < n; i++) fr[i] = s.all[i];
        fr[n] = (char *)mut;
        if (other != fi) { fr[other] = fr[n - 1]; fr[n - 1] = (char *)mut; op_dec_g(c, 1, s.flen, n, fr); }    /* ... with another fragment withheld */
        else op_dec_g(c, 1, s.flen, n + 1, fr);
        cnt = 0; for (int i = 0; i < n; i++) if (i != other && i != fi) fr[cnt++] = s.all[i];
        fr[cnt++] = (char *)mut;
        /* reconstruct: the damaged fragment among the sources (destination: the withheld one); the damaged
           fragment present while it is itself the destination */
        op_rec_g(c, reader_env, other, s.flen, cnt, fr);      /* reconstruct also writes: the switch is its input */
        if (tier || kind % 3 == 0) op_rec_g(c, reader_env, fi, s.flen, cnt, fr);
    }
    free(fr); free(mut);
    g_env_readers = 0;
    stripe_free(&s);
}

void suite_cat(int tier) {
    /* checksum type x writer flavour x backend, payload sizes with and without the top bit in the low byte */
    cfg_t cfgs[] = { {6,3,2,2,2}, {3,5,5,3,2}, {6,2,1,1,1}, {3,6,6,4,2}, {6,4,3,3,3}, {0,3,2,2,2}, {6,1,2,2,2}, {3,3,3,3,1} };
    size_t lens[] = { 37, 600, 1, 0, 130, 52, 200, 12 };
    int ns = tier ? 8 : 4;
    for (int i = 0; i < ns; i++) {
        int j = tier ? i : (i + (int)rnd(2) * 4) % 8;
        /* writer flavour x reader environment: all four combinations at every seed */
        cat_stripe(cfgs[j], lens[j] + rnd(3), (i & 1) && cfgs[j].ct == 2, tier, (i >> 1) & 1);
        stat_add("cat.stripes", 1);
    }
    if (g_isal) cat_stripe((cfg_t){ 4, 3, 2, 2, 2 }, 40 + rnd(9), 0, tier, 1);
}


/* ======================================================================= grid
 * shapes at and around every boundary x lengths at and around every boundary, direct oracles of several
 * properties on each cell (no model lines).  The per-property suites sample these two dimensions independently;
 * a change that is wrong for ONE shape class at ONE length class (k % 4 == 3 with an odd block, m == 1, payloads
 * of exactly 2^20 bytes, k+m = 32 with one byte) falls between them.  A failure is reported for the property
 * whose clause it contradicts. */
void xor_fixed_equations(stripe_t *s);

static void grid_fail(const char *props, const char *fmt, ...) {
    char msg[400]; va_list ap; va_start(ap, fmt); vsnprintf(msg, sizeof msg, fmt, ap); va_end(ap);
    char tmp[64]; strncpy(tmp, props, 63); tmp[63] = 0;
    for (char *t = strtok(tmp, ","); t; t = strtok(NULL, ",")) oracle_fail(t, "%s", msg);
}

static void grid_cell(cfg_t c, size_t len, int kind) {
    stripe_t s; memset(&s, 0, sizeof s);
    s.c = c; s.desc = cfg_desc(c);
    if (s.desc <= 0) { grid_fail("C13", "grid: create refused for be=%d (%d,%d,%d)", c.be, c.k, c.m, c.hd); return; }
    s.len = len; s.data = malloc(len ? len : 1);
    switch (kind) { case 0: for (size_t i = 0; i < len; i++) s.data[i] = (unsigned char)rnd64(); break;
                    case 1: memset(s.data, 0xff, len); break;
                    case 2: for (size_t i = 0; i < len; i++) s.data[i] = (unsigned char)(i * 131 + (i >> 8)); break;
                    case 3: memset(s.data, 'x', len); break;
                    /* whole leading / trailing data fragments zero while the others are not */
                    case 4: for (size_t i = 0; i < len; i++) s.data[i] = (unsigned char)rnd64(); memset(s.data, 0, (len + c.k - 1) / c.k * (1 + (len > 64 && c.k > 2))); break;
                    default: for (size_t i = 0; i < len; i++) s.data[i] = (unsigned char)rnd64(); { size_t z = (len + c.k - 1) / c.k; memset(s.data + len - z, 0, z); } break; }
    int rc = liberasurecode_encode(s.desc, (char *)s.data, len, &s.ed, &s.ep, &s.flen);
    if (rc != 0) { grid_fail("C01,C13", "grid: encode of %zu bytes failed (%d): be=%d (%d,%d,%d)", len, rc, c.be, c.k, c.m, c.hd); free(s.data); return; }
    s.n = c.k + c.m; s.all = malloc(sizeof(char *) * s.n);
    for (int i = 0; i < c.k; i++) s.all[i] = s.ed[i];
    for (int i = 0; i < c.m; i++) s.all[c.k + i] = s.ep[i];
    size_t bs = s.flen - HDR; int wb = cfg_wbytes(c); size_t unit = (size_t)c.k * wb;
    /* C08 */
    int fsz = liberasurecode_get_fragment_size(s.desc, (int)len), asz = liberasurecode_get_aligned_data_size(s.desc, len), msz = liberasurecode_get_minimum_encode_size(s.desc);
    size_t want_al = (len + unit - 1) / unit * unit;
    if ((size_t)fsz != bs || (size_t)asz != want_al || (size_t)msz != unit)
        grid_fail("C08", "grid: be=%d (%d,%d,%d) len=%zu: fragment_size %d (payload is %zu), aligned %d (least multiple of %zu is %zu), minimum %d", c.be, c.k, c.m, c.hd, len, fsz, bs, asz, unit, want_al, msz);
    if (bs * (size_t)c.k != want_al && c.be != 0) grid_fail("C07,C08", "grid: be=%d (%d,%d,%d) len=%zu: k payloads of %zu bytes are not the aligned length %zu", c.be, c.k, c.m, c.hd, len, bs, want_al);
    /* C07 / C10: header fields, systematic split, stored checksum */
    for (int i = 0; i < s.n; i++) {
        const unsigned char *f = (unsigned char *)s.all[i];
        uint64_t o; memcpy(&o, f + 12, 8);
        if (rd32(f) != (uint32_t)i || rd32(f + 4) != bs || o != len || rd32(f + 59) != 0x0b0c5ecc || f[20] != c.ct || f[54] != c.be)
            grid_fail("C07", "grid: be=%d (%d,%d,%d) len=%zu: header of fragment %d (idx %u size %u orig %llu ct %u be %u)", c.be, c.k, c.m, c.hd, len, i, rd32(f), rd32(f + 4), (unsigned long long)o, f[20], f[54]);
        if (rd32(f + 67) != (uint32_t)crc32(0, f, 59)) grid_fail("C07,C09", "grid: be=%d (%d,%d,%d) len=%zu: metadata CRC of fragment %d", c.be, c.k, c.m, c.hd, len, i);
        for (int z = 71; z < 80; z++) if (f[z]) { grid_fail("C07", "grid: padding byte %d of fragment %d not zero", z, i); break; }
        if (c.ct == 2 && rd32(f + 21) != (uint32_t)crc32(0, f + HDR, (uInt)bs)) grid_fail("C10", "grid: be=%d (%d,%d,%d) len=%zu: stored checksum of fragment %d is not the CRC of its %zu payload bytes", c.be, c.k, c.m, c.hd, len, i, bs);
        if (i < c.k) {
            size_t off = (size_t)i * bs, have = off < len ? (len - off < bs ? len - off : bs) : 0;
            int bad = have && memcmp(f + HDR, s.data + off, have);
            for (size_t z = have; z < bs && !bad; z++) if (f[HDR + z]) bad = 1;
            if (bad) grid_fail("C07", "grid: be=%d (%d,%d,%d) len=%zu: data fragment %d is not bytes [%zu,%zu) of the input, zero padded", c.be, c.k, c.m, c.hd, len, i, off, off + bs);
        }
        if (is_invalid_fragment(s.desc, (char *)f)) grid_fail("C12,C10", "grid: be=%d (%d,%d,%d) len=%zu: fresh fragment %d reported invalid", c.be, c.k, c.m, c.hd, len, i);
    }
    /* C04 / C05: first RS parity = XOR of the data; flat XOR: the fixed equations */
    if (c.be == 6 && c.m >= 1) {
        unsigned char *acc = calloc(1, bs ? bs : 1);
        for (int i = 0; i < c.k; i++) for (size_t b = 0; b < bs; b++) acc[b] ^= (unsigned char)s.all[i][HDR + b];
        if (memcmp(acc, s.all[c.k] + HDR, bs)) grid_fail("C04", "grid: rs_vand (%d,%d) len=%zu: the first parity is not the XOR of the data fragments", c.k, c.m, len);
        free(acc);
    }
    if (c.be == 3) xor_fixed_equations(&s);
    if (c.be != 0) {
        int tol = cfg_tolerance(c);
        /* C01: nothing missing (shuffled), one data, last data + first parity, as many as tolerated (data first) */
        uint64_t pats[5]; int np = 0;
        pats[np++] = 0; if (tol >= 1) { pats[np++] = 1; pats[np++] = 1ull << (c.k - 1); }
        if (tol >= 2 && c.m >= 1) pats[np++] = (1ull << (c.k - 1)) | (1ull << c.k);
        if (tol >= 2) { uint64_t g = 0; for (int i = 0; i < tol && i < s.n; i++) g |= 1ull << i; pats[np++] = g; }
        for (int q = 0; q < np; q++) {
            sweep_dec(&s, pats[q], q & 1, q != 1, 0, "C01");
            if (pats[q]) { int lo = __builtin_ctzll(pats[q]), hi = 63 - __builtin_clzll(pats[q]); sweep_rec(&s, pats[q], lo, 0, "C03"); if (hi != lo) sweep_rec(&s, pats[q], hi, 0, "C03"); }
        }
        /* every single fragment rebuilt alone at the extremes of the index range */
        int ends[4] = { 0, c.k - 1, c.k, s.n - 1 };
        if (tol >= 1) for (int q = 0; q < 4; q++) if (ends[q] >= 0 && ends[q] < s.n) sweep_rec(&s, 1ull << ends[q], ends[q], 0, "C03");
        /* C06 */
        if (tol >= 1) { int r[2] = { c.k - 1, -1 }, x[1] = { -1 }, o[70]; memset(o, 0xff, sizeof o);
            int rn = liberasurecode_fragments_needed(s.desc, r, x, o);
            int bad = rn != 0; for (int i = 0; !bad && i < 70 && o[i] != -1; i++) if (o[i] < 0 || o[i] >= s.n || o[i] == c.k - 1) bad = 1;
            if (bad) grid_fail("C06", "grid: be=%d (%d,%d,%d): fragments_needed for [%d] failed or returned an unusable list (%d)", c.be, c.k, c.m, c.hd, c.k - 1, rn); }
    }
    if (liberasurecode_verify_stripe_metadata(s.desc, s.all, s.n) != 0) grid_fail("C12", "grid: be=%d (%d,%d,%d): stripe of fresh fragments rejected", c.be, c.k, c.m, c.hd);
    stat_add("grid.cells", 1);
    stripe_free(&s);
}

void suite_grid(int tier) {
    static const cfg_t shapes[] = {
        {6,1,1,1,2}, {6,2,1,1,2}, {6,3,1,1,2}, {6,1,3,3,2}, {6,3,0,0,2}, {6,3,2,2,2}, {6,4,2,2,2}, {6,7,3,3,2}, {6,10,4,4,2}, {6,11,5,5,2},
        {6,15,2,2,2}, {6,16,4,4,2}, {6,16,16,16,2}, {6,28,4,4,2}, {6,31,1,1,2}, {6,1,31,31,2}, {6,5,8,8,2},
        {3,3,3,3,2}, {3,5,5,3,2}, {3,10,5,3,2}, {3,15,6,3,2}, {3,5,5,4,2}, {3,6,6,4,2}, {3,12,6,4,2}, {3,20,6,4,2}, {3,7,5,3,1},
        {0,3,2,2,2}, {0,1,1,1,2} };
    int ns = (int)(sizeof shapes / sizeof shapes[0]);
    for (int si = 0; si < ns; si++) {
        cfg_t c = shapes[si]; size_t unit = (size_t)c.k * cfg_wbytes(c), k = (size_t)c.k;
        size_t lens[] = { 0, 1, k > 1 ? k - 1 : 2, k, k + 1, unit, unit - 1, unit + 1, 2 * unit + 1, 3 * k, 5 * k, 7 * unit - 1,
                          4096, 4095, 65536 * k, 65536 * k + 1, 65536 * k - 1, 4096 * k, 1000 * k + 3, 100003 };
        int nl = (int)(sizeof lens / sizeof lens[0]);
        for (int li = 0; li < nl; li++) {
            if (!tier && c.k > 16 && lens[li] > 300000) continue;
            grid_cell(c, lens[li], (si + li) % 6);
        }
        /* exactly 2^20 (and 2^20 +- 1) bytes of payload per fragment for the narrow shapes */
        if (c.k <= 3 || tier) { grid_cell(c, ((size_t)1 << 20) * k, 0); if (c.k <= 2) { grid_cell(c, ((size_t)1 << 20) * k + 1, 2); grid_cell(c, ((size_t)1 << 20) * k - 1, 1); } }
        stat_add("grid.shapes", 1);
    }
    if (g_isal) {
        static const cfg_t is[] = { {4,4,2,2,2}, {4,10,4,4,2}, {7,5,3,3,2}, {4,1,1,1,2}, {7,16,4,4,2}, {4,28,4,4,2}, {7,2,5,5,2}, {4,7,3,3,2} };
        for (unsigned si = 0; si < sizeof is / sizeof is[0]; si++) {
            cfg_t c = is[si]; size_t k = (size_t)c.k;
            size_t lens[] = { 0, 1, k, k + 1, k - (k > 1), 3 * k, 4096, 4095, 65536 * k, 65536 * k + 1, 1000 * k + 3 };
            for (unsigned li = 0; li < sizeof lens / sizeof lens[0]; li++) grid_cell(c, lens[li], (int)((si + li) % 6));
            if (c.k <= 2) grid_cell(c, ((size_t)1 << 20) * k, 0);
            stat_add("grid.shapes", 1);
        }
    }
}
