/*
 * isal_ref.c — clean-room reference implementation of the five ISA-L erasure-code
 * primitives liberasurecode binds with dlsym (src/backends/isa-l/isa_l_common.c), written
 * from ISA-L's documented behaviour (erasure_code.h): GF(2^8) with polynomial 0x11d.
 * Owned by /verif; built as libisal.so.2 so that the isa_l_rs_vand / isa_l_rs_cauchy
 * backends can be exercised in a sandbox that has no ISA-L.
 *
 * VERIF_ISAL_FAIL_INVERT=<n>: the n-th call of gf_invert_matrix (0-based) reports a singular
 * matrix, for the inversion-failure injection of property C19.
 */
#include <stdlib.h>
#include <string.h>

static unsigned char mul_table[256][256];
static unsigned char inv_table[256];
static int ready = 0;
static int invert_calls = 0;

static unsigned char slow_mul(unsigned char a, unsigned char b) {
    unsigned int acc = 0, x = a;
    for (int i = 0; i < 8; i++) {
        if (b & (1u << i)) acc ^= x;
        x <<= 1;
        if (x & 0x100) x ^= 0x11d;
    }
    return (unsigned char)acc;
}

static void setup(void) {
    if (ready) return;
    for (int a = 0; a < 256; a++) for (int b = 0; b < 256; b++) mul_table[a][b] = slow_mul((unsigned char)a, (unsigned char)b);
    inv_table[0] = 0;
    for (int a = 1; a < 256; a++) for (int b = 1; b < 256; b++) if (mul_table[a][b] == 1) { inv_table[a] = (unsigned char)b; break; }
    ready = 1;
}

unsigned char gf_mul(unsigned char a, unsigned char b) { setup(); return mul_table[a][b]; }
unsigned char gf_inv(unsigned char a) { setup(); return inv_table[a]; }

/* m x k matrix: identity on top, then rows of successive powers of the generators 1, 2, 4, ... */
void gf_gen_rs_matrix(unsigned char *a, int m, int k) {
    unsigned char p, gen = 1;
    setup();
    memset(a, 0, (size_t)k * m);
    for (int i = 0; i < k; i++) a[k * i + i] = 1;
    for (int i = k; i < m; i++) {
        p = 1;
        for (int j = 0; j < k; j++) { a[k * i + j] = p; p = gf_mul(p, gen); }
        gen = gf_mul(gen, 2);
    }
}

/* m x k matrix: identity on top, then the Cauchy rows 1 / (i xor j) */
void gf_gen_cauchy1_matrix(unsigned char *a, int m, int k) {
    setup();
    memset(a, 0, (size_t)k * m);
    for (int i = 0; i < k; i++) a[k * i + i] = 1;
    unsigned char *p = &a[k * k];
    for (int i = k; i < m; i++) for (int j = 0; j < k; j++) *p++ = gf_inv((unsigned char)(i ^ j));
}

/* Gauss-Jordan; `in` is destroyed; -1 when singular */
int gf_invert_matrix(unsigned char *in, unsigned char *out, const int n) {
    setup();
    const char *f = getenv("VERIF_ISAL_FAIL_INVERT");
    int call = invert_calls++;
    if (f && (!strcmp(f, "all") || atoi(f) == call)) return -1;
    memset(out, 0, (size_t)n * n);
    for (int i = 0; i < n; i++) out[i * n + i] = 1;
    for (int i = 0; i < n; i++) {
        if (in[i * n + i] == 0) {
            int j;
            for (j = i + 1; j < n; j++) if (in[j * n + i]) break;
            if (j == n) return -1;
            for (int c = 0; c < n; c++) {
                unsigned char t = in[i * n + c]; in[i * n + c] = in[j * n + c]; in[j * n + c] = t;
                t = out[i * n + c]; out[i * n + c] = out[j * n + c]; out[j * n + c] = t;
            }
        }
        unsigned char d = gf_inv(in[i * n + i]);
        for (int c = 0; c < n; c++) { in[i * n + c] = gf_mul(in[i * n + c], d); out[i * n + c] = gf_mul(out[i * n + c], d); }
        for (int r = 0; r < n; r++) {
            if (r == i) continue;
            unsigned char v = in[r * n + i];
            if (!v) continue;
            for (int c = 0; c < n; c++) { in[r * n + c] ^= gf_mul(v, in[i * n + c]); out[r * n + c] ^= gf_mul(v, out[i * n + c]); }
        }
    }
    return 0;
}

/* 32 bytes per coefficient; this implementation keeps the coefficient in byte 0 */
void ec_init_tables(int k, int rows, unsigned char *a, unsigned char *g_tbls) {
    setup();
    for (int i = 0; i < rows; i++) for (int j = 0; j < k; j++) {
        memset(g_tbls, 0, 32);
        g_tbls[0] = *a++;
        g_tbls += 32;
    }
}

void ec_encode_data(int len, int k, int rows, unsigned char *g_tbls, unsigned char **data, unsigned char **coding) {
    setup();
    for (int r = 0; r < rows; r++) {
        for (int b = 0; b < len; b++) {
            unsigned char s = 0;
            for (int j = 0; j < k; j++) s ^= mul_table[g_tbls[(r * k + j) * 32]][data[j][b]];
            coding[r][b] = s;
        }
    }
}
