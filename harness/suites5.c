/*
 * suites5.c — the ISA-L adapters over the verif-owned reference libisal.so.2 (C19).
 */
#include "common.h"
#include "ops.h"
#include <dlfcn.h>

typedef void (*gen_fn)(unsigned char *, int, int);
typedef int (*inv_fn)(unsigned char *, unsigned char *, const int);

static void *g_isal_handle = NULL;
static int rows_invertible(cfg_t c, uint64_t gone) {
    /* the adapter's own choice: first k available rows of the generator */
    if (!g_isal_handle) g_isal_handle = dlopen("libisal.so.2", RTLD_NOW);
    if (!g_isal_handle) return -1;
    gen_fn gen = (gen_fn)dlsym(g_isal_handle, c.be == 4 ? "gf_gen_rs_matrix" : "gf_gen_cauchy1_matrix");
    inv_fn inv = (inv_fn)dlsym(g_isal_handle, "gf_invert_matrix");
    int n = c.k + c.m;
    unsigned char *G = malloc((size_t)n * c.k), *D = malloc((size_t)c.k * c.k), *I = malloc((size_t)c.k * c.k);
    gen(G, n, c.k);
    int j = 0;
    for (int i = 0; i < n && j < c.k; i++) if (!((gone >> i) & 1)) { memcpy(D + (size_t)j * c.k, G + (size_t)i * c.k, c.k); j++; }
    int ok = j == c.k && inv(D, I, c.k) == 0;
    free(G); free(D); free(I);
    return ok;
}

static void isal_one(stripe_t *s, uint64_t gone, int all_dests) {
    cfg_t c = s->c;
    char *fr[80]; int n = 0;
    for (int i = 0; i < s->n; i++) if (!((gone >> i) & 1)) fr[n++] = s->all[i];
    int nm = __builtin_popcountll(gone);
    int inv_ok = nm <= c.m ? rows_invertible(c, gone) : 0;
    int v = op_dec(c, (int)rnd(2), s->flen, n, fr, 0, s->data, s->len);
    if (v == 1) oracle_fail("C19", "decode returned wrong bytes: be=%d (%d,%d) missing %llx", c.be, c.k, c.m, (unsigned long long)gone);
    if (nm <= c.m && inv_ok == 1 && v != 0) oracle_fail("C19", "decode failed (%d) although the surviving rows are invertible: be=%d (%d,%d) missing %llx", v, c.be, c.k, c.m, (unsigned long long)gone);
    stat_add(v == 0 ? "isal.dec_exact" : "isal.dec_error", 1);
    if (nm <= c.m && inv_ok == 0) stat_add("isal.singular_sets", 1);
    for (int d = 0; d < s->n; d++) {
        int in_e = (int)((gone >> d) & 1);
        if (!in_e && !(all_dests && d == 0)) continue;
        if (!all_dests && rnd(2)) continue;
        int r = op_rec(c, 0, d, s->flen, n, fr, 0, (unsigned char *)s->all[d]);
        if (r == 1) oracle_fail("C19", "reconstruct of %d returned wrong bytes: be=%d (%d,%d) missing %llx", d, c.be, c.k, c.m, (unsigned long long)gone);
        if (nm <= c.m && inv_ok == 1 && r != 0) oracle_fail("C19", "reconstruct of %d failed (%d) with invertible rows: be=%d (%d,%d) missing %llx", d, r, c.be, c.k, c.m, (unsigned long long)gone);
    }
}

typedef struct { stripe_t *s; uint64_t gone; int dest; } inj_a;
static void run_inj(void *va, FILE *out) {
    inj_a *a = va; stripe_t *s = a->s;
    setenv("VERIF_ISAL_FAIL_INVERT", "all", 1);
    char *fr[80]; int n = 0;
    for (int i = 0; i < s->n; i++) if (!((a->gone >> i) & 1)) fr[n++] = s->all[i];
    if (a->dest < 0) {
        char *od = NULL; uint64_t ol = 0;
        int rc = liberasurecode_decode(s->desc, fr, n, s->flen, 0, &od, &ol);
        if (rc) fprintf(out, "err %d", rc);
        else { fprintf(out, "ok %llu ", (unsigned long long)ol); for (uint64_t i = 0; i < ol; i++) fprintf(out, "%02x", (unsigned char)od[i]); if (!ol) fputc('-', out); }
    } else {
        char *of = malloc(s->flen);
        int rc = liberasurecode_reconstruct_fragment(s->desc, fr, n, s->flen, a->dest, of);
        if (rc) fprintf(out, "err %d", rc);
        else { fprintf(out, "ok "); for (uint64_t i = 0; i < s->flen; i++) fprintf(out, "%02x", (unsigned char)of[i]); }
        free(of);
    }
}

void suite_isal(int tier) {
    if (!g_isal) { oracle_fail("C19", "reference libisal not enabled (VERIF_ISAL unset)"); return; }
    for (int be = 4; be <= 7; be += 3) {
        /* small codes: every erasure set, every destination */
        for (int n = 2; n <= (tier ? 11 : 7); n++) for (int k = 1; k < n; k++) {
            if (!tier && n > 5 && rnd(2)) continue;
            cfg_t c = { be, k, n - k, n - k, 1 + (int)rnd(2) };
            size_t len = 1 + rnd(5 * k);
            unsigned char *d = gen_data(len, (int)rnd(3));
            stripe_t s;
            if (op_enc(c, 0, d, len, &s) != 0) { oracle_fail("C19", "encode failed be=%d (%d,%d)", be, k, n - k); free(d); continue; }
            free(d);
            for (uint64_t g = 0; g < (1ull << n); g++) {
                if (!tier && n > 5 && rnd(3)) continue;
                isal_one(&s, g, 1);
            }
            /* fragments-needed on the same shapes */
            for (uint64_t g = 1; g < (1ull << n); g++) {
                if (__builtin_popcountll(g) > n - k + 1) continue;
                if (rnd(tier ? 3 : 8)) continue;
                int r[16], x[16], nr = 0, nx = 0;
                for (int i = 0; i < n; i++) if ((g >> i) & 1) { if (nr == 0 || rnd(2)) r[nr++] = i; else x[nx++] = i; }
                r[nr] = -1; x[nx] = -1;
                /* callers list the indexes in any order */
                if (rnd(2)) { for (int i = nr - 1; i > 0; i--) { int j = (int)rnd(i + 1); int t2 = r[i]; r[i] = r[j]; r[j] = t2; }
                              for (int i = nx - 1; i > 0; i--) { int j = (int)rnd(i + 1); int t2 = x[i]; x[i] = x[j]; x[j] = t2; }
                              stat_add("isal.need_shuffled_lists", 1); }
                int outl[80];
                int rc = op_need(c, r, x, outl, 0);
                if (rc == 0) {
                    int cnt = 0; for (; outl[cnt] != -1; cnt++) if (outl[cnt] < 0 || outl[cnt] >= n || ((g >> outl[cnt]) & 1)) oracle_fail("C19", "fragments_needed returned unusable index %d", outl[cnt]);
                    if (cnt != k) oracle_fail("C19", "fragments_needed returned %d indexes, k=%d", cnt, k);
                } else if (nr + nx <= n - k) oracle_fail("C19", "fragments_needed failed within tolerance");
            }
            /* injected inversion failures */
            for (int q = 0; q < 3; q++) {
                uint64_t g = 1ull << rnd(n);
                inj_a a = { &s, g, q == 0 ? -1 : __builtin_ctzll(g) };
                int nn = __builtin_popcountll(g); (void)nn;
                char *fr[80]; int cnt = 0; for (int i = 0; i < s.n; i++) if (!((g >> i) & 1)) fr[cnt++] = s.all[i];
                if (a.dest < 0) {
                    /* all data present -> fast path needs no inversion; drop a data fragment to force it */
                    op_begin("dec %d %d %d %d %d 0 %llu %d", c.be + 100, c.k, c.m, c.hd, c.ct, (unsigned long long)s.flen, cnt);
                } else {
                    op_begin("rec %d %d %d %d %d 0 %d %llu %d", c.be + 100, c.k, c.m, c.hd, c.ct, a.dest, (unsigned long long)s.flen, cnt);
                }
                for (int i = 0; i < cnt; i++) op_hex(fr[i], s.flen);
                op_sep();
                guarded(run_inj, &a);
                stat_add("isal.injected_inversion_failures", 1);
            }
            stripe_free(&s);
            stat_add("isal.small_codes", 1);
        }
        /* sequences of calls on one instance: every erasure set whose surviving rows are invertible, followed at
           once by its one-element extensions (when those are invertible too) */
        for (int n = 3; n <= (tier ? 9 : 7); n++) for (int k = 1; k < n - 1; k++) {
            cfg_t c = { be, k, n - k, n - k, 1 + (int)rnd(2) };
            stripe_t s;
            if (stripe_make(&s, c, 1 + rnd(6 * k), 0, 0) != 0) continue;
            for (uint64_t e1 = 1; e1 < (1ull << n); e1++) {
                if (__builtin_popcountll(e1) >= c.m || rows_invertible(c, e1) != 1) continue;
                for (int j = 0; j < n; j++) {
                    uint64_t e2 = e1 | (1ull << j);
                    if (e2 == e1 || rows_invertible(c, e2) != 1) continue;
                    sweep_dec(&s, e1, 0, 0, 0, "C19"); sweep_dec(&s, e2, 0, 0, 0, "C19");
                    sweep_rec(&s, e1, __builtin_ctzll(e1), 0, "C19"); sweep_rec(&s, e2, j, 0, "C19"); sweep_rec(&s, e2, __builtin_ctzll(e1), 0, "C19");
                    sweep_dec(&s, e1, 0, 0, 0, "C19");
                    stat_add("isal.sequence_pairs", 1);
                }
            }
            stripe_free(&s);
        }
        /* gf_gen_rs_matrix is not MDS: hunt for erasure sets whose first k surviving rows are singular
           (exhaustively on the smallest shapes that have any, sampled on larger ones) and run the
           adapters on them — with exactly k survivors and with spare ones */
        if (be == 4) {
            static const int hunt[][2] = { {5,7}, {6,6}, {6,7}, {7,6}, {12,6}, {10,10}, {16,16}, {20,12}, {4,28} };
            for (unsigned h = 0; h < (tier ? 9u : 6u); h++) {
                int k = hunt[h][0], m = hunt[h][1], n = k + m;
                cfg_t c = { be, k, m, m, 1 + (int)rnd(2) };
                stripe_t s;
                if (stripe_make(&s, c, 1 + rnd(4 * k), 0, 0) != 0) { oracle_fail("C19", "encode failed be=%d (%d,%d)", be, k, m); continue; }
                int found = 0, spare = 0, budget = tier ? 400 : 60;
                long tries = n <= 13 ? (1l << n) : (tier ? 400000 : 40000);
                for (long t = 0; t < tries && found < budget; t++) {
                    uint64_t g;
                    if (n <= 13) g = (uint64_t)t;
                    else { g = 0; int cnt = 1 + (int)rnd(m), have = 0; while (have < cnt) { int i = (int)rnd(n); if (!((g >> i) & 1)) { g |= 1ull << i; have++; } } }
                    int nm = __builtin_popcountll(g);
                    if (nm == 0 || nm > m) continue;
                    if (rows_invertible(c, g) != 0) continue;
                    if (n <= 13 && found >= budget / 2 && nm == m) continue;     /* keep room for sets with spare survivors */
                    found++; if (nm < m) spare++;
                    isal_one(&s, g, 0);
                }
                stat_add("isal.hunt_singular_found", found); stat_add("isal.hunt_singular_with_spare", spare);
                stripe_free(&s);
            }
        }
        /* shapes at the limits with erasure sets built from the boundary indexes (deterministic) */
        { extern void sweep_boundary(int be, int rec, const char *prop, const char *statkey, int (*decodable)(cfg_t, uint64_t)); sweep_boundary(be, 1, "C19", "isal.boundary_sets", rows_invertible); }
        /* larger shapes up to k+m = 32, sampled erasure sets */
        for (int t = 0; t < (tier ? 120 : 16); t++) {
            int k = 1 + (int)rnd(31), m = 1 + (int)rnd(32 - k);
            if (t % 4 == 0) { k = 2 + (int)rnd(12); m = 1 + (int)rnd(4); }
            cfg_t c = { be, k, m, m, 2 };
            stripe_t s;
            if (stripe_make(&s, c, 1 + rnd(3 * k), 0, 0) != 0) continue;
            for (int q = 0; q < 4; q++) {
                int cnt = q == 0 ? m : (int)rnd(m + 2); if (cnt > s.n) cnt = s.n;
                uint64_t g = 0; int have = 0; while (have < cnt) { int i = (int)rnd(s.n); if (!((g >> i) & 1)) { g |= 1ull << i; have++; } }
                isal_one(&s, g, 0);
            }
            stripe_free(&s);
            stat_add("isal.large_codes", 1);
        }
    }
}
