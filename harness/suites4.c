/*
 * suites4.c — allocation ledger (C16), failing backend operations (C17), purity (C15).
 */
#include "common.h"
#include "ops.h"
#include "memtrack.h"
#include <pthread.h>
#include <dlfcn.h>
#if defined(__SANITIZE_ADDRESS__)
#include <sanitizer/lsan_interface.h>
#define LEAK_CHECK(out) do { if (__lsan_do_recoverable_leak_check()) fprintf(out, " LEAK"); } while (0)
#else
#define LEAK_CHECK(out) do { } while (0)
#endif

extern ec_backend_t ec_backends_supported[];
extern ec_backend_t liberasurecode_backend_instance_get_by_desc(int desc);

/* one-time allocations of libc (syslog's stream and time-zone caches, the loader's bookkeeping for
   a backend library opened for the first time) are made before the ledger starts */
void warmup(cfg_t c) {
    struct ec_args a; memset(&a, 0, sizeof a); a.k = c.k; a.m = c.m; a.hd = c.hd; a.ct = CHKSUM_CRC32;
    for (int r = 0; r < 2; r++) {
        int d = liberasurecode_instance_create((ec_backend_id_t)c.be, &a);
        char **x = NULL, **y = NULL; uint64_t fl = 0;
        liberasurecode_encode(d, NULL, 1, &x, &y, &fl);                 /* logs */
        char *od = NULL; uint64_t ol = 0; char *none[1] = { NULL };
        liberasurecode_decode(d, none, 0, 100, 0, &od, &ol);             /* logs */
        struct ec_args b; memset(&b, 0, sizeof b); b.k = 4; b.m = 4; b.hd = 3;
        liberasurecode_instance_create(EC_BACKEND_FLAT_XOR_HD, &b);      /* init failure path */
        if (d > 0) liberasurecode_instance_destroy(d);
    }
}

/* ======================================================================= ledger (C16) */
/*
 * One history per line:  ledger <be> <k> <m> <hd> <call>;<call>;...   result: net number of
 * blocks the library holds after each call (cumulative), then "|" and the final count after
 * every instance has been destroyed.  Calls:
 *   C create   X failed create (unsupported shape)   D destroy
 *   E encode   e encode with NULL data               c encode_cleanup
 *   F decode (all fragments, fast path)   S decode with a missing data fragment (slow path)
 *   U decode with unaligned buffers and a missing fragment
 *   I decode with too few fragments       B decode with a corrupted header
 *   V decode with forced checks and a damaged fragment
 *   f decode_cleanup
 *   R reconstruct a missing fragment      r reconstruct with an out-of-range destination
 *   N fragments_needed                    M get_fragment_metadata + is_invalid_fragment + verify_stripe
 *   H / h decode / reconstruct meeting an accepted header with an orig_data_size that is negative as an int
 *   L encode of a length beyond the int size arithmetic (refused), output variables holding stale pointers
 * followed by <pat>: the set of fragments withheld by S, U and R (bit mask; between 1 and tolerance
 * fragments, a data fragment among them); R rebuilds the lowest withheld fragment.
 */
typedef struct { cfg_t c; int n; char calls[320]; uint64_t pat; } ledger_t;

static void run_ledger(void *va, FILE *out) {
    ledger_t *L = va;
    cfg_t c = L->c;
    int desc = -1;
    char **ed = NULL, **ep = NULL; uint64_t flen = 0; char *od = NULL; uint64_t ol = 0;
    char **stale_ed = NULL, **stale_ep = NULL;
    unsigned char data[157]; for (int i = 0; i < 157; i++) data[i] = (unsigned char)(i * 13 + 5);
    int have_enc = 0;
    char *work[80]; unsigned char *bufs[80]; int nb = 0;
    warmup(c);
    static char acc[8192]; size_t ao = 0;
    mt_on();
    for (int q = 0; q < L->n; q++) {
        char call = L->calls[q];
        int rc = 0;
        switch (call) {
        case 'C': if (desc <= 0) { struct ec_args a; memset(&a, 0, sizeof a); a.k = c.k; a.m = c.m; a.hd = c.hd; a.ct = CHKSUM_CRC32;
                      desc = liberasurecode_instance_create((ec_backend_id_t)c.be, &a); } break;
        case 'X': { struct ec_args a; memset(&a, 0, sizeof a); a.k = 4; a.m = 4; a.hd = 3; rc = liberasurecode_instance_create(EC_BACKEND_FLAT_XOR_HD, &a); } break;
        case 'D': if (desc > 0 && !have_enc && !od) { liberasurecode_instance_destroy(desc); desc = -1; } break;
        case 'E': if (desc > 0 && !have_enc) { rc = liberasurecode_encode(desc, (char *)data, 157, &ed, &ep, &flen); have_enc = rc == 0; } break;
        case 'e': { char **a = NULL, **b = NULL; uint64_t fl = 0; rc = liberasurecode_encode(desc > 0 ? desc : 1, NULL, 10, &a, &b, &fl); } break;
        case 'c': if (have_enc) { liberasurecode_encode_cleanup(desc, ed, ep); have_enc = 0; stale_ed = ed; stale_ep = ep; ed = ep = NULL; } break;
        case 'L': { /* a length the int arithmetic cannot hold: refused, and the caller's output variables (still holding the
                       released results of an earlier encode) are left alone */
                    char **a = stale_ed, **b = stale_ep; uint64_t fl = 0;
                    rc = liberasurecode_encode(desc > 0 ? desc : 1, (char *)data, (1ull << 32) + 4096, &a, &b, &fl);
                    if (rc == 0) liberasurecode_encode_cleanup(desc, a, b); } break;
        case 'F': case 'S': case 'U': case 'I': case 'B': case 'V':
            if (have_enc && !od) {
                int n = 0; nb = 0;
                mt_off();   /* the harness's own scratch buffers are not the library's */
                for (int i = 0; i < c.k + c.m; i++) {
                    char *f = i < c.k ? ed[i] : ep[i - c.k];
                    if ((call == 'S' || call == 'U') && ((L->pat >> i) & 1)) continue;
                    if (call == 'V' && i == 0) continue;
                    if (call == 'I' && i >= c.k - 1 && c.k > 0) continue;
                    if (call == 'U' || call == 'B' || (call == 'V' && i == 1)) {
                        unsigned char *b = NULL; if (posix_memalign((void **)&b, 16, flen + 32)) abort();
                        unsigned char *p = b + (call == 'U' ? 3 : 0);
                        memcpy(p, f, flen);
                        if (call == 'B' && i == c.k + c.m - 1) p[60] ^= 0x55;
                        if (call == 'V') { p[HDR] ^= 0x01; }
                        bufs[nb++] = b; f = (char *)p;
                    }
                    work[n++] = f;
                }
                mt_on();
                rc = liberasurecode_decode(desc, work, n, flen, call == 'V', &od, &ol);
                if (rc != 0) od = NULL;
                mt_off(); for (int i = 0; i < nb; i++) free(bufs[i]); nb = 0; mt_on();
            }
            break;
        case 'H': case 'h':
            /* an accepted (re-sealed) header whose orig_data_size is negative as an int, met after a buffer has
               already been set up for an earlier missing / unaligned fragment: decode (H) and reconstruct (h) fail */
            if (have_enc && !od && c.k + c.m >= 3) {
                int n = 0; nb = 0;
                mt_off();
                for (int i = 1; i < c.k + c.m; i++) {
                    char *f = i < c.k ? ed[i] : ep[i - c.k];
                    if (i == 1) {
                        /* fragment 0 is withheld (a buffer is set up for it first); the first fragment present carries the bad size */
                        unsigned char *b = NULL; if (posix_memalign((void **)&b, 16, flen + 32)) abort();
                        unsigned char *p = b + (L->pat % 2 ? 5 : 0);     /* sometimes unaligned as well */
                        memcpy(p, f, flen);
                        { uint64_t o = (L->pat % 3) ? (1ull << 31) : 0xffffffffull; memcpy(p + 12, &o, 8); reseal(p); }
                        bufs[nb++] = b; f = (char *)p;
                    }
                    work[n++] = f;
                }
                mt_on();
                if (call == 'H') { rc = liberasurecode_decode(desc, work, n, flen, 0, &od, &ol); if (rc != 0) od = NULL; else { liberasurecode_decode_cleanup(desc, od); od = NULL; } }
                else { mt_off(); char *of = malloc(flen); mt_on(); rc = liberasurecode_reconstruct_fragment(desc, work, n, flen, 0, of); mt_off(); free(of); mt_on(); }
                mt_off(); for (int i = 0; i < nb; i++) free(bufs[i]); nb = 0; mt_on();
            }
            break;
        case 'G': case 'g':
            /* fragments of a stripe of another (larger-k) instance of the same backend handed to this one: whatever the
               call answers, nothing stays allocated once a success has been cleaned up */
            if (desc > 0 && !od) {
                mt_off();
                struct ec_args fa; memset(&fa, 0, sizeof fa);
                if (c.be == 3) { fa.k = c.k == 10 ? 12 : 10; fa.m = 6; fa.hd = 4; } else { fa.k = c.k + 2; fa.m = c.m ? c.m : 1; fa.hd = fa.m; }
                fa.ct = CHKSUM_CRC32;
                int fd = liberasurecode_instance_create((ec_backend_id_t)c.be, &fa);
                char **fed = NULL, **fep = NULL; uint64_t ffl = 0; int frc = -1;
                if (fd > 0) frc = liberasurecode_encode(fd, (char *)data, 157, &fed, &fep, &ffl);
                mt_on();
                if (frc == 0) {
                    int n = 0; for (int i = (call == 'G' ? 0 : 1); i < fa.k && n < 70; i++) work[n++] = fed[i];
                    for (int i = 0; i < fa.m && n < 70; i++) work[n++] = fep[i];
                    if (call == 'G') { char *o2 = NULL; uint64_t l2 = 0; rc = liberasurecode_decode(desc, work, n, ffl, (int)(L->pat & 1), &o2, &l2); if (rc == 0) liberasurecode_decode_cleanup(desc, o2); }
                    else { mt_off(); char *of = malloc(ffl); mt_on(); rc = liberasurecode_reconstruct_fragment(desc, work, n, ffl, 0, of); mt_off(); free(of); mt_on(); }
                }
                mt_off();       /* the foreign instance and its stripe were made with tracking off: they are outside the ledger */
                if (frc == 0) liberasurecode_encode_cleanup(fd, fed, fep);
                if (fd > 0) liberasurecode_instance_destroy(fd);
                mt_on();
            }
            break;
        case 'W': case 'w':
            /* more fragments withheld than the code is built for but not more than m (flat XOR: hd..m, the backend's own
               decoder gives up or repairs; others: exactly m): whatever the answer, nothing stays allocated */
            if (have_enc) {
                uint64_t big = L->pat; int want = c.be == 3 ? c.hd + (int)(L->pat % (uint64_t)(c.m - c.hd + 1)) : c.m;
                for (int i = 0; i < c.k + c.m && __builtin_popcountll(big) < want; i++) big |= 1ull << ((i * 5 + (int)(L->pat % 7)) % (c.k + c.m));
                for (int i = 0; i < c.k + c.m && __builtin_popcountll(big) < want; i++) big |= 1ull << i;
                int n = 0; for (int i = 0; i < c.k + c.m; i++) if (!((big >> i) & 1)) work[n++] = i < c.k ? ed[i] : ep[i - c.k];
                if (call == 'W') { char *o2 = NULL; uint64_t l2 = 0; rc = liberasurecode_decode(desc, work, n, flen, 0, &o2, &l2); if (rc == 0) liberasurecode_decode_cleanup(desc, o2); }
                else { mt_off(); char *of = malloc(flen); mt_on();
                       int hi = 63 - __builtin_clzll(big);
                       rc = liberasurecode_reconstruct_fragment(desc, work, n, flen, (L->pat & 1) ? __builtin_ctzll(big) : hi, of);
                       mt_off(); free(of); mt_on(); }
            }
            break;
        case 'z': case 'Z':
            /* the caller scribbles over fragments encode returned (z: a whole header zeroed, Z: one bit of the magic and
               the tail of a payload) before handing them back: encode_cleanup still releases every one of them */
            if (have_enc) {
                if (call == 'z') { memset(ed[0], 0, HDR); memset(ep[c.m - 1], 0, HDR); }
                else { ed[c.k - 1][59 + (L->pat % 4)] ^= (char)(1 << (L->pat % 8)); ep[0][flen - 1] ^= 0x40; ep[0][61] ^= 0x01; }
            }
            break;
        case 'f': if (od) { liberasurecode_decode_cleanup(desc, od); od = NULL; } break;
        case 'R': case 'r':
            if (have_enc) {
                int n = 0;
                for (int i = 0; i < c.k + c.m; i++) if (!((L->pat >> i) & 1)) work[n++] = i < c.k ? ed[i] : ep[i - c.k];
                mt_off(); char *of = malloc(flen); mt_on();
                rc = liberasurecode_reconstruct_fragment(desc, work, n, flen, call == 'R' ? __builtin_ctzll(L->pat) : c.k + c.m, of);
                mt_off(); free(of); mt_on();
            }
            break;
        case 'N': if (desc > 0) { int r[2] = { 0, -1 }, x[1] = { -1 }, o[64]; rc = liberasurecode_fragments_needed(desc, r, x, o); } break;
        case 'M': if (have_enc) { fragment_metadata_t md; liberasurecode_get_fragment_metadata(ed[0], &md); is_invalid_fragment(desc, ed[0]);
                      liberasurecode_verify_stripe_metadata(desc, ed, c.k); } break;
        }
        (void)rc;
        ao += (size_t)snprintf(acc + ao, sizeof acc - ao, "%s%ld", q ? "," : "", mt_blocks());
    }
    if (od) liberasurecode_decode_cleanup(desc, od);
    if (have_enc) liberasurecode_encode_cleanup(desc, ed, ep);
    if (desc > 0) liberasurecode_instance_destroy(desc);
    mt_off();
    fprintf(out, "%s|%ld", acc, mt_blocks());
    if (mt_double_frees()) fprintf(out, " DOUBLE-FREE=%ld", mt_double_frees());
    LEAK_CHECK(out);
}

static uint64_t ledger_pattern(cfg_t c) {
    int tol = cfg_tolerance(c), e = 1 + (int)rnd(tol), n = c.k + c.m;
    uint64_t pat = 1ull << rnd(c.k); int have = 1;
    while (have < e) { int i = (int)rnd(n); if (!((pat >> i) & 1)) { pat |= 1ull << i; have++; } }
    return pat;
}

static void ledger_emit(ledger_t *L) {
    op_begin("ledger %d %d %d %d %s %llu", L->c.be, L->c.k, L->c.m, L->c.hd, L->calls, (unsigned long long)L->pat); op_sep();
    guarded(run_ledger, L);
    stat_add("ledger.histories", 1); stat_add("ledger.calls", L->n);
}

void suite_ledger(int tier) {
    if (!mt_available()) {
        /* sanitizer build: the same histories run for their side effects (ASan: use after free,
           double free, overflow; LeakSanitizer at exit) */
    }
    const char *alphabet = "CXDEecFSUIBVfRrNMLHhGgWw";
    int na = (int)strlen(alphabet);
    cfg_t cfgs[] = { {6,4,2,2,2}, {6,1,1,1,2}, {3,5,5,3,2}, {3,10,6,4,2}, {0,3,2,2,2}, {6,10,4,4,2} };
    int nh = tier ? 400 : 50;
    for (int t = 0; t < nh; t++) {
        ledger_t L; L.c = cfgs[rnd(6)];
        L.n = 12 + (int)rnd(tier ? 280 : 50);
        int created = 0;
        for (int i = 0; i < L.n; i++) {
            char ch = alphabet[rnd(na)];
            if (!created && ch != 'C' && rnd(3)) ch = 'C';
            if (ch == 'C') created = 1;
            L.calls[i] = ch;
        }
        L.calls[L.n] = 0;
        L.pat = rnd(3) ? ledger_pattern(L.c) : 1;
        ledger_emit(&L);
    }
    /* every way of losing up to hd-1 fragments of a flat XOR code takes its own decoder path
       (one / two / three data, with parities, the synthetic-parity fall-back): all patterns of the
       small codes, all data triples (and a sample of the rest) of the large ones */
    for (int si = 0; si < n_xor_shapes; si++) {
        cfg_t c = { 3, xor_shapes[si][0], xor_shapes[si][1], xor_shapes[si][2], 2 };
        int n = c.k + c.m, tol = c.hd - 1;
        int full = (c.k == 10 && c.m == 6 && c.hd == 4) || (c.k == 5 && c.m == 5) || (c.k == 6 && c.m == 6 && c.hd == 4) || tier;
        if (!full && rnd(4)) continue;
        for (uint64_t pat = 1; pat < (1ull << n); pat++) {
            int e = __builtin_popcountll(pat);
            if (e > tol || !(pat & ((1ull << c.k) - 1))) continue;
            int data_only = !(pat >> c.k);
            if (!(full && (data_only || tier)) && rnd(full ? 6 : 40)) continue;
            ledger_t L; L.c = c; L.pat = pat; strcpy(L.calls, "CESfUfRSWwcfD"); L.n = (int)strlen(L.calls);
            ledger_emit(&L);
            stat_add("ledger.xor_patterns", 1);
        }
    }
    /* every shape once: allocation strategies that depend on k, m or k*k (stack below a threshold, pools, caches)
       change behaviour at one value only.  Quick: every k with one m, every m with one k; thorough: all 496 */
    for (int k = 1; k <= 31; k++) for (int m = 1; k + m <= 32; m++) {
        if (!tier && !(m == 1 + (k * 7) % 4 || (k == 2 + m % 3)) ) continue;
        if (k + m > 32) continue;
        cfg_t c = { 6, k, m, m, 2 };
        ledger_t L; L.c = c; L.pat = ledger_pattern(c); strcpy(L.calls, "CESfUfRScfD"); L.n = (int)strlen(L.calls);
        ledger_emit(&L);
        stat_add("ledger.rs_shape_sweep", 1);
    }
    for (int si = 0; si < n_xor_shapes; si++) {
        cfg_t c = { 3, xor_shapes[si][0], xor_shapes[si][1], xor_shapes[si][2], 2 };
        ledger_t L; L.c = c; L.pat = ledger_pattern(c); strcpy(L.calls, "CESfUfRScfD"); L.n = (int)strlen(L.calls);
        ledger_emit(&L);
        stat_add("ledger.xor_shape_sweep", 1);
    }
    /* results damaged by the caller before the cleanup call */
    {
        cfg_t cz[] = { {6,4,2,2,2}, {3,5,5,3,2}, {0,3,2,2,2}, {6,1,1,1,1}, {3,10,6,4,2}, {6,2,5,5,2} };
        for (int q = 0; q < 6; q++) for (int v = 0; v < 2; v++) {
            ledger_t L; L.c = cz[q]; L.pat = ledger_pattern(cz[q]); strcpy(L.calls, v ? "CEZcECzcD" : "CEzcEcD"); L.n = (int)strlen(L.calls);
            ledger_emit(&L);
            stat_add("ledger.damaged_before_cleanup", 1);
        }
    }
    /* rs_vand: erasure sets of every size */
    for (int t = 0; t < (tier ? 200 : 30); t++) {
        cfg_t c = { 6, 1 + (int)rnd(10), 1 + (int)rnd(5), 0, 2 }; c.hd = c.m;
        ledger_t L; L.c = c; L.pat = ledger_pattern(c); strcpy(L.calls, "CESfUfRScfD"); L.n = (int)strlen(L.calls);
        ledger_emit(&L);
    }
}

/* ======================================================================= fault (C17) */
static int g_fail_at = -1, g_count = 0;
static struct ec_backend_op_stubs g_orig;
static int stub_encode(void *d, char **a, char **b, int bs) { return (g_count++ == g_fail_at) ? -1 : g_orig.encode(d, a, b, bs); }
static int stub_decode(void *d, char **a, char **b, int *m, int bs) { return (g_count++ == g_fail_at) ? -1 : g_orig.decode(d, a, b, m, bs); }
static int stub_recon(void *d, char **a, char **b, int *m, int di, int bs) { return (g_count++ == g_fail_at) ? -1 : g_orig.reconstruct(d, a, b, m, di, bs); }
static int stub_need(void *d, int *a, int *b, int *c) { return (g_count++ == g_fail_at) ? -1 : g_orig.fragments_needed(d, a, b, c); }
static void *stub_init(struct ec_backend_args *a, void *h) { return (g_count++ == g_fail_at) ? NULL : g_orig.init(a, h); }

typedef struct { cfg_t c; int op; int n; } fault_t;

/* scripted workload: create, (encode, decode-with-missing, reconstruct, needed) x 2, destroy.
   Output: rc of every step, then the ledger after the faulted step and at the end. */
static void run_fault(void *va, FILE *out) {
    fault_t *F = va; cfg_t c = F->c;
    struct ec_backend_op_stubs *ops = ec_backends_supported[c.be]->common.ops;
    g_orig = *ops; g_count = 0; g_fail_at = F->n;
    switch (F->op) {
    case 0: ops->init = stub_init; break;
    case 1: ops->encode = stub_encode; break;
    case 2: ops->decode = stub_decode; break;
    case 3: ops->reconstruct = stub_recon; break;
    default: ops->fragments_needed = stub_need; break;
    }
    unsigned char data[97]; for (int i = 0; i < 97; i++) data[i] = (unsigned char)(i * 7 + 1);
    struct ec_args a; memset(&a, 0, sizeof a); a.k = c.k; a.m = c.m; a.hd = c.hd; a.ct = CHKSUM_CRC32;
    { struct ec_backend_op_stubs patched = *ops; *ops = g_orig; warmup(c); *ops = patched; }
    static char accbuf[4096]; FILE *real_out = out; out = fmemopen(accbuf, sizeof accbuf, "w"); setvbuf(out, NULL, _IONBF, 0);
    mt_on();
    long after_fault = -1; int faulted_step = -1; int step = 0;
    int desc = -1;
    for (int attempt = 0; attempt < 2 && desc <= 0; attempt++) {
        long before = mt_blocks();
        desc = liberasurecode_instance_create((ec_backend_id_t)c.be, &a);
        fprintf(out, "%s%d", step ? "," : "", desc > 0 ? 0 : desc);
        if (desc <= 0 && faulted_step < 0) { faulted_step = step; after_fault = mt_blocks() - before; }
        step++;
    }
    if (desc > 0) for (int round = 0; round < 2; round++) {
        char **ed = NULL, **ep = NULL; uint64_t fl = 0;
        long before = mt_blocks();
        int rc = liberasurecode_encode(desc, (char *)data, 97, &ed, &ep, &fl);
        fprintf(out, ",%d", rc);
        if (rc != 0) { if (faulted_step < 0) { faulted_step = step; after_fault = mt_blocks() - before; }
                       step++; rc = liberasurecode_encode(desc, (char *)data, 97, &ed, &ep, &fl); fprintf(out, ",%d", rc); }
        step++;
        if (rc != 0) break;
        char *fr[80]; int n = 0;
        for (int i = 1; i < c.k + c.m; i++) fr[n++] = i < c.k ? ed[i] : ep[i - c.k];
        for (int rep = 0; rep < 2; rep++) {
            char *od = NULL; uint64_t ol = 0;
            before = mt_blocks();
            rc = liberasurecode_decode(desc, fr, n, fl, 0, &od, &ol);
            if (rc == 0) { int good = ol == 97 && !memcmp(od, data, 97); liberasurecode_decode_cleanup(desc, od); fprintf(out, ",%d", good ? 0 : 1); step++; break; }
            fprintf(out, ",%d", rc);
            if (faulted_step < 0) { faulted_step = step; after_fault = mt_blocks() - before; }
            step++;
        }
        for (int rep = 0; rep < 2; rep++) {
            mt_off(); char *of = malloc(fl); mt_on();
            before = mt_blocks();
            rc = liberasurecode_reconstruct_fragment(desc, fr, n, fl, 0, of);
            int good = rc == 0 && !memcmp(of, ed[0], fl);
            mt_off(); free(of); mt_on();
            if (rc == 0) { fprintf(out, ",%d", good ? 0 : 1); step++; break; }
            fprintf(out, ",%d", rc);
            if (faulted_step < 0) { faulted_step = step; after_fault = mt_blocks() - before; }
            step++;
        }
        for (int rep = 0; rep < 2; rep++) {
            int r[2] = { 0, -1 }, x[1] = { -1 }, o[64];
            before = mt_blocks();
            rc = liberasurecode_fragments_needed(desc, r, x, o);
            fprintf(out, ",%d", rc);
            if (rc == 0) { step++; break; }
            if (faulted_step < 0) { faulted_step = step; after_fault = mt_blocks() - before; }
            step++;
        }
        liberasurecode_encode_cleanup(desc, ed, ep);
    }
    if (desc > 0) liberasurecode_instance_destroy(desc);
    mt_off();
    *ops = g_orig;
    fprintf(out, " fault@%d held=%ld end=%ld", faulted_step, mt_available() ? after_fault : 0, mt_available() ? mt_blocks() : 0);
    if ((c.be == 4 || c.be == 7) && mt_available()) {
        /* libisal is only ever loaded by the backend's dlopen: after the last destroy (and after a
           create whose init failed) it must be gone again */
        void *h = dlopen("libisal.so.2", RTLD_NOLOAD | RTLD_LAZY);
        fprintf(out, h ? " lib=loaded" : " lib=unloaded");
        if (h) dlclose(h);
    }
    if (mt_double_frees()) fprintf(out, " DOUBLE-FREE");
    fclose(out);
    fputs(accbuf, real_out);
    LEAK_CHECK(real_out);
}

/* natural failures: no stub — the backend's own code fails (unsupported shape inside init, erasure set
   beyond what the code can repair) */
typedef struct { int be, k, m, hd; uint64_t mask; int dsel; } natfail_t;
static void run_natfail(void *va, FILE *out) {
    natfail_t *N = va;
    unsigned char data[97]; for (int i = 0; i < 97; i++) data[i] = (unsigned char)(i * 7 + 1);
    struct ec_args a; memset(&a, 0, sizeof a); a.k = N->k; a.m = N->m; a.hd = N->hd; a.ct = CHKSUM_CRC32;
    warmup((cfg_t){ 6, 2, 1, 1, 2 });
    { /* the failing shape itself once before the ledger starts (first-time loader / log allocations) */
        int d0 = liberasurecode_instance_create((ec_backend_id_t)N->be, &a); if (d0 > 0) liberasurecode_instance_destroy(d0); }
    static char accbuf[1024]; FILE *real_out = out; out = fmemopen(accbuf, sizeof accbuf, "w"); setvbuf(out, NULL, _IONBF, 0);
    mt_on();
    long held = 0, before = mt_blocks();
    int desc = liberasurecode_instance_create((ec_backend_id_t)N->be, &a);
    if (desc <= 0) {
        held = mt_blocks() - before;
        /* again, several times: a per-call leak adds up */
        for (int r = 0; r < 5; r++) (void)liberasurecode_instance_create((ec_backend_id_t)N->be, &a);
        long endb = mt_blocks() - before;
        mt_off();
        fprintf(out, "c=%d held=%ld end=%ld", desc, mt_available() ? held : 0, mt_available() ? endb : 0);
    } else {
        char **ed = NULL, **ep = NULL; uint64_t fl = 0;
        int rc = liberasurecode_encode(desc, (char *)data, 97, &ed, &ep, &fl);
        if (rc != 0) { fprintf(out, "c=0 e=err %d held=%ld", rc, mt_available() ? mt_blocks() - before - 0 : 0); }
        else {
            int n = N->k + N->m; char *fr[80]; int cnt = 0, dest = 0, have = 0;
            for (int i = 0; i < n; i++) { if ((N->mask >> i) & 1) { if (!have || N->dsel) { dest = i; have = 1; } } else fr[cnt++] = i < N->k ? ed[i] : ep[i - N->k]; }   /* dsel: the highest missing index (a parity when one is missing) */
            long b0 = mt_blocks();
            char *od = NULL; uint64_t ol = 0;
            int rd = liberasurecode_decode(desc, fr, cnt, fl, 0, &od, &ol);
            if (rd == 0) { fprintf(out, "c=0 d=%d", (ol == 97 && !memcmp(od, data, 97)) ? 0 : 1); liberasurecode_decode_cleanup(desc, od); }
            else { fprintf(out, "c=0 d=err %d", rd); }
            held += mt_blocks() - b0;
            b0 = mt_blocks();
            mt_off(); char *of = malloc(fl); mt_on();
            int rr = liberasurecode_reconstruct_fragment(desc, fr, cnt, fl, dest, of);
            if (rr == 0) fprintf(out, " r=%d", memcmp(of, dest < N->k ? ed[dest] : ep[dest - N->k], fl) ? 1 : 0); else fprintf(out, " r=err %d", rr);
            mt_off(); free(of); mt_on();
            held += mt_blocks() - b0;
            /* fragments_needed for the same set, with the kinds of lists callers really pass: clean; the exclude list
               repeating an index and overlapping the request; the request repeated — failing or not, nothing is kept */
            {
                int rl[70], xl[70], ol2[70]; int nr = 0, nx = 0;
                for (int i = 0; i < n; i++) if ((N->mask >> i) & 1) rl[nr++] = i;
                rl[nr] = -1; xl[0] = -1;
                b0 = mt_blocks();
                for (int rep = 0; rep < 3; rep++) (void)liberasurecode_fragments_needed(desc, rl, xl, ol2);
                if (nr) { xl[nx++] = rl[0]; xl[nx++] = rl[nr - 1]; xl[nx++] = rl[0]; xl[nx++] = n - 1; xl[nx++] = n - 1; } xl[nx] = -1;
                for (int rep = 0; rep < 3; rep++) (void)liberasurecode_fragments_needed(desc, rl, xl, ol2);
                if (nr) { int one[2] = { rl[0], -1 }; for (int rep = 0; rep < 3; rep++) (void)liberasurecode_fragments_needed(desc, one, xl, ol2); }
                held += mt_blocks() - b0;
            }
            liberasurecode_encode_cleanup(desc, ed, ep);
            fprintf(out, " held=%ld", mt_available() ? held : 0);
        }
        liberasurecode_instance_destroy(desc);
        mt_off();
        fprintf(out, " end=%ld", mt_available() ? mt_blocks() - before : 0);
    }
    if (mt_double_frees()) fprintf(out, " DOUBLE-FREE");
    fclose(out);
    fputs(accbuf, real_out);
    LEAK_CHECK(real_out);
}

static void natfail_emit2(int be, int k, int m, int hd, uint64_t mask, int dsel) {
    natfail_t N = { be, k, m, hd, mask, dsel };
    op_begin("natfail %d %d %d %d %llu %d", be, k, m, hd, (unsigned long long)mask, dsel); op_sep();
    guarded(run_natfail, &N);
    stat_add("fault.natural", 1);
}
static void natfail_emit(int be, int k, int m, int hd, uint64_t mask) { natfail_emit2(be, k, m, hd, mask, 0); }

void suite_fault(int tier) {
    /* shapes the backend's own init refuses */
    {
        static const int bad[][4] = { {3,10,4,3}, {3,3,3,4}, {3,12,6,5}, {3,4,4,3}, {3,16,6,3}, {3,2,5,3}, {3,21,6,4}, {3,11,5,4}, {3,5,5,2}, {6,0,2,2}, {6,30,3,3}, {0,0,1,1} };
        for (unsigned i = 0; i < sizeof bad / sizeof bad[0]; i++) natfail_emit(bad[i][0], bad[i][1], bad[i][2], bad[i][3], 1);
        if (g_isal) { natfail_emit(4, 40, 4, 4, 1); natfail_emit(7, 3, 40, 40, 1); }
    }
    /* erasure sets beyond the tolerance: hd..m lost for flat XOR (the backend's decoder gives up, or repairs),
       m+1 for the others (refused by the front end) */
    for (int x = 0; x < n_xor_shapes; x++) {
        int k = xor_shapes[x][0], m = xor_shapes[x][1], hd = xor_shapes[x][2];
        /* every table at every tier (two sets each in the quick tier) */
        for (int q = 0; q < (tier ? 12 : 2); q++) {
            int cnt = hd + (int)rnd(m - hd + 1); uint64_t g = 0; int have = 0;
            while (have < cnt) { int i = (int)rnd(q == 0 ? k : k + m); if (!((g >> i) & 1)) { g |= 1ull << i; have++; } }
            natfail_emit(3, k, m, hd, g);
            /* a parity destination with data of its equation missing as well */
            { uint64_t g2 = (g & ((1ull << k) - 1)) | (1ull << (k + rnd(m))); int c2 = __builtin_popcountll(g2);
              while (c2 < hd) { int i = (int)rnd(k + m); if (!((g2 >> i) & 1)) { g2 |= 1ull << i; c2++; } }
              natfail_emit2(3, k, m, hd, g2, 1); }
        }
    }
    natfail_emit(6, 4, 2, 2, 0x7); natfail_emit(6, 4, 2, 2, 0x31); natfail_emit(0, 3, 2, 2, 0x3);
    (void)tier;
    /* shapes with k > m, k = m and k < m (unwinding loops run over k, over m or over k+m), every backend */
    cfg_t cfgs[] = { {6,4,2,2,2}, {3,5,5,3,2}, {0,3,2,2,2}, {4,4,2,2,2}, {6,2,5,5,2}, {0,3,7,7,2}, {6,3,3,3,2}, {7,2,4,4,2},
                     {6,1,1,1,2}, {3,10,6,4,2}, {7,3,3,3,2}, {6,1,3,3,2}, {4,2,2,2,2}, {6,16,16,16,2}, {6,1,31,31,2}, {0,1,1,1,2} };
    for (unsigned ci = 0; ci < (tier ? 16u : 8u); ci++) for (int op = 0; op < 5; op++) for (int n = 0; n < 3; n++) {
        if ((cfgs[ci].be == 4 || cfgs[ci].be == 7) && !g_isal) continue;
        fault_t F = { cfgs[ci], op, n };
        op_begin("fault %d %d %d %d %d %d", F.c.be, F.c.k, F.c.m, F.c.hd, op, n); op_sep();
        guarded(run_fault, &F);
        stat_add("fault.scripts", 1);
    }
}

/* ======================================================================= pure (C15) */
/* a buffer of `len` bytes that ends exactly at a PROT_NONE page and is read-only */
typedef struct { unsigned char *map; size_t maplen; unsigned char *p; } guard_t;
static guard_t guard_make(const void *src, size_t len) {
    guard_t g; size_t pg = 4096; size_t pages = (len + pg - 1) / pg + 1;
    g.maplen = (pages + 1) * pg;
    g.map = mmap(NULL, g.maplen, PROT_READ | PROT_WRITE, MAP_PRIVATE | MAP_ANONYMOUS, -1, 0);
    g.p = g.map + pages * pg - len;
    memcpy(g.p, src, len);
    mprotect(g.map, pages * pg, PROT_READ);
    mprotect(g.map + pages * pg, pg, PROT_NONE);
    return g;
}
static void guard_free(guard_t *g) { munmap(g->map, g->maplen); }

typedef struct { stripe_t *s; int what; uint64_t gone; int dest; } pure_a;

static void run_pure(void *va, FILE *out) {
    pure_a *a = va; stripe_t *s = a->s;
    if (a->what == 0) {                       /* encode from a guarded read-only input */
        guard_t g = guard_make(s->data, s->len);
        char **ed = NULL, **ep = NULL; uint64_t fl = 0;
        int rc = liberasurecode_encode(s->desc, (char *)g.p, s->len, &ed, &ep, &fl);
        if (rc) { fprintf(out, "err %d", rc); return; }
        int same = fl == s->flen;
        for (int i = 0; same && i < s->c.k; i++) same = !memcmp(ed[i], s->all[i], fl);
        for (int i = 0; same && i < s->c.m; i++) same = !memcmp(ep[i], s->all[s->c.k + i], fl);
        fprintf(out, same ? "same" : "DIFFERENT");
        liberasurecode_encode_cleanup(s->desc, ed, ep); guard_free(&g);
        return;
    }
    guard_t gs[80]; char *fr[80]; int n = 0;
    for (int i = 0; i < s->n; i++) if (!((a->gone >> i) & 1)) { gs[n] = guard_make(s->all[i], s->flen); fr[n] = (char *)gs[n].p; n++; }
    if (a->what == 1) {
        char *od = NULL; uint64_t ol = 0;
        int rc = liberasurecode_decode(s->desc, fr, n, s->flen, a->dest, &od, &ol);
        if (rc) fprintf(out, "err %d", rc);
        else { fprintf(out, (ol == s->len && !memcmp(od, s->data, ol)) ? "same" : "DIFFERENT"); liberasurecode_decode_cleanup(s->desc, od); }
    } else if (a->what == 2) {
        char *of = malloc(s->flen);
        int rc = liberasurecode_reconstruct_fragment(s->desc, fr, n, s->flen, a->dest, of);
        if (rc) fprintf(out, "err %d", rc); else fprintf(out, !memcmp(of, s->all[a->dest], s->flen) ? "same" : "DIFFERENT");
        free(of);
    } else {
        int bad = 0;
        for (int i = 0; i < n; i++) {
            fragment_metadata_t md;
            if (liberasurecode_get_fragment_metadata(fr[i], &md) != 0) bad++;
            if (is_invalid_fragment(s->desc, fr[i])) bad++;
            /* the same fragment as an opposite-byte-order writer stores it, also ending at the guard page:
               the metadata query accepts it and reads no further than header + payload */
            unsigned char *tw = malloc(s->flen); memcpy(tw, fr[i], s->flen); make_twin(tw);
            guard_t g = guard_make(tw, s->flen); free(tw);
            if (g_progress) snprintf(g_progress, 200, "in get_fragment_metadata of an opposite-byte-order fragment ending at a guard page (be=%d ct=%d)", s->c.be, s->c.ct);
            fragment_metadata_t md2;
            if (liberasurecode_get_fragment_metadata((char *)g.p, &md2) != 0 || md2.chksum_mismatch != md.chksum_mismatch || md2.size != md.size || md2.orig_data_size != md.orig_data_size) bad++;
            (void)is_invalid_fragment(s->desc, (char *)g.p);
            if (g_progress) g_progress[0] = 0;
            guard_free(&g);
        }
        if (liberasurecode_verify_stripe_metadata(s->desc, fr, n) != 0) bad++;
        fprintf(out, bad ? "DIFFERENT" : "same");
    }
    for (int i = 0; i < n; i++) guard_free(&gs[i]);
}

/* every erasure set of the tolerated sizes (data-only sets first: for flat XOR they take the rare decoder
   paths), inputs on read-only pages that end at a guard page — once ending at the guard page, once
   16-byte aligned (aligned inputs are used in place by the library, others are copied first) */
typedef struct { cfg_t c; size_t len; } psweep_a;
static void run_pure_sweep(void *va, FILE *out) {
    psweep_a *a = va; cfg_t c = a->c;
    stripe_t s;
    if (stripe_make(&s, c, a->len, 0, 0) != 0) { fprintf(out, "err encode"); return; }
    int tol = cfg_tolerance(c); if (tol > 3) tol = 3;
    guard_t gs[80];
    for (int i = 0; i < s.n; i++) gs[i] = guard_make(s.all[i], s.flen);
    long done = 0;
    for (int e = tol; e >= 1; e--) {
        if (e > c.k) continue;
        int idx[4] = { 0, 1, 2, 3 };
        for (;;) {
            uint64_t pat = 0; for (int i = 0; i < e; i++) pat |= 1ull << idx[i];
            char *fr[80]; int n = 0;
            for (int i = 0; i < s.n; i++) if (!((pat >> i) & 1)) fr[n++] = (char *)gs[i].p;
            if (g_progress) snprintf(g_progress, 200, "in decode/reconstruct of be=%d (%d,%d,%d) len=%zu without mask %llx (inputs read-only)", c.be, c.k, c.m, c.hd, a->len, (unsigned long long)pat);
            char *od = NULL; uint64_t ol = 0;
            int rc = liberasurecode_decode(s.desc, fr, n, s.flen, 0, &od, &ol);
            if (rc != 0 || ol != s.len || memcmp(od, s.data, ol)) { fprintf(out, "DIFFERENT decode mask %llx rc=%d", (unsigned long long)pat, rc); return; }
            liberasurecode_decode_cleanup(s.desc, od);
            char *of = malloc(s.flen);
            rc = liberasurecode_reconstruct_fragment(s.desc, fr, n, s.flen, idx[0], of);
            if (rc != 0 || memcmp(of, s.all[idx[0]], s.flen)) { fprintf(out, "DIFFERENT reconstruct mask %llx rc=%d", (unsigned long long)pat, rc); free(of); return; }
            free(of);
            done++;
            int i = e - 1;
            while (i >= 0 && idx[i] == c.k - e + i) i--;
            if (i < 0) break;
            idx[i]++; for (int j = i + 1; j < e; j++) idx[j] = idx[j - 1] + 1;
        }
    }
    /* mixed sets: every (data, parity) pair, and with a second data fragment when the code tolerates three */
    if (tol >= 2) for (int d = 0; d < c.k; d++) for (int q = 0; q < c.m; q++) for (int third = -1; third < (tol >= 3 && c.k > 1 ? 1 : 0); third++) {
        uint64_t pat = (1ull << d) | (1ull << (c.k + q));
        if (third >= 0) pat |= 1ull << ((d + 1 + (q % (c.k - 1))) % c.k);
        char *fr[80]; int n = 0;
        for (int i = 0; i < s.n; i++) if (!((pat >> i) & 1)) fr[n++] = (char *)gs[i].p;
        if (g_progress) snprintf(g_progress, 200, "in decode/reconstruct of be=%d (%d,%d,%d) len=%zu without mask %llx (inputs read-only)", c.be, c.k, c.m, c.hd, a->len, (unsigned long long)pat);
        char *od = NULL; uint64_t ol = 0;
        int rc = liberasurecode_decode(s.desc, fr, n, s.flen, 0, &od, &ol);
        if (rc != 0 || ol != s.len || memcmp(od, s.data, ol)) { fprintf(out, "DIFFERENT decode mask %llx rc=%d", (unsigned long long)pat, rc); return; }
        liberasurecode_decode_cleanup(s.desc, od);
        int dests[2] = { d, c.k + q };
        for (int z = 0; z < 2; z++) {
            char *of = malloc(s.flen);
            rc = liberasurecode_reconstruct_fragment(s.desc, fr, n, s.flen, dests[z], of);
            if (rc != 0 || memcmp(of, s.all[dests[z]], s.flen)) { fprintf(out, "DIFFERENT reconstruct of %d mask %llx rc=%d", dests[z], (unsigned long long)pat, rc); free(of); return; }
            free(of);
        }
        /* a second decode of the very same buffers: an input quietly altered by the first shows here even
           where the pages were writable */
        od = NULL; rc = liberasurecode_decode(s.desc, fr, n, s.flen, 0, &od, &ol);
        if (rc != 0 || ol != s.len || memcmp(od, s.data, ol)) { fprintf(out, "DIFFERENT second decode mask %llx rc=%d", (unsigned long long)pat, rc); return; }
        liberasurecode_decode_cleanup(s.desc, od);
        done++;
    }
    for (int i = 0; i < s.n; i++) guard_free(&gs[i]);
    if (g_progress) g_progress[0] = 0;
    fprintf(out, "same");
}

/* decode / reconstruct told that the fragments are `len` bytes long (shorter than a header), the buffers being
   exactly that long and ending at an unmapped page: refused without reading beyond what was given */
typedef struct { cfg_t c; size_t len; } pshort_a;
static void run_pure_short(void *va, FILE *out) {
    pshort_a *a = va; cfg_t c = a->c;
    stripe_t s;
    if (stripe_make(&s, c, 100, 0, 0) != 0) { fprintf(out, "err encode"); return; }
    char *fr[80];
    for (int i = 0; i < s.n; i++) {
        unsigned char *map = mmap(NULL, 8192, PROT_READ | PROT_WRITE, MAP_PRIVATE | MAP_ANONYMOUS, -1, 0);
        fr[i] = (char *)map + 4096 - a->len;
        memcpy(fr[i], s.all[i], a->len);
        mprotect(map, 4096, PROT_READ); mprotect(map + 4096, 4096, PROT_NONE);
    }
    if (g_progress) snprintf(g_progress, 200, "in decode/reconstruct with fragment_len=%zu and read-only buffers of exactly that size, be=%d", a->len, c.be);
    char *od = NULL; uint64_t ol = 0;
    int r1 = liberasurecode_decode(s.desc, fr, s.n, a->len, 0, &od, &ol);
    int r2 = liberasurecode_decode(s.desc, fr + 1, s.n - 1, a->len, 1, &od, &ol);
    char of[256];
    int r3 = liberasurecode_reconstruct_fragment(s.desc, fr + 1, s.n - 1, a->len, 0, of);
    if (g_progress) g_progress[0] = 0;
    fprintf(out, (r1 < 0 && r2 < 0 && r3 < 0) ? "same" : "DIFFERENT accepted %d %d %d", r1, r2, r3);
}

static void *thread_encode(void *va) {
    stripe_t *s = va; char **ed = NULL, **ep = NULL; uint64_t fl = 0;
    long same = 0;
    if (liberasurecode_encode(s->desc, (char *)s->data, s->len, &ed, &ep, &fl) == 0) {
        same = fl == s->flen;
        for (int i = 0; same && i < s->c.k; i++) same = !memcmp(ed[i], s->all[i], fl);
        for (int i = 0; same && i < s->c.m; i++) same = !memcmp(ep[i], s->all[s->c.k + i], fl);
        liberasurecode_encode_cleanup(s->desc, ed, ep);
    }
    return (void *)same;
}

/* Instance churn: fresh instances of several shapes are created, used and destroyed in a random order
   while others stay open; every encode must give the same bytes as every other encode with the same
   instance arguments and data, every decode the data.  At the end the bytes seen are compared with a
   reference stripe that goes through the model as an `enc` line.  Shapes come in pairs whose private
   tables have the same allocation size, so that a freed block is handed to the next instance.  Runs
   first in its suite: state left behind by earlier calls (caches with a limited number of slots) must
   not mask anything. */
void churn(const char *prop, int tier, int rs_only) {
    static const int pairs[][2][2] = { {{4,6},{5,3}}, {{3,9},{4,5}}, {{2,4},{3,1}}, {{6,2},{4,8}}, {{8,16},{12,4}}, {{2,7},{3,3}}, {{6,9},{9,1}} };
    enum { P = 10, SL = 4 };
    cfg_t pool[P]; unsigned char *data[P]; size_t dlen[P]; unsigned char *seen[P]; uint64_t seen_fl[P]; int np = 0;
    int pi = (int)rnd(7), pj = (int)rnd(7);
    int cand[P][2] = { {pairs[pi][0][0], pairs[pi][0][1]}, {pairs[pi][1][0], pairs[pi][1][1]}, {pairs[pj][0][0], pairs[pj][0][1]}, {pairs[pj][1][0], pairs[pj][1][1]},
                       {1 + (int)rnd(8), 2 + (int)rnd(4)}, {1 + (int)rnd(8), 2 + (int)rnd(4)}, {2, 2}, {10, 4}, {0, 0}, {0, 0} };
    for (int i = 0; i < P; i++) {
        cfg_t c;
        if (i < 8) c = (cfg_t){ 6, cand[i][0], cand[i][1], cand[i][1], 1 + (int)rnd(2) };
        else if (rs_only) continue;
        else { const int *x = xor_shapes[rnd(n_xor_shapes)]; c = (cfg_t){ 3, x[0], x[1], x[2], 1 + (int)rnd(2) }; }
        int dup = 0; for (int j = 0; j < np; j++) if (pool[j].be == c.be && pool[j].k == c.k && pool[j].m == c.m && pool[j].hd == c.hd) dup = 1;
        if (dup) continue;
        dlen[np] = 1 + rnd(6 * c.k); data[np] = gen_data(dlen[np], 0); seen[np] = NULL; seen_fl[np] = 0;
        pool[np++] = c;
    }
    int slot[SL], sp[SL]; for (int i = 0; i < SL; i++) slot[i] = -1;
    int steps = tier ? 400 : 120, bad = 0;
    for (int t = 0; t < steps && np; t++) {
        int q = (int)rnd(SL);
        if (slot[q] <= 0) {
            int p = (int)rnd(np); cfg_t c = pool[p];
            struct ec_args a; memset(&a, 0, sizeof a); a.k = c.k; a.m = c.m; a.hd = c.hd; a.ct = c.ct == 2 ? CHKSUM_CRC32 : CHKSUM_NONE;
            slot[q] = liberasurecode_instance_create((ec_backend_id_t)c.be, &a); sp[q] = p;
            if (slot[q] <= 0) { oracle_fail(prop, "churn: create failed (%d) for be=%d (%d,%d,%d)", slot[q], c.be, c.k, c.m, c.hd); bad++; }
            stat_add("churn.creates", 1);
        } else if (rnd(3) == 0) {
            liberasurecode_instance_destroy(slot[q]); slot[q] = -1;
            stat_add("churn.destroys", 1);
            continue;
        }
        if (slot[q] <= 0) continue;
        int p = sp[q]; cfg_t c = pool[p]; int n = c.k + c.m;
        char **ed = NULL, **ep = NULL; uint64_t fl = 0;
        int rc = liberasurecode_encode(slot[q], (char *)data[p], dlen[p], &ed, &ep, &fl);
        if (rc != 0) { oracle_fail(prop, "churn: encode rc=%d for be=%d (%d,%d,%d)", rc, c.be, c.k, c.m, c.hd); bad++; continue; }
        if (!seen[p]) {
            seen[p] = malloc((size_t)n * fl); seen_fl[p] = fl;
            for (int i = 0; i < n; i++) memcpy(seen[p] + (size_t)i * fl, i < c.k ? ed[i] : ep[i - c.k], fl);
        } else for (int i = 0; i < n; i++) {
            char *f = i < c.k ? ed[i] : ep[i - c.k];
            if (fl != seen_fl[p] || memcmp(f, seen[p] + (size_t)i * fl, fl)) {
                oracle_fail(prop, "churn step %d: fragment %d of be=%d (%d,%d,%d) differs from an earlier encode with the same instance arguments and data (the result depends on the history of other instances)", t, i, c.be, c.k, c.m, c.hd);
                bad++; break;
            }
        }
        /* decode from the fragments just produced, data fragments missing first */
        int tol = cfg_tolerance(c), e = 1 + (int)rnd(tol); if (e > c.k) e = c.k;
        char *fr[80]; int cnt = 0;
        for (int i = e; i < n; i++) fr[cnt++] = i < c.k ? ed[i] : ep[i - c.k];
        char *od = NULL; uint64_t ol = 0;
        rc = liberasurecode_decode(slot[q], fr, cnt, fl, 0, &od, &ol);
        if (rc != 0) { oracle_fail(prop, "churn step %d: decode rc=%d with %d data fragments missing, be=%d (%d,%d,%d)", t, rc, e, c.be, c.k, c.m, c.hd); bad++; }
        else { if (ol != dlen[p] || memcmp(od, data[p], ol)) { oracle_fail(prop, "churn step %d: decode returned wrong bytes, be=%d (%d,%d,%d)", t, c.be, c.k, c.m, c.hd); bad++; }
               liberasurecode_decode_cleanup(slot[q], od); }
        liberasurecode_encode_cleanup(slot[q], ed, ep);
        stat_add("churn.encodes", 1);
        if (bad > 5) break;
    }
    for (int i = 0; i < SL; i++) if (slot[i] > 0) liberasurecode_instance_destroy(slot[i]);
    /* what was seen against the reference stripe (which the model checks) */
    for (int p = 0; p < np; p++) {
        stripe_t r;
        if (seen[p] && op_enc(pool[p], 0, data[p], dlen[p], &r) == 0) {
            for (int i = 0; i < r.n; i++)
                if (r.flen != seen_fl[p] || memcmp(r.all[i], seen[p] + (size_t)i * r.flen, r.flen)) {
                    oracle_fail(prop, "churn: fragment %d of be=%d (%d,%d,%d) encoded during the history differs from the reference stripe", i, pool[p].be, pool[p].k, pool[p].m, pool[p].hd);
                    break;
                }
            stripe_free(&r);
        }
        free(seen[p]); free(data[p]);
    }
}

void suite_pure(int tier) {
    for (int r = 0; r < (tier ? 12 : 3); r++) churn("C15", tier, 0);
    /* fragment lengths below a header, buffers really that short */
    {
        static const cfg_t cs[] = { {6,4,2,2,2}, {3,5,5,3,1}, {0,3,2,2,1} };
        static const size_t lens[] = { 0, 1, 4, 20, 40, 58, 59, 62, 63, 66, 67, 70, 71, 79 };
        for (unsigned ci = 0; ci < 3; ci++) for (unsigned li = 0; li < sizeof lens / sizeof lens[0]; li++) {
            if (!tier && ci && (li % 3)) continue;
            pshort_a a = { cs[ci], lens[li] };
            op_begin("pure short %d %d %d %zu", cs[ci].be, cs[ci].k, cs[ci].m, lens[li]); op_sep();
            guarded(run_pure_short, &a);
            stat_add("pure.short_fragments", 1);
        }
    }
    /* read-only inputs over every erasure set */
    {
        static const cfg_t base[] = { {3,6,5,4,2}, {3,10,6,4,1}, {3,5,5,3,2}, {6,4,2,2,2}, {6,3,3,3,1}, {3,12,6,4,2}, {3,6,6,4,1}, {3,10,5,3,2} };
        for (unsigned ci = 0; ci < (tier ? 8u : 5u); ci++) for (int al = 0; al < 2; al++) {
            cfg_t c = base[ci];
            /* al=1: payload a multiple of 16, so that the 80-byte header + payload ends AND starts 16-byte aligned */
            size_t len = al ? (size_t)c.k * 16 * (1 + rnd(3)) : (size_t)c.k * 4 * (1 + rnd(5)) - rnd(3);
            psweep_a a = { c, len };
            op_begin("pure sweep %d %d %d %d %zu", c.be, c.k, c.m, c.hd, len); op_sep();
            guarded(run_pure_sweep, &a);
            stat_add("pure.sweeps", 1);
        }
    }
    int cases = tier ? 200 : 30;
    for (int t = 0; t < cases; t++) {
        cfg_t c = cfg_random_ec();
        size_t len = gen_len(c, 0);
        unsigned char *d = gen_data(len, (int)rnd(3));
        stripe_t s;
        /* the reference bytes also go through the model */
        if (op_enc(c, 0, d, len, &s) != 0) { free(d); continue; }
        free(d);
        int tol = cfg_tolerance(c);
        pure_a a = { &s, 0, 0, 0 };
        const char *names[] = { "encode", "decode", "reconstruct", "inspect" };
        for (int what = 0; what < 4; what++) {
            a.what = what;
            a.gone = 0; { int cnt = (int)rnd(tol + 1), have = 0; while (have < cnt) { int i = (int)rnd(s.n); if (!((a.gone >> i) & 1)) { a.gone |= 1ull << i; have++; } } }
            a.dest = what == 1 ? (int)rnd(2) : (int)rnd(s.n);
            if (what == 2 && !a.gone) a.gone = 1ull << a.dest;
            if (what == 2 && !((a.gone >> a.dest) & 1)) { for (int i = 0; i < s.n; i++) if ((a.gone >> i) & 1) { a.dest = i; break; } }
            op_begin("pure %s", names[what]); op_sep();
            guarded(run_pure, &a);
            stat_add("pure.guarded_calls", 1);
        }
        /* history independence: the same encode after unrelated activity and from another thread */
        {
            cfg_t other = cfg_random_ec(); stripe_t o;
            if (stripe_make(&o, other, 50, 0, 0) == 0) {
                char *fr[80]; int n = 0; for (int i = 1; i < o.n; i++) fr[n++] = o.all[i];
                char *od = NULL; uint64_t ol = 0;
                if (liberasurecode_decode(o.desc, fr, n, o.flen, 0, &od, &ol) == 0) liberasurecode_decode_cleanup(o.desc, od);
                stripe_free(&o);
            }
            struct ec_args ar; memset(&ar, 0, sizeof ar); ar.k = 3; ar.m = 2; ar.hd = 2; ar.ct = CHKSUM_NONE;
            int tmp = liberasurecode_instance_create(EC_BACKEND_LIBERASURECODE_RS_VAND, &ar);
            pthread_t th; void *res = NULL;
            pthread_create(&th, NULL, thread_encode, &s); pthread_join(th, &res);
            if (tmp > 0) liberasurecode_instance_destroy(tmp);
            op_begin("pure history"); op_sep();
            long same2 = (long)thread_encode(&s);
            res_end((res && same2) ? "same" : "DIFFERENT");
            if (!res || !same2) oracle_fail("C15", "encode output depends on history/thread: be=%d (%d,%d,%d) len=%zu", c.be, c.k, c.m, c.hd, len);
        }
        stripe_free(&s);
    }
}
