/*
 * common.h — shared infrastructure of the correspondence harness.
 *
 * Every suite prints lines of the form
 *     <op line> ## <implementation result>
 * (the op line is flushed before the real code is called, so that a crash of
 * the harness leaves the offending input on the last line), plus
 *     !ORACLE <property> <text>      a direct property oracle failed on the implementation
 *     #STAT <key> <value>            distribution / coverage statistics
 * The check script pipes the op lines to the Lean model driver (lecdrv) and
 * diffs the result columns.
 */
#ifndef VERIF_COMMON_H
#define VERIF_COMMON_H
#define _GNU_SOURCE 1
#include <stdio.h>
#include <stdlib.h>
#include <string.h>
#include <stdint.h>
#include <unistd.h>
#include <signal.h>
#include <sys/wait.h>
#include <sys/mman.h>
#include "erasurecode.h"
#include "erasurecode_backend.h"
#include "erasurecode_helpers.h"
#include "erasurecode_helpers_ext.h"

#define HDR 80

/* ---- PRNG: splitmix64, everything random derives from one state ---- */
extern uint64_t g_rng;
static inline uint64_t rnd64(void) {
    uint64_t z = (g_rng += 0x9e3779b97f4a7c15ULL);
    z = (z ^ (z >> 30)) * 0xbf58476d1ce4e5b9ULL;
    z = (z ^ (z >> 27)) * 0x94d049bb133111ebULL;
    return z ^ (z >> 31);
}
static inline uint32_t rnd(uint32_t n) { return n ? (uint32_t)(rnd64() % n) : 0; }

/* ---- configurations ---- */
typedef struct { int be, k, m, hd, ct; } cfg_t;
int  cfg_desc(cfg_t c);                 /* cached instance descriptor (created on demand), <0 on failure */
void cfg_release_all(void);
cfg_t cfg_random(int allow_null);       /* a shape the library accepts */
cfg_t cfg_random_ec(void);              /* rs_vand or flat_xor_hd only */
int  cfg_tolerance(cfg_t c);            /* max erasures guaranteed: m (RS), hd-1 (XOR) */
extern const int xor_shapes[][3];
extern const int n_xor_shapes;
extern int g_isal;                      /* reference libisal available */

/* ---- output ---- */
void put_hex(const unsigned char *p, size_t n);
void op_begin(const char *fmt, ...);     /* starts a line (no newline) */
void op_hex(const void *p, size_t n);    /* appends " <hex>" */
void op_sep(void);                       /* prints " ## " and flushes */
void res_end(const char *fmt, ...);      /* result + newline */
void res_hex_begin(const char *fmt, ...);/* result prefix, then use put_hex/ printf, then res_nl */
void res_nl(void);
void oracle_fail(const char *prop, const char *fmt, ...);
void stat_add(const char *key, long v);
void stat_dump(void);

/* ---- data ---- */
unsigned char *gen_data(size_t len, int kind);   /* kind: 0 random, 1 all-equal, 2 counter, 3 single bit, 4 zeros */
size_t gen_len(cfg_t c, int tier);               /* lengths dense around multiples of k*w/8 */
int cfg_wbytes(cfg_t c);

/* ---- stripes ---- */
typedef struct {
    cfg_t c; int desc;
    unsigned char *data; uint64_t len;
    char **ed, **ep; uint64_t flen;
    int n;
    char **all;          /* k+m pointers: data then parity */
} stripe_t;
int  stripe_make(stripe_t *s, cfg_t c, size_t len, int kind, int legacy);  /* rc of encode */
void stripe_free(stripe_t *s);

void set_legacy(int on);

/* ---- guarded execution: run fn in a forked child, capture its single result line ---- */
typedef void (*guard_fn)(void *arg, FILE *out);
/* prints the child's output as the result; "crash <sig|san>" if it died */
void guarded(guard_fn fn, void *arg);
extern char *g_progress;   /* shared with the forked child: what it was doing (shown after "crash") */

/* header helpers */
void reseal(unsigned char *frag);
void make_twin(unsigned char *frag);  /* the same header as an opposite-byte-order writer stores it (suites1.c) */     /* recompute metadata_chksum (zlib crc32) */
#endif
