#ifndef VERIF_OPS_H
#define VERIF_OPS_H
#include "common.h"
extern int g_env_readers;   /* reading calls run with the legacy-CRC switch set (it must not matter) */
int  op_enc(cfg_t c, int legacy, const unsigned char *data, size_t len, stripe_t *keep);
/* returns: 0 decoded == expect, 1 success with different bytes, <0 the error code */
int  op_dec(cfg_t c, int force, uint64_t flen, int n, char **frags, int misalign,
            const unsigned char *expect, uint64_t expect_len);
void op_dec_g(cfg_t c, int force, uint64_t flen, int n, char **frags);
int  op_rec(cfg_t c, int legacy, int dest, uint64_t flen, int n, char **frags, int misalign,
            const unsigned char *expect);
void op_rec_g(cfg_t c, int legacy, int dest, uint64_t flen, int n, char **frags);
int  op_need(cfg_t c, int *r, int *x, int *out_list, int guarded_call);
void op_meta(unsigned char *frag, size_t len, int g);
void op_hdrinv(unsigned char *frag, int g);
int  op_fraginv(cfg_t c, unsigned char *frag, size_t len, int g);
int  op_stripe(cfg_t c, int n, char **frags, uint64_t flen);
void op_size(cfg_t c, uint64_t len);
void op_create(int be, int k, int m, int hd, int w);
void op_crc(const unsigned char *p, size_t n);
/* encode of an input too large for the library's int arithmetic (len beyond the guard): must be refused
   without touching the caller's output variables, which still hold the (released) results of an earlier encode */
void op_enclen(cfg_t c, uint64_t len);
/* direct property oracles on the implementation alone (no model line; cheap, so pattern spaces are
   swept exhaustively): decode of the stripe without the fragments in `gone` / reconstruct of `dest`.
   mode: 0 the set is tolerated — anything but the exact result is a failure;
         1 beyond tolerance — an error is fine, success with other bytes is the failure.
   Return 0 exact, 1 wrong bytes, <0 error code. */
int  sweep_dec(stripe_t *s, uint64_t gone, int force, int shuffle_order, int mode, const char *prop);
int  sweep_rec(stripe_t *s, uint64_t gone, int dest, int mode, const char *prop);
/* call sequences: every tolerated erasure set followed at once by each of its one-element extensions (and
   the set again) — state kept between calls (caches keyed by part of the erasure set) must not leak */
void sweep_neighbours(stripe_t *s, int rec, const char *prop, const char *statkey);
#endif
