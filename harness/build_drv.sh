#!/bin/bash
# build_drv.sh <libdir> [asan|plain|tsan] — builds the harness against the library in <libdir>
set -e
OUT="$1"; MODE="${2:-asan}"
REPO="${VERIF_REPO:-/repo}"
HERE="$(cd "$(dirname "$0")" && pwd)"
case "$MODE" in
  asan|asanstrict)  SAN="-O1 -fsanitize=address,undefined -fno-sanitize-recover=undefined -fno-omit-frame-pointer" ;;
  plain) SAN="-O2 -DVERIF_MEMTRACK" ;;
  tsan)  SAN="-O1 -fsanitize=thread" ;;
esac
INC="-I$OUT/inc -I$REPO/include -I$REPO/include/erasurecode -I$REPO/include/xor_codes -I$REPO/include/rs_vand -I$REPO/include/isa_l"
gcc -g -std=gnu99 -Wall -Wno-unused-function -DLIBERASURECODE_VERIF $SAN $INC -o "$OUT/drv" \
   "$HERE"/drv.c "$HERE"/common.c "$HERE"/ops.c "$HERE"/memtrack.c "$HERE"/suites*.c \
   -L"$OUT" -l:liberasurecode.so.1 -l:libXorcode.so.1 -l:liberasurecode_rs_vand.so.1 -lz -ldl -lpthread -Wl,-rpath,"$OUT"
