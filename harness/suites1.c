/*
 * suites1.c — wire format, sizes, header acceptance, payload checksums, endianness,
 * fragment validation (properties C07–C12).
 */
#include "common.h"
#include "ops.h"
#include <zlib.h>

extern int liberasurecode_crc32_alt(int crc, const void *buf, size_t size);

static uint32_t rd32(const unsigned char *p) { uint32_t v; memcpy(&v, p, 4); return v; }
static void wr32(unsigned char *p, uint32_t v) { memcpy(p, &v, 4); }
static void rev(unsigned char *p, int n) { for (int i = 0; i < n / 2; i++) { unsigned char t = p[i]; p[i] = p[n - 1 - i]; p[n - 1 - i] = t; } }

/* ======================================================================= wire (C07, C08) */
static void wire_oracle(stripe_t *s, const unsigned char *data, size_t len) {
    cfg_t c = s->c;
    uint64_t bs = s->flen - HDR;
    for (int i = 0; i < s->n; i++) {
        unsigned char *f = (unsigned char *)s->all[i];
        if (rd32(f + 0) != (uint32_t)i) oracle_fail("C07", "fragment %d carries index %u", i, rd32(f));
        if (rd32(f + 4) != bs) oracle_fail("C07", "fragment %d size field %u != payload %llu", i, rd32(f + 4), (unsigned long long)bs);
        if (rd32(f + 59) != 0x0b0c5ecc) oracle_fail("C07", "fragment %d magic %x", i, rd32(f + 59));
        uint64_t o; memcpy(&o, f + 12, 8);
        if (o != len) oracle_fail("C07", "fragment %d orig_data_size %llu != %zu", i, (unsigned long long)o, len);
        for (int j = 71; j < 80; j++) if (f[j]) { oracle_fail("C07", "fragment %d padding byte %d non-zero", i, j); break; }
        if (rd32(f + 67) != (uint32_t)crc32(0, f, 59) && rd32(f + 67) != (uint32_t)liberasurecode_crc32_alt(0, f, 59))
            oracle_fail("C07", "fragment %d metadata crc wrong", i);
    }
    for (int i = 0; i < c.k; i++) {
        unsigned char *p = (unsigned char *)s->all[i] + HDR;
        for (uint64_t j = 0; j < bs; j++) {
            uint64_t off = (uint64_t)i * bs + j;
            unsigned char want = off < len ? data[off] : 0;
            if (p[j] != want) { oracle_fail("C07", "data fragment %d byte %llu is %02x, input slice has %02x", i, (unsigned long long)j, p[j], want); break; }
        }
    }
    int desc = s->desc;
    int fs = liberasurecode_get_fragment_size(desc, (int)len);
    if ((uint64_t)fs + HDR != s->flen) oracle_fail("C08", "fragment_size(%zu)=%d but encode produced %llu", len, fs, (unsigned long long)s->flen);
}

void suite_wire(int tier) {
    int cases = tier ? 1200 : 140;
    for (int t = 0; t < cases; t++) {
        cfg_t c = cfg_random(1);
        if (rnd(5) == 0) c.ct = rnd(2) ? 3 : (int)rnd(6);  /* unusual checksum types are stored as given */
        size_t len = gen_len(c, tier);
        int kind = (int)rnd(5);
        int legacy = rnd(4) == 0;
        unsigned char *d = gen_data(len, kind);
        stripe_t s;
        if (op_enc(c, legacy, d, len, &s) == 0) {
            wire_oracle(&s, d, len);
            /* the built-in codes have a fixed word size: a caller-supplied w must not change the format */
            if ((c.be == 3 || c.be == 6 || c.be == 0) && rnd(2)) {
                static const int ws[] = { 8, 16, 32, 64, 4, 7, -1 };
                struct ec_args a; memset(&a, 0, sizeof a); a.k = c.k; a.m = c.m; a.hd = c.hd; a.w = ws[rnd(c.be == 0 ? 3 : 7)];
                a.ct = (ec_checksum_type_t)c.ct;
                int d2 = liberasurecode_instance_create((ec_backend_id_t)c.be, &a);
                if (d2 > 0) {
                    char **ed = NULL, **ep = NULL; uint64_t fl = 0;
                    set_legacy(legacy);
                    int rc = liberasurecode_encode(d2, (char *)d, len, &ed, &ep, &fl);
                    set_legacy(0);
                    if (rc == 0) {
                        int same = fl == s.flen;
                        for (int i = 0; same && i < c.k; i++) same = !memcmp(ed[i], s.all[i], fl);
                        for (int i = 0; same && i < c.m; i++) same = !memcmp(ep[i], s.all[c.k + i], fl);
                        if (!same) oracle_fail("C07", "fragments of be=%d (%d,%d,%d) len=%zu differ when the instance was created with w=%d (fragment length %llu vs %llu)", c.be, c.k, c.m, c.hd, len, a.w, (unsigned long long)fl, (unsigned long long)s.flen);
                        if (liberasurecode_get_fragment_size(d2, (int)len) + HDR != (int)fl) oracle_fail("C08", "fragment_size disagrees with encode for an instance created with w=%d", a.w);
                        if (liberasurecode_get_aligned_data_size(d2, len) != liberasurecode_get_aligned_data_size(s.desc, len)) oracle_fail("C08", "aligned_data_size depends on the w given at creation (w=%d) for a fixed-word-size code be=%d", a.w, c.be);
                        if (len && (uint64_t)liberasurecode_get_aligned_data_size(d2, len) != (uint64_t)c.k * (fl - HDR)) oracle_fail("C08", "aligned_data_size(%zu)=%d is not k x the payload encode lays out (%llu) for an instance created with w=%d, be=%d", len, liberasurecode_get_aligned_data_size(d2, len), (unsigned long long)(fl - HDR), a.w, c.be);
                        if (liberasurecode_get_minimum_encode_size(d2) != liberasurecode_get_aligned_data_size(d2, 1)) oracle_fail("C08", "minimum_encode_size != aligned_data_size(1) for an instance created with w=%d", a.w);
                        if (liberasurecode_get_minimum_encode_size(d2) != liberasurecode_get_minimum_encode_size(s.desc)) oracle_fail("C08", "minimum_encode_size depends on the w given at creation (w=%d), be=%d", a.w, c.be);
                        liberasurecode_encode_cleanup(d2, ed, ep);
                    } else oracle_fail("C07", "encode failed (%d) on an instance created with w=%d", rc, a.w);
                    liberasurecode_instance_destroy(d2);
                    stat_add("wire.w_variation", 1);
                } else stat_add("wire.w_refused", 1);
            }
            stripe_free(&s);
            char key[64]; snprintf(key, sizeof key, "wire.be%d", c.be); stat_add(key, 1);
            stat_add(len == 0 ? "wire.len0" : (len % ((size_t)c.k * cfg_wbytes(c)) == 0 ? "wire.len_aligned" : "wire.len_unaligned"), 1);
        }
        free(d);
    }
    /* the same queries on the same descriptor before and after destroy: a destroyed descriptor is unknown */
    for (int t = 0; t < (tier ? 40 : 12); t++) {
        cfg_t c = cfg_random(1);
        struct ec_args a; memset(&a, 0, sizeof a); a.k = c.k; a.m = c.m; a.hd = c.hd; a.ct = CHKSUM_NONE;
        int d = liberasurecode_instance_create((ec_backend_id_t)c.be, &a);
        if (d <= 0) continue;
        uint64_t lens[] = { 0, 1, 100, (uint64_t)c.k * 64, 65543, 1 << 20 };
        int before[6][3];
        for (int i = 0; i < 6; i++) { before[i][0] = liberasurecode_get_fragment_size(d, (int)lens[i]); before[i][1] = liberasurecode_get_aligned_data_size(d, lens[i]); before[i][2] = liberasurecode_get_minimum_encode_size(d); }
        int rep = (int)rnd(6);
        (void)liberasurecode_get_fragment_size(d, (int)lens[rep]); (void)liberasurecode_get_aligned_data_size(d, lens[rep]);   /* the last successful query */
        liberasurecode_instance_destroy(d);
        for (int i = 0; i < 6; i++) {
            int j = (rep + i) % 6;
            int f = liberasurecode_get_fragment_size(d, (int)lens[j]), al = liberasurecode_get_aligned_data_size(d, lens[j]), mn = liberasurecode_get_minimum_encode_size(d);
            if (f >= 0 || al >= 0 || mn >= 0) oracle_fail("C08", "size queries on destroyed descriptor %d (be=%d k=%d, len=%llu) return %d %d %d (before destroy %d %d %d)", d, c.be, c.k, (unsigned long long)lens[j], f, al, mn, before[j][0], before[j][1], before[j][2]);
        }
        stat_add("wire.queries_after_destroy", 1);
    }
    /* sizes: every accepted shape in thorough, a sample in quick */
    int shapes = 0;
    for (int be = 0; be < 3; be++) {
        for (int k = 1; k <= 31; k++) for (int m = 1; m + k <= 32; m++) {
            cfg_t c = { be == 0 ? 6 : (be == 1 ? 0 : 3), k, m, m, 1 };
            if (c.be == 3) continue;
            if (!tier && rnd(12) != 0) continue;
            if (cfg_desc(c) <= 0) continue;
            size_t unit = (size_t)k * cfg_wbytes(c);
            uint64_t lens[] = { 0, 1, unit - 1, unit, unit + 1, 2 * unit - 1, 2 * unit, 1 + rnd(1 << 20), (1 << 20) };
            for (unsigned i = 0; i < sizeof lens / sizeof lens[0]; i++) op_size(c, lens[i]);
            shapes++;
        }
    }
    for (int i = 0; i < n_xor_shapes; i++) {
        cfg_t c = { 3, xor_shapes[i][0], xor_shapes[i][1], xor_shapes[i][2], 1 };
        if (!tier && rnd(4) != 0) continue;
        size_t unit = (size_t)c.k * 4;
        uint64_t lens[] = { 0, 1, unit - 1, unit, unit + 1, 3 * unit + 2, 1 + rnd(1 << 20) };
        for (unsigned j = 0; j < sizeof lens / sizeof lens[0]; j++) op_size(c, lens[j]);
        shapes++;
    }
    stat_add("wire.size_shapes", shapes);
}

/* ======================================================================= hdr (C09) */
static void consume_all(stripe_t *s, int fi, unsigned char *mut, int with_decode, int dest) {
    /* the three consuming APIs + validation on a stripe whose fragment fi is replaced by mut */
    cfg_t c = s->c;
    op_hdrinv(mut, 1);
    op_meta(mut, s->flen, 1);
    op_fraginv(c, mut, s->flen, 1);
    if (with_decode) {
        char **fr = malloc(sizeof(char *) * s->n);
        for (int i = 0; i < s->n; i++) fr[i] = s->all[i];
        fr[fi] = (char *)mut;
        op_dec_g(c, 0, s->flen, s->n, fr);
        /* reconstruct: drop fragment `dest` from the set so that real work happens */
        int n = 0; char **fr2 = malloc(sizeof(char *) * s->n);
        for (int i = 0; i < s->n; i++) if (i != dest) fr2[n++] = fr[i];
        op_rec_g(c, 0, dest, s->flen, n, fr2);
        /* the destination already among the supplied fragments (the whole stripe handed in): the request
           for another fragment, and for the damaged one itself */
        op_rec_g(c, 0, dest, s->flen, s->n, fr);
        op_rec_g(c, 0, fi, s->flen, s->n, fr);
        free(fr); free(fr2);
    }
}

void suite_hdr(int tier) {
    int stripes = tier ? 24 : 5;
    for (int t = 0; t < stripes; t++) {
        cfg_t c = cfg_random_ec();
        if (c.k + c.m > 8 && c.be != 3) { c.k = 1 + rnd(4); c.m = 1 + rnd(3); c.hd = c.m; }
        size_t len = 1 + rnd(3 * c.k * cfg_wbytes(c));
        stripe_t s;
        if (stripe_make(&s, c, len, 0, rnd(3) == 0) != 0) continue;
        int fi = (int)rnd(s.n);
        int dest = (fi + 1) % s.n;
        unsigned char *orig = (unsigned char *)s.all[fi];
        unsigned char *mut = malloc(s.flen);
        /* baseline */
        memcpy(mut, orig, s.flen);
        consume_all(&s, fi, mut, 1, dest);
        /* every single-bit flip of the header */
        for (int bit = 0; bit < 640; bit++) {
            memcpy(mut, orig, s.flen);
            mut[bit / 8] ^= (unsigned char)(1u << (bit % 8));
            int wd = tier ? 1 : (rnd(10) == 0);
            if (!tier && (bit % 8) != (int)rnd(8) && !wd) { op_hdrinv(mut, 0); stat_add("hdr.bitflip_hdrinv", 1); continue; }
            consume_all(&s, fi, mut, wd, dest);
            stat_add("hdr.bitflip_full", 1);
        }
        /* every byte set to random values */
        for (int b = 0; b < HDR; b++) for (int r = 0; r < (tier ? 4 : 1); r++) {
            memcpy(mut, orig, s.flen);
            unsigned char v = (unsigned char)rnd(256);
            if (b >= 4 && b < 8) continue;          /* size field: see resealed edits below */
            mut[b] = v;
            consume_all(&s, fi, mut, rnd(6) == 0, dest);
            stat_add("hdr.byteset", 1);
        }
        /* version rewrites with and without re-sealing */
        uint32_t vers[] = { 0, 1, 0x010100, 0x0101ff, 0x010200, 0x010201, 0x010604, 0x010605, 0x020000, 0xffffffffu, 0x04060100u };
        for (unsigned v = 0; v < sizeof vers / sizeof vers[0]; v++) for (int seal = 0; seal < 2; seal++) for (int dmg = 0; dmg < 2; dmg++) {
            memcpy(mut, orig, s.flen);
            wr32(mut + 63, vers[v]);
            if (dmg) mut[rnd(4)] ^= 0x40;   /* damage the index field; size stays valid */
            if (seal) reseal(mut);
            consume_all(&s, fi, mut, 1, dest);
            stat_add("hdr.version_rewrite", 1);
        }
        /* magic rewrites */
        uint32_t magics[] = { 0x0b0c5ecc, 0xcc5e0c0b, 0, 0xffffffffu, 0x0b0c5ecd, 0x0c5ecc0b };
        for (unsigned v = 0; v < sizeof magics / sizeof magics[0]; v++) for (int seal = 0; seal < 2; seal++) {
            memcpy(mut, orig, s.flen);
            wr32(mut + 59, magics[v]);
            if (seal) reseal(mut);
            consume_all(&s, fi, mut, 1, dest);
            stat_add("hdr.magic_rewrite", 1);
        }
        /* a complete, self-consistent header in the opposite byte order (accepted by the header test and by the
           metadata query): decode and reconstruct take host order only — at every position of the set */
        for (int pos = 0; pos < s.n; pos++) {
            if (!tier && pos > 1 && pos != s.n - 1 && pos != c.k && rnd(3)) continue;
            unsigned char *tw = malloc(s.flen);
            memcpy(tw, s.all[pos], s.flen); make_twin(tw);
            consume_all(&s, pos, tw, 1, (pos + 1) % s.n);
            if (pos) consume_all(&s, pos, tw, 1, 0);
            free(tw);
            stat_add("hdr.foreign_order_in_set", 1);
        }
        /* stored metadata crc: alternative crc, swapped, off by one */
        {
            uint32_t alt = (uint32_t)liberasurecode_crc32_alt(0, orig, 59), std = (uint32_t)crc32(0, orig, 59);
            uint32_t cs[] = { alt, std, std + 1, __builtin_bswap32(std), 0 };
            for (unsigned v = 0; v < 5; v++) {
                memcpy(mut, orig, s.flen); wr32(mut + 67, cs[v]);
                consume_all(&s, fi, mut, 1, dest);
                stat_add("hdr.crc_rewrite", 1);
            }
        }
        /* re-sealed field edits (accepted headers with changed meaning) */
        for (int r = 0; r < (tier ? 40 : 12); r++) {
            memcpy(mut, orig, s.flen);
            switch (rnd(5)) {
            case 0: wr32(mut + 0, rnd(2) ? rnd(40) : (uint32_t)rnd64()); break;             /* idx */
            case 1: wr32(mut + 4, rnd((uint32_t)(s.flen - HDR) + 1)); break;                /* size <= actual */
            case 2: { static const uint64_t big[] = { 1ull << 31, (1ull << 31) + 5, 0xffffffffull, 1ull << 32, 1ull << 63, ~0ull, 0x7fffffffull };
                      uint64_t o = rnd(3) ? rnd(1 << 12) : big[rnd(7)]; memcpy(mut + 12, &o, 8); } break;   /* orig size (also values that are negative as int) */
            case 3: mut[20] = (unsigned char)rnd(5); break;                                 /* checksum type */
            default: mut[21 + rnd(32)] ^= (unsigned char)(1 + rnd(255)); break;             /* stored checksum */
            }
            reseal(mut);
            consume_all(&s, fi, mut, 1, dest);
            stat_add("hdr.resealed_edit", 1);
        }
        /* every value of the checksum-type byte, re-sealed: the header stays acceptable whatever the type says */
        for (int v = 0; v < 256; v += (tier ? 1 : 1 + (int)rnd(7))) {
            memcpy(mut, orig, s.flen); mut[20] = (unsigned char)v; reseal(mut);
            consume_all(&s, fi, mut, v < 8 || rnd(16) == 0, dest);
            stat_add("hdr.ctype_values", 1);
        }
        /* random multi-byte edits */
        for (int r = 0; r < (tier ? 60 : 10); r++) {
            memcpy(mut, orig, s.flen);
            int nb = 2 + (int)rnd(4);
            for (int j = 0; j < nb; j++) { int b = (int)rnd(HDR); if (b >= 4 && b < 8) b = 0; mut[b] = (unsigned char)rnd(256); }
            consume_all(&s, fi, mut, rnd(3) == 0, dest);
            stat_add("hdr.multibyte", 1);
        }
        free(mut);
        stripe_free(&s);
        stat_add("hdr.stripes", 1);
    }
}

/* ======================================================================= cksum (C10) */
static const char *ENVV[] = { NULL, "", "0", "1", "yes", "00", "false" };
static const int ENVSET[] = { 0, 0, 0, 1, 1, 1, 1 };

static void setenv_legacy(const char *v) {
    if (v) setenv("LIBERASURECODE_WRITE_LEGACY_CRC", v, 1); else unsetenv("LIBERASURECODE_WRITE_LEGACY_CRC");
}

void suite_cksum(int tier) {
    /* CRC models vs zlib and vs the library's alternative CRC */
    int nb = tier ? 4000 : 250;
    for (int i = 0; i < nb; i++) {
        size_t n = i < 70 ? (size_t)i : rnd(tier ? 4097 : 600);
        unsigned char *d = gen_data(n, (int)rnd(4));
        if (rnd(3) == 0) for (size_t j = 0; j < n; j++) d[j] |= 0x80;   /* negative chars */
        op_crc(d, n); free(d);
        stat_add("cksum.crc_buffers", 1);
    }
    /* direct oracle on large payloads (no model line): per-fragment payloads of exactly 64 KiB / 1 MiB (2 MiB, 4 MiB
       thorough) and one byte around them — writers store the CRC of the whole payload under either switch value, and a
       flipped bit anywhere (first, last, just before / after every 64 KiB and 1 MiB boundary) is reported */
    {
        size_t P[] = { 65536, 1048576, 1048577, 1048575, 2097152, 4194304, 262144 };
        for (int pi = 0; pi < (tier ? 7 : 4); pi++) for (int lg = 0; lg < 2; lg++) {
            cfg_t c = pi % 2 ? (cfg_t){ 3, 3, 3, 3, 2 } : (cfg_t){ 6, 2, 1, 1, 2 };
            size_t len = P[pi] * (size_t)c.k - (P[pi] % 4 ? 0 : 0);
            stripe_t s;
            if (stripe_make(&s, c, len, 0, lg) != 0) { oracle_fail("C10", "cannot encode %zu bytes", len); continue; }
            size_t bs = s.flen - HDR;
            for (int i = 0; i < s.n; i++) {
                unsigned char *f = (unsigned char *)s.all[i];
                uint32_t want = lg ? (uint32_t)liberasurecode_crc32_alt(0, f + HDR, (int)bs) : (uint32_t)crc32(0, f + HDR, (uInt)bs);
                if (rd32(f + 21) != want) oracle_fail("C10", "payload of %zu bytes: fragment %d stores checksum %08x, the %s CRC of its payload is %08x", bs, i, rd32(f + 21), lg ? "historical" : "standard", want);
                if (is_invalid_fragment(s.desc, (char *)f)) oracle_fail("C10", "payload of %zu bytes: fresh fragment %d reported invalid", bs, i);
            }
            unsigned char *mut = malloc(s.flen); int fi = (int)rnd(s.n);
            size_t pos[] = { 0, bs - 1, bs / 2, 65535, 65536, bs > 1048576 ? 1048575 : bs - 2, bs > 1048576 ? 1048576 : bs / 3, bs - 65536 < bs ? bs - 65536 : 0, bs - 1048576 < bs ? bs - 1048576 : 1 };
            for (unsigned q = 0; q < sizeof pos / sizeof pos[0]; q++) {
                if (pos[q] >= bs) continue;
                memcpy(mut, s.all[fi], s.flen); mut[HDR + pos[q]] ^= (unsigned char)(1u << (q % 8));
                fragment_metadata_t md; int rc = liberasurecode_get_fragment_metadata((char *)mut, &md);
                if (rc != 0 || !md.chksum_mismatch || !is_invalid_fragment(s.desc, (char *)mut))
                    oracle_fail("C10", "payload of %zu bytes: bit flipped at payload offset %zu of fragment %d not reported (rc %d, mismatch flag %d)", bs, pos[q], fi, rc, rc ? -1 : (int)md.chksum_mismatch);
                stat_add("cksum.large_payload_corruptions", 1);
            }
            free(mut);
            stat_add("cksum.large_payload_stripes", 1);
            stripe_free(&s);
        }
    }
    int stripes = tier ? 40 : 8;
    for (int t = 0; t < stripes; t++) {
        cfg_t c = cfg_random_ec();
        c.ct = (t % 5 == 4) ? 1 + (int)rnd(3) : 2;
        if (c.k + c.m > 10 && c.be != 3) { c.k = 1 + rnd(5); c.m = 1 + rnd(3); c.hd = c.m; }
        int ev = (int)rnd(7);
        size_t len = rnd(2) ? 1 + rnd(4 * c.k * cfg_wbytes(c)) : gen_len(c, 0);
        unsigned char *d = gen_data(len, (int)rnd(3));
        /* encode under the real environment value; the model is told what the property says it means */
        /* the switch is read when a fragment is written, not when the instance is created: every second case
           creates the instance while the switch means the opposite */
        if (t & 1) { setenv_legacy(ENVSET[ev] ? (rnd(2) ? NULL : "0") : "1"); cfg_desc(c); stat_add("cksum.created_under_opposite_switch", 1); }
        setenv_legacy(ENVV[ev]);
        int desc = cfg_desc(c);
        char **ed = NULL, **ep = NULL; uint64_t flen = 0;
        op_begin("enc %d %d %d %d %d %d", c.be, c.k, c.m, c.hd, c.ct, ENVSET[ev]); op_hex(d, len); op_sep();
        int rc = liberasurecode_encode(desc, (char *)d, len, &ed, &ep, &flen);
        if (rc != 0) { res_end("err %d", rc); setenv_legacy(NULL); free(d); continue; }
        res_hex_begin("ok %llu", (unsigned long long)flen);
        for (int i = 0; i < c.k; i++) { fputc(' ', stdout); put_hex((unsigned char *)ed[i], flen); }
        for (int i = 0; i < c.m; i++) { fputc(' ', stdout); put_hex((unsigned char *)ep[i], flen); }
        res_nl();
        char key[64]; snprintf(key, sizeof key, "cksum.env_%s", ENVV[ev] ? (ENVV[ev][0] ? ENVV[ev] : "empty") : "unset"); stat_add(key, 1);
        int n = c.k + c.m;
        char **all = malloc(sizeof(char *) * n);
        for (int i = 0; i < c.k; i++) all[i] = ed[i];
        for (int i = 0; i < c.m; i++) all[c.k + i] = ep[i];
        uint64_t bs = flen - HDR;
        /* writer oracle */
        if (c.ct == 2) for (int i = 0; i < n; i++) {
            unsigned char *f = (unsigned char *)all[i];
            uint32_t want = ENVSET[ev] ? (uint32_t)liberasurecode_crc32_alt(0, f + HDR, bs) : (uint32_t)crc32(0, f + HDR, (uInt)bs);
            if (rd32(f + 21) != want) oracle_fail("C10", "fragment %d stored checksum %08x, expected %08x (env case %d)", i, rd32(f + 21), want, ev);
        }
        /* reconstruct under the same environment: checksum of the rebuilt fragment */
        {
            int dest = (int)rnd(n); int cnt = 0; char **fr = malloc(sizeof(char *) * n);
            for (int i = 0; i < n; i++) if (i != dest) fr[cnt++] = all[i];
            if (cfg_tolerance(c) >= 1) {
                op_begin("rec %d %d %d %d %d %d %d %llu %d", c.be, c.k, c.m, c.hd, c.ct, ENVSET[ev], dest, (unsigned long long)flen, cnt);
                for (int i = 0; i < cnt; i++) op_hex(fr[i], flen);
                op_sep();
                char *of = malloc(flen);
                int r2 = liberasurecode_reconstruct_fragment(desc, fr, cnt, flen, dest, of);
                if (r2) res_end("err %d", r2);
                else {
                    res_hex_begin("ok "); put_hex((unsigned char *)of, flen); res_nl();
                    if (memcmp(of, all[dest], flen)) oracle_fail("C10", "reconstructed fragment %d differs from the encoded one (env case %d)", dest, ev);
                }
                free(of);
            }
            free(fr);
        }
        setenv_legacy(NULL);
        /* readers run without the switch: every fresh fragment is intact */
        for (int i = 0; i < n; i++) {
            if (rnd(3) == 0 || tier) { op_meta((unsigned char *)all[i], flen, 0); op_fraginv(c, (unsigned char *)all[i], flen, 0); }
            if (is_invalid_fragment(desc, all[i])) oracle_fail("C10", "fresh fragment %d reported invalid (env case %d)", i, ev);
        }
        /* payload corruption */
        int fi = (int)rnd(n);
        unsigned char *mut = malloc(flen);
        uint64_t nbits = bs * 8;
        uint64_t trials = nbits <= 512 ? nbits : (tier ? 256 : 48);
        for (uint64_t r = 0; r < trials && nbits; r++) {
            memcpy(mut, all[fi], flen);
            uint64_t bit = nbits <= 512 ? r : rnd64() % nbits;
            mut[HDR + bit / 8] ^= (unsigned char)(1u << (bit % 8));
            if (nbits > 512 && rnd(3) == 0) { /* burst */
                uint64_t st = rnd64() % bs, ln = 1 + rnd(8);
                for (uint64_t j = st; j < bs && j < st + ln; j++) mut[HDR + j] = (unsigned char)rnd(256);
            }
            op_meta(mut, flen, 0);
            int inv = op_fraginv(c, mut, flen, 0);
            if (c.ct == 2) {
                uint32_t st = rd32(mut + 21);
                int really = st != (uint32_t)crc32(0, mut + HDR, (uInt)bs) && st != (uint32_t)liberasurecode_crc32_alt(0, mut + HDR, bs);
                if (really && !inv) oracle_fail("C10", "corrupted payload (bit %llu) of fragment %d not rejected", (unsigned long long)bit, fi);
            }
            stat_add("cksum.payload_corruptions", 1);
        }
        /* the same buffer validated intact, corrupted in place, validated again (and the other way round) */
        if (c.ct == 2 && nbits) for (int r = 0; r < 6; r++) {
            int fj = (int)rnd(n);
            memcpy(mut, all[fj], flen);
            int v0 = is_invalid_fragment(desc, (char *)mut);
            uint64_t bit = rnd64() % nbits;
            mut[HDR + bit / 8] ^= (unsigned char)(1u << (bit % 8));
            int v1 = is_invalid_fragment(desc, (char *)mut);
            fragment_metadata_t md; int rmd = liberasurecode_get_fragment_metadata((char *)mut, &md);
            mut[HDR + bit / 8] ^= (unsigned char)(1u << (bit % 8));
            int v2 = is_invalid_fragment(desc, (char *)mut);
            if (v0 || !v1 || v2 || rmd != 0 || !md.chksum_mismatch)
                oracle_fail("C10", "fragment %d validated in place: intact %d, payload bit %llu flipped %d (metadata mismatch flag %d), restored %d — expected 0,1(1),0", fj, v0, (unsigned long long)bit, v1, rmd ? -1 : (int)md.chksum_mismatch, v2);
            /* and inside a forced decode that uses this very buffer */
            if (cfg_tolerance(c) >= 1 && n <= 40) {
                char *fr[40]; for (int q = 0; q < n; q++) fr[q] = q == fj ? (char *)mut : all[q];
                char *od = NULL; uint64_t ol = 0;
                if (liberasurecode_decode(desc, fr, n, flen, 1, &od, &ol) == 0) liberasurecode_decode_cleanup(desc, od);
                mut[HDR + bit / 8] ^= (unsigned char)(1u << (bit % 8));
                od = NULL; int rc = liberasurecode_decode(desc, fr, n, flen, 1, &od, &ol);
                if (rc == 0) { if (ol != len || memcmp(od, d, ol)) oracle_fail("C10", "forced decode used fragment %d corrupted in place after an earlier validation of the same buffer", fj); liberasurecode_decode_cleanup(desc, od); }
                else oracle_fail("C10", "forced decode failed (%d) with one fragment corrupted in place", rc);
            }
            stat_add("cksum.inplace_sequences", 1);
        }
        /* stored checksum edited and re-sealed */
        for (int r = 0; r < 10; r++) {
            memcpy(mut, all[fi], flen);
            if (r < 4) mut[21 + rnd(4)] ^= (unsigned char)(1 + rnd(255));
            else {
                /* special stored values (0 is a legitimate CRC value, not "unset"), with the payload intact or damaged */
                uint32_t sv[] = { 0, 0, 0xffffffffu, 0xffffffffu, 1, __builtin_bswap32(rd32(mut + 21)) };
                wr32(mut + 21, sv[r - 4]);
                if (r & 1) { uint64_t bit = rnd64() % (nbits ? nbits : 1); if (nbits) mut[HDR + bit / 8] ^= (unsigned char)(1u << (bit % 8)); }
            }
            reseal(mut);
            op_meta(mut, flen, 0); op_fraginv(c, mut, flen, 0);
            stat_add("cksum.stored_edits", 1);
        }
        free(mut); free(all); free(d);
        liberasurecode_encode_cleanup(desc, ed, ep);
    }
}

/* ======================================================================= endian (C11) */
void make_twin(unsigned char *f) {
    rev(f + 0, 4); rev(f + 4, 4); rev(f + 8, 4); rev(f + 12, 8);
    for (int i = 0; i < 8; i++) rev(f + 21 + 4 * i, 4);
    rev(f + 55, 4); rev(f + 59, 4); rev(f + 63, 4);
    /* the foreign writer checksums its own metadata bytes and stores the result in its order */
    uint32_t c = (uint32_t)crc32(0, f, 59);
    wr32(f + 67, __builtin_bswap32(c));
}

static void compare_md(unsigned char *nat, unsigned char *twin, const char *what) {
    fragment_metadata_t a, b;
    int ra = liberasurecode_get_fragment_metadata((char *)nat, &a);
    int rb = liberasurecode_get_fragment_metadata((char *)twin, &b);
    if (ra != rb) { oracle_fail("C11", "%s: verdict native %d, opposite-endian %d", what, ra, rb); return; }
    if (ra) return;
    if (a.idx != b.idx) oracle_fail("C11", "%s: idx %u vs %u", what, a.idx, b.idx);
    if (a.size != b.size) oracle_fail("C11", "%s: size %u vs %u", what, a.size, b.size);
    if (a.frag_backend_metadata_size != b.frag_backend_metadata_size) oracle_fail("C11", "%s: backend metadata size differs", what);
    if (a.orig_data_size != b.orig_data_size) oracle_fail("C11", "%s: orig_data_size differs", what);
    if (a.chksum_type != b.chksum_type) oracle_fail("C11", "%s: chksum_type %u vs %u", what, a.chksum_type, b.chksum_type);
    if (memcmp(a.chksum, b.chksum, sizeof a.chksum)) oracle_fail("C11", "%s: checksum words differ", what);
    if (a.chksum_mismatch != b.chksum_mismatch) oracle_fail("C11", "%s: chksum_mismatch %u vs %u", what, a.chksum_mismatch, b.chksum_mismatch);
    if (a.backend_id != b.backend_id) oracle_fail("C11", "%s: backend id differs", what);
    if (a.backend_version != b.backend_version) oracle_fail("C11", "%s: backend version differs", what);
}

void suite_endian(int tier) {
    int stripes = tier ? 60 : 10;
    for (int t = 0; t < stripes; t++) {
        cfg_t c = cfg_random_ec();
        /* checksum type x writer's CRC flavour, cycled so that every combination occurs at every seed */
        static const int CT[] = { 2, 2, 1, 3, 2, 2 }; static const int LG[] = { 0, 1, 0, 0, 1, 0 };
        c.ct = CT[t % 6];
        if (c.k + c.m > 10 && c.be != 3) { c.k = 1 + rnd(5); c.m = 1 + rnd(3); c.hd = c.m; }
        stripe_t s;
        /* payload sizes whose bytes have the top bit set in the low, the second or both positions: a byte-swapped
           field read raw (before the byte order is known) then looks negative / enormous */
        size_t elen = 1 + rnd(200);
        if (t % 4 == 1) elen = (size_t)c.k * (128 + rnd(120));
        else if (t % 4 == 3) elen = (size_t)c.k * ((rnd(2) ? 0x8000 : 0x8080) + rnd(0x70));
        if (stripe_make(&s, c, elen, 0, LG[t % 6]) != 0) continue;
        { char key[48]; snprintf(key, sizeof key, "endian.payload_size_hibits_%d%d", (int)(((s.flen - HDR) >> 7) & 1), (int)(((s.flen - HDR) >> 15) & 1)); stat_add(key, 1); }
        stat_add(LG[t % 6] ? "endian.legacy_writer" : "endian.zlib_writer", 1);
        unsigned char *nat = malloc(s.flen), *twin = malloc(s.flen);
        for (int i = 0; i < s.n; i++) {
            if (!tier && s.n > 6 && rnd(3) != 0) continue;
            memcpy(nat, s.all[i], s.flen); memcpy(twin, nat, s.flen); make_twin(twin);
            op_hdrinv(twin, 0); op_meta(nat, s.flen, 0); op_meta(twin, s.flen, 0);
            compare_md(nat, twin, "intact fragment");
            /* the query is a pure reader of both renderings */
            if (i < 2 || rnd(3) == 0) { op_meta(twin, s.flen, 2); op_meta(nat, s.flen, 2); stat_add("endian.readonly_queries", 2); }
            /* payload corruption must be seen through both */
            if (s.flen > HDR) {
                uint64_t bit = rnd64() % ((s.flen - HDR) * 8);
                nat[HDR + bit / 8] ^= (unsigned char)(1u << (bit % 8));
                twin[HDR + bit / 8] ^= (unsigned char)(1u << (bit % 8));
                op_meta(nat, s.flen, 0); op_meta(twin, s.flen, 0);
                compare_md(nat, twin, "payload-corrupted fragment");
            }
            /* decode / reconstruct / validation accept only host order */
            op_fraginv(c, twin, s.flen, 0);
            stat_add("endian.twins", 1);
        }
        /* headers with every field pushed to values that exercise all bytes of the swaps (re-sealed):
           the two renderings must still agree field by field */
        for (int r = 0; r < (tier ? 40 : 16); r++) {
            memcpy(nat, s.all[rnd(s.n)], s.flen);
            uint64_t big[] = { 1ull << 24, (1ull << 24) + 17, 0xffffffffull, 1ull << 32, (1ull << 32) + 4096, 0x0123456789abcdefull, 0xfedcba9876543210ull, 1ull << 63, (1ull << 40) + 5, 0x00ff00ff00ff00ffull };
            uint64_t o = r < 10 ? big[r] : (rnd64() >> rnd(64));
            memcpy(nat + 12, &o, 8);                                           /* orig_data_size */
            wr32(nat + 0, r % 3 == 0 ? (uint32_t)rnd64() : rnd(40));           /* idx */
            if (r % 2) wr32(nat + 55, (uint32_t)rnd64());                      /* backend version */
            if (r % 4 == 1) nat[54] = (unsigned char)rnd(256);                 /* backend id */
            if (c.ct != 2) for (int w = 0; w < 8; w++) wr32(nat + 21 + 4 * w, (uint32_t)rnd64());   /* checksum words */
            if (r % 5 == 2) wr32(nat + 8, (uint32_t)rnd64());                  /* backend metadata size */
            if (c.ct != 2 && r % 2 == 0) wr32(nat + 4, (uint32_t)(rnd64() >> rnd(32)));  /* payload size (not used to read the payload without a CRC) */
            reseal(nat);
            memcpy(twin, nat, s.flen); make_twin(twin);
            op_meta(nat, s.flen, 0); op_meta(twin, s.flen, 0);
            compare_md(nat, twin, "fragment with extreme header fields");
            stat_add("endian.extreme_fields", 1);
        }
        /* a twin inside a decode set */
        {
            char **fr = malloc(sizeof(char *) * s.n);
            for (int i = 0; i < s.n; i++) fr[i] = s.all[i];
            int fi = (int)rnd(s.n);
            memcpy(twin, s.all[fi], s.flen); make_twin(twin); fr[fi] = (char *)twin;
            op_dec_g(c, 0, s.flen, s.n, fr);
            free(fr);
        }
        free(nat); free(twin);
        stripe_free(&s);
    }
}

/* ======================================================================= valid (C12) */
void suite_valid(int tier) {
    int ninst = tier ? 14 : 6;
    cfg_t inst[16]; stripe_t st[16];
    int n = 0;
    for (int i = 0; i < ninst; i++) {
        cfg_t c = i == 0 ? (cfg_t){0, 3, 2, 2, 1} : cfg_random_ec();
        c.ct = 1 + (int)rnd(2);
        if (c.k + c.m > 9 && c.be != 3) { c.k = 1 + rnd(5); c.m = 1 + rnd(3); c.hd = c.m; }
        if (stripe_make(&st[n], c, 1 + rnd(100), 0, 0) == 0) inst[n++] = c;
    }
    /* cross-instance matrix */
    for (int i = 0; i < n; i++) for (int j = 0; j < n; j++) {
        for (int f = 0; f < st[j].n; f++) {
            if (!tier && i != j && rnd(3) != 0) continue;
            int inv = op_fraginv(inst[i], (unsigned char *)st[j].all[f], st[j].flen, 0);
            if (i == j && inv) oracle_fail("C12", "instance rejects its own fresh fragment %d", f);
            stat_add(i == j ? "valid.own" : "valid.cross", 1);
        }
        /* stripe verification: the instance's own stripe passes, a foreign one is judged by the same rules */
        int rc = op_stripe(inst[i], st[j].n, st[j].all, st[j].flen);
        if (i == j && rc != 0) oracle_fail("C12", "verify_stripe_metadata rejects the instance's own stripe: %d", rc);
    }
    /* a well-formed fragment in the opposite byte order is not valid for any instance: validation accepts
       host order only */
    for (int i = 0; i < n; i++) {
        stripe_t *s = &st[i];
        unsigned char *twin = malloc(s->flen);
        for (int f = 0; f < s->n; f++) {
            memcpy(twin, s->all[f], s->flen); make_twin(twin);
            int inv = op_fraginv(inst[i], twin, s->flen, 0);
            if (!inv) oracle_fail("C12", "fragment %d in the opposite byte order validates as good: be=%d (%d,%d)", f, inst[i].be, inst[i].k, inst[i].m);
            if (f == 0 || f == s->n - 1) {
                char **fr = malloc(sizeof(char *) * s->n);
                for (int q = 0; q < s->n; q++) fr[q] = s->all[q];
                fr[f] = (char *)twin;
                /* stripe verification looks at the raw index / backend id / backend version fields only: the
                   verdict is whatever those tests say (compared with the model), not necessarily negative */
                op_stripe(inst[i], s->n, fr, s->flen);
                free(fr);
            }
            stat_add("valid.foreign_order", 1);
        }
        free(twin);
    }
    /* re-sealed single-field edits */
    for (int i = 0; i < n; i++) {
        cfg_t c = inst[i]; stripe_t *s = &st[i];
        int nn = c.k + c.m;
        unsigned char *mut = malloc(s->flen);
        uint32_t idxs[] = { 0xffffffffu, (uint32_t)(nn - 1), (uint32_t)nn, (uint32_t)(nn + 1), 0x80000000u, 0x7fffffffu, 0, 31, 32, 33 };
        for (unsigned v = 0; v < sizeof idxs / sizeof idxs[0]; v++) {
            memcpy(mut, s->all[rnd(s->n)], s->flen); wr32(mut, idxs[v]); reseal(mut);
            int inv = op_fraginv(c, mut, s->flen, 0);
            int want = !(idxs[v] < (uint32_t)nn);
            if (!!inv != want) oracle_fail("C12", "index %u against k+m=%d: is_invalid_fragment says %d", idxs[v], nn, inv);
            char *one[1] = { (char *)mut };
            int rc = op_stripe(c, 1, one, s->flen);
            if ((rc < 0) != want) oracle_fail("C12", "index %u against k+m=%d: verify_stripe_metadata says %d", idxs[v], nn, rc);
            stat_add("valid.idx_edits", 1);
        }
        for (int v = 0; v < (tier ? 256 : 24); v++) {
            memcpy(mut, s->all[rnd(s->n)], s->flen);
            mut[54] = (unsigned char)(tier ? v : rnd(256)); reseal(mut);
            op_fraginv(c, mut, s->flen, 0);
            stat_add("valid.beid_edits", 1);
        }
        int32_t dv[] = { -1, 1, 256, -65536, 65536 };
        for (unsigned v = 0; v < 5; v++) {
            memcpy(mut, s->all[rnd(s->n)], s->flen);
            wr32(mut + 55, rd32(mut + 55) + (uint32_t)dv[v]); reseal(mut);
            op_fraginv(c, mut, s->flen, 0);
            char *one[1] = { (char *)mut }; op_stripe(c, 1, one, s->flen);
            stat_add("valid.bever_edits", 1);
        }
        uint32_t lv[] = { 0x010605, 0x010604, 0x010603, 0x010200, 0x0101ff, 0x020000, 1 };
        for (unsigned v = 0; v < 7; v++) {
            memcpy(mut, s->all[rnd(s->n)], s->flen);
            wr32(mut + 63, lv[v]);
            op_fraginv(c, mut, s->flen, 0);
            stat_add("valid.libver_edits", 1);
        }
        /* writer versions around the first one that seals the metadata, with metadata damaged and NOT re-sealed:
           from 1.2.0 on the stale checksum makes the header unacceptable, before it nothing is checked */
        {
            uint32_t vs[] = { 0x010200, 0x0101ff, 0x010201, 0x010100, 0x010604, 1 };
            for (unsigned v = 0; v < 6; v++) for (int dmg = 0; dmg < 3; dmg++) {
                memcpy(mut, s->all[rnd(s->n)], s->flen);
                wr32(mut + 63, vs[v]);
                if (dmg == 0) wr32(mut, (rd32(mut) + 1) % (uint32_t)nn);          /* another in-range index */
                else if (dmg == 1) mut[12 + rnd(3)] ^= (unsigned char)(1u << rnd(8));   /* original size */
                else mut[8 + rnd(4)] ^= 0x10;                                       /* backend metadata size */
                op_hdrinv(mut, 0); op_meta(mut, s->flen, 0); op_fraginv(c, mut, s->flen, 0);
                stat_add("valid.version_unsealed_damage", 1);
            }
        }
        /* a set mismatch flag in the stored metadata */
        for (int ct = 0; ct < 4; ct++) {
            memcpy(mut, s->all[rnd(s->n)], s->flen);
            mut[53] = 1; mut[20] = (unsigned char)ct; reseal(mut);
            op_fraginv(c, mut, s->flen, 0);
            char *one[1] = { (char *)mut }; op_stripe(c, 1, one, s->flen);
            /* stripe with the bad one in the middle */
            if (s->n >= 3) {
                char **fr = malloc(sizeof(char *) * s->n);
                for (int q = 0; q < s->n; q++) fr[q] = s->all[q];
                fr[1] = (char *)mut;
                op_stripe(c, s->n, fr, s->flen);
                free(fr);
            }
            stat_add("valid.mismatch_flag", 1);
        }
        free(mut);
    }
    for (int i = 0; i < n; i++) stripe_free(&st[i]);
}
