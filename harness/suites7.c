/*
 * suites7.c — mt: the direct oracles of the single-threaded suites, evaluated from several threads at
 * once.  The properties quantify over every execution of a call, whichever thread makes it and whatever
 * other threads are doing in the library at that moment (C15 says so explicitly, C18 is about nothing
 * else); state that a change introduces and that is shared between calls — a cache, a template, a
 * scratch buffer kept in the instance or in a static — only shows when two calls overlap.
 *
 * Every thread owns a stripe of its own (own data, own length) whose reference results were computed
 * sequentially beforehand; in lock-step rounds all threads then call size queries, encode, decode (plain
 * and forced), reconstruct, fragments_needed, the metadata query and validation, and compare with the
 * reference.  A difference is attributed to the property whose clause it contradicts (one !ORACLE line
 * per property), so that the check of that property reports it.  The model line is `conc mt ...`: the
 * model's answer for any interleaving is the sequential one (LecProps.C18.no_adjacent_conflict).
 */
#include "common.h"
#include "ops.h"
#include <pthread.h>
#include <stdarg.h>

#define MT_MAXT 16
#define MT_MAXP 200

enum { F_ENC_HDR = 1, F_ENC_CK = 2, F_ENC_DATA = 4, F_ENC_PAR = 8, F_DEC = 16, F_DECF = 32, F_REC = 64,
       F_NEED = 128, F_META = 256, F_VALID = 512, F_SIZE = 1024, F_RC = 2048, F_INPUT = 4096 };

typedef struct {
    cfg_t c; int desc; int own_desc;
    size_t len; unsigned char *data;
    char **ref; uint64_t flen;
    int fsz, asz, msz;
    uint64_t pats[MT_MAXP]; int np;
    int need_rc[MT_MAXP]; int need_ref[MT_MAXP][70];
    int rounds, tid;
    unsigned fails; int nfail; char first[200];
} mt_item;

static pthread_barrier_t mt_bar;

static void mt_note(mt_item *it, unsigned f, const char *fmt, ...) {
    it->fails |= f; it->nfail++;
    if (!it->first[0]) { va_list ap; va_start(ap, fmt); vsnprintf(it->first, sizeof it->first, fmt, ap); va_end(ap); }
}

static int mt_patterns(cfg_t c, uint64_t *out, int max) {
    int n = c.k + c.m, tol = cfg_tolerance(c), cnt = 0;
    if (tol > 3) tol = 3;
    /* data-only sets of the largest tolerated size first (for flat XOR all of them: the rarely used decoder
       paths are entered for a few of the sets only), then mixed ones */
    int cap = c.be == 3 ? max - 24 : 24;
    for (int e = tol; e >= 1 && cnt < cap; e--) {
        if (e > c.k) continue;
        uint64_t pat = (1ull << e) - 1;
        while (!(pat >> c.k) && cnt < cap) {
            out[cnt++] = pat;
            uint64_t cc = pat & -pat, rr = pat + cc; pat = (((rr ^ pat) >> 2) / cc) | rr;
        }
    }
    max = cnt + 24 < max ? cnt + 24 : max;
    while (cnt < max) {
        int e = 1 + (int)rnd(tol); uint64_t pat = 0; int have = 0;
        while (have < e) { int i = (int)rnd(n); if (!((pat >> i) & 1)) { pat |= 1ull << i; have++; } }
        out[cnt++] = pat;
    }
    return cnt;
}

static int mt_lists(uint64_t pat, int n, int *r) { int c = 0; for (int i = 0; i < n; i++) if ((pat >> i) & 1) r[c++] = i; r[c] = -1; return c; }

static int mt_prepare(mt_item *it) {
    cfg_t c = it->c; int n = c.k + c.m;
    it->data = gen_data(it->len, 0);
    char **ed = NULL, **ep = NULL;
    if (liberasurecode_encode(it->desc, (char *)it->data, it->len, &ed, &ep, &it->flen) != 0) return -1;
    it->ref = malloc(sizeof(char *) * n);
    for (int i = 0; i < n; i++) { it->ref[i] = malloc(it->flen); memcpy(it->ref[i], i < c.k ? ed[i] : ep[i - c.k], it->flen); }
    liberasurecode_encode_cleanup(it->desc, ed, ep);
    it->fsz = liberasurecode_get_fragment_size(it->desc, (int)it->len);
    it->asz = liberasurecode_get_aligned_data_size(it->desc, it->len);
    it->msz = liberasurecode_get_minimum_encode_size(it->desc);
    it->np = mt_patterns(c, it->pats, MT_MAXP);
    for (int p = 0; p < it->np; p++) {
        int r[70], x[1] = { -1 }; mt_lists(it->pats[p], n, r);
        memset(it->need_ref[p], 0xff, sizeof it->need_ref[p]);
        it->need_rc[p] = liberasurecode_fragments_needed(it->desc, r, x, it->need_ref[p]);
    }
    return 0;
}

static void mt_release(mt_item *it) {
    if (it->ref) { for (int i = 0; i < it->c.k + it->c.m; i++) free(it->ref[i]); free(it->ref); }
    free(it->data);
    if (it->own_desc && it->desc > 0) liberasurecode_instance_destroy(it->desc);
}

static void *mt_worker(void *va) {
    mt_item *it = va; cfg_t c = it->c; int n = c.k + c.m;
    for (int rd = 0; rd < it->rounds; rd++) {
        pthread_barrier_wait(&mt_bar);
        /* sizes: short calls, so many of them back to back */
        int sbad = 0;
        for (int q = 0; q < 600; q++)
            if (liberasurecode_get_fragment_size(it->desc, (int)it->len) != it->fsz ||
                liberasurecode_get_aligned_data_size(it->desc, it->len) != it->asz ||
                liberasurecode_get_minimum_encode_size(it->desc) != it->msz) sbad++;
        if (sbad)
            mt_note(it, F_SIZE, "size queries of (%d,%d,%d,%d) len %zu differ from the sequential answers %d/%d/%d", c.be, c.k, c.m, c.hd, it->len, it->fsz, it->asz, it->msz);
        /* encode */
        char **ed = NULL, **ep = NULL; uint64_t fl = 0;
        int rc = liberasurecode_encode(it->desc, (char *)it->data, it->len, &ed, &ep, &fl);
        if (rc != 0 || fl != it->flen) { mt_note(it, F_RC | F_ENC_HDR, "encode rc %d fragment_len %llu (sequential: 0, %llu)", rc, (unsigned long long)fl, (unsigned long long)it->flen); if (rc == 0) liberasurecode_encode_cleanup(it->desc, ed, ep); pthread_barrier_wait(&mt_bar); continue; }
        for (int i = 0; i < n; i++) {
            const unsigned char *f = (unsigned char *)(i < c.k ? ed[i] : ep[i - c.k]), *g = (unsigned char *)it->ref[i];
            if (!memcmp(f, g, fl)) continue;
            if (memcmp(f + HDR, g + HDR, fl - HDR)) mt_note(it, i < c.k ? F_ENC_DATA : F_ENC_PAR, "encode of (%d,%d,%d,%d) len %zu: payload of fragment %d differs from the sequential result", c.be, c.k, c.m, c.hd, it->len, i);
            if (memcmp(f + 21, g + 21, 32)) mt_note(it, F_ENC_CK, "encode of (%d,%d,%d,%d) len %zu: stored checksum of fragment %d differs from the sequential result", c.be, c.k, c.m, c.hd, it->len, i);
            if (memcmp(f, g, 21) || memcmp(f + 53, g + 53, HDR - 53)) mt_note(it, F_ENC_HDR, "encode of (%d,%d,%d,%d) len %zu: header of fragment %d differs from the sequential result", c.be, c.k, c.m, c.hd, it->len, i);
        }
        /* decode / reconstruct / needed on this round's pattern, from the fragments just produced */
        int p = rd % it->np; uint64_t pat = it->pats[p];      /* all threads of one shape are in the same decoder path */
        char *fr[80]; int cnt = 0;
        for (int i = 0; i < n; i++) if (!((pat >> i) & 1)) fr[cnt++] = i < c.k ? ed[i] : ep[i - c.k];
        if (rd & 1) for (int i = cnt - 1; i > 0; i--) { int j = (int)((rd * 7 + i * 13) % (i + 1)); char *t = fr[i]; fr[i] = fr[j]; fr[j] = t; }
        pthread_barrier_wait(&mt_bar);
        if (c.be != 0)      /* the null backend repairs nothing: sizes, encode and the readers only */
        {
        for (int force = 0; force < 2; force++) {
            char *od = NULL; uint64_t ol = 0;
            rc = liberasurecode_decode(it->desc, fr, cnt, fl, force, &od, &ol);
            if (rc != 0) mt_note(it, force ? F_DECF : F_DEC, "decode (force %d) of (%d,%d,%d,%d) without %llx failed with %d", force, c.be, c.k, c.m, c.hd, (unsigned long long)pat, rc);
            else {
                if (ol != it->len || memcmp(od, it->data, ol)) mt_note(it, force ? F_DECF : F_DEC, "decode (force %d) of (%d,%d,%d,%d) without %llx returned other bytes", force, c.be, c.k, c.m, c.hd, (unsigned long long)pat);
                liberasurecode_decode_cleanup(it->desc, od);
            }
        }
        for (int i = 0; i < n; i++) if ((pat >> i) & 1) {
            char *of = malloc(fl);
            rc = liberasurecode_reconstruct_fragment(it->desc, fr, cnt, fl, i, of);
            if (rc != 0 || memcmp(of, it->ref[i], fl)) mt_note(it, F_REC, "reconstruct of fragment %d of (%d,%d,%d,%d) without %llx: rc %d%s", i, c.be, c.k, c.m, c.hd, (unsigned long long)pat, rc, rc ? "" : ", bytes differ from the encoded fragment");
            free(of);
            if ((rd & 3) != 3) break;            /* usually the first lost one, every fourth round all */
        }
        {
            int r[70], x[1] = { -1 }, out[70]; mt_lists(pat, n, r); memset(out, 0xff, sizeof out);
            rc = liberasurecode_fragments_needed(it->desc, r, x, out);
            int same = rc == it->need_rc[p];
            if (same && rc == 0) for (int i = 0; i < 70; i++) { if (out[i] != it->need_ref[p][i]) same = 0; if (out[i] < 0 || it->need_ref[p][i] < 0) break; }
            if (!same) mt_note(it, F_NEED, "fragments_needed of (%d,%d,%d,%d) for %llx differs from the sequential answer", c.be, c.k, c.m, c.hd, (unsigned long long)pat);
        }
        }
        /* the fragments handed to decode / reconstruct are still what encode produced */
        for (int i = 0; i < n; i++) if (memcmp(i < c.k ? ed[i] : ep[i - c.k], it->ref[i], fl)) { mt_note(it, F_INPUT, "fragment %d of (%d,%d,%d,%d) was modified by decode / reconstruct (without %llx)", i, c.be, c.k, c.m, c.hd, (unsigned long long)pat); break; }
        /* readers */
        int qi = (rd * 5 + it->tid) % n; char *qf = qi < c.k ? ed[qi] : ep[qi - c.k];
        fragment_metadata_t md; memset(&md, 0, sizeof md);
        rc = liberasurecode_get_fragment_metadata(qf, &md);
        if (rc != 0 || (int)md.idx != qi || md.size != fl - HDR || md.orig_data_size != it->len || md.chksum_mismatch)
            mt_note(it, F_META, "metadata of fresh fragment %d: rc %d idx %u size %u orig %llu mismatch %u", qi, rc, md.idx, md.size, (unsigned long long)md.orig_data_size, md.chksum_mismatch);
        if (is_invalid_fragment(it->desc, qf)) mt_note(it, F_VALID, "fresh fragment %d reported invalid", qi);
        if (c.ct == 2 && fl > HDR) {
            unsigned char *mut = malloc(fl); memcpy(mut, qf, fl); mut[HDR + (rd % (fl - HDR))] ^= 0x40;
            if (!is_invalid_fragment(it->desc, (char *)mut)) mt_note(it, F_VALID, "fragment %d with a damaged payload reported valid", qi);
            free(mut);
        }
        if (liberasurecode_verify_stripe_metadata(it->desc, fr, cnt) != 0) mt_note(it, F_VALID, "stripe metadata of fresh fragments rejected");
        liberasurecode_encode_cleanup(it->desc, ed, ep);
    }
    return NULL;
}

static void mt_report(mt_item *its, int T, const char *what) {
    unsigned all = 0; int total = 0; const char *first = "";
    int xor_ = 0, rs = 0, isal = 0;
    for (int t = 0; t < T; t++) if (its[t].fails) {
        all |= its[t].fails; total += its[t].nfail; if (!first[0]) first = its[t].first;
        if (its[t].c.be == 3) xor_ = 1; else if (its[t].c.be == 6) rs = 1; else if (its[t].c.be == 4 || its[t].c.be == 7) isal = 1;
    }
    res_end(all ? "DIFFERENT" : "ok");
    if (!all) return;
    static const struct { const char *prop; unsigned mask; int be; } MAP[] = {
        { "C01", F_DEC | F_DECF, 0 }, { "C02", F_DEC | F_REC | F_INPUT, 0 }, { "C03", F_REC, 0 },
        { "C04", F_ENC_PAR | F_DEC | F_REC, 6 }, { "C05", F_ENC_PAR | F_DEC | F_REC, 3 }, { "C19", F_ENC_PAR | F_DEC | F_REC | F_NEED, 4 },
        { "C06", F_NEED, 0 }, { "C07", F_ENC_HDR | F_ENC_CK | F_ENC_DATA | F_ENC_PAR | F_RC, 0 }, { "C08", F_SIZE, 0 },
        { "C09", F_META, 0 }, { "C10", F_ENC_CK | F_META | F_VALID, 0 }, { "C12", F_VALID, 0 },
        { "C15", F_ENC_HDR | F_ENC_CK | F_ENC_DATA | F_ENC_PAR | F_INPUT, 0 }, { "C20", F_DECF, 0 },
        { "C18", ~0u, 0 },
    };
    for (unsigned i = 0; i < sizeof MAP / sizeof MAP[0]; i++) {
        if (!(all & MAP[i].mask)) continue;
        if (MAP[i].be == 6 && !rs) continue;
        if (MAP[i].be == 3 && !xor_) continue;
        if (MAP[i].be == 4 && !isal) continue;
        oracle_fail(MAP[i].prop, "%d results of calls made from %d threads at once (%s) differ from the sequential ones; first: %s", total, T, what, first);
    }
}

static const size_t MT_LENS[] = { 1000, 4099, 70001, 1, 262144, 517, 33333, 12 };

/* T threads on one shared descriptor, every thread with its own data and length */
static void mt_shared(cfg_t c, int T, int rounds) {
    static mt_item its[MT_MAXT]; memset(its, 0, sizeof its);
    int d = cfg_desc(c); int okp = d > 0;
    for (int t = 0; t < T && okp; t++) {
        its[t].c = c; its[t].desc = d; its[t].len = MT_LENS[(t + rnd(8)) % 8] + rnd(7); its[t].rounds = rounds; its[t].tid = t;
        if (c.be == 3) its[t].len = its[t].len % 5000;      /* many rounds: keep them short */
        if (mt_prepare(&its[t]) != 0) okp = 0;
    }
    if (okp && c.be == 3) for (int t = 0; t < T; t++) its[t].rounds = its[0].np;      /* one pass over every pattern */
    op_begin("conc mt shared %d %d %d %d %d", c.be, c.k, c.m, c.hd, T); op_sep();
    if (!okp) { res_end("ok"); oracle_fail("C18", "mt: sequential preparation failed for (%d,%d,%d,%d)", c.be, c.k, c.m, c.hd); }
    else {
        pthread_t th[MT_MAXT];
        pthread_barrier_init(&mt_bar, NULL, (unsigned)T);
        for (int t = 0; t < T; t++) pthread_create(&th[t], NULL, mt_worker, &its[t]);
        for (int t = 0; t < T; t++) pthread_join(th[t], NULL);
        pthread_barrier_destroy(&mt_bar);
        char what[80]; snprintf(what, sizeof what, "one shared descriptor of (%d,%d,%d,%d)", c.be, c.k, c.m, c.hd);
        mt_report(its, T, what);
    }
    for (int t = 0; t < T; t++) mt_release(&its[t]);
    stat_add("mt.shared_runs", 1); stat_add("mt.thread_rounds", (long)T * rounds);
}

/* T threads, every one with an instance of its own; shapes differ in backend, k and word size */
static void mt_mixed(const cfg_t *shapes, int ns, int T, int rounds, const char *tag) {
    static mt_item its[MT_MAXT]; memset(its, 0, sizeof its);
    int okp = 1;
    for (int t = 0; t < T && okp; t++) {
        cfg_t c = shapes[t % ns];
        struct ec_args a; memset(&a, 0, sizeof a); a.k = c.k; a.m = c.m; a.hd = c.hd; a.ct = (ec_checksum_type_t)c.ct;
        its[t].c = c; its[t].desc = liberasurecode_instance_create((ec_backend_id_t)c.be, &a); its[t].own_desc = 1;
        its[t].len = MT_LENS[(t + rnd(8)) % 8] + rnd(7); its[t].rounds = rounds; its[t].tid = t;
        if (its[t].desc <= 0 || mt_prepare(&its[t]) != 0) okp = 0;
    }
    op_begin("conc mt %s %d", tag, T); op_sep();
    if (!okp) { res_end("ok"); oracle_fail("C18", "mt: sequential preparation failed (%s)", tag); }
    else {
        pthread_t th[MT_MAXT];
        pthread_barrier_init(&mt_bar, NULL, (unsigned)T);
        for (int t = 0; t < T; t++) pthread_create(&th[t], NULL, mt_worker, &its[t]);
        for (int t = 0; t < T; t++) pthread_join(th[t], NULL);
        pthread_barrier_destroy(&mt_bar);
        mt_report(its, T, tag);
    }
    for (int t = 0; t < T; t++) mt_release(&its[t]);
    stat_add("mt.mixed_runs", 1); stat_add("mt.thread_rounds", (long)T * rounds);
}

void suite_mt(int tier) {
    cfg_t shared[] = { {6,4,2,2,2}, {3,10,5,4,2}, {6,10,4,4,2}, {3,6,6,4,2}, {3,10,5,3,2}, {6,3,3,3,1}, {3,12,6,4,2}, {0,4,2,2,2} };
    int ns = tier ? 8 : 5;
    for (int i = 0; i < ns; i++) mt_shared(shared[i], tier ? 8 : 4, tier ? 96 : 48);
    cfg_t mixed[] = { {6,4,2,2,2}, {6,10,4,4,2}, {3,10,5,3,2}, {6,7,3,3,2}, {3,6,6,4,2}, {6,16,4,4,2}, {0,5,3,3,2}, {6,2,5,5,2} };
    mt_mixed(mixed, 8, tier ? 16 : 8, tier ? 96 : 48, "mixed");
    cfg_t rsonly[] = { {6,4,2,2,2}, {6,5,3,3,2}, {6,10,4,4,2}, {6,3,2,2,2} };
    mt_mixed(rsonly, 4, tier ? 8 : 4, tier ? 96 : 32, "rs");
    cfg_t xoronly[] = { {3,10,5,4,2}, {3,10,5,4,2}, {3,6,6,4,2}, {3,6,6,4,2} };
    mt_mixed(xoronly, 4, 4, tier ? 96 : 24, "xor4");
    if (g_isal) {
        cfg_t is[] = { {4,4,2,2,2}, {7,6,3,3,2}, {4,10,4,4,2}, {7,5,4,4,2} };
        for (int i = 0; i < 2; i++) mt_shared(is[i], 4, tier ? 64 : 16);
        mt_mixed(is, 4, tier ? 8 : 4, tier ? 64 : 16, "isal");
    }
}
