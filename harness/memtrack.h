#ifndef VERIF_MEMTRACK_H
#define VERIF_MEMTRACK_H
void mt_on(void); void mt_off(void);
long mt_blocks(void); long mt_bytes(void); long mt_double_frees(void);
void mt_fail_after(int n);
int  mt_available(void);
#endif
