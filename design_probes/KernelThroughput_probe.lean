def f (n : Nat) : Nat := (List.range n).foldl (fun a i => ((a ^^^ (i * 7)) + 3) &&& 0xFFFFF) 0
def chk (n : Nat) : Bool := (List.range n).all (fun i => f 50 != i + 2000000)
theorem t1 : chk 20000 = true := by decide +kernel
