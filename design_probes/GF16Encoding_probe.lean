import Mathlib.RingTheory.AdjoinRoot
import Mathlib.Algebra.CharP.Two
import Mathlib.Data.ZMod.Basic
import Mathlib.RingTheory.Polynomial.Basic
import Mathlib.Algebra.Polynomial.Degree.Lemmas
open Polynomial

namespace GFProbe

def xtime (a : Nat) : Nat :=
  if a.testBit 15 then (a <<< 1) ^^^ 0x1100b else a <<< 1

def gmulLoop : Nat → Nat → Nat → Nat → Nat
  | 0, _, _, acc => acc
  | fuel+1, a, b, acc =>
    gmulLoop fuel (xtime a) (b >>> 1) (if b.testBit 0 then acc ^^^ a else acc)

def gmul (a b : Nat) : Nat := gmulLoop 16 a b 0

noncomputable def P : (ZMod 2)[X] := X^16 + X^12 + X^3 + X + 1

noncomputable def encP (w n : Nat) : (ZMod 2)[X] :=
  ∑ i ∈ Finset.range w, if n.testBit i then X^i else 0

theorem encP_xor (w a b : Nat) : encP w (a ^^^ b) = encP w a + encP w b := by
  unfold encP
  rw [← Finset.sum_add_distrib]
  apply Finset.sum_congr rfl
  intro i _
  rw [Nat.testBit_xor]
  cases a.testBit i <;> cases b.testBit i <;> simp
  exact (CharTwo.add_self_eq_zero _).symm

theorem encP_poly : encP 17 0x1100b = P := by
  simp [encP, Finset.sum_range_succ, P, Nat.testBit, Nat.shiftRight_eq_div_pow]
  ring

theorem encP_succ_of_lt {w a : Nat} (h : a < 2^w) : encP (w+1) a = encP w a := by
  unfold encP
  rw [Finset.sum_range_succ]
  have : a.testBit w = false := Nat.testBit_lt_two_pow h
  simp [this]

theorem encP_shift (w a : Nat) : encP (w+1) (a <<< 1) = X * encP w a := by
  unfold encP
  rw [Finset.sum_range_succ', Finset.mul_sum]
  simp [Nat.testBit_shiftLeft, pow_succ, mul_comm]

theorem encP_zero (w : Nat) : encP w 0 = 0 := by simp [encP]


abbrev R := AdjoinRoot P
noncomputable def enc (n : Nat) : R := AdjoinRoot.mk P (encP 16 n)

theorem xtime_lt {a : Nat} (h : a < 2^16) : xtime a < 2^16 := by
  unfold xtime
  split
  · rename_i hb
    apply Nat.lt_pow_two_of_testBit
    intro i hi
    rw [Nat.testBit_xor, Nat.testBit_shiftLeft]
    rcases Nat.lt_or_ge 16 i with h2 | h2
    · have : (0x1100b).testBit i = false := Nat.testBit_lt_two_pow (lt_of_lt_of_le (by norm_num) (Nat.pow_le_pow_right (by norm_num) (show 17 ≤ i by omega)))
      have h3 : a.testBit (i-1) = false := Nat.testBit_lt_two_pow (lt_of_lt_of_le h (Nat.pow_le_pow_right (by norm_num) (by omega)))
      simp [this, h3]
    · have : i = 16 := by omega
      subst this
      simp [hb]
      decide
  · rename_i hb
    apply Nat.lt_pow_two_of_testBit
    intro i hi
    rw [Nat.testBit_shiftLeft]
    rcases Nat.lt_or_ge 16 i with h2 | h2
    · have h3 : a.testBit (i-1) = false := Nat.testBit_lt_two_pow (lt_of_lt_of_le h (Nat.pow_le_pow_right (by norm_num) (by omega)))
      simp [h3]
    · have : i = 16 := by omega
      subst this
      simpa using hb

theorem enc_xtime {a : Nat} (h : a < 2^16) : enc (xtime a) = AdjoinRoot.root P * enc a := by
  have hx := xtime_lt h
  unfold enc
  rw [← encP_succ_of_lt hx]
  unfold xtime
  split
  · rw [encP_xor, encP_shift, encP_poly, map_add, AdjoinRoot.mk_self, add_zero, map_mul, AdjoinRoot.mk_X]
  · rw [encP_shift, map_mul, AdjoinRoot.mk_X]


theorem encP_succ' (w b : Nat) :
    encP (w+1) b = (if b.testBit 0 then (1 : (ZMod 2)[X]) else 0) + X * encP w (b >>> 1) := by
  unfold encP
  rw [Finset.sum_range_succ', Finset.mul_sum, add_comm]
  congr 1
  · apply Finset.sum_congr rfl
    intro i _
    rw [Nat.testBit_shiftRight, add_comm 1 i]
    split <;> simp [pow_succ, mul_comm]

theorem xor_lt16 {a b : Nat} (ha : a < 2^16) (hb : b < 2^16) : a ^^^ b < 2^16 :=
  Nat.xor_lt_two_pow ha hb

theorem gmulLoop_spec : ∀ (fuel a b acc : Nat), a < 2^16 → acc < 2^16 → b < 2^fuel →
    gmulLoop fuel a b acc < 2^16 ∧
    enc (gmulLoop fuel a b acc) = enc acc + enc a * AdjoinRoot.mk P (encP fuel b) := by
  intro fuel
  induction fuel with
  | zero =>
    intro a b acc ha hacc hb
    simp [gmulLoop, encP]
    simpa using hacc
  | succ n ih =>
    intro a b acc ha hacc hb
    unfold gmulLoop
    have hb' : b >>> 1 < 2^n := by
      rw [Nat.shiftRight_eq_div_pow]; omega
    have hacc' : (if b.testBit 0 then acc ^^^ a else acc) < 2^16 := by
      split
      · exact xor_lt16 hacc ha
      · exact hacc
    obtain ⟨h1, h2⟩ := ih (xtime a) (b >>> 1) _ (xtime_lt ha) hacc' hb'
    refine ⟨h1, ?_⟩
    rw [h2, enc_xtime ha, encP_succ', map_add, map_mul, AdjoinRoot.mk_X]
    split
    · simp only [enc, encP_xor, map_add, map_one]; ring
    · simp only [map_zero]; ring

theorem gmul_lt {a b : Nat} (ha : a < 2^16) (hb : b < 2^16) : gmul a b < 2^16 :=
  (gmulLoop_spec 16 a b 0 ha (by norm_num) hb).1

theorem enc_gmul {a b : Nat} (ha : a < 2^16) (hb : b < 2^16) : enc (gmul a b) = enc a * enc b := by
  have := (gmulLoop_spec 16 a b 0 ha (by norm_num) hb).2
  simpa [enc, encP_zero, gmul] using this


theorem encP_coeff (w n i : Nat) :
    (encP w n).coeff i = if i < w ∧ n.testBit i then 1 else 0 := by
  unfold encP
  rw [Polynomial.finsetSum_coeff]
  simp only [apply_ite (fun p : (ZMod 2)[X] => p.coeff i), coeff_X_pow, coeff_zero]
  by_cases h : i < w ∧ n.testBit i
  · rw [if_pos h, Finset.sum_eq_single i]
    · simp [h.2]
    · intro b _ hb; simp [Ne.symm hb]
    · intro hi; exact absurd (Finset.mem_range.mpr h.1) hi
  · rw [if_neg h]
    apply Finset.sum_eq_zero
    intro b hb
    by_cases hbi : i = b
    · subst hbi
      have : ¬ n.testBit i := fun ht => h ⟨Finset.mem_range.mp hb, ht⟩
      simp [this]
    · simp [hbi]

theorem degree_encP_lt (w n : Nat) : (encP w n).degree < w := by
  rw [Polynomial.degree_lt_iff_coeff_zero]
  intro m hm
  rw [encP_coeff]
  simp; omega

theorem P_monic : P.Monic := by
  unfold P; monicity!

theorem P_degree : P.degree = 16 := by
  unfold P; compute_degree!

theorem enc_eq_zero {c : Nat} (hc : c < 2^16) (h : enc c = 0) : c = 0 := by
  unfold enc at h
  rw [AdjoinRoot.mk_eq_zero] at h
  have h0 : encP 16 c = 0 := by
    by_contra hne
    refine P_monic.not_dvd_of_degree_lt hne ?_ h
    rw [P_degree]
    exact_mod_cast degree_encP_lt 16 c
  apply Nat.eq_of_testBit_eq
  intro i
  rw [Nat.zero_testBit]
  by_cases hi : i < 16
  · have := congrArg (fun p => p.coeff i) h0
    simp only [encP_coeff, coeff_zero] at this
    by_contra hne
    simp [hi] at this
    exact hne (by simpa using this)
  · exact Nat.testBit_lt_two_pow (lt_of_lt_of_le hc (Nat.pow_le_pow_right (by norm_num) (by omega)))

theorem enc_inj {a b : Nat} (ha : a < 2^16) (hb : b < 2^16) (h : enc a = enc b) : a = b := by
  have : enc (a ^^^ b) = 0 := by
    unfold enc at *
    rw [encP_xor, map_add, h, ← map_add, CharTwo.add_self_eq_zero, map_zero]
  have h0 := enc_eq_zero (xor_lt16 ha hb) this
  have h1 : b = (a ^^^ b) ^^^ a := by
    rw [Nat.xor_comm a b, Nat.xor_assoc, Nat.xor_self, Nat.xor_zero]
  rw [h1, h0, Nat.zero_xor]

end GFProbe
