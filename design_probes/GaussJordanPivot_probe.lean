import Mathlib.LinearAlgebra.Matrix.NonsingularInverse
import Mathlib.LinearAlgebra.Matrix.Nondegenerate
open Matrix

theorem pivot_exists {F : Type*} [Field F] {n : ℕ} (M : Matrix (Fin n) (Fin n) F)
    (hdet : M.det ≠ 0) (t : Fin n)
    (hcols : ∀ c : Fin n, c < t → ∀ r, M r c = if r = c then 1 else 0) :
    ∃ r : Fin n, t ≤ r ∧ M r t ≠ 0 := by
  by_contra hcon
  push Not at hcon
  let v : Fin n → F := fun c => if c = t then 1 else if c < t then - M c t else 0
  have hv : M *ᵥ v = 0 := by
    funext r
    simp only [mulVec, dotProduct, Pi.zero_apply]
    have hsplit : ∀ c, M r c * v c =
        (if c = t then M r t else 0) + (if c < t then - (M r c * M c t) else 0) := by
      intro c
      simp only [v]
      by_cases h1 : c = t
      · subst h1; simp
      · by_cases h2 : c < t
        · simp [h1, h2]
        · simp [h1, h2]
    simp_rw [hsplit, Finset.sum_add_distrib]
    rw [Finset.sum_ite_eq' Finset.univ t (fun _ => M r t)]
    simp only [Finset.mem_univ, if_true]
    have hsum : (∑ c, if c < t then -(M r c * M c t) else 0) = if r < t then - M r t else 0 := by
      have : ∀ c, (if c < t then -(M r c * M c t) else 0) = if c = r then (if r < t then - M r t else 0) else 0 := by
        intro c
        by_cases h2 : c < t
        · rw [if_pos h2, hcols c h2 r]
          by_cases h3 : r = c
          · subst h3; simp [h2]
          · have : ¬ c = r := fun h => h3 h.symm
            simp [h3, this]
        · rw [if_neg h2]
          by_cases h3 : c = r
          · subst h3; simp [h2]
          · simp [h3]
      simp_rw [this]
      rw [Finset.sum_ite_eq' Finset.univ r]
      simp
    rw [hsum]
    by_cases h : r < t
    · simp [h]
    · simp [h, hcon r (not_lt.mp h)]
  have hv0 : v = 0 := Matrix.eq_zero_of_mulVec_eq_zero hdet hv
  have : v t = 1 := by simp [v]
  rw [hv0] at this
  simp at this
