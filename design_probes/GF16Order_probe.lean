import gf3
import Mathlib.GroupTheory.OrderOfElement
import Mathlib.Algebra.Field.Defs
import Mathlib.Data.Fintype.Card
import Mathlib.Algebra.GroupWithZero.Units.Fintype
import Mathlib.Tactic.NormNum.Prime
open GFProbe

namespace GF16

def g : GF16 := ⟨2, by norm_num⟩

theorem pow_eq_bin (x : GF16) (n : ℕ) : x ^ n = npowBinRec n x := by
  have h : @npowRecAuto GF16 _ _ n x = @npowBinRecAuto GF16 _ _ n x := by
    rw [npowRec_eq_npowBinRec]
  exact h

theorem g_pow : g ^ 65535 = 1 := by rw [pow_eq_bin]; decide +kernel
theorem g_pow3 : g ^ (65535/3) ≠ 1 := by rw [pow_eq_bin]; decide +kernel
theorem g_pow5 : g ^ (65535/5) ≠ 1 := by rw [pow_eq_bin]; decide +kernel
theorem g_pow17 : g ^ (65535/17) ≠ 1 := by rw [pow_eq_bin]; decide +kernel
theorem g_pow257 : g ^ (65535/257) ≠ 1 := by rw [pow_eq_bin]; decide +kernel

theorem orderOf_g : orderOf g = 65535 := by
  apply orderOf_eq_of_pow_and_pow_div_prime (by norm_num) g_pow
  intro p hp hd
  have h65 : (65535 : ℕ) = 3 * 5 * 17 * 257 := by norm_num
  rw [h65] at hd
  have h3 : Nat.Prime 3 := by norm_num
  have h5 : Nat.Prime 5 := by norm_num
  have h17 : Nat.Prime 17 := by norm_num
  have h257 : Nat.Prime 257 := by norm_num
  rcases (Nat.Prime.dvd_mul hp).mp hd with hd | hd
  · rcases (Nat.Prime.dvd_mul hp).mp hd with hd | hd
    · rcases (Nat.Prime.dvd_mul hp).mp hd with hd | hd
      · rw [(Nat.prime_dvd_prime_iff_eq hp h3).mp hd]; exact g_pow3
      · rw [(Nat.prime_dvd_prime_iff_eq hp h5).mp hd]; exact g_pow5
    · rw [(Nat.prime_dvd_prime_iff_eq hp h17).mp hd]; exact g_pow17
  · rw [(Nat.prime_dvd_prime_iff_eq hp h257).mp hd]; exact g_pow257

end GF16
