import gf2
import Mathlib.GroupTheory.OrderOfElement
import Mathlib.Algebra.Field.Defs
import Mathlib.Data.Fintype.Card
import Mathlib.GroupTheory.SpecificGroups.Cyclic
open Polynomial GFProbe

structure GF16 where
  val : Nat
  lt : val < 2^16
deriving DecidableEq

namespace GF16

@[ext] theorem ext' {a b : GF16} (h : a.val = b.val) : a = b := by
  cases a; cases b; simp_all

instance : Add GF16 := ⟨fun a b => ⟨a.val ^^^ b.val, xor_lt16 a.lt b.lt⟩⟩
instance : Mul GF16 := ⟨fun a b => ⟨gmul a.val b.val, gmul_lt a.lt b.lt⟩⟩
instance : Zero GF16 := ⟨⟨0, by norm_num⟩⟩
instance : One GF16 := ⟨⟨1, by norm_num⟩⟩
instance : Neg GF16 := ⟨fun a => a⟩

noncomputable def toR (a : GF16) : R := enc a.val

theorem toR_inj : Function.Injective toR := fun a b h => ext' (enc_inj a.lt b.lt h)
@[simp] theorem toR_add (a b : GF16) : toR (a + b) = toR a + toR b := by
  show enc (a.val ^^^ b.val) = _
  unfold enc; rw [encP_xor, map_add]; rfl
@[simp] theorem toR_mul (a b : GF16) : toR (a * b) = toR a * toR b := enc_gmul a.lt b.lt
@[simp] theorem toR_zero : toR 0 = 0 := by show enc 0 = 0; simp [enc, encP_zero]
@[simp] theorem toR_one : toR 1 = 1 := by
  show enc 1 = 1
  simp [enc, encP, Finset.sum_range_succ, Nat.testBit, Nat.shiftRight_eq_div_pow]
@[simp] theorem toR_neg (a : GF16) : toR (-a) = - toR a := by
  show toR a = - toR a
  unfold toR enc
  rw [← map_neg, CharTwo.neg_eq]

instance : CommRing GF16 where
  add_assoc a b c := toR_inj (by simp [add_assoc])
  zero_add a := toR_inj (by simp)
  add_zero a := toR_inj (by simp)
  add_comm a b := toR_inj (by simp [add_comm])
  neg_add_cancel a := toR_inj (by simp)
  mul_assoc a b c := toR_inj (by simp [mul_assoc])
  one_mul a := toR_inj (by simp)
  mul_one a := toR_inj (by simp)
  mul_comm a b := toR_inj (by simp [mul_comm])
  left_distrib a b c := toR_inj (by simp [mul_add])
  right_distrib a b c := toR_inj (by simp [add_mul])
  zero_mul a := toR_inj (by simp)
  mul_zero a := toR_inj (by simp)
  nsmul := nsmulRec
  zsmul := zsmulRec

end GF16
