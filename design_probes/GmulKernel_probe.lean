def xtime (a : Nat) : Nat :=
  if a.testBit 15 then (a <<< 1) ^^^ 0x1100b else a <<< 1
def gmulLoop : Nat → Nat → Nat → Nat → Nat
  | 0, _, _, acc => acc
  | fuel+1, a, b, acc =>
    gmulLoop fuel (xtime a) (b >>> 1) (if b.testBit 0 then acc ^^^ a else acc)
def gmul (a b : Nat) : Nat := gmulLoop 16 a b 0
-- carry-less multiply then reduce, using only Nat ops: fewer steps
def clmulLoop : Nat → Nat → Nat → Nat → Nat
  | 0, _, _, acc => acc
  | f+1, a, b, acc => clmulLoop f (Nat.shiftLeft a 1) (Nat.shiftRight b 1) (if Nat.testBit b 0 then Nat.xor acc a else acc)
def redLoop : Nat → Nat → Nat
  | 0, x => x
  | f+1, x => redLoop f (if Nat.testBit x (f+16) then Nat.xor x (Nat.shiftLeft 0x1100b f) else x)
def gmul2 (a b : Nat) : Nat := redLoop 15 (clmulLoop 16 a b 0)
def chain (f : Nat → Nat → Nat) (n : Nat) : Nat := (List.range n).foldl (fun acc i => f acc (i+3)) 7
#eval chain gmul 2000
#eval chain gmul2 2000
theorem c1 : chain gmul 300 = chain gmul2 300 := by decide +kernel
