import gf4
import Mathlib.GroupTheory.OrderOfElement
import Mathlib.Algebra.Field.Defs
import Mathlib.Data.Fintype.Card
import Mathlib.Algebra.GroupWithZero.Units.Fintype
open GFProbe

namespace GF16

def equivFin : GF16 ≃ Fin (2^16) where
  toFun a := ⟨a.val, a.lt⟩
  invFun i := ⟨i.val, i.isLt⟩
  left_inv a := by cases a; rfl
  right_inv i := by cases i; rfl

instance : Fintype GF16 := Fintype.ofEquiv _ equivFin.symm
theorem card_eq : Fintype.card GF16 = 65536 := by
  rw [Fintype.card_congr equivFin]; simp

instance : Nontrivial GF16 := ⟨⟨0, 1, by decide⟩⟩

def gU : GF16ˣ := ⟨g, g^65534, by rw [← pow_succ']; exact g_pow, by rw [← pow_succ]; exact g_pow⟩

theorem orderOf_gU : orderOf gU = 65535 := by
  rw [← orderOf_units]; exact orderOf_g

theorem isUnit_of_ne_zero {a : GF16} (ha : a ≠ 0) : IsUnit a := by
  classical
  -- the map GF16ˣ → {a // a ≠ 0}
  let f : GF16ˣ → {a : GF16 // a ≠ 0} := fun u => ⟨u.val, u.ne_zero⟩
  have hf : Function.Injective f := fun u v h => Units.ext (by simpa [f] using congrArg Subtype.val h)
  have hc1 : 65535 ≤ Fintype.card GF16ˣ := by
    rw [← orderOf_gU]; exact orderOf_le_card_univ
  have hc2 : Fintype.card {a : GF16 // a ≠ 0} = 65535 := by
    rw [Fintype.card_subtype_compl, card_eq]; simp
  have hsurj : Function.Surjective f := by
    apply (Fintype.bijective_iff_injective_and_card f).mpr ⟨hf, ?_⟩ |>.2
    have := Fintype.card_le_of_injective f hf
    omega
  obtain ⟨u, hu⟩ := hsurj ⟨a, ha⟩
  exact ⟨u, by simpa [f] using congrArg Subtype.val hu⟩

theorem pow_card_sub_one {a : GF16} (ha : a ≠ 0) : a ^ 65535 = 1 := by
  classical
  obtain ⟨u, rfl⟩ := isUnit_of_ne_zero ha
  have hcard : Fintype.card GF16ˣ = 65535 := by
    have hc1 : 65535 ≤ Fintype.card GF16ˣ := by
      rw [← orderOf_gU]; exact orderOf_le_card_univ
    let f : GF16ˣ → {a : GF16 // a ≠ 0} := fun u => ⟨u.val, u.ne_zero⟩
    have hf : Function.Injective f := fun u v h => Units.ext (by simpa [f] using congrArg Subtype.val h)
    have hc2 : Fintype.card {a : GF16 // a ≠ 0} = 65535 := by
      rw [Fintype.card_subtype_compl, card_eq]; simp
    have := Fintype.card_le_of_injective f hf
    omega
  have := pow_card_eq_one (x := u)
  rw [hcard] at this
  simpa using congrArg Units.val this

def inv' (a : GF16) : GF16 := npowBinRec 65534 a
theorem inv'_eq (a : GF16) : inv' a = a ^ 65534 := (pow_eq_bin a 65534).symm
instance : Inv GF16 := ⟨inv'⟩

instance instFieldGF16 : Field GF16 where
  inv_zero := by show inv' 0 = 0; rw [inv'_eq]; exact zero_pow (by norm_num)
  mul_inv_cancel a ha := by
    show a * inv' a = 1
    rw [inv'_eq, ← pow_succ']; exact pow_card_sub_one ha
  exists_pair_ne := ⟨0, 1, by decide⟩
  nnqsmul := _
  qsmul := _

end GF16
#print axioms GF16.instFieldGF16
