namespace XorProbe

structure Table where
  k : Nat
  m : Nat
  hd : Nat
  pbm : List Nat
  dbm : List Nat
deriving Repr

inductive Pat | ge | d0p0 | d1p0 | d2p0 | d3p0 | d1p1 | d1p2 | d2p1 | d0p1 | d0p2 | d0p3
deriving DecidableEq, Repr

/-- mirrors get_failure_pattern, including the never-incremented counter -/
def failurePattern (t : Table) (missing : List Nat) : Pat :=
  let rec go (l : List Nat) (p : Pat) : Pat :=
    match l with
    | [] => p
    | x :: xs =>
      let isD := x < t.k
      let p' := match p with
        | .d0p0 => if isD then .d1p0 else .d0p1
        | .d1p0 => if isD then .d2p0 else .d1p1
        | .d2p0 => if isD then .d3p0 else .d2p1
        | .d3p0 => .ge
        | .d1p1 => if isD then .d2p1 else .d1p2
        | .d1p2 => .ge
        | .d2p1 => .ge
        | .d0p1 => if isD then .d1p1 else .d0p2
        | .d0p2 => if isD then .d1p2 else .d0p3
        | .d0p3 => .ge
        | .ge => .ge
      if p' == .ge then .ge else go xs p'
  go missing .d0p0

def bit (bm i : Nat) : Bool := bm.testBit i

def numMissingInParity (t : Table) (pj : Nat) (md : Option (List Nat)) : Nat :=
  match md with
  | none => 0
  | some l => (l.filter (fun d => bit (t.dbm.getD d 0) pj)).length

/-- relative index of connected parity -/
def connParity (t : Table) (di : Nat) (mp : Option (List Nat)) (md : Option (List Nat)) : Option Nat :=
  (List.range t.m).find? (fun i =>
    !(numMissingInParity t i md > 1) && bit (t.pbm.getD i 0) di &&
      (match mp with | none => true | some l => !(l.contains (t.k + i))))

inductive Op | copy (dst src : Nat) | xor (src dst : Nat)   -- buffer ids: data i = i, parity j = k+j, tmp = k+m
deriving Repr

def xorsFor (t : Table) (pbm di : Nat) : List Op :=
  ((List.range t.k).filter (fun i => i != di && bit pbm i)).map (fun i => Op.xor i di)

def planOne (t : Table) (md : List Nat) (mp : Option (List Nat)) : Except Int (List Op) :=
  match md with
  | [] => .error (-99)
  | di :: _ =>
    match connParity t di mp (some md) with
    | none => .error (-98)      -- C: parity[-1-k], undefined behaviour
    | some p => .ok (Op.copy di (t.k + p) :: xorsFor t (t.pbm.getD p 0) di)

def planTwo (t : Table) (md : List Nat) (mp : Option (List Nat)) : Except Int (List Op) :=
  match md with
  | d0 :: d1 :: _ =>
    match connParity t d0 mp (some md) with
    | some p => do
        let rest ← planOne t [d1] mp
        pure (Op.copy d0 (t.k + p) :: xorsFor t (t.pbm.getD p 0) d0 ++ rest)
    | none =>
      match connParity t d1 mp (some md) with
      | none => .error (-2)
      | some p => do
        let rest ← planOne t [d0] mp
        pure (Op.copy d1 (t.k + p) :: xorsFor t (t.pbm.getD p 0) d1 ++ rest)
  | _ => .error (-99)

def planThree (t : Table) (md : List Nat) (mp : Option (List Nat)) : Except Int (List Op) :=
  let tmp := t.k + t.m
  match md.findSome? (fun d => (connParity t d mp (some md)).map (fun p => (d, p))) with
  | some (di, p) => do
      let rest ← planTwo t (md.filter (· != di)) mp
      pure (Op.copy di (t.k + p) :: xorsFor t (t.pbm.getD p 0) di ++ rest)
  | none =>
    let c2 := (List.range t.m).find? (fun i => numMissingInParity t i (some md) == 2)
    let c3 := (List.range t.m).find? (fun i => numMissingInParity t i (some md) == 3)
    match c2, c3 with
    | some a, some b =>
      let bm := (t.pbm.getD a 0) ^^^ (t.pbm.getD b 0)
      match md.find? (fun d => bit bm d) with
      | none => .error (-2)
      | some di => do
        let rest ← planTwo t (md.filter (· != di)) mp
        pure (Op.copy tmp (t.k + a) :: Op.xor (t.k + b) tmp :: Op.copy di tmp :: xorsFor t bm di ++ rest)
    | _, _ => .error (-2)

def selEncode (t : Table) (mp : List Nat) : List Op :=
  (List.range t.k).flatMap (fun i => (mp.filter (fun p => bit (t.pbm.getD (p - t.k) 0) i)).map (fun p => Op.xor i p))

def planDecode (t : Table) (missing : List Nat) : Except Int (List Op) :=
  let md := missing.filter (· < t.k)
  let mp := missing.filter (· ≥ t.k)
  match failurePattern t missing with
  | .d0p0 => .ok []
  | .d1p0 => planOne t md none
  | .d2p0 => planTwo t md none
  | .d3p0 => planThree t md none
  | .d1p1 | .d1p2 => do let a ← planOne t md (some mp); pure (a ++ selEncode t mp)
  | .d2p1 => do let a ← planTwo t md (some mp); pure (a ++ selEncode t mp)
  | .d0p1 | .d0p2 | .d0p3 => .ok (selEncode t mp)
  | .ge => .ok []

def run (ops : List Op) (st : List Nat) : List Nat :=
  ops.foldl (fun s op => match op with
    | .copy d sr => s.set d (s.getD sr 0)
    | .xor sr d => s.set d (s.getD d 0 ^^^ s.getD sr 0)) st

def initSt (t : Table) (missing : List Nat) : List Nat :=
  ((List.range t.k).map (fun i => if missing.contains i then 0 else 2^i)) ++
  ((List.range t.m).map (fun j => if missing.contains (t.k + j) then 0 else t.pbm.getD j 0)) ++ [0]

def goal (t : Table) : List Nat :=
  ((List.range t.k).map (fun i => 2^i)) ++ t.pbm

def okFor (t : Table) (missing : List Nat) : Bool :=
  match planDecode t missing with
  | .ok ops => (run ops (initSt t missing)).take (t.k + t.m) == goal t
  | .error _ => false

/-- ascending sublists of [0,n) of length ≤ c -/
def subsetsUpTo : Nat → Nat → Nat → List (List Nat)
  | _, _, 0 => [[]]
  | lo, n, c+1 => [] :: (List.range (n - lo)).flatMap (fun d => (subsetsUpTo (lo + d + 1) n c).map (fun l => (lo + d) :: l))

def allOk (t : Table) : Bool := (subsetsUpTo 0 (t.k + t.m) (t.hd - 1)).all (okFor t)

def t20_6_4 : Table := ⟨20, 6, 4,
  [349511, 693624, 354936, 682379, 632469, 432806],
  [25, 41, 49, 14, 22, 38, 7, 56, 11, 52, 19, 44, 35, 28, 13, 50, 21, 42, 37, 26]⟩
def t10_5_3 : Table := ⟨10, 5, 3, [163, 300, 337, 582, 664], [5, 9, 10, 18, 20, 3, 12, 17, 6, 24]⟩

open XorProbe
def lane (s i : Nat) : Nat := Nat.land (Nat.shiftRight s (32*i)) 0xffffffff
def runP (ops : List Op) (st : Nat) : Nat :=
  ops.foldl (fun s op => match op with
    | .copy d sr => Nat.xor s (Nat.shiftLeft (Nat.xor (lane s d) (lane s sr)) (32*d))
    | .xor sr d => Nat.xor s (Nat.shiftLeft (lane s sr) (32*d))) st
def pack (l : List Nat) : Nat := l.foldr (fun x acc => Nat.lor x (Nat.shiftLeft acc 32)) 0
def okP (t : Table) (missing : List Nat) : Bool :=
  match planDecode t missing with
  | .ok ops => Nat.beq (Nat.land (runP ops (pack (initSt t missing))) (2^(32*(t.k+t.m)) - 1)) (pack (goal t))
  | .error _ => false
def chunkP (t : Table) (a : Nat) : Bool := ((subsetsUpTo (a+1) (t.k + t.m) (t.hd - 2)).map (fun l => a :: l)).all (okP t)
#eval chunkP t20_6_4 10
#eval (List.range 26).all (chunkP t20_6_4)
theorem q10 : chunkP t20_6_4 10 = true := by decide +kernel
