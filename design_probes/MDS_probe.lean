import Mathlib.LinearAlgebra.Lagrange
open Polynomial Finset

namespace MDSProbe
variable {F : Type*} [Field F] [DecidableEq F]

/-- closed-form generator entry: row r, column j, for n points `v`, first `k` are data. -/
noncomputable def gen (k : ℕ) (v : ℕ → F) (r j : ℕ) : F :=
  if r < k then (if r = j then 1 else 0)
  else eval (v r) (Lagrange.basis (range k) v j) / eval (v k) (Lagrange.basis (range k) v j)

/-- codeword symbol r for data vector d -/
noncomputable def sym (k : ℕ) (v : ℕ → F) (d : ℕ → F) (r : ℕ) : F :=
  ∑ j ∈ range k, gen k v r j * d j

theorem mds (k n : ℕ) (hk : 0 < k) (hkn : k < n) (v : ℕ → F) (hv : Set.InjOn v (range n : Finset ℕ))
    (S : Finset ℕ) (hS : S ⊆ range n) (hc : S.card = k)
    (d : ℕ → F) (hz : ∀ r ∈ S, sym k v d r = 0) : ∀ j ∈ range k, d j = 0 := by
  classical
  have hvk : Set.InjOn v (range k : Finset ℕ) :=
    hv.mono (by intro x hx; simp at hx ⊢; omega)
  -- normalisers
  set c : ℕ → F := fun j => eval (v k) (Lagrange.basis (range k) v j) with hcdef
  have hc0 : ∀ j ∈ range k, c j ≠ 0 := by
    intro j hj
    simp only [hcdef, Lagrange.basis, eval_prod]
    apply Finset.prod_ne_zero_iff.mpr
    intro i hi
    rw [Lagrange.basisDivisor, eval_mul, eval_C, eval_sub, eval_X, eval_C]
    have hij : i ≠ j := (Finset.mem_erase.mp hi).1
    have hi' : i < k := by simpa using (Finset.mem_erase.mp hi).2
    have hj' : j < k := by simpa using hj
    apply mul_ne_zero
    · apply inv_ne_zero; apply sub_ne_zero.mpr
      intro h; exact hij ((hv (by simp; omega) (by simp; omega) h).symm)
    · apply sub_ne_zero.mpr
      intro h; have := hv (by simp; omega) (by simp; omega) h; omega
  -- the polynomial
  set f : F[X] := ∑ j ∈ range k, C (d j / c j) * Lagrange.basis (range k) v j with hf
  have hdeg : f.degree < (S.card : WithBot ℕ) := by
    rw [hc]
    have := Lagrange.degree_interpolate_lt (s := range k) (v := v) (r := fun j => d j / c j) hvk
    simpa [Lagrange.interpolate_apply, hf] using this
  have hroots : ∀ r ∈ S, eval (v r) f = 0 := by
    intro r hr
    have h0 := hz r hr
    by_cases hrk : r < k
    · -- data row: sym = d r, and f (v r) = d r / c r
      have hsym : sym k v d r = d r := by
        simp [sym, gen, hrk, Finset.sum_ite_eq, Finset.mem_range]
      have : eval (v r) f = d r / c r := by
        have := Lagrange.eval_interpolate_at_node (s := range k) (v := v) (r := fun j => d j / c j) hvk (Finset.mem_range.mpr hrk)
        simpa [Lagrange.interpolate_apply, hf] using this
      rw [this, ← hsym, h0, zero_div]
    · -- parity row
      have hsym : sym k v d r = eval (v r) f := by
        simp only [sym, gen, hrk, if_false, hf, eval_finsetSum, eval_mul, eval_C]
        apply Finset.sum_congr rfl
        intro j hj
        simp only [hcdef]; ring
      rw [← hsym]; exact h0
  have hf0 : f = 0 :=
    Polynomial.eq_zero_of_degree_lt_of_eval_index_eq_zero (v := v) (s := S)
      (hv.mono (by intro x hx; exact hS hx)) hdeg hroots
  intro j hj
  have : eval (v j) f = d j / c j := by
    have := Lagrange.eval_interpolate_at_node (s := range k) (v := v) (r := fun j => d j / c j) hvk hj
    simpa [Lagrange.interpolate_apply, hf] using this
  rw [hf0, eval_zero] at this
  have h2 := hc0 j hj
  field_simp at this
  simpa using this.symm

end MDSProbe
