/-
  lecdrv — line-protocol driver for the executable model (core Lean only).
  One operation per input line, one canonical result line per operation.
  Unknown or ill-formed lines are answered `bad-op`, never defaulted.
-/
import LecModel
import LecGen
open Lec

def env (legacy : Bool) : Env := { libver := LecGen.libVersion, legacy := legacy }

/-- generator accessor backed by the transliterated `make_systematic_matrix`. -/
def sysAccessor (k m : Nat) : Option (Nat → Nat → Nat) :=
  (makeSys k m).map fun a => fun r j => a[r * k + j]!

def availDefault (id : Nat) : Bool := id == 0 || id == 3 || id == 6

/-- instance + backend record for a configuration the harness created successfully. -/
def mkInst (be k m hd ct : Nat) : Option (Inst × Backend) :=
  match create availDefault be k m 0 hd ct with
  | .error _ => none
  | .ok inst =>
    match be with
    | 0 => some (inst, nullBackend)
    | 3 => (LecGen.xorTableFor hd m k).map fun T => (inst, xorBackend T)
    | 6 => (sysAccessor k m).map fun G => (inst, rsBackend G k m)
    | _ => none

def natList (l : List Nat) : String := if l.isEmpty then "-" else ",".intercalate (l.map toString)

def parseNatList (s : String) : Option (List Nat) :=
  if s == "-" then some [] else (s.splitOn ",").mapM String.toNat?

def showFail : Fail → String
  | .rc c => s!"err {c}"
  | .crash => "crash"

def showMeta (m : Meta) : String :=
  s!"ok {m.idx} {m.size} {m.bmSize} {m.origSize} {m.ctype} {natList m.chksum} {m.mismatch} {m.beId} {m.beVer}"

def hexList (l : List String) : Option (List Bytes) := l.mapM ofHex?

def b2n (b : Bool) : Nat := if b then 1 else 0

def cfg? (be k m hd ct : String) : Option (Inst × Backend) := do
  mkInst (← be.toNat?) (← k.toNat?) (← m.toNat?) (← hd.toNat?) (← ct.toNat?)

def step (line : String) : String :=
  match line.trimAscii.toString.splitOn " " with
  | ["enc", be, k, m, hd, ct, legacy, data] =>
    match cfg? be k m hd ct, legacy.toNat?, ofHex? data with
    | some (inst, bk), some lg, some d =>
      match encode (env (lg != 0)) bk inst d with
      | .ok frags => s!"ok {(frags.headD []).length} " ++ " ".intercalate (frags.map toHex)
      | .error e => showFail e
    | _, _, _ => "bad-op"
  | "dec" :: be :: k :: m :: hd :: ct :: force :: fraglen :: n :: frags =>
    match cfg? be k m hd ct, force.toNat?, fraglen.toNat?, n.toNat?, hexList frags with
    | some (inst, bk), some fo, some fl, some n, some fr =>
      if fr.length != n then "bad-op" else
      match decode (env false) bk inst fr fl (fo != 0) with
      | .ok d => s!"ok {d.length} {toHex d}"
      | .error e => showFail e
    | _, _, _, _, _ => "bad-op"
  | "rec" :: be :: k :: m :: hd :: ct :: legacy :: dest :: fraglen :: n :: frags =>
    match cfg? be k m hd ct, legacy.toNat?, dest.toInt?, fraglen.toNat?, n.toNat?, hexList frags with
    | some (inst, bk), some lg, some de, some fl, some n, some fr =>
      if fr.length != n then "bad-op" else
      match reconstruct (env (lg != 0)) bk inst fr fl de with
      | .ok f => s!"ok {toHex f}"
      | .error e => showFail e
    | _, _, _, _, _, _ => "bad-op"
  | ["need", be, k, m, hd, r, x] =>
    match cfg? be k m hd "1", parseNatList r, parseNatList x with
    | some (_, bk), some r, some x =>
      match fragmentsNeeded bk r x with
      | .ok l => s!"ok {natList l}"
      | .error e => showFail e
    | _, _, _ => "bad-op"
  | ["meta", frag] =>
    match ofHex? frag with
    | some f =>
      if f.length < Hdr.size then "bad-op" else
      match getFragmentMetadata f with
      | .ok m => showMeta m
      | .error e => showFail e
    | none => "bad-op"
  | ["hdrinv", frag] =>
    match ofHex? frag with
    | some f => if f.length < Hdr.size then "bad-op" else toString (b2n (isInvalidHeader f))
    | none => "bad-op"
  | ["fraginv", be, k, m, hd, ct, frag] =>
    match cfg? be k m hd ct, ofHex? frag with
    | some (inst, bk), some f =>
      if f.length < Hdr.size then "bad-op" else toString (b2n (isInvalidFragment (env false) bk inst f))
    | _, _ => "bad-op"
  | "stripe" :: be :: k :: m :: hd :: ct :: n :: frags =>
    match cfg? be k m hd ct, n.toNat?, hexList frags with
    | some (inst, bk), some n, some fr =>
      if fr.length != n || fr.any (·.length < Hdr.size) then "bad-op" else
      toString (verifyStripeMetadata bk inst fr)
    | _, _, _ => "bad-op"
  | ["size", be, k, m, hd, len] =>
    match cfg? be k m hd "1", len.toNat? with
    | some (inst, bk), some len =>
      s!"{alignedSizeQ bk inst len} {fragmentSizeQ inst len} {minEncodeSizeQ bk inst}"
    | _, _ => "bad-op"
  | ["create", be, k, m, hd, w] =>
    match be.toInt?, k.toInt?, m.toInt?, hd.toInt?, w.toInt? with
    | some be, some k, some m, some hd, some w =>
      match create availDefault be k m w hd 1 with
      | .ok _ => "ok"
      | .error e => s!"err {e}"
    | _, _, _, _, _ => "bad-op"
  | ["crc", data] =>
    match ofHex? data with
    | some d => s!"{crcStd d} {crcAlt d}"
    | none => "bad-op"
  | ["matrix", k, m] =>
    match k.toNat?, m.toNat? with
    | some k, some m =>
      match makeSys k m with
      | none => "crash"
      | some a =>
        let closed := (List.range (k + m)).flatMap fun r => (List.range k).map fun j => genEntry k r j
        let same := closed == a.toList
        s!"ok {b2n same} {natList a.toList}"
    | _, _ => "bad-op"
  | ["gftab", start, count] =>
    match start.toNat?, count.toNat? with
    | some s, some c =>
      -- log_table[x] and ilog_table_begin[x] for x in [s, s+c)
      let xs := (List.range c).map (· + s)
      "ok " ++ natList (xs.map fun x => if x == 0 then 0 else logTable x) ++ " " ++
        natList (xs.map fun x => if x < 65535 then ilogTable (x : Nat) else ilogTable ((x - 65535 : Nat) : Int))
    | _, _ => "bad-op"
  | ["gmul", a, b] =>
    match a.toNat?, b.toNat? with
    | some a, some b => s!"{tmul a b} {gmul a b} {match tdiv a b with | some q => toString q | none => "-1"}"
    | _, _ => "bad-op"
  | _ => "bad-op"

partial def loop (h : IO.FS.Stream) (out : IO.FS.Stream) : IO Unit := do
  let line ← h.getLine
  if line.isEmpty then return ()
  out.putStrLn (step line)
  loop h out

def main : IO Unit := do
  let out ← IO.getStdout
  loop (← IO.getStdin) out
  out.flush
