/-
  lecdrv — line-protocol driver for the executable model (core Lean only).
  One operation per input line, one canonical result line per operation.
  Unknown or ill-formed lines are answered `bad-op`, never defaulted.
-/
import LecModel
import LecGen
open Lec

def env (legacy : Bool) : Env := { libver := LecGen.libVersion, legacy := legacy }

/-- generator accessor backed by the transliterated `make_systematic_matrix`. -/
def sysAccessor (k m : Nat) : Option (Nat → Nat → Nat) :=
  (makeSys k m).map fun a => fun r j => a[r * k + j]!

/-- `cx`: is the reference libisal on the library path (environment VERIF_ISAL)? -/
def availDefault (cx : Bool) (id : Nat) : Bool := id == 0 || id == 3 || id == 6 || (cx && (id == 4 || id == 7))

/-- instance + backend record for a configuration the harness created successfully. -/
def failInvert (P : IsaPrims) : IsaPrims := { P with invert := fun _ _ => none }

/-- backend ids 104 / 107 in op lines: the ISA-L adapters with every matrix inversion failing. -/
def mkInst (cx : Bool) (be k m hd ct : Nat) : Option (Inst × Backend) :=
  let realBe := if be == 104 then 4 else if be == 107 then 7 else be
  match create (availDefault cx) realBe k m 0 hd ct with
  | .error _ => none
  | .ok inst =>
    match be with
    | 0 => some (inst, nullBackend)
    | 3 => (LecGen.xorTableFor hd m k).map fun T => (inst, xorBackend T)
    | 6 => (sysAccessor k m).map fun G => (inst, rsBackend G k m)
    | 4 => some (inst, isaBackend gf8PrimsVand k m (beVersion 4))
    | 7 => some (inst, isaBackend gf8PrimsCauchy k m (beVersion 7))
    | 104 => some (inst, isaBackend (failInvert gf8PrimsVand) k m (beVersion 4))
    | 107 => some (inst, isaBackend (failInvert gf8PrimsCauchy) k m (beVersion 7))
    | _ => none

def natList (l : List Nat) : String := if l.isEmpty then "-" else ",".intercalate (l.map toString)

def parseNatList (s : String) : Option (List Nat) :=
  if s == "-" then some [] else (s.splitOn ",").mapM String.toNat?

def showFail : Fail → String
  | .rc c => s!"err {c}"
  | .crash => "crash"

def showMeta (m : Meta) : String :=
  s!"ok {m.idx} {m.size} {m.bmSize} {m.origSize} {m.ctype} {natList m.chksum} {m.mismatch} {m.beId} {m.beVer}"

def hexList (l : List String) : Option (List Bytes) := l.mapM ofHex?

def b2n (b : Bool) : Nat := if b then 1 else 0

def cfg? (cx : Bool) (be k m hd ct : String) : Option (Inst × Backend) := do
  mkInst cx (← be.toNat?) (← k.toNat?) (← m.toNat?) (← hd.toNat?) (← ct.toNat?)

def step (cx : Bool) (line : String) : String :=
  match line.trimAscii.toString.splitOn " " with
  | ["enc", be, k, m, hd, ct, legacy, data] =>
    match cfg? cx be k m hd ct, legacy.toNat?, ofHex? data with
    | some (inst, bk), some lg, some d =>
      match encode (env (lg != 0)) bk inst d with
      | .ok frags => s!"ok {(frags.headD []).length} " ++ " ".intercalate (frags.map toHex)
      | .error e => showFail e
    | _, _, _ => "bad-op"
  | ["enclen", be, k, m, hd, len] =>
    -- only the size guard of encode is evaluated (the input itself is not transmitted)
    match cfg? cx be k m hd "1", len.toNat? with
    | some (inst, _), some l => if encodeTooLarge inst l then showFail (.rc (-EINVALIDPARAMS)) else "ok-size"
    | _, _ => "bad-op"
  | "dec" :: be :: k :: m :: hd :: ct :: force :: fraglen :: n :: frags =>
    match cfg? cx be k m hd ct, force.toNat?, fraglen.toNat?, n.toNat?, hexList frags with
    | some (inst, bk), some fo, some fl, some n, some fr =>
      if fr.length != n then "bad-op" else
      match decode (env false) bk inst fr fl (fo != 0) with
      | .ok d => s!"ok {d.length} {toHex d}"
      | .error e => showFail e
    | _, _, _, _, _ => "bad-op"
  | "rec" :: be :: k :: m :: hd :: ct :: legacy :: dest :: fraglen :: n :: frags =>
    match cfg? cx be k m hd ct, legacy.toNat?, dest.toInt?, fraglen.toNat?, n.toNat?, hexList frags with
    | some (inst, bk), some lg, some de, some fl, some n, some fr =>
      if fr.length != n then "bad-op" else
      match reconstruct (env (lg != 0)) bk inst fr fl de with
      | .ok f => s!"ok {toHex f}"
      | .error e => showFail e
    | _, _, _, _, _, _ => "bad-op"
  | ["need", be, k, m, hd, r, x] =>
    match cfg? cx be k m hd "1", parseNatList r, parseNatList x with
    | some (_, bk), some r, some x =>
      match fragmentsNeeded bk r x with
      | .ok l => s!"ok {natList l}"
      | .error e => showFail e
    | _, _, _ => "bad-op"
  | ["meta", frag] =>
    match ofHex? frag with
    | some f =>
      if f.length < Hdr.size then "bad-op" else
      match getFragmentMetadata f with
      | .ok m => showMeta m
      | .error e => showFail e
    | none => "bad-op"
  | ["hdrinv", frag] =>
    match ofHex? frag with
    | some f => if f.length < Hdr.size then "bad-op" else toString (b2n (isInvalidHeader f))
    | none => "bad-op"
  | ["fraginv", be, k, m, hd, ct, frag] =>
    match cfg? cx be k m hd ct, ofHex? frag with
    | some (inst, bk), some f =>
      if f.length < Hdr.size then "bad-op" else toString (b2n (isInvalidFragment (env false) bk inst f))
    | _, _ => "bad-op"
  | "stripe" :: be :: k :: m :: hd :: ct :: n :: frags =>
    match cfg? cx be k m hd ct, n.toNat?, hexList frags with
    | some (inst, bk), some n, some fr =>
      if fr.length != n || fr.any (·.length < Hdr.size) then "bad-op" else
      toString (verifyStripeMetadata bk inst fr)
    | _, _, _ => "bad-op"
  | ["size", be, k, m, hd, len] =>
    match cfg? cx be k m hd "1", len.toNat? with
    | some (inst, bk), some len =>
      s!"{alignedSizeQ bk inst len} {fragmentSizeQ inst len} {minEncodeSizeQ bk inst}"
    | _, _ => "bad-op"
  | ["create", be, k, m, hd, w] =>
    match be.toInt?, k.toInt?, m.toInt?, hd.toInt?, w.toInt? with
    | some be, some k, some m, some hd, some w =>
      match create (availDefault cx) be k m w hd 1 with
      | .ok _ => "ok"
      | .error e => s!"err {e}"
    | _, _, _, _, _ => "bad-op"
  | ["crc", data] =>
    match ofHex? data with
    | some d => s!"{crcStd d} {crcAlt d}"
    | none => "bad-op"
  | ["matrix", k, m] =>
    match k.toNat?, m.toNat? with
    | some k, some m =>
      match makeSys k m with
      | none => "crash"
      | some a =>
        let closed := (List.range (k + m)).flatMap fun r => (List.range k).map fun j => genEntry k r j
        let same := closed == a.toList
        s!"ok {b2n same} {natList a.toList}"
    | _, _ => "bad-op"
  | ["gftab", start, count] =>
    match start.toNat?, count.toNat? with
    | some s, some c =>
      -- log_table[x] and ilog_table_begin[x] for x in [s, s+c)
      let xs := (List.range c).map (· + s)
      "ok " ++ natList (xs.map fun x => if x == 0 then 0 else logTable x) ++ " " ++
        natList (xs.map fun x => if x < 65535 then ilogTable (x : Nat) else ilogTable ((x - 65535 : Nat) : Int))
    | _, _ => "bad-op"
  | ["gmul", a, b] =>
    match a.toNat?, b.toNat? with
    | some a, some b => s!"{tmul a b} {gmul a b} {match tdiv a b with | some q => toString q | none => "-1"}"
    | _, _ => "bad-op"
  | _ => "bad-op"

/-! ### argument classes (C13) -/

def apiOfName : String → Option Api
  | "encode" => some .encode | "encode_cleanup" => some .encodeCleanup | "decode" => some .decode
  | "decode_cleanup" => some .decodeCleanup | "reconstruct" => some .reconstruct
  | "fragments_needed" => some .fragmentsNeeded | "get_fragment_metadata" => some .getMetadata
  | "is_invalid_fragment" => some .isInvalidFragment | "verify_stripe_metadata" => some .verifyStripe
  | "sizes" => some .sizes | "destroy" => some .destroy | "create_nullargs" => some .createNullArgs
  | "backend_available" => some .backendAvailable | _ => none

def stepArgs (cx : Bool) (api be k m : String) (rest : List String) : String :=
  match apiOfName api, be.toNat?, k.toNat?, m.toNat?, rest.mapM String.toInt? with
  | some api, some be, some k, some m, some a =>
    let hd := if be == 3 then 3 else m
    match mkInst cx be k m hd 1 with
    | none => "bad-op"
    | some (inst, bk) =>
      let e : ArgEnv := { k := k, m := m, aligned100 := alignedSizeQ bk inst 100,
                          frag100 := fragmentSizeQ inst 100, minEnc := minEncodeSizeQ bk inst,
                          avail := availDefault cx }
      -- a negative backend id reaches the C code as a huge unsigned value
      let a' := a.map fun (x : Int) => if x < 0 then 4294967295 else x.toNat
      match argCheck e api a' with
      | .rc c => toString c
      | .triple x y z => s!"{x} {y} {z}"
  | _, _, _, _, _ => "bad-op"

/-! ### descriptor histories (C14) -/

structure HistState where
  reg : Registry
  slots : List Int                       -- descriptor stored in each slot (-1: none yet)
  shapes : List (Int × Nat × Nat × Nat × Nat)   -- desc ↦ (be, k, m, hd)

def histData : Bytes := (List.range 29).map fun i => UInt8.ofNat (i * 11 + 3)

def roundTrip (cx : Bool) (be k m hd : Nat) : Int :=
  match mkInst cx be k m hd 2 with
  | none => -1
  | some (inst, bk) =>
    match encode (env false) bk inst histData with
    | .error (.rc e) => e
    | .error .crash => -99
    | .ok frags =>
      match decode (env false) bk inst (frags.drop 1) (frags.headD []).length false with
      | .ok d => if d == histData then 0 else 1
      | .error (.rc e) => e
      | .error .crash => -99

def histOp (cx : Bool) (st : HistState) (op : String) : HistState × Int :=
  let chars := op.toList
  -- upper-case D / U / Q: the same operation issued from a second thread (no difference for the model)
  let kind0 := String.ofList (chars.take 1)
  let kind := if kind0 == "D" then "d" else if kind0 == "U" then "u" else if kind0 == "Q" then "q" else kind0
  let slot := (String.ofList ((chars.drop 1).take 1)).toNat?.getD 0
  let desc := st.slots.getD slot (-1)
  if kind == "c" || kind == "f" then
    match (String.ofList (chars.drop 3)).splitOn ":" |>.mapM String.toInt? with
    | some (be :: k :: m :: hd :: wopt) =>
      let w : Int := wopt.headD 0
      let (r', res) := st.reg.create (availDefault cx) be k m w hd 2
      if res > 0 then
        ({ reg := r', slots := st.slots.set slot res,
           shapes := (res, be.toNat, k.toNat, m.toNat, hd.toNat) :: st.shapes.filter (·.1 != res) }, res)
      else ({ st with reg := r' }, res)
    | _ => (st, -12345)
  else if kind == "d" then
    let (r', res) := st.reg.destroy desc
    ({ st with reg := r' }, res)
  else if kind == "u" then
    match st.reg.lookup desc, st.shapes.find? (·.1 == desc) with
    | some _, some (_, be, k, m, hd) => (st, roundTrip cx be k m hd)
    | _, _ => (st, -EBACKENDNOTAVAIL)
  else if kind == "q" then
    match st.reg.lookup desc with
    | some inst => (st, (fragmentSizeQ inst 1000 : Nat))
    | none => (st, -EBACKENDNOTAVAIL)
  else if kind == "n" then
    -- `n:<v>`: the exported counter next_backend_desc is overwritten mid-history
    match (String.ofList (chars.drop 2)).toInt? with
    | some v => ({ st with reg := { st.reg with next := v } }, 0)
    | none => (st, -12345)
  else (st, -12345)

def stepHist (cx : Bool) (preset : String) (ops : String) : String :=
  match preset.toInt? with
  | none => "bad-op"
  | some p =>
    let st0 : HistState := { reg := { Registry.init with next := p }, slots := [-1, -1, -1, -1], shapes := [] }
    let (_, outs) := (ops.splitOn ";").foldl (fun (acc : HistState × List Int) op =>
      let (st', r) := histOp cx acc.1 op
      (st', acc.2 ++ [r])) (st0, [])
    ",".intercalate (outs.map toString)

def tolOf (be m hd : Nat) : Nat := if be == 3 then hd - 1 else m

/-- `pat`: the set of fragments withheld by the S / U / R calls, as a bit mask.  The ledger does not
    depend on which fragments are withheld as long as there are between 1 and `tol` of them and a
    data fragment is among them (the decode then takes the slow path and succeeds); anything else is
    not a history of this suite. -/
def patOK (k m tol pat : Nat) : Bool :=
  let bits := (List.range (k + m)).filter fun i => pat.testBit i
  pat < 2 ^ (k + m) && 1 ≤ bits.length && bits.length ≤ tol && bits.any (· < k)

def stepLedger (be k m hd calls pat : String) : String :=
  match be.toNat?, k.toNat?, m.toNat?, hd.toNat?, pat.toNat? with
  | some be, some k, some m, some hd, some pat =>
    if !patOK k m (tolOf be m hd) pat then "bad-op" else
    let vals := ledgerRun be k m (tolOf be m hd) calls.toList
    ",".intercalate (vals.map toString) ++ "|0"
  | _, _, _, _, _ => "bad-op"

def stepFault (be op n : String) : String :=
  match be.toNat?, op.toNat?, n.toNat? with
  | some be, some op, some n =>
    let (all, pos) := faultScript (be == 0) op n
    ",".intercalate (all.map toString) ++ s!" fault@{pos} held={if pos < 0 then (-1 : Int) else 0} end=0" ++
      (if be == 4 || be == 7 then " lib=unloaded" else "")
  | _, _, _ => "bad-op"

/-- natural failures (C17): create (unsupported shapes fail in the backend's own init), encode of the
    fixed 97-byte buffer, decode and reconstruct without the fragments in `mask` (beyond tolerance the
    backend itself fails).  Result: return code / verdict of each step; the library holds nothing
    after a failed call and nothing at the end. -/
def natData : Bytes := (List.range 97).map fun i => UInt8.ofNat (i * 7 + 1)

def stepNatfail (cx : Bool) (be k m hd mask dsel : String) : String :=
  match be.toNat?, k.toInt?, m.toInt?, hd.toInt?, mask.toNat?, dsel.toNat? with
  | some be, some k, some m, some hd, some mask, some dsel =>
    match create (availDefault cx) be k m 0 hd 2 with
    | .error e => s!"c={e} held=0 end=0"
    | .ok _ =>
      match mkInst cx be k.toNat m.toNat hd.toNat 2 with
      | none => "bad-op"
      | some (inst, bk) =>
        match encode (env false) bk inst natData with
        | .error e => s!"c=0 e={showFail e} held=0 end=0"
        | .ok frags =>
          let fl := (frags.headD []).length
          let surv := (frags.zipIdx.filter fun (_, i) => !mask.testBit i).map (·.1)
          let missing := (List.range (k.toNat + m.toNat)).filter fun i => mask.testBit i
          -- dsel 0: the lowest missing index is rebuilt, 1: the highest
          let dest : Int := if dsel == 0 then missing.headD 0 else missing.getLastD 0
          let d := match decode (env false) bk inst surv fl false with
            | .ok out => if out == natData then "0" else "1"
            | .error e => showFail e
          let r := match reconstruct (env false) bk inst surv fl dest with
            | .ok f => if f == frags.getD dest.toNat [] then "0" else "1"
            | .error e => showFail e
          s!"c=0 d={d} r={r} held=0 end=0"
  | _, _, _, _, _, _ => "bad-op"

def stepAll (cx : Bool) (line : String) : String :=
  match line.trimAscii.toString.splitOn " " with
  | ["ledger", be, k, m, hd, calls, pat] => stepLedger be k m hd calls pat
  | ["fault", be, _, _, _, op, n] => stepFault be op n
  | "pure" :: _ => "same"
  | "conc" :: _ => "ok"
  | ["natfail", be, k, m, hd, mask, dsel] => stepNatfail cx be k m hd mask dsel
  | "args" :: api :: be :: k :: m :: rest => stepArgs cx api be k m rest
  | ["hist", preset, ops] => stepHist cx preset ops
  | _ => step cx line

partial def loop (cx : Bool) (h : IO.FS.Stream) (out : IO.FS.Stream) : IO Unit := do
  let line ← h.getLine
  if line.isEmpty then return ()
  out.putStrLn (stepAll cx line)
  loop cx h out

def main : IO Unit := do
  let out ← IO.getStdout
  let cx := (← IO.getEnv "VERIF_ISAL").isSome
  loop cx (← IO.getStdin) out
  out.flush
