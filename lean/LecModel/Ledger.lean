/-
  LecModel.Ledger — heap blocks the library owns on behalf of the caller after each public
  call (src/erasurecode.c and the backends' init/exit), and the scripted fault workload.

  A history is a string of calls (see harness/suites4.c `suite_ledger`); the harness applies a
  call only when its precondition holds (e.g. encode only with a live instance and no
  outstanding encode result), and so does the model.
-/
import LecModel.Frontend
namespace Lec

/-- blocks a live instance owns: the instance itself plus the backend's private state
    (null: descriptor; flat_xor_hd: xor descriptor + adapter descriptor; rs_vand: descriptor +
    generator matrix + the two GF tables of the first live instance; isa-l: descriptor + matrix +
    encode tables). -/
def instanceBlocks (be : Nat) : Int :=
  match be with
  | 0 => 2
  | 3 => 3
  | 6 => 5
  | 4 | 7 => 4
  | _ => 1

structure LState where
  inst : Bool        -- a live instance exists
  enc : Bool         -- an encode result (k+m fragments + two pointer arrays) is outstanding
  out : Bool         -- a decode result is outstanding
deriving Repr, DecidableEq

def LState.held (be k m : Nat) (s : LState) : Int :=
  (if s.inst then instanceBlocks be else 0) + (if s.enc then (k + m + 2 : Nat) else 0) +
  (if s.out then 1 else 0)

/-- does decode variant `c` succeed for this code (tolerance `tol`, k data fragments)? -/
def decodeSucceeds (k m tol : Nat) (c : Char) : Bool :=
  match c with
  | 'F' => true
  | 'S' | 'U' => decide (1 ≤ tol)
  | 'V' => decide (2 ≤ tol) && decide (k + 2 ≤ k + m)
  | _ => false

def ledgerStep (k m tol : Nat) (s : LState) (c : Char) : LState :=
  match c with
  | 'C' => if s.inst then s else { s with inst := true }
  | 'D' => if s.inst && !s.enc && !s.out then { s with inst := false } else s
  | 'E' => if s.inst && !s.enc then { s with enc := true } else s
  | 'c' => if s.enc then { s with enc := false } else s
  | 'F' | 'S' | 'U' | 'I' | 'B' | 'V' =>
    if s.enc && !s.out && decodeSucceeds k m tol c then { s with out := true } else s
  | 'f' => if s.out then { s with out := false } else s
  | _ => s      -- X e R r N M: nothing is kept

def ledgerRun (be k m tol : Nat) (calls : List Char) : List Int :=
  (calls.foldl (fun (acc : LState × List Int) c =>
    let s' := ledgerStep k m tol acc.1 c
    (s', acc.2 ++ [s'.held be k m])) (⟨false, false, false⟩, [])).2

/-- the fault script: expected result of every printed step when invocation `n` of backend
    operation `op` (0 init, 1 encode, 2 decode, 3 reconstruct, 4 fragments_needed) fails.
    `nullBe`: the null backend "decodes" to wrong bytes (verdict 1) — it never repairs anything. -/
def faultScript (nullBe : Bool) (op n : Nat) : List Int × Int :=
  let ok := fun (o : Nat) => if nullBe && (o == 2 || o == 3) then (1 : Int) else 0
  let create : List Int := if op == 0 && n == 0 then [-EBACKENDINITERR, 0] else [0]
  let rounds : List Int := (List.range 2).flatMap fun r =>
    (List.range 4).flatMap fun j =>
      let o := j + 1
      if op == o && n == r then [-1, ok o] else [ok o]
  let all := create ++ rounds
  let pos : Int := match all.findIdx? (fun x => x < 0) with
    | some i => i
    | none => -1
  (all, pos)

end Lec
