/-
  LecModel.Create — `liberasurecode_instance_create` argument and shape checks and
  the per-backend `init` decisions (src/erasurecode.c:266, null.c, flat_xor_hd.c,
  xor_hd_code.c:init_xor_hd_code, rs_vand adapter, isa_l_common.c).
-/
import LecModel.Frontend
import LecModel.Xor
namespace Lec

/-- golden backend version words (`_VERSION(major, minor, rev)` of each descriptor);
    LecGen.Consts carries the values compiled from the tree. -/
def beVersion : Nat → Nat
  | 0 => 0x010000   -- null
  | 1 => 0x020000   -- jerasure_rs_vand
  | 2 => 0x020000   -- jerasure_rs_cauchy
  | 3 => 0x010000   -- flat_xor_hd
  | 4 => 0x020d00   -- isa_l_rs_vand
  | 5 => 0x000000   -- shss
  | 6 => 0x010000   -- liberasurecode_rs_vand
  | 7 => 0x020e01   -- isa_l_rs_cauchy
  | 8 => 0x010000   -- libphazr
  | _ => 0

def maxFragments : Nat := 32
def backendsMax : Nat := 9

/-- the backend's `init`: the word size it stores back into the arguments, or `none` when it
    refuses the shape (null.c, flat_xor_hd.c / init_xor_hd_code, rs_vand adapter, isa_l_common.c). -/
def backendInit (id : Nat) (k m w hd : Int) : Option Nat :=
  match id with
  | 0 =>
    let w' := if w ≤ 0 then 32 else w
    if w' != 8 && w' != 16 && w' != 32 then none else some 32
  | 3 => if xorShapeOK k m hd then some 32 else none
  | 6 => some 16
  | 4 | 7 =>
    -- isa_l_common_init: w defaults to 8, k + m must not exceed 2^w; w is stored as given
    let w' := if w ≤ 0 then 8 else w
    if w' ≥ 63 || k + m > (2 : Int) ^ w'.toNat then none else some w'.toNat
  | _ => none

/-- `liberasurecode_instance_create(id, {k, m, w, hd, ct})`.
    `avail id` says whether the backend's shared library can be opened. -/
def create (avail : Nat → Bool) (id k m w hd : Int) (ct : Nat) : Except Int Inst :=
  if id < 0 || id ≥ (backendsMax : Int) then .error (-EBACKENDNOTSUPP) else
  if k < 1 || m < 0 then .error (-EINVALIDPARAMS) else
  if k + m > (maxFragments : Int) then .error (-EINVALIDPARAMS) else
  if !avail id.toNat then .error (-EBACKENDNOTAVAIL) else
  match backendInit id.toNat k m w hd with
  | none => .error (-EBACKENDINITERR)
  | some w' => .ok { beId := id.toNat, beVer := beVersion id.toNat, k := k.toNat, m := m.toNat, w := w', ct := ct }

end Lec
