/-
  LecModel.IsaL — the ISA-L adapters (src/backends/isa-l/isa_l_common.c) over an abstract
  record of the five primitives they bind with dlsym, and the GF(2^8) reference instance
  (polynomial 0x11d) that harness/isal_ref implements.

  `IsaPrims.mul`        gf_mul on byte values
  `IsaPrims.genMatrix`  gf_gen_rs_matrix / gf_gen_cauchy1_matrix: (k+m) rows of k coefficients
  `IsaPrims.invert`     gf_invert_matrix: the inverse, or `none` for the return value -1
  ec_init_tables + ec_encode_data are "dest_r = ⊕_j mul(row_r[j], src_j)" byte by byte; the
  32-byte table expansion is an internal representation of the coefficient.
-/
import LecModel.Frontend
import LecModel.Backends
namespace Lec

structure IsaPrims where
  mul : Nat → Nat → Nat
  genMatrix : (k m : Nat) → List (List Nat)
  invert : (n : Nat) → List (List Nat) → Option (List (List Nat))

/-- `ec_encode_data(len, k, rows, tables(rows), srcs, dests)`: every destination is overwritten. -/
def isaEncodeData (P : IsaPrims) (rows : List (List Nat)) (srcs : List Bytes) (len : Nat) : List Bytes :=
  rows.map fun row =>
    (List.range len).map fun b =>
      (List.zip row srcs).foldl (fun (acc : UInt8) (p : Nat × Bytes) =>
        acc ^^^ UInt8.ofNat (P.mul p.1 ((p.2.getD b 0).toNat))) 0

def putPrefix (buf : Bytes) (v : Bytes) : Bytes := v ++ buf.drop v.length

/-- `isa_l_encode` -/
def isaEncode (P : IsaPrims) (k m : Nat) (data parity : List Bytes) (bs : Nat) : Option (List Bytes) :=
  if data.any (·.length < bs) || parity.any (·.length < bs) then none else
  let G := P.genMatrix k m
  let out := isaEncodeData P (G.drop k) data bs
  some ((List.zip parity out).map fun (b, v) => putPrefix b v)

/-- `get_inverse_rows`: rows that rebuild the missing fragments from the first k available ones,
    missing data first (rows of the inverse), then missing parity (encode row pushed through). -/
def isaInverseRows (P : IsaPrims) (k m : Nat) (inv G : List (List Nat)) (missing : List Nat) :
    List (List Nat) :=
  let md := (List.range k).filter (missing.contains ·)
  let dataRows := md.map fun i => inv.getD i []
  let parRows := ((List.range m).filter fun i => missing.contains (k + i)).map fun pi =>
    let grow := G.getD (k + pi) []
    -- walk the data columns in order: available ones add their coefficient at the next free
    -- position, unavailable ones add coefficient * (their inverse row)
    let step (st : List Nat × Nat × Nat) (j : Nat) : List Nat × Nat × Nat :=
      let (row, av, un) := st
      if !missing.contains j then
        (row.set av ((row.getD av 0) ^^^ (grow.getD j 0)), av + 1, un)
      else
        (List.zipWith (fun r x => r ^^^ P.mul (grow.getD j 0) x) row (dataRows.getD un (List.replicate k 0)), av, un + 1)
    ((List.range k).foldl step (List.replicate k 0, 0, 0)).1
  dataRows ++ parRows

def isaAvail (k m : Nat) (missing : List Nat) : List Nat :=
  ((List.range (k + m)).filter fun i => !missing.contains i).take k

/-- `isa_l_decode`: rc -1 (`none` inner) when fewer than k rows are available or inversion fails. -/
def isaDecode (P : IsaPrims) (k m : Nat) (data parity : List Bytes) (missing : List Nat) (bs : Nat) :
    R (List Bytes × List Bytes) :=
  let G := P.genMatrix k m
  let avail := isaAvail k m missing
  if avail.length < k then .error (.rc (-1)) else
  match P.invert k (avail.map fun r => G.getD r []) with
  | none => .error (.rc (-1))
  | some inv =>
    if (avail.any fun i => (bufAt data parity k i).length < bs) then .error .crash else
    let srcs := avail.map fun i => bufAt data parity k i
    let rows := isaInverseRows P k m inv G missing
    let outs := isaEncodeData P rows srcs bs
    let targets := ((List.range k).filter (missing.contains ·)) ++
                   (((List.range m).filter fun i => missing.contains (k + i)).map (· + k))
    if targets.any (fun t => (bufAt data parity k t).length < bs) then .error .crash else
    let upd := (List.zip targets outs).foldl (fun (st : List Bytes × List Bytes) (p : Nat × Bytes) =>
      if p.1 < k then (st.1.set p.1 (putPrefix (st.1.getD p.1 []) p.2), st.2)
      else (st.1, st.2.set (p.1 - k) (putPrefix (st.2.getD (p.1 - k) []) p.2))) (data, parity)
    .ok upd

/-- `isa_l_reconstruct` -/
def isaReconstruct (P : IsaPrims) (k m : Nat) (data parity : List Bytes) (missing : List Nat)
    (dest bs : Nat) : R (List Bytes × List Bytes) :=
  let G := P.genMatrix k m
  let avail := isaAvail k m missing
  if avail.length < k then .error (.rc (-1)) else
  match P.invert k (avail.map fun r => G.getD r []) with
  | none => .error (.rc (-1))
  | some inv =>
    if (avail.any fun i => (bufAt data parity k i).length < bs) then .error .crash else
    let srcs := avail.map fun i => bufAt data parity k i
    let rows := isaInverseRows P k m inv G missing
    let targets := ((List.range k).filter (missing.contains ·)) ++
                   (((List.range m).filter fun i => missing.contains (k + i)).map (· + k))
    match targets.idxOf? dest with
    | none => .error .crash          -- reconstruct_buf stays NULL in the C code
    | some r =>
      if (bufAt data parity k dest).length < bs then .error .crash else
      let out := (isaEncodeData P [rows.getD r []] srcs bs).headD []
      if dest < k then .ok (data.set dest (putPrefix (data.getD dest []) out), parity)
      else .ok (data, parity.set (dest - k) (putPrefix (parity.getD (dest - k) []) out))

/-- backend record for `isa_l_rs_vand` / `isa_l_rs_cauchy` (they differ in `genMatrix` and version). -/
def isaBackend (P : IsaPrims) (k m ver : Nat) : Backend where
  encode d p bs := match isaEncode P k m d p bs with
    | some p' => .ok (d, p')
    | none => .error .crash
  decode d p missing bs := isaDecode P k m d p missing bs
  reconstruct d p missing dest bs := isaReconstruct P k m d p missing dest bs
  needed := rsNeeded k m
  elementSize := 8
  compat v := v == ver

/-! ### GF(2^8) reference primitives (what harness/isal_ref/isal_ref.c implements) -/

def gf8Mul (a b : Nat) : Nat :=
  let rec go : Nat → Nat → Nat → Nat → Nat
    | 0, _, _, acc => acc
    | fuel + 1, x, i, acc =>
      let acc' := if b.testBit i then acc ^^^ x else acc
      let x' := x <<< 1
      go fuel (if x'.testBit 8 then x' ^^^ 0x11d else x') (i + 1) acc'
  go 8 a 0 0

def gf8Pow (a : Nat) : Nat → Nat
  | 0 => 1
  | n + 1 => gf8Mul a (gf8Pow a n)

/-- multiplicative inverse, `gf_inv 0 = 0`. -/
def gf8Inv (a : Nat) : Nat := if a == 0 then 0 else gf8Pow a 254

def gf8RsMatrix (k m : Nat) : List (List Nat) :=
  ((List.range k).map fun i => (List.range k).map fun j => if i == j then 1 else 0) ++
  ((List.range m).map fun i => (List.range k).map fun j => gf8Pow (gf8Pow 2 i) j)

def gf8CauchyMatrix (k m : Nat) : List (List Nat) :=
  ((List.range k).map fun i => (List.range k).map fun j => if i == j then 1 else 0) ++
  ((List.range m).map fun i => (List.range k).map fun j => gf8Inv ((k + i) ^^^ j))

/-- Gauss–Jordan over GF(2^8) on lists of rows; `none` when singular. -/
def gf8Invert (n : Nat) (rows : List (List Nat)) : Option (List (List Nat)) :=
  let ident : List (List Nat) := (List.range n).map fun i => (List.range n).map fun j => if i == j then 1 else 0
  let step (st : Option (List (List Nat) × List (List Nat))) (c : Nat) : Option (List (List Nat) × List (List Nat)) :=
    match st with
    | none => none
    | some (a, b) =>
      match ((List.range n).filter fun r => r ≥ c && (a.getD r []).getD c 0 != 0).head? with
      | none => none
      | some p =>
        let sw (x : List (List Nat)) := (x.set c (x.getD p [])).set p (x.getD c [])
        let a := if p == c then a else sw a
        let b := if p == c then b else sw b
        let d := gf8Inv ((a.getD c []).getD c 0)
        let a := a.set c ((a.getD c []).map (gf8Mul · d))
        let b := b.set c ((b.getD c []).map (gf8Mul · d))
        let ac := a.getD c []
        let bc := b.getD c []
        let elim (x : List (List Nat)) (xc : List Nat) (coef : Nat → Nat) : List (List Nat) :=
          x.zipIdx.map fun (row, r) => if r == c then row else List.zipWith (fun v w => v ^^^ gf8Mul (coef r) w) row xc
        let coef := fun r => (a.getD r []).getD c 0
        some (elim a ac coef, elim b bc coef)
  ((List.range n).foldl step (some (rows, ident))).map (·.2)

def gf8PrimsVand : IsaPrims := { mul := gf8Mul, genMatrix := gf8RsMatrix, invert := gf8Invert }
def gf8PrimsCauchy : IsaPrims := { mul := gf8Mul, genMatrix := gf8CauchyMatrix, invert := gf8Invert }

end Lec
