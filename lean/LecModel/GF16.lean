/-
  LecModel.GF16 — arithmetic of GF(2^16) with the polynomial 0x1100b, as used
  by src/builtin/rs_vand/rs_galois.c.

  `gmul` is the 16-step shift-and-add product; LecProofs.GF16Field proves that
  xor/`gmul` on naturals below 2^16 form a field.  The C code multiplies through
  log/antilog tables built from successive doublings (`x << 1`, reduced by the
  polynomial): `expTable`/`logTable` below are built exactly like
  `rs_galois_init_tables` and compared entry by entry with the library's
  tables on every run; `tmul`/`tdiv` are the C functions over those tables.
-/
namespace Lec

def gfPoly : Nat := 0x1100b

/-- multiply by x (i.e. by 2) and reduce. -/
def xtime (a : Nat) : Nat :=
  if a.testBit 15 then (a <<< 1) ^^^ gfPoly else a <<< 1

def gmulLoop : Nat → Nat → Nat → Nat → Nat
  | 0, _, _, acc => acc
  | fuel+1, a, b, acc =>
    gmulLoop fuel (xtime a) (b >>> 1) (if b.testBit 0 then acc ^^^ a else acc)

/-- field product of two elements below 2^16. -/
def gmul (a b : Nat) : Nat := gmulLoop 16 a b 0

def gpowLoop : Nat → Nat → Nat → Nat → Nat
  | 0, _, _, acc => acc
  | fuel+1, b, e, acc =>
    gpowLoop fuel (gmul b b) (e >>> 1) (if e.testBit 0 then gmul acc b else acc)

/-- `a ^ e` for `e < 2^16` by square-and-multiply. -/
def gpow (a e : Nat) : Nat := gpowLoop 16 a e 1

/-- multiplicative inverse (`a ^ 65534`); `ginv 0 = 0`, callers guard `a ≠ 0`. -/
def ginv (a : Nat) : Nat := gpow a 65534

def gdiv (a b : Nat) : Nat := gmul a (ginv b)

/-! ### the tables of `rs_galois_init_tables` -/

/-- `x = x << 1; if (x & FIELD_SIZE) x ^= PRIM_POLY` -/
def tableNext (x : Nat) : Nat :=
  let y := x <<< 1
  if y.testBit 16 then y ^^^ gfPoly else y

/-- (log_table, ilog_table_begin[0..65534]) built by the C loop. -/
def buildTables : Array Nat × Array Nat := Id.run do
  let mut log : Array Nat := Array.replicate 65536 0
  let mut ilog : Array Nat := Array.replicate 65535 0
  let mut x := 1
  for i in [0:65535] do
    log := log.set! x i
    ilog := ilog.set! i x
    x := tableNext x
  return (log, ilog)

def gfTables : Array Nat × Array Nat := buildTables
def logTable (x : Nat) : Nat := gfTables.1[x]!
/-- `ilog_table[i]` for `-65535 ≤ i < 131070` (the C pointer is offset by GROUP_SIZE
    into a tripled table). -/
def ilogTable (i : Int) : Nat := gfTables.2[((i + 65535) % 65535).toNat]!

/-- `rs_galois_mult` -/
def tmul (x y : Nat) : Nat :=
  if x == 0 || y == 0 then 0 else ilogTable (logTable x + logTable y : Nat)

/-- `rs_galois_div`; `none` models the C return value -1 (division by zero). -/
def tdiv (x y : Nat) : Option Nat :=
  if x == 0 then some 0 else if y == 0 then none
  else some (ilogTable ((logTable x : Int) - (logTable y : Int)))

end Lec
