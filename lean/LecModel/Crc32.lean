/-
  LecModel.Crc32 — the two CRC-32 variants the library uses.

  * `crcStd`  : zlib's `crc32(0, buf, len)`: reflected polynomial 0xEDB88320,
                initial value and final xor 0xffffffff, specified bit by bit.
  * `crcAlt`  : `liberasurecode_crc32_alt` (src/utils/chksum/crc32.c): the
                historical variant whose 24-bit shifted register is
                sign-extended because the accumulator is a signed `int`.
                `crcAltT tab` is the function as written in C over a table;
                `crcAlt` instantiates it with the table of the polynomial
                (`LecGen.CrcTable` is shown equal to it in LecProps.C09).
  All register values are `Nat`s below 2^32.
-/
import LecModel.Bytes
namespace Lec

def crcPoly : Nat := 0xEDB88320

/-- one bit of the reflected shift register. -/
def crcBit (c : Nat) : Nat :=
  if c % 2 = 1 then (c >>> 1) ^^^ crcPoly else c >>> 1

def crcBits8 (c : Nat) : Nat :=
  crcBit (crcBit (crcBit (crcBit (crcBit (crcBit (crcBit (crcBit c)))))))

/-- `crc32_tab[i]` as defined by the polynomial. -/
def crcTabEntry (i : Nat) : Nat := crcBits8 i

def crcTable : List Nat := (List.range 256).map crcTabEntry

def crcStdByte (c : Nat) (b : UInt8) : Nat := crcBits8 (c ^^^ b.toNat)

def crcStdRaw (c : Nat) (buf : Bytes) : Nat := buf.foldl crcStdByte c

def crcStd (buf : Bytes) : Nat := crcStdRaw 0xffffffff buf ^^^ 0xffffffff

/-- sign extension of a 24-bit quantity to 32 bits: `(x ^ 0x800000) - 0x800000`
    on 32-bit two's complement. -/
def sext24 (x : Nat) : Nat := if x < 0x800000 then x else x ||| 0xff000000

def crcAltByteT (tab : Nat → Nat) (c : Nat) (b : UInt8) : Nat :=
  tab ((c ^^^ b.toNat) % 256) ^^^ sext24 ((c >>> 8) &&& 0xffffff)

def crcAltT (tab : Nat → Nat) (buf : Bytes) : Nat :=
  buf.foldl (crcAltByteT tab) 0xffffffff ^^^ 0xffffffff

def crcAlt (buf : Bytes) : Nat := crcAltT crcTabEntry buf

/-- the writer-side choice (`set_checksum`, `add_fragment_metadata`). -/
def crcWrite (legacy : Bool) (buf : Bytes) : Nat :=
  if legacy then crcAlt buf else crcStd buf

/-- `getenv("LIBERASURECODE_WRITE_LEGACY_CRC")` interpreted as the C code does:
    set, non-empty and not exactly "0". -/
def legacyFlag : Option String → Bool
  | none => false
  | some s => !(s == "" || s == "0")

end Lec
