/-
  LecModel.RS — the built-in Reed–Solomon Vandermonde code
  (src/builtin/rs_vand/liberasurecode_rs_vand.c).

  * `genEntry k r j`  : closed form of the generator (property C04):
                        δ_rj for r < k, L_j(r)/L_j(k) for r ≥ k.
  * `makeSys k m`     : step-by-step transliteration of
                        `make_systematic_matrix` (flat row-major array);
                        compared with the closed form and with the library
                        for every shape k+m ≤ 32 on every run.
  * `gaussj`          : `gaussj_inversion` on `Vector (Vector Nat n) n`.
  * region operations and encode / decode / reconstruct on payload buffers.
  Functions return `none` where the C code would index out of bounds
  (pivot search returning -1, short buffers, odd tail with a negative char).
-/
import LecModel.Bytes
import LecModel.GF16
namespace Lec

/-! ### closed form -/

/-- L_j(x) = ∏_{i<k, i≠j} (x xor i) -/
def lagL (k j x : Nat) : Nat :=
  (List.range k).foldl (fun acc i => if i = j then acc else gmul acc (x ^^^ i)) 1

def genEntry (k r j : Nat) : Nat :=
  if r < k then (if r = j then 1 else 0)
  else gmul (lagL k j r) (ginv (lagL k j k))

/-! ### make_systematic_matrix, transliterated -/

def vandMatrix (k m : Nat) : Array Nat := Id.run do
  let rows := k + m
  let mut a : Array Nat := Array.replicate (rows * k) 0
  a := a.set! 0 1
  for i in [1:rows] do
    let mut acc := 1
    for j in [0:k] do
      a := a.set! (i * k + j) acc
      acc := tmul acc i
  return a

/-- `get_non_zero_diagonal` -/
def nonZeroDiag (a : Array Nat) (row numRows numCols : Nat) : Option Nat :=
  (List.range (numRows - row)).map (· + row) |>.find? (fun i => a[i * numCols + row]! != 0)

def colMult (a : Array Nat) (base elem col numRows numCols : Nat) : Array Nat := Id.run do
  let mut a := a
  for i in [0:numRows] do
    let p := base + col + i * numCols
    a := a.set! p (tmul a[p]! elem)
  return a

def colMultAdd (a : Array Nat) (elem fromCol toCol numRows numCols : Nat) : Array Nat := Id.run do
  let mut a := a
  for i in [0:numRows] do
    let pt := toCol + i * numCols
    let pf := fromCol + i * numCols
    a := a.set! pt (a[pt]! ^^^ tmul a[pf]! elem)
  return a

def swapRows (a : Array Nat) (r1 r2 numCols : Nat) : Array Nat := Id.run do
  let mut a := a
  for i in [0:numCols] do
    let t := a[r1 * numCols + i]!
    a := a.set! (r1 * numCols + i) a[r2 * numCols + i]!
    a := a.set! (r2 * numCols + i) t
  return a

/-- `make_systematic_matrix(k, m)`; `none` = the C code would use index -1 or
    divide by zero. -/
def makeSys (k m : Nat) : Option (Array Nat) := Id.run do
  let rows := k + m
  let cols := k
  let mut a := vandMatrix k m
  for i in [1:cols] do
    let diag := cols * i + i
    match nonZeroDiag a i rows cols with
    | none => return none
    | some next =>
      if next != i then a := swapRows a next i cols
      if a[diag]! != 1 then
        match tdiv 1 a[diag]! with
        | none => return none
        | some inv => a := colMult a 0 inv i rows cols
      for j in [0:cols] do
        let rowVal := a[i * cols + j]!
        if i != j && rowVal != 0 then
          a := colMultAdd a rowVal i j rows cols
  -- all-XOR first parity (only when there is a parity row; the C code reads the
  -- row unconditionally)
  if m = 0 then return some a
  for i in [0:cols] do
    let rowVal := a[cols * cols + i]!
    if rowVal != 1 then
      match tdiv 1 rowVal with
      | none => return none
      | some inv => a := colMult a (cols * cols) inv i (rows - cols) cols
  return some a

/-! ### Gauss–Jordan inversion -/

abbrev Mat (n : Nat) := Vector (Vector Nat n) n

def Mat.get {n : Nat} (M : Mat n) (i j : Fin n) : Nat := (M[i.val])[j.val]
def Mat.ofFn {n : Nat} (f : Fin n → Fin n → Nat) : Mat n := Vector.ofFn fun i => Vector.ofFn (f i)
def Mat.one (n : Nat) : Mat n := Mat.ofFn fun i j => if i = j then 1 else 0

/-- first row `r ≥ c` with a non-zero entry in column `c` (`get_non_zero_diagonal`). -/
def findPivot {n : Nat} (M : Mat n) (c : Fin n) : Option (Fin n) :=
  (List.finRange n).find? (fun r => decide (c ≤ r) && M.get r c != 0)

def swapM {n : Nat} (X : Mat n) (c p : Fin n) : Mat n :=
  Mat.ofFn fun i j => if i = c then X.get p j else if i = p then X.get c j else X.get i j

def scaleM {n : Nat} (X : Mat n) (c : Fin n) (s : Nat) : Mat n :=
  Mat.ofFn fun i j => if i = c then gmul (X.get c j) s else X.get i j

/-- `row_mult_and_add` of row `c` into every other row `i` with factor `col i`. -/
def elimM {n : Nat} (X : Mat n) (c : Fin n) (col : Fin n → Nat) : Mat n :=
  Mat.ofFn fun i j => if i = c then X.get i j else X.get i j ^^^ gmul (X.get c j) (col i)

/-- one iteration of the outer loop of `gaussj_inversion` (column `c`). -/
def gjStep {n : Nat} (S : Mat n × Mat n) (c : Fin n) : Option (Mat n × Mat n) :=
  match findPivot S.1 c with
  | none => none
  | some p =>
    let M1 := swapM S.1 c p
    let I1 := swapM S.2 c p
    let d := M1.get c c
    let s := if d = 1 then 1 else ginv d
    let M2 := scaleM M1 c s
    let I2 := scaleM I1 c s
    let col := fun i => M2.get i c
    some (elimM M2 c col, elimM I2 c col)

def gjLoop {n : Nat} : List (Fin n) → Mat n × Mat n → Option (Mat n × Mat n)
  | [], S => some S
  | c :: cs, S => match gjStep S c with
    | none => none
    | some S' => gjLoop cs S'

/-- `gaussj_inversion`: the inverse, or `none` where the C code would index row -1. -/
def gaussj {n : Nat} (M : Mat n) : Option (Mat n) :=
  (gjLoop (List.finRange n) (M, Mat.one n)).map (·.2)

/-! ### regions -/

/-- 16-bit host-order (little-endian) words of an even-length buffer. -/
def wordsOf : Bytes → List Nat
  | a :: b :: rest => (a.toNat + 256 * b.toNat) :: wordsOf rest
  | _ => []

def bytesOfWords : List Nat → Bytes
  | [] => []
  | w :: ws => UInt8.ofNat (w % 256) :: UInt8.ofNat (w / 256 % 256) :: bytesOfWords ws

/-- `region_multiply(from, to, mult, xor=1, n)` followed on `n = |from| = |to|` bytes;
    `none`: odd tail byte ≥ 0x80 (negative `char` index). -/
def regionMulXor (src dst : Bytes) (mult : Nat) : Option Bytes :=
  let n := src.length
  let even := n - n % 2
  let ws := List.zipWith (fun s d => d ^^^ gmul s mult) (wordsOf (src.take even)) (wordsOf (dst.take even))
  if n % 2 = 0 then some (bytesOfWords ws)
  else
    let sb := (src.getD (n - 1) 0).toNat
    if sb < 128 then
      some (bytesOfWords ws ++ [dst.getD (n - 1) 0 ^^^ UInt8.ofNat (gmul sb mult % 256)])
    else none

/-- `region_dot_product(from_bufs, to_buf, row, k, bs)` restricted to the first `bs`
    bytes of every buffer. -/
def regionDot (srcs : List Bytes) (row : List Nat) (dst : Bytes) : Option Bytes :=
  (List.zip srcs row).foldlM (fun acc (p : Bytes × Nat) =>
      if p.2 = 1 then some (xorBytes p.1 acc) else regionMulXor p.1 acc p.2) dst

/-- apply `f` to the first `bs` bytes of `buf`; `none` if the buffer is shorter. -/
def onPrefix (buf : Bytes) (bs : Nat) (f : Bytes → Option Bytes) : Option Bytes :=
  if buf.length < bs then none else (f (buf.take bs)).map (· ++ buf.drop bs)

def genRow (G : Nat → Nat → Nat) (k r : Nat) : List Nat := (List.range k).map (G r)

/-- `liberasurecode_rs_vand_encode`: parity buffers are cleared then accumulated. -/
def rsEncode (G : Nat → Nat → Nat) (k m : Nat) (data parity : List Bytes) (bs : Nat) :
    Option (List Bytes) :=
  if data.any (·.length < bs) then none else
  (List.range m).mapM fun i =>
    onPrefix (parity.getD i []) bs fun _ => regionDot (data.map (·.take bs)) (genRow G k (k + i)) (zeros bs)

def matOfRows {n : Nat} (rows : List (List Nat)) : Mat n :=
  Mat.ofFn fun i j => (rows.getD i.val []).getD j.val 0

def matRow {n : Nat} (M : Mat n) (i : Nat) : List Nat := (M.toList.getD i (Vector.replicate n 0)).toList

structure RsPlan (k : Nat) where
  avail : List Nat
  inv : Mat k

/-- shared prologue of decode / reconstruct: `_missing`, first k available, inverse. -/
def rsPlan (G : Nat → Nat → Nat) (k m : Nat) (missing : List Nat) : Option (RsPlan k) :=
  let n := k + m
  let avail := ((List.range n).filter (fun i => !missing.contains i)).take k
  if avail.length < k then none
  else (gaussj (matOfRows (avail.map (genRow G k)))).map fun inv => { avail, inv }

def bufAt (data parity : List Bytes) (k i : Nat) : Bytes :=
  if i < k then data.getD i [] else parity.getD (i - k) []

/-- `liberasurecode_rs_vand_decode(…, rebuild_parity = 1)`; returns the new data and
    parity arrays.  More than `m` missing: the C function returns -1 and leaves
    everything unchanged (the adapter ignores the code). -/
def rsDecode (G : Nat → Nat → Nat) (k m : Nat) (data parity : List Bytes) (missing : List Nat)
    (bs : Nat) : Option (List Bytes × List Bytes) :=
  if missing.length > m then some (data, parity) else
  match rsPlan G k m missing with
  | none => none
  | some pl =>
    let srcs := pl.avail.map fun i => (bufAt data parity k i).take bs
    if pl.avail.any (fun i => (bufAt data parity k i).length < bs) then none else
    let data'? := (List.range k).mapM fun i =>
      if missing.contains i then onPrefix (data.getD i []) bs (regionDot srcs (matRow pl.inv i))
      else some (data.getD i [])
    match data'? with
    | none => none
    | some data' =>
      if data'.any (·.length < bs) then none else
      let parity'? := (List.range m).mapM fun i =>
        if missing.contains (k + i) then
          onPrefix (parity.getD i []) bs (regionDot (data'.map (·.take bs)) (genRow G k (k + i)))
        else some (parity.getD i [])
      parity'?.map fun p => (data', p)

/-- `liberasurecode_rs_vand_reconstruct`: only buffer `dest` changes. -/
def rsReconstruct (G : Nat → Nat → Nat) (k m : Nat) (data parity : List Bytes) (missing : List Nat)
    (dest bs : Nat) : Option (List Bytes × List Bytes) :=
  if missing.length > m then some (data, parity) else
  match rsPlan G k m missing with
  | none => none
  | some pl =>
    if pl.avail.any (fun i => (bufAt data parity k i).length < bs) then none else
    let srcs := pl.avail.map fun i => (bufAt data parity k i).take bs
    if dest < k then
      (onPrefix (data.getD dest []) bs (regionDot srcs (matRow pl.inv dest))).map fun b =>
        (data.set dest b, parity)
    else
      -- parity row restricted to available data, then substitute each missing data row
      let base := ((List.range k).filter (fun i => !missing.contains i)).map (G dest)
      let row0 := base ++ List.replicate (k - base.length) 0
      let row := (missing.filter (· < k)).foldl (fun (row : List Nat) md =>
          List.zipWith (fun r (j : Nat) => r ^^^ gmul (G dest md) ((matRow pl.inv md).getD j 0)) row (List.range k))
          row0
      (onPrefix (parity.getD (dest - k) []) bs (regionDot srcs row)).map fun b =>
        (data, parity.set (dest - k) b)

end Lec
