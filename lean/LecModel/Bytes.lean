/-
  LecModel.Bytes — byte strings, little-endian field access, byte swapping.

  Model conventions (x86-64 little-endian target, see DESIGN.md §2):
  a C buffer is a `List UInt8`; integer fields are `Nat` (the model proves or
  assumes they fit the C type); `rdN buf off` is the C read of an N-bit
  little-endian field at byte offset `off` (bytes beyond the end read as 0 —
  every caller in the model checks the length first, as the C code must).
-/
namespace Lec

abbrev Bytes := List UInt8

/-- little-endian bytes of `n`, exactly `w` of them (`n` is truncated mod 256^w). -/
def leBytes : Nat → Nat → Bytes
  | 0, _ => []
  | w + 1, n => UInt8.ofNat (n % 256) :: leBytes w (n / 256)

/-- little-endian value of a byte list. -/
def leVal : Bytes → Nat
  | [] => 0
  | b :: bs => b.toNat + 256 * leVal bs

def le16 (n : Nat) : Bytes := leBytes 2 n
def le32 (n : Nat) : Bytes := leBytes 4 n
def le64 (n : Nat) : Bytes := leBytes 8 n

/-- read `w` bytes at `off`, zero-extended past the end. -/
def rdBytes (b : Bytes) (off w : Nat) : Bytes :=
  let s := (b.drop off).take w
  s ++ List.replicate (w - s.length) 0

def rd8 (b : Bytes) (off : Nat) : Nat := leVal (rdBytes b off 1)
def rd16 (b : Bytes) (off : Nat) : Nat := leVal (rdBytes b off 2)
def rd32 (b : Bytes) (off : Nat) : Nat := leVal (rdBytes b off 4)
def rd64 (b : Bytes) (off : Nat) : Nat := leVal (rdBytes b off 8)

/-- overwrite `src` into `b` at `off` (C `memcpy(b+off, src, |src|)`); the
    buffer is not extended: bytes that would fall past the end are dropped. -/
def wrBytes (b : Bytes) (off : Nat) (src : Bytes) : Bytes :=
  b.take off ++ (src.take (b.length - off)) ++ b.drop (off + src.length)

/-- `bswap_32`: reverse the four bytes of a 32-bit value. -/
def bswap32 (x : Nat) : Nat := leVal (leBytes 4 x).reverse

/-- `bswap_64`: reverse the eight bytes of a 64-bit value. -/
def bswap64 (x : Nat) : Nat := leVal (leBytes 8 x).reverse

def zeros (n : Nat) : Bytes := List.replicate n 0

/-- byte-wise xor of two equally long buffers (shorter length wins). -/
def xorBytes (a b : Bytes) : Bytes := List.zipWith (· ^^^ ·) a b

end Lec
