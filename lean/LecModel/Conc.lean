/-
  LecModel.Conc — the synchronisation protocol of the registry and of the shared GF tables.

  * a reader–writer lock as a state machine over thread ids, traces of lock operations and
    accesses to the location the lock protects;
  * the access discipline the C code is meant to follow (checked against the skeleton generated
    from the source, LecGen.SyncSkeleton): reads under the shared or exclusive lock, writes under
    the exclusive lock;
  * the reference-counted GF tables: set-up and tear-down are atomic (they run under a mutex)
    and the tables exist exactly while the count is positive.
-/
namespace Lec

inductive Act | rdlock | wrlock | unlock | read | write
deriving Repr, DecidableEq

structure Ev where
  tid : Nat
  act : Act
deriving Repr, DecidableEq

/-- state of one reader–writer lock. -/
structure LockSt where
  readers : List Nat
  writer : Option Nat
deriving Repr, DecidableEq

def LockSt.init : LockSt := ⟨[], none⟩

/-- one step; `none` = the operation cannot happen in this state (the thread would block, or it
    releases a lock it does not hold). Accesses never block. -/
def lockStep (s : LockSt) (e : Ev) : Option LockSt :=
  match e.act with
  | .rdlock => if s.writer.isNone && !s.readers.contains e.tid then some { s with readers := e.tid :: s.readers } else none
  | .wrlock => if s.writer.isNone && s.readers.isEmpty then some { s with writer := some e.tid } else none
  | .unlock =>
    if s.writer == some e.tid then some { s with writer := none }
    else if s.readers.contains e.tid then some { s with readers := s.readers.erase e.tid }
    else none
  | .read | .write => some s

/-- the access discipline, judged in the state before the event. -/
def accessOK (s : LockSt) (e : Ev) : Bool :=
  match e.act with
  | .read => s.readers.contains e.tid || s.writer == some e.tid
  | .write => s.writer == some e.tid
  | _ => true

/-- run a trace: the final state if every step is possible and every access respects the
    discipline. -/
def runTrace : LockSt → List Ev → Option LockSt
  | s, [] => some s
  | s, e :: es => if accessOK s e then (match lockStep s e with | some s' => runTrace s' es | none => none) else none

def isAccess (a : Act) : Bool := a == .read || a == .write
def conflicting (a b : Act) : Bool := isAccess a && isAccess b && (a == .write || b == .write)

/-! ### reference-counted tables -/

structure TabSt where
  count : Nat
  built : Bool
deriving Repr, DecidableEq

/-- `rs_galois_init_tables` / `rs_galois_deinit_tables` as atomic steps. -/
def tabInit (s : TabSt) : TabSt := if s.count > 0 then { s with count := s.count + 1 } else ⟨1, true⟩
def tabDeinit (s : TabSt) : TabSt :=
  if s.count = 0 then s else if s.count = 1 then ⟨0, false⟩ else { s with count := s.count - 1 }

end Lec
