/-
  LecModel.Frontend — the public API of src/erasurecode.c and its helpers
  (erasurecode_preprocessing.c, erasurecode_postprocessing.c), function by
  function, over values instead of pointers.

  * a fragment buffer is `Bytes`; a `char**` array with NULL holes is
    `List (Option Bytes)`;
  * a backend is a record of functions (`Backend`) that may fail or "crash"
    (`Fail.crash` marks an out-of-bounds access of the C code);
  * integer conversions the C code performs (`uint32_t`→`int`, `uint64_t`→`int`)
    are explicit (`toI32`).
-/
import LecModel.Header
namespace Lec

/-- library error codes (positive values; the API returns their negation). -/
def EBACKENDNOTSUPP : Int := 200
def EBACKENDINITERR : Int := 202
def EBACKENDNOTAVAIL : Int := 204
def EBADCHKSUM : Int := 205
def EINVALIDPARAMS : Int := 206
def EBADHEADER : Int := 207
def EINSUFFFRAGS : Int := 208
def ENOMEM : Int := 12

inductive Fail
  | rc (code : Int)     -- negative return code
  | crash               -- the C code would access memory out of bounds / divide by zero
deriving Repr, DecidableEq

abbrev R (α : Type) := Except Fail α

def failRc {α : Type} (e : Int) : R α := .error (.rc (-e))

structure Env where
  libver : Nat          -- LIBERASURECODE_VERSION of the running library
  legacy : Bool         -- LIBERASURECODE_WRITE_LEGACY_CRC is "set"

/-- what the front end needs to know about a created instance. -/
structure Inst where
  beId : Nat            -- ec_backend_id_t
  beVer : Nat           -- backend_*.ec_backend_version
  k : Nat
  m : Nat
  w : Nat               -- args.uargs.w as stored back by the backend's init
  ct : Nat              -- args.uargs.ct
deriving Repr, DecidableEq

/-- the backend operation table (`struct ec_backend_op_stubs`) over values.  Buffers
    passed in are the *payload* areas; missing ones are zero-filled by the caller. -/
structure Backend where
  encode : (data parity : List Bytes) → (bs : Nat) → R (List Bytes × List Bytes)
  decode : (data parity : List Bytes) → (missing : List Nat) → (bs : Nat) → R (List Bytes × List Bytes)
  reconstruct : (data parity : List Bytes) → (missing : List Nat) → (dest : Nat) → (bs : Nat) →
      R (List Bytes × List Bytes)
  needed : (rec excl : List Nat) → R (List Nat)
  elementSize : Nat
  compat : Nat → Bool

/-! ### sizes -/

/-- `get_aligned_data_size(instance, data_len)` for every backend except jerasure cauchy. -/
def alignedSizeW (k w len : Nat) : Nat :=
  let am := k * (w / 8)
  (len + am - 1) / am * am

def alignedSize (i : Inst) (len : Nat) : Nat := alignedSizeW i.k i.w len

/-- `liberasurecode_get_aligned_data_size` (uses element_size / 8). -/
def alignedSizeQ (be : Backend) (i : Inst) (len : Nat) : Nat := alignedSizeW i.k be.elementSize len

def minEncodeSizeQ (be : Backend) (i : Inst) : Nat := alignedSizeQ be i 1

/-- `liberasurecode_get_fragment_size` (backend metadata size is 0 for all built-ins). -/
def fragmentSizeQ (i : Inst) (len : Nat) : Nat := alignedSize i len / i.k

/-! ### encode -/

/-- `alloc_fragment_buffer(n)`: zeroed, magic set. -/
def freshFragment (n : Nat) : Bytes := setMagic (zeros (Hdr.size + n)) magicC

/-- the data-copy loop of `prepare_fragments_for_encode`: k payloads of `bs` bytes. -/
def splitLoop : Nat → Nat → Bytes → List Bytes
  | 0, _, _ => []
  | k + 1, bs, rest =>
    let piece := rest.take bs
    (piece ++ zeros (bs - piece.length)) :: splitLoop k bs (rest.drop bs)

/-- `set_checksum(ct, fragment, blocksize)` -/
def setChecksum (env : Env) (f : Bytes) (ct bs : Nat) : Bytes :=
  let f := setMismatch (setCtype f ct) 0
  if ct % 256 == 2 then setChk0 f (crcWrite env.legacy ((fPayload f).take bs)) else f

/-- `add_fragment_metadata(be, fragment, idx, orig_data_size, blocksize, ct, add_chksum)`;
    the fragment already carries the magic. -/
def addFragmentMetadata (env : Env) (i : Inst) (f : Bytes) (idx orig bs : Nat) (addChk : Bool) : Bytes :=
  let f := setLibver f env.libver
  let f := setIdx f idx
  let f := setOrig f (toI32 orig).toNat   -- set_orig_data_size takes an int
  let f := setSize f bs
  let f := setBeId f i.beId
  let f := setBeVer f i.beVer
  let f := setBmSize f 0
  let f := if addChk then setChecksum env f i.ct bs else f
  setMetaCrc f (crcWrite env.legacy (fMetaBytes f))

/-- put a payload into a fresh fragment buffer. -/
def fragmentWithPayload (p : Bytes) : Bytes := wrBytes (freshFragment p.length) Hdr.size p

/-- The size guard of `liberasurecode_encode`: all internal size arithmetic is done in C `int`, so an
    input whose aligned length plus a fragment header does not fit is refused
    (`orig_data_size > INT_MAX - get_aligned_data_size(instance, 1) - sizeof(fragment_header_t)`). -/
def encodeTooLarge (i : Inst) (len : Nat) : Bool :=
  decide (len > 2147483647 - alignedSize i 1 - Hdr.size)

/-- `liberasurecode_encode` after argument checks: the k+m fragments. -/
def encode (env : Env) (be : Backend) (i : Inst) (data : Bytes) : R (List Bytes) :=
  if encodeTooLarge i data.length then failRc EINVALIDPARAMS else do
  let len := data.length
  let bs := alignedSize i len / i.k
  let dataP := splitLoop i.k bs data
  let parityP := List.replicate i.m (zeros bs)
  let (dataP, parityP) ← be.encode dataP parityP bs
  let frags := (dataP ++ parityP).zipIdx.map fun (p, idx) =>
    addFragmentMetadata env i (fragmentWithPayload p) idx len bs true
  pure frags

/-! ### metadata and validation -/

def swapMeta (m : Meta) : Meta :=
  { m with idx := bswap32 m.idx, size := bswap32 m.size, bmSize := bswap32 m.bmSize,
           origSize := bswap64 m.origSize, chksum := m.chksum.map bswap32,
           beVer := bswap32 m.beVer }

/-- `liberasurecode_get_fragment_metadata` (fragment non-NULL, at least a header long). -/
def getFragmentMetadata (f : Bytes) : R Meta :=
  if isInvalidHeader f then failRc EBADHEADER else
  let m0 := parseMeta f
  let m1? : Option Meta :=
    if fMagic f != magicC then
      (if bswap32 (fMagic f) != magicC then none else some (swapMeta m0))
    else some m0
  match m1? with
  | none => failRc EINVALIDPARAMS
  | some m1 =>
    if m1.ctype == 2 then
      let stored := m1.chksum.getD 0 0
      let payload := (fPayload f).take m1.size
      let mismatch := if stored == crcStd payload then 0 else if stored == crcAlt payload then 0 else 1
      pure { m1 with mismatch := mismatch }
    else pure m1

/-- `liberasurecode_verify_fragment_metadata` then the tail of `is_invalid_fragment_metadata`;
    returns 0 or a negative code. -/
def invalidFragmentMetadata (be : Backend) (i : Inst) (md : Meta) : Int :=
  if md.idx ≥ i.k + i.m then -EBADHEADER
  else if md.beId != i.beId then -EBADHEADER
  else if !be.compat md.beVer then -EBADHEADER
  else if md.mismatch == 1 then -EBADCHKSUM
  else 0

/-- `is_invalid_fragment(desc, fragment)` for a live descriptor and non-NULL fragment. -/
def isInvalidFragment (env : Env) (be : Backend) (i : Inst) (f : Bytes) : Bool :=
  if fMagic f != magicC then true                 -- get_libec_version fails
  else if fLibver f > env.libver then true
  else match getFragmentMetadata f with
    | .error _ => true
    | .ok md => invalidFragmentMetadata be i md != 0

/-- `liberasurecode_verify_stripe_metadata` (fragments non-NULL, count > 0): reads the
    metadata straight out of each buffer. -/
def verifyStripeMetadata (be : Backend) (i : Inst) (frags : List Bytes) : Int :=
  if frags.isEmpty then -EINVALIDPARAMS else
  match (frags.map fun f => invalidFragmentMetadata be i (parseMeta f)).find? (· < 0) with
  | some e => e
  | none => 0

/-! ### decode helpers -/

/-- `get_fragment_idx`: -1 unless the magic is the native one. -/
def getFragmentIdx (f : Bytes) : Int := if fMagic f != magicC then -1 else toI32 (fIdx f)
def getPayloadSize (f : Bytes) : Int := if fMagic f != magicC then -1 else toI32 (fSize f)
def getOrigDataSize (f : Bytes) : Int := if fMagic f != magicC then -1 else toI32 (fOrig f)

/-- one iteration of the scan loop of `fragments_to_string`: validates the fragment and
    places the first fragment seen for each data index.  State: (orig_data_size or -1, slots). -/
def f2sStep (k : Nat) (st : Except Int (Int × List (Option Bytes))) (f : Bytes) :
    Except Int (Int × List (Option Bytes)) :=
  match st with
  | .error e => .error e
  | .ok (orig, slots) =>
    if getFragmentIdx f < 0 || getPayloadSize f < 0 then .error (-EBADHEADER)
    else if orig ≥ 0 && getOrigDataSize f != orig then .error (-EBADHEADER)
    else
      let orig' := if orig < 0 then getOrigDataSize f else orig
      if getFragmentIdx f ≥ (k : Int) then .ok (orig', slots)
      else match slots.getD (getFragmentIdx f).toNat none with
        | some _ => .ok (orig', slots)
        | none => .ok (orig', slots.set (getFragmentIdx f).toNat (some f))

/-- the copy loop of `fragments_to_string` over the k data fragments in index order. -/
def f2sCopy : List Bytes → Nat → Bytes
  | [], _ => []
  | f :: fs, remaining =>
    if remaining = 0 then [] else
    let fsz := (getPayloadSize f).toNat
    let n := if remaining > fsz then fsz else remaining
    let piece := (fPayload f).take n
    (piece ++ zeros (n - piece.length)) ++ f2sCopy fs (remaining - n)

/-- `fragments_to_string`: the string, or the non-zero return code (-1: not all data
    fragments present; -EBADHEADER: bad index/size or inconsistent original size). -/
def fragmentsToString (k : Nat) (frags : List Bytes) : Except Int Bytes :=
  if frags.length < k then .error (-1) else
  match frags.foldl (f2sStep k) (.ok (-1, List.replicate k none)) with
  | .error e => .error e
  | .ok (orig, slots) =>
    if slots.any Option.isNone then .error (-1) else
    let out := f2sCopy (slots.filterMap id) orig.toNat
    .ok (out ++ zeros (orig.toNat - out.length))

/-- one iteration of the placement loop of `get_fragment_partition`. -/
def partitionStep (k m : Nat) (st : Except Int (List (Option Bytes) × List (Option Bytes))) (f : Bytes) :
    Except Int (List (Option Bytes) × List (Option Bytes)) :=
  match st with
  | .error e => .error e
  | .ok (d, p) =>
    if getFragmentIdx f < 0 || getFragmentIdx f ≥ ((k + m : Nat) : Int) then .error (-EBADHEADER)
    else if (getFragmentIdx f).toNat < k then .ok (d.set (getFragmentIdx f).toNat (some f), p)
    else .ok (d, p.set ((getFragmentIdx f).toNat - k) (some f))

/-- the indexes whose slot is still empty, data first. -/
def missingOf (k m : Nat) (d p : List (Option Bytes)) : List Nat :=
  ((List.range k).filter fun i => (d.getD i none).isNone) ++
  (((List.range m).filter fun i => (p.getD i none).isNone).map (· + k))

/-- `get_fragment_partition`: (data, parity, missing) or an error code. -/
def getFragmentPartition (k m : Nat) (frags : List Bytes) :
    Except Int (List (Option Bytes) × List (Option Bytes) × List Nat) :=
  match frags.foldl (partitionStep k m) (.ok (List.replicate k none, List.replicate m none)) with
  | .error e => .error e
  | .ok (d, p) =>
    if (missingOf k m d p).length > m then .error (-EINSUFFFRAGS) else .ok (d, p, missingOf k m d p)

/-- `prepare_fragments_for_decode`: fills the holes with fresh zeroed fragments of the
    caller-declared length and reads orig_data_size / payload size from the first
    available fragment (data first, then parity). -/
def prepareForDecode (k m : Nat) (data parity : List (Option Bytes)) (missing : List Nat)
    (fragLen : Nat) : Except Int (List Bytes × List Bytes × Int × Int) :=
  let fill (o : Option Bytes) : Bytes :=
    match o with
    | some f => f
    | none => freshFragment (fragLen - Hdr.size)
  let d := data.map fill
  let p := parity.map fill
  let firstAvail := ((List.range (k + m)).filter fun i => !missing.contains i).head?
  match firstAvail with
  | none => .ok (d, p, -1, -1)
  | some i =>
    let f := if i < k then d.getD i [] else p.getD (i - k) []
    let orig := getOrigDataSize f
    if orig < 0 then .error (-EBADHEADER)
    else .ok (d, p, orig, getPayloadSize f)

/-- replace the payload area (everything after the header) of a fragment buffer. -/
def withPayload (f : Bytes) (p : Bytes) : Bytes := f.take Hdr.size ++ p

/-- after the backend decode: store the payloads back and regenerate the headers of the
    data fragments that were missing (`init_fragment_header` + `add_fragment_metadata`
    without checksum). -/
def regenData (env : Env) (i : Inst) (d dp : List Bytes) (missing : List Nat) (orig bs : Nat) : List Bytes :=
  (List.zip d dp).zipIdx.map fun ((f, pl), idx) =>
    if missing.contains idx then
      addFragmentMetadata env i (setMagic (withPayload f pl) magicC) idx orig bs false
    else withPayload f pl

/-- `fragment_exceeds_length(fragment, fragment_len)`: the (raw, host-order) header announces more
    payload plus backend metadata than the `fragment_len` the caller passed can hold.  Callers have
    checked `fragLen ≥ Hdr.size`. -/
def fragExceedsLength (f : Bytes) (fragLen : Nat) : Bool :=
  decide (fragLen - Hdr.size < fSize f + fBmSize f)

/-- the test of the header-validation loop of decode / reconstruct. -/
def gateBad (fragLen : Nat) (f : Bytes) : Bool := isInvalidHeader f || fragExceedsLength f fragLen

/-- `liberasurecode_decode` for a live descriptor and non-NULL pointers. -/
def decode (env : Env) (be : Backend) (i : Inst) (frags : List Bytes) (fragLen : Nat)
    (force : Bool) : R Bytes :=
  let k := i.k
  let m := i.m
  if frags.length < k then failRc EINSUFFFRAGS else
  if fragLen < Hdr.size then failRc EBADHEADER else
  if frags.any (gateBad fragLen) then failRc EBADHEADER else
  -- forced metadata checks: only fragments that validate take part at all
  let frags := if force then frags.filter (fun f => !isInvalidFragment env be i f) else frags
  if force && frags.length < k then failRc EINSUFFFRAGS else
  let fast := if i.beId != 5 && i.beId != 8 then fragmentsToString k frags else .error (-1)
  match fast with
  | .ok out => pure out
  | .error _ =>
    match getFragmentPartition k m frags with
    | .error e => .error (.rc e)
    | .ok (d, p, missing) =>
      match prepareForDecode k m d p missing fragLen with
      | .error e => .error (.rc e)
      | .ok (d, p, orig, psize) => do
        if psize < 0 then .error .crash else
        let bs := psize.toNat
        let (dp, pp) ← be.decode (d.map fPayload) (p.map fPayload) missing bs
        let _ := pp
        match fragmentsToString k (regenData env i d dp missing orig.toNat bs) with
        | .ok out => pure out
        | .error e => .error (.rc e)

/-- `liberasurecode_reconstruct_fragment` for a live descriptor and non-NULL pointers;
    returns the `fragLen` bytes written to `out_fragment`. -/
def reconstruct (env : Env) (be : Backend) (i : Inst) (frags : List Bytes) (fragLen : Nat)
    (dest : Int) : R Bytes :=
  let k := i.k
  let m := i.m
  if dest < 0 || dest ≥ ((k + m : Nat) : Int) then failRc EINVALIDPARAMS else
  let dest := dest.toNat
  if fragLen < Hdr.size then failRc EBADHEADER else
  if frags.any (gateBad fragLen) then failRc EBADHEADER else
  match getFragmentPartition k m frags with
  | .error e => .error (.rc e)
  | .ok (d, p, missing) =>
    if !missing.contains dest then
      let f := (if dest < k then d.getD dest none else p.getD (dest - k) none).getD []
      if f.length < fragLen then .error .crash else pure (f.take fragLen)
    else
      match prepareForDecode k m d p missing fragLen with
      | .error e => .error (.rc e)
      | .ok (d, p, orig, psize) => do
        if psize < 0 then .error .crash else
        let bs := psize.toNat
        let (dp, pp) ← be.reconstruct (d.map fPayload) (p.map fPayload) missing dest bs
        let f0 := if dest < k then withPayload (d.getD dest []) (dp.getD dest [])
                  else withPayload (p.getD (dest - k) []) (pp.getD (dest - k) [])
        let f := addFragmentMetadata env i (setMagic f0 magicC) dest orig.toNat bs true
        if f.length < fragLen then .error .crash else pure (f.take fragLen)

/-- `liberasurecode_fragments_needed` for a live descriptor and non-NULL lists. -/
def fragmentsNeeded (be : Backend) (rec excl : List Nat) : R (List Nat) := be.needed rec excl

end Lec
