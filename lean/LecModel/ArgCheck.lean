/-
  LecModel.ArgCheck — argument validation of every public entry point, over argument
  *classes* (the harness enumerates the same classes against the real library).

  descriptor class: 0 live, anything else (never issued, destroyed, zero, negative) dead.
  pointer class:    0 valid, 1 NULL.
  The "valid" arguments are those of a fresh stripe of the instance; the harness documents the
  meaning of each count / length / destination class (suites3.c).
-/
import LecModel.Frontend
namespace Lec

inductive Api
  | encode | encodeCleanup | decode | decodeCleanup | reconstruct | fragmentsNeeded
  | getMetadata | isInvalidFragment | verifyStripe | sizes | destroy | createNullArgs | backendAvailable
deriving Repr, DecidableEq

/-- outcome: a return code, or the three size results. -/
inductive ArgOut | rc (c : Int) | triple (a b c : Int)
deriving Repr, DecidableEq

structure ArgEnv where
  k : Nat
  m : Nat
  aligned100 : Int      -- size results for a live instance and len = 100
  frag100 : Int
  minEnc : Int
  avail : Nat → Bool

def live (c : Nat) : Bool := c == 0

/-- count classes of decode: 0 all k+m fragments; 1 zero, 2 minus one, 3 k-1 — the non-zero
    classes are all below k (k ≥ 1). -/
def countShort (c : Nat) : Bool := c != 0

/-- length classes: 0 the true fragment length (≥ 80), others shorter than a header. -/
def lenShort (c : Nat) : Bool := c != 0

def argCheck (e : ArgEnv) (api : Api) (a : List Nat) : ArgOut :=
  let g (i : Nat) := a.getD i 0
  match api with
  | .encode =>
    if g 1 == 1 then .rc (-EINVALIDPARAMS) else if g 2 == 1 then .rc (-EINVALIDPARAMS)
    else if g 3 == 1 then .rc (-EINVALIDPARAMS) else if g 4 == 1 then .rc (-EINVALIDPARAMS)
    else if !live (g 0) then .rc (-EBACKENDNOTAVAIL) else .rc 0
  | .encodeCleanup => if !live (g 0) then .rc (-EBACKENDNOTAVAIL) else .rc 0
  | .decode =>
    if !live (g 0) then .rc (-EBACKENDNOTAVAIL)
    else if g 1 == 1 then .rc (-EINVALIDPARAMS) else if g 2 == 1 then .rc (-EINVALIDPARAMS)
    else if g 3 == 1 then .rc (-EINVALIDPARAMS)
    else if countShort (g 4) then .rc (-EINSUFFFRAGS)
    else if lenShort (g 5) then .rc (-EBADHEADER) else .rc 0
  | .decodeCleanup => if !live (g 0) then .rc (-EBACKENDNOTAVAIL) else .rc 0
  | .reconstruct =>
    -- a: desc, frags NULL, out NULL, count class (0: all but fragment 0; 1: zero; 2: -1),
    --    length class, destination class (0: index 0; 1: -1; 2: k+m; 3: INT_MAX)
    if !live (g 0) then .rc (-EBACKENDNOTAVAIL)
    else if g 1 == 1 then .rc (-EINVALIDPARAMS) else if g 2 == 1 then .rc (-EINVALIDPARAMS)
    else if g 5 != 0 then .rc (-EINVALIDPARAMS)
    else if lenShort (g 4) then .rc (-EBADHEADER)
    else if g 3 != 0 then .rc (-EINSUFFFRAGS) else .rc 0
  | .fragmentsNeeded =>
    if !live (g 0) then .rc (-EBACKENDNOTAVAIL)
    else if g 1 == 1 then .rc (-EINVALIDPARAMS) else if g 2 == 1 then .rc (-EINVALIDPARAMS)
    else if g 3 == 1 then .rc (-EINVALIDPARAMS) else .rc 0
  | .getMetadata =>
    if g 1 == 1 then .rc (-EINVALIDPARAMS) else if g 2 == 1 then .rc (-EINVALIDPARAMS) else .rc 0
  | .isInvalidFragment => if !live (g 0) then .rc 1 else if g 1 == 1 then .rc 1 else .rc 0
  | .verifyStripe =>
    -- a: desc, frags NULL, count class (0: k+m; 1: zero; 2: negative)
    if g 1 == 1 then .rc (-EINVALIDPARAMS) else if g 2 != 0 then .rc (-EINVALIDPARAMS)
    else if !live (g 0) then .rc (-EINVALIDPARAMS) else .rc 0
  | .sizes =>
    if !live (g 0) then .triple (-EBACKENDNOTAVAIL) (-EBACKENDNOTAVAIL) (-EBACKENDNOTAVAIL)
    else .triple e.aligned100 e.frag100 e.minEnc
  | .destroy => .rc (-EBACKENDNOTAVAIL)       -- every class names a descriptor that is not live
  | .createNullArgs => .rc (-EINVALIDPARAMS)
  | .backendAvailable =>
    -- a[1]: backend id as passed (the harness passes -1 as a huge unsigned value)
    if g 1 ≥ 9 then .rc 0 else if e.avail (g 1) then .rc 1 else .rc 0

def ArgOut.allNeg : ArgOut → Bool
  | .rc c => c < 0
  | .triple a b c => a < 0 && b < 0 && c < 0

def ArgOut.isOne : ArgOut → Bool
  | .rc c => c == 1
  | .triple _ _ _ => false

/-- does the argument vector contain an invalid component (for the APIs that return codes)? -/
def hasInvalid (api : Api) (a : List Nat) : Bool :=
  let g (i : Nat) := a.getD i 0
  match api with
  | .encode => !live (g 0) || g 1 == 1 || g 2 == 1 || g 3 == 1 || g 4 == 1
  | .encodeCleanup | .decodeCleanup => !live (g 0)
  | .decode => !live (g 0) || g 1 == 1 || g 2 == 1 || g 3 == 1 || g 4 != 0 || g 5 != 0
  | .reconstruct => !live (g 0) || g 1 == 1 || g 2 == 1 || g 3 != 0 || g 4 != 0 || g 5 != 0
  | .fragmentsNeeded => !live (g 0) || g 1 == 1 || g 2 == 1 || g 3 == 1
  | .getMetadata => g 1 == 1 || g 2 == 1
  | .isInvalidFragment => !live (g 0) || g 1 == 1
  | .verifyStripe => !live (g 0) || g 1 == 1 || g 2 != 0
  | .sizes => !live (g 0)
  | .destroy => true
  | .createNullArgs => true
  | .backendAvailable => false

end Lec
