/-
  LecModel.Backends — the built-in backends as `Backend` records
  (src/backends/{rs_vand,xor,null}/*.c adapters over LecModel.RS / LecModel.Xor).
-/
import LecModel.Frontend
import LecModel.RS
import LecModel.Xor
namespace Lec

def liftOpt {α : Type} : Option α → R α
  | some a => .ok a
  | none => .error .crash

/-- `convert_list_to_bitmap` + `(missing_bm & (1 << i))` for i < 32: membership. -/
def inBitmap (l : List Nat) (i : Nat) : Bool := l.contains i

/-- `liberasurecode_rs_vand_min_fragments`: first k indexes outside both lists, or -1. -/
def rsNeeded (k m : Nat) (rec excl : List Nat) : R (List Nat) :=
  let cand := (List.range (k + m)).filter fun i => !(inBitmap rec i || inBitmap excl i)
  if cand.length ≥ k && k > 0 then .ok (cand.take k) else .error (.rc (-1))

/-- backend `liberasurecode_rs_vand` with generator accessor `G`. -/
def rsBackend (G : Nat → Nat → Nat) (k m : Nat) : Backend where
  encode d p bs := (liftOpt (rsEncode G k m d p bs)).map fun p' => (d, p')
  decode d p missing bs := liftOpt (rsDecode G k m d p missing bs)
  reconstruct d p missing dest bs := liftOpt (rsReconstruct G k m d p missing dest bs)
  needed := rsNeeded k m
  elementSize := 16
  compat v := v == 0x010000

/-- run a plan on the first `bs` bytes of every payload buffer. -/
def xorRunBytes (ops : List Op) (data parity : List Bytes) (bs : Nat) : R (List Bytes × List Bytes) :=
  if data.any (·.length < bs) || parity.any (·.length < bs) then .error .crash else
  let s0 : XState Bytes := { data := data.map (·.take bs), parity := parity.map (·.take bs), tmp := zeros bs }
  let s := runOps xorBytes (zeros bs) ops s0
  .ok ((List.zip s.data data).map (fun (a, b) => a ++ b.drop bs),
       (List.zip s.parity parity).map (fun (a, b) => a ++ b.drop bs))

def xerrToFail : XErr → Fail
  | .neg1 => .rc (-1)
  | .neg2 => .rc (-2)
  | .oob => .crash

def runPlan (plan : Except XErr (List Op)) (d p : List Bytes) (bs : Nat) : R (List Bytes × List Bytes) :=
  match plan with
  | .error e => .error (xerrToFail e)
  | .ok ops => xorRunBytes ops d p bs

/-- backend `flat_xor_hd` over table `T`. -/
def xorBackend (T : XorTable) : Backend where
  encode d p bs := xorRunBytes T.encodeOps d p bs
  decode d p missing bs := runPlan (T.planDecode missing) d p bs
  reconstruct d p missing dest bs := runPlan (T.planReconOne missing dest) d p bs
  needed rec excl := match T.fragmentsNeeded rec excl with
    | some l => .ok l
    | none => .error (.rc (-1))
  elementSize := 32
  compat v := v == 0x010000

/-- backend `null`: every operation succeeds without touching anything. -/
def nullBackend : Backend where
  encode d p _ := .ok (d, p)
  decode d p _ _ := .ok (d, p)
  reconstruct d p _ _ _ := .ok (d, p)
  needed _ _ := .ok []
  elementSize := 32
  compat _ := true

end Lec
