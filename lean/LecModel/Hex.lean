/-
  LecModel.Hex — hex encoding for the line protocol (driver only; no theorem
  depends on this file).
-/
import LecModel.Bytes
namespace Lec

def hexDigit (n : Nat) : Char :=
  if n < 10 then Char.ofNat (48 + n) else Char.ofNat (87 + n)

def toHex (b : Bytes) : String :=
  if b.isEmpty then "-" else
  String.ofList (b.foldr (fun x acc => hexDigit (x.toNat / 16) :: hexDigit (x.toNat % 16) :: acc) [])

def hexVal? (c : Char) : Option Nat :=
  if '0' ≤ c ∧ c ≤ '9' then some (c.toNat - 48)
  else if 'a' ≤ c ∧ c ≤ 'f' then some (c.toNat - 87)
  else none

def ofHexLoop : List Char → Array UInt8 → Option (Array UInt8)
  | [], acc => some acc
  | [_], _ => none
  | a :: b :: rest, acc =>
    match hexVal? a, hexVal? b with
    | some x, some y => ofHexLoop rest (acc.push (UInt8.ofNat (16 * x + y)))
    | _, _ => none

/-- `-` denotes the empty string in the protocol. -/
def ofHex? (s : String) : Option Bytes :=
  if s == "-" then some [] else (ofHexLoop s.toList #[]).map Array.toList

end Lec
