/-
  LecModel.Registry — the instance registry of src/erasurecode.c (`active_instances`,
  `next_backend_desc`, `liberasurecode_backend_alloc_desc`, register / unregister, create /
  destroy) and the reference-counted GF tables of rs_galois.c, as a state machine.
-/
import LecModel.Create
namespace Lec

structure Registry where
  live : List (Int × Inst)   -- head = most recently registered (SLIST_INSERT_HEAD)
  next : Int                 -- next_backend_desc (a C int)
  rsRef : Nat                -- init_counter of rs_galois.c: live rs_vand instances
deriving Repr

def Registry.init : Registry := { live := [], next := 0, rsRef := 0 }

def intMax : Int := 2147483647

/-- `if (++next_backend_desc <= 0) next_backend_desc = 1;` with the int wrapping at INT_MAX. -/
def bumpDesc (x : Int) : Int :=
  let y := if x = intMax then -intMax - 1 else x + 1
  if y ≤ 0 then 1 else y

/-- `liberasurecode_backend_alloc_desc`: (descriptor, new counter); `fuel` bounds the loop. -/
def allocDesc (liveDescs : List Int) : Nat → Int → Option (Int × Int)
  | 0, _ => none
  | fuel + 1, next =>
    let n := bumpDesc next
    if liveDescs.contains n then allocDesc liveDescs fuel n else some (n, n)

def Registry.lookup (r : Registry) (desc : Int) : Option Inst :=
  (r.live.find? (·.1 == desc)).map (·.2)

/-- `liberasurecode_instance_create`: new state and the descriptor, or the error code
    (state unchanged). -/
def Registry.create (r : Registry) (avail : Nat → Bool) (id k m w hd : Int) (ct : Nat) : Registry × Int :=
  match Lec.create avail id k m w hd ct with
  | .error e => (r, e)
  | .ok inst =>
    match allocDesc (r.live.map (·.1)) (r.live.length + 2) r.next with
    | none => (r, -1)
    | some (d, nx) =>
      ({ live := (d, inst) :: r.live, next := nx, rsRef := if inst.beId == 6 then r.rsRef + 1 else r.rsRef }, d)

/-- `liberasurecode_instance_destroy`. -/
def Registry.destroy (r : Registry) (desc : Int) : Registry × Int :=
  match r.lookup desc with
  | none => (r, -EBACKENDNOTAVAIL)
  | some inst =>
    ({ r with live := r.live.filter (·.1 != desc),
              rsRef := if inst.beId == 6 then r.rsRef - 1 else r.rsRef }, 0)

/-- the GF tables exist exactly while some rs_vand instance is live. -/
def Registry.tablesPresent (r : Registry) : Bool := r.rsRef > 0

end Lec
