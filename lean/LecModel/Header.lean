/-
  LecModel.Header — the 80-byte fragment header.

  Two descriptions are kept apart on purpose:
  * the *specification serializer* `Header.bytes` (written from the wire-format
    text of property C07: field, width, offset), and
  * the *raw accessors / setters* (`fIdx`, `setIdx`, …) that mirror the C
    getters/setters of erasurecode_helpers.c operating on a byte buffer.
  LecProofs.HeaderLemmas proves that the setter sequence used by
  `add_fragment_metadata` produces exactly `Header.bytes`.
-/
import LecModel.Bytes
import LecModel.Crc32
namespace Lec

/- golden layout (property C07); LecGen.HeaderLayout is the same thing extracted
   from the C struct with sizeof/offsetof on every run. -/
namespace Hdr
def size : Nat := 80
def metaSize : Nat := 59
def offIdx : Nat := 0
def offSize : Nat := 4
def offBmSize : Nat := 8
def offOrig : Nat := 12
def offCtype : Nat := 20
def offChksum : Nat := 21
def offMismatch : Nat := 53
def offBeId : Nat := 54
def offBeVer : Nat := 55
def offMagic : Nat := 59
def offLibver : Nat := 63
def offMetaCrc : Nat := 67
def offPad : Nat := 71
def padLen : Nat := 9
def layout : List Nat := [size, metaSize, offIdx, offSize, offBmSize, offOrig, offCtype, offChksum,
  offMismatch, offBeId, offBeVer, offMagic, offLibver, offMetaCrc, offPad]
end Hdr

def magicC : Nat := 0x0b0c5ecc

/-- `fragment_metadata_t` as logical values. -/
structure Meta where
  idx : Nat
  size : Nat
  bmSize : Nat
  origSize : Nat
  ctype : Nat
  chksum : List Nat      -- LIBERASURECODE_MAX_CHECKSUM_LEN = 8 words
  mismatch : Nat
  beId : Nat
  beVer : Nat
deriving Repr, DecidableEq

structure Header where
  md : Meta
  magic : Nat
  libver : Nat
  metaCrc : Nat
deriving Repr, DecidableEq

/-- specification serializer of the 59 metadata bytes. -/
def Meta.bytes (m : Meta) : Bytes :=
  le32 m.idx ++ le32 m.size ++ le32 m.bmSize ++ le64 m.origSize ++
  [UInt8.ofNat m.ctype] ++ (m.chksum.flatMap le32) ++
  [UInt8.ofNat m.mismatch, UInt8.ofNat m.beId] ++ le32 m.beVer

/-- specification serializer of the whole 80-byte header (padding is zero). -/
def Header.bytes (h : Header) : Bytes :=
  h.md.bytes ++ le32 h.magic ++ le32 h.libver ++ le32 h.metaCrc ++ zeros Hdr.padLen

/-! raw field access on a fragment buffer (the C getters) -/
def fIdx (f : Bytes) : Nat := rd32 f Hdr.offIdx
def fSize (f : Bytes) : Nat := rd32 f Hdr.offSize
def fBmSize (f : Bytes) : Nat := rd32 f Hdr.offBmSize
def fOrig (f : Bytes) : Nat := rd64 f Hdr.offOrig
def fCtype (f : Bytes) : Nat := rd8 f Hdr.offCtype
def fChk (f : Bytes) (i : Nat) : Nat := rd32 f (Hdr.offChksum + 4 * i)
def fMismatch (f : Bytes) : Nat := rd8 f Hdr.offMismatch
def fBeId (f : Bytes) : Nat := rd8 f Hdr.offBeId
def fBeVer (f : Bytes) : Nat := rd32 f Hdr.offBeVer
def fMagic (f : Bytes) : Nat := rd32 f Hdr.offMagic
def fLibver (f : Bytes) : Nat := rd32 f Hdr.offLibver
def fMetaCrc (f : Bytes) : Nat := rd32 f Hdr.offMetaCrc
def fMetaBytes (f : Bytes) : Bytes := f.take Hdr.metaSize
def fPayload (f : Bytes) : Bytes := f.drop Hdr.size

/-- `memcpy(fragment_metadata, fragment, sizeof(struct fragment_metadata))` read back as values. -/
def parseMeta (f : Bytes) : Meta :=
  { idx := fIdx f, size := fSize f, bmSize := fBmSize f, origSize := fOrig f, ctype := fCtype f,
    chksum := (List.range 8).map (fChk f), mismatch := fMismatch f, beId := fBeId f,
    beVer := fBeVer f }

def parseHeader (f : Bytes) : Header :=
  { md := parseMeta f, magic := fMagic f, libver := fLibver f, metaCrc := fMetaCrc f }

/-- C `(int)` conversion of a 32-bit unsigned field. -/
def toI32 (x : Nat) : Int :=
  let y : Nat := x % 2 ^ 32
  if y < 2 ^ 31 then (y : Int) else (y : Int) - (2 ^ 32 : Nat)

/-! raw setters (each C setter first checks the magic; the model's callers
    establish it, see `Frontend`) -/
def setIdx (f : Bytes) (v : Nat) : Bytes := wrBytes f Hdr.offIdx (le32 v)
def setSize (f : Bytes) (v : Nat) : Bytes := wrBytes f Hdr.offSize (le32 v)
def setBmSize (f : Bytes) (v : Nat) : Bytes := wrBytes f Hdr.offBmSize (le32 v)
def setOrig (f : Bytes) (v : Nat) : Bytes := wrBytes f Hdr.offOrig (le64 v)
def setCtype (f : Bytes) (v : Nat) : Bytes := wrBytes f Hdr.offCtype [UInt8.ofNat v]
def setChk0 (f : Bytes) (v : Nat) : Bytes := wrBytes f Hdr.offChksum (le32 v)
def setMismatch (f : Bytes) (v : Nat) : Bytes := wrBytes f Hdr.offMismatch [UInt8.ofNat v]
def setBeId (f : Bytes) (v : Nat) : Bytes := wrBytes f Hdr.offBeId [UInt8.ofNat v]
def setBeVer (f : Bytes) (v : Nat) : Bytes := wrBytes f Hdr.offBeVer (le32 v)
def setMagic (f : Bytes) (v : Nat) : Bytes := wrBytes f Hdr.offMagic (le32 v)
def setLibver (f : Bytes) (v : Nat) : Bytes := wrBytes f Hdr.offLibver (le32 v)
def setMetaCrc (f : Bytes) (v : Nat) : Bytes := wrBytes f Hdr.offMetaCrc (le32 v)

/-- `is_invalid_fragment_header` (src/erasurecode.c). `f` must hold at least 80 bytes. -/
def isInvalidHeader (f : Bytes) : Bool :=
  let lv := fLibver f
  if lv == 0 then true else
  let mc := fMetaCrc f
  let check (mc lv : Nat) : Bool :=
    if lv < 0x010200 then false
    else if mc == crcStd (fMetaBytes f) then false
    else mc != crcAlt (fMetaBytes f)
  if fMagic f != magicC then
    if bswap32 (fMagic f) != magicC then true
    else check (bswap32 mc) (bswap32 lv)
  else check mc lv

end Lec
