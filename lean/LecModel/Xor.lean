/-
  LecModel.Xor — the flat-XOR HD codes (src/builtin/xor_codes/*.c).

  The decoders never look at payload bytes, so the model separates *planning*
  (which buffer is copied / xor-ed into which, `planDecode`, `planReconOne`)
  from *execution* (`runOps`, generic in the buffer type).  Running a plan on
  bit masks of data symbols gives the symbolic result that LecProofs.XorLinear
  lifts to every payload content and length.

  `XErr.oob` marks places where the C code would index out of bounds
  (`parity[parity_index - k]` with `parity_index = -1`).
-/
import LecModel.Bytes
namespace Lec

structure XorTable where
  k : Nat
  m : Nat
  hd : Nat
  parityBms : List Nat
  dataBms : List Nat
deriving Repr, DecidableEq

inductive XErr | neg1 | neg2 | oob
deriving Repr, DecidableEq

inductive Buf | data (i : Nat) | parity (j : Nat) | tmp
deriving Repr, DecidableEq

/-- `copy dst src` = fast_memcpy(dst, src); `xorInto src dst` = xor_bufs_and_store(src, dst);
    `zero dst` = memset(dst, 0). -/
inductive Op | copy (dst src : Buf) | xorInto (src dst : Buf) | zero (dst : Buf)
deriving Repr, DecidableEq

inductive FailPat
  | geHd | d0p0 | d1p0 | d2p0 | d3p0 | d1p1 | d1p2 | d2p1 | d0p1 | d0p2 | d0p3
deriving Repr, DecidableEq

namespace XorTable
variable (T : XorTable)

def pbm (j : Nat) : Nat := T.parityBms.getD j 0
def dbm (i : Nat) : Nat := T.dataBms.getD i 0

/-- `is_data_in_parity(data_idx, parity_bms[j])` -/
def dataInParity (i j : Nat) : Bool := (T.pbm j).testBit i

/-- `get_failure_pattern` (with the failure counter incremented per entry). -/
def failPattern (missing : List Nat) : FailPat :=
  let rec go : List Nat → Nat → FailPat → FailPat
    | [], _, p => p
    | x :: xs, n, p =>
      let n' := n + 1
      let p0 := if n' ≥ T.hd then FailPat.geHd else p
      let isD := x < T.k
      let p1 : FailPat := match p0 with
        | .d0p0 => if isD then .d1p0 else .d0p1
        | .d1p0 => if isD then .d2p0 else .d1p1
        | .d2p0 => if isD then .d3p0 else .d2p1
        | .d3p0 => .geHd
        | .d1p1 => if isD then .d2p1 else .d1p2
        | .d1p2 => .geHd
        | .d2p1 => .geHd
        | .d0p1 => if isD then .d1p1 else .d0p2
        | .d0p2 => if isD then .d1p2 else .d0p3
        | .d0p3 => .geHd
        | .geHd => .geHd
      if p1 = .geHd then .geHd else go xs n' p1
  go missing 0 .d0p0

def missingData (missing : List Nat) : List Nat := missing.filter (· < T.k)
def missingParity (missing : List Nat) : List Nat := missing.filter (fun x => !(x < T.k))

/-- `num_missing_data_in_parity(code, k + j, missing_data)` -/
def numMissingInParity (j : Nat) (md : List Nat) : Nat :=
  (md.filter fun d => (T.dbm d).testBit j).length

/-- `index_of_connected_parity`, relative index `j` (the C function adds k). -/
def connectedParity (d : Nat) (mp : Option (List Nat)) (md : List Nat) : Option Nat :=
  (List.range T.m).find? fun j =>
    !(T.numMissingInParity j md > 1) && T.dataInParity d j &&
      (match mp with | none => true | some l => !l.contains (T.k + j))

/-- copy parity `j` into data `d`, then xor in every other data member of the parity mask. -/
def recoverOps (d : Nat) (src : Buf) (mask : Nat) : List Op :=
  Op.copy (.data d) src ::
    ((List.range T.k).filter fun i => i != d && mask.testBit i).map fun i => Op.xorInto (.data i) (.data d)

/-- `decode_one_data` -/
def decodeOne (md : List Nat) (mp : Option (List Nat)) : Except XErr (List Op) :=
  match md with
  | [] => .error .oob
  | d :: _ =>
    match T.connectedParity d mp md with
    | none => .error .oob
    | some j => .ok (T.recoverOps d (.parity j) (T.pbm j))

/-- `decode_two_data` -/
def decodeTwo (md : List Nat) (mp : Option (List Nat)) : Except XErr (List Op) :=
  match md with
  | d0 :: d1 :: _ =>
    match T.connectedParity d0 mp md with
    | some j => do
      let rest ← T.decodeOne [d1] mp
      pure (T.recoverOps d0 (.parity j) (T.pbm j) ++ rest)
    | none =>
      match T.connectedParity d1 mp md with
      | none => .error .neg2
      | some j => do
        let rest ← T.decodeOne [d0] mp
        pure (T.recoverOps d1 (.parity j) (T.pbm j) ++ rest)
  | _ => .error .oob

/-- `decode_three_data` -/
def decodeThree (md : List Nat) (mp : Option (List Nat)) : Except XErr (List Op) :=
  match md.find? (fun d => (T.connectedParity d mp md).isSome) with
  | some d =>
    match T.connectedParity d mp md with
    | some j => do
      let rest ← T.decodeTwo (md.erase d) mp
      pure (T.recoverOps d (.parity j) (T.pbm j) ++ rest)
    | none => .error .oob
  | none =>
    let c2 := (List.range T.m).find? fun j => T.numMissingInParity j md == 2
    let c3 := (List.range T.m).find? fun j => T.numMissingInParity j md == 3
    match c2, c3 with
    | some p, some q =>
      let mask := T.pbm p ^^^ T.pbm q
      match md.find? (fun d => mask.testBit d) with
      | none => .error .neg2
      | some d => do
        let rest ← T.decodeTwo (md.erase d) mp
        pure ([Op.copy .tmp (.parity p), Op.xorInto (.parity q) .tmp] ++
              T.recoverOps d .tmp mask ++ rest)
    | _, _ => .error .neg2

/-- `selective_encode`: xor every member data into each missing parity (buffers start zeroed). -/
def selectiveEncodeOps (mp : List Nat) : List Op :=
  (List.range T.k).flatMap fun i =>
    (mp.filter fun p => T.dataInParity i (p - T.k)).map fun p => Op.xorInto (.data i) (.parity (p - T.k))

/-- `xor_hd_decode(code, data, parity, missing_idxs, blocksize, decode_parity = 1)` as a plan. -/
def planDecode (missing : List Nat) : Except XErr (List Op) :=
  let md := T.missingData missing
  let mp := T.missingParity missing
  match T.failPattern missing with
  | .d0p0 => .ok []
  | .d1p0 => T.decodeOne md none
  | .d2p0 => T.decodeTwo md none
  | .d3p0 => T.decodeThree md none
  | .d1p1 | .d1p2 => do
    let a ← T.decodeOne md (some mp)
    pure (a ++ T.selectiveEncodeOps mp)
  | .d2p1 => do
    let a ← T.decodeTwo md (some mp)
    pure (a ++ T.selectiveEncodeOps mp)
  | .d0p1 | .d0p2 | .d0p3 => .ok (T.selectiveEncodeOps mp)
  | .geHd => .error .neg1

/-- `xor_reconstruct_one` as a plan. -/
def planReconOne (missing : List Nat) (dest : Nat) : Except XErr (List Op) :=
  let md := T.missingData missing
  let mp := T.missingParity missing
  if dest < T.k then
    match T.connectedParity dest (some mp) md with
    | some j => .ok (T.recoverOps dest (.parity j) (T.pbm j))
    | none => T.planDecode missing
  else
    let j := dest - T.k
    if T.numMissingInParity j md == 0 then
      .ok (Op.zero (.parity j) ::
        ((List.range T.k).filter fun i => (T.pbm j).testBit i).map fun i => Op.xorInto (.data i) (.parity j))
    else T.planDecode missing

/-- `xor_code_encode` as a plan (parity buffers start zeroed). -/
def encodeOps : List Op :=
  (List.range T.k).flatMap fun i =>
    ((List.range T.m).filter fun j => T.dataInParity i j).map fun j => Op.xorInto (.data i) (.parity j)

end XorTable

/-! ### plan execution, generic in the buffer type -/

structure XState (V : Type) where
  data : List V
  parity : List V
  tmp : V

namespace XState
variable {V : Type}

def get (dflt : V) (s : XState V) : Buf → V
  | .data i => s.data.getD i dflt
  | .parity j => s.parity.getD j dflt
  | .tmp => s.tmp

def set (s : XState V) (b : Buf) (v : V) : XState V :=
  match b with
  | .data i => { s with data := s.data.set i v }
  | .parity j => { s with parity := s.parity.set j v }
  | .tmp => { s with tmp := v }

end XState

def runOp {V : Type} (xor : V → V → V) (zero : V) (s : XState V) : Op → XState V
  | .copy dst src => s.set dst (s.get zero src)
  | .xorInto src dst => s.set dst (xor (s.get zero src) (s.get zero dst))
  | .zero dst => s.set dst zero

def runOps {V : Type} (xor : V → V → V) (zero : V) (ops : List Op) (s : XState V) : XState V :=
  ops.foldl (runOp xor zero) s

/-! ### fragments needed -/

namespace XorTable
variable (T : XorTable)

/-- `fragments_needed_one_data`: returns (data_bm, parity_bm) updates. -/
def needOne (md : List Nat) (mp : Option (List Nat)) (dbm pbm : Nat) : Option (Nat × Nat) :=
  match md with
  | [] => none
  | d :: _ =>
    match T.connectedParity d mp md with
    | none => none
    | some j =>
      let dbm := dbm ||| T.pbm j
      let pbm := pbm ||| (1 <<< j)
      some (dbm &&& (0xffffffff ^^^ (1 <<< d)), pbm)

/-- `fragments_needed_two_data` -/
def needTwo (md : List Nat) (mp : Option (List Nat)) (dbm pbm : Nat) : Option (Nat × Nat) :=
  match md with
  | d0 :: d1 :: _ =>
    let pick : Option (Nat × Nat × Nat) :=
      match T.connectedParity d0 mp md with
      | some j => some (d0, j, d1)
      | none => match T.connectedParity d1 mp md with
        | some j => some (d1, j, d0)
        | none => none
    match pick with
    | none => none
    | some (d, j, other) =>
      let dbm := dbm ||| T.pbm j
      let pbm := pbm ||| (1 <<< j)
      match T.needOne [other] mp dbm pbm with
      | none => none
      | some (dbm, pbm) => some (dbm &&& (0xffffffff ^^^ (1 <<< d)), pbm)
  | _ => none

/-- `fragments_needed_three_data` -/
def needThree (md : List Nat) (mp : Option (List Nat)) (dbm pbm : Nat) : Option (Nat × Nat) :=
  match md.find? (fun d => (T.connectedParity d mp md).isSome) with
  | some d =>
    match T.connectedParity d mp md with
    | none => none
    | some j =>
      let pbm := pbm ||| (1 <<< j)
      let dbm := dbm ||| T.pbm j
      match T.needTwo (md.erase d) mp dbm pbm with
      | none => none
      | some (dbm, pbm) => some (dbm &&& (0xffffffff ^^^ (1 <<< d)), pbm)
  | none =>
    let c2 := (List.range T.m).find? fun j => T.numMissingInParity j md == 2
    let c3 := (List.range T.m).find? fun j => T.numMissingInParity j md == 3
    match c2, c3 with
    | some p, some q =>
      let mask := T.pbm p ^^^ T.pbm q
      match md.find? (fun d => mask.testBit d) with
      | none => none
      | some d =>
        let pbm := pbm ||| (1 <<< p) ||| (1 <<< q)
        let dbm := dbm ||| mask
        match T.needTwo (md.erase d) mp dbm pbm with
        | none => none
        | some (dbm, pbm) => some (dbm &&& (0xffffffff ^^^ (1 <<< d)), pbm)
    | _, _ => none

def bitsToList (bm : Nat) (off : Nat) : List Nat :=
  ((List.range 32).filter fun i => bm.testBit i).map (· + off)

/-- `xor_hd_fragments_needed`; `none` = the C function returns -1. -/
def fragmentsNeeded (R X : List Nat) : Option (List Nat) :=
  let first : Option (Nat × Nat) :=
    match T.failPattern R, R with
    | .d1p0, r :: _ =>
      -- `fragments_needed_one_data_local`: the excluded data plus the fragment itself count as missing
      let md := if (T.missingData X).contains r then T.missingData X else T.missingData X ++ [r]
      let mp := T.missingParity X
      match T.connectedParity r (some mp) md with
      | none => none
      | some j => some ((T.pbm j) &&& (0xffffffff ^^^ (1 <<< r)), 1 <<< j)
    | _, _ => none
  let res : Option (Nat × Nat) :=
    match first with
    | some r => some r
    | none =>
      let missing := R ++ X
      let md := T.missingData missing
      let mp := T.missingParity missing
      let mdBm := md.foldl (fun a d => a ||| (1 <<< d)) 0
      let orParities (dbm : Nat) : Nat :=
        mp.foldl (fun a p => (a ||| T.pbm (p - T.k)) &&& (0xffffffff ^^^ mdBm)) dbm
      match T.failPattern missing with
      | .d0p0 => none
      | .d1p0 => T.needOne md none 0 0
      | .d2p0 => T.needTwo md none 0 0
      | .d3p0 => T.needThree md none 0 0
      | .d1p1 | .d1p2 =>
        match T.needOne md (some mp) 0 0 with
        | none => none   -- C still ORs the parities but returns -1
        | some (dbm, pbm) => some (orParities dbm, pbm)
      | .d2p1 =>
        match T.needTwo md (some mp) 0 0 with
        | none => none
        | some (dbm, pbm) => some (orParities dbm, pbm)
      | .d0p1 | .d0p2 | .d0p3 => some (mp.foldl (fun a p => a ||| T.pbm (p - T.k)) 0, 0)
      | .geHd => none
  res.map fun (dbm, pbm) => bitsToList dbm 0 ++ bitsToList pbm T.k

end XorTable

/-- `init_xor_hd_code` shape whitelist. -/
def xorShapeOK (k m hd : Int) : Bool :=
  (hd == 3 && ((m == 6 && 6 ≤ k && k ≤ 15) || (m == 5 && 5 ≤ k && k ≤ 10) || (m == 3 && k == 3))) ||
  (hd == 4 && ((m == 6 && 6 ≤ k && k ≤ 20) || (m == 5 && 5 ≤ k && k ≤ 10)))

end Lec
