import LecModel
import LecGen
namespace LecProps.C20
end LecProps.C20
