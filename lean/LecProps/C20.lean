/-
  C20 — Forced metadata checks keep invalid fragments out of the decoded result.

  `forced_is_filtered`   with force_metadata_checks, decode of any fragment list whose headers pass
                         the header loop (acceptable, announced sizes within the declared length:
                         `gateBad fragLen` false on all) equals plain decode of the sub-list of fragments that pass
                         per-fragment validation (or EINSUFFFRAGS when fewer than k pass): an
                         invalid fragment never takes part — neither in the fast path nor in the
                         partition / backend decode;
  `invalid_ignored`      removing a fragment that fails validation does not change the result;
  `valid_within_tolerance`, `never_other_bytes`
                         consequently (with C01 / C02 on the valid sub-list, which consists of
                         genuine fragments of the stripe): original bytes if the valid fragments are
                         within tolerance, otherwise an error; never other bytes.
-/
import LecProofs.Instances
import LecProps.C01
import LecProps.C02
namespace LecProps.C20
open Lec

theorem forced_is_filtered (env : Env) (be : Backend) (i : Inst) (frags : List Bytes) (fragLen : Nat)
    (hn : i.k ≤ frags.length) (hl : 80 ≤ fragLen) (hh : frags.any (gateBad fragLen) = false) :
    decode env be i frags fragLen true =
      (if (frags.filter (fun f => !isInvalidFragment env be i f)).length < i.k
       then .error (.rc (-EINSUFFFRAGS))
       else decode env be i (frags.filter (fun f => !isInvalidFragment env be i f)) fragLen false) :=
  decode_forced_filter env be i frags fragLen hn hl hh

theorem invalid_ignored (env : Env) (be : Backend) (i : Inst) (frags : List Bytes) (fragLen : Nat)
    (f : Bytes) (hbad : isInvalidFragment env be i f = true)
    (hn : i.k ≤ (frags.erase f).length) (hl : 80 ≤ fragLen) (hh : frags.any (gateBad fragLen) = false) :
    decode env be i frags fragLen true = decode env be i (frags.erase f) fragLen true :=
  decode_forced_ignores_invalid env be i frags fragLen f hbad hn hl hh

/-- damaged stripe: every supplied fragment either is a genuine fragment of the stripe or fails
    validation (payload bit flips under CRC32, re-sealed header edits of index / backend id /
    version) and all pass the header loop for the declared length (`hh`; genuine fragments always
    do, `EncView.sub_gate` / C09 `fresh_fits`).  If the genuine ones are within tolerance the forced
    decode returns the input. -/
theorem valid_within_tolerance (env : Env) (be : Backend) (i : Inst) (data : Bytes) (enc frags : List Bytes)
    {tol : List Nat → Prop} {bsOK : Nat → Prop}
    (hE : EncodeOK be i.k i.m bsOK) (hD : DecodeOK be i.k i.m tol bsOK)
    (hbs : bsOK (blockSize i data.length)) (hok : FrontOK env i data.length)
    (hc : be.compat i.beVer = true) (henc : encode env be i data = .ok enc)
    (hh : frags.any (gateBad (80 + blockSize i data.length)) = false)
    (hdam : ∀ f ∈ frags, f ∈ enc ∨ isInvalidFragment env be i f = true)
    (hgood : ∀ f ∈ frags, f ∈ enc → isInvalidFragment env be i f = false)
    (htol : tol (missingOfStripe enc (frags.filter (fun f => !isInvalidFragment env be i f))))
    (hmiss : (missingOfStripe enc (frags.filter (fun f => !isInvalidFragment env be i f))).length ≤ i.m)
    (hn : i.k ≤ (frags.filter (fun f => !isInvalidFragment env be i f)).length) :
    decode env be i frags (80 + blockSize i data.length) true = .ok data := by
  have hlen : i.k ≤ frags.length := Nat.le_trans hn (List.length_filter_le _ _)
  rw [forced_is_filtered env be i frags _ hlen (by omega) hh, if_neg (by omega)]
  have hsub : ∀ f ∈ frags.filter (fun f => !isInvalidFragment env be i f), f ∈ enc := by
    intro f hf
    obtain ⟨hf1, hf2⟩ := List.mem_filter.mp hf
    rcases hdam f hf1 with h | h
    · exact h
    · simp [h] at hf2
  exact LecProps.C01.roundtrip env be i data enc _ hE hD hbs hok hc henc hsub htol hmiss hn false

/-- … and whatever the damage (headers rejected by the header loop included: EBADHEADER), the result
    is the input or a negative error code. -/
theorem never_other_bytes (env : Env) (be : Backend) (i : Inst) (data : Bytes) (enc frags : List Bytes)
    {bsOK : Nat → Prop} (hE : EncodeOK be i.k i.m bsOK) (hS : DecodeSound be i.k i.m bsOK)
    (hneg : ∀ d p ms b e, be.decode d p ms b = .error (.rc e) → e < 0)
    (hbs : bsOK (blockSize i data.length)) (hok : FrontOK env i data.length)
    (henc : encode env be i data = .ok enc)
    (hk : i.k ≤ frags.length)
    (hdam : ∀ f ∈ frags, f ∈ enc ∨ isInvalidFragment env be i f = true) :
    decode env be i frags (80 + blockSize i data.length) true = .ok data ∨
    ∃ e, decode env be i frags (80 + blockSize i data.length) true = .error (.rc e) ∧ e < 0 := by
  by_cases hg : frags.any (gateBad (80 + blockSize i data.length)) = true
  · exact Or.inr ⟨_, decode_gate_fail env be i frags _ true hk (by simp [Hdr.size]) hg, by decide⟩
  have hh : frags.any (gateBad (80 + blockSize i data.length)) = false := by simpa using hg
  rw [forced_is_filtered env be i frags _ hk (by omega) hh]
  split
  · exact Or.inr ⟨_, rfl, by decide⟩
  · have hsub : ∀ f ∈ frags.filter (fun f => !isInvalidFragment env be i f), f ∈ enc := by
      intro f hf
      obtain ⟨hf1, hf2⟩ := List.mem_filter.mp hf
      rcases hdam f hf1 with h | h
      · exact h
      · simp [h] at hf2
    exact LecProps.C02.decode_exact_or_error env be i data enc _ hE hS hneg hbs hok henc hsub false

/-- non-vacuity: (2,1) with CRC32, the payload of data fragment 0 corrupted, all three supplied,
    forced checks: the original bytes come back (the corrupted fragment is not used). -/
example :
    (let env : Env := { libver := 0x010604, legacy := false }
     match encode env (rsBackend (genEntry 2) 2 1) (rsInst 2 1 2) [1, 2, 3, 4, 5] with
     | .ok enc =>
       let bad := (enc.getD 0 []).set 80 0xff
       (match decode env (rsBackend (genEntry 2) 2 1) (rsInst 2 1 2) (bad :: enc.drop 1) 84 true,
              decode env (rsBackend (genEntry 2) 2 1) (rsInst 2 1 2) (bad :: enc.drop 1) 84 false with
        | .ok d, .ok d' => d == [1, 2, 3, 4, 5] && d' != [1, 2, 3, 4, 5]
        | _, _ => false)
     | .error _ => false) = true := by
  decide +kernel

#print axioms forced_is_filtered
#print axioms invalid_ignored
#print axioms valid_within_tolerance
#print axioms never_other_bytes
end LecProps.C20
