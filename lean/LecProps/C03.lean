/-
  C03 — A reconstructed fragment is byte-identical to the fragment encode produced.

  `fidelity`      for every fragment list drawn from the stripe whose missing set is within
                  tolerance and every destination 0 ≤ d < k+m — missing or supplied — reconstruct
                  returns exactly the fragment encode produced for d: header, metadata checksum,
                  payload checksum and payload (the whole byte string is equal);
  `out_of_range`  a destination outside 0..k+m-1 is rejected with EINVALIDPARAMS;
  `fidelity_rs`   Reed–Solomon instance (data rows of the inverse; parity rows by substitution of
                  the missing-data equations), every k ≥ 1, k+m ≤ 32.
-/
import LecProofs.Instances
import LecProofs.XorContracts
import LecProofs.XorTablesOK
import LecGen
namespace LecProps.C03
open Lec

theorem fidelity (env : Env) (be : Backend) (i : Inst) (data : Bytes) (enc frags : List Bytes)
    {tol : List Nat → Prop} {bsOK : Nat → Prop}
    (hE : EncodeOK be i.k i.m bsOK) (hD : DecodeOK be i.k i.m tol bsOK)
    (hbs : bsOK (blockSize i data.length)) (hok : FrontOK env i data.length)
    (henc : encode env be i data = .ok enc) (hsub : ∀ f ∈ frags, f ∈ enc)
    (htol : tol (missingOfStripe enc frags)) (hmiss : (missingOfStripe enc frags).length ≤ i.m)
    (dest : Nat) (hd : dest < i.k + i.m) :
    reconstruct env be i frags (80 + blockSize i data.length) dest = .ok (enc.getD dest []) := by
  have := reconstruct_fidelity env be i data enc frags hE hbs hok henc hsub hD htol hmiss (dest : Int)
    (by omega) (by omega)
  simpa using this

theorem out_of_range (env : Env) (be : Backend) (i : Inst) (frags : List Bytes) (fragLen : Nat) (dest : Int)
    (h : dest < 0 ∨ dest ≥ ((i.k + i.m : Nat) : Int)) :
    reconstruct env be i frags fragLen dest = .error (.rc (-EINVALIDPARAMS)) :=
  reconstruct_range env be i frags fragLen dest h

theorem fidelity_rs (env : Env) (k m ct : Nat) (hk : 1 ≤ k) (hkm : k + m ≤ 32) (hct : ct < 256)
    (hlv : env.libver < 2 ^ 32) (hl0 : env.libver ≠ 0)
    (data : Bytes) (enc frags : List Bytes)
    (henc : encode env (rsBackend (genEntry k) k m) (rsInst k m ct) data = .ok enc)
    (hsub : ∀ f ∈ frags, f ∈ enc) (hmiss : (missingOfStripe enc frags).length ≤ m)
    (dest : Nat) (hd : dest < k + m) :
    reconstruct env (rsBackend (genEntry k) k m) (rsInst k m ct) frags
        (80 + blockSize (rsInst k m ct) data.length) dest = .ok (enc.getD dest []) :=
  fidelity env _ (rsInst k m ct) data enc frags (rs_encodeOK k m) (rs_decodeOK (by omega))
    (blockSize_even _ _ hk rfl) (rs_frontOK_guard env k m ct data.length hk hkm hct hlv hl0 (encodeTooLarge_false_of_ok henc)) henc hsub
    hmiss hmiss dest hd

theorem fidelity_xor (env : Env) (k m hd ct : Nat) (T : XorTable)
    (hT : LecGen.xorTableFor hd m k = some T) (hct : ct < 256)
    (hlv : env.libver < 2 ^ 32) (hl0 : env.libver ≠ 0)
    (data : Bytes) (enc frags : List Bytes)
    (henc : encode env (xorBackend T) (xorInst k m ct) data = .ok enc)
    (hsub : ∀ f ∈ frags, f ∈ enc) (hmiss : (missingOfStripe enc frags).length < hd)
    (dest : Nat) (hd' : dest < k + m) :
    reconstruct env (xorBackend T) (xorInst k m ct) frags
        (80 + blockSize (xorInst k m ct) data.length) dest = .ok (enc.getD dest []) := by
  obtain ⟨hmem, rfl, rfl, rfl⟩ := XorCheck.tableFor_fields hT
  have hshape : xorShapeOK T.k T.m T.hd = true := by rw [xorTables_whitelist, hT]; rfl
  obtain ⟨hE, hD, _, h1, h2⟩ := xor_contracts_for hT
  exact fidelity env _ (xorInst T.k T.m ct) data enc frags hE hD trivial
    (xor_frontOK_guard env T.k T.m T.hd ct data.length hshape hct hlv hl0 (encodeTooLarge_false_of_ok henc)) henc hsub hmiss
    (by simp only [xorInst]; omega) dest hd'

/-- non-vacuity: (2,1), the parity fragment rebuilt from the two data fragments is identical. -/
example :
    (let env : Env := { libver := 0x010604, legacy := false }
     match encode env (rsBackend (genEntry 2) 2 1) (rsInst 2 1 2) [9, 8, 7, 6, 5] with
     | .ok enc =>
       (match reconstruct env (rsBackend (genEntry 2) 2 1) (rsInst 2 1 2) (enc.take 2) 84 2 with
        | .ok f => f == enc.getD 2 []
        | .error _ => false)
     | .error _ => false) = true := by
  decide +kernel

#print axioms fidelity
#print axioms out_of_range
#print axioms fidelity_rs
#print axioms fidelity_xor
end LecProps.C03
