import LecModel
import LecGen
namespace LecProps.C03
end LecProps.C03
