/-
  C02 — Decode and reconstruct never succeed with wrong bytes (no silent corruption).

  `decode_exact_or_error`, `reconstruct_exact_or_error`
        for ANY list of fragments drawn from one encoded stripe — too few, beyond tolerance,
        duplicated, any order — and with or without forced checks, the result is the exact
        original data (respectively the exact original fragment) or a negative error code:
        never `.ok` of other bytes and never `Fail.crash` (the model's marker for an
        out-of-bounds access of the C code: negative pivot index, short buffer, …).
  `*_rs`  Reed–Solomon instance, every k ≥ 1, k+m ≤ 32.
  `*_xor` the same for every generated flat-XOR table: at or beyond hd erasures the classifier reaches
        GE_HD and errors; the reconstruct shortcuts are sound for every missing list.
  Reads and writes outside the caller's buffers by the compiled code are runtime behaviour:
  the harness runs every case under ASan/UBSan with canaries around the output buffer.
-/
import LecProofs.Instances
import LecProofs.XorContracts
import LecProofs.XorTablesOK
import LecGen
namespace LecProps.C02
open Lec

theorem decode_exact_or_error (env : Env) (be : Backend) (i : Inst) (data : Bytes) (enc frags : List Bytes)
    {bsOK : Nat → Prop} (hE : EncodeOK be i.k i.m bsOK) (hS : DecodeSound be i.k i.m bsOK)
    (hneg : ∀ d p ms b e, be.decode d p ms b = .error (.rc e) → e < 0)
    (hbs : bsOK (blockSize i data.length)) (hok : FrontOK env i data.length)
    (henc : encode env be i data = .ok enc) (hsub : ∀ f ∈ frags, f ∈ enc) (force : Bool) :
    decode env be i frags (80 + blockSize i data.length) force = .ok data ∨
    ∃ e, decode env be i frags (80 + blockSize i data.length) force = .error (.rc e) ∧ e < 0 :=
  decode_sound env be i data enc frags hE hbs hok henc hsub hS hneg force

theorem reconstruct_exact_or_error (env : Env) (be : Backend) (i : Inst) (data : Bytes) (enc frags : List Bytes)
    {bsOK : Nat → Prop} (hE : EncodeOK be i.k i.m bsOK) (hS : DecodeSound be i.k i.m bsOK)
    (hneg : ∀ d p ms dst b e, be.reconstruct d p ms dst b = .error (.rc e) → e < 0)
    (hbs : bsOK (blockSize i data.length)) (hok : FrontOK env i data.length)
    (henc : encode env be i data = .ok enc) (hsub : ∀ f ∈ frags, f ∈ enc) (dest : Int) :
    reconstruct env be i frags (80 + blockSize i data.length) dest = .ok (enc.getD dest.toNat []) ∨
    ∃ e, reconstruct env be i frags (80 + blockSize i data.length) dest = .error (.rc e) ∧ e < 0 := by
  by_cases hr : 0 ≤ dest ∧ dest < ((i.k + i.m : Nat) : Int)
  · exact reconstruct_sound env be i data enc frags hE hbs hok henc hsub hS hneg dest hr.1 hr.2
  · right
    refine ⟨-EINVALIDPARAMS, reconstruct_range env be i frags _ dest (by omega), by decide⟩

theorem rs_decode_errors_negative (k m : Nat) (d p : List Bytes) (ms : List Nat) (b : Nat) (e : Int)
    (h : (rsBackend (genEntry k) k m).decode d p ms b = .error (.rc e)) : e < 0 := by
  simp only [rsBackend, liftOpt] at h
  split at h <;> cases h

theorem rs_reconstruct_errors_negative (k m : Nat) (d p : List Bytes) (ms : List Nat) (dst b : Nat) (e : Int)
    (h : (rsBackend (genEntry k) k m).reconstruct d p ms dst b = .error (.rc e)) : e < 0 := by
  simp only [rsBackend, liftOpt] at h
  split at h <;> cases h

theorem decode_exact_or_error_rs (env : Env) (k m ct : Nat) (hk : 1 ≤ k) (hkm : k + m ≤ 32) (hct : ct < 256)
    (hlv : env.libver < 2 ^ 32) (hl0 : env.libver ≠ 0)
    (data : Bytes) (enc frags : List Bytes)
    (henc : encode env (rsBackend (genEntry k) k m) (rsInst k m ct) data = .ok enc)
    (hsub : ∀ f ∈ frags, f ∈ enc) (force : Bool) :
    decode env (rsBackend (genEntry k) k m) (rsInst k m ct) frags (80 + blockSize (rsInst k m ct) data.length) force = .ok data ∨
    ∃ e, decode env (rsBackend (genEntry k) k m) (rsInst k m ct) frags (80 + blockSize (rsInst k m ct) data.length) force
        = .error (.rc e) ∧ e < 0 :=
  decode_exact_or_error env _ (rsInst k m ct) data enc frags (rs_encodeOK k m) (rs_decodeSound (by omega))
    (rs_decode_errors_negative k m) (blockSize_even _ _ hk rfl)
    (rs_frontOK_guard env k m ct data.length hk hkm hct hlv hl0 (encodeTooLarge_false_of_ok henc)) henc hsub force

theorem reconstruct_exact_or_error_rs (env : Env) (k m ct : Nat) (hk : 1 ≤ k) (hkm : k + m ≤ 32) (hct : ct < 256)
    (hlv : env.libver < 2 ^ 32) (hl0 : env.libver ≠ 0)
    (data : Bytes) (enc frags : List Bytes)
    (henc : encode env (rsBackend (genEntry k) k m) (rsInst k m ct) data = .ok enc)
    (hsub : ∀ f ∈ frags, f ∈ enc) (dest : Int) :
    reconstruct env (rsBackend (genEntry k) k m) (rsInst k m ct) frags (80 + blockSize (rsInst k m ct) data.length) dest
        = .ok (enc.getD dest.toNat []) ∨
    ∃ e, reconstruct env (rsBackend (genEntry k) k m) (rsInst k m ct) frags
        (80 + blockSize (rsInst k m ct) data.length) dest = .error (.rc e) ∧ e < 0 :=
  reconstruct_exact_or_error env _ (rsInst k m ct) data enc frags (rs_encodeOK k m) (rs_decodeSound (by omega))
    (rs_reconstruct_errors_negative k m) (blockSize_even _ _ hk rfl)
    (rs_frontOK_guard env k m ct data.length hk hkm hct hlv hl0 (encodeTooLarge_false_of_ok henc)) henc hsub dest

theorem decode_exact_or_error_xor (env : Env) (k m hd ct : Nat) (T : XorTable)
    (hT : LecGen.xorTableFor hd m k = some T) (hct : ct < 256)
    (hlv : env.libver < 2 ^ 32) (hl0 : env.libver ≠ 0)
    (data : Bytes) (enc frags : List Bytes)
    (henc : encode env (xorBackend T) (xorInst k m ct) data = .ok enc)
    (hsub : ∀ f ∈ frags, f ∈ enc) (force : Bool) :
    decode env (xorBackend T) (xorInst k m ct) frags (80 + blockSize (xorInst k m ct) data.length) force = .ok data ∨
    ∃ e, decode env (xorBackend T) (xorInst k m ct) frags (80 + blockSize (xorInst k m ct) data.length) force
        = .error (.rc e) ∧ e < 0 := by
  obtain ⟨hmem, rfl, rfl, rfl⟩ := XorCheck.tableFor_fields hT
  have hshape : xorShapeOK T.k T.m T.hd = true := by rw [xorTables_whitelist, hT]; rfl
  obtain ⟨hE, _, hS, _, _⟩ := xor_contracts_for hT
  exact decode_exact_or_error env _ (xorInst T.k T.m ct) data enc frags hE hS
    (fun d p ms b e h => (xor_backend_errors_negative T d p ms b e).1 h) trivial
    (xor_frontOK_guard env T.k T.m T.hd ct data.length hshape hct hlv hl0 (encodeTooLarge_false_of_ok henc)) henc hsub force

theorem reconstruct_exact_or_error_xor (env : Env) (k m hd ct : Nat) (T : XorTable)
    (hT : LecGen.xorTableFor hd m k = some T) (hct : ct < 256)
    (hlv : env.libver < 2 ^ 32) (hl0 : env.libver ≠ 0)
    (data : Bytes) (enc frags : List Bytes)
    (henc : encode env (xorBackend T) (xorInst k m ct) data = .ok enc)
    (hsub : ∀ f ∈ frags, f ∈ enc) (dest : Int) :
    reconstruct env (xorBackend T) (xorInst k m ct) frags (80 + blockSize (xorInst k m ct) data.length) dest
        = .ok (enc.getD dest.toNat []) ∨
    ∃ e, reconstruct env (xorBackend T) (xorInst k m ct) frags
        (80 + blockSize (xorInst k m ct) data.length) dest = .error (.rc e) ∧ e < 0 := by
  obtain ⟨hmem, rfl, rfl, rfl⟩ := XorCheck.tableFor_fields hT
  have hshape : xorShapeOK T.k T.m T.hd = true := by rw [xorTables_whitelist, hT]; rfl
  obtain ⟨hE, _, hS, _, _⟩ := xor_contracts_for hT
  exact reconstruct_exact_or_error env _ (xorInst T.k T.m ct) data enc frags hE hS
    (fun d p ms dst b e h => (xor_backend_errors_negative T d p ms b e).2 dst h) trivial
    (xor_frontOK_guard env T.k T.m T.hd ct data.length hshape hct hlv hl0 (encodeTooLarge_false_of_ok henc)) henc hsub dest

/-- non-vacuity: with two of three fragments gone, (2,1) decode reports an error. -/
example :
    (let env : Env := { libver := 0x010604, legacy := false }
     match encode env (rsBackend (genEntry 2) 2 1) (rsInst 2 1 2) [1, 2, 3, 4, 5] with
     | .ok enc =>
       (match decode env (rsBackend (genEntry 2) 2 1) (rsInst 2 1 2) (enc.drop 2) 84 false with
        | .error (.rc e) => decide (e < 0)
        | _ => false)
     | .error _ => false) = true := by
  decide +kernel

#print axioms decode_exact_or_error
#print axioms reconstruct_exact_or_error
#print axioms decode_exact_or_error_rs
#print axioms reconstruct_exact_or_error_rs
#print axioms decode_exact_or_error_xor
#print axioms reconstruct_exact_or_error_xor
end LecProps.C02
