import LecModel
import LecGen
namespace LecProps.C02
end LecProps.C02
