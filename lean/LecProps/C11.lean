import LecModel
import LecGen
namespace LecProps.C11
end LecProps.C11
