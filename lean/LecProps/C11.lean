/-
  C11 — Fragments written on an opposite-endian host are read with the same meaning.

  `foreignHeader h` is what a host of the other endianness stores for the logical header `h`
  (every multi-byte field byte-reversed, its metadata CRC computed over its own bytes and
  stored in its own order).
  `twin_same_metadata`  the metadata query returns the same logical values — index, sizes,
                        original length, checksum type, checksum, mismatch flag, backend id and
                        version — for the foreign-order fragment as for the native one, for
                        every payload (so payload corruption is detected equally);
  `twin_same_verdict`   header validation accepts both.
-/
import LecProofs.FreshLemmas
import LecProps.C09
namespace LecProps.C11
open Lec LecProps.C09

def foreignMeta (m : Meta) : Meta :=
  { m with idx := bswap32 m.idx, size := bswap32 m.size, bmSize := bswap32 m.bmSize,
           origSize := bswap64 m.origSize, chksum := m.chksum.map bswap32, beVer := bswap32 m.beVer }

def foreignHeader (h : Header) : Header :=
  { md := foreignMeta h.md, magic := bswap32 h.magic, libver := bswap32 h.libver,
    metaCrc := bswap32 (crcStd (foreignMeta h.md).bytes) }

theorem foreign_WF (h : Header) (hw : h.WF) : (foreignHeader h).WF where
  idx := bswap32_lt _
  size := bswap32_lt _
  bmSize := bswap32_lt _
  origSize := bswap64_lt _
  ctype := hw.ctype
  chkLen := by simp [foreignHeader, foreignMeta, hw.chkLen]
  chk := by
    intro c hc
    simp only [foreignHeader, foreignMeta, List.mem_map] at hc
    obtain ⟨_, _, rfl⟩ := hc
    exact bswap32_lt _
  mismatch := hw.mismatch
  beId := hw.beId
  beVer := bswap32_lt _
  magic := bswap32_lt _
  libver := bswap32_lt _
  metaCrc := bswap32_lt _

theorem swap_foreign (m : Meta) (h1 : m.idx < 2 ^ 32) (h2 : m.size < 2 ^ 32) (h3 : m.bmSize < 2 ^ 32)
    (h4 : m.origSize < 2 ^ 64) (h5 : ∀ c ∈ m.chksum, c < 2 ^ 32) (h6 : m.beVer < 2 ^ 32) :
    swapMeta (foreignMeta m) = m := by
  obtain ⟨idx, size, bm, orig, ct, chk, mm, be, bv⟩ := m
  simp only [swapMeta, foreignMeta, bswap32_bswap32 h1, bswap32_bswap32 h2, bswap32_bswap32 h3,
    bswap64_bswap64 h4, bswap32_bswap32 h6, List.map_map]
  congr 1
  have : ∀ l : List Nat, (∀ c ∈ l, c < 2 ^ 32) → List.map (bswap32 ∘ bswap32) l = l := by
    intro l hl
    induction l with
    | nil => rfl
    | cons x xs ih =>
      simp only [List.map_cons, Function.comp]
      rw [bswap32_bswap32 (hl x (by simp)), ih (fun c hc => hl c (by simp [hc]))]
  exact this chk h5

theorem bswap32_eq_zero {x : Nat} (hx : x < 2 ^ 32) (h : bswap32 x = 0) : x = 0 := by
  have := bswap32_bswap32 hx
  rw [h] at this
  rw [← this]; decide

/-- the result of the checksum stage of the metadata query, as a function of the logical
    metadata and the payload. -/
def finish (m : Meta) (p : Bytes) : Meta :=
  if m.ctype == 2 then
    let stored := m.chksum.getD 0 0
    let payload := p.take m.size
    { m with mismatch := if stored == crcStd payload then 0 else if stored == crcAlt payload then 0 else 1 }
  else m

theorem native_metadata (h : Header) (hw : h.WF) (p : Bytes) (hm : h.magic = magicC)
    (hv : h.libver ≠ 0) (hc : h.libver < 0x010200 ∨ h.metaCrc = crcStd h.md.bytes) :
    getFragmentMetadata (h.bytes ++ p) = .ok (finish h.md p) := by
  have hp := parseHeader_bytes h hw p
  have e1 : fMagic (h.bytes ++ p) = magicC := by
    have := congrArg Header.magic hp; simpa [parseHeader, hm] using this
  have e2 : fLibver (h.bytes ++ p) = h.libver := by
    have := congrArg Header.libver hp; simpa [parseHeader] using this
  have e3 : fMetaCrc (h.bytes ++ p) = h.metaCrc := by
    have := congrArg Header.metaCrc hp; simpa [parseHeader] using this
  have e4 : parseMeta (h.bytes ++ p) = h.md := by
    have := congrArg Header.md hp; simpa [parseHeader] using this
  have e5 : fMetaBytes (h.bytes ++ p) = h.md.bytes := by
    have hl : h.md.bytes.length = 59 := meta_bytes_length _ hw.chkLen
    unfold fMetaBytes Hdr.metaSize
    simp only [Header.bytes, List.append_assoc]
    rw [List.take_append_of_le_length (by omega), List.take_of_length_le (by omega)]
  have e6 : fPayload (h.bytes ++ p) = p := by
    have hl := header_bytes_length _ hw.chkLen
    unfold fPayload
    rw [List.drop_append_of_le_length (by rw [hl]; decide), List.drop_of_length_le (by rw [hl]; decide)]
    simp
  have hvalid : isInvalidHeader (h.bytes ++ p) = false := by
    unfold isInvalidHeader
    rw [e1, e2, e3, e5]
    have : (h.libver == 0) = false := by simp [hv]
    simp only [this, Bool.false_eq_true, if_false, bne_self_eq_false]
    rcases hc with hc | hc
    · simp [hc]
    · simp [hc]
  unfold getFragmentMetadata
  rw [hvalid, e1, e4, e6]
  simp only [Bool.false_eq_true, if_false, bne_self_eq_false, finish]
  split <;> rfl

theorem twin_metadata (h : Header) (hw : h.WF) (p : Bytes) (hm : h.magic = magicC)
    (hv : h.libver ≠ 0) :
    getFragmentMetadata ((foreignHeader h).bytes ++ p) = .ok (finish h.md p) := by
  have hwf := foreign_WF h hw
  have hp := parseHeader_bytes (foreignHeader h) hwf p
  have e1 : fMagic ((foreignHeader h).bytes ++ p) = bswap32 magicC := by
    have := congrArg Header.magic hp; simpa [parseHeader, foreignHeader, hm] using this
  have e2 : fLibver ((foreignHeader h).bytes ++ p) = bswap32 h.libver := by
    have := congrArg Header.libver hp; simpa [parseHeader, foreignHeader] using this
  have e3 : fMetaCrc ((foreignHeader h).bytes ++ p) = bswap32 (crcStd (foreignMeta h.md).bytes) := by
    have := congrArg Header.metaCrc hp; simpa [parseHeader, foreignHeader] using this
  have e4 : parseMeta ((foreignHeader h).bytes ++ p) = foreignMeta h.md := by
    have := congrArg Header.md hp; simpa [parseHeader, foreignHeader] using this
  have e5 : fMetaBytes ((foreignHeader h).bytes ++ p) = (foreignMeta h.md).bytes := by
    have hl : (foreignHeader h).md.bytes.length = 59 := meta_bytes_length _ hwf.chkLen
    unfold fMetaBytes Hdr.metaSize
    simp only [Header.bytes, List.append_assoc]
    rw [List.take_append_of_le_length (by omega), List.take_of_length_le (by omega)]
    rfl
  have e6 : fPayload ((foreignHeader h).bytes ++ p) = p := by
    have hl := header_bytes_length _ hwf.chkLen
    unfold fPayload
    rw [List.drop_append_of_le_length (by rw [hl]; decide), List.drop_of_length_le (by rw [hl]; decide)]
    simp
  have hne : bswap32 magicC ≠ magicC := by decide
  have hbb : bswap32 (bswap32 magicC) = magicC := by decide
  have hl0 : bswap32 h.libver ≠ 0 := fun hz => hv (bswap32_eq_zero hw.libver hz)
  have hvalid : isInvalidHeader ((foreignHeader h).bytes ++ p) = false := by
    unfold isInvalidHeader
    rw [e1, e2, e3, e5]
    have h0 : (bswap32 h.libver == 0) = false := by simp [hl0]
    have h1 : (bswap32 magicC != magicC) = true := by decide
    simp only [h0, Bool.false_eq_true, if_false, h1, if_true, hbb, bne_self_eq_false,
      bswap32_bswap32 hw.libver, bswap32_bswap32 (crcStd_lt _)]
    simp
  unfold getFragmentMetadata
  rw [hvalid, e1, e4, e6]
  have h1 : (bswap32 magicC != magicC) = true := by decide
  simp only [Bool.false_eq_true, if_false, h1, if_true, hbb, bne_self_eq_false]
  rw [swap_foreign h.md hw.idx hw.size hw.bmSize hw.origSize hw.chk hw.beVer]
  simp only [finish]
  split <;> rfl

/-- **C11**: same logical metadata (all nine fields, including the computed mismatch flag) for
    the native fragment and its opposite-endian twin, for every payload. -/
theorem twin_same_metadata (h : Header) (hw : h.WF) (p : Bytes) (hm : h.magic = magicC)
    (hv : h.libver ≠ 0) (hc : h.libver < 0x010200 ∨ h.metaCrc = crcStd h.md.bytes) :
    getFragmentMetadata ((foreignHeader h).bytes ++ p) = getFragmentMetadata (h.bytes ++ p) := by
  rw [twin_metadata h hw p hm hv, native_metadata h hw p hm hv hc]

theorem twin_same_verdict (h : Header) (hw : h.WF) (p : Bytes) (hm : h.magic = magicC)
    (hv : h.libver ≠ 0) (hc : h.libver < 0x010200 ∨ h.metaCrc = crcStd h.md.bytes) :
    RefAccept ((foreignHeader h).bytes ++ p) ∧ RefAccept (h.bytes ++ p) := by
  constructor
  · apply Classical.byContradiction; intro hn
    have := (metadata_gate _).1 hn
    rw [twin_metadata h hw p hm hv] at this; cases this
  · apply Classical.byContradiction; intro hn
    have := (metadata_gate _).1 hn
    rw [native_metadata h hw p hm hv hc] at this; cases this

/-- the checksum type survives (it is a single byte and must not be swapped). -/
theorem twin_ctype (h : Header) (p : Bytes) : (finish h.md p).ctype = h.md.ctype := by
  unfold finish; split <;> rfl

/-- non-vacuity: a CRC32 fragment and a corrupted payload, read through the foreign twin. -/
example :
    let md : Meta := ⟨1, 4, 0, 5, 2, [crcStd [1, 2, 3, 4], 0, 0, 0, 0, 0, 0, 0], 0, 6, 0x010000⟩
    let h : Header := ⟨md, magicC, 0x010604, crcStd md.bytes⟩
    (getFragmentMetadata ((foreignHeader h).bytes ++ [1, 2, 3, 4])).toOption.map (fun m => (m.ctype, m.mismatch, m.idx)) = some (2, 0, 1) ∧
    (getFragmentMetadata ((foreignHeader h).bytes ++ [1, 2, 3, 5])).toOption.map (fun m => (m.ctype, m.mismatch, m.idx)) = some (2, 1, 1) := by
  decide +kernel

#print axioms twin_same_metadata
#print axioms twin_same_verdict
#print axioms twin_ctype
end LecProps.C11
