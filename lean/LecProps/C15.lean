/-
  C15 — Calls are pure: inputs untouched, reads in bounds, results history-independent.

  What the model can carry:
  `header_reads_80`      header validation depends only on the first 80 bytes of the fragment;
  `metadata_reads_bounded`
                         the metadata query depends only on the 80 header bytes and the `size`
                         payload bytes the (accepted, host-order) header announces — so with
                         `size ≤ fragment_len − 80` it reads inside [buffer, buffer+fragment_len);
  `encode_function_of_instance`, `lookup_stable`
                         results are functions of (environment switch, backend, instance record,
                         arguments) and an instance record is not changed by any call on any other
                         descriptor (C14 isolation): the bytes encode produces do not depend on the
                         calls that preceded it or on which other instances exist;
  inputs are immutable values in the model, so "never writes to the caller's input" holds by
  construction there.  That the compiled code performs no stray read or write, and the same from
  another thread, is runtime behaviour — *partial*: the harness places every input of encode,
  decode, reconstruct, the metadata query and validation on read-only pages ending at an
  inaccessible page (so any write or over-read faults), compares inputs before/after every call in
  every suite, and re-encodes after unrelated API activity and from a second thread.
-/
import LecProofs.BytesLemmas
import LecProofs.HeaderLemmas
import LecModel.Frontend
import LecProps.C14
namespace LecProps.C15
open Lec

theorem rdBytes_take (b : Bytes) (n off w : Nat) (h : off + w ≤ n) :
    rdBytes (b.take n) off w = rdBytes b off w := by
  unfold rdBytes
  have : ((b.take n).drop off).take w = (b.drop off).take w := by
    rw [List.drop_take, List.take_take]
    congr 1
    omega
  simp only [this]

theorem rd32_take (b : Bytes) (n off : Nat) (h : off + 4 ≤ n) : rd32 (b.take n) off = rd32 b off := by
  unfold rd32; rw [rdBytes_take b n off 4 h]
theorem rd64_take (b : Bytes) (n off : Nat) (h : off + 8 ≤ n) : rd64 (b.take n) off = rd64 b off := by
  unfold rd64; rw [rdBytes_take b n off 8 h]
theorem rd8_take (b : Bytes) (n off : Nat) (h : off + 1 ≤ n) : rd8 (b.take n) off = rd8 b off := by
  unfold rd8; rw [rdBytes_take b n off 1 h]

theorem metaBytes_take (f : Bytes) (n : Nat) (h : 80 ≤ n) : fMetaBytes (f.take n) = fMetaBytes f := by
  unfold fMetaBytes Hdr.metaSize
  rw [List.take_take]; congr 1; omega

/-- header validation looks at the 80 header bytes only. -/
theorem header_reads_80 (f : Bytes) (n : Nat) (h : 80 ≤ n) : isInvalidHeader (f.take n) = isInvalidHeader f := by
  unfold isInvalidHeader fLibver fMetaCrc fMagic Hdr.offLibver Hdr.offMetaCrc Hdr.offMagic
  rw [rd32_take f n 63 (by omega), rd32_take f n 67 (by omega), rd32_take f n 59 (by omega),
    metaBytes_take f n h]

theorem parseMeta_take (f : Bytes) (n : Nat) (h : 80 ≤ n) : parseMeta (f.take n) = parseMeta f := by
  unfold parseMeta fIdx fSize fBmSize fOrig fCtype fChk fMismatch fBeId fBeVer
    Hdr.offIdx Hdr.offSize Hdr.offBmSize Hdr.offOrig Hdr.offCtype Hdr.offChksum Hdr.offMismatch Hdr.offBeId Hdr.offBeVer
  rw [rd32_take f n 0 (by omega), rd32_take f n 4 (by omega), rd32_take f n 8 (by omega),
    rd64_take f n 12 (by omega), rd8_take f n 20 (by omega), rd8_take f n 53 (by omega),
    rd8_take f n 54 (by omega), rd32_take f n 55 (by omega)]
  congr 1
  apply List.map_congr_left
  intro i hi
  have : i < 8 := by simpa using hi
  exact rd32_take f n (21 + 4 * i) (by omega)

/-- the metadata query of a host-order fragment reads the header and `size` payload bytes. -/
theorem metadata_reads_bounded (f : Bytes) (n : Nat) (hn : 80 + fSize f ≤ n) (hm : fMagic f = magicC) :
    getFragmentMetadata (f.take n) = getFragmentMetadata f := by
  have h80 : 80 ≤ n := by omega
  unfold getFragmentMetadata
  rw [header_reads_80 f n h80, parseMeta_take f n h80]
  have hmag : fMagic (f.take n) = fMagic f := by
    unfold fMagic Hdr.offMagic; exact rd32_take f n 59 (by omega)
  rw [hmag, hm]
  have hpay : (fPayload (f.take n)).take (parseMeta f).size = (fPayload f).take (parseMeta f).size := by
    unfold fPayload Hdr.size
    have hs : (parseMeta f).size = fSize f := rfl
    rw [hs, List.drop_take, List.take_take]
    congr 1
    omega
  simp only [bne_self_eq_false, Bool.false_eq_true, if_false, hpay]

/-- results depend on the instance record only … -/
theorem encode_function_of_instance (env : Env) (be : Backend) (i₁ i₂ : Inst) (data : Bytes) (h : i₁ = i₂) :
    encode env be i₁ data = encode env be i₂ data := by rw [h]

/-- … and the record behind a live descriptor survives every create / destroy of other
    descriptors, hence every history of calls on other instances. -/
theorem lookup_stable (r : Registry) (ops : List LecProps.C14.Op) (d : Int) (inst : Inst)
    (hl : r.lookup d = some inst)
    (hno : ∀ o ∈ ops, o ≠ LecProps.C14.Op.destroy d) :
    (ops.foldl LecProps.C14.stepOp r).lookup d = some inst := by
  induction ops generalizing r with
  | nil => exact hl
  | cons o os ih =>
    simp only [List.foldl_cons]
    apply ih
    · cases o with
      | create a id k m w hd ct =>
        have hm : d ∈ r.live.map (·.1) := (LecProps.C14.lookup_isSome_iff r d).mp (by rw [hl]; rfl)
        show (r.create a id k m w hd ct).1.lookup d = some inst
        rw [LecProps.C14.isolation_create r a id k m w hd ct d hm]; exact hl
      | destroy d' =>
        have hne : d ≠ d' := by
          intro he
          exact hno (LecProps.C14.Op.destroy d') (by simp) (by rw [he])
        show (r.destroy d').1.lookup d = some inst
        rw [LecProps.C14.isolation_destroy r d' d hne]; exact hl
    · intro o' ho'; exact hno o' (by simp [ho'])

/-- non-vacuity: a 100-byte buffer whose header announces 4 payload bytes satisfies the premises
    of `metadata_reads_bounded` with n = 84, and the query succeeds on it. -/
example :
    (let i : Inst := { beId := 6, beVer := 0x010000, k := 2, m := 1, w := 16, ct := 2 }
     let env : Env := { libver := 0x010604, legacy := false }
     let f := (specHeader env i 1 5 4 [1, 2, 3, 4]).bytes ++ [1, 2, 3, 4] ++ List.replicate 16 0xAA
     decide (80 + fSize f ≤ 84) && decide (fMagic f = magicC) &&
       (match getFragmentMetadata (f.take 84) with | .ok m => m.mismatch == 0 | .error _ => false)) = true := by
  decide +kernel

#print axioms header_reads_80
#print axioms metadata_reads_bounded
#print axioms lookup_stable
end LecProps.C15
