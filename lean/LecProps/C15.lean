import LecModel
import LecGen
namespace LecProps.C15
end LecProps.C15
