/-
  C15 — Calls are pure: inputs untouched, reads in bounds, results history-independent.

  What the model can carry:
  `header_reads_80`      header validation depends only on the first 80 bytes of the fragment;
  `metadata_reads_bounded`
                         the metadata query depends only on the 80 header bytes and the `size`
                         payload bytes the (accepted, host-order) header announces — so with
                         `size ≤ fragment_len − 80` it reads inside [buffer, buffer+fragment_len);
  `gate_reads_80`, `gate_in_bounds`, `metadata_reads_declared`, `fragmentsToString_reads_declared`
                         the header loop of decode / reconstruct (`gateBad fragLen`: header validation
                         and `fragment_exceeds_length`) itself reads 80 bytes; a fragment that passes
                         it has header + announced payload + announced backend metadata inside the
                         declared `fragLen`; consequently the metadata query behind the forced checks
                         and the whole fast path of decode (`fragments_to_string`) give the same
                         answer on the buffers cut at `fragLen` — bytes behind the declared length are
                         never consulted.  (The slow path hands the payload areas to the backend
                         operation, an arbitrary function in the model, with the block size read from
                         a gated header; what a backend reads is its contract, `DecodeSound.*_nocrash`.)
  `encode_function_of_instance`, `lookup_stable`
                         results are functions of (environment switch, backend, instance record,
                         arguments) and an instance record is not changed by any call on any other
                         descriptor (C14 isolation): the bytes encode produces do not depend on the
                         calls that preceded it or on which other instances exist;
  inputs are immutable values in the model, so "never writes to the caller's input" holds by
  construction there.  That the compiled code performs no stray read or write, and the same from
  another thread, is runtime behaviour — *partial*: the harness places every input of encode,
  decode, reconstruct, the metadata query and validation on read-only pages ending at an
  inaccessible page (so any write or over-read faults), compares inputs before/after every call in
  every suite, and re-encodes after unrelated API activity and from a second thread.
-/
import LecProofs.BytesLemmas
import LecProofs.HeaderLemmas
import LecModel.Frontend
import LecProps.C14
namespace LecProps.C15
open Lec

theorem rdBytes_take (b : Bytes) (n off w : Nat) (h : off + w ≤ n) :
    rdBytes (b.take n) off w = rdBytes b off w := by
  unfold rdBytes
  have : ((b.take n).drop off).take w = (b.drop off).take w := by
    rw [List.drop_take, List.take_take]
    congr 1
    omega
  simp only [this]

theorem rd32_take (b : Bytes) (n off : Nat) (h : off + 4 ≤ n) : rd32 (b.take n) off = rd32 b off := by
  unfold rd32; rw [rdBytes_take b n off 4 h]
theorem rd64_take (b : Bytes) (n off : Nat) (h : off + 8 ≤ n) : rd64 (b.take n) off = rd64 b off := by
  unfold rd64; rw [rdBytes_take b n off 8 h]
theorem rd8_take (b : Bytes) (n off : Nat) (h : off + 1 ≤ n) : rd8 (b.take n) off = rd8 b off := by
  unfold rd8; rw [rdBytes_take b n off 1 h]

theorem metaBytes_take (f : Bytes) (n : Nat) (h : 80 ≤ n) : fMetaBytes (f.take n) = fMetaBytes f := by
  unfold fMetaBytes Hdr.metaSize
  rw [List.take_take]; congr 1; omega

/-- header validation looks at the 80 header bytes only. -/
theorem header_reads_80 (f : Bytes) (n : Nat) (h : 80 ≤ n) : isInvalidHeader (f.take n) = isInvalidHeader f := by
  unfold isInvalidHeader fLibver fMetaCrc fMagic Hdr.offLibver Hdr.offMetaCrc Hdr.offMagic
  rw [rd32_take f n 63 (by omega), rd32_take f n 67 (by omega), rd32_take f n 59 (by omega),
    metaBytes_take f n h]

theorem parseMeta_take (f : Bytes) (n : Nat) (h : 80 ≤ n) : parseMeta (f.take n) = parseMeta f := by
  unfold parseMeta fIdx fSize fBmSize fOrig fCtype fChk fMismatch fBeId fBeVer
    Hdr.offIdx Hdr.offSize Hdr.offBmSize Hdr.offOrig Hdr.offCtype Hdr.offChksum Hdr.offMismatch Hdr.offBeId Hdr.offBeVer
  rw [rd32_take f n 0 (by omega), rd32_take f n 4 (by omega), rd32_take f n 8 (by omega),
    rd64_take f n 12 (by omega), rd8_take f n 20 (by omega), rd8_take f n 53 (by omega),
    rd8_take f n 54 (by omega), rd32_take f n 55 (by omega)]
  congr 1
  apply List.map_congr_left
  intro i hi
  have : i < 8 := by simpa using hi
  exact rd32_take f n (21 + 4 * i) (by omega)

/-- the metadata query of a host-order fragment reads the header and `size` payload bytes. -/
theorem metadata_reads_bounded (f : Bytes) (n : Nat) (hn : 80 + fSize f ≤ n) (hm : fMagic f = magicC) :
    getFragmentMetadata (f.take n) = getFragmentMetadata f := by
  have h80 : 80 ≤ n := by omega
  unfold getFragmentMetadata
  rw [header_reads_80 f n h80, parseMeta_take f n h80]
  have hmag : fMagic (f.take n) = fMagic f := by
    unfold fMagic Hdr.offMagic; exact rd32_take f n 59 (by omega)
  rw [hmag, hm]
  have hpay : (fPayload (f.take n)).take (parseMeta f).size = (fPayload f).take (parseMeta f).size := by
    unfold fPayload Hdr.size
    have hs : (parseMeta f).size = fSize f := rfl
    rw [hs, List.drop_take, List.take_take]
    congr 1
    omega
  simp only [bne_self_eq_false, Bool.false_eq_true, if_false, hpay]

/-! ### the declared fragment length bounds every read of decode / reconstruct -/

theorem fSize_take (f : Bytes) (n : Nat) (h : 80 ≤ n) : fSize (f.take n) = fSize f := by
  unfold fSize Hdr.offSize; exact rd32_take f n 4 (by omega)
theorem fBmSize_take (f : Bytes) (n : Nat) (h : 80 ≤ n) : fBmSize (f.take n) = fBmSize f := by
  unfold fBmSize Hdr.offBmSize; exact rd32_take f n 8 (by omega)
theorem fMagic_take (f : Bytes) (n : Nat) (h : 80 ≤ n) : fMagic (f.take n) = fMagic f := by
  unfold fMagic Hdr.offMagic; exact rd32_take f n 59 (by omega)
theorem fIdx_take (f : Bytes) (n : Nat) (h : 80 ≤ n) : fIdx (f.take n) = fIdx f := by
  unfold fIdx Hdr.offIdx; exact rd32_take f n 0 (by omega)
theorem fOrig_take (f : Bytes) (n : Nat) (h : 80 ≤ n) : fOrig (f.take n) = fOrig f := by
  unfold fOrig Hdr.offOrig; exact rd64_take f n 12 (by omega)

/-- the whole test of the header loop of decode / reconstruct (header validation and the length
    test) looks at the 80 header bytes only. -/
theorem gate_reads_80 (f : Bytes) (fragLen n : Nat) (h : 80 ≤ n) :
    gateBad fragLen (f.take n) = gateBad fragLen f := by
  unfold gateBad fragExceedsLength
  rw [header_reads_80 f n h, fSize_take f n h, fBmSize_take f n h]

/-- what a fragment that passed the header loop guarantees: header, announced payload and announced
    backend metadata lie inside the `fragLen` bytes the caller declared. -/
theorem gate_in_bounds (f : Bytes) (fragLen : Nat) (hl : Hdr.size ≤ fragLen) (hg : gateBad fragLen f = false) :
    Hdr.size + fSize f + fBmSize f ≤ fragLen := by
  unfold gateBad fragExceedsLength at hg
  simp only [Bool.or_eq_false_iff, decide_eq_false_iff_not] at hg
  omega

/-- … so the metadata query behind the forced checks (payload checksum over `size` bytes) reads
    nothing beyond the declared length: bytes past `fragLen` do not influence it. -/
theorem metadata_reads_declared (f : Bytes) (fragLen : Nat) (hl : Hdr.size ≤ fragLen)
    (hg : gateBad fragLen f = false) (hm : fMagic f = magicC) :
    getFragmentMetadata (f.take fragLen) = getFragmentMetadata f := by
  have := gate_in_bounds f fragLen hl hg
  exact metadata_reads_bounded f fragLen (by simp only [Hdr.size] at this; omega) hm

theorem toI32_toNat_le (x : Nat) : (toI32 x).toNat ≤ x := by
  unfold toI32
  have := Nat.mod_le x (2 ^ 32)
  simp only
  split <;> omega

theorem payloadSize_le (f : Bytes) : (getPayloadSize f).toNat ≤ fSize f := by
  unfold getPayloadSize
  split
  · simp
  · exact toI32_toNat_le _

theorem getFragmentIdx_take (f : Bytes) (n : Nat) (h : 80 ≤ n) : getFragmentIdx (f.take n) = getFragmentIdx f := by
  unfold getFragmentIdx; rw [fMagic_take f n h, fIdx_take f n h]
theorem getPayloadSize_take (f : Bytes) (n : Nat) (h : 80 ≤ n) : getPayloadSize (f.take n) = getPayloadSize f := by
  unfold getPayloadSize; rw [fMagic_take f n h, fSize_take f n h]
theorem getOrigDataSize_take (f : Bytes) (n : Nat) (h : 80 ≤ n) : getOrigDataSize (f.take n) = getOrigDataSize f := by
  unfold getOrigDataSize; rw [fMagic_take f n h, fOrig_take f n h]

theorem payload_take (f : Bytes) (n c : Nat) (h : 80 + c ≤ n) :
    (fPayload (f.take n)).take c = (fPayload f).take c := by
  unfold fPayload Hdr.size
  rw [List.drop_take, List.take_take]
  congr 1
  omega

/-- the copy loop of `fragments_to_string` over fragments that passed the header loop. -/
theorem f2sCopy_take (fragLen : Nat) (hl : Hdr.size ≤ fragLen) (gs : List Bytes)
    (hg : ∀ g ∈ gs, gateBad fragLen g = false) (remaining : Nat) :
    f2sCopy (gs.map (·.take fragLen)) remaining = f2sCopy gs remaining := by
  have h80 : 80 ≤ fragLen := hl
  induction gs generalizing remaining with
  | nil => rfl
  | cons g gs ih =>
    simp only [List.map_cons, f2sCopy]
    rw [getPayloadSize_take g fragLen h80]
    have hb := gate_in_bounds g fragLen hl (hg g (by simp))
    have hp := payloadSize_le g
    simp only [Hdr.size] at hb
    split
    · rfl
    · rw [ih (fun x hx => hg x (by simp [hx]))]
      rw [payload_take g fragLen _ (by split <;> omega)]

/-- state of the scan loop with every placed fragment cut at the declared length. -/
def cutSt (n : Nat) (st : Except Int (Int × List (Option Bytes))) : Except Int (Int × List (Option Bytes)) :=
  match st with
  | .error e => .error e
  | .ok (o, sl) => .ok (o, sl.map (Option.map (·.take n)))

theorem f2sStep_take (k n : Nat) (h : 80 ≤ n) (st : Except Int (Int × List (Option Bytes))) (f : Bytes) :
    f2sStep k (cutSt n st) (f.take n) = cutSt n (f2sStep k st f) := by
  cases st with
  | error e => rfl
  | ok v =>
    obtain ⟨orig, slots⟩ := v
    simp only [cutSt, f2sStep, getFragmentIdx_take f n h, getPayloadSize_take f n h, getOrigDataSize_take f n h]
    split
    · rfl
    · split
      · rfl
      · split
        · rfl
        · have hget : (slots.map (Option.map (·.take n))).getD (getFragmentIdx f).toNat none =
              (slots.getD (getFragmentIdx f).toNat none).map (·.take n) := by
            simp [List.getD_eq_getElem?_getD]
            cases slots[(getFragmentIdx f).toNat]? <;> rfl
          rw [hget]
          cases hs : slots.getD (getFragmentIdx f).toNat none with
          | some g => simp
          | none => simp [List.map_set]


theorem f2s_fold_take (k n : Nat) (h : 80 ≤ n) (fs : List Bytes) (st : Except Int (Int × List (Option Bytes))) :
    (fs.map (·.take n)).foldl (f2sStep k) (cutSt n st) = cutSt n (fs.foldl (f2sStep k) st) := by
  induction fs generalizing st with
  | nil => rfl
  | cons f fs ih =>
    simp only [List.map_cons, List.foldl_cons]
    rw [f2sStep_take k n h, ih]

/-- the scan loop only ever places supplied fragments. -/
theorem f2sStep_mem (k : Nat) (P : Bytes → Prop) (st : Except Int (Int × List (Option Bytes))) (f : Bytes)
    (hf : P f) (hst : ∀ o sl, st = .ok (o, sl) → ∀ g, some g ∈ sl → P g) :
    ∀ o sl, f2sStep k st f = .ok (o, sl) → ∀ g, some g ∈ sl → P g := by
  intro o sl hs g hgm
  cases st with
  | error e => simp [f2sStep] at hs
  | ok v =>
    obtain ⟨orig, slots⟩ := v
    have hold := hst orig slots rfl
    unfold f2sStep at hs
    simp only at hs
    split at hs
    · cases hs
    · split at hs
      · cases hs
      · split at hs
        · cases hs; exact hold g hgm
        · split at hs
          · cases hs; exact hold g hgm
          · cases hs
            rcases List.mem_or_eq_of_mem_set hgm with h | h
            · exact hold g h
            · cases h; exact hf

theorem f2s_fold_mem (k : Nat) (P : Bytes → Prop) (fs : List Bytes) (hfs : ∀ f ∈ fs, P f)
    (st : Except Int (Int × List (Option Bytes)))
    (hst : ∀ o sl, st = .ok (o, sl) → ∀ g, some g ∈ sl → P g) :
    ∀ o sl, fs.foldl (f2sStep k) st = .ok (o, sl) → ∀ g, some g ∈ sl → P g := by
  induction fs generalizing st with
  | nil => exact hst
  | cons f fs ih =>
    simp only [List.foldl_cons]
    exact ih (fun x hx => hfs x (by simp [hx])) _ (f2sStep_mem k P st f (hfs f (by simp)) hst)

/-- **the fast path of decode reads nothing beyond the declared length**: once every supplied
    fragment has passed the header loop (`gateBad fragLen` false), `fragments_to_string` gives the
    same answer on the buffers cut at `fragLen` bytes — whatever lies behind the declared length
    (the next object in memory, in C) cannot influence the result. -/
theorem fragmentsToString_reads_declared (k fragLen : Nat) (hl : Hdr.size ≤ fragLen) (frags : List Bytes)
    (hg : frags.any (gateBad fragLen) = false) :
    fragmentsToString k (frags.map (·.take fragLen)) = fragmentsToString k frags := by
  have h80 : 80 ≤ fragLen := hl
  have hall : ∀ f ∈ frags, gateBad fragLen f = false := by
    intro f hf
    cases hc : gateBad fragLen f with
    | false => rfl
    | true =>
      have : frags.any (gateBad fragLen) = true := List.any_eq_true.mpr ⟨f, hf, hc⟩
      rw [hg] at this; cases this
  unfold fragmentsToString
  rw [List.length_map]
  split
  · rfl
  · have hfold : (frags.map (·.take fragLen)).foldl (f2sStep k) (.ok (-1, List.replicate k none)) =
        cutSt fragLen (frags.foldl (f2sStep k) (.ok (-1, List.replicate k none))) := by
      have := f2s_fold_take k fragLen h80 frags (.ok (-1, List.replicate k none))
      simpa [cutSt] using this
    rw [hfold]
    have hinv := f2s_fold_mem k (fun g => gateBad fragLen g = false) frags hall
      (.ok (-1, List.replicate k none)) (by
        intro o sl h g hgm
        cases h
        simp at hgm)
    cases hr : frags.foldl (f2sStep k) (.ok (-1, List.replicate k none)) with
    | error e => rfl
    | ok v =>
      obtain ⟨orig, slots⟩ := v
      have hinv' := hinv orig slots hr
      simp only [cutSt]
      have hany : (slots.map (Option.map (·.take fragLen))).any Option.isNone = slots.any Option.isNone := by
        rw [List.any_map]
        congr 1
        funext x
        cases x <;> rfl
      have hfm : (slots.map (Option.map (·.take fragLen))).filterMap id =
          (slots.filterMap id).map (·.take fragLen) := by
        rw [List.filterMap_map, List.map_filterMap]
        rfl
      rw [hany, hfm, f2sCopy_take fragLen hl _ (by
        intro g hgm
        rw [List.mem_filterMap] at hgm
        obtain ⟨x, hx, rfl⟩ := hgm
        exact hinv' g hx)]

/-- results depend on the instance record only … -/
theorem encode_function_of_instance (env : Env) (be : Backend) (i₁ i₂ : Inst) (data : Bytes) (h : i₁ = i₂) :
    encode env be i₁ data = encode env be i₂ data := by rw [h]

/-- … and the record behind a live descriptor survives every create / destroy of other
    descriptors, hence every history of calls on other instances. -/
theorem lookup_stable (r : Registry) (ops : List LecProps.C14.Op) (d : Int) (inst : Inst)
    (hl : r.lookup d = some inst)
    (hno : ∀ o ∈ ops, o ≠ LecProps.C14.Op.destroy d) :
    (ops.foldl LecProps.C14.stepOp r).lookup d = some inst := by
  induction ops generalizing r with
  | nil => exact hl
  | cons o os ih =>
    simp only [List.foldl_cons]
    apply ih
    · cases o with
      | create a id k m w hd ct =>
        have hm : d ∈ r.live.map (·.1) := (LecProps.C14.lookup_isSome_iff r d).mp (by rw [hl]; rfl)
        show (r.create a id k m w hd ct).1.lookup d = some inst
        rw [LecProps.C14.isolation_create r a id k m w hd ct d hm]; exact hl
      | destroy d' =>
        have hne : d ≠ d' := by
          intro he
          exact hno (LecProps.C14.Op.destroy d') (by simp) (by rw [he])
        show (r.destroy d').1.lookup d = some inst
        rw [LecProps.C14.isolation_destroy r d' d hne]; exact hl
    · intro o' ho'; exact hno o' (by simp [ho'])

/-- non-vacuity: a 100-byte buffer whose header announces 4 payload bytes satisfies the premises
    of `metadata_reads_bounded` with n = 84, and the query succeeds on it. -/
example :
    (let i : Inst := { beId := 6, beVer := 0x010000, k := 2, m := 1, w := 16, ct := 2 }
     let env : Env := { libver := 0x010604, legacy := false }
     let f := (specHeader env i 1 5 4 [1, 2, 3, 4]).bytes ++ [1, 2, 3, 4] ++ List.replicate 16 0xAA
     decide (80 + fSize f ≤ 84) && decide (fMagic f = magicC) &&
       (match getFragmentMetadata (f.take 84) with | .ok m => m.mismatch == 0 | .error _ => false)) = true := by
  decide +kernel

/-- non-vacuity: the same 100-byte buffer passes the header loop for a declared length of 84 (not
    for 83), and cutting it at 84 bytes does not change what the fast path returns. -/
example :
    (let i : Inst := { beId := 6, beVer := 0x010000, k := 1, m := 1, w := 32, ct := 2 }
     let env : Env := { libver := 0x010604, legacy := false }
     let f := (specHeader env i 0 4 4 [1, 2, 3, 4]).bytes ++ [1, 2, 3, 4] ++ List.replicate 16 0xAA
     !gateBad 84 f && gateBad 83 f &&
       (match fragmentsToString 1 [f], fragmentsToString 1 [f.take 84] with
        | .ok a, .ok b => a == [1, 2, 3, 4] && b == [1, 2, 3, 4]
        | _, _ => false)) = true := by
  decide +kernel

#print axioms header_reads_80
#print axioms metadata_reads_bounded
#print axioms gate_reads_80
#print axioms gate_in_bounds
#print axioms metadata_reads_declared
#print axioms fragmentsToString_reads_declared
#print axioms lookup_stable
end LecProps.C15
