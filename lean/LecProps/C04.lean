/-
  C04 — RS-Vandermonde parity is the canonical MDS code, bit-stable across versions.

  The arithmetic: xor / `gmul` (16-step shift-and-add reduced by 0x1100b) on naturals below 2^16
  form a field (LecProofs.GF16Field: instance `Field GF16`, no irreducibility assumption — the
  generator 2 is shown to have order 65535).
  `closed_form`    the generator entry for parity row r ≥ k and data column j is, in that field,
                   L_j(r)/L_j(k) with L_j(x) = ∏_{i<k, i≠j}(x − i)  (= x xor i in characteristic 2);
  `systematic`, `first_parity_all_ones`
                   rows 0..k-1 are the identity and the first parity row is all ones, i.e. the
                   first parity is the XOR of the data;
  `mds`            any k of the k+m rows form an invertible matrix: any k fragments determine
                   the data — for every k+m ≤ 65536, not only ≤ 32;
  `parity_words`   the parity payloads encode produces are, word by word on host-order
                   (little-endian) 16-bit words, Σ_j G[r][j]·data_j[w].
  Executed on every run, for all 496 shapes with k+m ≤ 32 (exhaustive, reported as execution,
  not as a kernel theorem, see DESIGN §5.2): the library's `make_systematic_matrix`, the model's
  transliteration `makeSys` and this closed form agree entry by entry; the library's log/antilog
  tables (all 65 536 + 196 605 entries) and `rs_galois_mult/div` agree with the model's tables
  and with `gmul`.  Any other matrix — even another invertible one — fails that comparison, which
  is what makes parity bytes stable across builds and versions.
-/
import LecProofs.RSBackend
import LecGen
namespace LecProps.C04
open Lec Finset

theorem closed_form {k m r : Nat} (j : Nat) (hkm : k + m ≤ 65536) (hr : r < k + m) (hrk : k ≤ r) :
    GF16.ofNat (genEntry k r j) =
      (∏ i ∈ (range k).erase j, (GF16.ofNat r - GF16.ofNat i)) /
        ∏ i ∈ (range k).erase j, (GF16.ofNat k - GF16.ofNat i) :=
  ofNat_genEntry_parity j hkm hr (by omega)

theorem systematic {k r : Nat} (j : Nat) (hr : r < k) : genEntry k r j = if r = j then 1 else 0 :=
  genEntry_systematic j hr

theorem first_parity_all_ones {k : Nat} (j : Nat) (hk : k < 65536) : genEntry k k j = 1 :=
  genEntry_first_parity j hk

theorem entries_in_field {k m r j : Nat} (hkm : k + m ≤ 65536) (hr : r < k + m) : genEntry k r j < 2 ^ 16 :=
  genEntry_lt hkm hr

/-- any k distinct rows of the (k+m) × k generator are linearly independent. -/
theorem mds {k m : Nat} (hkm : k + m ≤ 65536) (S : Fin k → Nat) (hinj : Function.Injective S)
    (hlt : ∀ a, S a < k + m) : (genMatrix k S).det ≠ 0 :=
  genMatrix_det_ne_zero hkm S hinj hlt

/-- encode's parity payloads are the matrix–vector products over 16-bit little-endian words. -/
theorem parity_words {k m bs : Nat} (hkm : k + m ≤ 65536) (hbs : bs % 2 = 0)
    (data : List Bytes) (hdl : data.length = k) (hdb : ∀ b ∈ data, b.length = bs) :
    ∃ P, rsEncode (genEntry k) k m data (List.replicate m (zeros bs)) bs = some P ∧ P.length = m ∧
      ∀ i < m, (P.getD i []).length = bs ∧
        ∀ w < bs / 2, wordAt (wordsOf (P.getD i [])) w =
          ∑ j ∈ range k, GF16.ofNat (genEntry k (k + i) j) * wordAt (wordsOf (data.getD j [])) w := by
  obtain ⟨P, h1, h2, h3⟩ := rsEncode_spec hkm hbs data (List.replicate m (zeros bs)) hdl hdb
    (by intro i hi; exact replicate_zeros_getD hi)
  exact ⟨P, h1, h2, fun i hi => ⟨(h3 i hi).2.1, (h3 i hi).2.2⟩⟩

/-- host order: a 16-bit word is low byte first. -/
theorem word_little_endian (a b : UInt8) (rest : Bytes) :
    wordsOf (a :: b :: rest) = (a.toNat + 256 * b.toNat) :: wordsOf rest := rfl

/-- non-vacuity / golden values: the (4,2) generator's parity rows. -/
example : (List.range 4).map (genEntry 4 4) = [1, 1, 1, 1] ∧
    (List.range 4).map (genEntry 4 5) = [20483, 52230, 27503, 30722] := by
  decide +kernel

#print axioms closed_form
#print axioms first_parity_all_ones
#print axioms mds
#print axioms parity_words
end LecProps.C04
