/-
  C04 — RS-Vandermonde parity is the canonical MDS code, bit-stable across versions.

  The arithmetic: xor / `gmul` (16-step shift-and-add reduced by 0x1100b) on naturals below 2^16
  form a field (LecProofs.GF16Field: instance `Field GF16`, no irreducibility assumption — the
  generator 2 is shown to have order 65535).
  `closed_form`    the generator entry for parity row r ≥ k and data column j is, in that field,
                   L_j(r)/L_j(k) with L_j(x) = ∏_{i<k, i≠j}(x − i)  (= x xor i in characteristic 2);
  `systematic`, `first_parity_all_ones`
                   rows 0..k-1 are the identity and the first parity row is all ones, i.e. the
                   first parity is the XOR of the data;
  `mds`            any k of the k+m rows form an invertible matrix: any k fragments determine
                   the data — for every k+m ≤ 65536, not only ≤ 32;
  `parity_words`   the parity payloads encode produces are, word by word on host-order
                   (little-endian) 16-bit words, Σ_j G[r][j]·data_j[w].
  `table_mult`, `table_div`
                   the log/antilog tables built like `rs_galois_init_tables` (65 535 successive
                   doublings) multiply and divide exactly like the shift-and-add field product:
                   `rs_galois_mult x y = x·y`, `rs_galois_div x y = x·y⁻¹`, division by zero = −1
                   (structural proof over the table-building loop: the generator 2 has order
                   65535, so log/antilog are mutually inverse bijections — no table is evaluated);
  `algorithm_closed_form`
                   the *algorithm* `make_systematic_matrix` (Vandermonde matrix on points
                   0..k+m-1, column reduction to systematic form with the table arithmetic,
                   normalisation of the first parity row), transliterated step by step as
                   `makeSys`, terminates without ever taking its row-swap or failure exits and
                   returns exactly the closed-form generator — for every k ≥ 1 and k+m ≤ 65536.
  Executed on every run, for all 496 shapes with k+m ≤ 32 (the tie between the model and the C
  code): the library's `make_systematic_matrix`, the model's `makeSys` and the closed form agree
  entry by entry; the library's log/antilog tables (all 65 536 + 196 605 entries) and
  `rs_galois_mult/div` agree with the model's tables and with `gmul`.  Any other matrix — even
  another invertible one — fails that comparison, which is what makes parity bytes stable across
  builds and versions.
-/
import LecProofs.RSBackend
import LecProofs.GFTables
import LecProofs.MakeSys
import LecGen
namespace LecProps.C04
open Lec Finset

theorem closed_form {k m r : Nat} (j : Nat) (hkm : k + m ≤ 65536) (hr : r < k + m) (hrk : k ≤ r) :
    GF16.ofNat (genEntry k r j) =
      (∏ i ∈ (range k).erase j, (GF16.ofNat r - GF16.ofNat i)) /
        ∏ i ∈ (range k).erase j, (GF16.ofNat k - GF16.ofNat i) :=
  ofNat_genEntry_parity j hkm hr (by omega)

theorem systematic {k r : Nat} (j : Nat) (hr : r < k) : genEntry k r j = if r = j then 1 else 0 :=
  genEntry_systematic j hr

theorem first_parity_all_ones {k : Nat} (j : Nat) (hk : k < 65536) : genEntry k k j = 1 :=
  genEntry_first_parity j hk

theorem entries_in_field {k m r j : Nat} (hkm : k + m ≤ 65536) (hr : r < k + m) : genEntry k r j < 2 ^ 16 :=
  genEntry_lt hkm hr

/-- `rs_galois_mult` over the tables = the field product. -/
theorem table_mult {x y : Nat} (hx : x < 2 ^ 16) (hy : y < 2 ^ 16) : tmul x y = gmul x y :=
  tmul_eq_gmul hx hy

/-- `rs_galois_div` over the tables = product with the inverse; `none` (C: -1) exactly for a
    non-zero numerator over zero. -/
theorem table_div {x y : Nat} (hx : x < 2 ^ 16) (hy : y < 2 ^ 16) :
    tdiv x y = if x = 0 then some 0 else if y = 0 then none else some (gmul x (ginv y)) := by
  by_cases h0 : x = 0
  · subst h0; simp [tdiv_zero_left]
  · by_cases hy0 : y = 0
    · subst hy0; simp [h0, tdiv_zero x h0]
    · simp [h0, hy0, tdiv_eq hx hy hy0]

theorem tables_ok : TablesOK :=
  ⟨fun _ _ hx hy => tmul_eq_gmul hx hy, fun _ _ hx hy h0 => tdiv_eq hx hy h0⟩

/-- `make_systematic_matrix(k, m)` returns the closed-form generator, row-major. -/
theorem algorithm_closed_form {k m : Nat} (hk : 1 ≤ k) (hn : k + m ≤ 65536) :
    makeSys k m = some (Array.ofFn (n := (k + m) * k) fun i => genEntry k (i.val / k) (i.val % k)) :=
  makeSys_eq_ofFn tables_ok hk hn

theorem algorithm_entries {k m : Nat} (hk : 1 ≤ k) (hn : k + m ≤ 65536) :
    ∃ a, makeSys k m = some a ∧ a.size = (k + m) * k ∧
      ∀ r < k + m, ∀ j < k, a[r * k + j]! = genEntry k r j :=
  makeSys_eq_genEntry tables_ok hk hn

/-- any k distinct rows of the (k+m) × k generator are linearly independent. -/
theorem mds {k m : Nat} (hkm : k + m ≤ 65536) (S : Fin k → Nat) (hinj : Function.Injective S)
    (hlt : ∀ a, S a < k + m) : (genMatrix k S).det ≠ 0 :=
  genMatrix_det_ne_zero hkm S hinj hlt

/-- encode's parity payloads are the matrix–vector products over 16-bit little-endian words. -/
theorem parity_words {k m bs : Nat} (hkm : k + m ≤ 65536) (hbs : bs % 2 = 0)
    (data : List Bytes) (hdl : data.length = k) (hdb : ∀ b ∈ data, b.length = bs) :
    ∃ P, rsEncode (genEntry k) k m data (List.replicate m (zeros bs)) bs = some P ∧ P.length = m ∧
      ∀ i < m, (P.getD i []).length = bs ∧
        ∀ w < bs / 2, wordAt (wordsOf (P.getD i [])) w =
          ∑ j ∈ range k, GF16.ofNat (genEntry k (k + i) j) * wordAt (wordsOf (data.getD j [])) w := by
  obtain ⟨P, h1, h2, h3⟩ := rsEncode_spec hkm hbs data (List.replicate m (zeros bs)) hdl hdb
    (by intro i hi; exact replicate_zeros_getD hi)
  exact ⟨P, h1, h2, fun i hi => ⟨(h3 i hi).2.1, (h3 i hi).2.2⟩⟩

/-- host order: a 16-bit word is low byte first. -/
theorem word_little_endian (a b : UInt8) (rest : Bytes) :
    wordsOf (a :: b :: rest) = (a.toNat + 256 * b.toNat) :: wordsOf rest := rfl

/-- non-vacuity / golden values: the (4,2) generator's parity rows. -/
example : (List.range 4).map (genEntry 4 4) = [1, 1, 1, 1] ∧
    (List.range 4).map (genEntry 4 5) = [20483, 52230, 27503, 30722] := by
  decide +kernel

#print axioms closed_form
#print axioms table_mult
#print axioms table_div
#print axioms algorithm_closed_form
#print axioms first_parity_all_ones
#print axioms mds
#print axioms parity_words
end LecProps.C04
