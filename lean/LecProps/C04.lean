import LecModel
import LecGen
namespace LecProps.C04
end LecProps.C04
