/-
  C18 — Concurrent use from multiple threads is race-free and gives sequential results.

  (i)  `discipline_holds`   over the synchronisation skeleton regenerated from the C source on
       every run (LecGen.SyncSkeleton: per function, every access to the registry list, the
       descriptor counter, an instance's descriptor, the GF-table reference count and the table
       pointers, and every call of a lock-requiring helper, with the locks held there):
       list/descriptor reads happen under the registry lock (shared or exclusive), list/descriptor
       writes and every use of the descriptor counter under the exclusive lock, the helpers that
       require the lock are only called with it held, the lock-taking entry points are never
       called with it held (the lock is not recursive), and the table reference count and table
       pointers are only written under the table mutex.
  (ii) `no_adjacent_conflict` for a reader–writer lock, in every interleaving that respects the
       lock's semantics and the discipline, two conflicting accesses of different threads are never
       adjacent: no data race on anything the lock protects, for any number of threads and any
       schedule (induction over the trace, invariant: a writer excludes everybody else).
  (iii) `register_atomic_*`  registry updates are therefore atomic critical sections, so every
       concurrent history of create / destroy is a sequential history in lock order and the C14
       invariants (unique positive descriptors, failed create leaves nothing) apply to it verbatim.
  (iv) `tables_built_iff`   the shared GF tables exist exactly while the reference count is
       positive under every sequence of set-up / tear-down steps, so a thread that owns a live
       rs_vand instance only ever reads built tables and nobody writes them meanwhile.
  What is not proved (*partial*): the semantics of pthread rwlocks / mutexes, compiler
  reordering and the hardware memory model — the model is sequentially consistent interleavings of
  lock-delimited actions.  Runtime tie: per-thread create/use/destroy and shared-descriptor
  workloads with 2..16 threads under ThreadSanitizer, results compared with the sequential ones;
  three forced interleavings through the LIBERASURECODE_VERIF yield hooks (lookup vs. destroy of
  the node being visited; second creator during the first table set-up; lookup of descriptor 0
  during registration).
-/
import LecModel.Conc
import LecProps.C14
import LecGen
namespace LecProps.C18
open Lec

/-! ### (i) the discipline over the generated skeleton -/

def lockedHelpers : List String :=
  ["liberasurecode_backend_instance_lookup", "liberasurecode_backend_alloc_desc"]
def lockTakers : List String :=
  ["liberasurecode_backend_instance_get_by_desc", "liberasurecode_backend_instance_register",
   "liberasurecode_backend_instance_unregister"]

def disciplined (a : LecGen.SyncAccess) : Bool :=
  if a.var == "call" then
    if a.callee == "liberasurecode_backend_instance_lookup" then
      -- needs the lock, shared suffices; inside alloc_desc the caller's exclusive lock covers it
      a.rd || a.wr || a.fn == "liberasurecode_backend_alloc_desc"
    else if a.callee == "liberasurecode_backend_alloc_desc" then a.wr
    else if lockTakers.contains a.callee then !a.rd && !a.wr
    else true
  else if lockedHelpers.contains a.fn then true         -- judged at their call sites
  else if a.var == "list" || a.var == "idesc" then (if a.write then a.wr else a.rd || a.wr)
  else if a.var == "counter" then a.wr
  else if a.var == "refcount" then a.mx
  else if a.var == "tables" then (if a.write then a.mx else true)   -- readers: see (iv)
  else true

theorem discipline_holds : ∀ a ∈ LecGen.syncSkeleton, disciplined a = true := by decide

/-- the skeleton still contains the functions the argument is about. -/
theorem skeleton_covers :
    (LecGen.syncSkeleton.any fun a => a.fn == "liberasurecode_backend_instance_get_by_desc" && a.var == "call" && a.rd) = true ∧
    (LecGen.syncSkeleton.any fun a => a.fn == "liberasurecode_backend_instance_register" && a.var == "list" && a.write && a.wr) = true ∧
    (LecGen.syncSkeleton.any fun a => a.fn == "liberasurecode_backend_instance_unregister" && a.var == "list" && a.write && a.wr) = true ∧
    (LecGen.syncSkeleton.any fun a => a.fn == "rs_galois_init_tables" && a.var == "refcount" && a.write && a.mx) = true ∧
    (LecGen.syncSkeleton.any fun a => a.fn == "rs_galois_deinit_tables" && a.var == "tables" && a.write && a.mx) = true := by
  decide

/-! ### (ii) discipline ⇒ no race, for every trace -/

def LockInv (s : LockSt) : Prop := ∀ w, s.writer = some w → s.readers = []

theorem lockInv_init : LockInv LockSt.init := by intro w h; cases h

theorem lockInv_step (s s' : LockSt) (e : Ev) (h : LockInv s) (hs : lockStep s e = some s') : LockInv s' := by
  unfold lockStep at hs
  cases ha : e.act <;> simp only [ha] at hs
  · -- rdlock
    split at hs
    · rename_i hc
      simp only [Option.some.injEq] at hs; subst hs
      intro w hw
      simp only [Bool.and_eq_true, Option.isNone_iff_eq_none] at hc
      simp only at hw
      rw [hc.1] at hw; cases hw
    · cases hs
  · -- wrlock
    split at hs
    · rename_i hc
      simp only [Option.some.injEq] at hs; subst hs
      intro w _
      simp only [Bool.and_eq_true, List.isEmpty_iff] at hc
      exact hc.2
    · cases hs
  · -- unlock
    split at hs
    · simp only [Option.some.injEq] at hs; subst hs
      intro w hw; cases hw
    · split at hs
      · simp only [Option.some.injEq] at hs; subst hs
        intro w hw
        have := h w hw
        simp [this]
      · cases hs
  · simp only [Option.some.injEq] at hs; subst hs; exact h
  · simp only [Option.some.injEq] at hs; subst hs; exact h

/-- in one state, two different threads cannot both satisfy the discipline for conflicting
    accesses. -/
theorem no_conflict_in_state (s : LockSt) (h : LockInv s) (e1 e2 : Ev) (hne : e1.tid ≠ e2.tid)
    (hc : conflicting e1.act e2.act = true) (h1 : accessOK s e1 = true) (h2 : accessOK s e2 = true) : False := by
  unfold conflicting isAccess at hc
  unfold accessOK at h1 h2
  cases ha1 : e1.act <;> cases ha2 : e2.act <;> simp [ha1, ha2] at hc h1 h2
  · -- read / write
    have hr := h _ h2
    rcases h1 with h1 | h1
    · rw [hr] at h1; simp at h1
    · rw [h2] at h1; simp at h1; exact hne h1.symm
  · -- write / read
    have hr := h _ h1
    rcases h2 with h2 | h2
    · rw [hr] at h2; simp at h2
    · rw [h1] at h2; simp at h2; exact hne h2
  · -- write / write
    rw [h1] at h2; simp at h2; exact hne h2

/-- **no data race**: in any trace that the lock semantics allow and that follows the
    discipline, conflicting accesses by different threads are never adjacent. -/
theorem no_adjacent_conflict (s : LockSt) (hs : LockInv s) (pre : List Ev) (e1 e2 : Ev) (post : List Ev)
    (hne : e1.tid ≠ e2.tid) (hc : conflicting e1.act e2.act = true)
    (hrun : (runTrace s (pre ++ e1 :: e2 :: post)).isSome = true) : False := by
  induction pre generalizing s with
  | nil =>
    simp only [List.nil_append, runTrace] at hrun
    by_cases h1 : accessOK s e1 = true
    · simp only [h1, if_true] at hrun
      have hacc : isAccess e1.act = true := by
        unfold conflicting at hc; simp only [Bool.and_eq_true] at hc; exact hc.1.1
      have hsame : lockStep s e1 = some s := by
        unfold lockStep; unfold isAccess at hacc
        cases ha : e1.act <;> simp [ha] at hacc ⊢
      rw [hsame] at hrun
      simp only at hrun
      by_cases h2 : accessOK s e2 = true
      · exact no_conflict_in_state s hs e1 e2 hne hc h1 h2
      · simp [h2] at hrun
    · simp [h1] at hrun
  | cons p ps ih =>
    simp only [List.cons_append, runTrace] at hrun
    by_cases hp : accessOK s p = true
    · simp only [hp, if_true] at hrun
      cases hst : lockStep s p with
      | none => simp [hst] at hrun
      | some s' =>
        simp only [hst] at hrun
        exact ih s' (lockInv_step s s' p hs hst) hrun
    · simp [hp] at hrun

/-! ### (iii) atomic registry updates ⇒ sequential registry semantics -/

/-- a concurrent history of registry updates, in the order the exclusive lock was granted, is a
    sequential history: the C14 invariant holds after it. -/
theorem register_atomic_inv (ops : List LecProps.C14.Op) :
    LecProps.C14.Inv (ops.foldl LecProps.C14.stepOp Registry.init) :=
  LecProps.C14.inv_history ops

theorem register_atomic_unique (r : Registry) (avail : Nat → Bool) (id k m w hd : Int) (ct : Nat)
    (hs : 0 < (r.create avail id k m w hd ct).2) :
    (r.create avail id k m w hd ct).2 ∉ r.live.map (·.1) :=
  (LecProps.C14.create_fresh r avail id k m w hd ct hs).1

/-! ### (iv) reference-counted tables -/

inductive TabOp | init | deinit
def tabStep (s : TabSt) : TabOp → TabSt
  | .init => tabInit s
  | .deinit => tabDeinit s

theorem tables_built_iff (ops : List TabOp) :
    let s := ops.foldl tabStep ⟨0, false⟩
    (s.built = true ↔ 0 < s.count) := by
  suffices ∀ s : TabSt, (s.built = true ↔ 0 < s.count) →
      ((ops.foldl tabStep s).built = true ↔ 0 < (ops.foldl tabStep s).count) from this _ (by simp)
  induction ops with
  | nil => intro s h; exact h
  | cons o os ih =>
    intro s h
    apply ih
    cases o
    · simp only [tabStep, tabInit]
      split
      · rename_i hc; simp only; constructor
        · intro _; omega
        · intro _; exact h.mpr hc
      · simp
    · simp only [tabStep, tabDeinit]
      split
      · exact h
      · split
        · simp
        · rename_i h0 h1
          simp only; constructor
          · intro _; omega
          · intro _; exact h.mpr (by omega)

/-- the tables are only rebuilt or freed on the 0↔1 transitions of the count. -/
theorem tables_untouched_while_shared (s : TabSt) (h : 1 < s.count) :
    (tabInit s).built = s.built ∧ (tabDeinit s).built = s.built := by
  unfold tabInit tabDeinit
  have h1 : s.count > 0 := by omega
  have h2 : ¬ s.count = 0 := by omega
  have h3 : ¬ s.count = 1 := by omega
  simp [h1, h2, h3]

/-- non-vacuity: a two-thread trace — T1 writes under the exclusive lock, T2 then reads under the
    shared lock — is accepted; the same trace without T2's lock is rejected by the discipline. -/
example :
    (runTrace LockSt.init [⟨1, .wrlock⟩, ⟨1, .write⟩, ⟨1, .unlock⟩, ⟨2, .rdlock⟩, ⟨2, .read⟩, ⟨2, .unlock⟩]).isSome = true ∧
    (runTrace LockSt.init [⟨1, .wrlock⟩, ⟨1, .write⟩, ⟨2, .read⟩, ⟨1, .unlock⟩]).isSome = false := by
  decide

#print axioms discipline_holds
#print axioms no_adjacent_conflict
#print axioms register_atomic_inv
#print axioms tables_built_iff
end LecProps.C18
