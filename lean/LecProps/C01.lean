import LecModel
import LecGen
namespace LecProps.C01
end LecProps.C01
