/-
  C01 — Encode then decode returns the original bytes for every tolerated erasure set.

  `roundtrip`        (any backend satisfying the encode/decode contracts) for every instance
                     creation can return, every input `encode` accepts (any content, length 0
                     included; `encode` refuses exactly the lengths with
                     `len + k*(w/8) + 80 > INT_MAX`, see C13 `encode_guard_exact`), every list of fragments drawn from the encoded stripe — any order,
                     duplicates, surplus — whose missing indexes are within the code's tolerance,
                     with or without forced metadata checks, with either checksum type and either
                     CRC variant: decode returns exactly the input.  16-byte alignment is not a
                     notion of the value-level model (unaligned buffers are copied by the C code;
                     the harness exercises mis-aligned buffers against the model's results).
  `roundtrip_rs`     the built-in Reed–Solomon code meets the contracts for every k ≥ 1, k+m ≤ 32
                     with tolerance "at most m missing": GF(2^16) arithmetic is a field, the
                     generator is MDS, Gauss–Jordan inversion succeeds on every k available rows
                     (LecProofs.GF16Field / MDS / GaussJordan / RSCorrect / RSBackend).
  `roundtrip_xor`    every generated flat-XOR table meets them with tolerance "fewer than hd"
                     (kernel-decided per table over the tables regenerated from the C header).
  `roundtrip_rs_small`, `roundtrip_xor_small`  the same with the earlier, stronger hypothesis
                     `data.length < 2^31 - 2^12` (corollaries).
-/
import LecProofs.Instances
import LecProofs.XorContracts
import LecProofs.XorTablesOK
import LecGen
namespace LecProps.C01
open Lec

/-- the general statement. -/
theorem roundtrip (env : Env) (be : Backend) (i : Inst) (data : Bytes) (enc frags : List Bytes)
    {tol : List Nat → Prop} {bsOK : Nat → Prop}
    (hE : EncodeOK be i.k i.m bsOK) (hD : DecodeOK be i.k i.m tol bsOK)
    (hbs : bsOK (blockSize i data.length)) (hok : FrontOK env i data.length)
    (hc : be.compat i.beVer = true)
    (henc : encode env be i data = .ok enc)
    (hsub : ∀ f ∈ frags, f ∈ enc)
    (htol : tol (missingOfStripe enc frags)) (hmiss : (missingOfStripe enc frags).length ≤ i.m)
    (hn : i.k ≤ frags.length) (force : Bool) :
    decode env be i frags (80 + blockSize i data.length) force = .ok data := by
  cases force with
  | false => exact decode_roundtrip env be i data enc frags hE hbs hok henc hsub hD htol hmiss hn
  | true => exact decode_roundtrip_forced env be i data enc frags hE hbs hok henc hsub hD htol hmiss hn hc

/-- Reed–Solomon Vandermonde, every accepted shape. -/
theorem roundtrip_rs (env : Env) (k m ct : Nat) (hk : 1 ≤ k) (hkm : k + m ≤ 32) (hct : ct < 256)
    (hlv : env.libver < 2 ^ 32) (hl0 : env.libver ≠ 0)
    (data : Bytes) (hg : encodeTooLarge (rsInst k m ct) data.length = false) :
    ∃ enc, encode env (rsBackend (genEntry k) k m) (rsInst k m ct) data = .ok enc ∧
      ∀ frags : List Bytes, (∀ f ∈ frags, f ∈ enc) → (missingOfStripe enc frags).length ≤ m →
        k ≤ frags.length → ∀ force,
        decode env (rsBackend (genEntry k) k m) (rsInst k m ct) frags
          (80 + blockSize (rsInst k m ct) data.length) force = .ok data := by
  obtain ⟨enc, henc⟩ := rs_encode_exists env k m ct hk hkm data hg
  refine ⟨enc, henc, ?_⟩
  intro frags hsub hmiss hn force
  exact roundtrip env _ (rsInst k m ct) data enc frags (rs_encodeOK k m) (rs_decodeOK (by omega))
    (blockSize_even _ _ hk rfl) (rs_frontOK_guard env k m ct data.length hk hkm hct hlv hl0 hg)
    (by simp [rsBackend, rsInst]) henc hsub hmiss hmiss hn force

/-- `roundtrip_rs` under the earlier hypothesis on the length. -/
theorem roundtrip_rs_small (env : Env) (k m ct : Nat) (hk : 1 ≤ k) (hkm : k + m ≤ 32) (hct : ct < 256)
    (hlv : env.libver < 2 ^ 32) (hl0 : env.libver ≠ 0)
    (data : Bytes) (hlen : data.length < 2 ^ 31 - 2 ^ 12) :
    ∃ enc, encode env (rsBackend (genEntry k) k m) (rsInst k m ct) data = .ok enc ∧
      ∀ frags : List Bytes, (∀ f ∈ frags, f ∈ enc) → (missingOfStripe enc frags).length ≤ m →
        k ≤ frags.length → ∀ force,
        decode env (rsBackend (genEntry k) k m) (rsInst k m ct) frags
          (80 + blockSize (rsInst k m ct) data.length) force = .ok data :=
  roundtrip_rs env k m ct hk hkm hct hlv hl0 data (rs_guard_of_small k m ct data.length hk hkm hlen)

/-- the front end's encode succeeds for every generated flat-XOR table on every input the size
    guard lets through. -/
theorem xor_encode_exists (env : Env) (T : XorTable) (ct : Nat) (data : Bytes)
    (hg : encodeTooLarge (xorInst T.k T.m ct) data.length = false) :
    ∃ enc, encode env (xorBackend T) (xorInst T.k T.m ct) data = .ok enc := by
  have hs : IsStripe (xorBackend T) T.k T.m (blockSize (xorInst T.k T.m ct) data.length)
      (splitLoop T.k (blockSize (xorInst T.k T.m ct) data.length) data)
      ((List.range T.m).map fun j => interp (blockSize (xorInst T.k T.m ct) data.length)
        (splitLoop T.k (blockSize (xorInst T.k T.m ct) data.length) data) (T.pbm j)) :=
    (xor_isStripe_iff T _ _ _).2 ⟨splitLoop_length _ _ _, splitLoop_elem_length _ _ _, rfl⟩
  exact encode_ok_of_backend env _ (xorInst T.k T.m ct) data _ _ hg hs.enc

/-- flat XOR, every shape `init_xor_hd_code` accepts: fewer than hd fragments missing. -/
theorem roundtrip_xor (env : Env) (k m hd ct : Nat) (T : XorTable) (hT : LecGen.xorTableFor hd m k = some T)
    (hct : ct < 256) (hlv : env.libver < 2 ^ 32) (hl0 : env.libver ≠ 0)
    (data : Bytes) (hg : encodeTooLarge (xorInst k m ct) data.length = false) :
    ∃ enc, encode env (xorBackend T) (xorInst k m ct) data = .ok enc ∧
      ∀ frags : List Bytes, (∀ f ∈ frags, f ∈ enc) → (missingOfStripe enc frags).length < hd →
        k ≤ frags.length → ∀ force,
        decode env (xorBackend T) (xorInst k m ct) frags
          (80 + blockSize (xorInst k m ct) data.length) force = .ok data := by
  obtain ⟨hmem, rfl, rfl, rfl⟩ := XorCheck.tableFor_fields hT
  have hshape : xorShapeOK T.k T.m T.hd = true := by rw [xorTables_whitelist, hT]; rfl
  obtain ⟨hE, hD, _, h1, h2⟩ := xor_contracts_for hT
  obtain ⟨enc, henc⟩ := xor_encode_exists env T ct data hg
  refine ⟨enc, henc, ?_⟩
  intro frags hsub hmiss hn force
  exact roundtrip env _ (xorInst T.k T.m ct) data enc frags hE hD trivial
    (xor_frontOK_guard env T.k T.m T.hd ct data.length hshape hct hlv hl0 hg) (by simp [xorBackend, xorInst])
    henc hsub hmiss (by simp only [xorInst]; omega) hn force

/-- `roundtrip_xor` under the earlier hypothesis on the length. -/
theorem roundtrip_xor_small (env : Env) (k m hd ct : Nat) (T : XorTable) (hT : LecGen.xorTableFor hd m k = some T)
    (hct : ct < 256) (hlv : env.libver < 2 ^ 32) (hl0 : env.libver ≠ 0)
    (data : Bytes) (hlen : data.length < 2 ^ 31 - 2 ^ 12) :
    ∃ enc, encode env (xorBackend T) (xorInst k m ct) data = .ok enc ∧
      ∀ frags : List Bytes, (∀ f ∈ frags, f ∈ enc) → (missingOfStripe enc frags).length < hd →
        k ≤ frags.length → ∀ force,
        decode env (xorBackend T) (xorInst k m ct) frags
          (80 + blockSize (xorInst k m ct) data.length) force = .ok data := by
  refine roundtrip_xor env k m hd ct T hT hct hlv hl0 data ?_
  obtain ⟨hmem, rfl, rfl, rfl⟩ := XorCheck.tableFor_fields hT
  have hshape : xorShapeOK T.k T.m T.hd = true := by rw [xorTables_whitelist, hT]; rfl
  exact xor_guard_of_small T.k T.m T.hd ct data.length hshape hlen

/-- non-vacuity: (k,m) = (2,1), five bytes, the first data fragment dropped, forced checks. -/
example :
    (let env : Env := { libver := 0x010604, legacy := false }
     match encode env (rsBackend (genEntry 2) 2 1) (rsInst 2 1 2) [1, 2, 3, 4, 5] with
     | .ok enc =>
       (match decode env (rsBackend (genEntry 2) 2 1) (rsInst 2 1 2) (enc.drop 1) 84 true with
        | .ok d => d == [1, 2, 3, 4, 5]
        | .error _ => false)
     | .error _ => false) = true := by
  decide +kernel

#print axioms roundtrip
#print axioms roundtrip_rs
#print axioms roundtrip_xor
#print axioms roundtrip_rs_small
#print axioms roundtrip_xor_small
end LecProps.C01
