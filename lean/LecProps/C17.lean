import LecModel
import LecGen
namespace LecProps.C17
end LecProps.C17
