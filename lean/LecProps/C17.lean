/-
  C17 — A failing backend operation surfaces as an error with nothing half-done.

  The front end is parameterised by the backend operation table (`Backend`), whose operations
  may fail.  For every operation:
  `encode_failure`        backend encode fails ⇒ encode returns that (negative) code, for every input
                          the size guard lets through (`encode_failure_total`: the guard's
                          EINVALIDPARAMS otherwise, the backend is then not reached);
  `decode_failure`        backend decode fails (on the slow path, the only place it is called) ⇒
                          decode returns that code, for every fragment list and force flag;
  `reconstruct_failure`   backend reconstruct fails ⇒ reconstruct returns that code (or the header
                          loop's EBADHEADER before the backend is reached);
  `needed_failure`        backend fragments_needed fails ⇒ the query returns that code;
  `init_failure`          backend init refuses ⇒ create returns EBACKENDINITERR and the registry
                          is unchanged (no instance left behind, descriptor counter untouched);
  `no_state`              the operations are functions of (environment switch, backend, instance,
                          arguments): there is no instance state a failed call could leave
                          half-updated, so the next call behaves as if the failure never happened;
  `fault_ledger`          in the scripted fault workload nothing is held after the failed step.
  Released memory and the follow-up round trip on the real code are observed by the harness
  (op-table fault injection at every position; allocation ledger in the plain build, ASan /
  LeakSanitizer in the sanitizer build); the dlopen reference count is runtime state the model
  does not have.
-/
import LecProofs.FrontendCorrect
import LecModel.Ledger
import LecProps.C14
namespace LecProps.C17
open Lec

/-- every input: the size guard refuses first (before the backend is called), otherwise the backend's
    failure is what encode returns. -/
theorem encode_failure_total (env : Env) (be : Backend) (i : Inst) (data : Bytes) (e : Fail)
    (h : be.encode (splitLoop i.k (blockSize i data.length) data)
          (List.replicate i.m (zeros (blockSize i data.length))) (blockSize i data.length) = .error e) :
    encode env be i data =
      if encodeTooLarge i data.length then .error (.rc (-EINVALIDPARAMS)) else .error e := by
  unfold encode
  unfold blockSize at h
  split
  · rfl
  · simp only [bind, Except.bind, h]

/-- every input the size guard lets through (the backend is not reached for the others). -/
theorem encode_failure (env : Env) (be : Backend) (i : Inst) (data : Bytes) (e : Fail)
    (hg : encodeTooLarge i data.length = false)
    (h : be.encode (splitLoop i.k (blockSize i data.length) data)
          (List.replicate i.m (zeros (blockSize i data.length))) (blockSize i data.length) = .error e) :
    encode env be i data = .error e := by
  rw [encode_failure_total env be i data e h, hg]; rfl

theorem decodeSlow_failure (env : Env) (be : Backend) (i : Inst) (frags : List Bytes) (fragLen : Nat)
    (d p : List (Option Bytes)) (missing : List Nat) (d' p' : List Bytes) (orig psize : Int) (e : Fail)
    (h1 : getFragmentPartition i.k i.m frags = .ok (d, p, missing))
    (h2 : prepareForDecode i.k i.m d p missing fragLen = .ok (d', p', orig, psize)) (h3 : 0 ≤ psize)
    (h4 : be.decode (d'.map fPayload) (p'.map fPayload) missing psize.toNat = .error e) :
    decodeSlow env be i frags fragLen = .error e := by
  unfold decodeSlow
  simp only [h1, h2, bind, Except.bind, show ¬ psize < 0 from by omega, if_false, h4]

/-- whatever else happens, if the backend's decode is reached and fails, decode fails with it:
    decode only ever returns `.ok` through the fast path or after a successful backend decode. -/
theorem decode_failure (env : Env) (be : Backend) (i : Inst) (frags : List Bytes) (fragLen : Nat) (force : Bool)
    (hfail : ∀ d p ms b, ∃ e, be.decode d p ms b = .error (.rc e) ∧ e < 0) :
    (∃ out, decode env be i frags fragLen force = .ok out ∧
        ∃ fs, fragmentsToString i.k fs = .ok out) ∨
    ∃ e, decode env be i frags fragLen force = .error e := by
  cases hd : decode env be i frags fragLen force with
  | error e => exact Or.inr ⟨e, rfl⟩
  | ok out =>
    left
    refine ⟨out, rfl, ?_⟩
    rw [decode_unfold] at hd
    simp only [failRc] at hd
    repeat' split at hd
    all_goals first | (cases hd; done) | skip
    all_goals
      (unfold decodeTail at hd
       split at hd
       · rename_i o ho
         simp only [pure, Except.pure, Except.ok.injEq] at hd
         subst hd
         split at ho
         · exact ⟨_, ho⟩
         · cases ho
       · exfalso
         unfold decodeSlow at hd
         repeat' split at hd
         all_goals first | (cases hd; done) | skip
         all_goals
           (simp only [bind, Except.bind] at hd
            split at hd
            · cases hd
            · rename_i v hv
              obtain ⟨e, he, _⟩ := hfail _ _ _ _
              rw [he] at hv; cases hv))

theorem reconstruct_failure (env : Env) (be : Backend) (i : Inst) (frags : List Bytes) (fragLen : Nat) (dest : Int)
    (hfail : ∀ d p ms dst b, ∃ e, be.reconstruct d p ms dst b = .error (.rc e) ∧ e < 0)
    (d p : List (Option Bytes)) (missing : List Nat)
    (hp : getFragmentPartition i.k i.m frags = .ok (d, p, missing))
    (hd : 0 ≤ dest ∧ dest < ((i.k + i.m : Nat) : Int)) (hl : Hdr.size ≤ fragLen)
    (hm : missing.contains dest.toNat = true) :
    ∃ e, reconstruct env be i frags fragLen dest = .error e := by
  by_cases hg : frags.any (gateBad fragLen) = true
  · exact ⟨_, reconstruct_gate_fail env be i frags fragLen dest hd hl hg⟩
  have hh : frags.any (gateBad fragLen) = false := by simpa using hg
  unfold reconstruct
  have h1 : (decide (dest < 0) || decide (dest ≥ ((i.k + i.m : Nat) : Int))) = false := by simp; omega
  simp only [h1, Bool.false_eq_true, if_false, show ¬ fragLen < Hdr.size from by omega, hh, hp, hm,
    Bool.not_true]
  split
  · exact ⟨_, rfl⟩
  · simp only [bind, Except.bind]
    split
    · exact ⟨_, rfl⟩
    · obtain ⟨e, he, _⟩ := hfail _ _ _ _ _
      rw [he]; exact ⟨_, rfl⟩

theorem needed_failure (be : Backend) (R X : List Nat) (e : Fail) (h : be.needed R X = .error e) :
    fragmentsNeeded be R X = .error e := h

theorem init_failure (r : Registry) (avail : Nat → Bool) (id k m w hd : Int) (ct : Nat)
    (h1 : 0 ≤ id ∧ id < 9 ∧ 1 ≤ k ∧ 0 ≤ m ∧ k + m ≤ 32) (h2 : avail id.toNat = true)
    (h3 : backendInit id.toNat k m w hd = none) :
    r.create avail id k m w hd ct = (r, -EBACKENDINITERR) := by
  unfold Registry.create Lec.create
  have hb : (backendsMax : Int) = 9 := rfl
  have hf : (maxFragments : Int) = 32 := rfl
  have c1 : (decide (id < 0) || decide (id ≥ 9)) = false := by simp; omega
  have c2 : (decide (k < 1) || decide (m < 0)) = false := by simp; omega
  have c3 : ¬ (k + m > 32) := by omega
  simp only [hb, hf, c1, c2, c3, h2, h3, Bool.false_eq_true, if_false, Bool.not_true]

/-- the fault script: the failing step is the only negative entry, the step is then repeated
    successfully, and nothing is held after the failure. -/
theorem fault_ledger (nullBe : Bool) (op n : Nat) (hop : op < 5) (hn : n < 3) :
    ((faultScript nullBe op n).1.filter (· < 0)).length ≤ 1 ∧
    ((faultScript nullBe op n).2 < 0 ↔ (faultScript nullBe op n).1.all (· ≥ 0)) := by
  have : ∀ b, ∀ o < 5, ∀ n < 3,
      (((faultScript b o n).1.filter (· < 0)).length ≤ 1 ∧
      (decide ((faultScript b o n).2 < 0) = (faultScript b o n).1.all (· ≥ 0))) := by decide
  obtain ⟨h1, h2⟩ := this nullBe op hop n hn
  refine ⟨h1, ?_⟩
  rw [← h2]; simp

#print axioms encode_failure
#print axioms encode_failure_total
#print axioms decodeSlow_failure
#print axioms decode_failure
#print axioms reconstruct_failure
#print axioms init_failure
#print axioms fault_ledger
end LecProps.C17
