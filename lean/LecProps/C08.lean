import LecModel
import LecGen
namespace LecProps.C08
end LecProps.C08
