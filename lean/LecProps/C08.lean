/-
  C08 — Size queries agree with what encode actually produces.

  `aligned_*`      the aligned-data-size query is the least multiple of k·(w/8) that is ≥ len;
  `fragment_size`  fragment-size query + 80 = length of every fragment `encode` returns;
  `min_encode`     minimum-encode-size = aligned size of 1;
  `public_internal` the public query (element_size/8) and the internal one (w/8) coincide
                   whenever the backend's element size equals the stored word size
                   (true of every built-in backend: see `elementSize_*`);
  dead descriptors: see C14 (`dead descriptor ⇒ every entry point errors`).
-/
import LecProofs.EncodeLemmas
import LecProps.C07
namespace LecProps.C08
open Lec

theorem aligned_multiple (k w len : Nat) : k * (w / 8) ∣ alignedSizeW k w len := by
  unfold alignedSizeW; exact Nat.dvd_mul_left _ _

theorem ceil_ge (len am : Nat) (ham : 0 < am) : len ≤ (len + am - 1) / am * am := by
  have h1 := Nat.div_add_mod (len + am - 1) am
  have h2 := Nat.mod_lt (len + am - 1) ham
  rw [Nat.mul_comm] at h1
  omega

theorem ceil_lt (len am : Nat) (ham : 0 < am) : (len + am - 1) / am * am < len + am := by
  have h1 := Nat.div_add_mod (len + am - 1) am
  rw [Nat.mul_comm] at h1
  omega

theorem ceil_least (len am q : Nat) (ham : 0 < am) (hl : len ≤ am * q) :
    (len + am - 1) / am * am ≤ am * q := by
  rw [Nat.mul_comm am q]
  apply Nat.mul_le_mul_right
  rw [Nat.div_le_iff_le_mul_add_pred ham]
  rw [Nat.mul_comm] at hl
  rw [Nat.mul_comm am q]
  omega

theorem aligned_ge (k w len : Nat) (hk : 0 < k) (hw : 8 ≤ w) : len ≤ alignedSizeW k w len :=
  ceil_ge len _ (Nat.mul_pos hk (Nat.div_pos hw (by decide)))

theorem aligned_least (k w len x : Nat) (hk : 0 < k) (hw : 8 ≤ w) (hx : k * (w / 8) ∣ x) (hl : len ≤ x) :
    alignedSizeW k w len ≤ x := by
  obtain ⟨q, rfl⟩ := hx
  exact ceil_least len _ q (Nat.mul_pos hk (Nat.div_pos hw (by decide))) hl

/-- closed form: ⌈len / (k·w/8)⌉ · (k·w/8). -/
theorem aligned_ceil (k w len : Nat) :
    alignedSizeW k w len = (len + k * (w / 8) - 1) / (k * (w / 8)) * (k * (w / 8)) := rfl

theorem aligned_lt_next (k w len : Nat) (hk : 0 < k) (hw : 8 ≤ w) :
    alignedSizeW k w len < len + k * (w / 8) :=
  ceil_lt len _ (Nat.mul_pos hk (Nat.div_pos hw (by decide)))

theorem min_encode (be : Backend) (i : Inst) : minEncodeSizeQ be i = alignedSizeQ be i 1 := rfl

theorem public_internal (be : Backend) (i : Inst) (h : be.elementSize = i.w) (len : Nat) :
    alignedSizeQ be i len = alignedSize i len := by
  simp [alignedSizeQ, alignedSize, h]

theorem elementSize_rs (G : Nat → Nat → Nat) (k m : Nat) : (rsBackend G k m).elementSize = 16 := rfl
theorem elementSize_xor (T : XorTable) : (xorBackend T).elementSize = 32 := rfl
theorem elementSize_null : nullBackend.elementSize = 32 := rfl

/-- the fragment-size query equals the payload length of every fragment encode produces. -/
theorem fragment_size (env : Env) (be : Backend) (i : Inst) (data : Bytes) (frags : List Bytes)
    {bsOK : Nat → Prop} (hbe : EncodeOK be i.k i.m bsOK) (hbs : bsOK (blockSize i data.length))
    (h : encode env be i data = .ok frags) :
    ∀ f ∈ frags, f.length = fragmentSizeQ i data.length + 80 := by
  intro f hf
  have := (LecProps.C07.encode_wire env be i data frags hbe hbs h).2.1 f hf
  simp only [blockSize] at this
  simp only [fragmentSizeQ]; omega

/-- the stored payload-size field equals the query as well. -/
theorem size_field (env : Env) (i : Inst) (idx orig bs : Nat) (p : Bytes) :
    (specHeader env i idx orig bs p).md.size = bs := rfl

/-- non-vacuity: k = 10, w = 16, len = 1 is aligned to 20 and every fragment gets 2 bytes. -/
example : alignedSizeW 10 16 1 = 20 ∧ alignedSizeW 10 16 20 = 20 ∧ alignedSizeW 10 16 21 = 40 ∧
    alignedSizeW 10 16 0 = 0 := by decide

#print axioms aligned_multiple
#print axioms aligned_ge
#print axioms aligned_least
#print axioms aligned_lt_next
#print axioms fragment_size
#print axioms public_internal
end LecProps.C08
