/-
  C14 — Descriptors are unique while live, dead after destroy; instances are isolated.

  State machine `Registry` (LecModel.Registry): live instances, the descriptor counter
  (a C int that wraps), the reference count of the shared GF tables.
  `Inv`                  live descriptors positive and pairwise distinct, table reference count =
                         number of live rs_vand instances;
  `inv_init/create/destroy`, `inv_history`
                         the invariant holds after every history of create / destroy calls;
  `create_fresh`         a successful create returns a positive descriptor that was not live —
                         whatever the counter value, including INT_MAX (wrap) and negatives;
  `create_failed`        a failed create leaves the registry unchanged;
  `destroy_dead`         after destroy the descriptor is unknown until reissued; destroying an
                         unknown descriptor is refused and changes nothing;
  `isolation_*`          create / destroy of one instance leaves every other descriptor's
                         instance (hence the result of every operation through it, all of which
                         are functions of that instance alone) unchanged;
  `tables_iff`           the shared tables are present iff some rs_vand instance is live.
-/
import LecModel.Registry
namespace LecProps.C14
open Lec

def rsCount (l : List (Int × Inst)) : Nat := (l.filter fun p => p.2.beId == 6).length

structure Inv (r : Registry) : Prop where
  pos : ∀ p ∈ r.live, 0 < p.1
  nodup : (r.live.map (·.1)).Nodup
  ref : r.rsRef = rsCount r.live

theorem inv_init : Inv Registry.init := ⟨by simp [Registry.init], by simp [Registry.init], rfl⟩

theorem bumpDesc_pos (x : Int) : 0 < bumpDesc x := by
  unfold bumpDesc; dsimp only; split <;> omega

/-- whatever `alloc_desc` returns is positive, not live, and becomes the new counter value. -/
theorem allocDesc_sound (live : List Int) (fuel : Nat) (next d nx : Int)
    (h : allocDesc live fuel next = some (d, nx)) : 0 < d ∧ d ∉ live ∧ nx = d := by
  induction fuel generalizing next with
  | zero => simp [allocDesc] at h
  | succ f ih =>
    unfold allocDesc at h
    dsimp only at h
    split at h
    · exact ih _ h
    · rename_i hc
      simp only [Option.some.injEq, Prod.mk.injEq] at h
      obtain ⟨rfl, rfl⟩ := h
      refine ⟨bumpDesc_pos _, ?_, rfl⟩
      intro hm; apply hc; simpa using hm

/-- every error code of the shape / availability checks is negative. -/
theorem create_error_neg (avail : Nat → Bool) (id k m w hd : Int) (ct : Nat) (e : Int)
    (hc : Lec.create avail id k m w hd ct = .error e) : e < 0 := by
  unfold Lec.create at hc
  simp only [EBACKENDNOTSUPP, EINVALIDPARAMS, EBACKENDNOTAVAIL, EBACKENDINITERR] at hc
  repeat' split at hc
  all_goals first | (cases hc; done) | (simp only [Except.error.injEq] at hc; omega)

/-- what a call to create does, in terms of the state. -/
theorem create_cases (r : Registry) (avail : Nat → Bool) (id k m w hd : Int) (ct : Nat) :
    ((r.create avail id k m w hd ct).1 = r ∧ (r.create avail id k m w hd ct).2 < 0) ∨
    (∃ inst d nx, Lec.create avail id k m w hd ct = .ok inst ∧ 0 < d ∧ d ∉ r.live.map (·.1) ∧
      (r.create avail id k m w hd ct) =
        ({ live := (d, inst) :: r.live, next := nx,
           rsRef := if inst.beId == 6 then r.rsRef + 1 else r.rsRef }, d)) := by
  unfold Registry.create
  cases hc : Lec.create avail id k m w hd ct with
  | error e =>
    left
    exact ⟨rfl, create_error_neg avail id k m w hd ct e hc⟩
  | ok inst =>
    cases ha : allocDesc (r.live.map (·.1)) (r.live.length + 2) r.next with
    | none => left; simp
    | some p =>
      obtain ⟨d, nx⟩ := p
      right
      obtain ⟨h1, h2, _⟩ := allocDesc_sound _ _ _ _ _ ha
      exact ⟨inst, d, nx, rfl, h1, h2, rfl⟩

theorem inv_create (r : Registry) (h : Inv r) (avail : Nat → Bool) (id k m w hd : Int) (ct : Nat) :
    Inv (r.create avail id k m w hd ct).1 := by
  rcases create_cases r avail id k m w hd ct with ⟨he, _⟩ | ⟨inst, d, nx, _, hpos, hnl, heq⟩
  · rw [he]; exact h
  · rw [heq]
    refine ⟨?_, ?_, ?_⟩
    · intro p hp
      simp only [List.mem_cons] at hp
      rcases hp with rfl | hp
      · exact hpos
      · exact h.pos p hp
    · simp only [List.map_cons, List.nodup_cons]
      exact ⟨hnl, h.nodup⟩
    · simp only [rsCount, List.filter_cons]
      by_cases hb : (inst.beId == 6) = true
      · simp only [hb, if_true, List.length_cons]; rw [h.ref]; rfl
      · simp only [hb, Bool.false_eq_true, if_false]; exact h.ref

theorem create_fresh (r : Registry) (avail : Nat → Bool) (id k m w hd : Int) (ct : Nat)
    (hs : 0 < (r.create avail id k m w hd ct).2) :
    (r.create avail id k m w hd ct).2 ∉ r.live.map (·.1) ∧
    (r.create avail id k m w hd ct).1.lookup (r.create avail id k m w hd ct).2 ≠ none := by
  rcases create_cases r avail id k m w hd ct with ⟨_, hneg⟩ | ⟨inst, d, nx, _, _, hnl, heq⟩
  · omega
  · rw [heq]
    refine ⟨hnl, ?_⟩
    simp [Registry.lookup]

theorem create_failed (r : Registry) (avail : Nat → Bool) (id k m w hd : Int) (ct : Nat)
    (hf : (r.create avail id k m w hd ct).2 ≤ 0) : (r.create avail id k m w hd ct).1 = r := by
  rcases create_cases r avail id k m w hd ct with ⟨he, _⟩ | ⟨inst, d, nx, _, hpos, _, heq⟩
  · exact he
  · rw [heq] at hf; simp only at hf; omega

theorem lookup_isSome_iff (r : Registry) (d : Int) : (r.lookup d).isSome ↔ d ∈ r.live.map (·.1) := by
  unfold Registry.lookup
  rw [Option.isSome_map, List.find?_isSome]
  constructor
  · rintro ⟨p, hp, he⟩; exact List.mem_map.mpr ⟨p, hp, by simpa using he⟩
  · intro h; obtain ⟨p, hp, he⟩ := List.mem_map.mp h; exact ⟨p, hp, by simpa using he⟩

theorem rsCount_remove (l : List (Int × Inst)) (d : Int) (inst : Inst)
    (hn : (l.map (·.1)).Nodup) (hf : l.find? (·.1 == d) = some (d, inst)) :
    rsCount l = rsCount (l.filter (·.1 != d)) + (if inst.beId == 6 then 1 else 0) := by
  induction l with
  | nil => simp at hf
  | cons p ps ih =>
    simp only [List.map_cons, List.nodup_cons] at hn
    by_cases hp : (p.1 == d) = true
    · have hpd : p.1 = d := by simpa using hp
      simp only [List.find?_cons, hp, Option.some.injEq] at hf
      have hnotin : ∀ q ∈ ps, (q.1 != d) = true := by
        intro q hq
        have : q.1 ≠ p.1 := fun he => hn.1 (List.mem_map.mpr ⟨q, hq, he⟩)
        simp [← hpd, this]
      have hfil : (p :: ps).filter (·.1 != d) = ps := by
        simp only [List.filter_cons, bne, hp, Bool.not_true, Bool.false_eq_true, if_false]
        exact List.filter_eq_self.mpr hnotin
      rw [hfil, hf]
      simp only [rsCount, List.filter_cons]
      split <;> simp
    · have hp' : (p.1 == d) = false := by simpa using hp
      simp only [List.find?_cons, hp'] at hf
      have := ih hn.2 hf
      have hne : (p.1 != d) = true := by simp [bne, hp']
      simp only [rsCount, List.filter_cons, hne, if_true] at this ⊢
      by_cases hb : (p.2.beId == 6) = true
      · simp only [hb, if_true, List.length_cons]; omega
      · simp only [hb, Bool.false_eq_true, if_false]; exact this

theorem find_fst (l : List (Int × Inst)) (d : Int) (p : Int × Inst) (h : l.find? (·.1 == d) = some p) :
    p.1 = d := by
  have := List.find?_some h
  simpa using this

theorem inv_destroy (r : Registry) (h : Inv r) (d : Int) : Inv (r.destroy d).1 := by
  unfold Registry.destroy Registry.lookup
  cases hf : r.live.find? (·.1 == d) with
  | none => simpa using h
  | some p =>
    have hp1 := find_fst _ _ _ hf
    obtain ⟨pd, inst⟩ := p
    simp only at hp1; subst hp1
    simp only [Option.map_some]
    refine ⟨?_, ?_, ?_⟩
    · intro q hq; exact h.pos q (List.mem_filter.mp hq).1
    · exact (List.Sublist.map _ List.filter_sublist).nodup h.nodup
    · have hc := rsCount_remove r.live pd inst h.nodup hf
      simp only
      rw [h.ref, hc]
      split <;> simp

/-- all histories. -/
inductive Op
  | create (avail : Nat → Bool) (id k m w hd : Int) (ct : Nat)
  | destroy (d : Int)

def stepOp (r : Registry) : Op → Registry
  | .create a id k m w hd ct => (r.create a id k m w hd ct).1
  | .destroy d => (r.destroy d).1

theorem inv_history (ops : List Op) : Inv (ops.foldl stepOp Registry.init) := by
  suffices ∀ r, Inv r → Inv (ops.foldl stepOp r) from this _ inv_init
  induction ops with
  | nil => intro r h; exact h
  | cons o os ih =>
    intro r h
    apply ih
    cases o with
    | create a id k m w hd ct => exact inv_create r h a id k m w hd ct
    | destroy d => exact inv_destroy r h d

/-- destroy makes the descriptor unknown; an unknown descriptor is refused without effect. -/
theorem destroy_dead (r : Registry) (d : Int) :
    (r.destroy d).1.lookup d = none ∧
    (r.lookup d = none → r.destroy d = (r, -EBACKENDNOTAVAIL)) := by
  constructor
  · unfold Registry.destroy
    cases hl : r.lookup d with
    | none => simpa using hl
    | some inst =>
      simp only [Registry.lookup, Option.map_eq_none_iff, List.find?_eq_none]
      intro p hp
      have := (List.mem_filter.mp hp).2
      simpa [bne] using this
  · intro hl; simp [Registry.destroy, hl]

theorem isolation_destroy (r : Registry) (d d' : Int) (hne : d' ≠ d) :
    (r.destroy d).1.lookup d' = r.lookup d' := by
  unfold Registry.destroy
  cases hl : r.lookup d with
  | none => rfl
  | some inst =>
    simp only [Registry.lookup]
    congr 1
    induction r.live with
    | nil => rfl
    | cons p ps ih =>
      by_cases hp : p.1 = d
      · have h1 : (p.1 != d) = false := by simp [hp]
        have h2 : (p.1 == d') = false := by simp [hp, Ne.symm hne]
        simp only [List.filter_cons, h1, Bool.false_eq_true, if_false, List.find?_cons, h2]
        exact ih
      · have h1 : (p.1 != d) = true := by simp [hp]
        simp only [List.filter_cons, h1, if_true, List.find?_cons]
        split
        · rfl
        · exact ih

theorem isolation_create (r : Registry) (avail : Nat → Bool) (id k m w hd : Int) (ct : Nat) (d' : Int)
    (hl : d' ∈ r.live.map (·.1)) :
    (r.create avail id k m w hd ct).1.lookup d' = r.lookup d' := by
  rcases create_cases r avail id k m w hd ct with ⟨he, _⟩ | ⟨inst, d, nx, _, _, hnl, heq⟩
  · rw [he]
  · rw [heq]
    have hne : (d == d') = false := by
      have : d ≠ d' := fun he => hnl (he ▸ hl)
      simp [this]
    simp [Registry.lookup, hne]

theorem tables_iff (r : Registry) (h : Inv r) :
    r.tablesPresent = true ↔ ∃ p ∈ r.live, p.2.beId = 6 := by
  unfold Registry.tablesPresent
  rw [h.ref, rsCount]
  simp only [gt_iff_lt, decide_eq_true_eq, List.length_pos_iff]
  constructor
  · intro hne
    obtain ⟨p, hp⟩ := List.exists_mem_of_ne_nil _ hne
    have := List.mem_filter.mp hp
    exact ⟨p, this.1, by simpa using this.2⟩
  · rintro ⟨p, hp, hb⟩ hnil
    have : p ∈ r.live.filter fun p => p.2.beId == 6 := List.mem_filter.mpr ⟨hp, by simp [hb]⟩
    rw [hnil] at this; cases this

/-- non-vacuity: the counter at INT_MAX wraps to 1, skipping a live descriptor 1. -/
example :
    let i : Inst := ⟨6, 0x010000, 2, 1, 16, 1⟩
    let r : Registry := { live := [(1, i)], next := intMax, rsRef := 1 }
    (r.create (fun _ => true) 6 2 1 0 1 1).2 = 2 := by decide

/-! ### Termination of `alloc_desc` (the `fuel` of the model is not observable)

  The C loop has no bound; the model's `fuel` has.  After the first step the counter lies in
  [1, INT_MAX] and `bumpDesc` is the cyclic successor there, so `live.length + 1` successive
  candidates are pairwise distinct as long as `live.length + 1 ≤ INT_MAX`; they cannot all be
  live (pigeonhole), so the loop returns within `live.length + 1` iterations and the
  fuel-exhaustion answer `none` / `-1` of the model is unreachable. -/

/-- `bumpIter i x` = the counter after `i` steps from `x`. -/
def bumpIter : Nat → Int → Int
  | 0, x => x
  | i + 1, x => bumpIter i (bumpDesc x)

/-- pigeonhole: `n` pairwise distinct values all lying in `live` force `n ≤ live.length`. -/
theorem pigeonhole : ∀ (n : Nat) (live : List Int) (f : Nat → Int),
    (∀ i j, i < j → j < n → f i ≠ f j) → (∀ i, i < n → f i ∈ live) → n ≤ live.length
  | 0, _, _, _, _ => Nat.zero_le _
  | n + 1, live, f, hinj, hmem => by
    have ha : f n ∈ live := hmem n (Nat.lt_succ_self n)
    have ih := pigeonhole n (live.erase (f n)) f (fun i j hij hj => hinj i j hij (by omega))
      (fun i hi => (List.mem_erase_of_ne (hinj i n hi (by omega))).mpr (hmem i (by omega)))
    rw [List.length_erase_of_mem ha] at ih
    have := List.length_pos_of_mem ha
    omega

/-- the candidates the loop inspects are `bumpIter 1 next, bumpIter 2 next, …`; if the fuel
    runs out, every one of them was live. -/
theorem allocDesc_none (live : List Int) : ∀ (fuel : Nat) (next : Int),
    allocDesc live fuel next = none → ∀ i, i < fuel → bumpIter (i + 1) next ∈ live := by
  intro fuel
  induction fuel with
  | zero => intro _ _ i hi; omega
  | succ f ih =>
    intro next h i hi
    unfold allocDesc at h
    dsimp only at h
    split at h
    · rename_i hc
      cases i with
      | zero => simpa [bumpIter] using hc
      | succ i' =>
        have := ih (bumpDesc next) h i' (by omega)
        exact this
    · cases h

theorem bumpDesc_eq (x : Int) :
    bumpDesc x = if x = 2147483647 then 1 else if x + 1 ≤ 0 then 1 else x + 1 := by
  unfold bumpDesc intMax; dsimp only
  split <;> split <;> first | rfl | omega

/-- inside [1, INT_MAX] the counter is the cyclic successor. -/
theorem iterate_bump_cyclic : ∀ (i : Nat) (x : Int), 1 ≤ x → x ≤ 2147483647 →
    bumpIter i x = (x - 1 + i) % 2147483647 + 1 := by
  intro i
  induction i with
  | zero => intro x h1 h2; simp only [bumpIter]; omega
  | succ i ih =>
    intro x h1 h2
    have hb := bumpDesc_eq x
    have hstep : bumpIter (i + 1) x = bumpIter i (bumpDesc x) := rfl
    rw [hstep]
    split at hb
    · rw [hb, ih 1 (by omega) (by omega)]; push_cast; omega
    · split at hb
      · omega
      · rw [hb, ih (x + 1) (by omega) (by omega)]; push_cast; omega

/-- above INT_MAX (not a C int; the model's `Int` allows it) the counter just counts up. -/
theorem iterate_bump_above : ∀ (i : Nat) (x : Int), 2147483647 < x →
    bumpIter i x = x + i := by
  intro i
  induction i with
  | zero => intro x _; simp [bumpIter]
  | succ i ih =>
    intro x hx
    have hb := bumpDesc_eq x
    have hstep : bumpIter (i + 1) x = bumpIter i (bumpDesc x) := rfl
    rw [hstep]
    split at hb
    · omega
    · split at hb
      · omega
      · rw [hb, ih (x + 1) (by omega)]; push_cast; omega

/-- up to INT_MAX successive candidates are pairwise distinct, from any counter value. -/
theorem candidates_distinct (next : Int) (i j : Nat) (hij : i < j) (hj : j < 2147483647) :
    bumpIter (i + 1) next ≠ bumpIter (j + 1) next := by
  have hi' : bumpIter (i + 1) next = bumpIter i (bumpDesc next) := rfl
  have hj' : bumpIter (j + 1) next = bumpIter j (bumpDesc next) := rfl
  rw [hi', hj']
  have hpos := bumpDesc_pos next
  by_cases hle : bumpDesc next ≤ 2147483647
  · rw [iterate_bump_cyclic i _ (by omega) hle, iterate_bump_cyclic j _ (by omega) hle]; omega
  · rw [iterate_bump_above i _ (by omega), iterate_bump_above j _ (by omega)]; omega

/-- **termination**: with at least `live.length + 1` iterations allowed, and fewer than INT_MAX
    live descriptors, `alloc_desc` returns — for every counter value. -/
theorem allocDesc_total (live : List Int) (fuel : Nat) (next : Int)
    (hf : live.length + 1 ≤ fuel) (hlen : live.length + 1 ≤ 2147483647) :
    (allocDesc live fuel next).isSome := by
  cases h : allocDesc live fuel next with
  | some p => rfl
  | none =>
    exfalso
    have hall := allocDesc_none live fuel next h
    have := pigeonhole (live.length + 1) live (fun i => bumpIter (i + 1) next)
      (fun i j hij hj => candidates_distinct next i j hij (by omega))
      (fun i hi => hall i (by omega))
    omega

/-- the form used by `Registry.create`. -/
theorem allocDesc_total_create (live : List Int) (next : Int) (hlen : live.length + 1 < 2147483647) :
    (allocDesc live (live.length + 2) next).isSome :=
  allocDesc_total live _ next (by omega) (by omega)

/-- more fuel never changes an answer already given. -/
theorem allocDesc_mono (live : List Int) : ∀ (fuel fuel' : Nat) (next : Int) (p : Int × Int),
    fuel ≤ fuel' → allocDesc live fuel next = some p → allocDesc live fuel' next = some p := by
  intro fuel
  induction fuel with
  | zero => intro _ _ _ _ h; simp [allocDesc] at h
  | succ f ih =>
    intro fuel' next p hle h
    cases fuel' with
    | zero => omega
    | succ f' =>
      unfold allocDesc at h ⊢
      dsimp only at h ⊢
      split
      · rename_i hc
        rw [if_pos hc] at h
        exact ih f' _ p (by omega) h
      · rename_i hc
        rw [if_neg hc] at h
        exact h

/-- **the fuel is not observable**: every fuel of at least `live.length + 1` gives the answer the
    model's `live.length + 2` gives (hence any two such fuels agree). -/
theorem allocDesc_fuel_irrelevant (live : List Int) (fuel : Nat) (next : Int)
    (hf : live.length + 1 ≤ fuel) (hlen : live.length + 1 ≤ 2147483647) :
    allocDesc live fuel next = allocDesc live (live.length + 2) next := by
  have ht := allocDesc_total live (live.length + 1) next (Nat.le_refl _) hlen
  obtain ⟨p, hp⟩ := Option.isSome_iff_exists.mp ht
  rw [allocDesc_mono live _ fuel next p hf hp, allocDesc_mono live _ (live.length + 2) next p (by omega) hp]

/-- **create never reports fuel exhaustion**: once the shape / availability checks pass, and fewer
    than INT_MAX instances are live, create returns a fresh positive descriptor (never the model's
    `-1`), registers the instance under it and leaves the counter at it. -/
theorem create_never_exhausts (r : Registry) (avail : Nat → Bool) (id k m w hd : Int) (ct : Nat)
    (inst : Inst) (hc : Lec.create avail id k m w hd ct = .ok inst)
    (hlen : r.live.length + 1 < 2147483647) :
    ∃ d, 0 < d ∧ d ∉ r.live.map (·.1) ∧
      r.create avail id k m w hd ct =
        ({ live := (d, inst) :: r.live, next := d,
           rsRef := if inst.beId == 6 then r.rsRef + 1 else r.rsRef }, d) := by
  have ht := allocDesc_total_create (r.live.map (·.1)) r.next (by simpa using hlen)
  obtain ⟨p, hp⟩ := Option.isSome_iff_exists.mp ht
  obtain ⟨d, nx⟩ := p
  obtain ⟨h1, h2, rfl⟩ := allocDesc_sound _ _ _ _ _ hp
  refine ⟨nx, h1, h2, ?_⟩
  simp only [List.length_map] at hp
  simp only [Registry.create, hc, hp]

/-- in particular the result code is positive, so not `-1`. -/
theorem create_never_exhausts_code (r : Registry) (avail : Nat → Bool) (id k m w hd : Int) (ct : Nat)
    (inst : Inst) (hc : Lec.create avail id k m w hd ct = .ok inst)
    (hlen : r.live.length + 1 < 2147483647) :
    0 < (r.create avail id k m w hd ct).2 ∧ (r.create avail id k m w hd ct).2 ≠ -1 := by
  obtain ⟨d, hd0, _, heq⟩ := create_never_exhausts r avail id k m w hd ct inst hc hlen
  rw [heq]; exact ⟨hd0, by simp only; omega⟩

/-- non-vacuity: the first three candidates are taken, the fourth is returned. -/
example : allocDesc [1, 2, 3] ([1, 2, 3].length + 2) 0 = some (4, 4) := by decide
/-- non-vacuity: wrap-around at INT_MAX, skipping the live descriptor 1. -/
example : allocDesc [1] ([1].length + 2) 2147483647 = some (2, 2) := by decide
/-- the bound `live.length + 1` is tight: one iteration fewer can run out. -/
example : allocDesc [1, 2, 3] [1, 2, 3].length 0 = none := by decide
/-- non-vacuity of `create_never_exhausts`: its hypotheses hold on a registry whose first
    candidates are taken, and the descriptor is the first free one. -/
example :
    let i : Inst := ⟨6, 0x010000, 2, 1, 16, 1⟩
    let r : Registry := { live := [(3, i), (2, i), (1, i)], next := 0, rsRef := 3 }
    (Lec.create (fun _ => true) 6 2 1 0 1 1).toOption = some i ∧ r.live.length + 1 < 2147483647 ∧
    (r.create (fun _ => true) 6 2 1 0 1 1).2 = 4 := by decide

#print axioms inv_history
#print axioms create_fresh
#print axioms create_failed
#print axioms destroy_dead
#print axioms isolation_destroy
#print axioms isolation_create
#print axioms tables_iff
#print axioms allocDesc_total
#print axioms allocDesc_total_create
#print axioms allocDesc_fuel_irrelevant
#print axioms create_never_exhausts
#print axioms create_never_exhausts_code
end LecProps.C14
