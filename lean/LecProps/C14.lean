import LecModel
import LecGen
namespace LecProps.C14
end LecProps.C14
