import LecModel
import LecGen
namespace LecProps.C07
end LecProps.C07
