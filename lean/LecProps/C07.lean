/-
  C07 — Fragments follow the fixed 80-byte header + systematic payload wire format.

  (a) `layout`        the struct layout / magic / padding compiled from the tree
                      (LecGen.Consts, regenerated on every run) equal the golden wire layout;
  (b) `encode_wire`   every fragment `encode` emits is `Header.bytes h ++ payload` where
                      `Header.bytes` is the independently written specification serializer,
                      all k+m fragments have the same length 80 + blocksize, and data
                      fragment i carries bytes [i*bs,(i+1)*bs) of the input, zero padded;
  (c) `parse_serialize` reading the fields back at the fixed offsets returns the values
                      (little-endian, offsets 0,4,8,12,20,21,53,54,55,59,63,67), and bytes
                      71..79 are zero;
  (d) purity          `encode` is a function of (environment switch, backend, instance, data)
                      by construction of the model (no state is threaded through it); the
                      correspondence check validates that against the C code across histories.
-/
import LecProofs.EncodeLemmas
import LecProofs.ParseLemmas
import LecGen
namespace LecProps.C07
open Lec

/-- (a) the generated C layout is the golden layout. -/
theorem layout :
    LecGen.headerLayout = Hdr.layout ∧ LecGen.magic = magicC ∧ LecGen.paddingLen = Hdr.padLen ∧
    LecGen.chksumBytes = 32 ∧ LecGen.maxChecksumLen = 8 ∧
    Hdr.layout = [80, 59, 0, 4, 8, 12, 20, 21, 53, 54, 55, 59, 63, 67, 71] ∧ magicC = 0x0b0c5ecc := by
  decide

theorem specHeader_chkLen (env : Env) (i : Inst) (idx orig bs : Nat) (p : Bytes) :
    (specHeader env i idx orig bs p).md.chksum.length = 8 := by
  simp [specHeader, specMeta]

/-- (b) wire format of everything `encode` returns. -/
theorem encode_wire (env : Env) (be : Backend) (i : Inst) (data : Bytes) (frags : List Bytes)
    {bsOK : Nat → Prop} (hbe : EncodeOK be i.k i.m bsOK) (hbs : bsOK (blockSize i data.length))
    (h : encode env be i data = .ok frags) :
    frags.length = i.k + i.m ∧
    (∀ f ∈ frags, f.length = 80 + blockSize i data.length) ∧
    (∀ idx (hi : idx < frags.length), ∃ p : Bytes, p.length = blockSize i data.length ∧
        frags[idx] = (specHeader env i idx data.length (blockSize i data.length) p).bytes ++ p ∧
        (idx < i.k → p = slice data (blockSize i data.length) idx)) := by
  obtain ⟨par, hpl, hpe, hf⟩ := encode_spec env be i data frags hbe hbs h
  generalize blockSize i data.length = bs at *
  have hlenAll : (splitLoop i.k bs data ++ par).length = i.k + i.m := by
    simp [splitLoop_length, hpl]
  have hel : ∀ x ∈ splitLoop i.k bs data ++ par, x.length = bs := by
    intro x hx
    rcases List.mem_append.mp hx with h1 | h1
    · exact splitLoop_elem_length _ _ _ _ h1
    · exact hpe _ h1
  refine ⟨by rw [hf]; simpa using hlenAll, ?_, ?_⟩
  · intro f hfm
    rw [hf] at hfm
    obtain ⟨⟨p, idx⟩, hm, rfl⟩ := List.mem_map.mp hfm
    have hp : p ∈ splitLoop i.k bs data ++ par := by
      have := List.mem_zipIdx hm
      simp at this
      rw [this.2]; exact List.getElem_mem _
    simp only [specFragment, List.length_append, hel p hp]
    rw [header_bytes_length _ (specHeader_chkLen env i idx data.length bs p)]
  · intro idx hi
    have hi' : idx < (splitLoop i.k bs data ++ par).length := by
      rw [hf] at hi; simpa using hi
    refine ⟨(splitLoop i.k bs data ++ par)[idx], hel _ (List.getElem_mem _), ?_, ?_⟩
    · simp only [hf, List.getElem_map, List.getElem_zipIdx, specFragment, Nat.zero_add]
    · intro hk
      rw [List.getElem_append_left (by rw [splitLoop_length]; exact hk)]
      simp only [splitLoop_eq, List.getElem_map, List.getElem_range]

/-- (c) reading a serialized header at the fixed offsets returns its values. -/
theorem parse_serialize (h : Header) (hw : h.WF) (p : Bytes) :
    parseHeader (h.bytes ++ p) = h ∧ h.bytes.length = 80 ∧ fPayload (h.bytes ++ p) = p := by
  refine ⟨parseHeader_bytes h hw p, header_bytes_length h hw.chkLen, ?_⟩
  unfold fPayload
  rw [List.drop_append_of_le_length (by rw [header_bytes_length h hw.chkLen]; decide)]
  rw [List.drop_of_length_le (by rw [header_bytes_length h hw.chkLen]; decide)]
  simp

/-- (c') the last nine header bytes are zero padding. -/
theorem padding_zero (h : Header) (hc : h.md.chksum.length = 8) : h.bytes.drop 71 = zeros 9 := by
  have h1 : h.bytes = (h.md.bytes ++ le32 h.magic ++ le32 h.libver ++ le32 h.metaCrc) ++ zeros 9 := by
    simp [Header.bytes, Hdr.padLen]
  have h2 : (h.md.bytes ++ le32 h.magic ++ le32 h.libver ++ le32 h.metaCrc).length = 71 := by
    simp [meta_bytes_length h.md hc]
  rw [h1, List.drop_append_of_le_length (by omega), List.drop_of_length_le (by omega)]
  simp

/-- the metadata checksum stored at offset 67 covers exactly bytes 0..58. -/
theorem metadata_crc_covers (env : Env) (i : Inst) (idx orig bs : Nat) (p : Bytes) :
    (specHeader env i idx orig bs p).metaCrc =
      crcWrite env.legacy ((specHeader env i idx orig bs p).bytes.take 59) := by
  have hm : (specHeader env i idx orig bs p).md.bytes.length = 59 :=
    meta_bytes_length _ (specHeader_chkLen env i idx orig bs p)
  have : (specHeader env i idx orig bs p).bytes.take 59 = (specHeader env i idx orig bs p).md.bytes := by
    simp only [Header.bytes, List.append_assoc]
    rw [List.take_append_of_le_length (by omega), List.take_of_length_le (by omega)]
  rw [this]; rfl

/-- non-vacuity: a concrete accepted configuration, through the null backend. -/
example :
    let i : Inst := { beId := 0, beVer := 0x010000, k := 3, m := 2, w := 32, ct := 2 }
    ∃ frags, encode { libver := 0x010604, legacy := false } nullBackend i [1, 2, 3, 4, 5, 6, 7] = .ok frags ∧
      frags.length = 5 ∧ (frags.map List.length) = [84, 84, 84, 84, 84] := by
  refine ⟨_, rfl, ?_, ?_⟩ <;> decide +kernel

#print axioms layout
#print axioms encode_wire
#print axioms parse_serialize
#print axioms padding_zero
#print axioms metadata_crc_covers
end LecProps.C07
