/-
  C13 — Invalid arguments and configurations are refused with an error, never a crash.

  `args_refused`     for every public entry point and every argument vector that contains an
                     invalid component (unknown / destroyed descriptor, NULL pointer, zero or
                     negative count, length shorter than a header, out-of-range destination)
                     the modelled result is a negative code (1 for the boolean validator) — for
                     all vectors, not only the enumerated classes;
  `create_error_neg`, `create_ok_iff`
                     creation refuses with a negative code exactly outside
                     {backend known and available, k ≥ 1, m ≥ 0, k+m ≤ 32, backend shape rule};
  `create_ok_wf`     an accepted instance has k ≥ 1 and a word size of at least one byte, so no
                     size computation divides by zero, and k+m ≤ 32 so every bitmap shift is
                     in range;
  `encode_too_large`, `encode_guard_exact`, `encode_guard_exact_created`
                     the size guard of encode (internal sizes are C ints): an input is refused
                     with EINVALIDPARAMS, before the backend is called, exactly when
                     `len + k*(w/8) + 80 > INT_MAX`; every other length is accepted by the guard
                     (and C01 `roundtrip_*` then covers it);
  state: `argCheck` has no access to the registry (it is a pure function of the argument
  classes), a refused create leaves the registry unchanged (C14.create_failed).
  Crash-freedom and "keeps nothing allocated" of the compiled code are runtime behaviour: every
  class combination runs against the real library in a forked child under ASan/UBSan, and the
  ledger check (C16) covers allocations.
-/
import LecModel.ArgCheck
import LecModel.Create
import LecProofs.EncodeLemmas
import LecProps.C14
namespace LecProps.C13
open Lec

theorem args_refused (e : ArgEnv) (api : Api) (a : List Nat)
    (h : hasInvalid api a = true) (hne : api ≠ .backendAvailable) :
    if api = .isInvalidFragment then (argCheck e api a).isOne = true
    else (argCheck e api a).allNeg = true := by
  cases api <;>
    simp only [hasInvalid, live, Bool.or_eq_true, Bool.not_eq_true', beq_eq_false_iff_ne, ne_eq,
      beq_iff_eq, bne_iff_ne] at h <;>
    simp only [argCheck, live, lenShort, countShort, EINVALIDPARAMS, EBACKENDNOTAVAIL, EINSUFFFRAGS,
      EBADHEADER, reduceCtorEq, if_false, if_true, ArgOut.allNeg, ArgOut.isOne]
  case backendAvailable => exact absurd rfl hne
  all_goals grind

/-- valid arguments are accepted (so the refusals above are not vacuous blanket errors). -/
theorem args_accepted (e : ArgEnv) (api : Api) (a : List Nat)
    (h : hasInvalid api a = false) (hapi : api = .encode ∨ api = .decode ∨ api = .reconstruct ∨
      api = .fragmentsNeeded ∨ api = .getMetadata ∨ api = .isInvalidFragment ∨ api = .verifyStripe) :
    argCheck e api a = .rc 0 := by
  rcases hapi with rfl | rfl | rfl | rfl | rfl | rfl | rfl <;>
    simp only [hasInvalid, live, Bool.or_eq_false_iff, Bool.not_eq_false', beq_iff_eq,
      beq_eq_false_iff_ne, ne_eq, bne_eq_false_iff_eq] at h <;>
    simp only [argCheck, live, lenShort, countShort] <;> grind

theorem create_ok_iff (avail : Nat → Bool) (id k m w hd : Int) (ct : Nat) :
    (∃ inst, Lec.create avail id k m w hd ct = .ok inst) ↔
      (0 ≤ id ∧ id < 9 ∧ 1 ≤ k ∧ 0 ≤ m ∧ k + m ≤ 32 ∧ avail id.toNat = true ∧
        (backendInit id.toNat k m w hd).isSome = true) := by
  unfold Lec.create
  have hb : (backendsMax : Int) = 9 := rfl
  have hf : (maxFragments : Int) = 32 := rfl
  rw [hb, hf]
  constructor
  · rintro ⟨inst, h⟩
    repeat' split at h
    all_goals first
      | (cases h; done)
      | (simp_all; done)
      | (simp_all; omega)
  · rintro ⟨h1, h2, h3, h4, h5, h6, h7⟩
    have c1 : (decide (id < 0) || decide (id ≥ 9)) = false := by simp; omega
    have c2 : (decide (k < 1) || decide (m < 0)) = false := by simp; omega
    have c3 : ¬ (k + m > 32) := by omega
    simp only [c1, c2, c3, h6, Bool.false_eq_true, if_false, Bool.not_true]
    cases hbi : backendInit id.toNat k m w hd with
    | none => rw [hbi] at h7; cases h7
    | some w' => exact ⟨_, rfl⟩

/-- the word size stored by every backend init that succeeds with the default or a byte-sized w. -/
theorem backendInit_w (id : Nat) (k m w hd : Int) (w' : Nat) (h : backendInit id k m w hd = some w')
    (hw : w ≤ 0 ∨ 8 ≤ w) : 8 ≤ w' := by
  unfold backendInit at h
  repeat' split at h
  all_goals first
    | (cases h; done)
    | (simp only [Option.some.injEq] at h; omega)
    | (dsimp only at h
       split at h
       · cases h
       · simp only [Option.some.injEq] at h; omega)

theorem create_ok_wf (avail : Nat → Bool) (id k m w hd : Int) (ct : Nat) (inst : Inst)
    (h : Lec.create avail id k m w hd ct = .ok inst) (hw : w ≤ 0 ∨ 8 ≤ w) :
    0 < inst.k ∧ 8 ≤ inst.w ∧ inst.k + inst.m ≤ 32 ∧ (inst.k : Int) = k ∧ (inst.m : Int) = m := by
  unfold Lec.create at h
  have hb : (backendsMax : Int) = 9 := rfl
  have hf : (maxFragments : Int) = 32 := rfl
  rw [hb, hf] at h
  repeat' split at h
  all_goals first
    | (cases h; done)
    | skip
  rename_i w' hbi
  have hw' := backendInit_w _ _ _ _ _ _ hbi hw
  simp only [Except.ok.injEq] at h
  subst h
  simp_all
  omega

/-! ### the size guard of `liberasurecode_encode` -/

/-- an input the guard refuses: EINVALIDPARAMS, whatever the backend (it is not called). -/
theorem encode_too_large (env : Env) (be : Backend) (i : Inst) (data : Bytes)
    (h : encodeTooLarge i data.length = true) :
    encode env be i data = .error (.rc (-EINVALIDPARAMS)) :=
  encode_of_tooLarge env be i data h

/-- the guard in closed form: accepted exactly when length + one aligned unit + header fits an int.
    `hfit` (one aligned unit plus a header fits; true for every created instance, see
    `encode_guard_exact_created`) is needed only for the empty input — the model subtracts in `Nat`
    (`encode_guard_exact_pos` needs no such bound for `0 < len`). -/
theorem encode_guard_exact (i : Inst) (len : Nat) (hk : 0 < i.k) (hw : 8 ≤ i.w)
    (hfit : i.k * (i.w / 8) + 80 ≤ 2147483647) :
    encodeTooLarge i len = false ↔ len + i.k * (i.w / 8) + 80 ≤ 2147483647 :=
  encodeTooLarge_false_iff i len hk hw hfit

theorem encode_guard_exact_pos (i : Inst) (len : Nat) (hk : 0 < i.k) (hw : 8 ≤ i.w) (hlen : 0 < len) :
    encodeTooLarge i len = false ↔ len + i.k * (i.w / 8) + 80 ≤ 2147483647 :=
  encodeTooLarge_false_iff_pos i len hk hw hlen

/-- every word size a successful backend init stores is below 64. -/
theorem backendInit_w_le (id : Nat) (k m w hd : Int) (w' : Nat) (h : backendInit id k m w hd = some w') :
    w' ≤ 64 := by
  unfold backendInit at h
  repeat' split at h
  all_goals first
    | (cases h; done)
    | (simp only [Option.some.injEq] at h; omega)
    | (dsimp only at h
       split at h
       · cases h
       · rename_i hc
         simp only [Option.some.injEq] at h
         first
           | omega
           | (simp only [Bool.or_eq_true, decide_eq_true_eq, not_or] at hc; omega))

/-- the closed form for every instance `create` returns. -/
theorem encode_guard_exact_created (avail : Nat → Bool) (id k m w hd : Int) (ct : Nat) (inst : Inst)
    (h : Lec.create avail id k m w hd ct = .ok inst) (hw : w ≤ 0 ∨ 8 ≤ w) (len : Nat) :
    encodeTooLarge inst len = false ↔ len + inst.k * (inst.w / 8) + 80 ≤ 2147483647 := by
  obtain ⟨hk, hw8, hkm, _, _⟩ := create_ok_wf avail id k m w hd ct inst h hw
  have hw64 : inst.w ≤ 64 := by
    unfold Lec.create at h
    repeat' split at h
    all_goals first
      | (cases h; done)
      | skip
    rename_i w' hbi
    simp only [Except.ok.injEq] at h
    subst h
    exact backendInit_w_le _ _ _ _ _ _ hbi
  exact encodeTooLarge_false_iff_created inst len hk (by omega) hw8 hw64

/-- non-vacuity (k = 4, w = 16: one aligned unit is 8 bytes): 2147483559 bytes pass the guard,
    2147483560 are refused; and a created instance to which `encode_guard_exact_created` applies. -/
example :
    let i : Inst := { beId := 6, beVer := 0x010000, k := 4, m := 2, w := 16, ct := 2 }
    encodeTooLarge i 2147483559 = false ∧ encodeTooLarge i 2147483560 = true ∧
    (Lec.create (fun _ => true) 6 4 2 0 0 2).toOption = some i := by
  decide

/-- non-vacuity: concrete argument vectors. -/
example :
    let e : ArgEnv := ⟨3, 2, 102, 34, 6, fun id => id == 0 || id == 3 || id == 6⟩
    argCheck e .encode [0, 1, 1, 0, 0] = .rc (-206) ∧ argCheck e .decode [2, 0, 0, 0, 0, 0, 0] = .rc (-204) ∧
    argCheck e .reconstruct [0, 0, 0, 0, 0, 2] = .rc (-206) ∧ argCheck e .decode [0, 0, 0, 0, 0, 0, 1] = .rc 0 := by
  decide

#print axioms args_refused
#print axioms create_ok_iff
#print axioms create_ok_wf
#print axioms encode_too_large
#print axioms encode_guard_exact
#print axioms encode_guard_exact_pos
#print axioms encode_guard_exact_created
end LecProps.C13
