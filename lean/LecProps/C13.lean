import LecModel
import LecGen
namespace LecProps.C13
end LecProps.C13
