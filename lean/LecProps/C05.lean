/-
  C05 — Every flat-XOR table has distance hd; its decoder recovers all < hd erasures.

  All statements range over `LecGen.xorTables`, regenerated from
  include/xor_codes/xor_hd_code_defs.h on every run: a flipped bit in any of the 76 arrays or a
  wrong slot in the `[hd][m][k]` pointer tables changes the generated file and the kernel
  re-decides (per table, `decide +kernel` on a verified checker).
  `equations_fixed`     the 38 slots regenerated from the header equal the committed copy
                        `Lec.goldenXorSlots` bit for bit: a table replaced by another one — however
                        well-formed and whatever its distance — is a change of the on-disk format
                        (stripes written before would decode to other bytes);
  `tables_wellformed`   both sides of every slot non-NULL; m parity masks below 2^k, k data masks
                        below 2^m; data-side and parity-side tables describe the same bipartite
                        graph;
  `whitelist`           the table set is exactly the shape whitelist of `init_xor_hd_code`
                        (for all naturals k, m, hd): every accepted shape has a table, and a shape
                        outside it is refused by create (C13.create_ok_iff);
  `parity_is_xor`       every parity payload encode produces is exactly the XOR of the data
                        payloads its fixed equation names — for every payload length and content;
  `min_distance`        no non-empty set of fewer than hd columns of the parity-check matrix
                        [P | I_m] sums to zero, i.e. minimum distance ≥ hd;
  `decode_all`, `reconstruct_all`
                        for every table, payload length, data content and ascending erasure list
                        with fewer than hd entries (data or parity in any mix) the decode plan
                        exists and restores every data and parity payload, and the reconstruct
                        plan restores every member of the erasure list.
  Build flavours: `xor_bufs_and_store` (128-bit SSE2 / word loop + byte tail) is modelled as
  byte-wise xor; both builds of libXorcode run the full correspondence on every check
  (payload sizes that are and are not multiples of 16).
-/
import LecProofs.XorTablesOK
import LecProofs.XorContracts
import LecGen
import LecProofs.XorGolden
namespace LecProps.C05
open Lec

/-- the equations are the fixed ones. -/
theorem equations_fixed : LecGen.xorSlots = goldenXorSlots := rfl

theorem tables_wellformed :
    (∀ s ∈ LecGen.xorSlots, s.2.2.2.1.isSome = true ∧ s.2.2.2.2.isSome = true) ∧
    (∀ T ∈ LecGen.xorTables, XorCheck.WF T) :=
  ⟨xorSlots_nonnull, xorTables_wf⟩

theorem whitelist (k m hd : Nat) : xorShapeOK k m hd = (LecGen.xorTableFor hd m k).isSome :=
  xorTables_whitelist k m hd

theorem table_count : LecGen.xorTables.length = 38 := by decide

theorem parity_is_xor (T : XorTable) (bs : Nat) (dataP parP : List Bytes)
    (h : IsStripe (xorBackend T) T.k T.m bs dataP parP) :
    parP = (List.range T.m).map (fun j => interp bs dataP (T.pbm j)) :=
  ((xor_isStripe_iff T bs dataP parP).1 h).2.2

theorem min_distance : ∀ T ∈ LecGen.xorTables, XorCheck.MinDist T := xorTables_minDist

theorem decode_all (T : XorTable) (hT : T ∈ LecGen.xorTables) (bs : Nat)
    (d : List Bytes) (hk : d.length = T.k) (hd : ∀ x ∈ d, x.length = bs)
    (E : List Nat) (hE : T.ErasureList E) :
    ∃ ops, T.planDecode E = .ok ops ∧
      (runOps xorBytes (zeros bs) ops (xorEraseBufs (zeros bs) T E (T.stripe bs d))).data = d ∧
      (runOps xorBytes (zeros bs) ops (xorEraseBufs (zeros bs) T E (T.stripe bs d))).parity
        = (List.range T.m).map (fun j => interp bs d (T.pbm j)) :=
  xorTables_decode_bytes T hT bs d hk hd E hE

theorem reconstruct_all (T : XorTable) (hT : T ∈ LecGen.xorTables) (bs : Nat)
    (d : List Bytes) (hk : d.length = T.k) (hd : ∀ x ∈ d, x.length = bs)
    (E : List Nat) (hE : T.ErasureList E) (dest : Nat) (hdest : dest ∈ E) :
    ∃ ops, T.planReconOne E dest = .ok ops ∧
      (runOps xorBytes (zeros bs) ops (xorEraseBufs (zeros bs) T E (T.stripe bs d))).get (zeros bs)
        (T.bufOf dest) = (T.stripe bs d).get (zeros bs) (T.bufOf dest) :=
  xorTables_recon_bytes T hT bs d hk hd E hE dest hdest

/-- the tolerance hd − 1 never exceeds m, so the front end's count check never rejects a set the
    code tolerates. -/
theorem tolerance_fits : ∀ T ∈ LecGen.xorTables, 1 ≤ T.hd ∧ T.hd - 1 ≤ T.m := xorTables_tolerance

/-- non-vacuity: the hand-made (10,5,3) table is among the generated ones. -/
example : (LecGen.xorTableFor 3 5 10).map (·.parityBms) = some [163, 300, 337, 582, 664] := by decide

#print axioms equations_fixed
#print axioms tables_wellformed
#print axioms whitelist
#print axioms parity_is_xor
#print axioms min_distance
#print axioms decode_all
#print axioms reconstruct_all
end LecProps.C05
