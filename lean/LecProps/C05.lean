import LecModel
import LecGen
namespace LecProps.C05
end LecProps.C05
