import LecModel
import LecGen
namespace LecProps.C06
end LecProps.C06
