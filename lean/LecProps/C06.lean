/-
  C06 — fragments_needed returns a usable, sufficient, in-range set or an error.

  Reed–Solomon (`liberasurecode_rs_vand_min_fragments`, also used by the ISA-L adapters):
  `rs_needed_ok`        whenever at most m distinct indexes are requested or excluded the query
                        succeeds with exactly k indexes, strictly ascending (so distinct), below
                        k+m, none of them requested or excluded;
  `rs_needed_sufficient` any list it returns names k rows of the generator that form an invertible
                        matrix (MDS), so every fragment can be rebuilt from those alone;
  `rs_needed_error`     with more than m distinct indexes unavailable it returns an error.
  Flat XOR (`xor_hd_fragments_needed`), every generated table:
  `xor_needed_ok`       for all ascending disjoint lists R ≠ [] and X with |R|+|X| < hd the query
                        succeeds; the answer is in range, duplicate-free, disjoint from R and X,
                        and sufficient: the symbol of every r ∈ R lies in the GF(2) span of the
                        symbols of the answer (kernel-decided per table on a verified span checker);
  `xor_needed_bytes`    payload-level reading of sufficiency, every payload length and content.
  List orders other than ascending, and "an error rather than a wrong list" beyond tolerance for
  XOR, are covered by the relational correspondence: the real query runs on the whole finite
  domain of (table, R, X) in random orders and every answer is judged by range / disjointness /
  GF(2)-span tests on the real payloads, plus a real reconstruct from exactly the returned
  fragments for Reed–Solomon.
-/
import LecProofs.RSBackend
import LecProofs.XorNeededOK
import LecGen
namespace LecProps.C06
open Lec

theorem rs_needed_ok {k m : Nat} (hk : 1 ≤ k) (R X : List Nat) (hc : (R ++ X).toFinset.card ≤ m) :
    ∃ N, rsNeeded k m R X = .ok N ∧ N.length = k ∧ N.Pairwise (· < ·) ∧
      ∀ i ∈ N, i < k + m ∧ i ∉ R ∧ i ∉ X :=
  rsNeeded_ok hk R X hc

theorem rs_needed_sufficient {k m : Nat} (hkm : k + m ≤ 65536) {R X N : List Nat}
    (h : rsNeeded k m R X = .ok N) :
    N.length = k ∧ (genMatrix k (fun a => N.getD a 0)).det ≠ 0 :=
  rsNeeded_invertible hkm h

theorem rs_needed_error {k m : Nat} (R X : List Nat) (hR : ∀ i ∈ R, i < k + m) (hX : ∀ i ∈ X, i < k + m)
    (hc : m < (R ++ X).toFinset.card) : rsNeeded k m R X = .error (.rc (-1)) :=
  rsNeeded_error R X hR hX hc

theorem rs_backend_uses_it (G : Nat → Nat → Nat) (k m : Nat) : (rsBackend G k m).needed = rsNeeded k m :=
  rsBackend_needed G k m

theorem xor_needed_ok (T : XorTable) (hT : T ∈ LecGen.xorTables) (R X : List Nat)
    (hA : T.NeededArgs R X) :
    ∃ N, T.fragmentsNeeded R X = some N ∧
      (∀ f ∈ N, f < T.k + T.m) ∧ N.Nodup ∧ (∀ f ∈ N, f ∉ R ∧ f ∉ X) ∧
      ∀ r ∈ R, Span (N.map T.symOf) (T.symOf r) :=
  xorTables_needed T hT R X hA

theorem xor_needed_bytes (T : XorTable) (hT : T ∈ LecGen.xorTables) (R X : List Nat)
    (hA : T.NeededArgs R X) (bs : Nat) (d : List Bytes) (hd : ∀ x ∈ d, x.length = bs) :
    ∃ N, T.fragmentsNeeded R X = some N ∧
      ∀ r ∈ R, SpanG xorBytes (zeros bs) (N.map fun f => interp bs d (T.symOf f))
        (interp bs d (T.symOf r)) :=
  xorTables_needed_bytes T hT R X hA bs d hd

/-- non-vacuity: (10,6,4), rebuild data 0 and 1 excluding 2 — the case that used to shift by a
    negative amount is answered in range. -/
example : ((LecGen.xorTableFor 4 6 10).bind fun T => T.fragmentsNeeded [0, 1, 2] []).map
    (fun N => N.all (· < 16)) = some true := by decide +kernel

#print axioms rs_needed_ok
#print axioms rs_needed_sufficient
#print axioms rs_needed_error
#print axioms xor_needed_ok
#print axioms xor_needed_bytes
end LecProps.C06
