import LecModel
import LecGen
namespace LecProps.C16
end LecProps.C16
