/-
  C16 — No leak, double free or use-after-free over any sequence of API calls.

  Model: the ledger of heap blocks the library holds on behalf of the caller
  (LecModel.Ledger).  After any history of calls — successful ones, and calls that fail with a
  documented error —
  `held_formula`     the blocks held are exactly: the live instance's blocks, plus the k+m fragments
                     and two pointer arrays of an outstanding encode result, plus one block for an
                     outstanding decode result (nothing else accumulates);
  `failures_hold_nothing`
                     failed creates, encode with bad arguments, decode with too few fragments or
                     a bad header, reconstruct, fragments_needed and the metadata/validation calls
                     never change the ledger;
  `cleanup_releases` encode_cleanup / decode_cleanup release exactly what encode / decode returned;
  `drained`          from every state, decode_cleanup, encode_cleanup and destroy leave zero
                     blocks — for every shape.
  The model has one number per API outcome; that every early-exit path of the C functions frees
  what it allocated, and that no freed block is touched, is observed, not proved: the same
  random histories (≤ 300 calls, valid calls mixed with insufficient / invalid fragment sets, bad
  headers, invalid arguments, unsupported shapes, unaligned buffers, forced checks) run against the
  real library with an interposed counting allocator (block count after every call compared with
  the model, double frees counted) and again under ASan + LeakSanitizer.
-/
import LecModel.Ledger
namespace LecProps.C16
open Lec

/-- states and counts over a whole history. -/
def finalState (k m tol : Nat) (calls : List Char) : LState :=
  calls.foldl (ledgerStep k m tol) ⟨false, false, false⟩

theorem held_formula (be k m : Nat) (s : LState) :
    s.held be k m = (if s.inst then instanceBlocks be else 0) + (if s.enc then ((k + m + 2 : Nat) : Int) else 0) +
      (if s.out then 1 else 0) := by
  unfold LState.held; cases s.enc <;> simp

theorem held_nonneg (be k m : Nat) (s : LState) : 0 ≤ s.held be k m := by
  unfold LState.held instanceBlocks
  cases s.inst <;> cases s.enc <;> cases s.out <;> simp <;> (repeat' split) <;> omega

theorem failures_hold_nothing (k m tol : Nat) (s : LState) (c : Char)
    (hc : c ∈ ['X', 'e', 'I', 'B', 'R', 'r', 'N', 'M']) : ledgerStep k m tol s c = s := by
  simp only [List.mem_cons, List.not_mem_nil, or_false] at hc
  rcases hc with rfl | rfl | rfl | rfl | rfl | rfl | rfl | rfl <;>
    simp [ledgerStep, decodeSucceeds]

theorem cleanup_releases (be k m tol : Nat) (s : LState) :
    (s.enc = true → (ledgerStep k m tol s 'c').held be k m = s.held be k m - ((k + m + 2 : Nat) : Int)) ∧
    (s.out = true → (ledgerStep k m tol s 'f').held be k m = s.held be k m - 1) := by
  constructor
  · intro h
    simp only [ledgerStep, h, if_true, LState.held, Bool.false_eq_true, if_false]
    omega
  · intro h
    simp only [ledgerStep, h, if_true, LState.held, Bool.false_eq_true, if_false]
    omega

theorem drained (be k m tol : Nat) (s : LState) :
    (ledgerStep k m tol (ledgerStep k m tol (ledgerStep k m tol s 'f') 'c') 'D').held be k m = 0 := by
  obtain ⟨a, b, c⟩ := s
  cases a <;> cases b <;> cases c <;> simp [ledgerStep, LState.held]

/-- an encode can only be outstanding while an instance is live, so destroy is never blocked by a
    dangling result: the invariant of every history. -/
theorem history_invariant (k m tol : Nat) (calls : List Char) :
    ((finalState k m tol calls).enc = true → (finalState k m tol calls).inst = true) ∧
    ((finalState k m tol calls).out = true → (finalState k m tol calls).inst = true) := by
  unfold finalState
  suffices ∀ s : LState, ((s.enc = true → s.inst = true) ∧ (s.out = true → s.inst = true)) →
      (((calls.foldl (ledgerStep k m tol) s).enc = true → (calls.foldl (ledgerStep k m tol) s).inst = true) ∧
       ((calls.foldl (ledgerStep k m tol) s).out = true → (calls.foldl (ledgerStep k m tol) s).inst = true)) from
    this _ (by simp)
  induction calls with
  | nil => intro s h; exact h
  | cons c cs ih =>
    intro s h
    apply ih
    obtain ⟨a, b, d⟩ := s
    simp only at h
    unfold ledgerStep
    repeat' split
    all_goals (cases a <;> cases b <;> cases d <;> simp_all)

/-- non-vacuity: a concrete history for flat-XOR (5,5,3). -/
example : ledgerRun 3 5 5 2 "CESfcD".toList = [3, 15, 16, 15, 3, 0] := by decide

#print axioms held_nonneg
#print axioms failures_hold_nothing
#print axioms cleanup_releases
#print axioms drained
#print axioms history_invariant
end LecProps.C16
