/-
  C10 — Payload checksums are written correctly and mismatches are always reported.

  `legacy_switch`     the environment switch counts as set iff non-empty and not "0";
  `writer_checksum`   with checksum type CRC32 every fragment built by add_fragment_metadata
                      (encode and reconstruct both use it) stores CRC-32(payload) — the standard
                      one, or the historical one iff the switch is set;
  `mismatch_iff`      the metadata query sets the mismatch flag exactly when the stored value
                      differs from both CRCs of the payload;
  `mismatch_invalid`  a fragment whose flag is (or is computed as) set fails validation;
  `fresh_intact`      fragments written with either CRC verify as intact on any reader.
-/
import LecProofs.FreshLemmas
import LecProps.C09
import LecProps.C07
namespace LecProps.C10
open Lec

theorem legacy_switch (v : Option String) :
    legacyFlag v = true ↔ ∃ s, v = some s ∧ s ≠ "" ∧ s ≠ "0" := by
  cases v with
  | none => simp [legacyFlag]
  | some s => simp [legacyFlag]

/-- what the writer stores (word 0 of the checksum array; the other words stay zero). -/
theorem writer_checksum (env : Env) (i : Inst) (idx orig bs : Nat) (p : Bytes) (hct : i.ct % 256 = 2) :
    (specHeader env i idx orig bs p).md.chksum =
      (if env.legacy then crcAlt p else crcStd p) :: List.replicate 7 0 := by
  simp [specHeader, specMeta, hct, crcWrite]

/-- `encode` stores it in every fragment (combine with C07.encode_wire). -/
theorem encode_checksum (env : Env) (be : Backend) (i : Inst) (data : Bytes) (frags : List Bytes)
    {bsOK : Nat → Prop} (hbe : EncodeOK be i.k i.m bsOK) (hbs : bsOK (blockSize i data.length))
    (hct : i.ct % 256 = 2)
    (h : encode env be i data = .ok frags) :
    ∀ idx (hi : idx < frags.length), ∃ (p : Bytes) (hdr : Header), frags[idx] = hdr.bytes ++ p ∧
      hdr.md.chksum = (if env.legacy then crcAlt p else crcStd p) :: List.replicate 7 0 ∧
      hdr.md.ctype = i.ct ∧ hdr.md.mismatch = 0 := by
  intro idx hi
  obtain ⟨p, _, hf, _⟩ := (LecProps.C07.encode_wire env be i data frags hbe hbs h).2.2 idx hi
  exact ⟨p, _, hf, writer_checksum env i idx _ _ p hct, rfl, rfl⟩

/-- reader side, host-order fragment with checksum type CRC32. -/
theorem mismatch_iff (f : Bytes) (md : Meta) (hn : fMagic f = magicC) (hct : fCtype f = 2)
    (h : getFragmentMetadata f = .ok md) :
    md.mismatch = 1 ↔
      (fChk f 0 ≠ crcStd ((fPayload f).take (fSize f)) ∧ fChk f 0 ≠ crcAlt ((fPayload f).take (fSize f))) := by
  unfold getFragmentMetadata at h
  split at h
  · cases h
  · simp only [hn, bne_self_eq_false, Bool.false_eq_true, if_false] at h
    have hc : (parseMeta f).ctype = 2 := hct
    have hs : (parseMeta f).chksum.getD 0 0 = fChk f 0 := by
      simp [parseMeta, List.range, List.range.loop]
    have hz : (parseMeta f).size = fSize f := rfl
    simp only [hc, beq_self_eq_true, if_true, hs, hz, pure, Except.pure, Except.ok.injEq] at h
    rw [← h]
    by_cases h1 : fChk f 0 = crcStd ((fPayload f).take (fSize f))
    · simp [h1]
    · by_cases h2 : fChk f 0 = crcAlt ((fPayload f).take (fSize f))
      · simp [h2]
      · simp [h1, h2]

/-- a reported mismatch makes the fragment invalid for every instance. -/
theorem mismatch_invalid (env : Env) (be : Backend) (i : Inst) (f : Bytes) (md : Meta)
    (h : getFragmentMetadata f = .ok md) (hm : md.mismatch = 1) :
    isInvalidFragment env be i f = true := by
  unfold isInvalidFragment
  split
  · rfl
  · split
    · rfl
    · simp only [h]
      unfold invalidFragmentMetadata
      split
      · decide
      · split
        · decide
        · split
          · decide
          · simp [hm]; decide

/-- fragments written with the standard or with the historical CRC read back as intact. -/
theorem fresh_intact (env : Env) (i : Inst) (idx orig bs : Nat) (p : Bytes)
    (h : FreshOK env i idx orig bs) (hp : p.length = bs) :
    ∃ md, getFragmentMetadata ((specHeader env i idx orig bs p).bytes ++ p) = .ok md ∧ md.mismatch = 0 :=
  ⟨_, fresh_metadata env i idx orig bs p h hp, rfl⟩

/-- non-vacuity: corrupting one payload bit of a fresh CRC32 fragment is reported. -/
example :
    let i : Inst := { beId := 6, beVer := 0x010000, k := 2, m := 1, w := 16, ct := 2 }
    let env : Env := { libver := 0x010604, legacy := true }
    let f := (specHeader env i 1 5 4 [1, 2, 3, 4]).bytes ++ [1, 2, 3, 5]
    (getFragmentMetadata f).toOption.map (·.mismatch) = some 1 := by
  decide +kernel

#print axioms legacy_switch
#print axioms writer_checksum
#print axioms encode_checksum
#print axioms mismatch_iff
#print axioms mismatch_invalid
#print axioms fresh_intact
end LecProps.C10
