import LecModel
import LecGen
namespace LecProps.C10
end LecProps.C10
