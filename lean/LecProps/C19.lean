import LecModel
import LecGen
namespace LecProps.C19
end LecProps.C19
