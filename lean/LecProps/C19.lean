/-
  C19 — The ISA-L adapters decode and reconstruct correctly for every erasure pattern.

  The adapters (src/backends/isa-l/isa_l_common.c) are modelled over an abstract record of the
  primitives they bind with dlsym (`IsaPrims`: field multiply, generator matrix, matrix inversion;
  table expansion + encode = matrix·vector).  `IsaPrimsOK P k m φ` is the documented contract of
  such a library over ANY field F (φ embeds byte values): xor is addition, `mul` is the product,
  the generator is systematic, and a returned inverse is an inverse.  Nothing is assumed about
  WHEN inversion fails.  For every library meeting the contract, every k, m, payload length and
  content:
  `roundtrip`, `fidelity`, `no_silent_corruption`
        the front-end theorems of C01 / C03 / C02 hold for the adapter with tolerance "at most m
        missing and the library inverts the k surviving rows it is given" — exact data, byte
        identical reconstructed fragments (missing-parity rows are `G[row]·inv`), and never wrong
        bytes or a fault for any fragment subset;
  `inversion_failure`   when inversion fails decode and reconstruct return the error -1;
  `needed`        fragments-needed is the Reed–Solomon planner (C06.rs_needed_*);
  `parity`        parity byte b of parity i is Σ_j G[k+i][j]·data_j[b] in F;
  `reference_library_ok`  non-vacuity: the GF(2^8)/0x11d primitives that harness/isal_ref
        implements (both generator constructions, Gauss–Jordan inversion, proved sound and
        complete) satisfy the contract — GF(2^8) arithmetic is shown to be a field the same way
        as GF(2^16).
  Tie: the real adapters run over the verif-owned libisal.so.2 (clean-room C), both generator
  kinds, all shapes n ≤ 11 with every erasure set and destination (thorough), sampled up to
  k+m = 32, injected inversion failures; every result is diffed against this model.
-/
import LecProofs.IsaLCorrect
import LecProofs.IsaLGF8
import LecProofs.Instances
import LecModel.Create
import LecProps.C01
import LecProps.C02
import LecProps.C03
namespace LecProps.C19
open Lec

variable {F : Type} [Field F] {P : IsaPrims} {k m : Nat} {φ : Nat → F}

/-- instance record `create` returns for the ISA-L backends (w = 8). -/
def isaInst (be k m ct : Nat) : Inst := { beId := be, beVer := beVersion be, k := k, m := m, w := 8, ct := ct }

/-- tolerance of the adapter: at most m missing and the library inverts the surviving rows. -/
def IsaTol (P : IsaPrims) (k m : Nat) (missing : List Nat) : Prop :=
  missing.length ≤ m ∧ (P.invert k (IsaL.availRows P k m missing)).isSome

theorem isa_frontOK (env : Env) (be k m ct len : Nat) (hk : 1 ≤ k) (hkm : k + m ≤ 32) (hbe : be = 4 ∨ be = 7)
    (hct : ct < 256) (hlv : env.libver < 2 ^ 32) (hl0 : env.libver ≠ 0) (hlen : len < 2 ^ 31 - 2 ^ 12) :
    FrontOK env (isaInst be k m ct) len := by
  refine frontOK_of_created env (isaInst be k m ct) len hk hkm (by simp [isaInst]) (by simp [isaInst]) hct
    ?_ ?_ hlv hl0 hlen
  · rcases hbe with rfl | rfl <;> simp [isaInst]
  · rcases hbe with rfl | rfl <;> simp [isaInst, beVersion]

/-- the same for every input length the size guard of `encode` lets through. -/
theorem isa_frontOK_guard (env : Env) (be k m ct len : Nat) (hk : 1 ≤ k) (hkm : k + m ≤ 32) (hbe : be = 4 ∨ be = 7)
    (hct : ct < 256) (hlv : env.libver < 2 ^ 32) (hl0 : env.libver ≠ 0)
    (hg : encodeTooLarge (isaInst be k m ct) len = false) :
    FrontOK env (isaInst be k m ct) len := by
  refine frontOK_of_created_guard env (isaInst be k m ct) len hk hkm (by simp [isaInst]) (by simp [isaInst]) hct
    ?_ ?_ hlv hl0 hg
  · rcases hbe with rfl | rfl <;> simp [isaInst]
  · rcases hbe with rfl | rfl <;> simp [isaInst, beVersion]

theorem roundtrip (hP : IsaPrimsOK P k m φ) (env : Env) (be ct : Nat) (hk : 1 ≤ k) (hkm : k + m ≤ 32)
    (hbe : be = 4 ∨ be = 7) (hct : ct < 256) (hlv : env.libver < 2 ^ 32) (hl0 : env.libver ≠ 0)
    (data : Bytes) (enc frags : List Bytes)
    (henc : encode env (isaBackend P k m (beVersion be)) (isaInst be k m ct) data = .ok enc)
    (hsub : ∀ f ∈ frags, f ∈ enc) (htol : IsaTol P k m (missingOfStripe enc frags))
    (hn : k ≤ frags.length) (force : Bool) :
    decode env (isaBackend P k m (beVersion be)) (isaInst be k m ct) frags
      (80 + blockSize (isaInst be k m ct) data.length) force = .ok data :=
  LecProps.C01.roundtrip env _ (isaInst be k m ct) data enc frags (isa_encodeOK hP _) (isa_decodeOK hP _)
    trivial (isa_frontOK_guard env be k m ct data.length hk hkm hbe hct hlv hl0 (encodeTooLarge_false_of_ok henc))
    (by simp [isaBackend, isaInst]) henc hsub htol htol.1 hn force

theorem fidelity (hP : IsaPrimsOK P k m φ) (env : Env) (be ct : Nat) (hk : 1 ≤ k) (hkm : k + m ≤ 32)
    (hbe : be = 4 ∨ be = 7) (hct : ct < 256) (hlv : env.libver < 2 ^ 32) (hl0 : env.libver ≠ 0)
    (data : Bytes) (enc frags : List Bytes)
    (henc : encode env (isaBackend P k m (beVersion be)) (isaInst be k m ct) data = .ok enc)
    (hsub : ∀ f ∈ frags, f ∈ enc) (htol : IsaTol P k m (missingOfStripe enc frags))
    (dest : Nat) (hd : dest < k + m) :
    reconstruct env (isaBackend P k m (beVersion be)) (isaInst be k m ct) frags
      (80 + blockSize (isaInst be k m ct) data.length) dest = .ok (enc.getD dest []) :=
  LecProps.C03.fidelity env _ (isaInst be k m ct) data enc frags (isa_encodeOK hP _) (isa_decodeOK hP _)
    trivial (isa_frontOK_guard env be k m ct data.length hk hkm hbe hct hlv hl0 (encodeTooLarge_false_of_ok henc)) henc hsub htol htol.1 dest hd

/-- every error the adapter's decode / reconstruct can return is the C code's -1. -/
theorem adapter_errors_negative (P : IsaPrims) (k m ver : Nat) (d p : List Bytes) (ms : List Nat) (b : Nat) (e : Int) :
    ((isaBackend P k m ver).decode d p ms b = .error (.rc e) → e < 0) ∧
    (∀ dst, (isaBackend P k m ver).reconstruct d p ms dst b = .error (.rc e) → e < 0) := by
  constructor
  · intro h
    simp only [isaBackend, isaDecode] at h
    repeat' split at h
    all_goals first | (cases h; done) | (simp only [Except.error.injEq, Fail.rc.injEq] at h; omega)
  · intro dst h
    simp only [isaBackend, isaReconstruct] at h
    repeat' split at h
    all_goals first | (cases h; done) | (simp only [Except.error.injEq, Fail.rc.injEq] at h; omega)

theorem no_silent_corruption (hP : IsaPrimsOK P k m φ) (env : Env) (be ct : Nat) (hk : 1 ≤ k) (hkm : k + m ≤ 32)
    (hbe : be = 4 ∨ be = 7) (hct : ct < 256) (hlv : env.libver < 2 ^ 32) (hl0 : env.libver ≠ 0)
    (data : Bytes) (enc frags : List Bytes)
    (henc : encode env (isaBackend P k m (beVersion be)) (isaInst be k m ct) data = .ok enc)
    (hsub : ∀ f ∈ frags, f ∈ enc) (force : Bool) (dest : Int) :
    (decode env (isaBackend P k m (beVersion be)) (isaInst be k m ct) frags
        (80 + blockSize (isaInst be k m ct) data.length) force = .ok data ∨
     ∃ e, decode env (isaBackend P k m (beVersion be)) (isaInst be k m ct) frags
        (80 + blockSize (isaInst be k m ct) data.length) force = .error (.rc e) ∧ e < 0) ∧
    (reconstruct env (isaBackend P k m (beVersion be)) (isaInst be k m ct) frags
        (80 + blockSize (isaInst be k m ct) data.length) dest = .ok (enc.getD dest.toNat []) ∨
     ∃ e, reconstruct env (isaBackend P k m (beVersion be)) (isaInst be k m ct) frags
        (80 + blockSize (isaInst be k m ct) data.length) dest = .error (.rc e) ∧ e < 0) :=
  ⟨LecProps.C02.decode_exact_or_error env _ (isaInst be k m ct) data enc frags (isa_encodeOK hP _)
      (isa_decodeSound hP _) (fun d p ms b e h => (adapter_errors_negative P k m _ d p ms b e).1 h) trivial
      (isa_frontOK_guard env be k m ct data.length hk hkm hbe hct hlv hl0 (encodeTooLarge_false_of_ok henc)) henc hsub force,
   LecProps.C02.reconstruct_exact_or_error env _ (isaInst be k m ct) data enc frags (isa_encodeOK hP _)
      (isa_decodeSound hP _) (fun d p ms dst b e h => (adapter_errors_negative P k m _ d p ms b e).2 dst h) trivial
      (isa_frontOK_guard env be k m ct data.length hk hkm hbe hct hlv hl0 (encodeTooLarge_false_of_ok henc)) henc hsub dest⟩

theorem inversion_failure (P : IsaPrims) (k m ver : Nat) (d p : List Bytes) (missing : List Nat) (dest bs : Nat)
    (h : P.invert k (IsaL.availRows P k m missing) = none) :
    (isaBackend P k m ver).decode d p missing bs = .error (.rc (-1)) ∧
    (isaBackend P k m ver).reconstruct d p missing dest bs = .error (.rc (-1)) :=
  ⟨isa_decode_fail d p bs h, isa_reconstruct_fail d p dest bs h⟩

theorem needed (P : IsaPrims) (k m ver : Nat) : (isaBackend P k m ver).needed = rsNeeded k m := isa_needed P k m ver

theorem parity (hP : IsaPrimsOK P k m φ) {ver bs : Nat} {dataP parP : List Bytes}
    (h : IsStripe (isaBackend P k m ver) k m bs dataP parP) {i : Nat} (hi : i < m) {b : Nat} (hb : b < bs) :
    φ (IsaL.bv (parP.getD i []) b) =
      ∑ j ∈ Finset.range k, φ (IsaL.ge P k m (k + i) j) * φ (IsaL.bv (dataP.getD j []) b) :=
  isa_parity_byte hP h hi hb

/-- with a library whose inversion is complete, "surviving rows invertible" is the tolerance. -/
theorem tolerance_of_complete (hP : IsaPrimsOK P k m φ) (hc : IsaInvertComplete P k φ)
    {missing : List Nat} (hlen : missing.length ≤ m)
    (hN : ∃ N : Nat → Nat → F, ∀ i j, i < k → j < k →
      ∑ l ∈ Finset.range k, N i l * φ (((IsaL.availRows P k m missing).getD l []).getD j 0) =
        if i = j then 1 else 0) : IsaTol P k m missing :=
  ⟨hlen, isa_tol_of_complete hP hc hlen hN⟩

/-- non-vacuity: the reference primitives meet the contract (and their inversion is complete). -/
theorem reference_library_ok (k m : Nat) (hkm : k + m ≤ 256) :
    IsaPrimsOK gf8PrimsVand k m IsaL.GF8.ofNat ∧ IsaPrimsOK gf8PrimsCauchy k m IsaL.GF8.ofNat ∧
    IsaInvertComplete gf8PrimsVand k IsaL.GF8.ofNat ∧ IsaInvertComplete gf8PrimsCauchy k IsaL.GF8.ofNat :=
  ⟨IsaL.gf8_primsOK_vand k m, IsaL.gf8_primsOK_cauchy hkm, IsaL.gf8_invertComplete rfl k, IsaL.gf8_invertComplete rfl k⟩

#print axioms roundtrip
#print axioms fidelity
#print axioms no_silent_corruption
#print axioms inversion_failure
#print axioms reference_library_ok
end LecProps.C19
