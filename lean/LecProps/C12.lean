/-
  C12 — Fragment validation rejects exactly the foreign or damaged fragments.

  `invalid_iff`      per-fragment validation reports invalid iff: header unacceptable, or not in
                     host byte order, or library version newer than the running library, or
                     index ∉ [0,k+m), or foreign backend id, or backend version not accepted,
                     or payload checksum mismatch;
  `metadata_verdict` the three-way verdict of the index / id / version / flag test;
  `stripe_zero_iff`, `stripe_negative`
                     stripe verification returns 0 iff no supplied fragment fails that test and
                     otherwise the (negative) code of the first one that does;
  `fresh_valid`      a fragment the instance has just written validates as good.
-/
import LecProofs.FreshLemmas
import LecProps.C09
namespace LecProps.C12
open Lec LecProps.C09

/-- the index / backend id / backend version / mismatch-flag test on logical metadata. -/
theorem metadata_verdict (be : Backend) (i : Inst) (md : Meta) :
    (invalidFragmentMetadata be i md = 0 ↔
      (md.idx < i.k + i.m ∧ md.beId = i.beId ∧ be.compat md.beVer = true ∧ md.mismatch ≠ 1)) ∧
    (invalidFragmentMetadata be i md ≠ 0 → invalidFragmentMetadata be i md < 0) := by
  unfold invalidFragmentMetadata
  by_cases h1 : md.idx ≥ i.k + i.m
  · simp [h1, EBADHEADER]; omega
  · by_cases h2 : md.beId = i.beId
    · by_cases h3 : be.compat md.beVer = true
      · by_cases h4 : md.mismatch = 1
        · simp [h1, h2, h3, h4, EBADCHKSUM]
        · simp [h1, h2, h3, h4]; omega
      · simp [h1, h2, h3, EBADHEADER]
    · simp [h1, h2, EBADHEADER]

/-- per-fragment validation. -/
theorem invalid_iff (env : Env) (be : Backend) (i : Inst) (f : Bytes) :
    isInvalidFragment env be i f = true ↔
      (fMagic f ≠ magicC ∨ fLibver f > env.libver ∨ ¬ RefAccept f ∨
        ∃ md, getFragmentMetadata f = .ok md ∧
          (md.idx ≥ i.k + i.m ∨ md.beId ≠ i.beId ∨ be.compat md.beVer = false ∨ md.mismatch = 1)) := by
  unfold isInvalidFragment
  by_cases hm : fMagic f = magicC
  · by_cases hv : fLibver f > env.libver
    · simp [hm, hv]
    · by_cases hr : RefAccept f
      · obtain ⟨md, hmd⟩ := (metadata_gate f).2 hr
        have hv' : ¬ (fLibver f > env.libver) := hv
        simp only [hm, bne_self_eq_false, Bool.false_eq_true, if_false, hv', hmd, ne_eq, not_true_eq_false,
          false_or, hr, Except.ok.injEq, exists_eq_left']
        have := (metadata_verdict be i md).1
        constructor
        · intro hx
          have hne : invalidFragmentMetadata be i md ≠ 0 := by simpa using hx
          apply Classical.byContradiction; intro hcon
          apply hne
          apply this.mpr
          refine ⟨by omega, ?_, ?_, ?_⟩
          · apply Classical.byContradiction; intro h'; exact hcon (Or.inr (Or.inl h'))
          · cases hc : be.compat md.beVer
            · exact absurd (Or.inr (Or.inr (Or.inl hc))) hcon
            · rfl
          · intro h'; exact hcon (Or.inr (Or.inr (Or.inr h')))
        · intro hx
          have hne : invalidFragmentMetadata be i md ≠ 0 := by
            intro h0
            obtain ⟨a, b, c, d⟩ := this.mp h0
            rcases hx with h' | h' | h' | h'
            · omega
            · exact h' b
            · rw [c] at h'; cases h'
            · exact d h'
          simpa using hne
      · have hb := (metadata_gate f).1 hr
        simp [hm, hv, hr, hb]
  · simp [hm]

/-- stripe verification. -/
theorem stripe_zero_iff (be : Backend) (i : Inst) (frags : List Bytes) :
    verifyStripeMetadata be i frags = 0 ↔
      (frags ≠ [] ∧ ∀ f ∈ frags, invalidFragmentMetadata be i (parseMeta f) = 0) := by
  unfold verifyStripeMetadata
  by_cases he : frags = []
  · simp [he, EINVALIDPARAMS]
  · have : frags.isEmpty = false := by simp [he]
    simp only [this, Bool.false_eq_true, if_false, ne_eq, he, not_false_eq_true, true_and]
    constructor
    · intro h f hf
      apply Classical.byContradiction; intro hne
      have hneg := (metadata_verdict be i (parseMeta f)).2 hne
      have hfound : ((frags.map fun f => invalidFragmentMetadata be i (parseMeta f)).find? (· < 0)).isSome := by
        rw [List.find?_isSome]
        exact ⟨_, List.mem_map.mpr ⟨f, hf, rfl⟩, by simpa using hneg⟩
      cases hfd : (frags.map fun f => invalidFragmentMetadata be i (parseMeta f)).find? (· < 0) with
      | none => rw [hfd] at hfound; cases hfound
      | some e =>
        rw [hfd] at h
        have := List.find?_some hfd
        simp only [decide_eq_true_eq] at this
        simp only at h
        omega
    · intro h
      have : (frags.map fun f => invalidFragmentMetadata be i (parseMeta f)).find? (· < 0) = none := by
        rw [List.find?_eq_none]
        intro x hx
        obtain ⟨f, hf, rfl⟩ := List.mem_map.mp hx
        rw [h f hf]; decide
      rw [this]

theorem stripe_negative (be : Backend) (i : Inst) (frags : List Bytes)
    (h : verifyStripeMetadata be i frags ≠ 0) : verifyStripeMetadata be i frags < 0 := by
  unfold verifyStripeMetadata at *
  by_cases he : frags.isEmpty = true
  · rw [if_pos he]; decide
  · rw [if_neg he] at h ⊢
    cases hfd : (frags.map fun f => invalidFragmentMetadata be i (parseMeta f)).find? (· < 0) with
    | none => rw [hfd] at h; exact absurd rfl h
    | some e =>
      have := List.find?_some hfd
      simpa using this

/-- a fragment the instance has just encoded or reconstructed validates as good. -/
theorem fresh_valid (env : Env) (be : Backend) (i : Inst) (idx orig bs : Nat) (p : Bytes)
    (h : FreshOK env i idx orig bs) (hp : p.length = bs) (hidx : idx < i.k + i.m)
    (hc : be.compat i.beVer = true) :
    isInvalidFragment env be i ((specHeader env i idx orig bs p).bytes ++ p) = false := by
  unfold isInvalidFragment
  rw [fresh_magic env i idx orig bs p h, fresh_libver env i idx orig bs p h,
    fresh_metadata env i idx orig bs p h hp]
  simp only [bne_self_eq_false, Bool.false_eq_true, if_false, Nat.lt_irrefl, gt_iff_lt]
  have : invalidFragmentMetadata be i (specMeta env i idx orig bs p) = 0 :=
    (metadata_verdict be i _).1.mpr ⟨hidx, rfl, hc, by simp [specMeta]⟩
  simp [this]

/-- the built-in backends accept exactly their own version word (null accepts any). -/
theorem compat_rs (G : Nat → Nat → Nat) (k m v : Nat) : (rsBackend G k m).compat v = true ↔ v = 0x010000 := by
  simp [rsBackend]
theorem compat_xor (T : XorTable) (v : Nat) : (xorBackend T).compat v = true ↔ v = 0x010000 := by
  simp [xorBackend]

/-- non-vacuity: index k+m (one past the end) is rejected, k+m-1 is fine. -/
example :
    let i : Inst := { beId := 6, beVer := 0x010000, k := 2, m := 1, w := 16, ct := 1 }
    let md (ix : Nat) : Meta := ⟨ix, 4, 0, 5, 1, [0,0,0,0,0,0,0,0], 0, 6, 0x010000⟩
    invalidFragmentMetadata (rsBackend (fun _ _ => 0) 2 1) i (md 3) = -EBADHEADER ∧
    invalidFragmentMetadata (rsBackend (fun _ _ => 0) 2 1) i (md 2) = 0 := by
  decide

#print axioms metadata_verdict
#print axioms invalid_iff
#print axioms stripe_zero_iff
#print axioms stripe_negative
#print axioms fresh_valid
end LecProps.C12
