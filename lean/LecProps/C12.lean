import LecModel
import LecGen
namespace LecProps.C12
end LecProps.C12
