/-
  C09 — A fragment header is accepted exactly when its magic and metadata CRC are valid.

  `RefAccept`            the acceptance predicate transcribed from the property text;
  `accept_iff`           `is_invalid_fragment_header` rejects exactly the headers outside it;
  `metadata_gate`        the metadata query fails with EBADHEADER exactly on those headers and
                         succeeds on all others;
  `decode_gate`, `reconstruct_gate`
                         one unacceptable header among the supplied fragments makes decode /
                         reconstruct fail with EBADHEADER before any field is used;
  `decode_length_gate`, `reconstruct_length_gate`
                         the same loop refuses, with the same EBADHEADER, a fragment whose header
                         announces more bytes (payload size + backend metadata size, the raw
                         host-order fields) than the declared fragment length can hold after the
                         80 header bytes (`fragExceedsLength`), whatever else is supplied;
  `fresh_fits`           a fragment written by encode never trips that test for the declared
                         length 80 + block size (nor any larger one, `fresh_fits_of_le`);
  `decode_host_order`, `reconstruct_host_order`
                         an accepted header in the opposite byte order still makes decode
                         (without forced checks) and reconstruct fail with EBADHEADER;
  `decode_host_order'`   the same without the count hypothesis (EINSUFFFRAGS or EBADHEADER);
  `decode_host_order_forced`, `decode_host_order_forced_cases`
                         with forced checks such fragments are dropped silently: the result is the
                         forced decode of the host-order fragments alone (EINSUFFFRAGS when fewer
                         than k of them remain), never a report about the foreign fragment;
  `fresh_accepted`       every header written by encode is accepted;
  `crc_table`            the table compiled into the C source (LecGen.CrcTable, regenerated on
                         every run) is the table of polynomial 0xEDB88320, so the table-driven
                         historical CRC of the C code is the modelled one.
  Validation never modifies the fragment: all functions are pure in the model; the harness
  compares the buffers before and after every call on the real code.
-/
import LecProofs.EncodeLemmas
import LecProofs.ParseLemmas
import LecProofs.CrcLemmas
import LecProofs.FrontendCorrect
import LecGen
namespace LecProps.C09
open Lec

/-- acceptance predicate, from the property text. -/
def RefAccept (f : Bytes) : Prop :=
  (fMagic f = magicC ∨ bswap32 (fMagic f) = magicC) ∧ fLibver f ≠ 0 ∧
  (let ver := if fMagic f = magicC then fLibver f else bswap32 (fLibver f)
   let stored := if fMagic f = magicC then fMetaCrc f else bswap32 (fMetaCrc f)
   ver < 0x010200 ∨ stored = crcStd (f.take 59) ∨ stored = crcAlt (f.take 59))

theorem accept_iff (f : Bytes) : isInvalidHeader f = false ↔ RefAccept f := by
  unfold isInvalidHeader RefAccept fMetaBytes Hdr.metaSize
  by_cases hv : fLibver f = 0
  · simp [hv]
  · by_cases hm : fMagic f = magicC
    · simp only [hv, hm, bne_self_eq_false, Bool.false_eq_true, if_false, if_true]
      by_cases h1 : fLibver f < 0x010200
      · simp [h1]
      · by_cases h2 : fMetaCrc f = crcStd (f.take 59)
        · simp [h1, h2]
        · simp [h1, h2]
    · by_cases hs : bswap32 (fMagic f) = magicC
      · simp only [hv, hm, hs, bne_self_eq_false]
        by_cases h1 : bswap32 (fLibver f) < 0x010200
        · simp [h1, hm]
        · by_cases h2 : bswap32 (fMetaCrc f) = crcStd (f.take 59)
          · simp [h1, h2, hm]
          · simp [h1, h2, hm]
      · simp [hv, hm, hs]

theorem reject_iff (f : Bytes) : isInvalidHeader f = true ↔ ¬ RefAccept f := by
  rw [← accept_iff]; cases isInvalidHeader f <;> simp

/-- the metadata query: bad header ⇔ EBADHEADER; every accepted header yields metadata. -/
theorem metadata_gate (f : Bytes) :
    (¬ RefAccept f → getFragmentMetadata f = .error (.rc (-EBADHEADER))) ∧
    (RefAccept f → ∃ md, getFragmentMetadata f = .ok md) := by
  constructor
  · intro h
    have := (reject_iff f).mpr h
    simp [getFragmentMetadata, this, failRc]
  · intro h
    have hacc := (accept_iff f).mpr h
    unfold getFragmentMetadata
    simp only [hacc, Bool.false_eq_true, if_false]
    rcases h.1 with hm | hm
    · simp only [hm, bne_self_eq_false, Bool.false_eq_true, if_false]
      split <;> exact ⟨_, rfl⟩
    · by_cases hn : fMagic f = magicC
      · simp only [hn, bne_self_eq_false, Bool.false_eq_true, if_false]
        split <;> exact ⟨_, rfl⟩
      · have : (fMagic f != magicC) = true := by simp [hn]
        simp only [this, if_true, hm, bne_self_eq_false, Bool.false_eq_true, if_false]
        split <;> exact ⟨_, rfl⟩

/-- decode: any unacceptable header ⇒ EBADHEADER (after the count and length checks). -/
theorem decode_gate (env : Env) (be : Backend) (i : Inst) (frags : List Bytes) (fragLen : Nat)
    (force : Bool) (hn : i.k ≤ frags.length) (hl : 80 ≤ fragLen)
    (hbad : ∃ f ∈ frags, ¬ RefAccept f) :
    decode env be i frags fragLen force = .error (.rc (-EBADHEADER)) := by
  obtain ⟨f, hf, hr⟩ := hbad
  have hany : frags.any (gateBad fragLen) = true :=
    List.any_eq_true.mpr ⟨f, hf, by simp [gateBad, (reject_iff f).mpr hr]⟩
  exact decode_gate_fail env be i frags fragLen force hn (by simp [Hdr.size]; omega) hany

/-- decode: a supplied fragment whose header announces more bytes than the declared fragment
    length holds ⇒ EBADHEADER (same loop, same code; after the count and length checks). -/
theorem decode_length_gate (env : Env) (be : Backend) (i : Inst) (frags : List Bytes) (fragLen : Nat)
    (force : Bool) (hn : i.k ≤ frags.length) (hl : Hdr.size ≤ fragLen)
    (hbad : ∃ f ∈ frags, fragExceedsLength f fragLen = true) :
    decode env be i frags fragLen force = .error (.rc (-EBADHEADER)) := by
  obtain ⟨f, hf, hr⟩ := hbad
  have hany : frags.any (gateBad fragLen) = true :=
    List.any_eq_true.mpr ⟨f, hf, by simp [gateBad, hr]⟩
  exact decode_gate_fail env be i frags fragLen force hn hl hany

/-- reconstruct: any unacceptable header ⇒ EBADHEADER (for an in-range destination). -/
theorem reconstruct_gate (env : Env) (be : Backend) (i : Inst) (frags : List Bytes) (fragLen : Nat)
    (dest : Int) (hd : 0 ≤ dest ∧ dest < ((i.k + i.m : Nat) : Int)) (hl : 80 ≤ fragLen)
    (hbad : ∃ f ∈ frags, ¬ RefAccept f) :
    reconstruct env be i frags fragLen dest = .error (.rc (-EBADHEADER)) := by
  obtain ⟨f, hf, hr⟩ := hbad
  have hany : frags.any (gateBad fragLen) = true :=
    List.any_eq_true.mpr ⟨f, hf, by simp [gateBad, (reject_iff f).mpr hr]⟩
  exact reconstruct_gate_fail env be i frags fragLen dest hd (by simp [Hdr.size]; omega) hany

/-- reconstruct: a supplied fragment whose header announces more bytes than the declared fragment
    length holds ⇒ EBADHEADER (for an in-range destination). -/
theorem reconstruct_length_gate (env : Env) (be : Backend) (i : Inst) (frags : List Bytes) (fragLen : Nat)
    (dest : Int) (hd : 0 ≤ dest ∧ dest < ((i.k + i.m : Nat) : Int)) (hl : Hdr.size ≤ fragLen)
    (hbad : ∃ f ∈ frags, fragExceedsLength f fragLen = true) :
    reconstruct env be i frags fragLen dest = .error (.rc (-EBADHEADER)) := by
  obtain ⟨f, hf, hr⟩ := hbad
  have hany : frags.any (gateBad fragLen) = true :=
    List.any_eq_true.mpr ⟨f, hf, by simp [gateBad, hr]⟩
  exact reconstruct_gate_fail env be i frags fragLen dest hd hl hany

/-- what the length test says, in numbers: with at least a header declared, a fragment passes
    exactly when header, announced payload and announced backend metadata fit the declared length. -/
theorem fits_iff (f : Bytes) (fragLen : Nat) (hl : Hdr.size ≤ fragLen) :
    fragExceedsLength f fragLen = false ↔ Hdr.size + fSize f + fBmSize f ≤ fragLen := by
  unfold fragExceedsLength
  simp only [decide_eq_false_iff_not]
  omega

/-! ### host byte order -/

theorem partition_foldl_error (k m : Nat) (frags : List Bytes) (e : Int) :
    frags.foldl (partitionStep k m) (.error e) = .error e := by
  induction frags with
  | nil => rfl
  | cons x xs ih => simpa [List.foldl, partitionStep] using ih

/-- a fragment whose magic is not in host order makes the partition fail with EBADHEADER. -/
theorem partition_nonnative (k m : Nat) (frags : List Bytes)
    (h : ∃ f ∈ frags, fMagic f ≠ magicC) :
    getFragmentPartition k m frags = .error (-EBADHEADER) := by
  unfold getFragmentPartition
  suffices hs : ∀ (st : List (Option Bytes) × List (Option Bytes)),
      frags.foldl (partitionStep k m) (.ok st) = .error (-EBADHEADER) by
    rw [hs]
  induction frags with
  | nil => obtain ⟨f, hf, _⟩ := h; cases hf
  | cons x xs ih =>
    intro st
    obtain ⟨f, hf, hm⟩ := h
    simp only [List.foldl]
    by_cases hx : fMagic x = magicC
    · have hf' : f ∈ xs := by
        rcases List.mem_cons.mp hf with rfl | h'
        · exact absurd hx hm
        · exact h'
      cases hstep : partitionStep k m (.ok st) x with
      | ok st' => exact ih ⟨f, hf', hm⟩ st'
      | error e =>
        have he : e = -EBADHEADER := by
          unfold partitionStep at hstep
          obtain ⟨d, p⟩ := st
          simp only at hstep
          split at hstep
          · cases hstep; rfl
          · split at hstep <;> cases hstep
        rw [he]; exact partition_foldl_error k m xs _
    · have : getFragmentIdx x = -1 := by simp [getFragmentIdx, hx]
      have : partitionStep k m (.ok st) x = .error (-EBADHEADER) := by
        simp [partitionStep, this]
      rw [this]
      exact partition_foldl_error k m xs _

theorem reconstruct_host_order (env : Env) (be : Backend) (i : Inst) (frags : List Bytes) (fragLen : Nat)
    (dest : Int) (h : ∃ f ∈ frags, fMagic f ≠ magicC) :
    ∃ e, reconstruct env be i frags fragLen dest = .error (.rc e) ∧ (e = -EBADHEADER ∨ e = -EINVALIDPARAMS) := by
  unfold reconstruct
  dsimp only
  by_cases h1 : (decide (dest < 0) || decide (dest ≥ ((i.k + i.m : Nat) : Int))) = true
  · rw [if_pos h1]; exact ⟨_, rfl, Or.inr rfl⟩
  · rw [if_neg h1]
    by_cases h3 : fragLen < Hdr.size
    · rw [if_pos h3]; exact ⟨_, rfl, Or.inl rfl⟩
    · rw [if_neg h3]
      by_cases h2 : frags.any (gateBad fragLen) = true
      · rw [if_pos h2]; exact ⟨_, rfl, Or.inl rfl⟩
      · rw [if_neg h2]
        rw [partition_nonnative i.k i.m frags h]
        exact ⟨_, rfl, Or.inl rfl⟩

/-! ### host byte order: decode

  Which step of `decode` produces which code when a fragment with a non-host magic is present:
  * the scan loop of the fast path (`fragmentsToString` / `f2sStep`) visits *every* supplied
    fragment before looking at the slots, and `get_fragment_idx` answers -1 for a non-host magic, so
    the fast path can never succeed on such a list: it fails with `-EBADHEADER` (or with `-1` when
    it is skipped for backends 5 and 8, or when fewer than `k` fragments are supplied);
  * `decode` discards the code of a failed fast path and always falls through to the slow path;
  * the placement loop of `getFragmentPartition` again sees index -1 and fails with `-EBADHEADER`
    (`partition_nonnative`), which `decode` returns unchanged.
  Hence the only codes are `-EINSUFFFRAGS` (fewer than `k` fragments, checked first) and
  `-EBADHEADER`; neither the position of the foreign fragment nor duplicates matter, and the
  declared fragment length is irrelevant (a length below 80 is answered with `-EBADHEADER` too). -/

theorem f2s_foldl_error (k : Nat) (frags : List Bytes) (e : Int) :
    frags.foldl (f2sStep k) (.error e) = .error e := by
  induction frags with
  | nil => rfl
  | cons x xs ih => simpa [List.foldl, f2sStep] using ih

/-- every failure of one scan step is `-EBADHEADER`. -/
theorem f2sStep_error (k : Nat) (st : Int × List (Option Bytes)) (x : Bytes) (e : Int)
    (h : f2sStep k (.ok st) x = .error e) : e = -EBADHEADER := by
  obtain ⟨orig, slots⟩ := st
  unfold f2sStep at h
  simp only at h
  split at h
  · cases h; rfl
  · split at h
    · cases h; rfl
    · split at h
      · cases h
      · split at h <;> cases h

/-- the scan loop of the fast path fails with EBADHEADER as soon as one supplied fragment (anywhere
    in the list) does not carry the host-order magic. -/
theorem f2s_foldl_nonnative (k : Nat) (frags : List Bytes) (h : ∃ f ∈ frags, fMagic f ≠ magicC)
    (st : Int × List (Option Bytes)) :
    frags.foldl (f2sStep k) (.ok st) = .error (-EBADHEADER) := by
  induction frags generalizing st with
  | nil => obtain ⟨f, hf, _⟩ := h; cases hf
  | cons x xs ih =>
    obtain ⟨f, hf, hm⟩ := h
    simp only [List.foldl]
    by_cases hx : fMagic x = magicC
    · have hf' : f ∈ xs := by
        rcases List.mem_cons.mp hf with rfl | h'
        · exact absurd hx hm
        · exact h'
      cases hstep : f2sStep k (.ok st) x with
      | ok st' => exact ih ⟨f, hf', hm⟩ st'
      | error e =>
        rw [f2sStep_error k st x e hstep]; exact f2s_foldl_error k xs _
    · have hi : getFragmentIdx x = -1 := by simp [getFragmentIdx, hx]
      have : f2sStep k (.ok st) x = .error (-EBADHEADER) := by
        obtain ⟨orig, slots⟩ := st
        simp [f2sStep, hi]
      rw [this]
      exact f2s_foldl_error k xs _

/-- the fast path never succeeds on a list containing a non-host-order fragment: it answers
    `-EBADHEADER`, or `-1` when fewer than `k` fragments were supplied. -/
theorem fragmentsToString_nonnative (k : Nat) (frags : List Bytes)
    (h : ∃ f ∈ frags, fMagic f ≠ magicC) :
    fragmentsToString k frags = .error (if frags.length < k then -1 else -EBADHEADER) := by
  unfold fragmentsToString
  by_cases hk : frags.length < k
  · simp only [hk, if_true]
  · simp only [hk, if_false]
    rw [f2s_foldl_nonnative k frags h]

/-- the part of decode after the argument checks answers EBADHEADER whenever a non-host-order
    fragment takes part (whatever the fast path answered, the partition step fails). -/
theorem decodeTail_nonnative (env : Env) (be : Backend) (i : Inst) (frags : List Bytes) (fragLen : Nat)
    (h : ∃ f ∈ frags, fMagic f ≠ magicC) :
    decodeTail env be i frags fragLen = .error (.rc (-EBADHEADER)) := by
  have hslow : decodeSlow env be i frags fragLen = .error (.rc (-EBADHEADER)) := by
    unfold decodeSlow
    rw [partition_nonnative i.k i.m frags h]
  unfold decodeTail
  rw [fragmentsToString_nonnative i.k frags h]
  split
  · next out heq => split at heq <;> cases heq
  · exact hslow

/-- **decode, no forced checks, any arguments**: a supplied fragment whose magic is not the
    host-order magic (in particular an opposite-byte-order fragment that `isInvalidHeader`
    accepts) makes decode fail; the code is EINSUFFFRAGS when fewer than `k` fragments were
    supplied (that check comes first) and EBADHEADER otherwise.  No assumption on the declared
    fragment length, on where the foreign fragment sits, or on the other fragments. -/
theorem decode_host_order' (env : Env) (be : Backend) (i : Inst) (frags : List Bytes) (fragLen : Nat)
    (h : ∃ f ∈ frags, fMagic f ≠ magicC) :
    decode env be i frags fragLen false =
      .error (.rc (if frags.length < i.k then -EINSUFFFRAGS else -EBADHEADER)) := by
  rw [decode_unfold]
  by_cases h1 : frags.length < i.k
  · simp only [h1, if_true, failRc]
  · simp only [h1, if_false, failRc]
    by_cases h2 : fragLen < Hdr.size
    · simp only [h2, if_true]
    · simp only [h2, if_false]
      by_cases h3 : frags.any (gateBad fragLen) = true
      · simp only [h3, if_true]
      · simp only [h3, Bool.false_and, Bool.false_eq_true, if_false]
        exact decodeTail_nonnative env be i frags fragLen h

/-- **decode, no forced checks**: with at least `k` fragments supplied, one fragment that is not in
    host byte order makes decode fail with exactly EBADHEADER (the hypothesis `80 ≤ fragLen` of
    `decode_gate` is not needed here: a shorter declared length is answered with EBADHEADER too). -/
theorem decode_host_order (env : Env) (be : Backend) (i : Inst) (frags : List Bytes) (fragLen : Nat)
    (hn : i.k ≤ frags.length) (h : ∃ f ∈ frags, fMagic f ≠ magicC) :
    decode env be i frags fragLen false = .error (.rc (-EBADHEADER)) := by
  rw [decode_host_order' env be i frags fragLen h, if_neg (by omega)]

/-- forced validation rejects every fragment that is not in host byte order
    (`get_libec_version` fails on it before anything else is looked at). -/
theorem isInvalidFragment_nonnative (env : Env) (be : Backend) (i : Inst) (f : Bytes)
    (h : fMagic f ≠ magicC) : isInvalidFragment env be i f = true := by
  simp [isInvalidFragment, h]

/-- the fragments that validate are the same whether or not the non-host-order ones are removed
    first. -/
theorem filter_valid_native (env : Env) (be : Backend) (i : Inst) (frags : List Bytes) :
    (frags.filter (fun f => fMagic f == magicC)).filter (fun f => !isInvalidFragment env be i f) =
      frags.filter (fun f => !isInvalidFragment env be i f) := by
  rw [List.filter_filter]
  apply List.filter_congr
  intro f _
  by_cases hm : fMagic f = magicC
  · simp [hm]
  · simp [isInvalidFragment_nonnative env be i f hm]

/-- **decode with forced checks**: fragments that are not in host byte order are dropped silently
    instead of being reported — a forced decode (with headers that pass the header loop, at least `k` fragments
    and a declared length of at least a header) is the forced decode of the host-order fragments
    alone, and EINSUFFFRAGS when fewer than `k` of those remain.  So EBADHEADER is *not* the answer
    here: the same opposite-order fragment that makes an unforced decode fail is ignored by a forced
    one.  (`hl` and `hh` cannot be dropped: without them the left side is EBADHEADER while the right
    side may be EINSUFFFRAGS or a decode of a list from which the offending header was removed.) -/
theorem decode_host_order_forced (env : Env) (be : Backend) (i : Inst) (frags : List Bytes) (fragLen : Nat)
    (hn : i.k ≤ frags.length) (hl : 80 ≤ fragLen) (hh : frags.any (gateBad fragLen) = false) :
    decode env be i frags fragLen true =
      (if (frags.filter (fun f => fMagic f == magicC)).length < i.k
       then .error (.rc (-EINSUFFFRAGS))
       else decode env be i (frags.filter (fun f => fMagic f == magicC)) fragLen true) := by
  have hh' : (frags.filter (fun f => fMagic f == magicC)).any (gateBad fragLen) = false := by
    cases hc : (frags.filter (fun f => fMagic f == magicC)).any (gateBad fragLen) with
    | false => rfl
    | true =>
      obtain ⟨g, hg, hi⟩ := List.any_eq_true.mp hc
      have : frags.any (gateBad fragLen) = true :=
        List.any_eq_true.mpr ⟨g, (List.mem_filter.mp hg).1, hi⟩
      rw [hh] at this; cases this
  rw [decode_forced_filter env be i frags fragLen hn hl hh]
  by_cases hk : (frags.filter (fun f => fMagic f == magicC)).length < i.k
  · rw [if_pos hk, if_pos]
    have := List.length_filter_le (fun f => !isInvalidFragment env be i f)
      (frags.filter (fun f => fMagic f == magicC))
    rw [filter_valid_native] at this
    omega
  · rw [if_neg hk, decode_forced_filter env be i _ fragLen (by omega) hl hh', filter_valid_native]

/-- a forced decode never reports a non-host-order fragment: its outcome is EINSUFFFRAGS or the
    outcome of an unforced decode of fragments that are all in host byte order. -/
theorem decode_host_order_forced_cases (env : Env) (be : Backend) (i : Inst) (frags : List Bytes)
    (fragLen : Nat) (hn : i.k ≤ frags.length) (hl : 80 ≤ fragLen)
    (hh : frags.any (gateBad fragLen) = false) :
    decode env be i frags fragLen true = .error (.rc (-EINSUFFFRAGS)) ∨
    ∃ frags', (∀ f ∈ frags', f ∈ frags ∧ fMagic f = magicC) ∧ i.k ≤ frags'.length ∧
      decode env be i frags fragLen true = decode env be i frags' fragLen false := by
  rw [decode_forced_filter env be i frags fragLen hn hl hh]
  by_cases hk : (frags.filter (fun f => !isInvalidFragment env be i f)).length < i.k
  · left; rw [if_pos hk]
  · right
    refine ⟨frags.filter (fun f => !isInvalidFragment env be i f), ?_, by omega, by rw [if_neg hk]⟩
    intro f hf
    obtain ⟨hf1, hf2⟩ := List.mem_filter.mp hf
    refine ⟨hf1, ?_⟩
    apply Classical.byContradiction
    intro hm
    rw [isInvalidFragment_nonnative env be i f hm] at hf2
    cases hf2

/-! ### fresh headers -/

theorem specHeader_WF (env : Env) (i : Inst) (idx orig bs : Nat) (p : Bytes)
    (h1 : idx < 2 ^ 32) (h2 : orig < 2 ^ 64) (h3 : bs < 2 ^ 32) (h4 : i.ct < 256) (h5 : i.beId < 256)
    (h6 : i.beVer < 2 ^ 32) (h7 : env.libver < 2 ^ 32) : (specHeader env i idx orig bs p).WF where
  idx := h1
  size := h3
  bmSize := by simp [specHeader, specMeta]
  origSize := h2
  ctype := h4
  chkLen := by simp [specHeader, specMeta]
  chk := by
    intro c hc
    simp only [specHeader, specMeta, List.mem_cons, List.mem_replicate] at hc
    rcases hc with rfl | ⟨_, rfl⟩
    · split
      · exact crcWrite_lt _ _
      · decide
    · decide
  mismatch := by simp [specHeader, specMeta]
  beId := h5
  beVer := h6
  magic := by simp [specHeader, magicC]
  libver := h7
  metaCrc := crcWrite_lt _ _

/-- every header written by `add_fragment_metadata` (hence by encode and reconstruct) is accepted. -/
theorem fresh_accepted (env : Env) (i : Inst) (idx orig bs : Nat) (p : Bytes)
    (h1 : idx < 2 ^ 32) (h2 : orig < 2 ^ 64) (h3 : bs < 2 ^ 32) (h4 : i.ct < 256) (h5 : i.beId < 256)
    (h6 : i.beVer < 2 ^ 32) (h7 : env.libver < 2 ^ 32) (h8 : env.libver ≠ 0) :
    RefAccept ((specHeader env i idx orig bs p).bytes ++ p) := by
  have hw := specHeader_WF env i idx orig bs p h1 h2 h3 h4 h5 h6 h7
  have hp := parseHeader_bytes _ hw p
  have hmagic : fMagic ((specHeader env i idx orig bs p).bytes ++ p) = magicC := by
    have := congrArg Header.magic hp; simpa [parseHeader, specHeader] using this
  have hlib : fLibver ((specHeader env i idx orig bs p).bytes ++ p) = env.libver := by
    have := congrArg Header.libver hp; simpa [parseHeader, specHeader] using this
  have hcrc : fMetaCrc ((specHeader env i idx orig bs p).bytes ++ p) =
      crcWrite env.legacy (specHeader env i idx orig bs p).md.bytes := by
    have := congrArg Header.metaCrc hp; simpa [parseHeader, specHeader] using this
  have hm : ((specHeader env i idx orig bs p).bytes ++ p).take 59 = (specHeader env i idx orig bs p).md.bytes := by
    have hl : (specHeader env i idx orig bs p).md.bytes.length = 59 := meta_bytes_length _ hw.chkLen
    simp only [Header.bytes, List.append_assoc]
    rw [List.take_append_of_le_length (by omega), List.take_of_length_le (by omega)]
  refine ⟨Or.inl hmagic, by rw [hlib]; exact h8, ?_⟩
  simp only [hmagic, if_true, hcrc, hm]
  right
  unfold crcWrite
  cases env.legacy <;> simp

/-- every fragment written by `add_fragment_metadata` around a payload of `bs` bytes passes the whole
    test of the header loop of decode / reconstruct for the declared length `80 + bs`: its header is
    accepted and it announces `bs` payload bytes and no backend metadata. -/
theorem fresh_fits (env : Env) (i : Inst) (idx orig bs : Nat) (p : Bytes)
    (h1 : idx < 2 ^ 32) (h2 : orig < 2 ^ 64) (h3 : bs < 2 ^ 32) (h4 : i.ct < 256) (h5 : i.beId < 256)
    (h6 : i.beVer < 2 ^ 32) (h7 : env.libver < 2 ^ 32) (h8 : env.libver ≠ 0) :
    gateBad (Hdr.size + bs) ((specHeader env i idx orig bs p).bytes ++ p) = false :=
  fresh_gate env i idx orig bs p ⟨h1, h2, h3, h4, h5, h6, h7, h8⟩ _ (Nat.le_refl _)

/-- … and for every larger declared length. -/
theorem fresh_fits_of_le (env : Env) (i : Inst) (idx orig bs : Nat) (p : Bytes)
    (h1 : idx < 2 ^ 32) (h2 : orig < 2 ^ 64) (h3 : bs < 2 ^ 32) (h4 : i.ct < 256) (h5 : i.beId < 256)
    (h6 : i.beVer < 2 ^ 32) (h7 : env.libver < 2 ^ 32) (h8 : env.libver ≠ 0)
    (fragLen : Nat) (hl : Hdr.size + bs ≤ fragLen) :
    gateBad fragLen ((specHeader env i idx orig bs p).bytes ++ p) = false :=
  fresh_gate env i idx orig bs p ⟨h1, h2, h3, h4, h5, h6, h7, h8⟩ fragLen hl

/-- the CRC table in the C source is the table of the polynomial. -/
theorem crc_table : LecGen.crc32Tab = crcTable := by decide +kernel

/-- non-vacuity: a concrete fresh header is accepted, and flipping one metadata bit rejects it. -/
example :
    let i : Inst := { beId := 6, beVer := 0x010000, k := 2, m := 1, w := 16, ct := 2 }
    let env : Env := { libver := 0x010604, legacy := false }
    let f := (specHeader env i 1 5 4 [1, 2, 3, 4]).bytes ++ [1, 2, 3, 4]
    isInvalidHeader f = false ∧ isInvalidHeader (f.set 0 0) = true := by
  decide +kernel

/-- non-vacuity of the length test: the same fresh fragment (4 payload bytes) passes the header loop
    for a declared length of 84 and trips `fragExceedsLength` for 83, although its header is
    accepted. -/
example :
    let i : Inst := { beId := 6, beVer := 0x010000, k := 2, m := 1, w := 16, ct := 2 }
    let env : Env := { libver := 0x010604, legacy := false }
    let f := (specHeader env i 1 5 4 [1, 2, 3, 4]).bytes ++ [1, 2, 3, 4]
    gateBad 84 f = false ∧ isInvalidHeader f = false ∧ fragExceedsLength f 83 = true := by
  decide +kernel

/-- result tests for the examples (`R Bytes` has no decidable equality). -/
def isOk (r : R Bytes) (d : Bytes) : Bool := match r with | .ok o => o == d | .error _ => false
def isRc (r : R Bytes) (c : Int) : Bool := match r with | .error (.rc e) => e == c | _ => false

/-- non-vacuity of the host-order theorems: `g` is the fresh fragment `f` (k = 1, index 0, data
    `[1,2,3,4]`) with magic, library version and metadata CRC stored in the opposite byte order.
    Its header is *accepted* (so `decode_gate` says nothing about it) but its magic is not the
    host-order one.  Alone `f` decodes by the fast path; with `g` next to it — before or after —
    an unforced decode answers EBADHEADER (`decode_host_order`), a forced decode drops `g` and
    succeeds, and with only foreign fragments a forced decode answers EINSUFFFRAGS
    (`decode_host_order_forced`). -/
example :
    let i : Inst := { beId := 6, beVer := 0x010000, k := 1, m := 1, w := 32, ct := 2 }
    let env : Env := { libver := 0x010604, legacy := false }
    let f := (specHeader env i 0 4 4 [1, 2, 3, 4]).bytes ++ [1, 2, 3, 4]
    let g := setMetaCrc (setLibver (setMagic f (bswap32 magicC)) (bswap32 (fLibver f))) (bswap32 (fMetaCrc f))
    isInvalidHeader g = false ∧ fMagic g ≠ magicC ∧
    isOk (decode env nullBackend i [f] 84 false) [1, 2, 3, 4] ∧
    isRc (decode env nullBackend i [f, g] 84 false) (-EBADHEADER) ∧
    isRc (decode env nullBackend i [g, f] 84 false) (-EBADHEADER) ∧
    isOk (decode env nullBackend i [f, g] 84 true) [1, 2, 3, 4] ∧
    isRc (decode env nullBackend i [g, g] 84 true) (-EINSUFFFRAGS) ∧
    isRc (decode env nullBackend i [f] 83 false) (-EBADHEADER) ∧
    isRc (decode env nullBackend i [f] 83 true) (-EBADHEADER) ∧
    isRc (reconstruct env nullBackend i [f] 83 1) (-EBADHEADER) := by
  decide +kernel

#print axioms accept_iff
#print axioms metadata_gate
#print axioms decode_gate
#print axioms reconstruct_gate
#print axioms decode_length_gate
#print axioms reconstruct_length_gate
#print axioms fits_iff
#print axioms reconstruct_host_order
#print axioms decode_host_order'
#print axioms decode_host_order
#print axioms decode_host_order_forced
#print axioms decode_host_order_forced_cases
#print axioms fresh_accepted
#print axioms fresh_fits
#print axioms fresh_fits_of_le
#print axioms crc_table
end LecProps.C09
