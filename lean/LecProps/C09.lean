/-
  C09 — A fragment header is accepted exactly when its magic and metadata CRC are valid.

  `RefAccept`            the acceptance predicate transcribed from the property text;
  `accept_iff`           `is_invalid_fragment_header` rejects exactly the headers outside it;
  `metadata_gate`        the metadata query fails with EBADHEADER exactly on those headers and
                         succeeds on all others;
  `decode_gate`, `reconstruct_gate`
                         one unacceptable header among the supplied fragments makes decode /
                         reconstruct fail with EBADHEADER before any field is used;
  `decode_host_order`, `reconstruct_host_order`
                         an accepted header in the opposite byte order still makes decode
                         (without forced checks) and reconstruct fail with EBADHEADER;
  `fresh_accepted`       every header written by encode is accepted;
  `crc_table`            the table compiled into the C source (LecGen.CrcTable, regenerated on
                         every run) is the table of polynomial 0xEDB88320, so the table-driven
                         historical CRC of the C code is the modelled one.
  Validation never modifies the fragment: all functions are pure in the model; the harness
  compares the buffers before and after every call on the real code.
-/
import LecProofs.EncodeLemmas
import LecProofs.ParseLemmas
import LecProofs.CrcLemmas
import LecGen
namespace LecProps.C09
open Lec

/-- acceptance predicate, from the property text. -/
def RefAccept (f : Bytes) : Prop :=
  (fMagic f = magicC ∨ bswap32 (fMagic f) = magicC) ∧ fLibver f ≠ 0 ∧
  (let ver := if fMagic f = magicC then fLibver f else bswap32 (fLibver f)
   let stored := if fMagic f = magicC then fMetaCrc f else bswap32 (fMetaCrc f)
   ver < 0x010200 ∨ stored = crcStd (f.take 59) ∨ stored = crcAlt (f.take 59))

theorem accept_iff (f : Bytes) : isInvalidHeader f = false ↔ RefAccept f := by
  unfold isInvalidHeader RefAccept fMetaBytes Hdr.metaSize
  by_cases hv : fLibver f = 0
  · simp [hv]
  · by_cases hm : fMagic f = magicC
    · simp only [hv, hm, bne_self_eq_false, Bool.false_eq_true, if_false, if_true]
      by_cases h1 : fLibver f < 0x010200
      · simp [h1]
      · by_cases h2 : fMetaCrc f = crcStd (f.take 59)
        · simp [h1, h2]
        · simp [h1, h2]
    · by_cases hs : bswap32 (fMagic f) = magicC
      · simp only [hv, hm, hs, bne_self_eq_false]
        by_cases h1 : bswap32 (fLibver f) < 0x010200
        · simp [h1, hm]
        · by_cases h2 : bswap32 (fMetaCrc f) = crcStd (f.take 59)
          · simp [h1, h2, hm]
          · simp [h1, h2, hm]
      · simp [hv, hm, hs]

theorem reject_iff (f : Bytes) : isInvalidHeader f = true ↔ ¬ RefAccept f := by
  rw [← accept_iff]; cases isInvalidHeader f <;> simp

/-- the metadata query: bad header ⇔ EBADHEADER; every accepted header yields metadata. -/
theorem metadata_gate (f : Bytes) :
    (¬ RefAccept f → getFragmentMetadata f = .error (.rc (-EBADHEADER))) ∧
    (RefAccept f → ∃ md, getFragmentMetadata f = .ok md) := by
  constructor
  · intro h
    have := (reject_iff f).mpr h
    simp [getFragmentMetadata, this, failRc]
  · intro h
    have hacc := (accept_iff f).mpr h
    unfold getFragmentMetadata
    simp only [hacc, Bool.false_eq_true, if_false]
    rcases h.1 with hm | hm
    · simp only [hm, bne_self_eq_false, Bool.false_eq_true, if_false]
      split <;> exact ⟨_, rfl⟩
    · by_cases hn : fMagic f = magicC
      · simp only [hn, bne_self_eq_false, Bool.false_eq_true, if_false]
        split <;> exact ⟨_, rfl⟩
      · have : (fMagic f != magicC) = true := by simp [hn]
        simp only [this, if_true, hm, bne_self_eq_false, Bool.false_eq_true, if_false]
        split <;> exact ⟨_, rfl⟩

/-- decode: any unacceptable header ⇒ EBADHEADER (after the count and length checks). -/
theorem decode_gate (env : Env) (be : Backend) (i : Inst) (frags : List Bytes) (fragLen : Nat)
    (force : Bool) (hn : i.k ≤ frags.length) (hl : 80 ≤ fragLen)
    (hbad : ∃ f ∈ frags, ¬ RefAccept f) :
    decode env be i frags fragLen force = .error (.rc (-EBADHEADER)) := by
  obtain ⟨f, hf, hr⟩ := hbad
  have hany : frags.any isInvalidHeader = true :=
    List.any_eq_true.mpr ⟨f, hf, (reject_iff f).mpr hr⟩
  unfold decode
  simp only [show ¬ frags.length < i.k from by omega, show ¬ fragLen < Hdr.size from by simp [Hdr.size]; omega,
    hany, if_true, if_false, failRc]

/-- reconstruct: any unacceptable header ⇒ EBADHEADER (for an in-range destination). -/
theorem reconstruct_gate (env : Env) (be : Backend) (i : Inst) (frags : List Bytes) (fragLen : Nat)
    (dest : Int) (hd : 0 ≤ dest ∧ dest < ((i.k + i.m : Nat) : Int)) (hl : 80 ≤ fragLen)
    (hbad : ∃ f ∈ frags, ¬ RefAccept f) :
    reconstruct env be i frags fragLen dest = .error (.rc (-EBADHEADER)) := by
  obtain ⟨f, hf, hr⟩ := hbad
  have hany : frags.any isInvalidHeader = true :=
    List.any_eq_true.mpr ⟨f, hf, (reject_iff f).mpr hr⟩
  unfold reconstruct
  have h1 : (decide (dest < 0) || decide (dest ≥ ((i.k + i.m : Nat) : Int))) = false := by
    simp; omega
  simp only [h1, Bool.false_eq_true, if_false, hany, if_true, failRc,
    show ¬ fragLen < Hdr.size from by simp [Hdr.size]; omega]

/-! ### host byte order -/

theorem partition_foldl_error (k m : Nat) (frags : List Bytes) (e : Int) :
    frags.foldl (partitionStep k m) (.error e) = .error e := by
  induction frags with
  | nil => rfl
  | cons x xs ih => simpa [List.foldl, partitionStep] using ih

/-- a fragment whose magic is not in host order makes the partition fail with EBADHEADER. -/
theorem partition_nonnative (k m : Nat) (frags : List Bytes)
    (h : ∃ f ∈ frags, fMagic f ≠ magicC) :
    getFragmentPartition k m frags = .error (-EBADHEADER) := by
  unfold getFragmentPartition
  suffices hs : ∀ (st : List (Option Bytes) × List (Option Bytes)),
      frags.foldl (partitionStep k m) (.ok st) = .error (-EBADHEADER) by
    rw [hs]
  induction frags with
  | nil => obtain ⟨f, hf, _⟩ := h; cases hf
  | cons x xs ih =>
    intro st
    obtain ⟨f, hf, hm⟩ := h
    simp only [List.foldl]
    by_cases hx : fMagic x = magicC
    · have hf' : f ∈ xs := by
        rcases List.mem_cons.mp hf with rfl | h'
        · exact absurd hx hm
        · exact h'
      cases hstep : partitionStep k m (.ok st) x with
      | ok st' => exact ih ⟨f, hf', hm⟩ st'
      | error e =>
        have he : e = -EBADHEADER := by
          unfold partitionStep at hstep
          obtain ⟨d, p⟩ := st
          simp only at hstep
          split at hstep
          · cases hstep; rfl
          · split at hstep <;> cases hstep
        rw [he]; exact partition_foldl_error k m xs _
    · have : getFragmentIdx x = -1 := by simp [getFragmentIdx, hx]
      have : partitionStep k m (.ok st) x = .error (-EBADHEADER) := by
        simp [partitionStep, this]
      rw [this]
      exact partition_foldl_error k m xs _

theorem reconstruct_host_order (env : Env) (be : Backend) (i : Inst) (frags : List Bytes) (fragLen : Nat)
    (dest : Int) (h : ∃ f ∈ frags, fMagic f ≠ magicC) :
    ∃ e, reconstruct env be i frags fragLen dest = .error (.rc e) ∧ (e = -EBADHEADER ∨ e = -EINVALIDPARAMS) := by
  unfold reconstruct
  dsimp only
  by_cases h1 : (decide (dest < 0) || decide (dest ≥ ((i.k + i.m : Nat) : Int))) = true
  · rw [if_pos h1]; exact ⟨_, rfl, Or.inr rfl⟩
  · rw [if_neg h1]
    by_cases h3 : fragLen < Hdr.size
    · rw [if_pos h3]; exact ⟨_, rfl, Or.inl rfl⟩
    · rw [if_neg h3]
      by_cases h2 : frags.any isInvalidHeader = true
      · rw [if_pos h2]; exact ⟨_, rfl, Or.inl rfl⟩
      · rw [if_neg h2]
        rw [partition_nonnative i.k i.m frags h]
        exact ⟨_, rfl, Or.inl rfl⟩

/-! ### fresh headers -/

theorem specHeader_WF (env : Env) (i : Inst) (idx orig bs : Nat) (p : Bytes)
    (h1 : idx < 2 ^ 32) (h2 : orig < 2 ^ 64) (h3 : bs < 2 ^ 32) (h4 : i.ct < 256) (h5 : i.beId < 256)
    (h6 : i.beVer < 2 ^ 32) (h7 : env.libver < 2 ^ 32) : (specHeader env i idx orig bs p).WF where
  idx := h1
  size := h3
  bmSize := by simp [specHeader, specMeta]
  origSize := h2
  ctype := h4
  chkLen := by simp [specHeader, specMeta]
  chk := by
    intro c hc
    simp only [specHeader, specMeta, List.mem_cons, List.mem_replicate] at hc
    rcases hc with rfl | ⟨_, rfl⟩
    · split
      · exact crcWrite_lt _ _
      · decide
    · decide
  mismatch := by simp [specHeader, specMeta]
  beId := h5
  beVer := h6
  magic := by simp [specHeader, magicC]
  libver := h7
  metaCrc := crcWrite_lt _ _

/-- every header written by `add_fragment_metadata` (hence by encode and reconstruct) is accepted. -/
theorem fresh_accepted (env : Env) (i : Inst) (idx orig bs : Nat) (p : Bytes)
    (h1 : idx < 2 ^ 32) (h2 : orig < 2 ^ 64) (h3 : bs < 2 ^ 32) (h4 : i.ct < 256) (h5 : i.beId < 256)
    (h6 : i.beVer < 2 ^ 32) (h7 : env.libver < 2 ^ 32) (h8 : env.libver ≠ 0) :
    RefAccept ((specHeader env i idx orig bs p).bytes ++ p) := by
  have hw := specHeader_WF env i idx orig bs p h1 h2 h3 h4 h5 h6 h7
  have hp := parseHeader_bytes _ hw p
  have hmagic : fMagic ((specHeader env i idx orig bs p).bytes ++ p) = magicC := by
    have := congrArg Header.magic hp; simpa [parseHeader, specHeader] using this
  have hlib : fLibver ((specHeader env i idx orig bs p).bytes ++ p) = env.libver := by
    have := congrArg Header.libver hp; simpa [parseHeader, specHeader] using this
  have hcrc : fMetaCrc ((specHeader env i idx orig bs p).bytes ++ p) =
      crcWrite env.legacy (specHeader env i idx orig bs p).md.bytes := by
    have := congrArg Header.metaCrc hp; simpa [parseHeader, specHeader] using this
  have hm : ((specHeader env i idx orig bs p).bytes ++ p).take 59 = (specHeader env i idx orig bs p).md.bytes := by
    have hl : (specHeader env i idx orig bs p).md.bytes.length = 59 := meta_bytes_length _ hw.chkLen
    simp only [Header.bytes, List.append_assoc]
    rw [List.take_append_of_le_length (by omega), List.take_of_length_le (by omega)]
  refine ⟨Or.inl hmagic, by rw [hlib]; exact h8, ?_⟩
  simp only [hmagic, if_true, hcrc, hm]
  right
  unfold crcWrite
  cases env.legacy <;> simp

/-- the CRC table in the C source is the table of the polynomial. -/
theorem crc_table : LecGen.crc32Tab = crcTable := by decide +kernel

/-- non-vacuity: a concrete fresh header is accepted, and flipping one metadata bit rejects it. -/
example :
    let i : Inst := { beId := 6, beVer := 0x010000, k := 2, m := 1, w := 16, ct := 2 }
    let env : Env := { libver := 0x010604, legacy := false }
    let f := (specHeader env i 1 5 4 [1, 2, 3, 4]).bytes ++ [1, 2, 3, 4]
    isInvalidHeader f = false ∧ isInvalidHeader (f.set 0 0) = true := by
  decide +kernel

#print axioms accept_iff
#print axioms metadata_gate
#print axioms decode_gate
#print axioms reconstruct_gate
#print axioms reconstruct_host_order
#print axioms fresh_accepted
#print axioms crc_table
end LecProps.C09
