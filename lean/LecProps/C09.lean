import LecModel
import LecGen
namespace LecProps.C09
end LecProps.C09
