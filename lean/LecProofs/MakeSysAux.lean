/-
  LecProofs.MakeSysAux — array-level facts about the transliteration of
  `make_systematic_matrix` (`Lec.makeSys`, LecModel/RS.lean):

  * `forIn_range_inv`   : invariant rule for `for i in [s:n]` loops in `Id` that never
                          leave early
  * `colMult_spec`, `colMultAdd_spec`, `vandMatrix_spec`, `nonZeroDiag_self`
                        : what the helpers do to the entries `a[r*k+c]!` of a flat
                          row-major matrix with `k` columns
  * `makeSys_eq`        : `makeSys` restated with named loop bodies.
  No field theory here; `tmul` is left uninterpreted.  Everything lives in `Lec.MakeSys`.
-/
import LecModel.RS
import Mathlib.Tactic.Ring
import Mathlib.Tactic.Linarith
namespace Lec
namespace MakeSys

theorem getElem!_set! (a : Array Nat) (i j v : Nat) :
    (a.set! i v)[j]! = if i = j ∧ i < a.size then v else a[j]! := by
  simp only [Array.set!_eq_setIfInBounds, getElem!_def, Array.getElem?_setIfInBounds]
  by_cases h : i = j
  · subst h
    by_cases h2 : i < a.size
    · simp [h2]
    · simp [h2]
  · simp [h]

/-- generic invariant rule for a `for i in [s:n]` loop in `Id` that never exits early. -/
theorem forIn_range_inv {β : Type} (s n : Nat) (f : Nat → β → Id (ForInStep β))
    (Inv : Nat → β → Prop) (init : β) (hsn : s ≤ n) (h0 : Inv s init)
    (hstep : ∀ i b, s ≤ i → i < n → Inv i b → ∃ b', f i b = pure (ForInStep.yield b') ∧ Inv (i+1) b') :
    ∃ b, forIn (m := Id) [s:n] init f = pure b ∧ Inv n b := by
  rw [Std.Legacy.Range.forIn_eq_forIn_range']
  simp only [Std.Legacy.Range.size, Nat.add_sub_cancel, Nat.div_one]
  generalize hd : n - s = d
  induction d generalizing s init with
  | zero =>
    have : s = n := by omega
    subst this
    exact ⟨init, by simp, h0⟩
  | succ d ih =>
    obtain ⟨b', hb', hI⟩ := hstep s init (Nat.le_refl _) (by omega) h0
    obtain ⟨b, hb, hIb⟩ := ih (s+1) b' (by omega) hI
      (fun i b h1 h2 h3 => hstep i b (by omega) h2 h3) (by omega)
    refine ⟨b, ?_, hIb⟩
    rw [List.range'_succ, List.forIn_cons, hb']
    simpa using hb

theorem idx_inj {k r c r' c' : Nat} (hc : c < k) (hc' : c' < k) (h : r*k+c = r'*k+c') :
    r = r' ∧ c = c' := by
  rcases Nat.lt_trichotomy r r' with h1 | h1 | h1
  · have := Nat.mul_le_mul_right k (show r+1 ≤ r' from h1)
    rw [Nat.succ_mul] at this; omega
  · subst h1; omega
  · have := Nat.mul_le_mul_right k (show r'+1 ≤ r from h1)
    rw [Nat.succ_mul] at this; omega

theorem idx_lt {k n r c : Nat} (hr : r < n) (hc : c < k) : r*k+c < n*k := by
  have := Nat.mul_le_mul_right k (show r+1 ≤ n from hr)
  rw [Nat.succ_mul] at this; omega

def colMultBody (base elem col numCols : Nat) (i : Nat) (a : Array Nat) : Id (ForInStep (Array Nat)) :=
  pure (ForInStep.yield (a.set! (base + col + i * numCols) (tmul a[base + col + i * numCols]! elem)))

theorem colMult_eq (a : Array Nat) (base elem col numRows numCols : Nat) :
    colMult a base elem col numRows numCols
      = (forIn (m := Id) [0:numRows] a (colMultBody base elem col numCols)).run := rfl

theorem colMult_spec (a : Array Nat) {k n b cnt j : Nat} (e : Nat) (hj : j < k)
    (hsz : a.size = n*k) (hb : b + cnt ≤ n) :
    (colMult a (b*k) e j cnt k).size = n*k ∧
    ∀ r c, c < k → (colMult a (b*k) e j cnt k)[r*k+c]! =
      if c = j ∧ b ≤ r ∧ r < b + cnt then tmul a[r*k+c]! e else a[r*k+c]! := by
  rw [colMult_eq]
  obtain ⟨a', ha', h1, h2⟩ := forIn_range_inv 0 cnt (colMultBody (b*k) e j k)
    (fun i a' => a'.size = n*k ∧ ∀ r c, c < k → a'[r*k+c]! =
      if c = j ∧ b ≤ r ∧ r < b + i then tmul a[r*k+c]! e else a[r*k+c]!) a (Nat.zero_le _)
    ⟨hsz, fun r c hc => by rw [if_neg]; omega⟩
    (by
      intro i a' _ hi ⟨hs, hI⟩
      refine ⟨_, rfl, by rw [Array.size_set!]; exact hs, ?_⟩
      intro r c hc
      have hp : b*k + j + i*k = (b+i)*k + j := by ring
      rw [hp, getElem!_set!, hs]
      have hlt : (b+i)*k + j < n*k := idx_lt (by omega) hj
      by_cases hrc : (b+i)*k + j = r*k + c
      · obtain ⟨rfl, rfl⟩ := idx_inj hj hc hrc
        rw [if_pos ⟨rfl, hlt⟩, if_pos ⟨rfl, by omega, by omega⟩, hI _ _ hj, if_neg (by omega)]
      · rw [if_neg (fun h => hrc h.1), hI r c hc]
        by_cases hcj : c = j
        · subst hcj
          have : r ≠ b + i := fun h => hrc (by rw [h])
          by_cases h3 : b ≤ r ∧ r < b + i
          · rw [if_pos ⟨rfl, h3⟩, if_pos ⟨rfl, h3.1, by omega⟩]
          · rw [if_neg (fun h => h3 h.2), if_neg (fun h => h3 ⟨h.2.1, by omega⟩)]
        · rw [if_neg (fun h => hcj h.1), if_neg (fun h => hcj h.1)])
  rw [ha']
  exact ⟨h1, h2⟩


/-! ### `colMultAdd` -/

def colMultAddBody (elem fromCol toCol numCols : Nat) (i : Nat) (a : Array Nat) :
    Id (ForInStep (Array Nat)) :=
  pure (ForInStep.yield (a.set! (toCol + i * numCols)
    (a[toCol + i * numCols]! ^^^ tmul a[fromCol + i * numCols]! elem)))

theorem colMultAdd_eq (a : Array Nat) (elem fromCol toCol numRows numCols : Nat) :
    colMultAdd a elem fromCol toCol numRows numCols
      = (forIn (m := Id) [0:numRows] a (colMultAddBody elem fromCol toCol numCols)).run := rfl

theorem colMultAdd_spec (a : Array Nat) {k n f t : Nat} (e : Nat) (hf : f < k) (ht : t < k)
    (hft : f ≠ t) (hsz : a.size = n*k) :
    (colMultAdd a e f t n k).size = n*k ∧
    ∀ r c, c < k → (colMultAdd a e f t n k)[r*k+c]! =
      if c = t ∧ r < n then a[r*k+t]! ^^^ tmul a[r*k+f]! e else a[r*k+c]! := by
  rw [colMultAdd_eq]
  obtain ⟨a', ha', h1, h2⟩ := forIn_range_inv 0 n (colMultAddBody e f t k)
    (fun i a' => a'.size = n*k ∧ ∀ r c, c < k → a'[r*k+c]! =
      if c = t ∧ r < i then a[r*k+t]! ^^^ tmul a[r*k+f]! e else a[r*k+c]!) a (Nat.zero_le _)
    ⟨hsz, fun r c hc => by rw [if_neg]; omega⟩
    (by
      intro i a' _ hi ⟨hs, hI⟩
      refine ⟨_, rfl, by rw [Array.size_set!]; exact hs, ?_⟩
      intro r c hc
      have hp : t + i*k = i*k + t := by ring
      have hq : f + i*k = i*k + f := by ring
      rw [hp, hq, getElem!_set!, hs]
      have hlt : i*k + t < n*k := idx_lt hi ht
      by_cases hrc : i*k + t = r*k + c
      · obtain ⟨rfl, rfl⟩ := idx_inj ht hc hrc
        rw [if_pos ⟨rfl, hlt⟩, if_pos ⟨rfl, by omega⟩, hI _ _ ht, if_neg (by omega),
          hI _ _ hf, if_neg (fun h => hft h.1)]
      · rw [if_neg (fun h => hrc h.1), hI r c hc]
        by_cases hct : c = t
        · subst hct
          have : r ≠ i := fun h => hrc (by rw [h])
          by_cases h3 : r < i
          · rw [if_pos ⟨rfl, h3⟩, if_pos ⟨rfl, by omega⟩]
          · rw [if_neg (fun h => h3 h.2), if_neg (fun h => h3 (by omega))]
        · rw [if_neg (fun h => hct h.1), if_neg (fun h => hct h.1)])
  rw [ha']
  exact ⟨h1, h2⟩

/-! ### `get_non_zero_diagonal` -/

theorem nonZeroDiag_self (a : Array Nat) {i rows cols : Nat} (hi : i < rows)
    (h : a[i * cols + i]! ≠ 0) : nonZeroDiag a i rows cols = some i := by
  unfold nonZeroDiag
  obtain ⟨d, hd⟩ : ∃ d, rows - i = d + 1 := ⟨rows - i - 1, by omega⟩
  have hb : (a[i * cols + i]! != 0) = true := by simpa using h
  rw [hd, List.range_succ_eq_map, List.map_cons, List.find?_cons, Nat.zero_add, hb]

/-! ### the Vandermonde start -/

/-- `x^j` computed as the C loop does. -/
def tpow (x : Nat) : Nat → Nat
  | 0 => 1
  | j+1 => tmul (tpow x j) x

def vandInner (k i : Nat) (j : Nat) (s : Array Nat × Nat) : Id (ForInStep (Array Nat × Nat)) :=
  pure (ForInStep.yield (s.1.set! (i * k + j) s.2, tmul s.2 i))

def vandOuter (k : Nat) (i : Nat) (a : Array Nat) : Id (ForInStep (Array Nat)) := do
  let s ← forIn (m := Id) [0:k] (a, 1) (vandInner k i)
  pure (ForInStep.yield s.1)

theorem vandMatrix_eq (k m : Nat) :
    vandMatrix k m =
      (forIn (m := Id) [1:k+m] ((Array.replicate ((k+m)*k) 0).set! 0 1) (vandOuter k)).run := rfl

theorem getElem!_replicate_zero (n i : Nat) : (Array.replicate n 0)[i]! = 0 := by
  simp only [getElem!_def, Array.getElem?_replicate]
  by_cases h : i < n
  · rw [if_pos h]
  · rw [if_neg h]; rfl

theorem vandRow_spec (a : Array Nat) {k n i : Nat} (hi : i < n) (hsz : a.size = n*k) :
    ∃ a', vandOuter k i a = pure (ForInStep.yield a') ∧ a'.size = n*k ∧
      ∀ r c, c < k → a'[r*k+c]! = if r = i then tpow i c else a[r*k+c]! := by
  obtain ⟨s, hs, h1, h2, h3⟩ := forIn_range_inv 0 k (vandInner k i)
    (fun j s => s.1.size = n*k ∧ s.2 = tpow i j ∧ ∀ r c, c < k → s.1[r*k+c]! =
      if r = i ∧ c < j then tpow i c else a[r*k+c]!) (a, 1) (Nat.zero_le _)
    ⟨hsz, rfl, fun r c hc => by rw [if_neg]; omega⟩
    (by
      intro j s _ hj ⟨hs, hacc, hI⟩
      refine ⟨_, rfl, by dsimp only; rw [Array.size_set!]; exact hs, by dsimp only; rw [hacc]; rfl, ?_⟩
      intro r c hc
      dsimp only
      rw [getElem!_set!, hs]
      have hlt : i*k + j < n*k := idx_lt hi hj
      by_cases hrc : i*k + j = r*k + c
      · obtain ⟨rfl, rfl⟩ := idx_inj hj hc hrc
        rw [if_pos ⟨rfl, hlt⟩, if_pos ⟨rfl, by omega⟩, hacc]
      · rw [if_neg (fun h => hrc h.1), hI r c hc]
        by_cases hri : r = i
        · subst hri
          have : c ≠ j := fun h => hrc (by rw [h])
          by_cases h3 : c < j
          · rw [if_pos ⟨rfl, h3⟩, if_pos ⟨rfl, by omega⟩]
          · rw [if_neg (fun h => h3 h.2), if_neg (fun h => h3 (by omega))]
        · rw [if_neg (fun h => hri h.1), if_neg (fun h => hri h.1)])
  refine ⟨s.1, ?_, h1, ?_⟩
  · unfold vandOuter
    rw [hs]; rfl
  · intro r c hc
    rw [h3 r c hc]
    by_cases hri : r = i
    · rw [if_pos ⟨hri, hc⟩, if_pos hri]
    · rw [if_neg (fun h => hri h.1), if_neg hri]

theorem vandMatrix_spec {k m : Nat} (hk : 1 ≤ k) :
    (vandMatrix k m).size = (k+m)*k ∧
    ∀ r c, r < k + m → c < k → (vandMatrix k m)[r*k+c]! =
      if r = 0 then (if c = 0 then 1 else 0) else tpow r c := by
  rw [vandMatrix_eq]
  have hsz0 : ((Array.replicate ((k+m)*k) 0).set! 0 1).size = (k+m)*k := by
    rw [Array.size_set!, Array.size_replicate]
  obtain ⟨a', ha', h1, h2⟩ := forIn_range_inv 1 (k+m) (vandOuter k)
    (fun i a' => a'.size = (k+m)*k ∧ ∀ r c, c < k → a'[r*k+c]! =
      if 1 ≤ r ∧ r < i then tpow r c else ((Array.replicate ((k+m)*k) 0).set! 0 1)[r*k+c]!)
    _ (by omega) ⟨hsz0, fun r c hc => by rw [if_neg]; omega⟩
    (by
      intro i a' h1i hi ⟨hs, hI⟩
      obtain ⟨a'', e1, e2, e3⟩ := vandRow_spec a' hi hs
      refine ⟨a'', e1, e2, ?_⟩
      intro r c hc
      rw [e3 r c hc]
      by_cases hri : r = i
      · subst hri
        rw [if_pos rfl, if_pos ⟨h1i, by omega⟩]
      · rw [if_neg hri, hI r c hc]
        by_cases h3 : 1 ≤ r ∧ r < i
        · rw [if_pos h3, if_pos ⟨h3.1, by omega⟩]
        · rw [if_neg h3, if_neg (fun h => h3 ⟨h.1, by omega⟩)])
  rw [ha']
  refine ⟨h1, ?_⟩
  intro r c hr hc
  show a'[r*k+c]! = _
  rw [h2 r c hc]
  by_cases hr0 : r = 0
  · subst hr0
    rw [if_neg (by omega), if_pos rfl, getElem!_set!, Array.size_replicate, getElem!_replicate_zero]
    have hpos : 0 < (k+m)*k := Nat.mul_pos (by omega) (by omega)
    by_cases hc0 : c = 0
    · subst hc0; simp [hpos]
    · rw [if_neg (by omega), if_neg hc0]
  · rw [if_pos ⟨by omega, hr⟩, if_neg hr0]

/-! ### `makeSys` with named loop bodies -/

abbrev MsState := Option (Option (Array Nat)) × Array Nat

def msInnerBody (k m i : Nat) (j : Nat) (a : Array Nat) : Id (ForInStep (Array Nat)) :=
  if (i != j && a[i * k + j]! != 0) = true then
    pure (ForInStep.yield (colMultAdd a a[i * k + j]! i j (k + m) k))
  else pure (ForInStep.yield a)

def msElim (k m i : Nat) (a : Array Nat) : Id (ForInStep MsState) := do
  let s ← forIn (m := Id) [0:k] a (msInnerBody k m i)
  pure (ForInStep.yield (none, s))

def msScale (k m i : Nat) (a : Array Nat) : Id (ForInStep MsState) :=
  if (a[k * i + i]! != 1) = true then
    match tdiv 1 a[k * i + i]! with
    | none => pure (ForInStep.done (some none, a))
    | some inv => msElim k m i (colMult a 0 inv i (k + m) k)
  else msElim k m i a

def msOuterBody (k m : Nat) (i : Nat) (s : MsState) : Id (ForInStep MsState) :=
  match nonZeroDiag s.2 i (k + m) k with
  | none => pure (ForInStep.done (some none, s.2))
  | some next =>
    if (next != i) = true then msScale k m i (swapRows s.2 next i k) else msScale k m i s.2

def msFinalBody (k m : Nat) (i : Nat) (s : MsState) : Id (ForInStep MsState) :=
  if (s.2[k * k + i]! != 1) = true then
    match tdiv 1 s.2[k * k + i]! with
    | none => pure (ForInStep.done (some none, s.2))
    | some inv => pure (ForInStep.yield (none, colMult s.2 (k * k) inv i (k + m - k) k))
  else pure (ForInStep.yield (none, s.2))

def msFinish (k m : Nat) (s : MsState) : Id (Option (Array Nat)) :=
  match s.1 with
  | some r => pure r
  | none =>
    if m = 0 then pure (some s.2)
    else do
      let s' ← forIn (m := Id) [0:k] ((none, s.2) : MsState) (msFinalBody k m)
      match s'.1 with
      | some r => pure r
      | none => pure (some s'.2)

theorem makeSys_eq (k m : Nat) :
    makeSys k m = (do
      let s ← forIn (m := Id) [1:k] ((none, vandMatrix k m) : MsState) (msOuterBody k m)
      msFinish k m s).run := by
  simp only [makeSys]
  congr 1
  congr 1
  funext s
  unfold msFinish
  rcases s with ⟨s1, s2⟩
  cases s1 with
  | some r => rfl
  | none =>
    dsimp only
    split
    · rfl
    · congr 1
      funext s'
      rcases s' with ⟨_ | _, _⟩ <;> rfl

end MakeSys
end Lec
