/-
  LecProofs.Instances — the side conditions of the front-end theorems for instances that
  `liberasurecode_instance_create` returns (k ≥ 1, k+m ≤ 32, word size a whole number of bytes),
  and existence of the encode result for the Reed–Solomon backend.
-/
import LecProofs.FrontendCorrect
import LecProofs.RSBackend
namespace Lec

/-- the instance record `create` returns for liberasurecode_rs_vand. -/
def rsInst (k m ct : Nat) : Inst := { beId := 6, beVer := 0x010000, k := k, m := m, w := 16, ct := ct }

theorem blockSize_eq (i : Inst) (len : Nat) (hk : 0 < i.k) :
    blockSize i len = (len + i.k * (i.w / 8) - 1) / (i.k * (i.w / 8)) * (i.w / 8) := by
  unfold blockSize alignedSize alignedSizeW
  simp only
  generalize (len + i.k * (i.w / 8) - 1) / (i.k * (i.w / 8)) = q
  rw [show q * (i.k * (i.w / 8)) = i.k * (q * (i.w / 8)) by rw [Nat.mul_left_comm]]
  exact Nat.mul_div_cancel_left _ hk

theorem blockSize_even (i : Inst) (len : Nat) (hk : 0 < i.k) (hw : i.w = 16) : blockSize i len % 2 = 0 := by
  rw [blockSize_eq i len hk, hw]
  simp [Nat.mul_mod_left]

theorem blockSize_le (i : Inst) (len : Nat) (hk : 0 < i.k) (hw : 8 ≤ i.w) (hw2 : i.w ≤ 64) :
    blockSize i len ≤ len + 8 := by
  rw [blockSize_eq i len hk]
  have he : 0 < i.w / 8 := Nat.div_pos hw (by decide)
  have he8 : i.w / 8 ≤ 8 := by omega
  generalize i.w / 8 = e at he he8
  have ham : 0 < i.k * e := Nat.mul_pos hk he
  have h1 : (len + i.k * e - 1) / (i.k * e) * (i.k * e) ≤ len + i.k * e - 1 := Nat.div_mul_le_self _ _
  generalize (len + i.k * e - 1) / (i.k * e) = q at h1
  -- q * (k e) ≤ len + k e - 1, k ≥ 1  ⟹  q * e ≤ len + e
  have h2 : q * e * i.k ≤ len + i.k * e - 1 := by
    rw [Nat.mul_assoc, Nat.mul_comm e i.k]; exact h1
  have h3 : q * e ≤ q * e * i.k := Nat.le_mul_of_pos_right _ hk
  by_cases hq : q * e ≤ len + e
  · omega
  · exfalso
    have h4 : (len + e + 1) * i.k ≤ q * e * i.k := Nat.mul_le_mul_right _ (by omega)
    have h5 : (len + e + 1) * i.k = len * i.k + e * i.k + i.k := by
      rw [Nat.add_mul, Nat.add_mul, Nat.one_mul]
    have h6 : len ≤ len * i.k := Nat.le_mul_of_pos_right _ hk
    rw [Nat.mul_comm e i.k] at h5
    omega

/-- FrontOK for any instance with the fields `create` produces and **every** input length the guard
    of `encode` lets through. -/
theorem frontOK_of_created_guard (env : Env) (i : Inst) (len : Nat) (hk : 0 < i.k) (hkm : i.k + i.m ≤ 32)
    (hw : 8 ≤ i.w) (hw2 : i.w ≤ 64) (hct : i.ct < 256) (hbe : i.beId < 256) (hbv : i.beVer < 2 ^ 32)
    (hlv : env.libver < 2 ^ 32) (hl0 : env.libver ≠ 0) (hg : encodeTooLarge i len = false) :
    FrontOK env i len where
  kpos := hk
  km := by omega
  ct := hct
  beId := hbe
  beVer := hbv
  libver := hlv
  libver0 := hl0
  len31 := encodeTooLarge_false_lt hg
  bs31 := by
    have := blockSize_le i len hk hw hw2
    have h2 := (encodeTooLarge_false_iff_created i len hk (by omega) hw hw2).1 hg
    omega
  cover := cover_of_w i len hk hw

/-- FrontOK for any instance with the fields `create` produces. -/
-- (the pre-guard form; a corollary of `frontOK_of_created_guard` via `encodeTooLarge_false_of_created`)
theorem frontOK_of_created (env : Env) (i : Inst) (len : Nat) (hk : 0 < i.k) (hkm : i.k + i.m ≤ 32)
    (hw : 8 ≤ i.w) (hw2 : i.w ≤ 64) (hct : i.ct < 256) (hbe : i.beId < 256) (hbv : i.beVer < 2 ^ 32)
    (hlv : env.libver < 2 ^ 32) (hl0 : env.libver ≠ 0) (hlen : len < 2 ^ 31 - 2 ^ 12) :
    FrontOK env i len where
  kpos := hk
  km := by omega
  ct := hct
  beId := hbe
  beVer := hbv
  libver := hlv
  libver0 := hl0
  len31 := by omega
  bs31 := by have := blockSize_le i len hk hw hw2; omega
  cover := cover_of_w i len hk hw

theorem rs_frontOK (env : Env) (k m ct len : Nat) (hk : 1 ≤ k) (hkm : k + m ≤ 32) (hct : ct < 256)
    (hlv : env.libver < 2 ^ 32) (hl0 : env.libver ≠ 0) (hlen : len < 2 ^ 31 - 2 ^ 12) :
    FrontOK env (rsInst k m ct) len :=
  frontOK_of_created env (rsInst k m ct) len hk hkm (by simp [rsInst]) (by simp [rsInst]) hct
    (by simp [rsInst]) (by simp [rsInst]) hlv hl0 hlen

theorem rs_frontOK_guard (env : Env) (k m ct len : Nat) (hk : 1 ≤ k) (hkm : k + m ≤ 32) (hct : ct < 256)
    (hlv : env.libver < 2 ^ 32) (hl0 : env.libver ≠ 0) (hg : encodeTooLarge (rsInst k m ct) len = false) :
    FrontOK env (rsInst k m ct) len :=
  frontOK_of_created_guard env (rsInst k m ct) len hk hkm (by simp [rsInst]) (by simp [rsInst]) hct
    (by simp [rsInst]) (by simp [rsInst]) hlv hl0 hg

theorem rs_guard_of_small (k m ct len : Nat) (hk : 1 ≤ k) (hkm : k + m ≤ 32) (hlen : len < 2 ^ 31 - 2 ^ 12) :
    encodeTooLarge (rsInst k m ct) len = false :=
  encodeTooLarge_false_of_created (rsInst k m ct) len hk (by simp only [rsInst]; omega) (by simp [rsInst])
    (by simp [rsInst]) hlen

/-- the front end's encode succeeds whenever the guard lets the input through and the backend's encode
    operation succeeds. -/
theorem encode_ok_of_backend (env : Env) (be : Backend) (i : Inst) (data : Bytes) (dp pp : List Bytes)
    (hg : encodeTooLarge i data.length = false)
    (h : be.encode (splitLoop i.k (blockSize i data.length) data)
          (List.replicate i.m (zeros (blockSize i data.length))) (blockSize i data.length) = .ok (dp, pp)) :
    ∃ enc, encode env be i data = .ok enc := by
  unfold encode
  rw [if_neg (by rw [hg]; exact Bool.false_ne_true)]
  unfold blockSize at h
  simp only [bind, Except.bind, h]
  exact ⟨_, rfl⟩

theorem rs_encode_exists (env : Env) (k m ct : Nat) (hk : 1 ≤ k) (hkm : k + m ≤ 32) (data : Bytes)
    (hg : encodeTooLarge (rsInst k m ct) data.length = false) :
    ∃ enc, encode env (rsBackend (genEntry k) k m) (rsInst k m ct) data = .ok enc := by
  have hbs := blockSize_even (rsInst k m ct) data.length hk rfl
  obtain ⟨parP, hs, _⟩ := rs_isStripe (k := k) (m := m) (by omega) hbs
    (splitLoop k (blockSize (rsInst k m ct) data.length) data) (splitLoop_length _ _ _)
    (splitLoop_elem_length _ _ _)
  exact encode_ok_of_backend env _ (rsInst k m ct) data _ parP hg hs.enc

end Lec

namespace Lec

/-- the instance record `create` returns for flat_xor_hd. -/
def xorInst (k m ct : Nat) : Inst := { beId := 3, beVer := 0x010000, k := k, m := m, w := 32, ct := ct }

theorem xorShape_bounds {k m hd : Nat} (h : xorShapeOK k m hd = true) : 3 ≤ k ∧ k + m ≤ 26 ∧ 3 ≤ hd ∧ hd ≤ 4 := by
  unfold xorShapeOK at h
  simp only [Bool.or_eq_true, Bool.and_eq_true, beq_iff_eq, decide_eq_true_eq] at h
  omega

theorem xor_frontOK (env : Env) (k m hd ct len : Nat) (hs : xorShapeOK k m hd = true) (hct : ct < 256)
    (hlv : env.libver < 2 ^ 32) (hl0 : env.libver ≠ 0) (hlen : len < 2 ^ 31 - 2 ^ 12) :
    FrontOK env (xorInst k m ct) len := by
  have hb := xorShape_bounds hs
  exact frontOK_of_created env (xorInst k m ct) len (by simp [xorInst]; omega) (by simp [xorInst]; omega)
    (by simp [xorInst]) (by simp [xorInst]) hct (by simp [xorInst]) (by simp [xorInst]) hlv hl0 hlen

theorem xor_frontOK_guard (env : Env) (k m hd ct len : Nat) (hs : xorShapeOK k m hd = true) (hct : ct < 256)
    (hlv : env.libver < 2 ^ 32) (hl0 : env.libver ≠ 0) (hg : encodeTooLarge (xorInst k m ct) len = false) :
    FrontOK env (xorInst k m ct) len := by
  have hb := xorShape_bounds hs
  exact frontOK_of_created_guard env (xorInst k m ct) len (by simp [xorInst]; omega) (by simp [xorInst]; omega)
    (by simp [xorInst]) (by simp [xorInst]) hct (by simp [xorInst]) (by simp [xorInst]) hlv hl0 hg

theorem xor_guard_of_small (k m hd ct len : Nat) (hs : xorShapeOK k m hd = true) (hlen : len < 2 ^ 31 - 2 ^ 12) :
    encodeTooLarge (xorInst k m ct) len = false := by
  have hb := xorShape_bounds hs
  exact encodeTooLarge_false_of_created (xorInst k m ct) len (by simp only [xorInst]; omega)
    (by simp only [xorInst]; omega) (by simp [xorInst]) (by simp [xorInst]) hlen

end Lec
