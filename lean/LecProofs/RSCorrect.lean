/-
  LecProofs.RSCorrect — Reed–Solomon encode / decode on even-length payloads.

  * `regionDot_even`   : on even, equally long buffers `regionDot` never fails and its
                          16-bit words are `dst_w + Σ_j row_j · src_j,w` in `GF16`.
  * `rsEncode_spec`    : parity word `w` of parity `i` is `Σ_j G[k+i][j] · data_j,w`.
  * `rsDecode_correct` : erasing at most `m` buffers and decoding returns the originals.
-/
import LecModel.RS
import LecProofs.GF16Field
import LecProofs.MDS
import LecProofs.GaussJordan
open Finset

namespace Lec

/-! ### bytes and 16-bit words -/

theorem getD_eq_getElem' {α : Type} {l : List α} {d : α} {n : Nat} (h : n < l.length) :
    l.getD n d = l[n] := (List.getElem_eq_getD d).symm

theorem word_lt (a b : UInt8) : a.toNat + 256 * b.toNat < 2^16 := by
  have := a.toNat_lt; have := b.toNat_lt; omega

theorem wordsOf_cons2 (a b : UInt8) (rest : Bytes) :
    wordsOf (a :: b :: rest) = (a.toNat + 256 * b.toNat) :: wordsOf rest := rfl

theorem wordsOf_length : ∀ (b : Bytes), (wordsOf b).length = b.length / 2
  | [] => by simp [wordsOf]
  | [_] => by simp [wordsOf]
  | a :: b :: rest => by
    rw [wordsOf_cons2, List.length_cons, wordsOf_length rest]
    simp only [List.length_cons]; omega

theorem wordsOf_lt : ∀ (b : Bytes), ∀ w ∈ wordsOf b, w < 2^16
  | [], w, h => by simp [wordsOf] at h
  | [_], w, h => by simp [wordsOf] at h
  | a :: b :: rest, w, h => by
    rw [wordsOf_cons2, List.mem_cons] at h
    rcases h with rfl | h
    · exact word_lt a b
    · exact wordsOf_lt rest w h

theorem bytesOfWords_length : ∀ (ws : List Nat), (bytesOfWords ws).length = 2 * ws.length
  | [] => rfl
  | w :: ws => by
    simp only [bytesOfWords, List.length_cons, bytesOfWords_length ws]; omega

theorem bytesOfWords_wordsOf : ∀ (b : Bytes), b.length % 2 = 0 → bytesOfWords (wordsOf b) = b
  | [], _ => rfl
  | [_], h => by simp at h
  | a :: b :: rest, h => by
    have hr : rest.length % 2 = 0 := by simp only [List.length_cons] at h; omega
    rw [wordsOf_cons2, bytesOfWords, bytesOfWords_wordsOf rest hr]
    have ha := a.toNat_lt; have hb := b.toNat_lt
    have h1 : (a.toNat + 256 * b.toNat) % 256 = a.toNat := by omega
    have h2 : (a.toNat + 256 * b.toNat) / 256 % 256 = b.toNat := by omega
    rw [h1, h2, UInt8.ofNat_toNat, UInt8.ofNat_toNat]

theorem wordsOf_bytesOfWords : ∀ (ws : List Nat), (∀ w ∈ ws, w < 2^16) →
    wordsOf (bytesOfWords ws) = ws
  | [], _ => rfl
  | w :: ws, h => by
    have hw : w < 2^16 := h w (by simp)
    rw [bytesOfWords, wordsOf_cons2, wordsOf_bytesOfWords ws (fun x hx => h x (by simp [hx]))]
    congr 1
    simp only [UInt8.toNat_ofNat']
    omega

theorem xor_word {x y u v : Nat} (hx : x < 2^8) (hy : y < 2^8) :
    (x + 256 * u) ^^^ (y + 256 * v) = (x ^^^ y) + 256 * (u ^^^ v) := by
  have hxy : x ^^^ y < 2^8 := Nat.xor_lt_two_pow hx hy
  have e : ∀ a b : Nat, a + 256 * b = 2^8 * b + a := by intro a b; omega
  rw [e, e, e]
  apply Nat.eq_of_testBit_eq
  intro i
  rw [Nat.testBit_xor, Nat.testBit_two_pow_mul_add _ hx, Nat.testBit_two_pow_mul_add _ hy,
    Nat.testBit_two_pow_mul_add _ hxy]
  split
  · rw [Nat.testBit_xor]
  · rw [Nat.testBit_xor]

theorem wordsOf_xorBytes : ∀ (a b : Bytes),
    wordsOf (xorBytes a b) = List.zipWith (· ^^^ ·) (wordsOf a) (wordsOf b)
  | [], _ => by simp [xorBytes, wordsOf]
  | [_], [] => by simp [xorBytes, wordsOf]
  | [_], [_] => by simp [xorBytes, wordsOf]
  | [_], _ :: _ :: _ => by simp [xorBytes, wordsOf]
  | _ :: _ :: _, [] => by simp [xorBytes, wordsOf]
  | _ :: _ :: _, [_] => by simp [xorBytes, wordsOf]
  | a0 :: a1 :: ra, b0 :: b1 :: rb => by
    have ih := wordsOf_xorBytes ra rb
    simp only [xorBytes] at ih
    simp only [xorBytes, List.zipWith_cons_cons, wordsOf_cons2, ih, UInt8.toNat_xor]
    rw [xor_word a0.toNat_lt b0.toNat_lt]

theorem xorBytes_length (a b : Bytes) : (xorBytes a b).length = min a.length b.length := by
  simp [xorBytes]

/-! ### `regionMulXor`, `regionDot` on even buffers -/

/-- word-level multiply-accumulate. -/
def mulXorW (sw dw : List Nat) (mult : Nat) : List Nat :=
  List.zipWith (fun s d => d ^^^ gmul s mult) sw dw

/-- one step of `regionDot`. -/
def dotStep (acc : Bytes) (p : Bytes × Nat) : Option Bytes :=
  if p.2 = 1 then some (xorBytes p.1 acc) else regionMulXor p.1 acc p.2

theorem regionDot_eq (srcs : List Bytes) (row : List Nat) (dst : Bytes) :
    regionDot srcs row dst = (List.zip srcs row).foldlM dotStep dst := rfl

theorem mulXorW_length (sw dw : List Nat) (mult : Nat) :
    (mulXorW sw dw mult).length = min sw.length dw.length := by
  simp [mulXorW]

theorem mulXorW_lt {sw dw : List Nat} {mult : Nat} (hs : ∀ x ∈ sw, x < 2^16)
    (hd : ∀ x ∈ dw, x < 2^16) (hm : mult < 2^16) : ∀ x ∈ mulXorW sw dw mult, x < 2^16 := by
  intro x hx
  unfold mulXorW at hx
  rw [List.mem_iff_getElem] at hx
  obtain ⟨i, hi, rfl⟩ := hx
  rw [List.getElem_zipWith]
  simp only [List.length_zipWith] at hi
  exact xor_lt16 (hd _ (List.getElem_mem _)) (gmul_lt (hs _ (List.getElem_mem _)) hm)

theorem regionMulXor_even {src dst : Bytes} (mult : Nat) (hs : src.length % 2 = 0)
    (hd : dst.length = src.length) :
    regionMulXor src dst mult = some (bytesOfWords (mulXorW (wordsOf src) (wordsOf dst) mult)) := by
  unfold regionMulXor
  simp only [hs, Nat.sub_zero, if_true]
  rw [List.take_length, ← hd, List.take_length]
  rfl

/-- one step on even equally long buffers. -/
theorem dotStep_even {src acc : Bytes} {mult : Nat} (hs : src.length % 2 = 0)
    (hd : acc.length = src.length) (hm : mult < 2^16) :
    ∃ out, dotStep acc (src, mult) = some out ∧ out.length = src.length ∧
      wordsOf out = mulXorW (wordsOf src) (wordsOf acc) mult := by
  unfold dotStep
  by_cases h1 : mult = 1
  · subst h1
    refine ⟨xorBytes src acc, by simp, by rw [xorBytes_length, hd]; simp, ?_⟩
    rw [wordsOf_xorBytes]
    unfold mulXorW
    apply List.ext_getElem
    · simp
    · intro i h1 h2
      rw [List.getElem_zipWith, List.getElem_zipWith,
        gmul_one (wordsOf_lt src _ (List.getElem_mem _)), Nat.xor_comm]
  · simp only [h1, if_false]
    rw [regionMulXor_even mult hs hd]
    have hlt := mulXorW_lt (wordsOf_lt src) (wordsOf_lt acc) hm
    refine ⟨_, rfl, ?_, wordsOf_bytesOfWords _ hlt⟩
    rw [bytesOfWords_length, mulXorW_length, wordsOf_length, wordsOf_length, hd]
    omega

/-- word-level dot product. -/
def dotW (srcws : List (List Nat)) (row : List Nat) (dw : List Nat) : List Nat :=
  (List.zip srcws row).foldl (fun acc p => mulXorW p.1 acc p.2) dw

theorem regionDot_even {n : Nat} (hn : n % 2 = 0) :
    ∀ (srcs : List Bytes) (row : List Nat) (dst : Bytes),
      (∀ s ∈ srcs, s.length = n) → dst.length = n → (∀ x ∈ row, x < 2^16) →
      ∃ out, regionDot srcs row dst = some out ∧ out.length = n ∧
        wordsOf out = dotW (srcs.map wordsOf) row (wordsOf dst) := by
  intro srcs
  induction srcs with
  | nil => intro row dst _ hd _; exact ⟨dst, by simp [regionDot_eq], hd, by simp [dotW]⟩
  | cons s srcs ih =>
    intro row dst hs hd hrow
    cases row with
    | nil => exact ⟨dst, by simp [regionDot_eq], hd, by simp [dotW]⟩
    | cons x row =>
      have hsl : s.length = n := hs s (by simp)
      obtain ⟨o1, ho1, hl1, hw1⟩ := dotStep_even (src := s) (acc := dst) (mult := x)
        (by rw [hsl]; exact hn) (by rw [hd, hsl]) (hrow x (by simp))
      obtain ⟨out, ho, hl, hw⟩ := ih row o1 (fun s' hs' => hs s' (by simp [hs']))
        (by rw [hl1, hsl]) (fun y hy => hrow y (by simp [hy]))
      refine ⟨out, ?_, hl, ?_⟩
      · rw [regionDot_eq, List.zip_cons_cons, List.foldlM_cons, ho1]
        exact ho
      · rw [hw, hw1]
        simp [dotW]

/-- value of word `w` of a word list as a field element. -/
def wordAt (ws : List Nat) (w : Nat) : GF16 := GF16.ofNat (ws.getD w 0)

theorem mulXorW_getElem {sw dw : List Nat} {mult w : Nat} (h : w < (mulXorW sw dw mult).length)
    (h1 : w < sw.length) (h2 : w < dw.length) :
    (mulXorW sw dw mult)[w] = dw[w] ^^^ gmul sw[w] mult := by
  simp [mulXorW]

theorem mulXorW_wordAt {sw dw : List Nat} {mult : Nat} {L : Nat} (hsl : sw.length = L)
    (hdl : dw.length = L) (hs : ∀ x ∈ sw, x < 2^16) (hd : ∀ x ∈ dw, x < 2^16) (hm : mult < 2^16)
    {w : Nat} (hw : w < L) :
    wordAt (mulXorW sw dw mult) w = wordAt dw w + wordAt sw w * GF16.ofNat mult := by
  have h1 : w < sw.length := by omega
  have h2 : w < dw.length := by omega
  have h3 : w < (mulXorW sw dw mult).length := by rw [mulXorW_length]; omega
  unfold wordAt
  rw [getD_eq_getElem' h1, getD_eq_getElem' h2, getD_eq_getElem' h3]
  rw [mulXorW_getElem h3 h1 h2]
  have hsw := hs _ (List.getElem_mem h1)
  have hdw := hd _ (List.getElem_mem h2)
  rw [GF16.ofNat_xor hdw (gmul_lt hsw hm), GF16.ofNat_gmul hsw hm]

theorem dotW_spec {L : Nat} : ∀ (srcws : List (List Nat)) (row : List Nat) (dw : List Nat),
    (∀ s ∈ srcws, s.length = L ∧ ∀ x ∈ s, x < 2^16) → dw.length = L → (∀ x ∈ dw, x < 2^16) →
    (∀ x ∈ row, x < 2^16) → row.length = srcws.length →
    (dotW srcws row dw).length = L ∧ (∀ x ∈ dotW srcws row dw, x < 2^16) ∧
    ∀ w < L, wordAt (dotW srcws row dw) w =
      wordAt dw w + ∑ j ∈ range srcws.length, wordAt (srcws.getD j []) w * GF16.ofNat (row.getD j 0) := by
  intro srcws
  induction srcws with
  | nil =>
    intro row dw _ hdl hd _ _
    exact ⟨by simpa [dotW] using hdl, by simpa [dotW] using hd, by intro w _; simp [dotW]⟩
  | cons s srcws ih =>
    intro row dw hs hdl hd hrow hlen
    cases row with
    | nil => simp at hlen
    | cons x row =>
      obtain ⟨hsl, hsb⟩ := hs s (by simp)
      have hx : x < 2^16 := hrow x (by simp)
      have h1l : (mulXorW s dw x).length = L := by rw [mulXorW_length, hsl, hdl]; simp
      have h1b := mulXorW_lt hsb hd hx
      obtain ⟨r1, r2, r3⟩ := ih row (mulXorW s dw x) (fun s' hs' => hs s' (by simp [hs'])) h1l h1b
        (fun y hy => hrow y (by simp [hy])) (by simpa using hlen)
      have hunf : dotW (s :: srcws) (x :: row) dw = dotW srcws row (mulXorW s dw x) := by
        simp [dotW]
      rw [hunf]
      refine ⟨r1, r2, ?_⟩
      intro w hw
      rw [r3 w hw, mulXorW_wordAt hsl hdl hsb hd hx hw, List.length_cons, Finset.sum_range_succ']
      simp only [List.getD_cons_succ, List.getD_cons_zero]
      ring

/-! ### small list facts -/

theorem mapM_some_of_forall {α β : Type} (f : α → Option β) (g : α → β) :
    ∀ l : List α, (∀ a ∈ l, f a = some (g a)) → l.mapM f = some (l.map g) := by
  intro l
  induction l with
  | nil => intro _; rfl
  | cons a l ih =>
    intro h
    rw [List.mapM_cons, h a (by simp), ih (fun b hb => h b (by simp [hb]))]
    rfl

theorem mapM_congr' {α β : Type} (f g : α → Option β) :
    ∀ l : List α, (∀ a ∈ l, f a = g a) → l.mapM f = l.mapM g := by
  intro l
  induction l with
  | nil => intro _; rfl
  | cons a l ih =>
    intro h
    rw [List.mapM_cons, List.mapM_cons, h a (by simp), ih (fun b hb => h b (by simp [hb]))]

theorem map_getD_range {α : Type} (l : List α) (d : α) :
    (List.range l.length).map (fun i => l.getD i d) = l := by
  apply List.ext_getElem
  · simp
  · intro i h1 h2
    simp [List.getElem?_eq_getElem h2]

theorem rs_getD_map' {α β : Type} (f : α → β) (l : List α) (d : α) (d' : β) {i : Nat}
    (h : i < l.length) : (l.map f).getD i d' = f (l.getD i d) := by
  rw [getD_eq_getElem' (by simpa using h), getD_eq_getElem' h, List.getElem_map]

theorem length_le_filter_ne_add_one (y : Nat) : ∀ (L : List Nat), L.Nodup →
    L.length ≤ (L.filter (fun i => i != y)).length + 1 := by
  intro L
  induction L with
  | nil => intro _; simp
  | cons x L ih =>
    intro hnd
    obtain ⟨hx, hL⟩ := List.nodup_cons.mp hnd
    by_cases hxy : x = y
    · subst hxy
      have : L.filter (fun i => i != x) = L := by
        rw [List.filter_eq_self]
        intro a ha
        have : a ≠ x := fun h => hx (h ▸ ha)
        simpa using this
      simp [this]
    · have := ih hL
      simp [hxy]
      omega

theorem length_le_filter_not_contains (ms : List Nat) : ∀ (l : List Nat), l.Nodup →
    l.length ≤ (l.filter (fun i => !ms.contains i)).length + ms.length := by
  induction ms with
  | nil => intro l _; simp
  | cons y ms ih =>
    intro l hnd
    have hsplit : l.filter (fun i => !(y :: ms).contains i) =
        (l.filter (fun i => !ms.contains i)).filter (fun i => i != y) := by
      rw [List.filter_filter]
      apply List.filter_congr
      intro a _
      simp only [List.contains_cons, Bool.not_or, bne]
    rw [hsplit]
    have h1 := ih l hnd
    have h2 := length_le_filter_ne_add_one y (l.filter (fun i => !ms.contains i))
      (hnd.filter _)
    simp only [List.length_cons]
    omega

/-! ### buffers from words -/

theorem wordsOf_zeros : ∀ n, wordsOf (zeros n) = List.replicate (n / 2) 0
  | 0 => by simp [zeros, wordsOf]
  | 1 => by simp [zeros, wordsOf]
  | n + 2 => by
    have h : zeros (n + 2) = 0 :: 0 :: zeros n := by simp [zeros, List.replicate_succ]
    have h2 : (n + 2) / 2 = n / 2 + 1 := by omega
    rw [h, wordsOf_cons2, wordsOf_zeros n, h2, List.replicate_succ]
    simp

theorem wordAt_zeros (n w : Nat) : wordAt (wordsOf (zeros n)) w = 0 := by
  rw [wordsOf_zeros]
  unfold wordAt
  have : (List.replicate (n / 2) 0).getD w 0 = 0 := by
    rw [List.getD_eq_getElem?_getD, List.getElem?_replicate]
    split <;> rfl
  rw [this]; rfl

theorem eq_of_wordAt {a b : Bytes} {n : Nat} (hn : n % 2 = 0) (ha : a.length = n)
    (hb : b.length = n) (h : ∀ w < n / 2, wordAt (wordsOf a) w = wordAt (wordsOf b) w) :
    a = b := by
  have hw : wordsOf a = wordsOf b := by
    apply List.ext_getElem
    · rw [wordsOf_length, wordsOf_length, ha, hb]
    · intro i h1 h2
      have hi : i < n / 2 := by rw [wordsOf_length, ha] at h1; exact h1
      have := h i hi
      unfold wordAt at this
      rw [getD_eq_getElem' h1, getD_eq_getElem' h2] at this
      exact GF16.ofNat_inj (wordsOf_lt a _ (List.getElem_mem h1))
        (wordsOf_lt b _ (List.getElem_mem h2)) this
  rw [← bytesOfWords_wordsOf a (by rw [ha]; exact hn), hw,
    bytesOfWords_wordsOf b (by rw [hb]; exact hn)]

theorem getD_map_wordsOf (srcs : List Bytes) (j : Nat) :
    (srcs.map wordsOf).getD j [] = wordsOf (srcs.getD j []) := by
  rw [List.getD_eq_getElem?_getD, List.getD_eq_getElem?_getD, List.getElem?_map]
  cases srcs[j]? <;> simp [wordsOf]

/-- `regionDot` in field terms. -/
theorem regionDot_field {n : Nat} (hn : n % 2 = 0) (srcs : List Bytes) (row : List Nat)
    (dst : Bytes) (hs : ∀ s ∈ srcs, s.length = n) (hd : dst.length = n)
    (hrow : ∀ x ∈ row, x < 2^16) (hlen : row.length = srcs.length) :
    ∃ out, regionDot srcs row dst = some out ∧ out.length = n ∧
      ∀ w < n / 2, wordAt (wordsOf out) w = wordAt (wordsOf dst) w +
        ∑ j ∈ range srcs.length, wordAt (wordsOf (srcs.getD j [])) w * GF16.ofNat (row.getD j 0) := by
  obtain ⟨out, ho, hl, hw⟩ := regionDot_even hn srcs row dst hs hd hrow
  refine ⟨out, ho, hl, ?_⟩
  intro w hwlt
  have hspec := dotW_spec (L := n / 2) (srcs.map wordsOf) row (wordsOf dst)
    (by intro s hs'
        obtain ⟨b, hb, rfl⟩ := List.mem_map.mp hs'
        exact ⟨by rw [wordsOf_length, hs b hb], wordsOf_lt b⟩)
    (by rw [wordsOf_length, hd]) (wordsOf_lt dst) hrow (by simpa using hlen)
  rw [hw, hspec.2.2 w hwlt, List.length_map]
  congr 1
  apply Finset.sum_congr rfl
  intro j _
  rw [getD_map_wordsOf]

/-! ### encode -/

theorem genRow_length (G : Nat → Nat → Nat) (k r : Nat) : (genRow G k r).length = k := by
  simp [genRow]

theorem genRow_getD (G : Nat → Nat → Nat) {k j : Nat} (r : Nat) (hj : j < k) :
    (genRow G k r).getD j 0 = G r j := by
  unfold genRow
  rw [getD_eq_getElem' (by simpa using hj)]
  simp

theorem genRow_lt {k m r : Nat} (hkm : k + m ≤ 65536) (hr : r < k + m) :
    ∀ x ∈ genRow (genEntry k) k r, x < 2^16 := by
  intro x hx
  unfold genRow at hx
  obtain ⟨j, _, rfl⟩ := List.mem_map.mp hx
  exact genEntry_lt hkm hr

/-- parity buffer `i` computed from scratch. -/
def parityOf (k : Nat) (data : List Bytes) (bs i : Nat) : Option Bytes :=
  regionDot data (genRow (genEntry k) k (k + i)) (zeros bs)

theorem onPrefix_exact {b : Bytes} {bs : Nat} (hb : b.length = bs) (f : Bytes → Option Bytes) :
    onPrefix b bs f = f b := by
  unfold onPrefix
  rw [if_neg (by omega), ← hb, List.take_length, List.drop_length]
  cases f b <;> simp

theorem map_take_eq {data : List Bytes} {bs : Nat} (hdb : ∀ b ∈ data, b.length = bs) :
    data.map (·.take bs) = data := by
  conv_rhs => rw [← List.map_id data]
  apply List.map_congr_left
  intro b hb
  rw [← hdb b hb, List.take_length]; rfl

theorem any_short_false {data : List Bytes} {bs : Nat} (hdb : ∀ b ∈ data, b.length = bs) :
    data.any (·.length < bs) = false := by
  rw [List.any_eq_false]
  intro b hb
  simp [hdb b hb]

theorem rsEncode_eq {k m bs : Nat} (data parity0 : List Bytes)
    (hdb : ∀ b ∈ data, b.length = bs) (hp0 : ∀ i < m, (parity0.getD i []).length = bs) :
    rsEncode (genEntry k) k m data parity0 bs = (List.range m).mapM (parityOf k data bs) := by
  unfold rsEncode
  rw [any_short_false hdb, map_take_eq hdb]
  simp only [Bool.false_eq_true, if_false]
  apply mapM_congr'
  intro i hi
  rw [onPrefix_exact (hp0 i (by simpa using hi))]
  rfl

/-- the parity buffers exist, have the block size and satisfy the generator equations. -/
theorem parityOf_spec {k m bs : Nat} (hkm : k + m ≤ 65536) (hbs : bs % 2 = 0) (data : List Bytes)
    (hdl : data.length = k) (hdb : ∀ b ∈ data, b.length = bs) {i : Nat} (hi : i < m) :
    ∃ p, parityOf k data bs i = some p ∧ p.length = bs ∧
      ∀ w < bs / 2, wordAt (wordsOf p) w =
        ∑ j ∈ range k, GF16.ofNat (genEntry k (k + i) j) * wordAt (wordsOf (data.getD j [])) w := by
  obtain ⟨p, hp, hl, hw⟩ := regionDot_field hbs data (genRow (genEntry k) k (k + i)) (zeros bs)
    hdb (by simp [zeros]) (genRow_lt hkm (by omega)) (by rw [genRow_length, hdl])
  refine ⟨p, hp, hl, ?_⟩
  intro w hwlt
  rw [hw w hwlt, wordAt_zeros, zero_add, hdl]
  apply Finset.sum_congr rfl
  intro j hj
  rw [genRow_getD _ _ (by simpa using hj), mul_comm]

/-- (4a) `rsEncode`: parity word `w` of parity `i` is `Σ_j G[k+i][j] · data_j,w`. -/
theorem rsEncode_spec {k m bs : Nat} (hkm : k + m ≤ 65536) (hbs : bs % 2 = 0)
    (data parity0 : List Bytes) (hdl : data.length = k) (hdb : ∀ b ∈ data, b.length = bs)
    (hp0 : ∀ i < m, (parity0.getD i []).length = bs) :
    ∃ P, rsEncode (genEntry k) k m data parity0 bs = some P ∧ P.length = m ∧
      ∀ i < m, parityOf k data bs i = some (P.getD i []) ∧ (P.getD i []).length = bs ∧
        ∀ w < bs / 2, wordAt (wordsOf (P.getD i [])) w =
          ∑ j ∈ range k, GF16.ofNat (genEntry k (k + i) j) * wordAt (wordsOf (data.getD j [])) w := by
  rw [rsEncode_eq data parity0 hdb hp0]
  have hall : ∀ i ∈ List.range m,
      parityOf k data bs i = some ((fun i => (parityOf k data bs i).getD []) i) := by
    intro i hi
    obtain ⟨p, hp, _, _⟩ := parityOf_spec hkm hbs data hdl hdb (i := i) (by simpa using hi)
    show parityOf k data bs i = some ((parityOf k data bs i).getD [])
    rw [hp]; rfl
  refine ⟨_, mapM_some_of_forall _ _ _ hall, by simp, ?_⟩
  intro i hi
  obtain ⟨p, hp, hl, hw⟩ := parityOf_spec hkm hbs data hdl hdb hi
  have hget : ((List.range m).map (fun i => (parityOf k data bs i).getD [])).getD i [] = p := by
    rw [rs_getD_map' _ _ 0 _ (by simpa using hi), getD_eq_getElem' (by simpa using hi)]
    simp [hp]
  rw [hget]
  exact ⟨hp, hl, hw⟩

/-! ### the decoding plan -/

/-- the first `k` available fragment indexes. -/
def availOf (k m : Nat) (missing : List Nat) : List Nat :=
  ((List.range (k + m)).filter (fun i => !missing.contains i)).take k

theorem availOf_length {k m : Nat} {missing : List Nat} (hlen : missing.length ≤ m) :
    (availOf k m missing).length = k := by
  unfold availOf
  rw [List.length_take]
  have := length_le_filter_not_contains missing (List.range (k + m)) List.nodup_range
  simp only [List.length_range] at this
  omega

theorem availOf_mem {k m r : Nat} {missing : List Nat} (hr : r ∈ availOf k m missing) :
    r < k + m ∧ missing.contains r = false := by
  have := List.mem_of_mem_take hr
  rw [List.mem_filter] at this
  simpa using this

theorem availOf_nodup (k m : Nat) (missing : List Nat) : (availOf k m missing).Nodup :=
  List.Nodup.sublist (List.take_sublist _ _) (List.nodup_range.filter _)

theorem rsPlan_eq (G : Nat → Nat → Nat) (k m : Nat) (missing : List Nat) :
    rsPlan G k m missing =
      if (availOf k m missing).length < k then none
      else (gaussj (matOfRows ((availOf k m missing).map (genRow G k)))).map
        fun inv => { avail := availOf k m missing, inv } := rfl

theorem toMatrix_matOfRows {k : Nat} (avail : List Nat) (hl : avail.length = k) :
    toMatrix (matOfRows (n := k) (avail.map (genRow (genEntry k) k))) =
      genMatrix k (fun a => avail.getD a 0) := by
  funext a b
  show GF16.ofNat ((matOfRows (n := k) (avail.map (genRow (genEntry k) k))).get a b) =
    GF16.ofNat (genEntry k (avail.getD a 0) b)
  simp only [matOfRows, Mat.get_ofFn]
  rw [rs_getD_map' _ _ 0 _ (by rw [hl]; exact a.isLt), genRow_getD _ _ b.isLt]

theorem matOfRows_bounded {k m : Nat} (hkm : k + m ≤ 65536) (avail : List Nat)
    (hl : avail.length = k) (hlt : ∀ r ∈ avail, r < k + m) :
    (matOfRows (n := k) (avail.map (genRow (genEntry k) k))).Bounded := by
  intro a b
  simp only [matOfRows, Mat.get_ofFn]
  have ha : a.val < avail.length := by rw [hl]; exact a.isLt
  rw [rs_getD_map' _ _ 0 _ ha, genRow_getD _ _ b.isLt]
  apply genEntry_lt hkm
  rw [getD_eq_getElem' ha]
  exact hlt _ (List.getElem_mem ha)

theorem rsPlan_spec {k m : Nat} (hkm : k + m ≤ 65536) (missing : List Nat)
    (hlen : missing.length ≤ m) :
    ∃ N : Mat k, rsPlan (genEntry k) k m missing = some ⟨availOf k m missing, N⟩ ∧ N.Bounded ∧
      toMatrix N * genMatrix k (fun a => (availOf k m missing).getD a 0) = 1 := by
  have hl := availOf_length (k := k) hlen
  have hlt : ∀ r ∈ availOf k m missing, r < k + m := fun r hr => (availOf_mem hr).1
  have hb := matOfRows_bounded hkm _ hl hlt
  have hinj : Function.Injective (fun a : Fin k => (availOf k m missing).getD a 0) := by
    intro a b hab
    have ha : a.val < (availOf k m missing).length := by rw [hl]; exact a.isLt
    have hb' : b.val < (availOf k m missing).length := by rw [hl]; exact b.isLt
    simp only [getD_eq_getElem' ha, getD_eq_getElem' hb'] at hab
    exact Fin.ext ((availOf_nodup k m missing).getElem_inj_iff.mp hab)
  have hdet : (toMatrix (matOfRows (n := k) ((availOf k m missing).map (genRow (genEntry k) k)))).det
      ≠ 0 := by
    rw [toMatrix_matOfRows _ hl]
    apply genMatrix_det_ne_zero hkm _ hinj
    intro a
    have ha : a.val < (availOf k m missing).length := by rw [hl]; exact a.isLt
    rw [getD_eq_getElem' ha]
    exact hlt _ (List.getElem_mem ha)
  obtain ⟨N, hN, hNb, hNmul⟩ := gaussj_complete hb hdet
  refine ⟨N, ?_, hNb, ?_⟩
  · rw [rsPlan_eq, if_neg (by omega), hN]; rfl
  · rw [← toMatrix_matOfRows _ hl]; exact hNmul

theorem matRow_length {k : Nat} (N : Mat k) {i : Nat} (_hi : i < k) : (matRow N i).length = k := by
  unfold matRow
  simp

theorem matRow_getD {k : Nat} (N : Mat k) {i a : Nat} (hi : i < k) (ha : a < k) :
    (matRow N i).getD a 0 = N.get ⟨i, hi⟩ ⟨a, ha⟩ := by
  unfold matRow Mat.get
  have h1 : i < N.toList.length := by simpa using hi
  rw [getD_eq_getElem' h1, getD_eq_getElem' (by simpa using ha)]
  simp

theorem matRow_lt {k : Nat} {N : Mat k} (hN : N.Bounded) {i : Nat} (hi : i < k) :
    ∀ x ∈ matRow N i, x < 2^16 := by
  intro x hx
  obtain ⟨a, ha, rfl⟩ := List.mem_iff_getElem.mp hx
  have ha' : a < k := by rwa [matRow_length N hi] at ha
  rw [← getD_eq_getElem' (d := 0) ha, matRow_getD N hi ha']
  exact hN _ _

/-! ### stripes -/

/-- a consistent stripe: `k` data buffers of `bs` bytes and their `m` parity buffers. -/
structure Stripe (k m bs : Nat) (data parity : List Bytes) : Prop where
  hkm : k + m ≤ 65536
  hbs : bs % 2 = 0
  hdl : data.length = k
  hdb : ∀ b ∈ data, b.length = bs
  hpl : parity.length = m
  hpar : ∀ i < m, parityOf k data bs i = some (parity.getD i [])

theorem Stripe.of_encode {k m bs : Nat} (hkm : k + m ≤ 65536) (hbs : bs % 2 = 0)
    {data parity0 parity : List Bytes} (hdl : data.length = k) (hdb : ∀ b ∈ data, b.length = bs)
    (hp0 : ∀ i < m, (parity0.getD i []).length = bs)
    (henc : rsEncode (genEntry k) k m data parity0 bs = some parity) :
    Stripe k m bs data parity := by
  obtain ⟨P, hP, hPl, hPs⟩ := rsEncode_spec hkm hbs data parity0 hdl hdb hp0
  rw [hP, Option.some.injEq] at henc
  subst henc
  exact ⟨hkm, hbs, hdl, hdb, hPl, fun i hi => (hPs i hi).1⟩

theorem Stripe.parity_length {k m bs : Nat} {data parity : List Bytes}
    (st : Stripe k m bs data parity) {i : Nat} (hi : i < m) : (parity.getD i []).length = bs := by
  obtain ⟨p, hp, hl, _⟩ := parityOf_spec st.hkm st.hbs data st.hdl st.hdb hi
  rw [st.hpar i hi, Option.some.injEq] at hp
  rw [hp]; exact hl

theorem Stripe.data_length {k m bs : Nat} {data parity : List Bytes}
    (st : Stripe k m bs data parity) {i : Nat} (hi : i < k) : (data.getD i []).length = bs := by
  have h : i < data.length := by rw [st.hdl]; exact hi
  rw [getD_eq_getElem' h]
  exact st.hdb _ (List.getElem_mem h)

theorem Stripe.bufAt_length {k m bs : Nat} {data parity : List Bytes}
    (st : Stripe k m bs data parity) {r : Nat} (hr : r < k + m) :
    (bufAt data parity k r).length = bs := by
  unfold bufAt
  split
  · rename_i h; exact st.data_length h
  · exact st.parity_length (by omega)

/-- every code symbol is the generator row applied to the data words. -/
theorem Stripe.symbol_eq {k m bs : Nat} {data parity : List Bytes}
    (st : Stripe k m bs data parity) {r : Nat} (hr : r < k + m) {w : Nat} (hw : w < bs / 2) :
    wordAt (wordsOf (bufAt data parity k r)) w =
      ∑ j ∈ range k, GF16.ofNat (genEntry k r j) * wordAt (wordsOf (data.getD j [])) w := by
  unfold bufAt
  by_cases hrk : r < k
  · rw [if_pos hrk]
    have hterm : ∀ j ∈ range k, GF16.ofNat (genEntry k r j) * wordAt (wordsOf (data.getD j [])) w
        = if r = j then wordAt (wordsOf (data.getD j [])) w else 0 := by
      intro j _
      rw [genEntry_systematic _ hrk]
      split <;> simp
    rw [Finset.sum_congr rfl hterm, Finset.sum_ite_eq, if_pos (by simpa using hrk)]
  · rw [if_neg hrk]
    obtain ⟨p, hp, _, hpw⟩ := parityOf_spec st.hkm st.hbs data st.hdl st.hdb
      (i := r - k) (by omega)
    rw [st.hpar (r - k) (by omega), Option.some.injEq] at hp
    rw [hp, hpw w hw]
    have : k + (r - k) = r := by omega
    rw [this]

/-! ### decode -/

/-- the data array handed to the decoder: missing buffers zeroed. -/
def eraseData (data : List Bytes) (missing : List Nat) (k bs : Nat) : List Bytes :=
  (List.range k).map fun i => if missing.contains i then zeros bs else data.getD i []

/-- the parity array handed to the decoder: missing buffers zeroed. -/
def eraseParity (parity : List Bytes) (missing : List Nat) (k m bs : Nat) : List Bytes :=
  (List.range m).map fun i => if missing.contains (k + i) then zeros bs else parity.getD i []

theorem eraseData_getD (data : List Bytes) (missing : List Nat) {k i : Nat} (bs : Nat)
    (hi : i < k) : (eraseData data missing k bs).getD i [] =
      if missing.contains i then zeros bs else data.getD i [] := by
  unfold eraseData
  rw [rs_getD_map' _ _ 0 _ (by simpa using hi), getD_eq_getElem' (by simpa using hi)]
  simp

theorem eraseParity_getD (parity : List Bytes) (missing : List Nat) {m i : Nat} (k bs : Nat)
    (hi : i < m) : (eraseParity parity missing k m bs).getD i [] =
      if missing.contains (k + i) then zeros bs else parity.getD i [] := by
  unfold eraseParity
  rw [rs_getD_map' _ _ 0 _ (by simpa using hi), getD_eq_getElem' (by simpa using hi)]
  simp

theorem bufAt_erase (data parity : List Bytes) (missing : List Nat) {k m r : Nat} (bs : Nat)
    (hr : r < k + m) (hm : missing.contains r = false) :
    bufAt (eraseData data missing k bs) (eraseParity parity missing k m bs) k r =
      bufAt data parity k r := by
  unfold bufAt
  split
  · rename_i h
    rw [eraseData_getD _ _ _ h, hm]; rfl
  · rename_i h
    have h2 : k + (r - k) = r := by omega
    rw [eraseParity_getD _ _ _ _ (by omega : r - k < m), h2, hm]; rfl

/-- data reconstruction loop of `rsDecode`. -/
def decData {k : Nat} (srcs : List Bytes) (inv : Mat k) (data : List Bytes) (missing : List Nat)
    (bs : Nat) : Option (List Bytes) :=
  (List.range k).mapM fun i =>
    if missing.contains i then onPrefix (data.getD i []) bs (regionDot srcs (matRow inv i))
    else some (data.getD i [])

/-- parity rebuild loop of `rsDecode`. -/
def decParity (G : Nat → Nat → Nat) (k m : Nat) (data' parity : List Bytes) (missing : List Nat)
    (bs : Nat) : Option (List Bytes) :=
  (List.range m).mapM fun i =>
    if missing.contains (k + i) then
      onPrefix (parity.getD i []) bs (regionDot (data'.map (·.take bs)) (genRow G k (k + i)))
    else some (parity.getD i [])

theorem rsDecode_unfold (G : Nat → Nat → Nat) (k m : Nat) (data parity : List Bytes)
    (missing : List Nat) (bs : Nat) :
    rsDecode G k m data parity missing bs =
      if missing.length > m then some (data, parity) else
      match rsPlan G k m missing with
      | none => none
      | some pl =>
        if pl.avail.any (fun i => (bufAt data parity k i).length < bs) then none else
        match decData (pl.avail.map fun i => (bufAt data parity k i).take bs) pl.inv data missing bs
          with
        | none => none
        | some data' =>
          if data'.any (·.length < bs) then none else
          (decParity G k m data' parity missing bs).map fun p => (data', p) := rfl

/-- `N * G = 1` recovers the data symbol from the `k` available code symbols. -/
theorem decode_algebra {k : Nat} (Nm Gm : Matrix (Fin k) (Fin k) GF16) (h : Nm * Gm = 1)
    (d : Fin k → GF16) (i : Fin k) : ∑ a, (∑ j, Gm a j * d j) * Nm i a = d i := by
  have h1 : ∀ a, (∑ j, Gm a j * d j) * Nm i a = ∑ j, Nm i a * Gm a j * d j := by
    intro a
    rw [Finset.sum_mul]
    apply Finset.sum_congr rfl
    intro j _; ring
  simp_rw [h1]
  rw [Finset.sum_comm]
  have h2 : ∀ j, ∑ a, Nm i a * Gm a j * d j = (Nm * Gm) i j * d j := by
    intro j
    rw [Matrix.mul_apply, Finset.sum_mul]
  simp_rw [h2, h, Matrix.one_apply]
  simp

theorem decData_correct {k m bs : Nat} {data parity : List Bytes} (st : Stripe k m bs data parity)
    (missing : List Nat) (hlen : missing.length ≤ m) {N : Mat k} (hNb : N.Bounded)
    (hN : toMatrix N * genMatrix k (fun a => (availOf k m missing).getD a 0) = 1) :
    decData ((availOf k m missing).map (bufAt data parity k)) N (eraseData data missing k bs)
      missing bs = some data := by
  have hal := availOf_length (k := k) hlen
  have hget : (List.range k).map (fun i => data.getD i []) = data := by
    have := map_getD_range data []
    rwa [st.hdl] at this
  unfold decData
  rw [show some data = some ((List.range k).map (fun i => data.getD i [])) by rw [hget]]
  apply mapM_some_of_forall
  intro i hi
  have hik : i < k := by simpa using hi
  rw [eraseData_getD _ _ _ hik]
  by_cases hc : missing.contains i = true
  · rw [if_pos hc, if_pos hc, onPrefix_exact (by simp [zeros])]
    obtain ⟨out, ho, hl, hw⟩ := regionDot_field st.hbs
      ((availOf k m missing).map (bufAt data parity k)) (matRow N i) (zeros bs)
      (by intro s hs
          obtain ⟨r, hr, rfl⟩ := List.mem_map.mp hs
          exact st.bufAt_length (availOf_mem hr).1)
      (by simp [zeros]) (matRow_lt hNb hik) (by rw [matRow_length N hik, List.length_map, hal])
    rw [ho]
    congr 1
    apply eq_of_wordAt st.hbs hl (st.data_length hik)
    intro w hwlt
    rw [hw w hwlt, wordAt_zeros, zero_add, List.length_map, hal, Finset.sum_range]
    have hterm : ∀ a : Fin k,
        wordAt (wordsOf (((availOf k m missing).map (bufAt data parity k)).getD a [])) w *
          GF16.ofNat ((matRow N i).getD a 0) =
        (∑ j : Fin k, genMatrix k (fun a => (availOf k m missing).getD a 0) a j *
          wordAt (wordsOf (data.getD j [])) w) * toMatrix N ⟨i, hik⟩ a := by
      intro a
      have ha : a.val < (availOf k m missing).length := by rw [hal]; exact a.isLt
      rw [rs_getD_map' _ _ 0 _ ha, matRow_getD N hik a.isLt]
      have hr : (availOf k m missing).getD a 0 < k + m := by
        rw [getD_eq_getElem' ha]
        exact (availOf_mem (List.getElem_mem ha)).1
      rw [st.symbol_eq hr hwlt, Finset.sum_range]
      rfl
    rw [Finset.sum_congr rfl (fun a _ => hterm a)]
    exact decode_algebra _ _ hN (fun j => wordAt (wordsOf (data.getD j [])) w) ⟨i, hik⟩
  · rw [if_neg hc, if_neg hc]

theorem decParity_correct {k m bs : Nat} {data parity : List Bytes}
    (st : Stripe k m bs data parity) (missing : List Nat) :
    decParity (genEntry k) k m data (eraseParity parity missing k m bs) missing bs
      = some parity := by
  have hget : (List.range m).map (fun i => parity.getD i []) = parity := by
    have := map_getD_range parity []
    rwa [st.hpl] at this
  unfold decParity
  rw [show some parity = some ((List.range m).map (fun i => parity.getD i [])) by rw [hget]]
  apply mapM_some_of_forall
  intro i hi
  have him : i < m := by simpa using hi
  rw [eraseParity_getD _ _ _ _ him]
  by_cases hc : missing.contains (k + i) = true
  · rw [if_pos hc, if_pos hc, onPrefix_exact (by simp [zeros]), map_take_eq st.hdb]
    exact st.hpar i him
  · rw [if_neg hc, if_neg hc]

/-- (4b) decode correctness on a consistent stripe. -/
theorem Stripe.rsDecode_correct {k m bs : Nat} {data parity : List Bytes}
    (st : Stripe k m bs data parity) (missing : List Nat) (hlen : missing.length ≤ m) :
    rsDecode (genEntry k) k m (eraseData data missing k bs) (eraseParity parity missing k m bs)
      missing bs = some (data, parity) := by
  obtain ⟨N, hplan, hNb, hN⟩ := rsPlan_spec st.hkm missing hlen
  have hsrcs : (availOf k m missing).map (fun i =>
      (bufAt (eraseData data missing k bs) (eraseParity parity missing k m bs) k i).take bs) =
      (availOf k m missing).map (bufAt data parity k) := by
    apply List.map_congr_left
    intro r hr
    obtain ⟨h1, h2⟩ := availOf_mem hr
    rw [bufAt_erase _ _ _ _ h1 h2, ← st.bufAt_length h1, List.take_length]
  have hany : (availOf k m missing).any (fun i =>
      (bufAt (eraseData data missing k bs) (eraseParity parity missing k m bs) k i).length < bs)
      = false := by
    rw [List.any_eq_false]
    intro r hr
    obtain ⟨h1, h2⟩ := availOf_mem hr
    rw [bufAt_erase _ _ _ _ h1 h2, st.bufAt_length h1]
    simp
  rw [rsDecode_unfold, if_neg (by omega), hplan]
  simp only [hany, hsrcs, Bool.false_eq_true, if_false]
  rw [decData_correct st missing hlen hNb hN]
  simp only [any_short_false st.hdb, Bool.false_eq_true, if_false]
  rw [decParity_correct st missing]
  rfl

/-- (4b) decode correctness: encode, erase at most `m` buffers, decode. -/
theorem rsDecode_correct {k m bs : Nat} (hkm : k + m ≤ 65536) (hbs : bs % 2 = 0)
    (data parity0 parity : List Bytes) (hdl : data.length = k) (hdb : ∀ b ∈ data, b.length = bs)
    (hp0 : ∀ i < m, (parity0.getD i []).length = bs)
    (henc : rsEncode (genEntry k) k m data parity0 bs = some parity)
    (missing : List Nat) (hlen : missing.length ≤ m) :
    rsDecode (genEntry k) k m (eraseData data missing k bs) (eraseParity parity missing k m bs)
      missing bs = some (data, parity) :=
  (Stripe.of_encode hkm hbs hdl hdb hp0 henc).rsDecode_correct missing hlen

end Lec

#print axioms Lec.regionDot_field
#print axioms Lec.rsEncode_spec
#print axioms Lec.rsDecode_correct
