/-
  LecProofs.FrontendLemmas — helper layer for the front-end correctness theorems:
  what the readers see in an encoded fragment, the scan / copy loops of
  `fragments_to_string`, the placement loop of `get_fragment_partition`,
  `prepare_fragments_for_decode`, and header regeneration without checksum.
-/
import LecProofs.FreshLemmas
import LecProofs.Contracts
namespace Lec

/-! ### integer conversion -/

theorem toI32_of_lt {n : Nat} (h : n < 2 ^ 31) : toI32 n = (n : Int) := by
  unfold toI32
  have h1 : n % 2 ^ 32 = n := Nat.mod_eq_of_lt (by omega)
  simp only [h1, if_pos h]

/-! ### a fragment as the decode helpers see it -/

/-- what `fragments_to_string` / `get_fragment_partition` read from a fragment: native magic,
    index `j`, payload size `bs`, original size `len`, payload `p`. -/
structure GoodFrag (len bs j : Nat) (p f : Bytes) : Prop where
  magic : fMagic f = magicC
  idx : getFragmentIdx f = (j : Int)
  size : getPayloadSize f = (bs : Int)
  orig : getOrigDataSize f = (len : Int)
  payload : fPayload f = p

theorem specFragment_good (env : Env) (i : Inst) (idx len bs : Nat) (p : Bytes)
    (h : FreshOK env i idx len bs) (hidx : idx < 2 ^ 31) (hlen : len < 2 ^ 31) (hbs : bs < 2 ^ 31) :
    GoodFrag len bs idx p (specFragment env i len bs p idx) := by
  unfold specFragment
  have hm := fresh_magic env i idx len bs p h
  have hpm := fresh_parseMeta env i idx len bs p h
  have h1 : fIdx ((specHeader env i idx len bs p).bytes ++ p) = idx := by
    have := congrArg Meta.idx hpm; simpa [parseMeta, specMeta] using this
  have h2 : fSize ((specHeader env i idx len bs p).bytes ++ p) = bs := by
    have := congrArg Meta.size hpm; simpa [parseMeta, specMeta] using this
  have h3 : fOrig ((specHeader env i idx len bs p).bytes ++ p) = len := by
    have := congrArg Meta.origSize hpm; simpa [parseMeta, specMeta] using this
  refine ⟨hm, ?_, ?_, ?_, fresh_payload env i idx len bs p h⟩
  · simp [getFragmentIdx, hm, h1, toI32_of_lt hidx]
  · simp [getPayloadSize, hm, h2, toI32_of_lt hbs]
  · simp [getOrigDataSize, hm, h3, toI32_of_lt hlen]

theorem specFragment_length (env : Env) (i : Inst) (idx len bs : Nat) (p : Bytes) (hp : p.length = bs) :
    (specFragment env i len bs p idx).length = 80 + bs := by
  unfold specFragment
  rw [List.length_append, header_bytes_length _ (by simp [specHeader, specMeta]), hp]

theorem specFragment_take (env : Env) (i : Inst) (idx len bs : Nat) (p : Bytes) :
    (specFragment env i len bs p idx).take Hdr.size = (specHeader env i idx len bs p).bytes := by
  unfold specFragment
  have hl : (specHeader env i idx len bs p).bytes.length = 80 :=
    header_bytes_length _ (by simp [specHeader, specMeta])
  rw [List.take_append_of_le_length (by rw [hl]; decide), List.take_of_length_le (by rw [hl]; decide)]

/-! ### `fragments_to_string` -/

theorem f2sStep_good {k len bs j : Nat} {p f : Bytes} (hg : GoodFrag len bs j p f)
    (o : Int) (slots : List (Option Bytes)) (ho : o = -1 ∨ o = (len : Int)) :
    f2sStep k (.ok (o, slots)) f =
      .ok ((len : Int), if j < k ∧ slots.getD j none = none then slots.set j (some f) else slots) := by
  unfold f2sStep
  simp only [hg.idx, hg.size, hg.orig]
  have h1 : (decide ((j : Int) < 0) || decide ((bs : Int) < 0)) = false := by
    simp
  have h2 : (decide (o ≥ 0) && ((len : Int) != o)) = false := by
    rcases ho with rfl | rfl <;> simp
  have h3 : (if o < 0 then (len : Int) else o) = (len : Int) := by
    rcases ho with rfl | rfl <;> simp
  simp only [h1, h2, h3, Bool.false_eq_true, if_false, Int.toNat_natCast]
  by_cases hjk : j < k
  · have : ¬ ((j : Int) ≥ (k : Int)) := by omega
    simp only [this, if_false, hjk, true_and]
    cases hs : slots.getD j none with
    | none => simp
    | some x => simp
  · have : ((j : Int) ≥ (k : Int)) := by omega
    simp [this, hjk]

theorem getD_set_some {α : Type} (slots : List (Option α)) (j j' : Nat) (x : α) :
    (slots.set j (some x)).getD j' none = if j = j' ∧ j < slots.length then some x else slots.getD j' none := by
  simp only [List.getD_eq_getElem?_getD, List.getElem?_set]
  by_cases h : j = j'
  · subst h
    by_cases h2 : j < slots.length
    · simp [h2]
    · simp [h2]
  · simp [h]


theorem f2s_fold {k len bs : Nat} (pl : Nat → Bytes) (fs : List Bytes)
    (hfs : ∀ f ∈ fs, ∃ j, GoodFrag len bs j (pl j) f) :
    ∀ (o : Int) (slots : List (Option Bytes)), (o = -1 ∨ o = (len : Int)) →
    (∀ j f, slots.getD j none = some f → GoodFrag len bs j (pl j) f) →
    ∃ o' slots', fs.foldl (f2sStep k) (.ok (o, slots)) = .ok (o', slots') ∧
      slots'.length = slots.length ∧ (fs ≠ [] → o' = (len : Int)) ∧ (fs = [] → o' = o) ∧
      (∀ j f, slots'.getD j none = some f → GoodFrag len bs j (pl j) f) ∧
      (∀ j, j < k → j < slots.length →
        ((slots'.getD j none).isSome ↔
          ((slots.getD j none).isSome ∨ ∃ f ∈ fs, getFragmentIdx f = (j : Int)))) := by
  induction fs with
  | nil =>
    intro o slots ho hs
    exact ⟨o, slots, rfl, rfl, by simp, by simp, hs, by simp⟩
  | cons f fs ih =>
    intro o slots ho hs
    obtain ⟨j, hg⟩ := hfs f (by simp)
    have ih' := ih (fun g hg' => hfs g (List.mem_cons_of_mem _ hg'))
    rw [List.foldl_cons, f2sStep_good hg o slots ho]
    generalize hs1 : (if j < k ∧ slots.getD j none = none then slots.set j (some f) else slots) = slots1
    have hl1 : slots1.length = slots.length := by
      rw [← hs1]; split <;> simp
    have hgood1 : ∀ j' f', slots1.getD j' none = some f' → GoodFrag len bs j' (pl j') f' := by
      intro j' f' h'
      rw [← hs1] at h'
      split at h'
      · rw [getD_set_some] at h'
        split at h'
        · rename_i hc
          cases h'
          rw [← hc.1]; exact hg
        · exact hs j' f' h'
      · exact hs j' f' h'
    have hchar1 : ∀ j', j' < k → j' < slots.length →
        ((slots1.getD j' none).isSome ↔ ((slots.getD j' none).isSome ∨ j = j')) := by
      intro j' hj'k hj'l
      rw [← hs1]
      by_cases hjj : j = j'
      · subst hjj
        by_cases hn : slots.getD j none = none
        · rw [if_pos ⟨hj'k, hn⟩, getD_set_some, if_pos ⟨rfl, hj'l⟩]; simp
        · rw [if_neg (fun h => hn h.2)]
          have : (slots.getD j none).isSome = true := by
            cases h : slots.getD j none with
            | none => exact absurd h hn
            | some x => rfl
          simp only [this, true_or]
      · split
        · rw [getD_set_some, if_neg (fun h => hjj h.1)]; simp only [hjj, or_false]
        · simp only [hjj, or_false]
    obtain ⟨o', slots', hfold, hl', ho1, _, hgood', hchar'⟩ := ih' (len : Int) slots1 (Or.inr rfl) hgood1
    refine ⟨o', slots', hfold, by rw [hl', hl1], ?_, by simp, hgood', ?_⟩
    · intro _
      by_cases hfs' : fs = []
      · subst hfs'; simp at hfold; exact hfold.1.symm
      · exact ho1 hfs'
    · intro j' hj'k hj'l
      rw [hchar' j' hj'k (by rw [hl1]; exact hj'l), hchar1 j' hj'k hj'l]
      constructor
      · rintro ((h | h) | ⟨g, hg', hgi⟩)
        · exact Or.inl h
        · exact Or.inr ⟨f, by simp, by rw [hg.idx, h]⟩
        · exact Or.inr ⟨g, List.mem_cons_of_mem _ hg', hgi⟩
      · rintro (h | ⟨g, hg', hgi⟩)
        · exact Or.inl (Or.inl h)
        · rcases List.mem_cons.mp hg' with rfl | hg''
          · rw [hg.idx] at hgi
            exact Or.inl (Or.inr (by omega))
          · exact Or.inr ⟨g, hg'', hgi⟩

theorem all_some_eq_map {α : Type} (l : List (Option α)) (h : l.any Option.isNone = false) :
    l = (l.filterMap id).map some := by
  induction l with
  | nil => rfl
  | cons x xs ih =>
    simp only [List.any_cons, Bool.or_eq_false_iff] at h
    cases x with
    | none => simp at h
    | some a =>
      simp only [List.filterMap_cons, id, List.map_cons]
      rw [← ih h.2]

theorem f2sCopy_good (data : Bytes) (bs : Nat) (gs : List Bytes) :
    ∀ (s : Nat), (∀ j (h : j < gs.length), getPayloadSize gs[j] = (bs : Int) ∧ fPayload gs[j] = slice data bs (s + j)) →
    f2sCopy gs (data.length - s * bs) = (data.drop (s * bs)).take (gs.length * bs) := by
  induction gs with
  | nil => intro s _; simp [f2sCopy]
  | cons g gs ih =>
    intro s hg
    have hg0 := hg 0 (by simp)
    simp only [List.getElem_cons_zero, Nat.add_zero] at hg0
    have ih' := ih (s + 1) (by
      intro j hj
      have := hg (j + 1) (by simp; omega)
      simp only [List.getElem_cons_succ] at this
      rw [show s + 1 + j = s + (j + 1) by omega]; exact this)
    unfold f2sCopy
    by_cases hr : data.length - s * bs = 0
    · rw [if_pos hr]
      rw [List.drop_of_length_le (by omega)]; simp
    · rw [if_neg hr]
      simp only [hg0.1, hg0.2, Int.toNat_natCast]
      generalize hn : (if data.length - s * bs > bs then bs else data.length - s * bs) = n
      have hD : (data.drop (s * bs)).length = data.length - s * bs := List.length_drop ..
      have htl : ((data.drop (s * bs)).take bs).length = n := by
        rw [List.length_take, hD, ← hn]; split <;> omega
      have hpiece : (slice data bs s).take n = (data.drop (s * bs)).take bs := by
        unfold slice
        simp only
        rw [← htl, List.take_left']
        rfl
      rw [hpiece, htl, Nat.sub_self]
      have hrem : data.length - s * bs - n = data.length - (s + 1) * bs := by
        rw [Nat.succ_mul, ← hn]; split <;> omega
      rw [hrem, ih']
      simp only [zeros, List.replicate_zero, List.append_nil, List.length_cons]
      rw [Nat.succ_mul gs.length bs, Nat.add_comm (gs.length * bs) bs, List.take_add,
        List.drop_drop, Nat.succ_mul s bs]


/-- the scan loop of `fragments_to_string` over good fragments: the slots afterwards. -/
theorem f2s_scan {k bs len : Nat} (pl : Nat → Bytes) (fs : List Bytes) (hk : 0 < k) (hlen : k ≤ fs.length)
    (hfs : ∀ f ∈ fs, ∃ j, GoodFrag len bs j (pl j) f) :
    ∃ slots', fs.foldl (f2sStep k) (.ok (-1, List.replicate k none)) = .ok ((len : Int), slots') ∧
      slots'.length = k ∧
      (∀ j f, slots'.getD j none = some f → GoodFrag len bs j (pl j) f) ∧
      (∀ j, j < k → ((slots'.getD j none).isSome ↔ ∃ f ∈ fs, getFragmentIdx f = (j : Int))) := by
  obtain ⟨o', slots', hfold, hl, ho, _, hgood, hchar⟩ :=
    f2s_fold (k := k) pl fs hfs (-1) (List.replicate k none) (Or.inl rfl) (by
      intro j f h
      simp [List.getD_eq_getElem?_getD, List.getElem?_replicate] at h
      split at h <;> cases h)
  have hne : fs ≠ [] := by
    intro h; rw [h] at hlen; simp at hlen; omega
  rw [ho hne] at hfold
  refine ⟨slots', hfold, by simpa using hl, hgood, ?_⟩
  intro j hj
  rw [hchar j hj (by simpa using hj)]
  have : ((List.replicate k (none : Option Bytes)).getD j none).isSome = false := by
    simp [List.getD_eq_getElem?_getD, hj]
  rw [this]; simp

theorem fragmentsToString_good {k bs : Nat} (data : Bytes) (pl : Nat → Bytes) (fs : List Bytes)
    (hk : 0 < k) (hpl : ∀ j, j < k → pl j = slice data bs j) (hcover : data.length ≤ k * bs)
    (hfs : ∀ f ∈ fs, ∃ j, GoodFrag data.length bs j (pl j) f) :
    ((fs.length < k ∨ ∃ j, j < k ∧ ∀ f ∈ fs, getFragmentIdx f ≠ (j : Int)) →
      fragmentsToString k fs = .error (-1)) ∧
    ((k ≤ fs.length ∧ ∀ j, j < k → ∃ f ∈ fs, getFragmentIdx f = (j : Int)) →
      fragmentsToString k fs = .ok data) := by
  by_cases hlen : fs.length < k
  · refine ⟨fun _ => by simp [fragmentsToString, hlen], fun h => by omega⟩
  · obtain ⟨slots', hfold, hl, hgood, hchar⟩ := f2s_scan (k := k) (len := data.length) pl fs hk (by omega) hfs
    have hunf : fragmentsToString k fs =
        if slots'.any Option.isNone then .error (-1) else
          .ok (f2sCopy (slots'.filterMap id) data.length ++
            zeros (data.length - (f2sCopy (slots'.filterMap id) data.length).length)) := by
      unfold fragmentsToString
      rw [if_neg hlen, hfold]
      simp
    constructor
    · rintro (h | ⟨j, hj, hno⟩)
      · exact absurd h hlen
      · have hn : (slots'.getD j none).isSome = false := by
          cases hs : (slots'.getD j none).isSome with
          | false => rfl
          | true =>
            obtain ⟨f, hf, hi⟩ := (hchar j hj).mp hs
            exact absurd hi (hno f hf)
        have hany : slots'.any Option.isNone = true := by
          rw [List.any_eq_true]
          refine ⟨slots'[j]'(by omega), List.getElem_mem _, ?_⟩
          have : slots'.getD j none = slots'[j]'(by omega) := by
            simp [List.getD_eq_getElem?_getD, List.getElem?_eq_getElem (show j < slots'.length by omega)]
          rw [← this]
          cases h : slots'.getD j none with
          | none => rfl
          | some x => rw [h] at hn; cases hn
        rw [hunf, if_pos hany]
    · rintro ⟨_, hall⟩
      have hany : slots'.any Option.isNone = false := by
        cases hb : slots'.any Option.isNone with
        | false => rfl
        | true =>
          rw [List.any_eq_true] at hb
          obtain ⟨x, hx, hxn⟩ := hb
          obtain ⟨j, hj, rfl⟩ := List.mem_iff_getElem.mp hx
          have : slots'.getD j none = slots'[j] := by
            simp [List.getD_eq_getElem?_getD, List.getElem?_eq_getElem hj]
          have hs := (hchar j (by omega)).mpr (hall j (by omega))
          rw [this] at hs
          cases h : slots'[j] with
          | none => rw [h] at hs; cases hs
          | some y => rw [h] at hxn; cases hxn
      have hmap := all_some_eq_map slots' hany
      generalize hgs : slots'.filterMap id = gs at hmap hunf
      have hgl : gs.length = k := by
        have := congrArg List.length hmap
        simp at this; omega
      have hcopy := f2sCopy_good data bs gs 0 (by
        intro j hj
        have hsj : slots'.getD j none = some gs[j] := by
          rw [hmap]; simp [List.getD_eq_getElem?_getD, List.getElem?_eq_getElem hj]
        have hg := hgood j _ hsj
        refine ⟨hg.size, ?_⟩
        rw [hg.payload, Nat.zero_add]
        exact hpl j (by omega))
      simp only [Nat.zero_mul, Nat.sub_zero, List.drop_zero, hgl] at hcopy
      rw [List.take_of_length_le hcover] at hcopy
      rw [hunf, if_neg (by simp [hany]), hcopy]
      simp [zeros]

/-! ### `get_fragment_partition` -/

theorem partitionStep_at {k m j : Nat} {f : Bytes} (hi : getFragmentIdx f = (j : Int)) (hj : j < k + m)
    (d p : List (Option Bytes)) :
    partitionStep k m (.ok (d, p)) f =
      if j < k then .ok (d.set j (some f), p) else .ok (d, p.set (j - k) (some f)) := by
  unfold partitionStep
  simp only [hi, Int.toNat_natCast]
  have h1 : (decide ((j : Int) < 0) || decide ((j : Int) ≥ ((k + m : Nat) : Int))) = false := by
    simp; omega
  simp only [h1, Bool.false_eq_true, if_false]

/-- indices are read back correctly, hence the fragments are pairwise distinct. -/
theorem F_inj {n : Nat} {F : Nat → Bytes} (hF : ∀ j, j < n → getFragmentIdx (F j) = (j : Int))
    {a b : Nat} (ha : a < n) (hb : b < n) (h : F a = F b) : a = b := by
  have h1 := hF a ha
  rw [h, hF b hb] at h1
  omega

theorem partition_fold {k m : Nat} {F : Nat → Bytes} (hF : ∀ j, j < k + m → getFragmentIdx (F j) = (j : Int))
    (fs : List Bytes) (hfs : ∀ f ∈ fs, ∃ j, j < k + m ∧ f = F j) :
    ∀ (d p : List (Option Bytes)), d.length = k → p.length = m →
    ∃ d' p', fs.foldl (partitionStep k m) (.ok (d, p)) = .ok (d', p') ∧ d'.length = k ∧ p'.length = m ∧
      (∀ j, j < k → (F j ∈ fs → d'.getD j none = some (F j)) ∧ (F j ∉ fs → d'.getD j none = d.getD j none)) ∧
      (∀ j, j < m → (F (j + k) ∈ fs → p'.getD j none = some (F (j + k))) ∧
        (F (j + k) ∉ fs → p'.getD j none = p.getD j none)) := by
  induction fs with
  | nil =>
    intro d p hd hp
    exact ⟨d, p, rfl, hd, hp, by simp, by simp⟩
  | cons f fs ih =>
    intro d p hd hp
    obtain ⟨j0, hj0, hf0⟩ := hfs f (by simp)
    subst hf0
    have ih' := ih (fun g hg' => hfs g (List.mem_cons_of_mem _ hg'))
    rw [List.foldl_cons, partitionStep_at (hF j0 hj0) hj0]
    by_cases hjk : j0 < k
    · rw [if_pos hjk]
      obtain ⟨d', p', hfold, hd', hp', hdc, hpc⟩ := ih' (d.set j0 (some (F j0))) p (by simpa using hd) hp
      refine ⟨d', p', hfold, hd', hp', ?_, ?_⟩
      · intro j hj
        constructor
        · intro hmem
          by_cases hin : F j ∈ fs
          · exact (hdc j hj).1 hin
          · rw [(hdc j hj).2 hin]
            rcases List.mem_cons.mp hmem with h | h
            · have : j = j0 := F_inj hF (by omega) hj0 h
              subst this
              rw [getD_set_some, if_pos ⟨rfl, by omega⟩]
            · exact absurd h hin
        · intro hnm
          have hin : F j ∉ fs := fun h => hnm (List.mem_cons_of_mem _ h)
          have hne : j0 ≠ j := fun h => hnm (by rw [h]; simp)
          rw [(hdc j hj).2 hin, getD_set_some, if_neg (fun h => hne h.1)]
      · intro j hj
        constructor
        · intro hmem
          by_cases hin : F (j + k) ∈ fs
          · exact (hpc j hj).1 hin
          · rcases List.mem_cons.mp hmem with h | h
            · have : j + k = j0 := F_inj hF (by omega) hj0 h
              omega
            · exact absurd h hin
        · intro hnm
          exact (hpc j hj).2 (fun h => hnm (List.mem_cons_of_mem _ h))
    · rw [if_neg hjk]
      obtain ⟨d', p', hfold, hd', hp', hdc, hpc⟩ := ih' d (p.set (j0 - k) (some (F j0))) hd (by simpa using hp)
      refine ⟨d', p', hfold, hd', hp', ?_, ?_⟩
      · intro j hj
        constructor
        · intro hmem
          by_cases hin : F j ∈ fs
          · exact (hdc j hj).1 hin
          · rcases List.mem_cons.mp hmem with h | h
            · have : j = j0 := F_inj hF (by omega) hj0 h
              omega
            · exact absurd h hin
        · intro hnm
          exact (hdc j hj).2 (fun h => hnm (List.mem_cons_of_mem _ h))
      · intro j hj
        constructor
        · intro hmem
          by_cases hin : F (j + k) ∈ fs
          · exact (hpc j hj).1 hin
          · rw [(hpc j hj).2 hin]
            rcases List.mem_cons.mp hmem with h | h
            · have : j + k = j0 := F_inj hF (by omega) hj0 h
              subst this
              rw [getD_set_some, if_pos ⟨by omega, by omega⟩]
            · exact absurd h hin
        · intro hnm
          have hin : F (j + k) ∉ fs := fun h => hnm (List.mem_cons_of_mem _ h)
          have hne : j0 ≠ j + k := fun h => hnm (by rw [h]; simp)
          rw [(hpc j hj).2 hin, getD_set_some, if_neg (fun h => hne (by omega))]

/-- slot array: `some (F (j+off))` where that fragment was supplied. -/
def slotsOf (F : Nat → Bytes) (fs : List Bytes) (off n : Nat) : List (Option Bytes) :=
  (List.range n).map fun j => if F (j + off) ∈ fs then some (F (j + off)) else none

/-- the ascending list of indexes below `n` whose fragment was not supplied. -/
def missingIdx (F : Nat → Bytes) (fs : List Bytes) (n : Nat) : List Nat :=
  (List.range n).filter fun j => decide (F j ∉ fs)

theorem slotsOf_getD (F : Nat → Bytes) (fs : List Bytes) (off n j : Nat) (hj : j < n) :
    (slotsOf F fs off n).getD j none = if F (j + off) ∈ fs then some (F (j + off)) else none := by
  simp [slotsOf, List.getD_eq_getElem?_getD, hj]

theorem partition_slots {k m : Nat} {F : Nat → Bytes} (hF : ∀ j, j < k + m → getFragmentIdx (F j) = (j : Int))
    (fs : List Bytes) (hfs : ∀ f ∈ fs, ∃ j, j < k + m ∧ f = F j) :
    fs.foldl (partitionStep k m) (.ok (List.replicate k none, List.replicate m none)) =
      .ok (slotsOf F fs 0 k, slotsOf F fs k m) := by
  obtain ⟨d', p', hfold, hd', hp', hdc, hpc⟩ :=
    partition_fold hF fs hfs (List.replicate k none) (List.replicate m none) (by simp) (by simp)
  rw [hfold]
  have e1 : d' = slotsOf F fs 0 k := by
    apply List.ext_getElem
    · simp [slotsOf, hd']
    · intro j h1 h2
      have hj : j < k := by omega
      have a : d'.getD j none = d'[j] := by
        simp [List.getD_eq_getElem?_getD, List.getElem?_eq_getElem h1]
      have b : (slotsOf F fs 0 k).getD j none = (slotsOf F fs 0 k)[j] := by
        simp [List.getD_eq_getElem?_getD, List.getElem?_eq_getElem h2]
      rw [← a, ← b, slotsOf_getD _ _ _ _ _ hj, Nat.add_zero]
      by_cases hin : F j ∈ fs
      · rw [if_pos hin, (hdc j hj).1 hin]
      · rw [if_neg hin, (hdc j hj).2 hin]; simp [List.getD_eq_getElem?_getD, hj]
  have e2 : p' = slotsOf F fs k m := by
    apply List.ext_getElem
    · simp [slotsOf, hp']
    · intro j h1 h2
      have hj : j < m := by omega
      have a : p'.getD j none = p'[j] := by
        simp [List.getD_eq_getElem?_getD, List.getElem?_eq_getElem h1]
      have b : (slotsOf F fs k m).getD j none = (slotsOf F fs k m)[j] := by
        simp [List.getD_eq_getElem?_getD, List.getElem?_eq_getElem h2]
      rw [← a, ← b, slotsOf_getD _ _ _ _ _ hj]
      by_cases hin : F (j + k) ∈ fs
      · rw [if_pos hin, (hpc j hj).1 hin]
      · rw [if_neg hin, (hpc j hj).2 hin]; simp [List.getD_eq_getElem?_getD, hj]
  rw [e1, e2]

theorem missingOf_slots (F : Nat → Bytes) (fs : List Bytes) (k m : Nat) :
    missingOf k m (slotsOf F fs 0 k) (slotsOf F fs k m) = missingIdx F fs (k + m) := by
  unfold missingOf missingIdx
  rw [List.range_add, List.filter_append, List.filter_map]
  congr 1
  · apply List.filter_congr
    intro j hj
    rw [slotsOf_getD _ _ _ _ _ (by simpa using hj)]
    by_cases h : F j ∈ fs <;> simp [h]
  · rw [show (fun x => x + k) = (fun x => k + x) from funext fun x => Nat.add_comm x k]
    congr 1
    apply List.filter_congr
    intro j hj
    rw [slotsOf_getD _ _ _ _ _ (by simpa using hj)]
    simp only [Function.comp, Nat.add_comm k j]
    by_cases h : F (j + k) ∈ fs <;> simp [h]

theorem partition_eq {k m : Nat} {F : Nat → Bytes} (hF : ∀ j, j < k + m → getFragmentIdx (F j) = (j : Int))
    (fs : List Bytes) (hfs : ∀ f ∈ fs, ∃ j, j < k + m ∧ f = F j) :
    getFragmentPartition k m fs =
      if (missingIdx F fs (k + m)).length > m then .error (-EINSUFFFRAGS)
      else .ok (slotsOf F fs 0 k, slotsOf F fs k m, missingIdx F fs (k + m)) := by
  unfold getFragmentPartition
  rw [partition_slots hF fs hfs]
  simp only [missingOf_slots]

theorem missingIdx_ok (F : Nat → Bytes) (fs : List Bytes) (k m : Nat) : MissingOK k m (missingIdx F fs (k + m)) := by
  constructor
  · exact List.Pairwise.filter _ List.pairwise_lt_range
  · intro x hx
    have := (List.mem_filter.mp hx).1
    simpa using this

theorem mem_missingIdx (F : Nat → Bytes) (fs : List Bytes) (n j : Nat) :
    j ∈ missingIdx F fs n ↔ j < n ∧ F j ∉ fs := by
  simp [missingIdx]

theorem contains_missingIdx (F : Nat → Bytes) (fs : List Bytes) (n j : Nat) (hj : j < n) :
    (missingIdx F fs n).contains j = decide (F j ∉ fs) := by
  rw [List.contains_eq_mem]
  by_cases h : F j ∈ fs <;> simp [mem_missingIdx, h, hj]

/-! ### `prepare_fragments_for_decode` -/

/-- the buffers after `prepare_fragments_for_decode`: holes filled with fresh fragments. -/
def filledOf (F : Nat → Bytes) (fs : List Bytes) (off n bs : Nat) : List Bytes :=
  (List.range n).map fun j => if F (j + off) ∈ fs then F (j + off) else freshFragment bs

theorem filledOf_length (F : Nat → Bytes) (fs : List Bytes) (off n bs : Nat) :
    (filledOf F fs off n bs).length = n := by simp [filledOf]

theorem filledOf_getD (F : Nat → Bytes) (fs : List Bytes) (off n bs j : Nat) (hj : j < n) :
    (filledOf F fs off n bs).getD j [] = if F (j + off) ∈ fs then F (j + off) else freshFragment bs := by
  simp [filledOf, List.getD_eq_getElem?_getD, hj]

theorem prepare_eq {k m len bs : Nat} {F : Nat → Bytes} (fs : List Bytes)
    (hgood : ∀ j, j < k + m → getOrigDataSize (F j) = (len : Int) ∧ getPayloadSize (F j) = (bs : Int))
    (hpres : ∃ j, j < k + m ∧ F j ∈ fs) :
    prepareForDecode k m (slotsOf F fs 0 k) (slotsOf F fs k m) (missingIdx F fs (k + m)) (Hdr.size + bs) =
      .ok (filledOf F fs 0 k bs, filledOf F fs k m bs, (len : Int), (bs : Int)) := by
  unfold prepareForDecode
  simp only [Nat.add_sub_cancel_left]
  have hfill : ∀ (fill : Option Bytes → Bytes), fill none = freshFragment bs → (∀ f, fill (some f) = f) →
      ∀ off n, (slotsOf F fs off n).map fill = filledOf F fs off n bs := by
    intro fill h0 h1 off n
    simp only [slotsOf, filledOf, List.map_map]
    apply List.map_congr_left
    intro j _
    simp only [Function.comp]
    by_cases h : F (j + off) ∈ fs <;> simp [h, h0, h1]
  rw [hfill _ rfl (fun _ => rfl), hfill _ rfl (fun _ => rfl)]
  cases hh : ((List.range (k + m)).filter fun i => !(missingIdx F fs (k + m)).contains i).head? with
  | none =>
    exfalso
    obtain ⟨j, hj, hin⟩ := hpres
    rw [List.head?_eq_none_iff, List.filter_eq_nil_iff] at hh
    have := hh j (by simpa using hj)
    rw [contains_missingIdx F fs _ j hj] at this
    simp [hin] at this
  | some j0 =>
    have hmem := List.mem_of_head? hh
    rw [List.mem_filter] at hmem
    have hj0 : j0 < k + m := by simpa using hmem.1
    have hin : F j0 ∈ fs := by
      have := hmem.2
      rw [contains_missingIdx F fs _ j0 hj0] at this
      simpa using this
    have hf : (if j0 < k then (filledOf F fs 0 k bs).getD j0 [] else (filledOf F fs k m bs).getD (j0 - k) []) = F j0 := by
      by_cases hjk : j0 < k
      · rw [if_pos hjk, filledOf_getD _ _ _ _ _ _ hjk, Nat.add_zero, if_pos hin]
      · rw [if_neg hjk, filledOf_getD _ _ _ _ _ _ (by omega), show j0 - k + k = j0 by omega, if_pos hin]
    simp only [hf, (hgood j0 hj0).1, (hgood j0 hj0).2]
    have : ¬ ((len : Int) < 0) := by omega
    rw [if_neg this]


/-! ### fresh buffers, header regeneration -/

theorem zerosSegLens : SegLens (zeros 4) (zeros 4) (zeros 4) (zeros 8) (zeros 1) (zeros 4) (zeros 28)
      (zeros 1) (zeros 1) (zeros 4) (le32 magicC) (zeros 4) (zeros 4) (zeros 9) := by
  constructor <;> simp

/-- storing a payload of the allocated size into a freshly allocated fragment buffer. -/
theorem withPayload_fresh (pl : Bytes) (bs : Nat) : withPayload (freshFragment bs) pl = fragmentWithPayload pl := by
  rw [fragmentWithPayload_segs, freshFragment_segs]
  unfold withPayload
  have h : ∀ q : Bytes, (segsOf (zeros 4) (zeros 4) (zeros 4) (zeros 8) (zeros 1) (zeros 4) (zeros 28)
      (zeros 1) (zeros 1) (zeros 4) (le32 magicC) (zeros 4) (zeros 4) (zeros 9) q).flatten =
      (zeros 4 ++ zeros 4 ++ zeros 4 ++ zeros 8 ++ zeros 1 ++ zeros 4 ++ zeros 28 ++ zeros 1 ++ zeros 1 ++ zeros 4 ++
        le32 magicC ++ zeros 4 ++ zeros 4 ++ zeros 9) ++ q := by
    intro q; simp [segsOf]
  rw [h, h, List.take_append_of_le_length (by simp [Hdr.size]), List.take_of_length_le (by simp [Hdr.size])]

theorem setMagic_fragmentWithPayload (pl : Bytes) : setMagic (fragmentWithPayload pl) magicC = fragmentWithPayload pl := by
  rw [fragmentWithPayload_segs, setMagic_segs zerosSegLens]

/-- the instance as `add_fragment_metadata` sees it when called without checksum. -/
def noChk (i : Inst) : Inst := { i with ct := 0 }

/-- header regeneration without checksum (decode path): the serialized header with checksum type
    and checksum words zero. -/
theorem addFragmentMetadata_nochk (env : Env) (i : Inst) (idx orig bs : Nat) (p : Bytes)
    (ho : orig < 2 ^ 31) :
    addFragmentMetadata env i (fragmentWithPayload p) idx orig bs false =
      specFragment env (noChk i) orig bs p idx := by
  have L0 := zerosSegLens
  unfold addFragmentMetadata specFragment
  rw [fragmentWithPayload_segs, toI32_toNat_of_lt ho]
  simp only [Bool.false_eq_true, if_false]
  rw [setLibver_segs L0]
  have L1 : SegLens (zeros 4) (zeros 4) (zeros 4) (zeros 8) (zeros 1) (zeros 4) (zeros 28)
      (zeros 1) (zeros 1) (zeros 4) (le32 magicC) (le32 env.libver) (zeros 4) (zeros 9) := by
    constructor <;> simp
  rw [setIdx_segs L1]
  have L2 : SegLens (le32 idx) (zeros 4) (zeros 4) (zeros 8) (zeros 1) (zeros 4) (zeros 28)
      (zeros 1) (zeros 1) (zeros 4) (le32 magicC) (le32 env.libver) (zeros 4) (zeros 9) := by
    constructor <;> simp
  rw [setOrig_segs L2]
  have L3 : SegLens (le32 idx) (zeros 4) (zeros 4) (le64 orig) (zeros 1) (zeros 4) (zeros 28)
      (zeros 1) (zeros 1) (zeros 4) (le32 magicC) (le32 env.libver) (zeros 4) (zeros 9) := by
    constructor <;> simp
  rw [setSize_segs L3]
  have L4 : SegLens (le32 idx) (le32 bs) (zeros 4) (le64 orig) (zeros 1) (zeros 4) (zeros 28)
      (zeros 1) (zeros 1) (zeros 4) (le32 magicC) (le32 env.libver) (zeros 4) (zeros 9) := by
    constructor <;> simp
  rw [setBeId_segs L4]
  have L5 : SegLens (le32 idx) (le32 bs) (zeros 4) (le64 orig) (zeros 1) (zeros 4) (zeros 28)
      (zeros 1) [UInt8.ofNat i.beId] (zeros 4) (le32 magicC) (le32 env.libver) (zeros 4) (zeros 9) := by
    constructor <;> simp
  rw [setBeVer_segs L5]
  have L6 : SegLens (le32 idx) (le32 bs) (zeros 4) (le64 orig) (zeros 1) (zeros 4) (zeros 28)
      (zeros 1) [UInt8.ofNat i.beId] (le32 i.beVer) (le32 magicC) (le32 env.libver) (zeros 4) (zeros 9) := by
    constructor <;> simp
  rw [setBmSize_segs L6]
  have L7 : SegLens (le32 idx) (le32 bs) (le32 0) (le64 orig) (zeros 1) (zeros 4) (zeros 28)
      (zeros 1) [UInt8.ofNat i.beId] (le32 i.beVer) (le32 magicC) (le32 env.libver) (zeros 4) (zeros 9) := by
    constructor <;> simp
  rw [fMetaBytes_segs L7, setMetaCrc_segs L7]
  simp [segsOf, specHeader, specMeta, Header.bytes, Meta.bytes, Hdr.padLen, le32_zero, zeros, noChk]


theorem fPayload_fresh (n : Nat) : fPayload (freshFragment n) = zeros n := by
  rw [freshFragment_segs, fPayload_segs zerosSegLens]

theorem filled_payloads {F : Nat → Bytes} (fs : List Bytes) (off n bs N : Nat) (P : List Bytes)
    (hP : P.length = n) (hN : n + off ≤ N)
    (hpay : ∀ j (h : j < n), fPayload (F (j + off)) = P[j]) :
    (filledOf F fs off n bs).map fPayload = eraseBufs P (missingIdx F fs N) off bs := by
  apply List.ext_getElem
  · simp [filledOf, eraseBufs, hP]
  · intro j h1 h2
    have hj : j < n := by simpa [filledOf] using h1
    simp only [filledOf, eraseBufs, List.getElem_map, List.getElem_range, List.getElem_zipIdx, Nat.zero_add]
    rw [contains_missingIdx F fs N (j + off) (by omega)]
    by_cases h : F (j + off) ∈ fs
    · simp [h, hpay j hj]
    · simp [h, fPayload_fresh]


/-- a fragment the instance has just written passes `is_invalid_fragment`
    (same statement as `LecProps.C12.fresh_valid`, reproved here to keep LecProofs self-contained). -/
theorem specFragment_valid (env : Env) (be : Backend) (i : Inst) (idx orig bs : Nat) (p : Bytes)
    (h : FreshOK env i idx orig bs) (hp : p.length = bs) (hidx : idx < i.k + i.m)
    (hc : be.compat i.beVer = true) :
    isInvalidFragment env be i (specFragment env i orig bs p idx) = false := by
  unfold isInvalidFragment specFragment
  rw [fresh_magic env i idx orig bs p h, fresh_libver env i idx orig bs p h,
    fresh_metadata env i idx orig bs p h hp]
  simp only [bne_self_eq_false, Bool.false_eq_true, if_false, Nat.lt_irrefl, gt_iff_lt]
  have : invalidFragmentMetadata be i (specMeta env i idx orig bs p) = 0 := by
    unfold invalidFragmentMetadata
    have h1 : ¬ (i.k + i.m ≤ idx) := by omega
    simp [h1, specMeta, hc]
  simp [this]


#print axioms specFragment_good
#print axioms specFragment_valid
#print axioms fragmentsToString_good
#print axioms partition_eq
#print axioms missingIdx_ok
#print axioms prepare_eq
#print axioms filled_payloads
#print axioms withPayload_fresh
#print axioms addFragmentMetadata_nochk
end Lec
