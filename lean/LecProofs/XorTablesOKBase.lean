/-
  LecProofs.XorTablesOKBase — per-table facts about the *generated* `LecGen.xorTables` that are
  cheap for the kernel: both sides of every slot present, sizes/ranges, the two sides describe
  the same bipartite graph, the table set is exactly the `init_xor_hd_code` whitelist, minimum
  distance ≥ hd, and the base conditions of the decode/reconstruct checker.
-/
import LecProofs.XorCheck
import LecGen.XorTables
namespace Lec
namespace XorCheck

/-- the `t`-th generated table. -/
def tbl (t : Nat) : XorTable := LecGen.xorTables.getD t ⟨0, 0, 0, [], []⟩

theorem xorTables_length : LecGen.xorTables.length = 38 := by decide +kernel

theorem mem_tables {T : XorTable} (h : T ∈ LecGen.xorTables) : ∃ t, t < 38 ∧ T = tbl t := by
  obtain ⟨t, ht, e⟩ := List.getElem_of_mem h
  refine ⟨t, by rw [← xorTables_length]; exact ht, ?_⟩
  unfold tbl
  rw [getD_of_lt ht, e]

theorem all_tables {P : XorTable → Prop} (h : ∀ t, t < 38 → P (tbl t)) :
    ∀ T ∈ LecGen.xorTables, P T := by
  intro T hT
  obtain ⟨t, ht, rfl⟩ := mem_tables hT
  exact h t ht

theorem all_tables_of_check {f : XorTable → Bool} (h : LecGen.xorTables.all f = true) :
    ∀ T ∈ LecGen.xorTables, f T = true := by
  rw [List.all_eq_true] at h; exact h

/-! ### slots and well-formedness -/

/-- every slot of the C pointer tables has both its parity side and its data side non-NULL. -/
theorem slots_nonnull : ∀ s ∈ LecGen.xorSlots, s.2.2.2.1.isSome = true ∧ s.2.2.2.2.isSome = true := by
  have h : LecGen.xorSlots.all (fun s => s.2.2.2.1.isSome && s.2.2.2.2.isSome) = true := by
    decide +kernel
  intro s hs
  have := (List.all_eq_true.1 h) s hs
  simpa using this

theorem tables_wfB : LecGen.xorTables.all wfB = true := by decide +kernel

/-- sizes, ranges, and "both sides describe the same bipartite graph" for every generated table. -/
theorem tables_wf : ∀ T ∈ LecGen.xorTables, WF T :=
  fun T hT => wf_of_check (all_tables_of_check tables_wfB T hT)

/-! ### the whitelist -/

theorem tables_in_box :
    LecGen.xorTables.all (fun t => decide (t.k ≤ 20) && decide (t.m ≤ 6) && decide (t.hd ≤ 4)) = true := by
  decide +kernel

theorem whitelist_box :
    ((List.range 21).all fun k => (List.range 7).all fun m => (List.range 5).all fun hd =>
      xorShapeOK k m hd == (LecGen.xorTableFor hd m k).isSome) = true := by decide +kernel

/-- the generated table set is exactly the `init_xor_hd_code` whitelist (for all naturals
    `k m hd`, not only a box: outside `k ≤ 20, m ≤ 6, hd ≤ 4` both sides are false). -/
theorem whitelist (k m hd : Nat) : xorShapeOK k m hd = (LecGen.xorTableFor hd m k).isSome := by
  by_cases hbox : k ≤ 20 ∧ m ≤ 6 ∧ hd ≤ 4
  · have h := whitelist_box
    simp only [List.all_eq_true, List.mem_range, beq_iff_eq] at h
    exact h k (by omega) m (by omega) hd (by omega)
  · have h1 : xorShapeOK k m hd = false := by
      simp only [xorShapeOK, Bool.or_eq_false_iff, Bool.and_eq_false_iff, Bool.or_eq_false_iff,
        beq_eq_false_iff_ne, decide_eq_false_iff_not, ne_eq]
      omega
    have h2 : LecGen.xorTableFor hd m k = none := by
      unfold LecGen.xorTableFor
      rw [List.find?_eq_none]
      intro t ht
      have := all_tables_of_check tables_in_box t ht
      simp only [Bool.and_eq_true, decide_eq_true_eq] at this
      simp only [Bool.and_eq_true, beq_iff_eq, not_and]
      omega
    rw [h1, h2]; rfl

theorem tableFor_fields {k m hd : Nat} {T : XorTable} (h : LecGen.xorTableFor hd m k = some T) :
    T ∈ LecGen.xorTables ∧ T.k = k ∧ T.m = m ∧ T.hd = hd := by
  unfold LecGen.xorTableFor at h
  have h1 := List.find?_some h
  have h2 := List.mem_of_find?_eq_some h
  simp only [Bool.and_eq_true, beq_iff_eq] at h1
  exact ⟨h2, h1.2, h1.1.2, h1.1.1⟩

/-! ### base conditions of the plan checker -/

theorem tables_baseOK : LecGen.xorTables.all baseOK = true := by decide +kernel

theorem base_tbl {t : Nat} (ht : t < 38) : baseOK (tbl t) = true := by
  apply all_tables_of_check tables_baseOK
  unfold tbl
  rw [getD_of_lt (by rw [xorTables_length]; exact ht)]
  exact List.getElem_mem _

end XorCheck
end Lec

#print axioms Lec.XorCheck.slots_nonnull
#print axioms Lec.XorCheck.tables_wf
#print axioms Lec.XorCheck.whitelist
