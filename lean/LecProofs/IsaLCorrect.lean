/-
  LecProofs.IsaLCorrect — the ISA-L adapters (`isaBackend P k m ver`, LecModel.IsaL) over any
  library `P` that implements ISA-L's documented primitives (`IsaPrimsOK`) satisfy the same
  contracts as the built-in codes: encode, decode / reconstruct exactness whenever the library's
  inversion succeeds, return code -1 (never a fault, never wrong bytes) when it fails.

  * `IsaPrimsOK`                      : the contract on the primitives (field multiply, generator
                                         matrix with identity top, sound matrix inversion)
  * `isa_encodeOK`, `isa_parity_byte` : encode
  * `isa_decode_ok`, `isa_decode_fail`, `isa_reconstruct_ok`, `isa_reconstruct_fail`
  * `isa_decodeOK`, `isa_decodeSound`, `isa_errors_negative`, `isa_needed`
  All helper lemmas live in `namespace Lec.IsaL`.
-/
import LecModel.IsaL
import LecProofs.Contracts
import LecProofs.EncodeLemmas
import LecProofs.RSBackend
open Finset

namespace Lec

/-- what the adapters need from the five ISA-L primitives, relative to an embedding `φ` of byte
    values into a field `F`.  Nothing is assumed about *when* `invert` fails. -/
structure IsaPrimsOK (P : IsaPrims) (k m : Nat) {F : Type} [Field F] (φ : Nat → F) : Prop where
  inj : ∀ a b, a < 256 → b < 256 → φ a = φ b → a = b
  map_zero : φ 0 = 0
  map_one : φ 1 = 1
  map_xor : ∀ a b, a < 256 → b < 256 → φ (a ^^^ b) = φ a + φ b
  mul_lt : ∀ a b, a < 256 → b < 256 → P.mul a b < 256
  map_mul : ∀ a b, a < 256 → b < 256 → φ (P.mul a b) = φ a * φ b
  gen_len : (P.genMatrix k m).length = k + m
  gen_row_len : ∀ row ∈ P.genMatrix k m, row.length = k
  gen_lt : ∀ row ∈ P.genMatrix k m, ∀ x ∈ row, x < 256
  gen_ident : ∀ i j, i < k → j < k →
    ((P.genMatrix k m).getD i []).getD j 0 = if i = j then 1 else 0
  inv_ok : ∀ rows inv, rows.length = k → (∀ r ∈ rows, r.length = k ∧ ∀ x ∈ r, x < 256) →
    P.invert k rows = some inv →
    inv.length = k ∧ (∀ r ∈ inv, r.length = k ∧ ∀ x ∈ r, x < 256) ∧
    ∀ i j, i < k → j < k →
      ∑ l ∈ range k, φ ((inv.getD i []).getD l 0) * φ ((rows.getD l []).getD j 0) =
        if i = j then 1 else 0

/-- optional completeness of the library's inversion (not needed for soundness). -/
def IsaInvertComplete (P : IsaPrims) (k : Nat) {F : Type} [Field F] (φ : Nat → F) : Prop :=
  ∀ rows : List (List Nat), rows.length = k → (∀ r ∈ rows, r.length = k ∧ ∀ x ∈ r, x < 256) →
    (∃ N : Nat → Nat → F, ∀ i j, i < k → j < k →
      ∑ l ∈ range k, N i l * φ ((rows.getD l []).getD j 0) = if i = j then 1 else 0) →
    (P.invert k rows).isSome

namespace IsaL
variable {F : Type} [Field F]

/-! ### small list facts -/

theorem getD_lt {l : List Nat} (h : ∀ x ∈ l, x < 256) (i : Nat) : l.getD i 0 < 256 := by
  rw [List.getD_eq_getElem?_getD]
  cases hi : l[i]? with
  | none => simp
  | some v => simpa using h v (List.mem_of_getElem? hi)

theorem getD_mem_or {α : Type} (l : List α) (d : α) (i : Nat) : l.getD i d ∈ l ∨ l.getD i d = d := by
  rw [List.getD_eq_getElem?_getD]
  cases hi : l[i]? with
  | none => right; rfl
  | some v => left; simpa using List.mem_of_getElem? hi

theorem getD_set {α : Type} (l : List α) (i j : Nat) (x d : α) :
    (l.set i x).getD j d = if i = j ∧ i < l.length then x else l.getD j d := by
  rw [List.getD_eq_getElem?_getD, List.getD_eq_getElem?_getD, List.getElem?_set]
  by_cases h : i = j
  · subst h
    by_cases h2 : i < l.length
    · simp [h2]
    · simp [h2]
  · simp [h]

theorem zipWith_getD (f : Nat → Nat → Nat) {l1 l2 : List Nat} {a : Nat} (h1 : a < l1.length)
    (h2 : a < l2.length) :
    (List.zipWith f l1 l2).getD a 0 = f (l1.getD a 0) (l2.getD a 0) := by
  rw [getD_eq_getElem' (l := List.zipWith f l1 l2) (by simp; omega),
    getD_eq_getElem' (l := l1) h1, getD_eq_getElem' (l := l2) h2, List.getElem_zipWith]

theorem zip_sum_range {M : Type} [AddCommMonoid M] (f : Nat → Bytes → M) :
    ∀ (n : Nat) (l1 : List Nat) (l2 : List Bytes), l1.length = n → l2.length = n →
      ((List.zip l1 l2).map fun p => f p.1 p.2).sum = ∑ j ∈ range n, f (l1.getD j 0) (l2.getD j [])
  | 0, l1, l2, h1, h2 => by
    rw [List.length_eq_zero_iff.mp h1]; simp
  | n + 1, [], _, h1, _ => by simp at h1
  | n + 1, _ :: _, [], _, h2 => by simp at h2
  | n + 1, a :: l1, b :: l2, h1, h2 => by
    rw [List.zip_cons_cons, List.map_cons, List.sum_cons, Finset.sum_range_succ', add_comm,
      zip_sum_range f n l1 l2 (by simpa using h1) (by simpa using h2)]
    simp only [List.getD_cons_zero, List.getD_cons_succ]

theorem filter_range_getD (p : Nat → Bool) {t k : Nat} (ht : t < k) (hp : p t = true) :
    ((List.range k).filter p).getD ((List.range t).filter p).length 0 = t := by
  have hk : k = t + ((k - t - 1) + 1) := by omega
  rw [hk, List.range_add, List.range_succ_eq_map, List.map_cons, List.filter_append,
    List.filter_cons, Nat.add_zero, if_pos hp, getD_append_right' (Nat.le_refl _), Nat.sub_self,
    List.getD_cons_zero]

theorem filter_range_succ (p : Nat → Bool) (t : Nat) :
    (List.range (t + 1)).filter p = (List.range t).filter p ++ (if p t then [t] else []) := by
  rw [List.range_succ, List.filter_append]
  congr 1
  simp only [List.filter_cons, List.filter_nil]

/-! ### `ec_encode_data` in field terms -/

/-- value of byte `b` of a buffer. -/
def bv (x : Bytes) (b : Nat) : Nat := (x.getD b 0).toNat

theorem bv_lt (x : Bytes) (b : Nat) : bv x b < 256 := (x.getD b 0).toNat_lt

/-- one output byte of `ec_encode_data`. -/
def dotByte (P : IsaPrims) (row : List Nat) (srcs : List Bytes) (b : Nat) : UInt8 :=
  (List.zip row srcs).foldl (fun (acc : UInt8) (p : Nat × Bytes) =>
    acc ^^^ UInt8.ofNat (P.mul p.1 ((p.2.getD b 0).toNat))) 0

/-- one output buffer of `ec_encode_data`. -/
def applyRow (P : IsaPrims) (srcs : List Bytes) (len : Nat) (row : List Nat) : Bytes :=
  (List.range len).map (dotByte P row srcs)

theorem isaEncodeData_eq (P : IsaPrims) (rows : List (List Nat)) (srcs : List Bytes) (len : Nat) :
    isaEncodeData P rows srcs len = rows.map (applyRow P srcs len) := rfl

theorem applyRow_length (P : IsaPrims) (srcs : List Bytes) (len : Nat) (row : List Nat) :
    (applyRow P srcs len row).length = len := by simp [applyRow]

theorem bv_applyRow (P : IsaPrims) (srcs : List Bytes) {len b : Nat} (row : List Nat)
    (hb : b < len) : bv (applyRow P srcs len row) b = (dotByte P row srcs b).toNat := by
  unfold bv applyRow
  rw [getD_eq_getElem' (by simpa using hb)]
  simp

theorem dotFold_spec {P : IsaPrims} {k m : Nat} {φ : Nat → F} (hP : IsaPrimsOK P k m φ) (b : Nat) :
    ∀ (l : List (Nat × Bytes)) (acc : UInt8), (∀ p ∈ l, p.1 < 256) →
      φ (l.foldl (fun (acc : UInt8) (p : Nat × Bytes) =>
          acc ^^^ UInt8.ofNat (P.mul p.1 ((p.2.getD b 0).toNat))) acc).toNat =
        φ acc.toNat + (l.map fun p => φ p.1 * φ (bv p.2 b)).sum := by
  intro l
  induction l with
  | nil => intro acc _; simp
  | cons p l ih =>
    intro acc hl
    have hp : p.1 < 256 := hl p (by simp)
    have hv : P.mul p.1 (bv p.2 b) < 256 := hP.mul_lt _ _ hp (bv_lt _ _)
    rw [List.foldl_cons, ih _ (fun q hq => hl q (by simp [hq])), List.map_cons, List.sum_cons,
      ← add_assoc]
    congr 1
    have : (acc ^^^ UInt8.ofNat (P.mul p.1 ((p.2.getD b 0).toNat))).toNat =
        acc.toNat ^^^ P.mul p.1 (bv p.2 b) := by
      rw [UInt8.toNat_xor, UInt8.toNat_ofNat']
      congr 1
      exact Nat.mod_eq_of_lt hv
    rw [this, hP.map_xor _ _ acc.toNat_lt hv, hP.map_mul _ _ hp (bv_lt _ _)]

/-- output byte `b` is `Σ_j row_j · src_j[b]` in `F`. -/
theorem dotByte_spec {P : IsaPrims} {k m : Nat} {φ : Nat → F} (hP : IsaPrimsOK P k m φ)
    {row : List Nat} {srcs : List Bytes} (hrl : row.length = k) (hsl : srcs.length = k)
    (hrb : ∀ x ∈ row, x < 256) (b : Nat) :
    φ (dotByte P row srcs b).toNat =
      ∑ j ∈ range k, φ (row.getD j 0) * φ (bv (srcs.getD j []) b) := by
  unfold dotByte
  rw [dotFold_spec hP b _ 0 (by intro p hp; exact hrb _ (List.of_mem_zip hp).1)]
  have h0 : φ (0 : UInt8).toNat = 0 := by
    have : (0 : UInt8).toNat = 0 := rfl
    rw [this, hP.map_zero]
  rw [h0, zero_add]
  exact zip_sum_range (fun c s => φ c * φ (bv s b)) k row srcs hrl hsl

/-- buffers of equal length are equal when all their bytes agree in `F`. -/
theorem bytes_eq_of_phi {P : IsaPrims} {k m : Nat} {φ : Nat → F} (hP : IsaPrimsOK P k m φ)
    {x y : Bytes} {n : Nat} (hx : x.length = n) (hy : y.length = n)
    (h : ∀ b < n, φ (bv x b) = φ (bv y b)) : x = y := by
  apply List.ext_getElem (by rw [hx, hy])
  intro i h1 h2
  have := hP.inj _ _ (bv_lt x i) (bv_lt y i) (h i (by rw [← hx]; exact h1))
  unfold bv at this
  rw [getD_eq_getElem' h1, getD_eq_getElem' h2] at this
  exact UInt8.toNat_inj.mp this

/-! ### the generator -/

/-- generator coefficient (row `r`, column `j`) as a byte value. -/
def ge (P : IsaPrims) (k m r j : Nat) : Nat := ((P.genMatrix k m).getD r []).getD j 0

theorem gen_row {P : IsaPrims} {k m : Nat} {φ : Nat → F} (hP : IsaPrimsOK P k m φ) {r : Nat}
    (hr : r < k + m) :
    ((P.genMatrix k m).getD r []).length = k ∧ ∀ x ∈ (P.genMatrix k m).getD r [], x < 256 := by
  have h : r < (P.genMatrix k m).length := by rw [hP.gen_len]; exact hr
  rw [getD_eq_getElem' h]
  exact ⟨hP.gen_row_len _ (List.getElem_mem h), hP.gen_lt _ (List.getElem_mem h)⟩

theorem ge_lt {P : IsaPrims} {k m : Nat} {φ : Nat → F} (hP : IsaPrimsOK P k m φ) (r j : Nat) :
    ge P k m r j < 256 := by
  unfold ge
  rcases getD_mem_or (P.genMatrix k m) [] r with h | h
  · exact getD_lt (hP.gen_lt _ h) j
  · rw [h]; simp

/-! ### encode -/

theorem putPrefix_exact {buf v : Bytes} (h : buf.length = v.length) : putPrefix buf v = v := by
  unfold putPrefix
  rw [← h, List.drop_length, List.append_nil]

theorem zip_putPrefix {bs : Nat} : ∀ (p out : List Bytes), p.length = out.length →
    (∀ x ∈ p, x.length = bs) → (∀ x ∈ out, x.length = bs) →
    (List.zip p out).map (fun (x : Bytes × Bytes) => putPrefix x.1 x.2) = out
  | [], [], _, _, _ => rfl
  | [], _ :: _, h, _, _ => by simp at h
  | _ :: _, [], h, _, _ => by simp at h
  | a :: p, b :: out, h, hp, ho => by
    rw [List.zip_cons_cons, List.map_cons,
      zip_putPrefix p out (by simpa using h) (fun x hx => hp x (by simp [hx]))
        (fun x hx => ho x (by simp [hx])),
      putPrefix_exact (by rw [hp a (by simp), ho b (by simp)])]

theorem isaEncode_eq {P : IsaPrims} {k m bs : Nat} {φ : Nat → F} (hP : IsaPrimsOK P k m φ)
    {d p : List Bytes} (hpl : p.length = m) (hd : ∀ x ∈ d, x.length = bs)
    (hp : ∀ x ∈ p, x.length = bs) :
    isaEncode P k m d p bs = some (((P.genMatrix k m).drop k).map (applyRow P d bs)) := by
  unfold isaEncode
  have h1 : d.any (·.length < bs) = false := any_short_false hd
  have h2 : p.any (·.length < bs) = false := any_short_false hp
  rw [h1, h2]
  simp only [Bool.or_self, Bool.false_eq_true, if_false, isaEncodeData_eq]
  congr 1
  apply zip_putPrefix (bs := bs)
  · rw [List.length_map, List.length_drop, hP.gen_len, hpl]; omega
  · exact hp
  · intro x hx
    obtain ⟨row, _, rfl⟩ := List.mem_map.mp hx
    exact applyRow_length ..

theorem isa_encode_iff (P : IsaPrims) (k m ver : Nat) (d p : List Bytes) (bs : Nat)
    (d' p' : List Bytes) :
    (isaBackend P k m ver).encode d p bs = .ok (d', p') ↔
      d' = d ∧ isaEncode P k m d p bs = some p' := by
  show (match isaEncode P k m d p bs with
    | some p' => (.ok (d, p') : R (List Bytes × List Bytes))
    | none => .error .crash) = .ok (d', p') ↔ _
  cases isaEncode P k m d p bs with
  | none => simp
  | some v =>
    simp only [Except.ok.injEq, Prod.mk.injEq, Option.some.injEq]
    constructor
    · rintro ⟨h1, h2⟩; exact ⟨h1.symm, h2⟩
    · rintro ⟨h1, h2⟩; exact ⟨h1.symm, h2⟩

/-! ### stripes -/

/-- a consistent stripe of the ISA-L adapters over primitives satisfying the contract. -/
structure IStripe (P : IsaPrims) (k m : Nat) (φ : Nat → F) (bs : Nat) (data parity : List Bytes) :
    Prop where
  ok : IsaPrimsOK P k m φ
  dlen : data.length = k
  dsz : ∀ x ∈ data, x.length = bs
  plen : parity.length = m
  psz : ∀ x ∈ parity, x.length = bs
  par : ∀ i < m, parity.getD i [] = applyRow P data bs ((P.genMatrix k m).getD (k + i) [])

theorem IStripe.of_isStripe {P : IsaPrims} {k m ver bs : Nat} {φ : Nat → F}
    (hP : IsaPrimsOK P k m φ) {dataP parP : List Bytes}
    (h : IsStripe (isaBackend P k m ver) k m bs dataP parP) : IStripe P k m φ bs dataP parP := by
  have henc := ((isa_encode_iff P k m ver _ _ bs _ _).mp h.enc).2
  rw [isaEncode_eq hP (List.length_replicate ..) h.dsz
    (by intro x hx; rw [(List.mem_replicate.mp hx).2]; simp [zeros]), Option.some.injEq] at henc
  refine ⟨hP, h.dlen, h.dsz, h.plen, h.psz, ?_⟩
  intro i hi
  have hil : i < ((P.genMatrix k m).drop k).length := by
    rw [List.length_drop, hP.gen_len]; omega
  rw [← henc, rs_getD_map' _ _ [] _ hil]
  congr 1
  rw [List.getD_eq_getElem?_getD, List.getD_eq_getElem?_getD, List.getElem?_drop]

theorem IStripe.data_length {P : IsaPrims} {k m bs : Nat} {φ : Nat → F} {data parity : List Bytes}
    (st : IStripe P k m φ bs data parity) {i : Nat} (hi : i < k) : (data.getD i []).length = bs := by
  have h : i < data.length := by rw [st.dlen]; exact hi
  rw [getD_eq_getElem' h]; exact st.dsz _ (List.getElem_mem h)

theorem IStripe.parity_length {P : IsaPrims} {k m bs : Nat} {φ : Nat → F}
    {data parity : List Bytes} (st : IStripe P k m φ bs data parity) {i : Nat} (hi : i < m) :
    (parity.getD i []).length = bs := by
  have h : i < parity.length := by rw [st.plen]; exact hi
  rw [getD_eq_getElem' h]; exact st.psz _ (List.getElem_mem h)

theorem IStripe.bufAt_length {P : IsaPrims} {k m bs : Nat} {φ : Nat → F}
    {data parity : List Bytes} (st : IStripe P k m φ bs data parity) {r : Nat} (hr : r < k + m) :
    (bufAt data parity k r).length = bs := by
  unfold bufAt
  split
  · rename_i h; exact st.data_length h
  · exact st.parity_length (by omega)

/-- every code symbol is the generator row applied to the data bytes. -/
theorem IStripe.sym {P : IsaPrims} {k m bs : Nat} {φ : Nat → F} {data parity : List Bytes}
    (st : IStripe P k m φ bs data parity) {r : Nat} (hr : r < k + m) {b : Nat} (hb : b < bs) :
    φ (bv (bufAt data parity k r) b) =
      ∑ j ∈ range k, φ (ge P k m r j) * φ (bv (data.getD j []) b) := by
  unfold bufAt
  by_cases hrk : r < k
  · rw [if_pos hrk]
    have hterm : ∀ j ∈ range k, φ (ge P k m r j) * φ (bv (data.getD j []) b) =
        if r = j then φ (bv (data.getD j []) b) else 0 := by
      intro j hj
      unfold ge
      rw [st.ok.gen_ident r j hrk (by simpa using hj)]
      split
      · rw [st.ok.map_one, one_mul]
      · rw [st.ok.map_zero, zero_mul]
    rw [Finset.sum_congr rfl hterm, Finset.sum_ite_eq, if_pos (by simpa using hrk)]
  · rw [if_neg hrk, st.par (r - k) (by omega), bv_applyRow _ _ _ hb]
    have h2 : k + (r - k) = r := by omega
    rw [h2]
    obtain ⟨g1, g2⟩ := gen_row st.ok hr
    exact dotByte_spec st.ok g1 st.dlen g2 b

/-! ### the inverse -/

/-- what a successful `invert` of the available rows provides. -/
structure InvOK (P : IsaPrims) (k m : Nat) (φ : Nat → F) (missing : List Nat)
    (inv : List (List Nat)) : Prop where
  len : inv.length = k
  row : ∀ i < k, (inv.getD i []).length = k ∧ ∀ x ∈ inv.getD i [], x < 256
  mul : ∀ i j, i < k → j < k →
    ∑ l ∈ range k, φ ((inv.getD i []).getD l 0) * φ (ge P k m ((availOf k m missing).getD l 0) j) =
      if i = j then 1 else 0

/-- the rows handed to `invert`. -/
def availRows (P : IsaPrims) (k m : Nat) (missing : List Nat) : List (List Nat) :=
  (availOf k m missing).map fun r => (P.genMatrix k m).getD r []

theorem InvOK.of_invert {P : IsaPrims} {k m : Nat} {φ : Nat → F} (hP : IsaPrimsOK P k m φ)
    {missing : List Nat} (hlen : missing.length ≤ m) {inv : List (List Nat)}
    (h : P.invert k (availRows P k m missing) = some inv) : InvOK P k m φ missing inv := by
  have hal := availOf_length (k := k) hlen
  have hrows : ∀ r ∈ availRows P k m missing, r.length = k ∧ ∀ x ∈ r, x < 256 := by
    intro r hr
    obtain ⟨a, ha, rfl⟩ := List.mem_map.mp hr
    exact gen_row hP (availOf_mem ha).1
  obtain ⟨h1, h2, h3⟩ := hP.inv_ok _ inv (by simp [availRows, hal]) hrows h
  refine ⟨h1, ?_, ?_⟩
  · intro i hi
    have hi' : i < inv.length := by rw [h1]; exact hi
    rw [getD_eq_getElem' hi']
    exact h2 _ (List.getElem_mem hi')
  · intro i j hi hj
    rw [← h3 i j hi hj]
    apply Finset.sum_congr rfl
    intro l hl
    have hl' : l < (availOf k m missing).length := by rw [hal]; simpa using hl
    unfold availRows ge
    rw [rs_getD_map' _ _ 0 _ hl']

/-- `Σ_a inv[i][a] · c_{avail a} = d_i`. -/
theorem IStripe.recover {P : IsaPrims} {k m bs : Nat} {φ : Nat → F} {data parity : List Bytes}
    (st : IStripe P k m φ bs data parity) {missing : List Nat} (hlen : missing.length ≤ m)
    {inv : List (List Nat)} (hinv : InvOK P k m φ missing inv) {i : Nat} (hi : i < k) {b : Nat}
    (hb : b < bs) :
    ∑ a ∈ range k, φ ((inv.getD i []).getD a 0) *
        φ (bv (bufAt data parity k ((availOf k m missing).getD a 0)) b) =
      φ (bv (data.getD i []) b) := by
  have hal := availOf_length (k := k) hlen
  have hterm : ∀ a ∈ range k, φ ((inv.getD i []).getD a 0) *
      φ (bv (bufAt data parity k ((availOf k m missing).getD a 0)) b) =
      ∑ j ∈ range k, φ ((inv.getD i []).getD a 0) *
        φ (ge P k m ((availOf k m missing).getD a 0) j) * φ (bv (data.getD j []) b) := by
    intro a ha
    have ha' : a < (availOf k m missing).length := by rw [hal]; simpa using ha
    have hr : (availOf k m missing).getD a 0 < k + m := by
      rw [getD_eq_getElem' ha']; exact (availOf_mem (List.getElem_mem ha')).1
    rw [st.sym hr hb, Finset.mul_sum]
    apply Finset.sum_congr rfl
    intro j _; ring
  rw [Finset.sum_congr rfl hterm, Finset.sum_comm]
  have h2 : ∀ j ∈ range k, ∑ a ∈ range k, φ ((inv.getD i []).getD a 0) *
      φ (ge P k m ((availOf k m missing).getD a 0) j) * φ (bv (data.getD j []) b) =
      if i = j then φ (bv (data.getD j []) b) else 0 := by
    intro j hj
    rw [← Finset.sum_mul, hinv.mul i j hi (by simpa using hj)]
    split
    · rw [one_mul]
    · rw [zero_mul]
  rw [Finset.sum_congr rfl h2, Finset.sum_ite_eq, if_pos (by simpa using hi)]

/-! ### `get_inverse_rows` -/

/-- missing data indexes, ascending. -/
def mdOf (k : Nat) (missing : List Nat) : List Nat := (List.range k).filter (missing.contains ·)
/-- missing parity numbers, ascending. -/
def mpOf (k m : Nat) (missing : List Nat) : List Nat :=
  (List.range m).filter fun i => missing.contains (k + i)
/-- the fragments rebuilt by decode, in the order of the rows of `isaInverseRows`. -/
def targetsOf (k m : Nat) (missing : List Nat) : List Nat :=
  mdOf k missing ++ (mpOf k m missing).map (· + k)

/-- one column of the construction of a missing-parity row. -/
def parStep (P : IsaPrims) (k : Nat) (missing : List Nat) (grow : List Nat)
    (dataRows : List (List Nat)) (st : List Nat × Nat × Nat) (j : Nat) : List Nat × Nat × Nat :=
  if !missing.contains j then
    (st.1.set st.2.1 ((st.1.getD st.2.1 0) ^^^ (grow.getD j 0)), st.2.1 + 1, st.2.2)
  else
    (List.zipWith (fun r x => r ^^^ P.mul (grow.getD j 0) x) st.1
      (dataRows.getD st.2.2 (List.replicate k 0)), st.2.1, st.2.2 + 1)

def parSt (P : IsaPrims) (k : Nat) (missing : List Nat) (grow : List Nat)
    (dataRows : List (List Nat)) (t : Nat) : List Nat × Nat × Nat :=
  (List.range t).foldl (parStep P k missing grow dataRows) (List.replicate k 0, 0, 0)

def parRow (P : IsaPrims) (k : Nat) (missing : List Nat) (grow : List Nat)
    (dataRows : List (List Nat)) : List Nat := (parSt P k missing grow dataRows k).1

theorem isaInverseRows_eq (P : IsaPrims) (k m : Nat) (inv G : List (List Nat))
    (missing : List Nat) :
    isaInverseRows P k m inv G missing =
      (mdOf k missing).map (fun i => inv.getD i []) ++
      (mpOf k m missing).map (fun pi => parRow P k missing (G.getD (k + pi) [])
        ((mdOf k missing).map fun i => inv.getD i [])) := rfl

theorem parSt_succ (P : IsaPrims) (k : Nat) (missing grow : List Nat)
    (dataRows : List (List Nat)) (t : Nat) :
    parSt P k missing grow dataRows (t + 1) =
      parStep P k missing grow dataRows (parSt P k missing grow dataRows t) t := by
  unfold parSt
  rw [List.range_succ, List.foldl_append]
  rfl

theorem filter_range_pos (p : Nat → Bool) {t k : Nat} (ht : t < k) (hp : p t = true) :
    ((List.range t).filter p).length < ((List.range k).filter p).length := by
  have hk : k = t + ((k - t - 1) + 1) := by omega
  rw [hk, List.range_add, List.range_succ_eq_map, List.map_cons, List.filter_append,
    List.filter_cons, Nat.add_zero, if_pos hp, List.length_append, List.length_cons]
  omega

theorem replicate_getD_zero (k a : Nat) : (List.replicate k 0).getD a 0 = 0 := by
  rw [List.getD_eq_getElem?_getD, List.getElem?_replicate]
  split <;> rfl

theorem parSt_spec {P : IsaPrims} {k m : Nat} {φ : Nat → F} (hP : IsaPrimsOK P k m φ)
    {missing : List Nat} {inv : List (List Nat)} {grow : List Nat}
    (hrow : ∀ i < k, (inv.getD i []).length = k ∧ ∀ x ∈ inv.getD i [], x < 256)
    (hgrow : ∀ j, grow.getD j 0 < 256) :
    ∀ t, t ≤ k →
      (parSt P k missing grow ((mdOf k missing).map fun i => inv.getD i []) t).2.1 =
        ((List.range t).filter (fun j => !missing.contains j)).length ∧
      (parSt P k missing grow ((mdOf k missing).map fun i => inv.getD i []) t).2.2 =
        ((List.range t).filter (missing.contains ·)).length ∧
      (parSt P k missing grow ((mdOf k missing).map fun i => inv.getD i []) t).1.length = k ∧
      (∀ x ∈ (parSt P k missing grow ((mdOf k missing).map fun i => inv.getD i []) t).1, x < 256) ∧
      ∀ a < k,
        φ ((parSt P k missing grow ((mdOf k missing).map fun i => inv.getD i []) t).1.getD a 0) =
          (if a < ((List.range t).filter (fun j => !missing.contains j)).length then
            φ (grow.getD (((List.range k).filter (fun j => !missing.contains j)).getD a 0) 0)
           else 0) +
          ∑ j ∈ (range t).filter (fun j => j ∈ missing),
            φ (grow.getD j 0) * φ ((inv.getD j []).getD a 0) := by
  intro t
  induction t with
  | zero =>
    intro _
    refine ⟨rfl, rfl, by simp [parSt], ?_, ?_⟩
    · intro x hx
      simp only [parSt, List.range_zero, List.foldl_nil] at hx
      rw [(List.mem_replicate.mp hx).2]; norm_num
    · intro a _
      simp only [parSt, List.range_zero, List.foldl_nil, List.filter_nil, List.length_nil,
        Nat.not_lt_zero, if_false, Finset.range_zero, Finset.filter_empty, Finset.sum_empty,
        add_zero]
      rw [replicate_getD_zero, hP.map_zero]
  | succ t ih =>
    intro ht
    obtain ⟨i1, i2, i3, i4, i5⟩ := ih (by omega)
    have htk : t < k := by omega
    rw [parSt_succ]
    generalize parSt P k missing grow ((mdOf k missing).map fun i => inv.getD i []) t = st at *
    obtain ⟨row, av, un⟩ := st
    simp only at i1 i2 i3 i4 i5
    have havle : av ≤ t := by
      rw [i1]
      have := List.length_filter_le (fun j => !missing.contains j) (List.range t)
      rwa [List.length_range] at this
    by_cases hc : missing.contains t = true
    · -- a missing data column: add coefficient * inverse row
      have hmem : t ∈ missing := by simpa using hc
      have hstep : parStep P k missing grow ((mdOf k missing).map fun i => inv.getD i [])
          (row, av, un) t =
          (List.zipWith (fun r x => r ^^^ P.mul (grow.getD t 0) x) row (inv.getD t []), av,
            un + 1) := by
        unfold parStep
        rw [if_neg (by simp [hmem])]
        have hun : un < (mdOf k missing).length := by
          rw [i2]; exact filter_range_pos (missing.contains ·) htk hc
        have hget : (mdOf k missing).getD un 0 = t := by
          rw [i2]; exact filter_range_getD (missing.contains ·) htk hc
        simp only
        rw [rs_getD_map' _ _ 0 _ hun, hget]
      rw [hstep]
      obtain ⟨hl, hb⟩ := hrow t htk
      have hlen : (List.zipWith (fun r x => r ^^^ P.mul (grow.getD t 0) x) row
          (inv.getD t [])).length = k := by
        rw [List.length_zipWith, i3, hl]; simp
      have hget : ∀ a, a < k → (List.zipWith (fun r x => r ^^^ P.mul (grow.getD t 0) x) row
          (inv.getD t [])).getD a 0 =
          row.getD a 0 ^^^ P.mul (grow.getD t 0) ((inv.getD t []).getD a 0) := by
        intro a ha
        exact zipWith_getD _ (by rw [i3]; exact ha) (by rw [hl]; exact ha)
      have hrowlt : ∀ a, row.getD a 0 < 256 := getD_lt i4
      have hinvlt : ∀ a, (inv.getD t []).getD a 0 < 256 := getD_lt hb
      refine ⟨?_, ?_, hlen, ?_, ?_⟩
      · simp only
        rw [filter_range_succ, i1]
        simp [hmem]
      · simp only
        rw [filter_range_succ, i2]
        simp [hmem]
      · intro x hx
        obtain ⟨a, ha, rfl⟩ := List.mem_iff_getElem.mp hx
        have ha' : a < k := by rwa [hlen] at ha
        rw [← getD_eq_getElem' (d := 0) ha, hget a ha']
        exact Nat.xor_lt_two_pow (n := 8) (hrowlt a) (hP.mul_lt _ _ (hgrow t) (hinvlt a))
      · intro a ha
        simp only
        rw [hget a ha, hP.map_xor _ _ (hrowlt a) (hP.mul_lt _ _ (hgrow t) (hinvlt a)),
          hP.map_mul _ _ (hgrow t) (hinvlt a), i5 a ha, Finset.range_add_one, Finset.filter_insert,
          if_pos hmem, Finset.sum_insert (by simp), filter_range_succ]
        have : ((fun j => !missing.contains j) t) = false := by simp [hmem]
        simp only [this, Bool.false_eq_true, if_false, List.append_nil]
        ring
    · -- an available data column: its coefficient goes to the next free position
      have hnmem : t ∉ missing := by simpa using hc
      have hc' : (!missing.contains t) = true := by simp [hnmem]
      have hstep : parStep P k missing grow ((mdOf k missing).map fun i => inv.getD i [])
          (row, av, un) t =
          (row.set av ((row.getD av 0) ^^^ (grow.getD t 0)), av + 1, un) := by
        unfold parStep
        rw [if_pos hc']
      rw [hstep]
      have hrowlt : ∀ a, row.getD a 0 < 256 := getD_lt i4
      have hvlt : row.getD av 0 ^^^ grow.getD t 0 < 256 :=
        Nat.xor_lt_two_pow (n := 8) (hrowlt av) (hgrow t)
      have havk : av < row.length := by rw [i3]; omega
      refine ⟨?_, ?_, by simp only; rw [List.length_set, i3], ?_, ?_⟩
      · simp only
        rw [filter_range_succ, i1]
        simp [hnmem]
      · simp only
        rw [filter_range_succ, i2]
        simp [hnmem]
      · intro x hx
        rcases List.mem_or_eq_of_mem_set hx with h | h
        · exact i4 x h
        · rw [h]; exact hvlt
      · intro a ha
        simp only
        have hlen' : ((List.range (t + 1)).filter (fun j => !missing.contains j)).length = av + 1 := by
          rw [filter_range_succ, i1]; simp [hnmem]
        rw [getD_set, hlen', Finset.range_add_one, Finset.filter_insert, if_neg hnmem]
        by_cases haa : av = a
        · subst haa
          rw [if_pos ⟨rfl, havk⟩, hP.map_xor _ _ (hrowlt av) (hgrow t), i5 av ha,
            if_neg (by rw [← i1]; omega), if_pos (by omega)]
          have : ((List.range k).filter (fun j => !missing.contains j)).getD av 0 = t := by
            rw [i1]; exact filter_range_getD (fun j => !missing.contains j) htk hc'
          rw [this]
          ring
        · rw [if_neg (by intro h; exact haa h.1), i5 a ha]
          have : (a < av + 1) ↔ (a < ((List.range t).filter (fun j => !missing.contains j)).length) := by
            rw [← i1]; omega
          simp only [this]

/-- the finished missing-parity row. -/
theorem parRow_spec {P : IsaPrims} {k m : Nat} {φ : Nat → F} (hP : IsaPrimsOK P k m φ)
    {missing : List Nat} {inv : List (List Nat)} {grow : List Nat}
    (hrow : ∀ i < k, (inv.getD i []).length = k ∧ ∀ x ∈ inv.getD i [], x < 256)
    (hgrow : ∀ j, grow.getD j 0 < 256) :
    (parRow P k missing grow ((mdOf k missing).map fun i => inv.getD i [])).length = k ∧
    (∀ x ∈ parRow P k missing grow ((mdOf k missing).map fun i => inv.getD i []), x < 256) ∧
    ∀ a < k, φ ((parRow P k missing grow ((mdOf k missing).map fun i => inv.getD i [])).getD a 0) =
      (if a < ((List.range k).filter (fun j => !missing.contains j)).length then
        φ (grow.getD (((List.range k).filter (fun j => !missing.contains j)).getD a 0) 0) else 0) +
      ∑ j ∈ (range k).filter (fun j => j ∈ missing),
        φ (grow.getD j 0) * φ ((inv.getD j []).getD a 0) := by
  obtain ⟨_, _, h3, h4, h5⟩ := parSt_spec hP (missing := missing) hrow hgrow k (Nat.le_refl k)
  exact ⟨h3, h4, h5⟩

/-- the missing-parity row applied to the available symbols gives the parity symbol. -/
theorem IStripe.recover_parity {P : IsaPrims} {k m bs : Nat} {φ : Nat → F}
    {data parity : List Bytes} (st : IStripe P k m φ bs data parity) {missing : List Nat}
    (hlen : missing.length ≤ m) {inv : List (List Nat)} (hinv : InvOK P k m φ missing inv)
    {pi : Nat} (hpi : pi < m) {b : Nat} (hb : b < bs) :
    ∑ a ∈ range k,
        φ ((parRow P k missing ((P.genMatrix k m).getD (k + pi) [])
          ((mdOf k missing).map fun i => inv.getD i [])).getD a 0) *
        φ (bv (bufAt data parity k ((availOf k m missing).getD a 0)) b) =
      φ (bv (parity.getD pi []) b) := by
  have hal := availOf_length (k := k) hlen
  obtain ⟨g1, g2⟩ := gen_row st.ok (r := k + pi) (by omega)
  obtain ⟨_, _, r3⟩ := parRow_spec st.ok (missing := missing) hinv.row
    (grow := (P.genMatrix k m).getD (k + pi) []) (getD_lt g2)
  set A := (List.range k).filter (fun j => !missing.contains j) with hA
  have hAle : A.length ≤ k := by
    have := List.length_filter_le (fun j => !missing.contains j) (List.range k)
    rw [List.length_range] at this
    exact this
  have hAnd : A.Nodup := List.nodup_range.filter _
  have hAlt : ∀ j ∈ A, j < k := by
    intro j hj
    have := (List.mem_filter.mp hj).1
    simpa using this
  set c : ℕ → F := fun a => φ (bv (bufAt data parity k ((availOf k m missing).getD a 0)) b) with hc
  set H : ℕ → F := fun j => φ (ge P k m (k + pi) j) * φ (bv (data.getD j []) b) with hH
  have hstep : ∀ a ∈ range k,
      φ ((parRow P k missing ((P.genMatrix k m).getD (k + pi) [])
          ((mdOf k missing).map fun i => inv.getD i [])).getD a 0) * c a =
      (if a < A.length then H (A.getD a 0) else 0) +
        ∑ j ∈ (range k).filter (fun j => j ∈ missing),
          φ (ge P k m (k + pi) j) * (φ ((inv.getD j []).getD a 0) * c a) := by
    intro a ha
    have hak : a < k := by simpa using ha
    rw [r3 a hak, add_mul, Finset.sum_mul]
    congr 1
    · by_cases hlt : a < A.length
      · rw [if_pos hlt, if_pos hlt]
        have hj : A.getD a 0 < k := by
          rw [getD_eq_getElem' hlt]; exact hAlt _ (List.getElem_mem hlt)
        simp only [hc, hH]
        rw [availOf_prefix k m missing hlt]
        unfold bufAt ge
        rw [if_pos hj]
      · rw [if_neg hlt, if_neg hlt, zero_mul]
    · apply Finset.sum_congr rfl
      intro j _
      unfold ge
      ring
  rw [Finset.sum_congr rfl hstep, Finset.sum_add_distrib, Finset.sum_comm]
  have hpart2 : ∑ j ∈ (range k).filter (fun j => j ∈ missing), ∑ a ∈ range k,
      φ (ge P k m (k + pi) j) * (φ ((inv.getD j []).getD a 0) * c a) =
      ∑ j ∈ (range k).filter (fun j => j ∈ missing), H j := by
    apply Finset.sum_congr rfl
    intro j hj
    have hjk : j < k := by simpa using (Finset.mem_filter.mp hj).1
    rw [← Finset.mul_sum]
    simp only [hc]
    rw [st.recover hlen hinv hjk hb]
  have hpart1 : ∑ a ∈ range k, (if a < A.length then H (A.getD a 0) else 0) =
      ∑ j ∈ (range k).filter (fun j => j ∉ missing), H j := by
    have hset : A.toFinset = (range k).filter (fun j => j ∉ missing) := by
      ext j; simp [hA]
    rw [← hset, List.sum_toFinset _ hAnd, ← sum_range_getD H A,
      ← Finset.sum_subset (Finset.range_subset_range.mpr hAle)
      (by intro a _ ha
          have : ¬ a < A.length := by simpa using ha
          rw [if_neg this])]
    apply Finset.sum_congr rfl
    intro a ha
    rw [if_pos (by simpa using ha)]
  have hset2 : (range k).filter (fun j => j ∈ missing) =
      (range k).filter (fun j => ¬ j ∉ missing) := by
    ext j; simp
  rw [hpart1, hpart2, hset2, Finset.sum_filter_add_sum_filter_not]
  have hsym := st.sym (r := k + pi) (by omega) hb
  unfold bufAt at hsym
  rw [if_neg (by omega), Nat.add_sub_cancel_left] at hsym
  rw [hsym]

/-- the sources of decode / reconstruct. -/
def srcsOf (data parity : List Bytes) (k m : Nat) (missing : List Nat) : List Bytes :=
  (availOf k m missing).map fun i => bufAt data parity k i

theorem srcsOf_length {data parity : List Bytes} {k m : Nat} {missing : List Nat}
    (hlen : missing.length ≤ m) : (srcsOf data parity k m missing).length = k := by
  simp [srcsOf, availOf_length hlen]

theorem srcsOf_getD {data parity : List Bytes} {k m : Nat} {missing : List Nat}
    (hlen : missing.length ≤ m) {a : Nat} (ha : a < k) :
    (srcsOf data parity k m missing).getD a [] =
      bufAt data parity k ((availOf k m missing).getD a 0) := by
  unfold srcsOf
  rw [rs_getD_map' _ _ 0 _ (by rw [availOf_length hlen]; exact ha)]

theorem mem_mdOf {k : Nat} {missing : List Nat} {i : Nat} :
    i ∈ mdOf k missing ↔ i < k ∧ i ∈ missing := by simp [mdOf]

theorem mem_mpOf {k m : Nat} {missing : List Nat} {i : Nat} :
    i ∈ mpOf k m missing ↔ i < m ∧ k + i ∈ missing := by simp [mpOf]

theorem mem_targetsOf {k m : Nat} {missing : List Nat} {T : Nat} :
    T ∈ targetsOf k m missing ↔ T < k + m ∧ T ∈ missing := by
  unfold targetsOf
  rw [List.mem_append, mem_mdOf, List.mem_map]
  constructor
  · rintro (⟨h1, h2⟩ | ⟨i, hi, rfl⟩)
    · exact ⟨by omega, h2⟩
    · obtain ⟨h1, h2⟩ := mem_mpOf.mp hi
      exact ⟨by omega, by rwa [Nat.add_comm] at h2⟩
  · rintro ⟨h1, h2⟩
    by_cases hk : T < k
    · exact Or.inl ⟨hk, h2⟩
    · right
      refine ⟨T - k, mem_mpOf.mpr ⟨by omega, ?_⟩, by omega⟩
      have : k + (T - k) = T := by omega
      rwa [this]

/-- every row of `isaInverseRows` rebuilds its target exactly. -/
theorem IStripe.outs_eq {P : IsaPrims} {k m bs : Nat} {φ : Nat → F} {data parity : List Bytes}
    (st : IStripe P k m φ bs data parity) {missing : List Nat} (hlen : missing.length ≤ m)
    {inv : List (List Nat)} (hinv : InvOK P k m φ missing inv) :
    (isaInverseRows P k m inv (P.genMatrix k m) missing).map
        (applyRow P (srcsOf data parity k m missing) bs) =
      (targetsOf k m missing).map (bufAt data parity k) := by
  have hsl := srcsOf_length (data := data) (parity := parity) (k := k) hlen
  rw [isaInverseRows_eq, targetsOf, List.map_append, List.map_append, List.map_map, List.map_map,
    List.map_map]
  congr 1
  · apply List.map_congr_left
    intro i hi
    have hik : i < k := (mem_mdOf.mp hi).1
    simp only [Function.comp]
    obtain ⟨r1, r2⟩ := hinv.row i hik
    apply bytes_eq_of_phi st.ok (applyRow_length ..) (st.bufAt_length (by omega))
    intro b hb
    rw [bv_applyRow _ _ _ hb, dotByte_spec st.ok r1 hsl r2 b]
    have : bufAt data parity k i = data.getD i [] := by unfold bufAt; rw [if_pos hik]
    rw [this, ← st.recover hlen hinv hik hb]
    apply Finset.sum_congr rfl
    intro a ha
    rw [srcsOf_getD hlen (by simpa using ha)]
  · apply List.map_congr_left
    intro pi hpi
    have hpm : pi < m := (mem_mpOf.mp hpi).1
    simp only [Function.comp]
    obtain ⟨g1, g2⟩ := gen_row st.ok (r := k + pi) (by omega)
    obtain ⟨r1, r2, _⟩ := parRow_spec st.ok (missing := missing) hinv.row
      (grow := (P.genMatrix k m).getD (k + pi) []) (getD_lt g2)
    apply bytes_eq_of_phi st.ok (applyRow_length ..) (st.bufAt_length (by omega))
    intro b hb
    rw [bv_applyRow _ _ _ hb, dotByte_spec st.ok r1 hsl r2 b]
    have : bufAt data parity k (pi + k) = parity.getD pi [] := by
      unfold bufAt; rw [if_neg (by omega), Nat.add_sub_cancel]
    rw [this, ← st.recover_parity hlen hinv hpm hb]
    apply Finset.sum_congr rfl
    intro a ha
    rw [srcsOf_getD hlen (by simpa using ha)]

/-! ### writing the results back -/

/-- the write-back step of `isaDecode`. -/
def updStep (k : Nat) (st : List Bytes × List Bytes) (p : Nat × Bytes) : List Bytes × List Bytes :=
  if p.1 < k then (st.1.set p.1 (putPrefix (st.1.getD p.1 []) p.2), st.2)
  else (st.1, st.2.set (p.1 - k) (putPrefix (st.2.getD (p.1 - k) []) p.2))

theorem zip_map_self {α β : Type} (f : α → β) : ∀ l : List α,
    List.zip l (l.map f) = l.map fun x => (x, f x)
  | [] => rfl
  | a :: l => by rw [List.map_cons, List.zip_cons_cons, zip_map_self f l, List.map_cons]

theorem list_eq_of_getD {l1 l2 : List Bytes} (hl : l1.length = l2.length)
    (h : ∀ i < l1.length, l1.getD i [] = l2.getD i []) : l1 = l2 := by
  apply List.ext_getElem hl
  intro i h1 h2
  have := h i h1
  rwa [getD_eq_getElem' h1, getD_eq_getElem' h2] at this

theorem upd_fold {k m bs : Nat} {dataP parP : List Bytes} (hdl : dataP.length = k)
    (hpl : parP.length = m) (hdsz : ∀ i < k, (dataP.getD i []).length = bs)
    (hpsz : ∀ i < m, (parP.getD i []).length = bs) :
    ∀ (ts : List Nat) (d p : List Bytes), (∀ T ∈ ts, T < k + m) → d.length = k → p.length = m →
      (∀ i < k, (d.getD i []).length = bs) → (∀ i < m, (p.getD i []).length = bs) →
      (∀ i < k, i ∉ ts → d.getD i [] = dataP.getD i []) →
      (∀ i < m, k + i ∉ ts → p.getD i [] = parP.getD i []) →
      (ts.map fun T => (T, bufAt dataP parP k T)).foldl (updStep k) (d, p) = (dataP, parP) := by
  intro ts
  induction ts with
  | nil =>
    intro d p _ hd hp _ _ h1 h2
    simp only [List.map_nil, List.foldl_nil, Prod.mk.injEq]
    exact ⟨list_eq_of_getD (by rw [hd, hdl]) (fun i hi => h1 i (by rwa [hd] at hi) (by simp)),
      list_eq_of_getD (by rw [hp, hpl]) (fun i hi => h2 i (by rwa [hp] at hi) (by simp))⟩
  | cons T ts ih =>
    intro d p hT hd hp hds hps h1 h2
    have hTlt : T < k + m := hT T (by simp)
    rw [List.map_cons, List.foldl_cons]
    unfold updStep
    simp only
    by_cases hTk : T < k
    · rw [if_pos hTk]
      have hb : bufAt dataP parP k T = dataP.getD T [] := by unfold bufAt; rw [if_pos hTk]
      rw [hb, putPrefix_exact (by rw [hds T hTk, hdsz T hTk])]
      apply ih _ _ (fun x hx => hT x (by simp [hx])) (by rw [List.length_set, hd]) hp
      · intro i hi
        rw [getD_set]
        split
        · exact hdsz T hTk
        · exact hds i hi
      · exact hps
      · intro i hi hnot
        rw [getD_set]
        by_cases hiT : T = i
        · subst hiT; rw [if_pos ⟨rfl, by rw [hd]; exact hTk⟩]
        · rw [if_neg (by intro h; exact hiT h.1)]
          exact h1 i hi (by intro h; rcases List.mem_cons.mp h with h | h
                            · exact hiT h.symm
                            · exact hnot h)
      · intro i hi hnot
        exact h2 i hi (by intro h; rcases List.mem_cons.mp h with h | h
                          · omega
                          · exact hnot h)
    · rw [if_neg hTk]
      have hTm : T - k < m := by omega
      have hb : bufAt dataP parP k T = parP.getD (T - k) [] := by unfold bufAt; rw [if_neg hTk]
      rw [hb, putPrefix_exact (by rw [hps _ hTm, hpsz _ hTm])]
      apply ih _ _ (fun x hx => hT x (by simp [hx])) hd (by rw [List.length_set, hp])
      · exact hds
      · intro i hi
        rw [getD_set]
        split
        · exact hpsz _ hTm
        · exact hps i hi
      · intro i hi hnot
        exact h1 i hi (by intro h; rcases List.mem_cons.mp h with h | h
                          · omega
                          · exact hnot h)
      · intro i hi hnot
        rw [getD_set]
        by_cases hiT : T - k = i
        · subst hiT; rw [if_pos ⟨rfl, by rw [hp]; exact hTm⟩]
        · rw [if_neg (by intro h; exact hiT h.1)]
          exact h2 i hi (by intro h; rcases List.mem_cons.mp h with h | h
                            · omega
                            · exact hnot h)

/-! ### decode and reconstruct -/

theorem isaDecode_unfold (P : IsaPrims) (k m : Nat) (data parity : List Bytes)
    (missing : List Nat) (bs : Nat) :
    isaDecode P k m data parity missing bs =
      if (availOf k m missing).length < k then .error (.rc (-1)) else
      match P.invert k (availRows P k m missing) with
      | none => .error (.rc (-1))
      | some inv =>
        if ((availOf k m missing).any fun i => (bufAt data parity k i).length < bs) then
          .error .crash else
        if (targetsOf k m missing).any (fun t => (bufAt data parity k t).length < bs) then
          .error .crash else
        .ok ((List.zip (targetsOf k m missing)
            ((isaInverseRows P k m inv (P.genMatrix k m) missing).map
              (applyRow P (srcsOf data parity k m missing) bs))).foldl (updStep k)
              (data, parity)) := rfl

theorem isaReconstruct_unfold (P : IsaPrims) (k m : Nat) (data parity : List Bytes)
    (missing : List Nat) (dest bs : Nat) :
    isaReconstruct P k m data parity missing dest bs =
      if (availOf k m missing).length < k then .error (.rc (-1)) else
      match P.invert k (availRows P k m missing) with
      | none => .error (.rc (-1))
      | some inv =>
        if ((availOf k m missing).any fun i => (bufAt data parity k i).length < bs) then
          .error .crash else
        match (targetsOf k m missing).idxOf? dest with
        | none => .error .crash
        | some r =>
          if (bufAt data parity k dest).length < bs then .error .crash else
          if dest < k then
            .ok (data.set dest (putPrefix (data.getD dest [])
              (applyRow P (srcsOf data parity k m missing) bs
                ((isaInverseRows P k m inv (P.genMatrix k m) missing).getD r []))), parity)
          else
            .ok (data, parity.set (dest - k) (putPrefix (parity.getD (dest - k) [])
              (applyRow P (srcsOf data parity k m missing) bs
                ((isaInverseRows P k m inv (P.genMatrix k m) missing).getD r [])))) := rfl

/-- the erased buffers all have the block size. -/
theorem erased_bufAt_length {P : IsaPrims} {k m bs : Nat} {φ : Nat → F} {data parity : List Bytes}
    (st : IStripe P k m φ bs data parity) (missing : List Nat) {r : Nat} (hr : r < k + m) :
    (bufAt (eraseData data missing k bs) (eraseParity parity missing k m bs) k r).length = bs := by
  unfold bufAt
  split
  · rename_i h
    rw [eraseData_getD _ _ _ h]
    split
    · simp [zeros]
    · exact st.data_length h
  · rw [eraseParity_getD _ _ _ _ (by omega : r - k < m)]
    split
    · simp [zeros]
    · exact st.parity_length (by omega)

theorem srcsOf_erase {k m bs : Nat} {data parity : List Bytes}
    (missing : List Nat) :
    srcsOf (eraseData data missing k bs) (eraseParity parity missing k m bs) k m missing =
      srcsOf data parity k m missing := by
  unfold srcsOf
  apply List.map_congr_left
  intro r hr
  obtain ⟨h1, h2⟩ := availOf_mem hr
  exact bufAt_erase _ _ _ _ h1 h2

end IsaL

open IsaL

section main
variable {F : Type} [Field F] {P : IsaPrims} {k m : Nat} {φ : Nat → F}

/-- decode: if the library inverts the available rows, the result is exact. -/
theorem IsaL.IStripe.decode_ok {bs : Nat} {data parity : List Bytes}
    (st : IStripe P k m φ bs data parity) {missing : List Nat} (hlen : missing.length ≤ m)
    {inv : List (List Nat)} (h : P.invert k (availRows P k m missing) = some inv) :
    isaDecode P k m (eraseData data missing k bs) (eraseParity parity missing k m bs) missing bs =
      .ok (data, parity) := by
  have hal := availOf_length (k := k) hlen
  have hinv := InvOK.of_invert st.ok hlen h
  rw [isaDecode_unfold, if_neg (by omega), h]
  simp only
  have hany1 : ((availOf k m missing).any fun i =>
      (bufAt (eraseData data missing k bs) (eraseParity parity missing k m bs) k i).length < bs)
      = false := by
    rw [List.any_eq_false]
    intro r hr
    rw [erased_bufAt_length st missing (availOf_mem hr).1]; simp
  have hany2 : ((targetsOf k m missing).any fun t =>
      (bufAt (eraseData data missing k bs) (eraseParity parity missing k m bs) k t).length < bs)
      = false := by
    rw [List.any_eq_false]
    intro r hr
    rw [erased_bufAt_length st missing (mem_targetsOf.mp hr).1]; simp
  rw [hany1, hany2]
  simp only [Bool.false_eq_true, if_false]
  rw [srcsOf_erase missing, st.outs_eq hlen hinv, zip_map_self]
  congr 1
  apply upd_fold st.dlen st.plen (fun i hi => st.data_length hi) (fun i hi => st.parity_length hi)
  · intro T hT; exact (mem_targetsOf.mp hT).1
  · exact eraseData_length ..
  · exact eraseParity_length ..
  · intro i hi
    have := erased_bufAt_length st missing (r := i) (by omega)
    unfold bufAt at this
    rwa [if_pos hi] at this
  · intro i hi
    have := erased_bufAt_length st missing (r := k + i) (by omega)
    unfold bufAt at this
    rwa [if_neg (by omega), Nat.add_sub_cancel_left] at this
  · intro i hi hnot
    rw [eraseData_getD _ _ _ hi, if_neg]
    intro hc
    exact hnot (mem_targetsOf.mpr ⟨by omega, by simpa using hc⟩)
  · intro i hi hnot
    rw [eraseParity_getD _ _ _ _ hi, if_neg]
    intro hc
    exact hnot (mem_targetsOf.mpr ⟨by omega, by simpa using hc⟩)

/-- decode: if the library's inversion fails the adapter returns -1. -/
theorem IsaL.decode_fail (data parity : List Bytes) {missing : List Nat} (bs : Nat)
    (h : P.invert k (availRows P k m missing) = none) :
    isaDecode P k m data parity missing bs = .error (.rc (-1)) := by
  rw [isaDecode_unfold, h]
  split <;> rfl

theorem IsaL.reconstruct_fail (data parity : List Bytes) {missing : List Nat} (dest bs : Nat)
    (h : P.invert k (availRows P k m missing) = none) :
    isaReconstruct P k m data parity missing dest bs = .error (.rc (-1)) := by
  rw [isaReconstruct_unfold, h]
  split <;> rfl

/-- reconstruct: if the library inverts the available rows, the destination is exact. -/
theorem IsaL.IStripe.reconstruct_ok {bs : Nat} {data parity : List Bytes}
    (st : IStripe P k m φ bs data parity) {missing : List Nat} (hlen : missing.length ≤ m)
    (hlt : ∀ x ∈ missing, x < k + m)
    {inv : List (List Nat)} (h : P.invert k (availRows P k m missing) = some inv) {dest : Nat}
    (hd : dest ∈ missing) :
    ∃ d' p', isaReconstruct P k m (eraseData data missing k bs)
        (eraseParity parity missing k m bs) missing dest bs = .ok (d', p') ∧
      d'.length = k ∧ p'.length = m ∧ (d' ++ p').getD dest [] = (data ++ parity).getD dest [] := by
  have hal := availOf_length (k := k) hlen
  have hinv := InvOK.of_invert st.ok hlen h
  have hdn : dest < k + m := hlt dest hd
  have hany1 : ((availOf k m missing).any fun i =>
      (bufAt (eraseData data missing k bs) (eraseParity parity missing k m bs) k i).length < bs)
      = false := by
    rw [List.any_eq_false]
    intro r hr
    rw [erased_bufAt_length st missing (availOf_mem hr).1]; simp
  have hmemT : dest ∈ targetsOf k m missing := mem_targetsOf.mpr ⟨hdn, hd⟩
  obtain ⟨r, hr⟩ : ∃ r, (targetsOf k m missing).idxOf? dest = some r := by
    cases hi : (targetsOf k m missing).idxOf? dest with
    | none => exact absurd hmemT (List.idxOf?_eq_none_iff.mp hi)
    | some r => exact ⟨r, rfl⟩
  obtain ⟨hrl, hrd, _⟩ := List.idxOf?_eq_some_iff.mp hr
  have houts := st.outs_eq hlen hinv
  have hrl' : r < (isaInverseRows P k m inv (P.genMatrix k m) missing).length := by
    have := congrArg List.length houts
    rw [List.length_map, List.length_map] at this
    rw [this]; exact hrl
  have hout : applyRow P (srcsOf data parity k m missing) bs
      ((isaInverseRows P k m inv (P.genMatrix k m) missing).getD r []) =
      bufAt data parity k dest := by
    rw [← rs_getD_map' (applyRow P (srcsOf data parity k m missing) bs) _ [] [] hrl', houts,
      rs_getD_map' _ _ 0 _ hrl, getD_eq_getElem' hrl, hrd]
  rw [isaReconstruct_unfold, if_neg (by omega), h]
  simp only
  rw [hany1, hr]
  simp only [Bool.false_eq_true, if_false]
  rw [if_neg (by rw [erased_bufAt_length st missing hdn]; omega), srcsOf_erase missing, hout]
  have hcon : missing.contains dest = true := by simpa using hd
  by_cases hdk : dest < k
  · rw [if_pos hdk]
    have hb : bufAt data parity k dest = data.getD dest [] := by unfold bufAt; rw [if_pos hdk]
    have hel : ((eraseData data missing k bs).getD dest []).length = bs := by
      have := erased_bufAt_length st missing hdn
      unfold bufAt at this
      rwa [if_pos hdk] at this
    rw [hb, putPrefix_exact (by rw [hel, st.data_length hdk])]
    refine ⟨_, _, rfl, by rw [List.length_set, eraseData_length], eraseParity_length .., ?_⟩
    rw [getD_append_left' (by rw [List.length_set, eraseData_length]; exact hdk),
      getD_append_left' (by rw [st.dlen]; exact hdk),
      getD_set_self' (by rw [eraseData_length]; exact hdk)]
  · rw [if_neg hdk]
    have hdm : dest - k < m := by omega
    have hb : bufAt data parity k dest = parity.getD (dest - k) [] := by
      unfold bufAt; rw [if_neg hdk]
    have hel : ((eraseParity parity missing k m bs).getD (dest - k) []).length = bs := by
      have := erased_bufAt_length st missing hdn
      unfold bufAt at this
      rwa [if_neg hdk] at this
    rw [hb, putPrefix_exact (by rw [hel, st.parity_length hdm])]
    refine ⟨_, _, rfl, eraseData_length .., by rw [List.length_set, eraseParity_length], ?_⟩
    rw [getD_append_right' (by rw [eraseData_length]; omega),
      getD_append_right' (by rw [st.dlen]; omega), eraseData_length, st.dlen,
      getD_set_self' (by rw [eraseParity_length]; exact hdm)]

end main

/-- encode contract: data kept, `m` parity payloads of the block size (every `bs`). -/
theorem isa_encodeOK {F : Type} [Field F] {P : IsaPrims} {k m : Nat} {φ : Nat → F}
    (hP : IsaPrimsOK P k m φ) (ver : Nat) : EncodeOK (isaBackend P k m ver) k m where
  data_kept := by
    intro d p bs d' p' h
    exact ((isa_encode_iff P k m ver d p bs d' p').mp h).1
  parity_len := by
    intro d p bs d' p' _ _ hpl hd hp h
    have h2 := ((isa_encode_iff P k m ver d p bs d' p').mp h).2
    rw [isaEncode_eq hP hpl hd hp, Option.some.injEq] at h2
    subst h2
    refine ⟨by rw [List.length_map, List.length_drop, hP.gen_len]; omega, ?_⟩
    intro x hx
    obtain ⟨row, _, rfl⟩ := List.mem_map.mp hx
    exact applyRow_length ..

section contracts
variable {F : Type} [Field F] {P : IsaPrims} {k m : Nat} {φ : Nat → F}

/-- the rows the adapters hand to `invert`, as written in the model. -/
theorem IsaL.availRows_eq (P : IsaPrims) (k m : Nat) (missing : List Nat) :
    availRows P k m missing =
      (isaAvail k m missing).map fun r => (P.genMatrix k m).getD r [] := rfl

/-- parity byte `b` of parity `i` is `Σ_j G[k+i][j] · data_j[b]` in `F`. -/
theorem isa_parity_byte (hP : IsaPrimsOK P k m φ) {ver bs : Nat} {dataP parP : List Bytes}
    (h : IsStripe (isaBackend P k m ver) k m bs dataP parP) {i : Nat} (hi : i < m) {b : Nat}
    (hb : b < bs) :
    φ (bv (parP.getD i []) b) =
      ∑ j ∈ range k, φ (ge P k m (k + i) j) * φ (bv (dataP.getD j []) b) := by
  have st := IStripe.of_isStripe hP h
  have := st.sym (r := k + i) (by omega) hb
  unfold bufAt at this
  rwa [if_neg (by omega), Nat.add_sub_cancel_left] at this

/-- every list of `k` data payloads of size `bs` extends to a stripe. -/
theorem isa_isStripe (hP : IsaPrimsOK P k m φ) (ver : Nat) {bs : Nat} (dataP : List Bytes)
    (hdl : dataP.length = k) (hdb : ∀ x ∈ dataP, x.length = bs) :
    ∃ parP, IsStripe (isaBackend P k m ver) k m bs dataP parP := by
  have henc := isaEncode_eq hP (d := dataP) (p := List.replicate m (zeros bs)) (bs := bs)
    (List.length_replicate ..) hdb
    (by intro x hx; rw [(List.mem_replicate.mp hx).2]; simp [zeros])
  refine ⟨_, hdl, hdb, (isa_encode_iff P k m ver _ _ bs _ _).mpr ⟨rfl, henc⟩, ?_, ?_⟩
  · rw [List.length_map, List.length_drop, hP.gen_len]; omega
  · intro x hx
    obtain ⟨row, _, rfl⟩ := List.mem_map.mp hx
    exact applyRow_length ..

/-- decode through the backend record: exact when the library inverts the available rows. -/
theorem isa_decode_ok (hP : IsaPrimsOK P k m φ) {ver bs : Nat} {dataP parP missing : List _}
    (hst : IsStripe (isaBackend P k m ver) k m bs dataP parP) (hlen : missing.length ≤ m)
    {inv : List (List Nat)} (h : P.invert k (availRows P k m missing) = some inv) :
    (isaBackend P k m ver).decode (eraseBufs dataP missing 0 bs) (eraseBufs parP missing k bs)
      missing bs = .ok (dataP, parP) := by
  rw [eraseBufs_data _ _ _ hst.dlen, eraseBufs_parity _ _ _ _ hst.plen]
  exact (IStripe.of_isStripe hP hst).decode_ok hlen h

/-- decode through the backend record: return code -1 when the library's inversion fails. -/
theorem isa_decode_fail {ver : Nat} (d p : List Bytes) {missing : List Nat} (bs : Nat)
    (h : P.invert k (availRows P k m missing) = none) :
    (isaBackend P k m ver).decode d p missing bs = .error (.rc (-1)) :=
  IsaL.decode_fail d p bs h

theorem isa_reconstruct_ok (hP : IsaPrimsOK P k m φ) {ver bs : Nat}
    {dataP parP : List Bytes} {missing : List Nat}
    (hst : IsStripe (isaBackend P k m ver) k m bs dataP parP) (hmo : MissingOK k m missing)
    (hlen : missing.length ≤ m) {inv : List (List Nat)}
    (h : P.invert k (availRows P k m missing) = some inv) {dest : Nat} (hd : dest ∈ missing) :
    ∃ d' p', (isaBackend P k m ver).reconstruct (eraseBufs dataP missing 0 bs)
        (eraseBufs parP missing k bs) missing dest bs = .ok (d', p') ∧
      d'.length = k ∧ p'.length = m ∧ (d' ++ p').getD dest [] = (dataP ++ parP).getD dest [] := by
  rw [eraseBufs_data _ _ _ hst.dlen, eraseBufs_parity _ _ _ _ hst.plen]
  exact (IStripe.of_isStripe hP hst).reconstruct_ok hlen hmo.2 h hd

theorem isa_reconstruct_fail {ver : Nat} (d p : List Bytes) {missing : List Nat} (dest bs : Nat)
    (h : P.invert k (availRows P k m missing) = none) :
    (isaBackend P k m ver).reconstruct d p missing dest bs = .error (.rc (-1)) :=
  IsaL.reconstruct_fail d p dest bs h

/-- decode / reconstruct contract; tolerance: at most `m` missing and the library inverts the
    surviving rows. -/
theorem isa_decodeOK (hP : IsaPrimsOK P k m φ) (ver : Nat) :
    DecodeOK (isaBackend P k m ver) k m
      (fun missing => missing.length ≤ m ∧ (P.invert k (availRows P k m missing)).isSome)
      (fun _ => True) where
  decode := by
    intro bs dataP parP missing _ hst _ htol
    obtain ⟨inv, hinv⟩ := Option.isSome_iff_exists.mp htol.2
    exact isa_decode_ok hP hst htol.1 hinv
  reconstruct := by
    intro bs dataP parP missing dest _ hst hmo htol hd
    obtain ⟨inv, hinv⟩ := Option.isSome_iff_exists.mp htol.2
    exact isa_reconstruct_ok hP hst hmo htol.1 hinv hd

/-- with a complete inversion the tolerance is "the surviving rows are invertible". -/
theorem isa_tol_of_complete (hP : IsaPrimsOK P k m φ) (hc : IsaInvertComplete P k φ)
    {missing : List Nat} (hlen : missing.length ≤ m)
    (hN : ∃ N : Nat → Nat → F, ∀ i j, i < k → j < k →
      ∑ l ∈ range k, N i l * φ (((availRows P k m missing).getD l []).getD j 0) =
        if i = j then 1 else 0) :
    (P.invert k (availRows P k m missing)).isSome := by
  apply hc _ (by simp [availRows, availOf_length hlen]) _ hN
  intro r hr
  obtain ⟨a, ha, rfl⟩ := List.mem_map.mp hr
  exact gen_row hP (availOf_mem ha).1

/-- no silent corruption: with at most `m` missing the adapters never fault, and whatever they
    return with success is the truth (a library failure surfaces as return code -1). -/
theorem isa_decodeSound (hP : IsaPrimsOK P k m φ) (ver : Nat) :
    DecodeSound (isaBackend P k m ver) k m (fun _ => True) where
  decode := by
    intro bs dataP parP missing d' p' _ hst _ hlen h
    cases hi : P.invert k (availRows P k m missing) with
    | none => rw [isa_decode_fail _ _ bs hi] at h; cases h
    | some inv =>
      rw [isa_decode_ok hP hst hlen hi] at h
      simp only [Except.ok.injEq, Prod.mk.injEq] at h
      exact h.1.symm
  decode_nocrash := by
    intro bs dataP parP missing _ hst _ hlen
    cases hi : P.invert k (availRows P k m missing) with
    | none => rw [isa_decode_fail _ _ bs hi]; simp
    | some inv => rw [isa_decode_ok hP hst hlen hi]; simp
  reconstruct := by
    intro bs dataP parP missing dest d' p' _ hst hmo hlen hd h
    cases hi : P.invert k (availRows P k m missing) with
    | none => rw [isa_reconstruct_fail _ _ dest bs hi] at h; cases h
    | some inv =>
      obtain ⟨d'', p'', h', h1, h2, h3⟩ := isa_reconstruct_ok hP hst hmo hlen hi hd
      rw [h'] at h
      simp only [Except.ok.injEq, Prod.mk.injEq] at h
      obtain ⟨rfl, rfl⟩ := h
      exact ⟨h1, h2, h3⟩
  reconstruct_nocrash := by
    intro bs dataP parP missing dest _ hst hmo hlen hd
    cases hi : P.invert k (availRows P k m missing) with
    | none => rw [isa_reconstruct_fail _ _ dest bs hi]; simp
    | some inv =>
      obtain ⟨d'', p'', h', _⟩ := isa_reconstruct_ok hP hst hmo hlen hi hd
      rw [h']; simp

/-- the only error the adapters report on a stripe with at most `m` missing is return code -1. -/
theorem isa_errors_negative (hP : IsaPrimsOK P k m φ) {ver bs : Nat} {dataP parP : List Bytes}
    {missing : List Nat} (hst : IsStripe (isaBackend P k m ver) k m bs dataP parP)
    (hmo : MissingOK k m missing) (hlen : missing.length ≤ m) (e : Fail) :
    ((isaBackend P k m ver).decode (eraseBufs dataP missing 0 bs) (eraseBufs parP missing k bs)
        missing bs = .error e → e = .rc (-1)) ∧
    (∀ dest ∈ missing, (isaBackend P k m ver).reconstruct (eraseBufs dataP missing 0 bs)
        (eraseBufs parP missing k bs) missing dest bs = .error e → e = .rc (-1)) := by
  cases hi : P.invert k (availRows P k m missing) with
  | none =>
    refine ⟨fun h => ?_, fun dest _ h => ?_⟩
    · rw [isa_decode_fail _ _ bs hi] at h; cases h; rfl
    · rw [isa_reconstruct_fail _ _ dest bs hi] at h; cases h; rfl
  | some inv =>
    refine ⟨fun h => ?_, fun dest hd h => ?_⟩
    · rw [isa_decode_ok hP hst hlen hi] at h; cases h
    · obtain ⟨d'', p'', h', _⟩ := isa_reconstruct_ok hP hst hmo hlen hi hd
      rw [h'] at h; cases h

/-- fragments-needed is the Reed–Solomon one (`rsNeeded_ok`, `rsNeeded_error` apply). -/
theorem isa_needed (P : IsaPrims) (k m ver : Nat) : (isaBackend P k m ver).needed = rsNeeded k m :=
  rfl

end contracts

end Lec

#print axioms Lec.isa_encodeOK
#print axioms Lec.isa_parity_byte
#print axioms Lec.isa_decodeOK
#print axioms Lec.isa_decodeSound
#print axioms Lec.isa_errors_negative
