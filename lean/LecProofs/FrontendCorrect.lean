/-
  LecProofs.FrontendCorrect — front-end correctness against the backend contracts
  (LecProofs.Contracts), for any backend, any subset `frags ⊆ enc` of an encoded stripe in any
  order with duplicates, `fragLen = 80 + blockSize`.

  setting      `FrontOK env i len` (field widths, `0 < k`, payloads cover the input — `cover_of_w`),
               `EncView` / `encode_view` (`encode_spec` exposing the backend call and `IsStripe`),
               `missingOfStripe enc frags` (ascending indexes of the stripe not supplied)
  helper layer `encode_fragment_facts`, `encode_fragments_distinct`, `encode_length`
  header loop  `decode_gate_fail`, `reconstruct_gate_fail` (`gateBad fragLen` true on one supplied
               fragment ⇒ EBADHEADER); `EncView.sub_gate`: fragments of the stripe always pass it for
               `fragLen = 80 + blockSize` (valid header, announced sizes = block size + 0)
  C01          `decode_roundtrip`, `decode_roundtrip_forced`
  C02          `decode_sound'`, `decode_sound`, `reconstruct_sound'`, `reconstruct_sound`
  C03          `reconstruct_fidelity`, `reconstruct_range`
  C20          `decode_forced_filter`, `decode_forced_ignores_invalid`
  The primed soundness theorems need no assumption on the backend's own return codes: the
  result is the true value or `.error (.rc e)` with `e < 0` or `e` a code the backend operation
  itself returned; the unprimed ones assume the backend only fails with negative codes.
-/
import LecProofs.FrontendLemmas
namespace Lec

/-- side conditions on the instance and the input length under which every header field of the
    stripe fits its C type (`bs`, `km`, `len` below 2^31 because the C getters return `int`) and the
    k payloads cover the input (`cover`; holds whenever `w ≥ 8`, see `cover_of_w`). -/
structure FrontOK (env : Env) (i : Inst) (len : Nat) : Prop where
  kpos : 0 < i.k
  km : i.k + i.m < 2 ^ 31
  ct : i.ct < 256
  beId : i.beId < 256
  beVer : i.beVer < 2 ^ 32
  libver : env.libver < 2 ^ 32
  libver0 : env.libver ≠ 0
  len31 : len < 2 ^ 31
  bs31 : blockSize i len < 2 ^ 31
  cover : len ≤ i.k * blockSize i len

theorem cover_of_w (i : Inst) (len : Nat) (hk : 0 < i.k) (hw : 8 ≤ i.w) : len ≤ i.k * blockSize i len := by
  unfold blockSize alignedSize alignedSizeW
  simp only
  have hw8 : 0 < i.w / 8 := Nat.div_pos hw (by decide)
  generalize i.w / 8 = e at hw8
  have ham : 0 < i.k * e := Nat.mul_pos hk hw8
  generalize hq : (len + i.k * e - 1) / (i.k * e) = q
  have h1 : q * (i.k * e) / i.k = q * e := by
    rw [show q * (i.k * e) = i.k * (q * e) by rw [Nat.mul_left_comm]]
    exact Nat.mul_div_cancel_left _ hk
  rw [h1]
  have h2 : len + i.k * e - 1 < (q + 1) * (i.k * e) := by
    rw [← hq, Nat.add_mul, Nat.one_mul]
    exact Nat.lt_div_mul_add ham
  rw [show i.k * (q * e) = q * (i.k * e) by rw [Nat.mul_left_comm]]
  rw [Nat.add_mul, Nat.one_mul] at h2
  omega

theorem FrontOK.fresh {env : Env} {i : Inst} {len : Nat} (h : FrontOK env i len) (idx : Nat)
    (hidx : idx < i.k + i.m) : FreshOK env i idx len (blockSize i len) where
  idx := by have := h.km; omega
  orig := by have := h.len31; omega
  bs := by have := h.bs31; omega
  ct := h.ct
  beId := h.beId
  beVer := h.beVer
  libver := h.libver
  libver0 := h.libver0

theorem FrontOK.freshNoChk {env : Env} {i : Inst} {len : Nat} (h : FrontOK env i len) (idx : Nat)
    (hidx : idx < i.k + i.m) : FreshOK env (noChk i) idx len (blockSize i len) where
  idx := by have := h.km; omega
  orig := by have := h.len31; omega
  bs := by have := h.bs31; omega
  ct := by simp [noChk]
  beId := h.beId
  beVer := h.beVer
  libver := h.libver
  libver0 := h.libver0

/-- what `encode` returned, seen from the decode side (`bs` is `blockSize i data.length`). -/
structure EncView (env : Env) (be : Backend) (i : Inst) (data : Bytes) (bs : Nat)
    (enc dataP parP : List Bytes) : Prop where
  stripe : IsStripe be i.k i.m bs dataP parP
  dataP_eq : dataP = splitLoop i.k bs data
  enc_eq : enc = (dataP ++ parP).zipIdx.map fun (p, idx) => specFragment env i data.length bs p idx

/-- `encode_spec`, exposing the backend call. -/
theorem encode_view (env : Env) (be : Backend) (i : Inst) (data : Bytes) (enc : List Bytes)
    {bsOK : Nat → Prop} (hbe : EncodeOK be i.k i.m bsOK) (hbs : bsOK (blockSize i data.length))
    (h : encode env be i data = .ok enc) :
    ∃ parP, EncView env be i data (blockSize i data.length) enc
      (splitLoop i.k (blockSize i data.length) data) parP := by
  have hlen : data.length < 2 ^ 31 := encode_ok_length_lt h
  have hg := encodeTooLarge_false_of_ok h
  generalize hbs' : blockSize i data.length = bs
  unfold encode at h
  rw [if_neg (by rw [hg]; exact Bool.false_ne_true)] at h
  have hbs2 := hbs'
  unfold blockSize at hbs2
  simp only [hbs2] at h
  simp only [bind, Except.bind] at h
  split at h
  · cases h
  · rename_i v hv
    obtain ⟨d', p'⟩ := v
    simp only [pure, Except.pure, Except.ok.injEq] at h
    have hd : d' = splitLoop i.k bs data := hbe.data_kept _ _ _ _ _ hv
    have hp := hbe.parity_len _ _ _ _ _ (by rw [← hbs']; exact hbs) (splitLoop_length _ _ _) (List.length_replicate ..)
      (splitLoop_elem_length i.k bs data)
      (by intro x hx; rw [List.mem_replicate] at hx; rw [hx.2]; exact zeros_length _) hv
    subst hd
    refine ⟨p', ⟨⟨splitLoop_length _ _ _, splitLoop_elem_length _ _ _, hv, hp.1, hp.2⟩, rfl, ?_⟩⟩
    rw [← h]
    apply List.map_congr_left
    intro ⟨p, idx⟩ hmem
    have hpm : p ∈ splitLoop i.k bs data ++ p' := by
      have := List.mem_zipIdx hmem
      simp at this
      rw [this.2]; exact List.getElem_mem _
    have hpl : p.length = bs := by
      rcases List.mem_append.mp hpm with h1 | h1
      · exact splitLoop_elem_length _ _ _ _ h1
      · exact hp.2 _ h1
    exact addFragmentMetadata_spec env i idx data.length bs p hpl hlen


section view
variable {env : Env} {be : Backend} {i : Inst} {data : Bytes} {bs : Nat} {enc dataP parP : List Bytes}

theorem EncView.pl_length (hv : EncView env be i data bs enc dataP parP) :
    (dataP ++ parP).length = i.k + i.m := by
  rw [List.length_append, hv.stripe.dlen, hv.stripe.plen]

theorem EncView.enc_length (hv : EncView env be i data bs enc dataP parP) : enc.length = i.k + i.m := by
  rw [hv.enc_eq]; simp [hv.stripe.dlen, hv.stripe.plen]

theorem EncView.enc_getD (hv : EncView env be i data bs enc dataP parP) (j : Nat) (hj : j < i.k + i.m) :
    enc.getD j [] = specFragment env i data.length bs ((dataP ++ parP).getD j []) j := by
  have hl := hv.pl_length
  rw [hv.enc_eq]
  simp [List.getD_eq_getElem?_getD, hl, hj]

theorem EncView.pl_size (hv : EncView env be i data bs enc dataP parP) (j : Nat) (hj : j < i.k + i.m) :
    ((dataP ++ parP).getD j []).length = bs := by
  have hl := hv.pl_length
  have : (dataP ++ parP).getD j [] = (dataP ++ parP)[j] := by
    simp [List.getD_eq_getElem?_getD, List.getElem?_eq_getElem (show j < (dataP ++ parP).length by omega)]
  rw [this]
  have hm : (dataP ++ parP)[j] ∈ dataP ++ parP := List.getElem_mem _
  rcases List.mem_append.mp hm with h | h
  · exact hv.stripe.dsz _ h
  · exact hv.stripe.psz _ h

theorem EncView.pl_data (hv : EncView env be i data bs enc dataP parP) (j : Nat) (hj : j < i.k) :
    (dataP ++ parP).getD j [] = slice data bs j := by
  have hl := hv.stripe.dlen
  rw [List.getD_eq_getElem?_getD, List.getElem?_append_left (by omega), hv.dataP_eq, splitLoop_eq]
  simp [hj]

theorem EncView.mem_enc (hv : EncView env be i data bs enc dataP parP) {f : Bytes} (hf : f ∈ enc) :
    ∃ j, j < i.k + i.m ∧ f = enc.getD j [] := by
  obtain ⟨j, hj, rfl⟩ := List.mem_iff_getElem.mp hf
  refine ⟨j, by rw [← hv.enc_length]; exact hj, ?_⟩
  simp [List.getD_eq_getElem?_getD, List.getElem?_eq_getElem hj]

theorem EncView.getD_mem (hv : EncView env be i data bs enc dataP parP) (j : Nat) (hj : j < i.k + i.m) :
    enc.getD j [] ∈ enc := by
  have : j < enc.length := by rw [hv.enc_length]; exact hj
  simp [List.getD_eq_getElem?_getD, List.getElem?_eq_getElem this]

end view


section viewok
variable {env : Env} {be : Backend} {i : Inst} {data : Bytes} {enc dataP parP : List Bytes}

theorem EncView.good (hv : EncView env be i data (blockSize i data.length) enc dataP parP)
    (hok : FrontOK env i data.length) (j : Nat) (hj : j < i.k + i.m) :
    GoodFrag data.length (blockSize i data.length) j ((dataP ++ parP).getD j []) (enc.getD j []) := by
  rw [hv.enc_getD j hj]
  exact specFragment_good env i j _ _ _ (hok.fresh j hj) (by have := hok.km; omega) hok.len31 hok.bs31

theorem EncView.frag_length (hv : EncView env be i data (blockSize i data.length) enc dataP parP)
    (j : Nat) (hj : j < i.k + i.m) : (enc.getD j []).length = 80 + blockSize i data.length := by
  rw [hv.enc_getD j hj]
  exact specFragment_length env i j _ _ _ (hv.pl_size j hj)

theorem EncView.header_valid (hv : EncView env be i data (blockSize i data.length) enc dataP parP)
    (hok : FrontOK env i data.length) (j : Nat) (hj : j < i.k + i.m) :
    isInvalidHeader (enc.getD j []) = false := by
  rw [hv.enc_getD j hj]
  exact fresh_header_valid env i j _ _ _ (hok.fresh j hj)

/-- an encoded fragment announces exactly its payload, so it passes the length test of the header
    loop for the declared length `80 + blockSize`. -/
theorem EncView.frag_fits (hv : EncView env be i data (blockSize i data.length) enc dataP parP)
    (hok : FrontOK env i data.length) (j : Nat) (hj : j < i.k + i.m) :
    fragExceedsLength (enc.getD j []) (80 + blockSize i data.length) = false := by
  rw [hv.enc_getD j hj]
  exact fresh_not_exceeds env i j _ _ _ (hok.fresh j hj) _ (Nat.le_refl _)

theorem EncView.gate_ok (hv : EncView env be i data (blockSize i data.length) enc dataP parP)
    (hok : FrontOK env i data.length) (j : Nat) (hj : j < i.k + i.m) :
    gateBad (80 + blockSize i data.length) (enc.getD j []) = false := by
  rw [hv.enc_getD j hj]
  exact fresh_gate env i j _ _ _ (hok.fresh j hj) _ (Nat.le_refl _)

theorem EncView.frag_valid (hv : EncView env be i data (blockSize i data.length) enc dataP parP)
    (hok : FrontOK env i data.length) (hc : be.compat i.beVer = true) (j : Nat) (hj : j < i.k + i.m) :
    isInvalidFragment env be i (enc.getD j []) = false := by
  rw [hv.enc_getD j hj]
  exact specFragment_valid env be i j _ _ _ (hok.fresh j hj) (hv.pl_size j hj) hj hc

theorem EncView.idx (hv : EncView env be i data (blockSize i data.length) enc dataP parP)
    (hok : FrontOK env i data.length) (j : Nat) (hj : j < i.k + i.m) :
    getFragmentIdx (enc.getD j []) = (j : Int) := (hv.good hok j hj).idx

/-- fragments of one stripe with different indexes are different. -/
theorem EncView.inj (hv : EncView env be i data (blockSize i data.length) enc dataP parP)
    (hok : FrontOK env i data.length) {a b : Nat} (ha : a < i.k + i.m) (hb : b < i.k + i.m)
    (h : enc.getD a [] = enc.getD b []) : a = b :=
  F_inj (F := fun j => enc.getD j []) (hv.idx hok) ha hb h

/-- every supplied fragment comes from the stripe: the hypotheses of the helper lemmas. -/
theorem EncView.sub_F (hv : EncView env be i data (blockSize i data.length) enc dataP parP)
    {frags : List Bytes} (hsub : ∀ f ∈ frags, f ∈ enc) :
    ∀ f ∈ frags, ∃ j, j < i.k + i.m ∧ f = (fun j => enc.getD j []) j :=
  fun f hf => hv.mem_enc (hsub f hf)

theorem EncView.sub_good (hv : EncView env be i data (blockSize i data.length) enc dataP parP)
    (hok : FrontOK env i data.length) {frags : List Bytes} (hsub : ∀ f ∈ frags, f ∈ enc) :
    ∀ f ∈ frags, ∃ j, GoodFrag data.length (blockSize i data.length) j
      ((fun j => (dataP ++ parP).getD j []) j) f := by
  intro f hf
  obtain ⟨j, hj, rfl⟩ := hv.mem_enc (hsub f hf)
  exact ⟨j, hv.good hok j hj⟩

theorem EncView.sub_valid (hv : EncView env be i data (blockSize i data.length) enc dataP parP)
    (hok : FrontOK env i data.length) {frags : List Bytes} (hsub : ∀ f ∈ frags, f ∈ enc) :
    frags.any isInvalidHeader = false := by
  cases h : frags.any isInvalidHeader with
  | false => rfl
  | true =>
    obtain ⟨f, hf, hi⟩ := List.any_eq_true.mp h
    obtain ⟨j, hj, rfl⟩ := hv.mem_enc (hsub f hf)
    rw [hv.header_valid hok j hj] at hi; cases hi

/-- fragments drawn from the stripe pass the header loop of decode / reconstruct (valid header and
    announced sizes within the declared length `80 + blockSize`). -/
theorem EncView.sub_gate (hv : EncView env be i data (blockSize i data.length) enc dataP parP)
    (hok : FrontOK env i data.length) {frags : List Bytes} (hsub : ∀ f ∈ frags, f ∈ enc) :
    frags.any (gateBad (80 + blockSize i data.length)) = false := by
  cases h : frags.any (gateBad (80 + blockSize i data.length)) with
  | false => rfl
  | true =>
    obtain ⟨f, hf, hi⟩ := List.any_eq_true.mp h
    obtain ⟨j, hj, rfl⟩ := hv.mem_enc (hsub f hf)
    rw [hv.gate_ok hok j hj] at hi; cases hi

end viewok

/-! ### the structure of `decode` -/

/-- the slow path of `decode`: partition, fill the holes, backend decode, regenerate, reassemble. -/
def decodeSlow (env : Env) (be : Backend) (i : Inst) (frags : List Bytes) (fragLen : Nat) : R Bytes :=
  match getFragmentPartition i.k i.m frags with
  | .error e => .error (.rc e)
  | .ok (d, p, missing) =>
    match prepareForDecode i.k i.m d p missing fragLen with
    | .error e => .error (.rc e)
    | .ok (d, p, orig, psize) => do
      if psize < 0 then .error .crash else
      let bs := psize.toNat
      let (dp, pp) ← be.decode (d.map fPayload) (p.map fPayload) missing bs
      let _ := pp
      match fragmentsToString i.k (regenData env i d dp missing orig.toNat bs) with
      | .ok out => pure out
      | .error e => .error (.rc e)

/-- the part of `decode` after the argument checks and the forced-validation filter. -/
def decodeTail (env : Env) (be : Backend) (i : Inst) (frags : List Bytes) (fragLen : Nat) : R Bytes :=
  match (if i.beId != 5 && i.beId != 8 then fragmentsToString i.k frags else .error (-1)) with
  | .ok out => pure out
  | .error _ => decodeSlow env be i frags fragLen

theorem decode_unfold (env : Env) (be : Backend) (i : Inst) (frags : List Bytes) (fragLen : Nat) (force : Bool) :
    decode env be i frags fragLen force =
      if frags.length < i.k then failRc EINSUFFFRAGS else
      if fragLen < Hdr.size then failRc EBADHEADER else
      if frags.any (gateBad fragLen) then failRc EBADHEADER else
      if force && (if force then frags.filter (fun f => !isInvalidFragment env be i f) else frags).length < i.k
      then failRc EINSUFFFRAGS
      else decodeTail env be i (if force then frags.filter (fun f => !isInvalidFragment env be i f) else frags)
        fragLen := rfl

/-- the header loop of decode: one supplied fragment with an unacceptable header, or whose header
    announces more bytes than the declared length holds, and decode answers EBADHEADER. -/
theorem decode_gate_fail (env : Env) (be : Backend) (i : Inst) (frags : List Bytes) (fragLen : Nat) (force : Bool)
    (hn : i.k ≤ frags.length) (hl : Hdr.size ≤ fragLen) (hg : frags.any (gateBad fragLen) = true) :
    decode env be i frags fragLen force = .error (.rc (-EBADHEADER)) := by
  rw [decode_unfold]
  simp only [show ¬ frags.length < i.k from by omega, show ¬ fragLen < Hdr.size from by omega, hg,
    if_true, if_false, failRc]

/-- the header loop of reconstruct, for an in-range destination. -/
theorem reconstruct_gate_fail (env : Env) (be : Backend) (i : Inst) (frags : List Bytes) (fragLen : Nat) (dest : Int)
    (hd : 0 ≤ dest ∧ dest < ((i.k + i.m : Nat) : Int)) (hl : Hdr.size ≤ fragLen)
    (hg : frags.any (gateBad fragLen) = true) :
    reconstruct env be i frags fragLen dest = .error (.rc (-EBADHEADER)) := by
  unfold reconstruct
  have h1 : (decide (dest < 0) || decide (dest ≥ ((i.k + i.m : Nat) : Int))) = false := by
    simp; omega
  simp only [h1, Bool.false_eq_true, if_false, hg, if_true, failRc, show ¬ fragLen < Hdr.size from by omega]

theorem present_of_missing_le (F : Nat → Bytes) (fs : List Bytes) (k m : Nat) (hk : 0 < k)
    (h : (missingIdx F fs (k + m)).length ≤ m) : ∃ j, j < k + m ∧ F j ∈ fs := by
  apply Classical.byContradiction
  intro hno
  have hall : ∀ j ∈ List.range (k + m), decide (F j ∉ fs) = true := by
    intro j hj
    have hj' : j < k + m := by simpa using hj
    have : F j ∉ fs := fun hin => hno ⟨j, hj', hin⟩
    simpa using this
  have : missingIdx F fs (k + m) = List.range (k + m) := List.filter_eq_self.mpr hall
  rw [this, List.length_range] at h
  omega

section slow
variable {env : Env} {be : Backend} {i : Inst} {data : Bytes} {enc dataP parP : List Bytes}

theorem EncView.decodeSlow_eq (hv : EncView env be i data (blockSize i data.length) enc dataP parP)
    (hok : FrontOK env i data.length) {frags : List Bytes} (hsub : ∀ f ∈ frags, f ∈ enc) :
    decodeSlow env be i frags (80 + blockSize i data.length) =
      if (missingIdx (fun j => enc.getD j []) frags (i.k + i.m)).length > i.m then .error (.rc (-EINSUFFFRAGS))
      else
        match be.decode (eraseBufs dataP (missingIdx (fun j => enc.getD j []) frags (i.k + i.m)) 0 (blockSize i data.length))
            (eraseBufs parP (missingIdx (fun j => enc.getD j []) frags (i.k + i.m)) i.k (blockSize i data.length))
            (missingIdx (fun j => enc.getD j []) frags (i.k + i.m)) (blockSize i data.length) with
        | .error e => .error e
        | .ok (dp, _) =>
          match fragmentsToString i.k (regenData env i (filledOf (fun j => enc.getD j []) frags 0 i.k (blockSize i data.length))
              dp (missingIdx (fun j => enc.getD j []) frags (i.k + i.m)) data.length (blockSize i data.length)) with
          | .ok out => .ok out
          | .error e => .error (.rc e) := by
  have hidx : ∀ j, j < i.k + i.m → getFragmentIdx ((fun j => enc.getD j []) j) = (j : Int) := hv.idx hok
  have hgood : ∀ j, j < i.k + i.m → getOrigDataSize ((fun j => enc.getD j []) j) = (data.length : Int) ∧
      getPayloadSize ((fun j => enc.getD j []) j) = (blockSize i data.length : Int) :=
    fun j hj => ⟨(hv.good hok j hj).orig, (hv.good hok j hj).size⟩
  have hpd : ∀ j (h : j < i.k), fPayload ((fun j => enc.getD j []) (j + 0)) = dataP[j]'(by rw [hv.stripe.dlen]; exact h) := by
    intro j h
    have hl := hv.stripe.dlen
    have h1 : (dataP ++ parP).getD j [] = dataP[j]'(by omega) := by
      simp [List.getD_eq_getElem?_getD, List.getElem?_append_left (show j < dataP.length by omega),
        List.getElem?_eq_getElem (show j < dataP.length by omega)]
    rw [← h1]
    exact (hv.good hok j (by omega)).payload
  have hpp : ∀ j (h : j < i.m), fPayload ((fun j => enc.getD j []) (j + i.k)) = parP[j]'(by rw [hv.stripe.plen]; exact h) := by
    intro j h
    have hl := hv.stripe.dlen
    have hl2 := hv.stripe.plen
    have h1 : (dataP ++ parP).getD (j + i.k) [] = parP[j]'(by omega) := by
      simp [List.getD_eq_getElem?_getD, List.getElem?_append_right (show dataP.length ≤ j + i.k by omega), hl,
        List.getElem?_eq_getElem (show j < parP.length by omega)]
    rw [← h1]
    exact (hv.good hok (j + i.k) (by omega)).payload
  generalize hF : (fun j => enc.getD j []) = F at *
  unfold decodeSlow
  rw [partition_eq hidx frags (hF ▸ hv.sub_F hsub)]
  by_cases hm : (missingIdx F frags (i.k + i.m)).length > i.m
  · rw [if_pos hm, if_pos hm]
  · rw [if_neg hm, if_neg hm]
    simp only
    rw [show 80 + blockSize i data.length = Hdr.size + blockSize i data.length from rfl,
      prepare_eq frags hgood (present_of_missing_le F frags i.k i.m hok.kpos (by omega))]
    simp only
    rw [filled_payloads frags 0 i.k _ (i.k + i.m) dataP hv.stripe.dlen (by omega) hpd,
      filled_payloads frags i.k i.m _ (i.k + i.m) parP hv.stripe.plen (by omega) hpp]
    have : ¬ ((blockSize i data.length : Int) < 0) := by omega
    simp only [this, if_false, Int.toNat_natCast, bind, Except.bind]
    split
    · rename_i e he; rw [he]
    · rename_i v hv'; rw [hv']; rfl

end slow


section regen
variable {env : Env} {be : Backend} {i : Inst} {data : Bytes} {enc dataP parP : List Bytes}

theorem EncView.dataP_getElem (hv : EncView env be i data (blockSize i data.length) enc dataP parP)
    (j : Nat) (h : j < dataP.length) : dataP[j] = slice data (blockSize i data.length) j := by
  have hl := hv.stripe.dlen
  have := hv.pl_data j (by omega)
  rw [← this]
  simp [List.getD_eq_getElem?_getD, List.getElem?_append_left h, List.getElem?_eq_getElem h]

/-- after a correct backend decode, the regenerated data fragments read like the encoded ones. -/
theorem EncView.regen_good (hv : EncView env be i data (blockSize i data.length) enc dataP parP)
    (hok : FrontOK env i data.length) (frags : List Bytes) :
    (regenData env i (filledOf (fun j => enc.getD j []) frags 0 i.k (blockSize i data.length)) dataP
      (missingIdx (fun j => enc.getD j []) frags (i.k + i.m)) data.length (blockSize i data.length)).length = i.k ∧
    ∀ j (h : j < (regenData env i (filledOf (fun j => enc.getD j []) frags 0 i.k (blockSize i data.length)) dataP
      (missingIdx (fun j => enc.getD j []) frags (i.k + i.m)) data.length (blockSize i data.length)).length),
      GoodFrag data.length (blockSize i data.length) j (slice data (blockSize i data.length) j)
        ((regenData env i (filledOf (fun j => enc.getD j []) frags 0 i.k (blockSize i data.length)) dataP
          (missingIdx (fun j => enc.getD j []) frags (i.k + i.m)) data.length (blockSize i data.length))[j]) := by
  have hl := hv.stripe.dlen
  have hlen : (regenData env i (filledOf (fun j => enc.getD j []) frags 0 i.k (blockSize i data.length)) dataP
      (missingIdx (fun j => enc.getD j []) frags (i.k + i.m)) data.length (blockSize i data.length)).length = i.k := by
    simp [regenData, filledOf_length, hl]
  refine ⟨hlen, ?_⟩
  intro j h
  have hj : j < i.k := by omega
  have hjm : j < i.k + i.m := by omega
  simp only [regenData, List.getElem_map, List.getElem_zipIdx, List.getElem_zip, Nat.zero_add]
  rw [contains_missingIdx _ frags _ j hjm]
  have hfj : (filledOf (fun j => enc.getD j []) frags 0 i.k (blockSize i data.length))[j]'(by
      rw [filledOf_length]; exact hj) =
      if enc.getD j [] ∈ frags then enc.getD j [] else freshFragment (blockSize i data.length) := by
    simp [filledOf]
  rw [hfj, hv.dataP_getElem j (by omega)]
  have hsl : (slice data (blockSize i data.length) j).length = blockSize i data.length := slice_length _ _ _
  by_cases hin : enc.getD j [] ∈ frags
  · simp only [hin, not_true_eq_false, decide_false, Bool.false_eq_true, if_false, if_true]
    have hg := hv.good hok j hjm
    rw [hv.pl_data j hj] at hg
    have : withPayload (enc.getD j []) (slice data (blockSize i data.length) j) = enc.getD j [] := by
      unfold withPayload
      rw [hv.enc_getD j hjm, specFragment_take, hv.pl_data j hj]
      rfl
    rw [this]; exact hg
  · simp only [hin, not_false_eq_true, decide_true, if_true, if_false]
    rw [withPayload_fresh, setMagic_fragmentWithPayload, addFragmentMetadata_nochk _ _ _ _ _ _ hok.len31]
    exact specFragment_good env (noChk i) j _ _ _ (hok.freshNoChk j hjm) (by have := hok.km; omega) hok.len31 hok.bs31

end regen


section dec
variable {env : Env} {be : Backend} {i : Inst} {data : Bytes} {enc dataP parP : List Bytes}

theorem EncView.regen_string (hv : EncView env be i data (blockSize i data.length) enc dataP parP)
    (hok : FrontOK env i data.length) (frags : List Bytes) :
    fragmentsToString i.k (regenData env i (filledOf (fun j => enc.getD j []) frags 0 i.k (blockSize i data.length)) dataP
      (missingIdx (fun j => enc.getD j []) frags (i.k + i.m)) data.length (blockSize i data.length)) = .ok data := by
  obtain ⟨hlen, hg⟩ := hv.regen_good hok frags
  generalize regenData env i (filledOf (fun j => enc.getD j []) frags 0 i.k (blockSize i data.length)) dataP
      (missingIdx (fun j => enc.getD j []) frags (i.k + i.m)) data.length (blockSize i data.length) = gs at hlen hg
  apply (fragmentsToString_good data (slice data (blockSize i data.length)) gs hok.kpos (fun _ _ => rfl) hok.cover ?_).2
  · refine ⟨by omega, ?_⟩
    intro j hj
    exact ⟨gs[j]'(by omega), List.getElem_mem _, (hg j (by omega)).idx⟩
  · intro f hf
    obtain ⟨j, hj, rfl⟩ := List.mem_iff_getElem.mp hf
    exact ⟨j, hg j hj⟩

/-- the fast path (`fragments_to_string` on the supplied fragments) can only return the input. -/
theorem EncView.fast_cases (hv : EncView env be i data (blockSize i data.length) enc dataP parP)
    (hok : FrontOK env i data.length) {frags : List Bytes} (hsub : ∀ f ∈ frags, f ∈ enc) :
    fragmentsToString i.k frags = .ok data ∨ fragmentsToString i.k frags = .error (-1) := by
  have h := fragmentsToString_good data (fun j => (dataP ++ parP).getD j []) frags hok.kpos
    (fun j hj => hv.pl_data j hj) hok.cover (hv.sub_good hok hsub)
  by_cases hc : frags.length < i.k ∨ ∃ j, j < i.k ∧ ∀ f ∈ frags, getFragmentIdx f ≠ (j : Int)
  · exact Or.inr (h.1 hc)
  · refine Or.inl (h.2 ⟨by omega, ?_⟩)
    intro j hj
    apply Classical.byContradiction
    intro hno
    exact hc (Or.inr ⟨j, hj, fun f hf hi => hno ⟨f, hf, hi⟩⟩)

theorem EncView.decodeTail_roundtrip (hv : EncView env be i data (blockSize i data.length) enc dataP parP)
    (hok : FrontOK env i data.length) {frags : List Bytes} (hsub : ∀ f ∈ frags, f ∈ enc)
    {tol : List Nat → Prop} {bsOK : Nat → Prop} (hD : DecodeOK be i.k i.m tol bsOK)
    (hbs : bsOK (blockSize i data.length))
    (htol : tol (missingIdx (fun j => enc.getD j []) frags (i.k + i.m)))
    (hmiss : (missingIdx (fun j => enc.getD j []) frags (i.k + i.m)).length ≤ i.m) :
    decodeTail env be i frags (80 + blockSize i data.length) = .ok data := by
  unfold decodeTail
  have hslow : decodeSlow env be i frags (80 + blockSize i data.length) = .ok data := by
    rw [hv.decodeSlow_eq hok hsub, if_neg (by omega),
      hD.decode _ _ _ _ hbs hv.stripe (missingIdx_ok _ _ _ _) htol]
    simp only [hv.regen_string hok frags]
  split
  · rename_i out hfast
    split at hfast
    · rcases hv.fast_cases hok hsub with h | h
      · rw [h] at hfast; cases hfast; rfl
      · rw [h] at hfast; cases hfast
    · cases hfast
  · exact hslow

end dec


section dec
variable {env : Env} {be : Backend} {i : Inst} {data : Bytes} {enc dataP parP : List Bytes}

theorem EncView.decodeSlow_sound (hv : EncView env be i data (blockSize i data.length) enc dataP parP)
    (hok : FrontOK env i data.length) {frags : List Bytes} (hsub : ∀ f ∈ frags, f ∈ enc)
    {bsOK : Nat → Prop} (hS : DecodeSound be i.k i.m bsOK) (hbs : bsOK (blockSize i data.length)) :
    decodeSlow env be i frags (80 + blockSize i data.length) = .ok data ∨
    ∃ e, decodeSlow env be i frags (80 + blockSize i data.length) = .error (.rc e) ∧
      (e < 0 ∨ ∃ d p ms b, be.decode d p ms b = .error (.rc e)) := by
  rw [hv.decodeSlow_eq hok hsub]
  by_cases hm : (missingIdx (fun j => enc.getD j []) frags (i.k + i.m)).length > i.m
  · rw [if_pos hm]
    exact Or.inr ⟨_, rfl, Or.inl (by decide)⟩
  · rw [if_neg hm]
    have hmok := missingIdx_ok (fun j => enc.getD j []) frags i.k i.m
    cases hdec : be.decode (eraseBufs dataP (missingIdx (fun j => enc.getD j []) frags (i.k + i.m)) 0 (blockSize i data.length))
        (eraseBufs parP (missingIdx (fun j => enc.getD j []) frags (i.k + i.m)) i.k (blockSize i data.length))
        (missingIdx (fun j => enc.getD j []) frags (i.k + i.m)) (blockSize i data.length) with
    | error f =>
      cases f with
      | rc e => exact Or.inr ⟨e, rfl, Or.inr ⟨_, _, _, _, hdec⟩⟩
      | crash => exact absurd hdec (hS.decode_nocrash _ _ _ _ hbs hv.stripe hmok (by omega))
    | ok v =>
      obtain ⟨dp, pp⟩ := v
      have : dp = dataP := hS.decode _ _ _ _ _ _ hbs hv.stripe hmok (by omega) hdec
      subst this
      left
      simp only [hv.regen_string hok frags]

theorem EncView.decodeTail_sound (hv : EncView env be i data (blockSize i data.length) enc dataP parP)
    (hok : FrontOK env i data.length) {frags : List Bytes} (hsub : ∀ f ∈ frags, f ∈ enc)
    {bsOK : Nat → Prop} (hS : DecodeSound be i.k i.m bsOK) (hbs : bsOK (blockSize i data.length)) :
    decodeTail env be i frags (80 + blockSize i data.length) = .ok data ∨
    ∃ e, decodeTail env be i frags (80 + blockSize i data.length) = .error (.rc e) ∧
      (e < 0 ∨ ∃ d p ms b, be.decode d p ms b = .error (.rc e)) := by
  unfold decodeTail
  split
  · rename_i out hfast
    split at hfast
    · rcases hv.fast_cases hok hsub with h | h
      · rw [h] at hfast; cases hfast; exact Or.inl rfl
      · rw [h] at hfast; cases hfast
    · cases hfast
  · exact hv.decodeSlow_sound hok hsub hS hbs

end dec

/-! ### C20: forced metadata checks -/

/-- **C20**: with forced metadata checks, decode is plain decode of the fragments that validate
    (for any supplied fragments whose headers are acceptable). -/
theorem decode_forced_filter (env : Env) (be : Backend) (i : Inst) (frags : List Bytes) (fragLen : Nat)
    (hn : i.k ≤ frags.length) (hl : 80 ≤ fragLen) (hh : frags.any (gateBad fragLen) = false) :
    decode env be i frags fragLen true =
      (if (frags.filter (fun f => !isInvalidFragment env be i f)).length < i.k
       then .error (.rc (-EINSUFFFRAGS))
       else decode env be i (frags.filter (fun f => !isInvalidFragment env be i f)) fragLen false) := by
  have hh' : (frags.filter (fun f => !isInvalidFragment env be i f)).any (gateBad fragLen) = false := by
    cases h : (frags.filter (fun f => !isInvalidFragment env be i f)).any (gateBad fragLen) with
    | false => rfl
    | true =>
      obtain ⟨f, hf, hi⟩ := List.any_eq_true.mp h
      have : frags.any (gateBad fragLen) = true :=
        List.any_eq_true.mpr ⟨f, (List.mem_filter.mp hf).1, hi⟩
      rw [hh] at this; cases this
  rw [decode_unfold, decode_unfold]
  have h1 : ¬ frags.length < i.k := by omega
  have h2 : ¬ fragLen < Hdr.size := by simp [Hdr.size]; omega
  simp only [h1, h2, hh, hh', if_false, if_true, Bool.true_and, Bool.false_and, Bool.false_eq_true,
    decide_eq_true_eq, failRc]
  split
  · rfl
  · rfl

/-- dropping fragments that fail validation does not change a forced decode (as long as enough
    supplied fragments remain for the count check). -/
theorem decode_forced_ignores_invalid (env : Env) (be : Backend) (i : Inst) (frags : List Bytes) (fragLen : Nat)
    (f : Bytes) (hbad : isInvalidFragment env be i f = true)
    (hn : i.k ≤ (frags.erase f).length) (hl : 80 ≤ fragLen) (hh : frags.any (gateBad fragLen) = false) :
    decode env be i frags fragLen true = decode env be i (frags.erase f) fragLen true := by
  have hsub : ∀ g ∈ frags.erase f, g ∈ frags := fun g hg => List.mem_of_mem_erase hg
  have hh' : (frags.erase f).any (gateBad fragLen) = false := by
    cases h : (frags.erase f).any (gateBad fragLen) with
    | false => rfl
    | true =>
      obtain ⟨g, hg, hi⟩ := List.any_eq_true.mp h
      have : frags.any (gateBad fragLen) = true := List.any_eq_true.mpr ⟨g, hsub g hg, hi⟩
      rw [hh] at this; cases this
  have hlen : i.k ≤ frags.length := by
    have := List.length_erase_le (a := f) (l := frags); omega
  rw [decode_forced_filter env be i frags fragLen hlen hl hh,
    decode_forced_filter env be i (frags.erase f) fragLen hn hl hh']
  have : (frags.erase f).filter (fun g => !isInvalidFragment env be i g) =
      frags.filter (fun g => !isInvalidFragment env be i g) := by
    clear hn hh hh' hsub hlen
    induction frags with
    | nil => rfl
    | cons x xs ih =>
      by_cases hx : x = f
      · subst hx; simp [hbad]
      · rw [List.erase_cons_tail (by simpa using hx)]
        simp only [List.filter_cons]
        rw [ih]
  rw [this]


/-! ### C01 / C02: decode -/

/-- the ascending list of stripe indexes whose fragment `enc[idx]` is not among `frags`. -/
def missingOfStripe (enc frags : List Bytes) : List Nat :=
  missingIdx (fun j => enc.getD j []) frags enc.length

theorem mem_missingOfStripe (enc frags : List Bytes) (j : Nat) :
    j ∈ missingOfStripe enc frags ↔ j < enc.length ∧ enc.getD j [] ∉ frags :=
  mem_missingIdx _ _ _ _

theorem missingOfStripe_sorted (enc frags : List Bytes) : (missingOfStripe enc frags).Pairwise (· < ·) :=
  List.Pairwise.filter _ List.pairwise_lt_range

section main
variable (env : Env) (be : Backend) (i : Inst) (data : Bytes) (enc frags : List Bytes)
  {bsOK : Nat → Prop} {tol : List Nat → Prop}

/-- **C01** decode round trip (no forced metadata checks). -/
theorem decode_roundtrip (hE : EncodeOK be i.k i.m bsOK) (hbs : bsOK (blockSize i data.length))
    (hok : FrontOK env i data.length) (henc : encode env be i data = .ok enc)
    (hsub : ∀ f ∈ frags, f ∈ enc) (hD : DecodeOK be i.k i.m tol bsOK)
    (htol : tol (missingOfStripe enc frags)) (hmiss : (missingOfStripe enc frags).length ≤ i.m)
    (hn : i.k ≤ frags.length) :
    decode env be i frags (80 + blockSize i data.length) false = .ok data := by
  obtain ⟨parP, hv⟩ := encode_view env be i data enc hE hbs henc
  unfold missingOfStripe at htol hmiss
  rw [hv.enc_length] at htol hmiss
  rw [decode_unfold]
  have h1 : ¬ frags.length < i.k := by omega
  have h2 : ¬ 80 + blockSize i data.length < Hdr.size := by simp [Hdr.size]
  simp only [h1, h2, hv.sub_gate hok hsub, if_false, Bool.false_and, Bool.false_eq_true]
  exact hv.decodeTail_roundtrip hok hsub hD hbs htol hmiss

/-- every fragment of the stripe passes `is_invalid_fragment`, so the forced filter keeps all. -/
theorem forced_filter_id (hE : EncodeOK be i.k i.m bsOK) (hbs : bsOK (blockSize i data.length))
    (hok : FrontOK env i data.length) (henc : encode env be i data = .ok enc)
    (hsub : ∀ f ∈ frags, f ∈ enc) (hc : be.compat i.beVer = true) :
    frags.filter (fun f => !isInvalidFragment env be i f) = frags := by
  obtain ⟨parP, hv⟩ := encode_view env be i data enc hE hbs henc
  rw [List.filter_eq_self]
  intro f hf
  obtain ⟨j, hj, rfl⟩ := hv.mem_enc (hsub f hf)
  rw [hv.frag_valid hok hc j hj]; rfl

/-- **C01** decode round trip with forced metadata checks. -/
theorem decode_roundtrip_forced (hE : EncodeOK be i.k i.m bsOK) (hbs : bsOK (blockSize i data.length))
    (hok : FrontOK env i data.length) (henc : encode env be i data = .ok enc)
    (hsub : ∀ f ∈ frags, f ∈ enc) (hD : DecodeOK be i.k i.m tol bsOK)
    (htol : tol (missingOfStripe enc frags)) (hmiss : (missingOfStripe enc frags).length ≤ i.m)
    (hn : i.k ≤ frags.length) (hc : be.compat i.beVer = true) :
    decode env be i frags (80 + blockSize i data.length) true = .ok data := by
  obtain ⟨parP, hv⟩ := encode_view env be i data enc hE hbs henc
  rw [decode_forced_filter env be i frags _ hn (by omega) (hv.sub_gate hok hsub),
    forced_filter_id env be i data enc frags hE hbs hok henc hsub hc, if_neg (by omega)]
  exact decode_roundtrip env be i data enc frags hE hbs hok henc hsub hD htol hmiss hn

/-- **C02** (decode half): whatever subset of the stripe is supplied, decode returns the input or
    an error code — never other bytes, never a fault.  The code is negative unless it is a
    (non-negative) code the backend's decode operation itself returned. -/
theorem decode_sound' (hE : EncodeOK be i.k i.m bsOK) (hbs : bsOK (blockSize i data.length))
    (hok : FrontOK env i data.length) (henc : encode env be i data = .ok enc)
    (hsub : ∀ f ∈ frags, f ∈ enc) (hS : DecodeSound be i.k i.m bsOK) (force : Bool) :
    decode env be i frags (80 + blockSize i data.length) force = .ok data ∨
    ∃ e, decode env be i frags (80 + blockSize i data.length) force = .error (.rc e) ∧
      (e < 0 ∨ ∃ d p ms b, be.decode d p ms b = .error (.rc e)) := by
  obtain ⟨parP, hv⟩ := encode_view env be i data enc hE hbs henc
  rw [decode_unfold]
  by_cases h1 : frags.length < i.k
  · rw [if_pos h1]; exact Or.inr ⟨_, rfl, Or.inl (by decide)⟩
  · have h2 : ¬ 80 + blockSize i data.length < Hdr.size := by simp [Hdr.size]
    simp only [h1, h2, hv.sub_gate hok hsub, if_false, Bool.false_eq_true]
    cases force with
    | false =>
      simp only [Bool.false_and, Bool.false_eq_true, if_false]
      exact hv.decodeTail_sound hok hsub hS hbs
    | true =>
      simp only [Bool.true_and, if_true, decide_eq_true_eq]
      split
      · exact Or.inr ⟨_, rfl, Or.inl (by decide)⟩
      · exact hv.decodeTail_sound hok (fun f hf => hsub f (List.mem_filter.mp hf).1) hS hbs

/-- **C02** (decode half) for a backend whose decode operation only fails with negative codes (all
    built-in ones): the input, or a negative return code. -/
theorem decode_sound (hE : EncodeOK be i.k i.m bsOK) (hbs : bsOK (blockSize i data.length))
    (hok : FrontOK env i data.length) (henc : encode env be i data = .ok enc)
    (hsub : ∀ f ∈ frags, f ∈ enc) (hS : DecodeSound be i.k i.m bsOK)
    (hneg : ∀ d p ms b e, be.decode d p ms b = .error (.rc e) → e < 0) (force : Bool) :
    decode env be i frags (80 + blockSize i data.length) force = .ok data ∨
    ∃ e, decode env be i frags (80 + blockSize i data.length) force = .error (.rc e) ∧ e < 0 := by
  rcases decode_sound' env be i data enc frags hE hbs hok henc hsub hS force with h | ⟨e, he, h⟩
  · exact Or.inl h
  · refine Or.inr ⟨e, he, ?_⟩
    rcases h with h | ⟨d, p, ms, b, h⟩
    · exact h
    · exact hneg _ _ _ _ _ h

end main

/-! ### reconstruct -/

section rec
variable {env : Env} {be : Backend} {i : Inst} {data : Bytes} {enc dataP parP : List Bytes}

theorem EncView.reconstruct_eq (hv : EncView env be i data (blockSize i data.length) enc dataP parP)
    (hok : FrontOK env i data.length) {frags : List Bytes} (hsub : ∀ f ∈ frags, f ∈ enc)
    (dest : Nat) (hdest : dest < i.k + i.m) :
    reconstruct env be i frags (80 + blockSize i data.length) (dest : Int) =
      if (missingIdx (fun j => enc.getD j []) frags (i.k + i.m)).length > i.m then .error (.rc (-EINSUFFFRAGS))
      else if enc.getD dest [] ∈ frags then .ok (enc.getD dest [])
      else
        match be.reconstruct
            (eraseBufs dataP (missingIdx (fun j => enc.getD j []) frags (i.k + i.m)) 0 (blockSize i data.length))
            (eraseBufs parP (missingIdx (fun j => enc.getD j []) frags (i.k + i.m)) i.k (blockSize i data.length))
            (missingIdx (fun j => enc.getD j []) frags (i.k + i.m)) dest (blockSize i data.length) with
        | .error e => .error e
        | .ok (dp, pp) =>
          if (addFragmentMetadata env i (fragmentWithPayload
              (if dest < i.k then dp.getD dest [] else pp.getD (dest - i.k) [])) dest data.length
              (blockSize i data.length) true).length < 80 + blockSize i data.length then .error .crash
          else .ok ((addFragmentMetadata env i (fragmentWithPayload
              (if dest < i.k then dp.getD dest [] else pp.getD (dest - i.k) [])) dest data.length
              (blockSize i data.length) true).take (80 + blockSize i data.length)) := by
  have hidx : ∀ j, j < i.k + i.m → getFragmentIdx ((fun j => enc.getD j []) j) = (j : Int) := hv.idx hok
  have hgood : ∀ j, j < i.k + i.m → getOrigDataSize ((fun j => enc.getD j []) j) = (data.length : Int) ∧
      getPayloadSize ((fun j => enc.getD j []) j) = (blockSize i data.length : Int) :=
    fun j hj => ⟨(hv.good hok j hj).orig, (hv.good hok j hj).size⟩
  have hpd : ∀ j (h : j < i.k), fPayload ((fun j => enc.getD j []) (j + 0)) = dataP[j]'(by rw [hv.stripe.dlen]; exact h) := by
    intro j h
    have hl := hv.stripe.dlen
    have h1 : (dataP ++ parP).getD j [] = dataP[j]'(by omega) := by
      simp [List.getD_eq_getElem?_getD, List.getElem?_append_left (show j < dataP.length by omega),
        List.getElem?_eq_getElem (show j < dataP.length by omega)]
    rw [← h1]
    exact (hv.good hok j (by omega)).payload
  have hpp : ∀ j (h : j < i.m), fPayload ((fun j => enc.getD j []) (j + i.k)) = parP[j]'(by rw [hv.stripe.plen]; exact h) := by
    intro j h
    have hl := hv.stripe.dlen
    have hl2 := hv.stripe.plen
    have h1 : (dataP ++ parP).getD (j + i.k) [] = parP[j]'(by omega) := by
      simp [List.getD_eq_getElem?_getD, List.getElem?_append_right (show dataP.length ≤ j + i.k by omega), hl,
        List.getElem?_eq_getElem (show j < parP.length by omega)]
    rw [← h1]
    exact (hv.good hok (j + i.k) (by omega)).payload
  have hflen : ((fun j => enc.getD j []) dest).length = 80 + blockSize i data.length := hv.frag_length dest hdest
  generalize hF : (fun j => enc.getD j []) = F at *
  have hFd : enc.getD dest [] = F dest := by rw [← hF]
  rw [hFd]
  unfold reconstruct
  have h1 : (decide ((dest : Int) < 0) || decide ((dest : Int) ≥ ((i.k + i.m : Nat) : Int))) = false := by
    simp; omega
  have h2 : ¬ 80 + blockSize i data.length < Hdr.size := by simp [Hdr.size]
  simp only [h1, h2, hv.sub_gate hok hsub, Bool.false_eq_true, if_false, Int.toNat_natCast]
  rw [partition_eq hidx frags (hF ▸ hv.sub_F hsub)]
  by_cases hm : (missingIdx F frags (i.k + i.m)).length > i.m
  · rw [if_pos hm, if_pos hm]
  · rw [if_neg hm, if_neg hm]
    simp only
    rw [contains_missingIdx F frags _ dest hdest]
    by_cases hin : F dest ∈ frags
    · simp only [hin, not_true_eq_false, decide_false, Bool.not_false, if_true]
      have hf : ((if dest < i.k then (slotsOf F frags 0 i.k).getD dest none
          else (slotsOf F frags i.k i.m).getD (dest - i.k) none).getD []) = F dest := by
        by_cases hdk : dest < i.k
        · rw [if_pos hdk, slotsOf_getD _ _ _ _ _ hdk, Nat.add_zero, if_pos hin]; rfl
        · rw [if_neg hdk, slotsOf_getD _ _ _ _ _ (show dest - i.k < i.m by omega),
            show dest - i.k + i.k = dest by omega, if_pos hin]; rfl
      rw [hf, hflen]
      simp only [Nat.lt_irrefl, if_false, pure, Except.pure]
      rw [← hflen, List.take_length]
    · simp only [hin, not_false_eq_true, decide_true, Bool.not_true, Bool.false_eq_true, if_false]
      rw [show 80 + blockSize i data.length = Hdr.size + blockSize i data.length from rfl,
        prepare_eq frags hgood (present_of_missing_le F frags i.k i.m hok.kpos (by omega))]
      simp only
      rw [filled_payloads frags 0 i.k _ (i.k + i.m) dataP hv.stripe.dlen (by omega) hpd,
        filled_payloads frags i.k i.m _ (i.k + i.m) parP hv.stripe.plen (by omega) hpp]
      have : ¬ ((blockSize i data.length : Int) < 0) := by omega
      simp only [this, if_false, Int.toNat_natCast, bind, Except.bind]
      split
      · rename_i e he; rw [he]
      · rename_i v hv'
        rw [hv']
        obtain ⟨dp, pp⟩ := v
        simp only
        have hf0 : (if dest < i.k then withPayload ((filledOf F frags 0 i.k (blockSize i data.length)).getD dest [])
              (dp.getD dest [])
            else withPayload ((filledOf F frags i.k i.m (blockSize i data.length)).getD (dest - i.k) [])
              (pp.getD (dest - i.k) [])) =
            fragmentWithPayload (if dest < i.k then dp.getD dest [] else pp.getD (dest - i.k) []) := by
          by_cases hdk : dest < i.k
          · rw [if_pos hdk, if_pos hdk, filledOf_getD _ _ _ _ _ _ hdk, Nat.add_zero, if_neg hin, withPayload_fresh]
          · rw [if_neg hdk, if_neg hdk, filledOf_getD _ _ _ _ _ _ (show dest - i.k < i.m by omega),
              show dest - i.k + i.k = dest by omega, if_neg hin, withPayload_fresh]
        rw [hf0, setMagic_fragmentWithPayload]
        rfl

end rec


section rec
variable {env : Env} {be : Backend} {i : Inst} {data : Bytes} {enc dataP parP : List Bytes}

/-- header regeneration with checksum around the true payload gives back the encoded fragment. -/
theorem EncView.rebuild (hv : EncView env be i data (blockSize i data.length) enc dataP parP)
    (hok : FrontOK env i data.length) (dest : Nat) (hdest : dest < i.k + i.m) (dp pp : List Bytes)
    (hdl : dp.length = i.k) (hpay : (dp ++ pp).getD dest [] = (dataP ++ parP).getD dest []) :
    (if (addFragmentMetadata env i (fragmentWithPayload
        (if dest < i.k then dp.getD dest [] else pp.getD (dest - i.k) [])) dest data.length
        (blockSize i data.length) true).length < 80 + blockSize i data.length then (.error .crash : R Bytes)
      else .ok ((addFragmentMetadata env i (fragmentWithPayload
        (if dest < i.k then dp.getD dest [] else pp.getD (dest - i.k) [])) dest data.length
        (blockSize i data.length) true).take (80 + blockSize i data.length))) = .ok (enc.getD dest []) := by
  have hp : (if dest < i.k then dp.getD dest [] else pp.getD (dest - i.k) []) = (dataP ++ parP).getD dest [] := by
    rw [← hpay]
    by_cases hdk : dest < i.k
    · rw [if_pos hdk]
      simp [List.getD_eq_getElem?_getD, List.getElem?_append_left (show dest < dp.length by omega)]
    · rw [if_neg hdk]
      simp [List.getD_eq_getElem?_getD, List.getElem?_append_right (show dp.length ≤ dest by omega), hdl]
  rw [hp, addFragmentMetadata_spec env i dest data.length _ _ (hv.pl_size dest hdest) hok.len31]
  have he : (specHeader env i dest data.length (blockSize i data.length) ((dataP ++ parP).getD dest [])).bytes ++
      (dataP ++ parP).getD dest [] = enc.getD dest [] := by
    rw [hv.enc_getD dest hdest]; rfl
  rw [he, hv.frag_length dest hdest]
  simp only [Nat.lt_irrefl, if_false]
  rw [← hv.frag_length dest hdest, List.take_length]

theorem EncView.reconstruct_fidelity (hv : EncView env be i data (blockSize i data.length) enc dataP parP)
    (hok : FrontOK env i data.length) {frags : List Bytes} (hsub : ∀ f ∈ frags, f ∈ enc)
    {tol : List Nat → Prop} {bsOK : Nat → Prop} (hD : DecodeOK be i.k i.m tol bsOK)
    (hbs : bsOK (blockSize i data.length))
    (htol : tol (missingIdx (fun j => enc.getD j []) frags (i.k + i.m)))
    (hmiss : (missingIdx (fun j => enc.getD j []) frags (i.k + i.m)).length ≤ i.m)
    (dest : Nat) (hdest : dest < i.k + i.m) :
    reconstruct env be i frags (80 + blockSize i data.length) (dest : Int) = .ok (enc.getD dest []) := by
  rw [hv.reconstruct_eq hok hsub dest hdest, if_neg (by omega)]
  by_cases hin : enc.getD dest [] ∈ frags
  · rw [if_pos hin]
  · rw [if_neg hin]
    obtain ⟨d', p', hrec, hdl, _, hpay⟩ := hD.reconstruct _ _ _ _ dest hbs hv.stripe
      (missingIdx_ok _ _ _ _) htol ((mem_missingIdx _ _ _ _).mpr ⟨hdest, hin⟩)
    rw [hrec]
    exact hv.rebuild hok dest hdest d' p' hdl hpay

theorem EncView.reconstruct_sound (hv : EncView env be i data (blockSize i data.length) enc dataP parP)
    (hok : FrontOK env i data.length) {frags : List Bytes} (hsub : ∀ f ∈ frags, f ∈ enc)
    {bsOK : Nat → Prop} (hS : DecodeSound be i.k i.m bsOK) (hbs : bsOK (blockSize i data.length))
    (dest : Nat) (hdest : dest < i.k + i.m) :
    reconstruct env be i frags (80 + blockSize i data.length) (dest : Int) = .ok (enc.getD dest []) ∨
    ∃ e, reconstruct env be i frags (80 + blockSize i data.length) (dest : Int) = .error (.rc e) ∧
      (e < 0 ∨ ∃ d p ms dst b, be.reconstruct d p ms dst b = .error (.rc e)) := by
  rw [hv.reconstruct_eq hok hsub dest hdest]
  by_cases hm : (missingIdx (fun j => enc.getD j []) frags (i.k + i.m)).length > i.m
  · rw [if_pos hm]; exact Or.inr ⟨_, rfl, Or.inl (by decide)⟩
  · rw [if_neg hm]
    by_cases hin : enc.getD dest [] ∈ frags
    · rw [if_pos hin]; exact Or.inl rfl
    · rw [if_neg hin]
      have hmok := missingIdx_ok (fun j => enc.getD j []) frags i.k i.m
      have hmem := (mem_missingIdx (fun j => enc.getD j []) frags (i.k + i.m) dest).mpr ⟨hdest, hin⟩
      cases hrec : be.reconstruct
          (eraseBufs dataP (missingIdx (fun j => enc.getD j []) frags (i.k + i.m)) 0 (blockSize i data.length))
          (eraseBufs parP (missingIdx (fun j => enc.getD j []) frags (i.k + i.m)) i.k (blockSize i data.length))
          (missingIdx (fun j => enc.getD j []) frags (i.k + i.m)) dest (blockSize i data.length) with
      | error f =>
        cases f with
        | rc e => exact Or.inr ⟨e, rfl, Or.inr ⟨_, _, _, _, _, hrec⟩⟩
        | crash => exact absurd hrec (hS.reconstruct_nocrash _ _ _ _ _ hbs hv.stripe hmok (by omega) hmem)
      | ok v =>
        obtain ⟨dp, pp⟩ := v
        obtain ⟨hdl, _, hpay⟩ := hS.reconstruct _ _ _ _ _ _ _ hbs hv.stripe hmok (by omega) hmem hrec
        left
        exact hv.rebuild hok dest hdest dp pp hdl hpay

end rec

/-! ### C03 / C02: reconstruct -/

section mainrec
variable (env : Env) (be : Backend) (i : Inst) (data : Bytes) (enc frags : List Bytes)
  {bsOK : Nat → Prop} {tol : List Nat → Prop}

/-- encode returns k+m fragments (so `enc.getD idx []` is `enc[idx]` for `idx < k+m`). -/
theorem encode_length (hE : EncodeOK be i.k i.m bsOK) (hbs : bsOK (blockSize i data.length))
    (henc : encode env be i data = .ok enc) : enc.length = i.k + i.m := by
  obtain ⟨parP, hv⟩ := encode_view env be i data enc hE hbs henc
  exact hv.enc_length

/-- **C03** reconstruct fidelity: any in-range destination, missing or supplied, comes back
    byte-identical to the fragment encode produced. -/
theorem reconstruct_fidelity (hE : EncodeOK be i.k i.m bsOK) (hbs : bsOK (blockSize i data.length))
    (hok : FrontOK env i data.length) (henc : encode env be i data = .ok enc)
    (hsub : ∀ f ∈ frags, f ∈ enc) (hD : DecodeOK be i.k i.m tol bsOK)
    (htol : tol (missingOfStripe enc frags)) (hmiss : (missingOfStripe enc frags).length ≤ i.m)
    (dest : Int) (h0 : 0 ≤ dest) (h1 : dest < ((i.k + i.m : Nat) : Int)) :
    reconstruct env be i frags (80 + blockSize i data.length) dest = .ok (enc.getD dest.toNat []) := by
  obtain ⟨parP, hv⟩ := encode_view env be i data enc hE hbs henc
  unfold missingOfStripe at htol hmiss
  rw [hv.enc_length] at htol hmiss
  have := hv.reconstruct_fidelity hok hsub hD hbs htol hmiss dest.toNat (by omega)
  rwa [Int.toNat_of_nonneg h0] at this

/-- out-of-range destination: EINVALIDPARAMS, whatever else is passed. -/
theorem reconstruct_range (fragLen : Nat) (dest : Int) (h : dest < 0 ∨ dest ≥ ((i.k + i.m : Nat) : Int)) :
    reconstruct env be i frags fragLen dest = .error (.rc (-EINVALIDPARAMS)) := by
  unfold reconstruct
  have h1 : (decide (dest < 0) || decide (dest ≥ ((i.k + i.m : Nat) : Int))) = true := by
    rcases h with h | h
    · simp [h]
    · simp only [Bool.or_eq_true, decide_eq_true_eq]; exact Or.inr h
  simp only [h1, if_true, failRc]

/-- **C02** (reconstruct half): the encoded fragment or an error code, never other bytes, never a
    fault.  The code is negative unless it is a (non-negative) code the backend's reconstruct
    operation itself returned. -/
theorem reconstruct_sound' (hE : EncodeOK be i.k i.m bsOK) (hbs : bsOK (blockSize i data.length))
    (hok : FrontOK env i data.length) (henc : encode env be i data = .ok enc)
    (hsub : ∀ f ∈ frags, f ∈ enc) (hS : DecodeSound be i.k i.m bsOK)
    (dest : Int) (h0 : 0 ≤ dest) (h1 : dest < ((i.k + i.m : Nat) : Int)) :
    reconstruct env be i frags (80 + blockSize i data.length) dest = .ok (enc.getD dest.toNat []) ∨
    ∃ e, reconstruct env be i frags (80 + blockSize i data.length) dest = .error (.rc e) ∧
      (e < 0 ∨ ∃ d p ms dst b, be.reconstruct d p ms dst b = .error (.rc e)) := by
  obtain ⟨parP, hv⟩ := encode_view env be i data enc hE hbs henc
  have := hv.reconstruct_sound hok hsub hS hbs dest.toNat (by omega)
  rwa [Int.toNat_of_nonneg h0] at this

/-- **C02** (reconstruct half) for a backend whose reconstruct operation only fails with negative
    codes (all built-in ones). -/
theorem reconstruct_sound (hE : EncodeOK be i.k i.m bsOK) (hbs : bsOK (blockSize i data.length))
    (hok : FrontOK env i data.length) (henc : encode env be i data = .ok enc)
    (hsub : ∀ f ∈ frags, f ∈ enc) (hS : DecodeSound be i.k i.m bsOK)
    (hneg : ∀ d p ms dst b e, be.reconstruct d p ms dst b = .error (.rc e) → e < 0)
    (dest : Int) (h0 : 0 ≤ dest) (h1 : dest < ((i.k + i.m : Nat) : Int)) :
    reconstruct env be i frags (80 + blockSize i data.length) dest = .ok (enc.getD dest.toNat []) ∨
    ∃ e, reconstruct env be i frags (80 + blockSize i data.length) dest = .error (.rc e) ∧ e < 0 := by
  rcases reconstruct_sound' env be i data enc frags hE hbs hok henc hsub hS dest h0 h1 with h | ⟨e, he, h⟩
  · exact Or.inl h
  · refine Or.inr ⟨e, he, ?_⟩
    rcases h with h | ⟨d, p, ms, dst, b, h⟩
    · exact h
    · exact hneg _ _ _ _ _ _ h

end mainrec

/-! ### summary of the helper layer -/

section facts
variable (env : Env) (be : Backend) (i : Inst) (data : Bytes) (enc : List Bytes) {bsOK : Nat → Prop}

/-- what the readers see in fragment `idx` of an encoded stripe. -/
theorem encode_fragment_facts (hE : EncodeOK be i.k i.m bsOK) (hbs : bsOK (blockSize i data.length))
    (hok : FrontOK env i data.length) (henc : encode env be i data = .ok enc)
    (idx : Nat) (hidx : idx < i.k + i.m) :
    (enc.getD idx []).length = 80 + blockSize i data.length ∧
    isInvalidHeader (enc.getD idx []) = false ∧
    gateBad (80 + blockSize i data.length) (enc.getD idx []) = false ∧
    fMagic (enc.getD idx []) = magicC ∧
    getFragmentIdx (enc.getD idx []) = (idx : Int) ∧
    getPayloadSize (enc.getD idx []) = (blockSize i data.length : Int) ∧
    getOrigDataSize (enc.getD idx []) = (data.length : Int) ∧
    (fPayload (enc.getD idx [])).length = blockSize i data.length ∧
    (idx < i.k → fPayload (enc.getD idx []) = slice data (blockSize i data.length) idx) ∧
    (be.compat i.beVer = true → isInvalidFragment env be i (enc.getD idx []) = false) := by
  obtain ⟨parP, hv⟩ := encode_view env be i data enc hE hbs henc
  have hg := hv.good hok idx hidx
  refine ⟨hv.frag_length idx hidx, hv.header_valid hok idx hidx, hv.gate_ok hok idx hidx, hg.magic, hg.idx, hg.size, hg.orig, ?_, ?_, ?_⟩
  · rw [hg.payload]; exact hv.pl_size idx hidx
  · intro h; rw [hg.payload]; exact hv.pl_data idx h
  · intro hc; exact hv.frag_valid hok hc idx hidx

/-- fragments of one stripe with different indexes are different byte strings. -/
theorem encode_fragments_distinct (hE : EncodeOK be i.k i.m bsOK) (hbs : bsOK (blockSize i data.length))
    (hok : FrontOK env i data.length) (henc : encode env be i data = .ok enc)
    {a b : Nat} (ha : a < i.k + i.m) (hb : b < i.k + i.m) (h : enc.getD a [] = enc.getD b []) : a = b := by
  obtain ⟨parP, hv⟩ := encode_view env be i data enc hE hbs henc
  exact hv.inj hok ha hb h

end facts

/-! ### non-vacuity: the null backend with every fragment supplied -/

theorem eraseBufs_nil (bufs : List Bytes) (off cap : Nat) : eraseBufs bufs [] off cap = bufs := by
  unfold eraseBufs
  apply List.ext_getElem
  · simp
  · intro j h1 h2; simp

theorem nullBackend_decodeOK (k m : Nat) : DecodeOK nullBackend k m (fun ms => ms = []) (fun _ => True) where
  decode := by
    intro bs dataP parP missing _ _ _ ht
    subst ht
    simp [nullBackend, eraseBufs_nil]
  reconstruct := by
    intro bs dataP parP missing dest _ _ _ ht hd
    subst ht
    cases hd

example :
    let env : Env := { libver := 0x010604, legacy := false }
    let i : Inst := { beId := 0, beVer := 0x010000, k := 2, m := 1, w := 16, ct := 2 }
    FrontOK env i 5 := by
  constructor <;> decide

/-- the round-trip theorem instantiated: null backend, all fragments supplied in encode order. -/
example (env : Env) (i : Inst) (data : Bytes) (enc : List Bytes) (hok : FrontOK env i data.length)
    (henc : encode env nullBackend i data = .ok enc) :
    decode env nullBackend i enc (80 + blockSize i data.length) false = .ok data := by
  have hl := encode_length env nullBackend i data enc (nullBackend_encodeOK i.k i.m) trivial henc
  have hmiss : missingOfStripe enc enc = [] := by
    unfold missingOfStripe missingIdx
    rw [List.filter_eq_nil_iff]
    intro j hj
    have hj' : j < enc.length := by simpa using hj
    have : enc.getD j [] ∈ enc := by
      simp [List.getD_eq_getElem?_getD, List.getElem?_eq_getElem hj']
    simp only [this, not_true_eq_false, decide_false, Bool.false_eq_true, not_false_eq_true]
  exact decode_roundtrip env nullBackend i data enc enc (nullBackend_encodeOK i.k i.m) trivial hok henc
    (fun _ h => h) (nullBackend_decodeOK i.k i.m) hmiss (by rw [hmiss]; simp) (by omega)


#print axioms encode_view
#print axioms encode_fragment_facts
#print axioms encode_fragments_distinct
#print axioms decode_roundtrip
#print axioms decode_roundtrip_forced
#print axioms decode_sound'
#print axioms decode_sound
#print axioms reconstruct_fidelity
#print axioms reconstruct_range
#print axioms reconstruct_sound'
#print axioms reconstruct_sound
#print axioms decode_gate_fail
#print axioms reconstruct_gate_fail
#print axioms decode_forced_filter
#print axioms decode_forced_ignores_invalid
end Lec
