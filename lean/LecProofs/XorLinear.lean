/-
  LecProofs.XorLinear — linearity of plan execution for the flat-XOR codes.

  * `XorLaws`: the algebraic laws a buffer type needs; instances for `Nat` with `^^^`/`0`
    (symbolic buffers = bit masks over the k data symbols) and for `Bytes` of a fixed length
    `bs` with `xorBytes`/`zeros bs`.
  * `runOps_hom`: running a plan commutes with any xor-homomorphism applied to the state.
  * `interp bs d mask`: the xor of the payloads `d[i]` over the set bits `i < k` of `mask`;
    it is a homomorphism `(Nat, ^^^, 0) → (Bytes, xorBytes, zeros bs)` sending `1 <<< i` to `d[i]`.
  * `lift_run`: a symbolic run lifts to every payload content and every payload length.
  * `encode_sym`, `encode_bytes`: every parity fragment is exactly the xor of the data
    fragments its fixed equation (`parityBms[j]`) names — for every table, generically.
-/
import LecModel.Xor
namespace Lec

/-! ### list helpers (`getD`) -/

theorem getD_of_length_le {α : Type} {l : List α} {i : Nat} (h : l.length ≤ i) (d : α) :
    l.getD i d = d := by
  simp [List.getD_eq_getElem?_getD, List.getElem?_eq_none h]

theorem getD_of_lt {α : Type} {l : List α} {i : Nat} (h : i < l.length) (d : α) :
    l.getD i d = l[i] := by
  simp [List.getD_eq_getElem?_getD, List.getElem?_eq_getElem h]

theorem getD_map' {α β : Type} (f : α → β) (l : List α) (i : Nat) (d : α) :
    (l.map f).getD i (f d) = f (l.getD i d) := by
  simp only [List.getD_eq_getElem?_getD, List.getElem?_map]
  cases l[i]? <;> rfl

theorem getD_set' {α : Type} (l : List α) (i j : Nat) (a d : α) :
    (l.set i a).getD j d = if i = j ∧ i < l.length then a else l.getD j d := by
  simp only [List.getD_eq_getElem?_getD, List.getElem?_set]
  by_cases h : i = j
  · subst h
    by_cases h2 : i < l.length
    · simp [h2]
    · simp [h2]
  · simp [h]

theorem getD_range_map {α : Type} (f : Nat → α) (n i : Nat) (d : α) :
    ((List.range n).map f).getD i d = if i < n then f i else d := by
  by_cases h : i < n
  · rw [getD_of_lt (by simpa using h)]; simp [h]
  · rw [getD_of_length_le (by simpa using Nat.le_of_not_lt h)]; simp [h]

/-! ### laws of a buffer type -/

/-- xor-group laws on the carrier `P` (for `Bytes`: "has length `bs`"). -/
structure XorLaws {V : Type} (P : V → Prop) (xor : V → V → V) (zero : V) : Prop where
  xor_mem : ∀ {a b}, P a → P b → P (xor a b)
  zero_mem : P zero
  assoc : ∀ {a b c}, P a → P b → P c → xor (xor a b) c = xor a (xor b c)
  comm : ∀ {a b}, P a → P b → xor a b = xor b a
  self : ∀ {a}, P a → xor a a = zero
  zero_left : ∀ {a}, P a → xor zero a = a

theorem XorLaws.zero_right {V : Type} {P : V → Prop} {xor : V → V → V} {zero : V}
    (L : XorLaws P xor zero) {a : V} (ha : P a) : xor a zero = a := by
  rw [L.comm ha L.zero_mem, L.zero_left ha]

theorem natXorLaws : XorLaws (fun _ : Nat => True) (· ^^^ ·) 0 where
  xor_mem _ _ := trivial
  zero_mem := trivial
  assoc _ _ _ := Nat.xor_assoc _ _ _
  comm _ _ := Nat.xor_comm _ _
  self _ := Nat.xor_self _
  zero_left _ := Nat.zero_xor _

@[simp] theorem zeros_length' (n : Nat) : (zeros n).length = n := by simp [zeros]

theorem xorBytes_length (a b : Bytes) : (xorBytes a b).length = min a.length b.length := by
  simp [xorBytes]

theorem xorBytes_assoc (a b c : Bytes) : xorBytes (xorBytes a b) c = xorBytes a (xorBytes b c) := by
  induction a generalizing b c with
  | nil => simp [xorBytes]
  | cons x a ih =>
    cases b with
    | nil => simp [xorBytes]
    | cons y b =>
      cases c with
      | nil => simp [xorBytes]
      | cons z c =>
        have := ih b c
        simp only [xorBytes] at this ⊢
        simp only [List.zipWith_cons_cons, this, UInt8.xor_assoc]

theorem xorBytes_comm (a b : Bytes) : xorBytes a b = xorBytes b a := by
  induction a generalizing b with
  | nil => cases b <;> simp [xorBytes]
  | cons x a ih =>
    cases b with
    | nil => simp [xorBytes]
    | cons y b =>
      have := ih b
      simp only [xorBytes] at this ⊢
      simp only [List.zipWith_cons_cons, this, UInt8.xor_comm x y]

theorem xorBytes_self (a : Bytes) : xorBytes a a = zeros a.length := by
  induction a with
  | nil => rfl
  | cons x a ih =>
    show (x ^^^ x) :: xorBytes a a = List.replicate (a.length + 1) 0
    rw [ih, UInt8.xor_self, List.replicate_succ]; rfl

theorem zeros_xorBytes {bs : Nat} {a : Bytes} (h : a.length = bs) : xorBytes (zeros bs) a = a := by
  induction a generalizing bs with
  | nil => simp [xorBytes]
  | cons x a ih =>
    cases bs with
    | zero => simp at h
    | succ bs =>
      have := ih (bs := bs) (by simpa using h)
      simp only [xorBytes, zeros] at this ⊢
      simp [List.replicate_succ, this]

/-- the laws hold for byte buffers of a fixed length (the length is preserved by `xorBytes`). -/
theorem bytesXorLaws (bs : Nat) : XorLaws (fun b : Bytes => b.length = bs) xorBytes (zeros bs) where
  xor_mem ha hb := by rw [xorBytes_length, ha, hb, Nat.min_self]
  zero_mem := zeros_length' bs
  assoc _ _ _ := xorBytes_assoc _ _ _
  comm _ _ := xorBytes_comm _ _
  self ha := by rw [xorBytes_self, ha]
  zero_left ha := zeros_xorBytes ha

/-! ### homomorphisms commute with plan execution -/

namespace XState
variable {V W : Type}

/-- apply `h` to every buffer. -/
def map (h : V → W) (s : XState V) : XState W := ⟨s.data.map h, s.parity.map h, h s.tmp⟩

theorem get_map (h : V → W) (z : V) (s : XState V) (b : Buf) :
    (s.map h).get (h z) b = h (s.get z b) := by
  cases b <;> simp [map, get]

theorem set_map (h : V → W) (s : XState V) (b : Buf) (v : V) :
    (s.set b v).map h = (s.map h).set b (h v) := by
  cases b <;> simp [map, set, List.map_set]

end XState

section hom
variable {V W : Type} {xor : V → V → V} {zero : V} {xor' : W → W → W} {zero' : W} {h : V → W}

theorem runOp_hom (hx : ∀ a b, h (xor a b) = xor' (h a) (h b)) (hz : h zero = zero')
    (s : XState V) (op : Op) :
    (runOp xor zero s op).map h = runOp xor' zero' (s.map h) op := by
  subst hz
  cases op <;> simp [runOp, XState.set_map, XState.get_map, hx]

/-- running a plan commutes with mapping the state through a homomorphism. -/
theorem runOps_hom (hx : ∀ a b, h (xor a b) = xor' (h a) (h b)) (hz : h zero = zero')
    (ops : List Op) (s : XState V) :
    (runOps xor zero ops s).map h = runOps xor' zero' ops (s.map h) := by
  induction ops generalizing s with
  | nil => rfl
  | cons op ops ih =>
    simp only [runOps, List.foldl_cons] at ih ⊢
    rw [ih, runOp_hom hx hz]

end hom

/-! ### interpretation of a mask as a xor of payloads -/

/-- xor of `d[i]` over the set bits `i < d.length` of `mask` (`zero` if none). -/
def xorSel {V : Type} (xor : V → V → V) (zero : V) : List V → Nat → V
  | [], _ => zero
  | x :: d, mask =>
    if mask.testBit 0 then xor x (xorSel xor zero d (mask >>> 1)) else xorSel xor zero d (mask >>> 1)

section xorSel
variable {V : Type} {P : V → Prop} {xor : V → V → V} {zero : V}

theorem xorSel_mem (L : XorLaws P xor zero) {d : List V} (hd : ∀ x ∈ d, P x) (mask : Nat) :
    P (xorSel xor zero d mask) := by
  induction d generalizing mask with
  | nil => exact L.zero_mem
  | cons x d ih =>
    have hx : P x := hd x (by simp)
    have hr := ih (fun y hy => hd y (by simp [hy])) (mask >>> 1)
    simp only [xorSel]
    split
    · exact L.xor_mem hx hr
    · exact hr

theorem xorSel_zero (d : List V) : xorSel xor zero d 0 = zero := by
  induction d with
  | nil => rfl
  | cons x d ih => simp [xorSel, ih]

theorem xorSel_xor (L : XorLaws P xor zero) {d : List V} (hd : ∀ x ∈ d, P x) (a b : Nat) :
    xorSel xor zero d (a ^^^ b) = xor (xorSel xor zero d a) (xorSel xor zero d b) := by
  induction d generalizing a b with
  | nil => simp only [xorSel]; exact (L.zero_left L.zero_mem).symm
  | cons x d ih =>
    have hx : P x := hd x (by simp)
    have hd' : ∀ y ∈ d, P y := fun y hy => hd y (by simp [hy])
    have ha := xorSel_mem L hd' (a >>> 1)
    have hb := xorSel_mem L hd' (b >>> 1)
    simp only [xorSel, Nat.testBit_xor, Nat.shiftRight_xor_distrib, ih hd']
    generalize xorSel xor zero d (a >>> 1) = ra at ha ⊢
    generalize xorSel xor zero d (b >>> 1) = rb at hb ⊢
    cases a.testBit 0 <;> cases b.testBit 0 <;> simp only [Bool.xor_false, Bool.xor_true,
      Bool.not_false, Bool.not_true, if_true, if_false, Bool.false_eq_true]
    · -- a0 = 0, b0 = 1
      rw [← L.assoc ha hx hb, L.comm ha hx, L.assoc hx ha hb]
    · -- a0 = 1, b0 = 0
      rw [L.assoc hx ha hb]
    · -- a0 = 1, b0 = 1
      rw [L.assoc hx ha (L.xor_mem hx hb), ← L.assoc ha hx hb, L.comm ha hx, L.assoc hx ha hb,
        ← L.assoc hx hx (L.xor_mem ha hb), L.self hx, L.zero_left (L.xor_mem ha hb)]

theorem xorSel_unit (L : XorLaws P xor zero) {d : List V} (hd : ∀ x ∈ d, P x) {i : Nat}
    (hi : i < d.length) : xorSel xor zero d (1 <<< i) = d[i] := by
  induction d generalizing i with
  | nil => simp at hi
  | cons x d ih =>
    have hx : P x := hd x (by simp)
    cases i with
    | zero =>
      simp only [xorSel, Nat.shiftLeft_zero, List.getElem_cons_zero]
      have : (1 >>> 1 : Nat) = 0 := by decide
      rw [this, xorSel_zero]
      simp [L.zero_right hx]
    | succ i =>
      have h0 : (1 <<< (i + 1)).testBit 0 = false := by
        rw [Nat.testBit_shiftLeft]; simp
      have h1 : (1 <<< (i + 1)) >>> 1 = 1 <<< i := by
        rw [Nat.shiftLeft_add, Nat.shiftLeft_shiftRight]
      simp only [xorSel, h0, h1, List.getElem_cons_succ]
      exact ih (fun y hy => hd y (by simp [hy])) (by simpa using hi)

/-- only the bits `< d.length` of the mask matter. -/
theorem xorSel_congr (d : List V) {a b : Nat} (h : ∀ i, i < d.length → a.testBit i = b.testBit i) :
    xorSel xor zero d a = xorSel xor zero d b := by
  induction d generalizing a b with
  | nil => rfl
  | cons x d ih =>
    have h0 : a.testBit 0 = b.testBit 0 := h 0 (by simp)
    have hr : xorSel xor zero d (a >>> 1) = xorSel xor zero d (b >>> 1) := by
      apply ih
      intro i hi
      rw [Nat.testBit_shiftRight, Nat.testBit_shiftRight]
      exact h (1 + i) (by simp; omega)
    simp only [xorSel, h0, hr]

end xorSel

/-- `interp bs d mask`: xor of the payloads `d[i]` (each of length `bs`) named by the set bits
    `i < d.length` of `mask`; `zeros bs` if none. -/
def interp (bs : Nat) (d : List Bytes) (mask : Nat) : Bytes := xorSel xorBytes (zeros bs) d mask

section interp
variable {bs : Nat} {d : List Bytes}

theorem interp_length (hd : ∀ x ∈ d, x.length = bs) (mask : Nat) : (interp bs d mask).length = bs :=
  xorSel_mem (bytesXorLaws bs) hd mask

theorem interp_xor (hd : ∀ x ∈ d, x.length = bs) (a b : Nat) :
    interp bs d (a ^^^ b) = xorBytes (interp bs d a) (interp bs d b) :=
  xorSel_xor (bytesXorLaws bs) hd a b

theorem interp_zero : interp bs d 0 = zeros bs := xorSel_zero d

theorem interp_unit (hd : ∀ x ∈ d, x.length = bs) {i : Nat} (hi : i < d.length) :
    interp bs d (1 <<< i) = d[i] :=
  xorSel_unit (bytesXorLaws bs) hd hi

theorem interp_congr {a b : Nat} (h : ∀ i, i < d.length → a.testBit i = b.testBit i) :
    interp bs d a = interp bs d b := xorSel_congr d h

/-- **lifting theorem**: if the symbolic state `s` maps to the byte state `c` under
    `interp bs d`, then the symbolic run maps to the byte-level run — for every payload
    content `d` and every payload length `bs`. -/
theorem lift_run (hd : ∀ x ∈ d, x.length = bs) (ops : List Op) (s : XState Nat) (c : XState Bytes)
    (hsc : s.map (interp bs d) = c) :
    (runOps (· ^^^ ·) 0 ops s).map (interp bs d) = runOps xorBytes (zeros bs) ops c := by
  subst hsc
  exact runOps_hom (interp_xor hd) interp_zero ops s

/-- the unit masks are mapped to the data payloads themselves. -/
theorem map_units (hd : ∀ x ∈ d, x.length = bs) :
    ((List.range d.length).map (fun i => 1 <<< i)).map (interp bs d) = d := by
  apply List.ext_getElem (by simp)
  intro i h1 h2
  simp only [List.getElem_map, List.getElem_range]
  exact interp_unit hd h2

end interp

/-! ### encode: parity j = xor of the data named by `parityBms[j]` -/

namespace XorTable
variable (T : XorTable)

/-- symbolic stripe: data i = `1 <<< i`, parity j = `pbm j`, tmp = 0. -/
def symGoal : XState Nat :=
  ⟨(List.range T.k).map (fun i => 1 <<< i), (List.range T.m).map T.pbm, 0⟩

/-- symbolic encoder input: data i = `1 <<< i`, parity zeroed. -/
def symEncIn : XState Nat :=
  ⟨(List.range T.k).map (fun i => 1 <<< i), List.replicate T.m 0, 0⟩

end XorTable

section encode
variable {V : Type} (xor : V → V → V) (zero : V)

/-- one column of the encoder on the parity list: xor `v` into every parity `j < m` with `c j`. -/
theorem foldl_col (c : Nat → Bool) (v : V) (m : Nat) (x : XState V) (hm : m ≤ x.parity.length)
    (i : Nat) (hv : x.get zero (.data i) = v) :
    let y := (List.range m).foldl (fun acc j =>
      if c j = true then runOp xor zero acc (.xorInto (.data i) (.parity j)) else acc) x
    y.data = x.data ∧ y.tmp = x.tmp ∧ y.parity.length = x.parity.length ∧
      ∀ j, y.parity.getD j zero =
        if j < m ∧ c j = true then xor v (x.parity.getD j zero) else x.parity.getD j zero := by
  induction m with
  | zero => simp
  | succ m ih =>
    obtain ⟨h1, h2, h3, h4⟩ := ih (by omega)
    simp only [List.range_succ, List.foldl_append, List.foldl_cons, List.foldl_nil]
    generalize (List.range m).foldl (fun acc j =>
      if c j = true then runOp xor zero acc (.xorInto (.data i) (.parity j)) else acc) x = y at h1 h2 h3 h4
    by_cases hc : c m = true
    · simp only [hc, if_true, runOp, XState.set, XState.get, List.length_set]
      refine ⟨h1, h2, h3, ?_⟩
      intro j
      rw [getD_set', h1]
      simp only [XState.get] at hv
      rw [hv, h4 m, h4 j]
      by_cases hj : m = j
      · subst hj
        have : m < y.parity.length := by omega
        simp [this, hc]
      · have : (j < m + 1 ∧ c j = true) ↔ (j < m ∧ c j = true) := by
          constructor
          · rintro ⟨a, b⟩; exact ⟨by omega, b⟩
          · rintro ⟨a, b⟩; exact ⟨by omega, b⟩
        simp only [hj, false_and, if_false, this]
    · rw [if_neg hc]
      refine ⟨h1, h2, h3, ?_⟩
      intro j
      rw [h4 j]
      have : (j < m + 1 ∧ c j = true) ↔ (j < m ∧ c j = true) := by
        constructor
        · rintro ⟨a, b⟩
          refine ⟨?_, b⟩
          by_cases e : j = m
          · subst e; exact absurd b hc
          · omega
        · rintro ⟨a, b⟩; exact ⟨by omega, b⟩
      simp only [this]

end encode

/-- accumulated symbolic column sum: xor of `1 <<< i` over `i < k` with bit `i` of `mask` set. -/
theorem foldl_units (mask a0 k : Nat) :
    (List.range k).foldl (fun a i => if mask.testBit i = true then (1 <<< i) ^^^ a else a) a0
      = a0 ^^^ (mask % 2 ^ k) := by
  induction k with
  | zero => simp [Nat.mod_one]
  | succ k ih =>
    simp only [List.range_succ, List.foldl_append, List.foldl_cons, List.foldl_nil, ih]
    apply Nat.eq_of_testBit_eq
    intro b
    by_cases hk : mask.testBit k = true
    · simp only [hk, if_true, Nat.testBit_xor, Nat.testBit_mod_two_pow, Nat.one_shiftLeft,
        Nat.testBit_two_pow]
      by_cases hbk : b = k
      · subst hbk; simp [hk]
      · have hkb : ¬ k = b := fun e => hbk e.symm
        by_cases hlt : b < k
        · have h2 : b < k + 1 := by omega
          simp [hkb, hlt, h2]
        · have h2 : ¬ b < k + 1 := by omega
          simp [hkb, hlt, h2]
    · simp only [hk, if_false, Nat.testBit_xor, Nat.testBit_mod_two_pow, Bool.false_eq_true]
      by_cases hbk : b = k
      · subst hbk
        have : mask.testBit b = false := by simpa using hk
        simp [this]
      · by_cases hlt : b < k
        · have h2 : b < k + 1 := by omega
          simp [hlt, h2]
        · have h2 : ¬ b < k + 1 := by omega
          simp [hlt, h2]

namespace XorTable
variable (T : XorTable)

/-- **encode, symbolically**: running `encodeOps` on unit data masks and zeroed parities leaves
    the data alone and makes parity j the mask `pbm j` restricted to the k data symbols. -/
theorem encode_sym :
    let y := runOps (· ^^^ ·) 0 T.encodeOps T.symEncIn
    y.data = (List.range T.k).map (fun i => 1 <<< i) ∧
    y.parity = (List.range T.m).map (fun j => T.pbm j % 2 ^ T.k) := by
  -- generalise the outer loop bound
  have key : ∀ n, n ≤ T.k →
      let y := (List.range n).foldl (fun acc i => (List.range T.m).foldl (fun acc j =>
        if T.dataInParity i j = true then runOp (· ^^^ ·) 0 acc (.xorInto (.data i) (.parity j)) else acc) acc)
        T.symEncIn
      y.data = (List.range T.k).map (fun i => 1 <<< i) ∧ y.parity.length = T.m ∧
      ∀ j, j < T.m → y.parity.getD j 0 = T.pbm j % 2 ^ n := by
    intro n hn
    induction n with
    | zero =>
      simp only [symEncIn, List.range_zero, List.foldl_nil, List.length_replicate, Nat.pow_zero,
        Nat.mod_one, true_and]
      intro j hj
      simp [List.getD_eq_getElem?_getD, hj]
    | succ n ih =>
      obtain ⟨h1, h2, h3⟩ := ih (by omega)
      simp only [List.range_succ, List.foldl_append, List.foldl_cons, List.foldl_nil]
      generalize (List.range n).foldl (fun acc i => (List.range T.m).foldl (fun acc j =>
        if T.dataInParity i j = true then runOp (· ^^^ ·) 0 acc (.xorInto (.data i) (.parity j)) else acc) acc)
        T.symEncIn = y at h1 h2 h3
      have hv : y.get 0 (.data n) = 1 <<< n := by
        simp only [XState.get, h1, getD_range_map]
        have : n < T.k := by omega
        simp [this]
      obtain ⟨g1, _, g3, g4⟩ := foldl_col (· ^^^ ·) 0 (fun j => T.dataInParity n j) (1 <<< n) T.m y
        (by omega) n hv
      refine ⟨by rw [g1, h1], by rw [g3, h2], ?_⟩
      intro j hj
      rw [g4 j, h3 j hj]
      have e := foldl_units (T.pbm j) 0 (n + 1)
      simp only [List.range_succ, List.foldl_append, List.foldl_cons, List.foldl_nil,
        foldl_units, Nat.zero_xor] at e
      simp only [dataInParity] at *
      by_cases hb : (T.pbm j).testBit n = true
      · simp only [hj, hb, and_self, if_true] at e ⊢; exact e
      · simp only [hj, hb] at e ⊢; exact e
  have := key T.k (Nat.le_refl _)
  simp only [runOps, encodeOps, List.foldl_flatMap, List.foldl_map, List.foldl_filter]
  obtain ⟨h1, h2, h3⟩ := this
  refine ⟨h1, ?_⟩
  apply List.ext_getElem (by simp [h2])
  intro j hj1 hj2
  have hj : j < T.m := by simpa using hj2
  have := h3 j hj
  rw [getD_of_lt hj1] at this
  simp [this]

end XorTable

/-- the encoded stripe for data payloads `d`: parity j = xor of the payloads named by `pbm j`. -/
def XorTable.stripe (T : XorTable) (bs : Nat) (d : List Bytes) : XState Bytes :=
  ⟨d, (List.range T.m).map (fun j => interp bs d (T.pbm j)), zeros bs⟩

theorem XorTable.symGoal_map (T : XorTable) {bs : Nat} {d : List Bytes}
    (hk : d.length = T.k) (hd : ∀ x ∈ d, x.length = bs) :
    T.symGoal.map (interp bs d) = T.stripe bs d := by
  simp only [XState.map, XorTable.symGoal, XorTable.stripe, interp_zero]
  rw [← hk, map_units hd]
  simp [List.map_map, Function.comp_def]

/-- **encode, byte level**: for every table, every payload length `bs` and every `k` data
    payloads of that length, running `encodeOps` on zeroed parity buffers leaves the data
    unchanged and makes parity `j` exactly the xor of the data payloads named by `parityBms[j]`. -/
theorem XorTable.encode_bytes (T : XorTable) {bs : Nat} {d : List Bytes}
    (hk : d.length = T.k) (hd : ∀ x ∈ d, x.length = bs) :
    let y := runOps xorBytes (zeros bs) T.encodeOps ⟨d, List.replicate T.m (zeros bs), zeros bs⟩
    y.data = d ∧ y.parity = (List.range T.m).map (fun j => interp bs d (T.pbm j)) := by
  have hin : T.symEncIn.map (interp bs d) = ⟨d, List.replicate T.m (zeros bs), zeros bs⟩ := by
    simp only [XState.map, XorTable.symEncIn, interp_zero]
    rw [← hk, map_units hd]
    simp [interp_zero]
  have hl := lift_run hd T.encodeOps _ _ hin
  obtain ⟨e1, e2⟩ := T.encode_sym
  rw [← hl]
  simp only [XState.map, e1, e2]
  refine ⟨by rw [← hk, map_units hd], ?_⟩
  simp only [List.map_map, Function.comp_def]
  apply List.map_congr_left
  intro j _
  apply interp_congr
  intro i hi
  rw [Nat.testBit_mod_two_pow]
  simp [hk ▸ hi]

/-! ### erasures, and lifting of the symbolic decode / reconstruct statements -/

namespace XorTable
variable (T : XorTable)

/-- the buffer holding fragment index `e` (data `0..k-1`, then parity `k..k+m-1`). -/
def bufOf (e : Nat) : Buf := if e < T.k then .data e else .parity (e - T.k)

/-- erasure lists as `get_fragment_partition` produces them: ascending fragment indexes
    (so data indexes first, then parity indexes), fewer than `hd` of them. -/
structure ErasureList (E : List Nat) : Prop where
  asc : E.Pairwise (· < ·)
  bound : ∀ e ∈ E, e < T.k + T.m
  len : E.length < T.hd

end XorTable

/-- overwrite every erased buffer with `zero`. -/
def xorEraseBufs {V : Type} (zero : V) (T : XorTable) (E : List Nat) (x : XState V) : XState V :=
  E.foldl (fun x e => x.set (T.bufOf e) zero) x

theorem eraseBufs_map {V W : Type} (h : V → W) (zero : V) (T : XorTable) (E : List Nat)
    (x : XState V) : (xorEraseBufs zero T E x).map h = xorEraseBufs (h zero) T E (x.map h) := by
  induction E generalizing x with
  | nil => rfl
  | cons e E ih =>
    simp only [xorEraseBufs, List.foldl_cons] at ih ⊢
    rw [ih, XState.set_map]

/-- pointwise description of `xorEraseBufs` on the data buffers (reading with default `zero`). -/
theorem eraseBufs_data_getD {V : Type} (zero : V) (T : XorTable) (E : List Nat) (x : XState V)
    (i : Nat) : (xorEraseBufs zero T E x).data.getD i zero =
      if i ∈ E ∧ i < T.k then zero else x.data.getD i zero := by
  induction E generalizing x with
  | nil => simp [xorEraseBufs]
  | cons e E ih =>
    simp only [xorEraseBufs, List.foldl_cons] at ih ⊢
    rw [ih]
    unfold XorTable.bufOf
    by_cases he : e < T.k
    · simp only [he, if_true, XState.set, getD_set']
      by_cases hei : e = i
      · subst hei
        by_cases hl : e < x.data.length
        · simp [he, hl]
        · simp [he, hl]
      · have : ¬ i = e := fun h => hei h.symm
        simp [hei, this]
    · simp only [he, if_false, XState.set]
      by_cases hei : i = e
      · subst hei; simp [he]
      · simp [hei]

/-- pointwise description of `xorEraseBufs` on the parity buffers. -/
theorem eraseBufs_parity_getD {V : Type} (zero : V) (T : XorTable) (E : List Nat) (x : XState V)
    (j : Nat) : (xorEraseBufs zero T E x).parity.getD j zero =
      if T.k + j ∈ E then zero else x.parity.getD j zero := by
  induction E generalizing x with
  | nil => simp [xorEraseBufs]
  | cons e E ih =>
    simp only [xorEraseBufs, List.foldl_cons] at ih ⊢
    rw [ih]
    unfold XorTable.bufOf
    by_cases he : e < T.k
    · have : ¬ T.k + j = e := by omega
      simp [he, XState.set, this]
    · simp only [he, if_false, XState.set, getD_set']
      by_cases hej : e - T.k = j
      · have e1 : T.k + j = e := by omega
        subst hej
        by_cases hl : e - T.k < x.parity.length
        · simp [e1, hl]
        · simp [e1, hl]
      · have : ¬ T.k + j = e := by omega
        simp [hej, this]

theorem eraseBufs_lengths {V : Type} (zero : V) (T : XorTable) (E : List Nat) (x : XState V) :
    (xorEraseBufs zero T E x).data.length = x.data.length ∧
    (xorEraseBufs zero T E x).parity.length = x.parity.length := by
  induction E generalizing x with
  | nil => exact ⟨rfl, rfl⟩
  | cons e E ih =>
    simp only [xorEraseBufs, List.foldl_cons] at ih ⊢
    obtain ⟨h1, h2⟩ := ih (x.set (T.bufOf e) zero)
    rw [h1, h2]
    unfold XorTable.bufOf
    split <;> simp [XState.set]

theorem list_eq_range_map {α : Type} (l : List α) (d : α) (n : Nat) (hn : l.length = n) (f : Nat → α)
    (h : ∀ i, i < n → l.getD i d = f i) : l = (List.range n).map f := by
  apply List.ext_getElem (by simp [hn])
  intro i h1 h2
  have := h i (by omega)
  rw [getD_of_lt h1] at this
  simp [this]

/-- the symbolic start state of decode/reconstruct, spelled out: data i = `1 <<< i` unless
    `i ∈ E` (then 0); parity j = `pbm j` unless `k + j ∈ E` (then 0). -/
theorem eraseBufs_symGoal (T : XorTable) (E : List Nat) :
    (xorEraseBufs 0 T E T.symGoal).data = (List.range T.k).map (fun i => if i ∈ E then 0 else 1 <<< i) ∧
    (xorEraseBufs 0 T E T.symGoal).parity
      = (List.range T.m).map (fun j => if T.k + j ∈ E then 0 else T.pbm j) ∧
    (xorEraseBufs 0 T E T.symGoal).tmp = 0 := by
  obtain ⟨l1, l2⟩ := eraseBufs_lengths 0 T E T.symGoal
  refine ⟨?_, ?_, ?_⟩
  · apply list_eq_range_map _ 0 _ (by rw [l1]; simp [XorTable.symGoal])
    intro i hi
    rw [eraseBufs_data_getD]
    simp [XorTable.symGoal, hi]
  · apply list_eq_range_map _ 0 _ (by rw [l2]; simp [XorTable.symGoal])
    intro j hj
    rw [eraseBufs_parity_getD]
    simp [XorTable.symGoal, hj]
  · have : ∀ (E : List Nat) (x : XState Nat), (xorEraseBufs 0 T E x).tmp = x.tmp := by
      intro E
      induction E with
      | nil => intro x; rfl
      | cons e E ih =>
        intro x
        simp only [xorEraseBufs, List.foldl_cons] at ih ⊢
        rw [ih]; unfold XorTable.bufOf; split <;> rfl
    rw [this]; rfl

namespace XorTable
variable (T : XorTable)

/-- symbolic decode statement: for every erasure list the decode plan exists and its symbolic
    run on the stripe with the erased buffers zeroed restores every data and parity mask. -/
def DecodeSym : Prop :=
  ∀ E, T.ErasureList E → ∃ ops, T.planDecode E = .ok ops ∧
    (runOps (· ^^^ ·) 0 ops (xorEraseBufs 0 T E T.symGoal)).data = T.symGoal.data ∧
    (runOps (· ^^^ ·) 0 ops (xorEraseBufs 0 T E T.symGoal)).parity = T.symGoal.parity

/-- symbolic reconstruct statement: for every erasure list and every destination in it, the
    reconstruct plan exists and its symbolic run restores the destination mask. -/
def ReconSym : Prop :=
  ∀ E, T.ErasureList E → ∀ dest, dest ∈ E → ∃ ops, T.planReconOne E dest = .ok ops ∧
    (runOps (· ^^^ ·) 0 ops (xorEraseBufs 0 T E T.symGoal)).get 0 (T.bufOf dest)
      = T.symGoal.get 0 (T.bufOf dest)

/-- byte-level decode statement, for every payload length and content. -/
def DecodeBytes : Prop :=
  ∀ (bs : Nat) (d : List Bytes), d.length = T.k → (∀ x ∈ d, x.length = bs) →
  ∀ E, T.ErasureList E → ∃ ops, T.planDecode E = .ok ops ∧
    (runOps xorBytes (zeros bs) ops (xorEraseBufs (zeros bs) T E (T.stripe bs d))).data = d ∧
    (runOps xorBytes (zeros bs) ops (xorEraseBufs (zeros bs) T E (T.stripe bs d))).parity
      = (T.stripe bs d).parity

/-- byte-level reconstruct statement, for every payload length and content. -/
def ReconBytes : Prop :=
  ∀ (bs : Nat) (d : List Bytes), d.length = T.k → (∀ x ∈ d, x.length = bs) →
  ∀ E, T.ErasureList E → ∀ dest, dest ∈ E → ∃ ops, T.planReconOne E dest = .ok ops ∧
    (runOps xorBytes (zeros bs) ops (xorEraseBufs (zeros bs) T E (T.stripe bs d))).get (zeros bs)
      (T.bufOf dest) = (T.stripe bs d).get (zeros bs) (T.bufOf dest)

theorem decodeBytes_of_sym (h : T.DecodeSym) : T.DecodeBytes := by
  intro bs d hk hd E hE
  obtain ⟨ops, hp, h1, h2⟩ := h E hE
  refine ⟨ops, hp, ?_⟩
  have hl := lift_run hd ops (xorEraseBufs 0 T E T.symGoal) _ rfl
  rw [eraseBufs_map, interp_zero, T.symGoal_map hk hd] at hl
  rw [← hl]
  have hs := T.symGoal_map hk hd
  simp only [XState.map] at hs ⊢
  rw [h1, h2]
  rw [XState.mk.injEq] at hs
  exact ⟨hs.1, hs.2.1⟩

theorem reconBytes_of_sym (h : T.ReconSym) : T.ReconBytes := by
  intro bs d hk hd E hE dest hdest
  obtain ⟨ops, hp, h1⟩ := h E hE dest hdest
  refine ⟨ops, hp, ?_⟩
  have hl := lift_run hd ops (xorEraseBufs 0 T E T.symGoal) _ rfl
  rw [eraseBufs_map, interp_zero, T.symGoal_map hk hd] at hl
  rw [← hl, ← T.symGoal_map hk hd, ← interp_zero (bs := bs) (d := d), XState.get_map,
    XState.get_map, h1]

end XorTable

end Lec

#print axioms Lec.runOps_hom
#print axioms Lec.lift_run
#print axioms Lec.XorTable.encode_sym
#print axioms Lec.XorTable.encode_bytes
#print axioms Lec.bytesXorLaws
#print axioms Lec.XorTable.decodeBytes_of_sym
#print axioms Lec.XorTable.reconBytes_of_sym
