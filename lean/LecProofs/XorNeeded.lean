/-
  LecProofs.XorNeeded — checker and soundness for `XorTable.fragmentsNeeded`
  (`xor_hd_fragments_needed`): the answer exists, is in range, duplicate-free, avoids the
  fragments to reconstruct and the excluded ones, and is *sufficient*: the symbol of every
  fragment to reconstruct lies in the GF(2)-span of the symbols of the answer.

  The kernel-facing checker works on the two bitmaps the C function computes
  (`neededBm`, definitionally the inner part of the model's `fragmentsNeeded`), so the
  32-step bitmap-to-list conversions are never evaluated by the kernel; the facts about the
  final index list are derived generically (`okNeeded_sound`).
-/
import LecProofs.XorCheck
namespace Lec

/-! ### GF(2)-span of a list of vectors -/

inductive SpanG {V : Type} (xor : V → V → V) (zero : V) (S : List V) : V → Prop
  | zero : SpanG xor zero S zero
  | add {s v : V} : s ∈ S → SpanG xor zero S v → SpanG xor zero S (xor s v)

/-- span of bit masks under `^^^`. -/
abbrev Span (S : List Nat) (v : Nat) : Prop := SpanG (· ^^^ ·) 0 S v

theorem Span.xor {S : List Nat} {a b : Nat} (ha : Span S a) (hb : Span S b) : Span S (a ^^^ b) := by
  induction ha with
  | zero => rw [Nat.zero_xor]; exact hb
  | add hs _ ih => rw [Nat.xor_assoc]; exact SpanG.add hs ih

theorem Span.mono {A B : List Nat} (h : ∀ s ∈ A, s ∈ B) {v : Nat} (hv : Span A v) : Span B v := by
  induction hv with
  | zero => exact SpanG.zero
  | add hs _ ih => exact SpanG.add (h _ hs) ih

/-- a span relation between masks is a span relation between the payloads, for every payload
    content and length. -/
theorem Span.interp {bs : Nat} {d : List Bytes} (hd : ∀ x ∈ d, x.length = bs) {S : List Nat}
    {v : Nat} (h : Span S v) :
    SpanG xorBytes (zeros bs) (S.map (interp bs d)) (interp bs d v) := by
  induction h with
  | zero => rw [interp_zero]; exact SpanG.zero
  | add hs _ ih => rw [interp_xor hd]; exact SpanG.add (List.mem_map_of_mem hs) ih

namespace XorTable
variable (T : XorTable)

/-- symbolic mask of fragment `f` (data: unit mask, parity: its equation). -/
def symOf (f : Nat) : Nat := if f < T.k then 1 <<< f else T.pbm (f - T.k)

/-- `fragmentsNeeded` before the two bitmaps are turned into an index list. -/
def neededBm (R X : List Nat) : Option (Nat × Nat) :=
  let first : Option (Nat × Nat) :=
    match T.failPattern R, R with
    | .d1p0, r :: _ =>
      let md := if (T.missingData X).contains r then T.missingData X else T.missingData X ++ [r]
      let mp := T.missingParity X
      match T.connectedParity r (some mp) md with
      | none => none
      | some j => some ((T.pbm j) &&& (0xffffffff ^^^ (1 <<< r)), 1 <<< j)
    | _, _ => none
  match first with
  | some r => some r
  | none =>
    let missing := R ++ X
    let md := T.missingData missing
    let mp := T.missingParity missing
    let mdBm := md.foldl (fun a d => a ||| (1 <<< d)) 0
    let orParities (dbm : Nat) : Nat :=
      mp.foldl (fun a p => (a ||| T.pbm (p - T.k)) &&& (0xffffffff ^^^ mdBm)) dbm
    match T.failPattern missing with
    | .d0p0 => none
    | .d1p0 => T.needOne md none 0 0
    | .d2p0 => T.needTwo md none 0 0
    | .d3p0 => T.needThree md none 0 0
    | .d1p1 | .d1p2 =>
      match T.needOne md (some mp) 0 0 with
      | none => none
      | some (dbm, pbm) => some (orParities dbm, pbm)
    | .d2p1 =>
      match T.needTwo md (some mp) 0 0 with
      | none => none
      | some (dbm, pbm) => some (orParities dbm, pbm)
    | .d0p1 | .d0p2 | .d0p3 => some (mp.foldl (fun a p => a ||| T.pbm (p - T.k)) 0, 0)
    | .geHd => none

theorem fragmentsNeeded_eq (R X : List Nat) :
    T.fragmentsNeeded R X =
      (T.neededBm R X).map fun (dbm, pbm) => bitsToList dbm 0 ++ bitsToList pbm T.k := rfl

/-- arguments of `fragmentsNeeded`: ascending lists of fragments to reconstruct (`R`, non-empty)
    and to exclude (`X`), disjoint, fewer than `hd` in total. -/
structure NeededArgs (R X : List Nat) : Prop where
  rasc : R.Pairwise (· < ·)
  xasc : X.Pairwise (· < ·)
  rb : ∀ r ∈ R, r < T.k + T.m
  xb : ∀ x ∈ X, x < T.k + T.m
  rne : R ≠ []
  disj : ∀ r ∈ R, r ∉ X
  len : R.length + X.length < T.hd

/-- the property of `fragmentsNeeded` for one table. -/
def NeededOK : Prop :=
  ∀ R X, T.NeededArgs R X → ∃ N, T.fragmentsNeeded R X = some N ∧
    (∀ f ∈ N, f < T.k + T.m) ∧ N.Nodup ∧ (∀ f ∈ N, f ∉ R ∧ f ∉ X) ∧
    ∀ r ∈ R, Span (N.map T.symOf) (T.symOf r)

end XorTable

namespace XorCheck

/-! ### bitmap facts -/

theorem mem_bitsToList {bm off f : Nat} :
    f ∈ XorTable.bitsToList bm off ↔ ∃ i, i < 32 ∧ bm.testBit i = true ∧ i + off = f := by
  simp only [XorTable.bitsToList, List.mem_map, List.mem_filter, List.mem_range]
  constructor
  · rintro ⟨i, ⟨h1, h2⟩, h3⟩; exact ⟨i, h1, h2, h3⟩
  · rintro ⟨i, h1, h2, h3⟩; exact ⟨i, ⟨h1, h2⟩, h3⟩

theorem nodup_bitsToList (bm off : Nat) : (XorTable.bitsToList bm off).Nodup := by
  unfold XorTable.bitsToList
  have h1 : ((List.range 32).filter fun i => bm.testBit i).Pairwise (· < ·) :=
    List.Pairwise.filter _ List.pairwise_lt_range
  have h2 := List.Pairwise.map (fun i => i + off) (S := (· < ·)) (fun a b h => by omega) h1
  exact List.Pairwise.imp (fun h => Nat.ne_of_lt h) h2

theorem lt_of_testBit {x i n : Nat} (hx : x < 2 ^ n) (h : x.testBit i = true) : i < n := by
  apply Nat.lt_of_not_le
  intro hle
  have h2 : x < 2 ^ i := Nat.lt_of_lt_of_le hx (Nat.pow_le_pow_right (by decide) hle)
  rw [Nat.testBit_lt_two_pow h2] at h
  cases h

/-- every mask below `dbm` is a xor of unit masks taken from `dbm`. -/
theorem span_units {dbm w : Nat} (hw : w &&& dbm = w) (h32 : w < 2 ^ 32) :
    Span ((XorTable.bitsToList dbm 0).map (fun i => 1 <<< i)) w := by
  have e := foldl_units w 0 32
  rw [Nat.zero_xor, Nat.mod_eq_of_lt h32] at e
  rw [← e]
  have gen : ∀ (l : List Nat) (a0 : Nat), (∀ i ∈ l, i < 32) →
      Span ((XorTable.bitsToList dbm 0).map (fun i => 1 <<< i)) a0 →
      Span ((XorTable.bitsToList dbm 0).map (fun i => 1 <<< i))
        (l.foldl (fun a i => if w.testBit i = true then (1 <<< i) ^^^ a else a) a0) := by
    intro l
    induction l with
    | nil => intro a0 _ h; exact h
    | cons i l ih =>
      intro a0 hl h
      simp only [List.foldl_cons]
      apply ih _ (fun j hj => hl j (by simp [hj]))
      by_cases hb : w.testBit i = true
      · simp only [hb, if_true]
        apply SpanG.add _ h
        apply List.mem_map_of_mem
        rw [mem_bitsToList]
        refine ⟨i, hl i (by simp), ?_, rfl⟩
        have : (w &&& dbm).testBit i = true := by rw [hw]; exact hb
        rw [Nat.testBit_and] at this
        simp only [Bool.and_eq_true] at this
        exact this.2
      · simp only [hb]; exact h
  exact gen (List.range 32) 0 (fun i hi => List.mem_range.1 hi) SpanG.zero

/-- all xor-combinations of a list of masks. -/
def subXors : List Nat → List Nat
  | [] => [0]
  | p :: l => (subXors l).flatMap fun c => [c, Nat.xor p c]

theorem subXors_span {P : List Nat} {c : Nat} (h : c ∈ subXors P) : Span P c := by
  induction P generalizing c with
  | nil =>
    simp only [subXors, List.mem_singleton] at h
    subst h; exact SpanG.zero
  | cons p l ih =>
    simp only [subXors, List.mem_flatMap, List.mem_cons, List.not_mem_nil, or_false] at h
    obtain ⟨c', hc', h | h⟩ := h
    · subst h; exact Span.mono (fun s hs => by simp [hs]) (ih hc')
    · subst h
      exact SpanG.add (by simp) (Span.mono (fun s hs => by simp [hs]) (ih hc'))

/-! ### the checker -/

/-- parity symbols named by the parity bitmap. -/
def parOf (T : XorTable) (pbm : Nat) : List Nat :=
  ((List.range T.m).filter fun j => pbm.testBit j).map T.pbm

def inBm (k dbm pbm f : Nat) : Bool := bif Nat.blt f k then dbm.testBit f else pbm.testBit (f - k)

def okNeeded (T : XorTable) (R X : List Nat) : Bool :=
  match T.neededBm R X with
  | none => false
  | some (dbm, pbm) =>
    Nat.blt dbm (2 ^ T.k) && Nat.blt pbm (2 ^ T.m) &&
    (R ++ X).all (fun f => !inBm T.k dbm pbm f) &&
    (let C := subXors (parOf T pbm)
     R.all fun r => C.any fun c => Nat.beq (Nat.land (Nat.xor (T.symOf r) c) dbm) (Nat.xor (T.symOf r) c))

/-- `k ≤ 32` and `m ≤ 32`: the 32-bit bitmaps can name every fragment. -/
def fitsB (T : XorTable) : Bool := Nat.ble T.k 32 && Nat.ble T.m 32

theorem okNeeded_sound {T : XorTable} (hf : fitsB T = true) {R X : List Nat}
    (h : okNeeded T R X = true) :
    ∃ N, T.fragmentsNeeded R X = some N ∧
      (∀ f ∈ N, f < T.k + T.m) ∧ N.Nodup ∧ (∀ f ∈ N, f ∉ R ∧ f ∉ X) ∧
      ∀ r ∈ R, Span (N.map T.symOf) (T.symOf r) := by
  simp only [fitsB, Bool.and_eq_true, Nat.ble_eq] at hf
  obtain ⟨hk32, hm32⟩ := hf
  unfold okNeeded at h
  split at h
  · cases h
  · next dbm pbm hbm =>
    simp only [Bool.and_eq_true, Nat.blt_eq, List.all_eq_true, Bool.not_eq_true',
      List.any_eq_true] at h
    obtain ⟨⟨⟨hd, hp⟩, hrx⟩, hspan⟩ := h
    refine ⟨_, by rw [T.fragmentsNeeded_eq, hbm]; rfl, ?_, ?_, ?_, ?_⟩
    · intro f hf
      rcases List.mem_append.1 hf with h1 | h1
      · obtain ⟨i, _, hb, rfl⟩ := mem_bitsToList.1 h1
        have := lt_of_testBit hd hb; omega
      · obtain ⟨i, _, hb, rfl⟩ := mem_bitsToList.1 h1
        have := lt_of_testBit hp hb; omega
    · rw [List.nodup_append]
      refine ⟨nodup_bitsToList _ _, nodup_bitsToList _ _, ?_⟩
      intro a ha b hb
      obtain ⟨i, _, hbi, rfl⟩ := mem_bitsToList.1 ha
      obtain ⟨j, _, _, rfl⟩ := mem_bitsToList.1 hb
      have := lt_of_testBit hd hbi; omega
    · intro f hf
      have hin : inBm T.k dbm pbm f = true := by
        rcases List.mem_append.1 hf with h1 | h1
        · obtain ⟨i, _, hb, rfl⟩ := mem_bitsToList.1 h1
          have hlt := lt_of_testBit hd hb
          have : Nat.blt (i + 0) T.k = true := by rw [Nat.blt_eq]; omega
          show (bif Nat.blt (i + 0) T.k then dbm.testBit (i + 0) else _) = true
          rw [this]; exact hb
        · obtain ⟨i, _, hb, rfl⟩ := mem_bitsToList.1 h1
          have : Nat.blt (i + T.k) T.k = false := by
            cases hx : Nat.blt (i + T.k) T.k with
            | false => rfl
            | true => rw [Nat.blt_eq] at hx; omega
          show (bif Nat.blt (i + T.k) T.k then _ else pbm.testBit (i + T.k - T.k)) = true
          rw [this, Nat.add_sub_cancel]; exact hb
      have hnot : f ∉ R ++ X := fun hm => by rw [hrx f hm] at hin; cases hin
      rw [List.mem_append] at hnot
      exact ⟨fun h => hnot (Or.inl h), fun h => hnot (Or.inr h)⟩
    · intro r hr
      obtain ⟨c, hc, he⟩ := hspan r hr
      have he : (T.symOf r ^^^ c) &&& dbm = T.symOf r ^^^ c := Nat.eq_of_beq_eq_true he
      have hu32 : T.symOf r ^^^ c < 2 ^ 32 := by
        have h1 : (T.symOf r ^^^ c) &&& dbm ≤ dbm := Nat.and_le_right
        rw [he] at h1
        exact Nat.lt_of_le_of_lt h1 (Nat.lt_of_lt_of_le hd (Nat.pow_le_pow_right (by decide) hk32))
      have s1 := span_units he hu32
      have s2 := subXors_span hc
      have e : T.symOf r = (T.symOf r ^^^ c) ^^^ c := by
        rw [Nat.xor_assoc, Nat.xor_self, Nat.xor_zero]
      rw [e]
      apply Span.xor
      · apply Span.mono _ s1
        intro s hs
        obtain ⟨i, hi, rfl⟩ := List.mem_map.1 hs
        obtain ⟨i', _, hb, rfl⟩ := mem_bitsToList.1 hi
        have hlt := lt_of_testBit hd hb
        rw [List.mem_map]
        refine ⟨i' + 0, List.mem_append.2 (Or.inl hi), ?_⟩
        simp [XorTable.symOf, hlt]
      · apply Span.mono _ s2
        intro s hs
        simp only [parOf, List.mem_map, List.mem_filter, List.mem_range] at hs
        obtain ⟨j, ⟨hj, hb⟩, rfl⟩ := hs
        rw [List.mem_map]
        refine ⟨j + T.k, List.mem_append.2 (Or.inr (mem_bitsToList.2 ⟨j, by omega, hb, rfl⟩)), ?_⟩
        have : ¬ j + T.k < T.k := by omega
        simp [XorTable.symOf, this]

/-! ### chunks and tables -/

def disjB (R X : List Nat) : Bool := R.all fun r => !X.contains r

/-- all argument pairs whose `R` starts with `a`. -/
def chunkNeeded (T : XorTable) (a : Nat) : Bool :=
  allAsc (T.hd - 2) (a+1) (T.k + T.m) (fun l =>
    allAsc (T.hd - 2 - l.length) 0 (T.k + T.m) (fun X => !disjB (a :: l) X || okNeeded T (a :: l) X))

/-- `k, m ≤ 32` and `hd ≥ 2`. -/
def needBaseB (T : XorTable) : Bool := fitsB T && Nat.ble 2 T.hd

theorem neededOK_of_checks {T : XorTable} (hb : needBaseB T = true)
    (hc : ChunksOK (chunkNeeded T) 0 (T.k + T.m)) : T.NeededOK := by
  simp only [needBaseB, Bool.and_eq_true, Nat.ble_eq] at hb
  obtain ⟨hf, hhd⟩ := hb
  intro R X hA
  cases R with
  | nil => exact absurd rfl hA.rne
  | cons a l =>
    have ha := hA.rb a (by simp)
    have hp := hA.rasc
    rw [List.pairwise_cons] at hp
    have hl := hA.len
    simp only [List.length_cons] at hl
    have h1 := allAsc_sound (hc a (by omega) ha) l hp.2
      (fun x hx => ⟨by have := hp.1 x hx; omega, hA.rb x (by simp [hx])⟩) (by omega)
    have h2 := allAsc_sound h1 X hA.xasc (fun x hx => ⟨Nat.zero_le _, hA.xb x hx⟩) (by omega)
    have hd : disjB (a :: l) X = true := by
      simp only [disjB, List.all_eq_true, Bool.not_eq_true', List.contains_eq_mem,
        decide_eq_false_iff_not]
      exact hA.disj
    rw [hd] at h2
    exact okNeeded_sound hf (by simpa using h2)

theorem neededOK_of_checks' {T : XorTable} {n : Nat} (hn : T.k + T.m = n) (hb : needBaseB T = true)
    (hc : ChunksOK (chunkNeeded T) 0 n) : T.NeededOK := by
  subst hn; exact neededOK_of_checks hb hc

end XorCheck
end Lec

#print axioms Lec.XorCheck.okNeeded_sound
#print axioms Lec.XorCheck.neededOK_of_checks
#print axioms Lec.Span.interp
