/-
  LecProofs.XorTablesOKMinDist — minimum distance ≥ hd of every generated flat-XOR table,
  decided by the kernel on the parity-check matrix `[P | I_m]`.
-/
import LecProofs.XorTablesOKBase
namespace Lec
namespace XorCheck

theorem minDist_a : ((LecGen.xorTables.take 28).take 17).all minDistB = true := by decide +kernel
theorem minDist_b : ((LecGen.xorTables.take 28).drop 17).all minDistB = true := by decide +kernel
theorem minDist_c : ((LecGen.xorTables.drop 28).take 6).all minDistB = true := by decide +kernel
theorem minDist_d : ((LecGen.xorTables.drop 28).drop 6).all minDistB = true := by decide +kernel

theorem all_take_drop {α : Type} (l : List α) (n : Nat) (f : α → Bool) (h1 : (l.take n).all f = true)
    (h2 : (l.drop n).all f = true) : l.all f = true := by
  rw [← List.take_append_drop n l, List.all_append, h1, h2]; rfl

theorem tables_minDistB : LecGen.xorTables.all minDistB = true :=
  all_take_drop _ 28 _ (all_take_drop _ 17 _ minDist_a minDist_b) (all_take_drop _ 6 _ minDist_c minDist_d)

/-- minimum distance ≥ hd for every generated table: no non-empty set of fewer than `hd`
    columns of the parity-check matrix `[P | I_m]` xors to zero. -/
theorem tables_minDist : ∀ T ∈ LecGen.xorTables, MinDist T :=
  fun T hT => minDist_of_check (all_tables_of_check tables_minDistB T hT)

end XorCheck
end Lec

#print axioms Lec.XorCheck.tables_minDist
