/-
  LecProofs.Contracts — what the front end needs from a backend's decode / reconstruct /
  fragments-needed operations, stated on payload buffers.  The front-end theorems
  (round trip, reconstruct fidelity, no silent corruption) are proved once against these
  contracts; each built-in backend is then shown to satisfy them.
-/
import LecModel.Frontend
import LecProofs.EncodeLemmas
namespace Lec

/-- the payloads of one encoded stripe: k data payloads of `bs` bytes and the m parity
    payloads the backend's encode produces for them. -/
structure IsStripe (be : Backend) (k m bs : Nat) (dataP parP : List Bytes) : Prop where
  dlen : dataP.length = k
  dsz : ∀ x ∈ dataP, x.length = bs
  enc : be.encode dataP (List.replicate m (zeros bs)) bs = .ok (dataP, parP)
  plen : parP.length = m
  psz : ∀ x ∈ parP, x.length = bs

/-- buffers handed to the backend: the payload of every missing index replaced by a
    zero-filled buffer of `cap ≥ bs` bytes (what `prepare_fragments_for_decode` allocates). -/
def eraseBufs (bufs : List Bytes) (missing : List Nat) (off cap : Nat) : List Bytes :=
  bufs.zipIdx.map fun (b, idx) => if missing.contains (idx + off) then zeros cap else b

/-- a well-formed missing list as produced by `get_fragment_partition`: strictly ascending
    indexes below k+m. -/
def MissingOK (k m : Nat) (missing : List Nat) : Prop :=
  missing.Pairwise (· < ·) ∧ ∀ x ∈ missing, x < k + m

/-- decode / reconstruct contract relative to a tolerance predicate on the missing list and a
    predicate on the block size (`bsOK`: e.g. even for the 16-bit Reed–Solomon code; the front end
    only ever passes `blockSize`, a multiple of the word size). -/
structure DecodeOK (be : Backend) (k m : Nat) (tol : List Nat → Prop) (bsOK : Nat → Prop) : Prop where
  decode : ∀ bs dataP parP missing, bsOK bs → IsStripe be k m bs dataP parP → MissingOK k m missing → tol missing →
    be.decode (eraseBufs dataP missing 0 bs) (eraseBufs parP missing k bs) missing bs = .ok (dataP, parP)
  reconstruct : ∀ bs dataP parP missing dest, bsOK bs → IsStripe be k m bs dataP parP → MissingOK k m missing →
    tol missing → dest ∈ missing →
    ∃ d' p', be.reconstruct (eraseBufs dataP missing 0 bs) (eraseBufs parP missing k bs) missing dest bs = .ok (d', p') ∧
      d'.length = k ∧ p'.length = m ∧ (d' ++ p').getD dest [] = (dataP ++ parP).getD dest []

/-- no-silent-corruption contract: for any missing list the front end can pass (at most m
    entries), the operation does not fault, and a successful decode / reconstruct returns the true
    payloads (for the destination, in the case of reconstruct). -/
structure DecodeSound (be : Backend) (k m : Nat) (bsOK : Nat → Prop) : Prop where
  decode : ∀ bs dataP parP missing d' p', bsOK bs → IsStripe be k m bs dataP parP → MissingOK k m missing →
    missing.length ≤ m →
    be.decode (eraseBufs dataP missing 0 bs) (eraseBufs parP missing k bs) missing bs = .ok (d', p') →
    d' = dataP
  decode_nocrash : ∀ bs dataP parP missing, bsOK bs → IsStripe be k m bs dataP parP → MissingOK k m missing →
    missing.length ≤ m →
    be.decode (eraseBufs dataP missing 0 bs) (eraseBufs parP missing k bs) missing bs ≠ .error .crash
  reconstruct : ∀ bs dataP parP missing dest d' p', bsOK bs → IsStripe be k m bs dataP parP → MissingOK k m missing →
    missing.length ≤ m → dest ∈ missing →
    be.reconstruct (eraseBufs dataP missing 0 bs) (eraseBufs parP missing k bs) missing dest bs = .ok (d', p') →
    d'.length = k ∧ p'.length = m ∧ (d' ++ p').getD dest [] = (dataP ++ parP).getD dest []
  reconstruct_nocrash : ∀ bs dataP parP missing dest, bsOK bs → IsStripe be k m bs dataP parP → MissingOK k m missing →
    missing.length ≤ m → dest ∈ missing →
    be.reconstruct (eraseBufs dataP missing 0 bs) (eraseBufs parP missing k bs) missing dest bs ≠ .error .crash

end Lec
