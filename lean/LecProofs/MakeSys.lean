/-
  LecProofs.MakeSys — `Lec.makeSys k m` (the transliteration of the C function
  `make_systematic_matrix`) returns the closed-form generator `Lec.genEntry`, for every
  shape `1 ≤ k`, `k + m ≤ 65536`, assuming only that the table product / quotient agree
  with the field operations (`TablesOK`, to be discharged by LecProofs.GFTables).

  Idea: column `c` of the working matrix is the value table `r ↦ p_c(r)` of a polynomial
  `p_c` of degree `< k` over GF(2^16) (initially `X^c`); column operations are linear
  operations on the `p_c`.  Before the outer step `i`
    * rows `r < i` are unit vectors      (`p_c(r) = δ_rc`),
    * `p_c` is monic of degree `c` for `c ≥ i`.
  Hence `p_i = ∏_{r<i} (X - r)`, the diagonal entry `p_i(i)` is non-zero, the pivot search
  returns `i` itself and no row swap ever happens.  After the last step the `p_c` are the
  Lagrange basis polynomials of the points `0..k-1`; the final normalisation divides
  column `c` of the parity rows by `p_c(k)`.
-/
import LecProofs.MakeSysAux
import LecProofs.MDS
open Polynomial Finset

namespace Lec

/-- the table-driven product and quotient of `rs_galois.c` compute the field operations. -/
structure TablesOK : Prop where
  mul : ∀ x y, x < 2^16 → y < 2^16 → tmul x y = gmul x y
  div : ∀ x y, x < 2^16 → y < 2^16 → y ≠ 0 → tdiv x y = some (gmul x (ginv y))

namespace MakeSys

theorem tmul_val (ht : TablesOK) (x y : GF16) : tmul x.val y.val = (x * y).val :=
  ht.mul _ _ x.lt y.lt

theorem val_ne_zero {x : GF16} (h : x ≠ 0) : x.val ≠ 0 := fun h0 => h (GF16.ext' h0)

theorem tdiv_one_val (ht : TablesOK) {y : GF16} (hy : y ≠ 0) : tdiv 1 y.val = some (y⁻¹).val := by
  rw [ht.div 1 y.val (by norm_num) y.lt (val_ne_zero hy), one_gmul (ginv_lt y.lt), GF16.ginv_val]

theorem tpow_val (ht : TablesOK) {r : Nat} (hr : r < 2^16) (j : Nat) :
    tpow r j = ((GF16.ofNat r) ^ j).val := by
  induction j with
  | zero => rfl
  | succ j ih =>
    rw [tpow, ih, pow_succ, ← tmul_val ht, GF16.ofNat_val_of_lt hr]

/-- evaluation point of row `r`. -/
abbrev pt (r : Nat) : GF16 := GF16.ofNat r

/-- the flat array `a` is the value table of the polynomials `p c` (`c < k`) on the
    points `0 .. k+m-1`. -/
def Rep (k m : Nat) (a : Array Nat) (p : ℕ → GF16[X]) : Prop :=
  a.size = (k+m)*k ∧ ∀ r c, r < k+m → c < k → a[r*k+c]! = ((p c).eval (pt r)).val

theorem rep_vand (ht : TablesOK) {k m : Nat} (hk : 1 ≤ k) (hn : k + m ≤ 65536) :
    Rep k m (vandMatrix k m) (fun c => X ^ c) := by
  obtain ⟨h1, h2⟩ := vandMatrix_spec (m := m) hk
  refine ⟨h1, ?_⟩
  intro r c hr hc
  rw [h2 r c hr hc, eval_pow, eval_X]
  by_cases hr0 : r = 0
  · subst hr0
    rw [if_pos rfl]
    by_cases hc0 : c = 0
    · subst hc0; rw [if_pos rfl, pow_zero]; rfl
    · rw [if_neg hc0]
      show 0 = ((0 : GF16) ^ c).val
      rw [zero_pow hc0]; rfl
  · rw [if_neg hr0, tpow_val ht (by omega)]

theorem rep_colMult (ht : TablesOK) {k m : Nat} {a : Array Nat} {p : ℕ → GF16[X]}
    (h : Rep k m a p) {j : Nat} (hj : j < k) (e : GF16) :
    Rep k m (colMult a 0 e.val j (k+m) k) (Function.update p j (C e * p j)) := by
  obtain ⟨h1, h2⟩ := colMult_spec (n := k+m) (b := 0) (cnt := k+m) a e.val hj h.1 (by omega)
  rw [Nat.zero_mul] at h1 h2
  refine ⟨h1, ?_⟩
  intro r c hr hc
  rw [h2 r c hc]
  by_cases hcj : c = j
  · subst hcj
    rw [if_pos ⟨rfl, by omega, by omega⟩, Function.update_self, h.2 r c hr hc, tmul_val ht,
      eval_mul, eval_C, mul_comm]
  · rw [if_neg (fun h => hcj h.1), Function.update_of_ne hcj, h.2 r c hr hc]

theorem rep_colMultAdd (ht : TablesOK) {k m : Nat} {a : Array Nat} {p : ℕ → GF16[X]}
    (h : Rep k m a p) {f t : Nat} (hf : f < k) (htk : t < k) (hft : f ≠ t) (e : GF16) :
    Rep k m (colMultAdd a e.val f t (k+m) k) (Function.update p t (p t + C e * p f)) := by
  obtain ⟨h1, h2⟩ := colMultAdd_spec (n := k+m) a e.val hf htk hft h.1
  refine ⟨h1, ?_⟩
  intro r c hr hc
  rw [h2 r c hc]
  by_cases hct : c = t
  · subst hct
    rw [if_pos ⟨rfl, hr⟩, Function.update_self, h.2 r c hr hc, h.2 r f hr hf, tmul_val ht,
      eval_add, eval_mul, eval_C, mul_comm]
    rfl
  · rw [if_neg (fun h => hct h.1), Function.update_of_ne hct, h.2 r c hr hc]

/-! ### invariants -/

theorem pt_injOn {n : Nat} (hn : n ≤ 65536) : Set.InjOn pt (range n : Finset ℕ) :=
  ofNat_injOn_range hn

/-- before outer step `i`. -/
structure Inv (k m i : Nat) (a : Array Nat) (p : ℕ → GF16[X]) : Prop where
  rep : Rep k m a p
  deg : ∀ c < k, p c ∈ degreeLT GF16 k
  unit : ∀ r < i, ∀ c < k, (p c).eval (pt r) = if r = c then 1 else 0
  monic : ∀ c, i ≤ c → c < k → (p c).Monic ∧ (p c).natDegree = c

/-- inside outer step `i`, column `i` already scaled, before inner step `j`. -/
structure InvIn (k m i j : Nat) (a : Array Nat) (p : ℕ → GF16[X]) : Prop where
  rep : Rep k m a p
  deg : ∀ c < k, p c ∈ degreeLT GF16 k
  unit : ∀ r < i, ∀ c < k, (p c).eval (pt r) = if r = c then 1 else 0
  monic : ∀ c, i < c → c < k → (p c).Monic ∧ (p c).natDegree = c
  piv : (p i).eval (pt i) = 1
  pdeg : (p i).natDegree ≤ i
  cleared : ∀ c < j, c ≠ i → (p c).eval (pt i) = 0

theorem inv_init (ht : TablesOK) {k m : Nat} (hk : 1 ≤ k) (hn : k + m ≤ 65536) :
    Inv k m 1 (vandMatrix k m) (fun c => X ^ c) where
  rep := rep_vand ht hk hn
  deg c hc := by
    rw [mem_degreeLT, degree_X_pow]; exact_mod_cast hc
  unit r hr c hc := by
    have : r = 0 := by omega
    subst this
    rw [eval_pow, eval_X]
    show (0 : GF16) ^ c = _
    by_cases hc0 : c = 0
    · subst hc0; simp
    · rw [zero_pow hc0, if_neg (Ne.symm hc0)]
  monic c _ _ := ⟨monic_X_pow c, natDegree_X_pow c⟩

/-- the diagonal entry met by the pivot search is never zero. -/
theorem diag_ne_zero {k m i : Nat} {a : Array Nat} {p : ℕ → GF16[X]} (h : Inv k m i a p)
    (hik : i < k) (hn : k + m ≤ 65536) : (p i).eval (pt i) ≠ 0 := by
  intro h0
  obtain ⟨hm, hd⟩ := h.monic i (Nat.le_refl _) hik
  apply hm.ne_zero
  apply eq_zero_of_degree_lt_of_eval_index_eq_zero (v := pt) (range (i+1)) (pt_injOn (by omega))
  · rw [degree_eq_natDegree hm.ne_zero, hd, card_range]
    exact_mod_cast Nat.lt_succ_self i
  · intro r hr
    have hr' : r < i + 1 := by simpa using hr
    by_cases hri : r = i
    · rw [hri]; exact h0
    · rw [h.unit r (by omega) i hik, if_neg hri]

theorem invIn_start_of_one {k m i : Nat} {a : Array Nat} {p : ℕ → GF16[X]} (h : Inv k m i a p)
    (hik : i < k) (h1 : (p i).eval (pt i) = 1) : InvIn k m i 0 a p where
  rep := h.rep
  deg := h.deg
  unit := h.unit
  monic c hc hck := h.monic c (by omega) hck
  piv := h1
  pdeg := le_of_eq (h.monic i (Nat.le_refl _) hik).2
  cleared c hc _ := by omega

theorem invIn_start_scaled (ht : TablesOK) {k m i : Nat} {a : Array Nat} {p : ℕ → GF16[X]}
    (h : Inv k m i a p) (hik : i < k) (h0 : (p i).eval (pt i) ≠ 0) :
    InvIn k m i 0 (colMult a 0 (((p i).eval (pt i))⁻¹).val i (k+m) k)
      (Function.update p i (C ((p i).eval (pt i))⁻¹ * p i)) where
  rep := rep_colMult ht h.rep hik _
  deg c hc := by
    by_cases hci : c = i
    · subst hci
      rw [Function.update_self, C_mul']
      exact Submodule.smul_mem _ _ (h.deg c hc)
    · rw [Function.update_of_ne hci]; exact h.deg c hc
  unit r hr c hc := by
    by_cases hci : c = i
    · subst hci
      rw [Function.update_self, eval_mul, eval_C, h.unit r hr c hc, if_neg (by omega), mul_zero]
    · rw [Function.update_of_ne hci]; exact h.unit r hr c hc
  monic c hc hck := by
    rw [Function.update_of_ne (by omega)]; exact h.monic c (by omega) hck
  piv := by
    rw [Function.update_self, eval_mul, eval_C, inv_mul_cancel₀ h0]
  pdeg := by
    rw [Function.update_self]
    exact le_trans (natDegree_C_mul_le _ _) (le_of_eq (h.monic i (Nat.le_refl _) hik).2)
  cleared c hc _ := by omega

theorem invIn_skip {k m i j : Nat} {a : Array Nat} {p : ℕ → GF16[X]} (h : InvIn k m i j a p)
    (h0 : j ≠ i → (p j).eval (pt i) = 0) : InvIn k m i (j+1) a p where
  rep := h.rep
  deg := h.deg
  unit := h.unit
  monic := h.monic
  piv := h.piv
  pdeg := h.pdeg
  cleared c hc hci := by
    by_cases hcj : c = j
    · subst hcj; exact h0 hci
    · exact h.cleared c (by omega) hci

theorem invIn_elim (ht : TablesOK) {k m i j : Nat} {a : Array Nat} {p : ℕ → GF16[X]}
    (h : InvIn k m i j a p) (hik : i < k) (hjk : j < k) (hij : i ≠ j) :
    InvIn k m i (j+1) (colMultAdd a ((p j).eval (pt i)).val i j (k+m) k)
      (Function.update p j (p j + C ((p j).eval (pt i)) * p i)) where
  rep := rep_colMultAdd ht h.rep hik hjk hij _
  deg c hc := by
    by_cases hcj : c = j
    · subst hcj
      rw [Function.update_self, C_mul']
      exact Submodule.add_mem _ (h.deg c hc) (Submodule.smul_mem _ _ (h.deg i hik))
    · rw [Function.update_of_ne hcj]; exact h.deg c hc
  unit r hr c hc := by
    by_cases hcj : c = j
    · subst hcj
      rw [Function.update_self, eval_add, eval_mul, eval_C, h.unit r hr c hc, h.unit r hr i hik,
        if_neg (show r ≠ i by omega), mul_zero, add_zero]
    · rw [Function.update_of_ne hcj]; exact h.unit r hr c hc
  monic c hc hck := by
    by_cases hcj : c = j
    · subst hcj
      obtain ⟨hm, hd⟩ := h.monic c hc hck
      have hlt : (C ((p c).eval (pt i)) * p i).degree < (p c).degree := by
        rw [degree_eq_natDegree hm.ne_zero, hd]
        refine lt_of_le_of_lt degree_le_natDegree ?_
        exact_mod_cast lt_of_le_of_lt (le_trans (natDegree_C_mul_le _ _) h.pdeg) hc
      rw [Function.update_self]
      exact ⟨hm.add_of_left hlt, by rw [natDegree_add_eq_left_of_degree_lt hlt, hd]⟩
    · rw [Function.update_of_ne hcj]; exact h.monic c hc hck
  piv := by rw [Function.update_of_ne hij]; exact h.piv
  pdeg := by rw [Function.update_of_ne hij]; exact h.pdeg
  cleared c hc hci := by
    by_cases hcj : c = j
    · subst hcj
      rw [Function.update_self, eval_add, eval_mul, eval_C, h.piv, mul_one]
      exact GF16.add_self' _
    · rw [Function.update_of_ne hcj]; exact h.cleared c (by omega) hci

theorem invIn_finish {k m i : Nat} {a : Array Nat} {p : ℕ → GF16[X]} (h : InvIn k m i k a p) :
    Inv k m (i+1) a p where
  rep := h.rep
  deg := h.deg
  unit r hr c hc := by
    by_cases hri : r = i
    · subst hri
      by_cases hrc : r = c
      · subst hrc; rw [if_pos rfl]; exact h.piv
      · rw [if_neg hrc]; exact h.cleared c hc (Ne.symm hrc)
    · exact h.unit r (by omega) c hc
  monic c hc hck := h.monic c (by omega) hck

/-! ### the loops -/

theorem elim_loop (ht : TablesOK) {k m i : Nat} {a : Array Nat} {p : ℕ → GF16[X]}
    (h : InvIn k m i 0 a p) (hik : i < k) :
    ∃ a' p', msElim k m i a = pure (ForInStep.yield (none, a')) ∧ Inv k m (i+1) a' p' := by
  obtain ⟨a', ha', p', hp'⟩ := forIn_range_inv 0 k (msInnerBody k m i)
    (fun j a' => ∃ p', InvIn k m i j a' p') a (Nat.zero_le _) ⟨p, h⟩
    (by
      intro j b _ hjk ⟨q, hq⟩
      unfold msInnerBody
      have hval : b[i*k+j]! = ((q j).eval (pt i)).val := hq.rep.2 i j (by omega) hjk
      by_cases hij : i = j
      · have hc : ¬ (i != j && b[i*k+j]! != 0) = true := by simp [hij]
        rw [if_neg hc]
        exact ⟨b, rfl, q, invIn_skip hq (fun h => absurd hij.symm h)⟩
      · by_cases hz : b[i*k+j]! = 0
        · have hc : ¬ (i != j && b[i*k+j]! != 0) = true := by simp [hz]
          rw [if_neg hc]
          exact ⟨b, rfl, q, invIn_skip hq (fun _ => GF16.ext' (by rw [← hval, hz]; rfl))⟩
        · have hc : (i != j && b[i*k+j]! != 0) = true := by simp [hij, hz]
          rw [if_pos hc, hval]
          exact ⟨_, rfl, _, invIn_elim ht hq hik hjk hij⟩)
  refine ⟨a', p', ?_, invIn_finish hp'⟩
  unfold msElim
  rw [ha']; rfl

theorem outer_step (ht : TablesOK) {k m i : Nat} {a : Array Nat} {p : ℕ → GF16[X]}
    (h : Inv k m i a p) (hik : i < k) (hn : k + m ≤ 65536) :
    ∃ a' p', msOuterBody k m i (none, a) = pure (ForInStep.yield (none, a')) ∧
      Inv k m (i+1) a' p' := by
  have hd := diag_ne_zero h hik hn
  have hval : a[i*k+i]! = ((p i).eval (pt i)).val := h.rep.2 i i (by omega) hik
  have hnz : nonZeroDiag a i (k+m) k = some i :=
    nonZeroDiag_self a (by omega) (by rw [hval]; exact val_ne_zero hd)
  have hii : ¬ (i != i) = true := by simp
  unfold msOuterBody
  dsimp only
  rw [hnz]
  dsimp only
  rw [if_neg hii]
  unfold msScale
  rw [Nat.mul_comm k i]
  by_cases h1 : a[i*k+i]! = 1
  · have hc : ¬ (a[i*k+i]! != 1) = true := by simp [h1]
    rw [if_neg hc]
    have : (p i).eval (pt i) = 1 := GF16.ext' (by rw [← hval, h1]; rfl)
    exact elim_loop ht (invIn_start_of_one h hik this) hik
  · have hc : (a[i*k+i]! != 1) = true := by simp [h1]
    rw [if_pos hc, hval, tdiv_one_val ht hd]
    dsimp only
    exact elim_loop ht (invIn_start_scaled ht h hik hd) hik

theorem outer_loop (ht : TablesOK) {k m : Nat} (hk : 1 ≤ k) (hn : k + m ≤ 65536) :
    ∃ a p, forIn (m := Id) [1:k] ((none, vandMatrix k m) : MsState) (msOuterBody k m)
        = pure (none, a) ∧ Inv k m k a p := by
  obtain ⟨s, hs, hs1, p, hp⟩ := forIn_range_inv 1 k (msOuterBody k m)
    (fun i s => s.1 = none ∧ ∃ p, Inv k m i s.2 p) (none, vandMatrix k m) hk
    ⟨rfl, _, inv_init ht hk hn⟩
    (by
      rintro i ⟨s1, b⟩ _ hik ⟨hs1, q, hq⟩
      dsimp only at hs1 hq
      subst hs1
      obtain ⟨a', p', e1, e2⟩ := outer_step ht hq hik hn
      exact ⟨(none, a'), e1, rfl, p', e2⟩)
  rcases s with ⟨s1, a⟩
  dsimp only at hs1 hp
  subst hs1
  exact ⟨a, p, hs, hp⟩

/-! ### after the elimination: Lagrange basis, first parity row -/

theorem inv_basis {k m : Nat} {a : Array Nat} {p : ℕ → GF16[X]} (h : Inv k m k a p)
    (hn : k + m ≤ 65536) {c : Nat} (hc : c < k) : p c = Lagrange.basis (range k) pt c := by
  have hinj := pt_injOn (n := k) (by omega)
  have hcm : c ∈ range k := mem_range.mpr hc
  apply eq_of_degrees_lt_of_eval_index_eq (v := pt) (range k) hinj
  · rw [card_range]; exact mem_degreeLT.mp (h.deg c hc)
  · rw [card_range, Lagrange.degree_basis hinj hcm, card_range]
    exact_mod_cast Nat.sub_lt (by omega) Nat.one_pos
  · intro r hr
    have hr' : r < k := mem_range.mp hr
    rw [h.unit r hr' c hc]
    by_cases hrc : r = c
    · subst hrc; rw [if_pos rfl, Lagrange.eval_basis_self hinj hcm]
    · rw [if_neg hrc, Lagrange.eval_basis_of_ne (Ne.symm hrc) hr]

theorem parity_ne_zero {k m : Nat} {a : Array Nat} {p : ℕ → GF16[X]} (h : Inv k m k a p)
    (hn : k + m ≤ 65536) (hm : m ≠ 0) {c : Nat} (hc : c < k) : (p c).eval (pt k) ≠ 0 := by
  intro h0
  have hp0 : p c = 0 := by
    apply eq_zero_of_degree_lt_of_eval_index_eq_zero (v := pt) ((range (k+1)).erase c)
      ((pt_injOn (n := k+1) (by omega)).mono (by
        intro x hx; exact (Finset.mem_erase.mp hx).2))
    · rw [card_erase_of_mem (mem_range.mpr (by omega)), card_range, Nat.add_sub_cancel]
      exact mem_degreeLT.mp (h.deg c hc)
    · intro r hr
      obtain ⟨hrc, hr'⟩ := Finset.mem_erase.mp hr
      have hr'' : r < k + 1 := mem_range.mp hr'
      by_cases hrk : r = k
      · rw [hrk]; exact h0
      · rw [h.unit r (by omega) c hc, if_neg hrc]
  have := h.unit c hc c hc
  rw [hp0, eval_zero, if_pos rfl] at this
  exact zero_ne_one this

theorem final_loop (ht : TablesOK) {k m : Nat} {a : Array Nat} {p : ℕ → GF16[X]}
    (h : Inv k m k a p) (hn : k + m ≤ 65536) (hm : m ≠ 0) :
    ∃ a', forIn (m := Id) [0:k] ((none, a) : MsState) (msFinalBody k m) = pure (none, a') ∧
      a'.size = (k+m)*k ∧ ∀ r c, r < k+m → c < k → a'[r*k+c]! =
        if r < k then ((p c).eval (pt r)).val
        else ((p c).eval (pt r) * ((p c).eval (pt k))⁻¹).val := by
  obtain ⟨s, hs, hs1, hsz, hent⟩ := forIn_range_inv 0 k (msFinalBody k m)
    (fun i s => s.1 = none ∧ s.2.size = (k+m)*k ∧ ∀ r c, r < k+m → c < k → s.2[r*k+c]! =
        if r < k ∨ i ≤ c then ((p c).eval (pt r)).val
        else ((p c).eval (pt r) * ((p c).eval (pt k))⁻¹).val) (none, a) (Nat.zero_le _)
    ⟨rfl, h.rep.1, fun r c hr hc => by rw [if_pos (Or.inr (Nat.zero_le _))]; exact h.rep.2 r c hr hc⟩
    (by
      rintro i ⟨s1, b⟩ _ hik ⟨hs1, hsz, hent⟩
      dsimp only at hs1 hsz hent
      subst hs1
      have hE := parity_ne_zero h hn hm hik
      have hval : b[k*k+i]! = ((p i).eval (pt k)).val := by
        rw [hent k i (by omega) hik, if_pos (Or.inr (Nat.le_refl _))]
      unfold msFinalBody
      dsimp only
      by_cases h1 : b[k*k+i]! = 1
      · have hc : ¬ (b[k*k+i]! != 1) = true := by simp [h1]
        rw [if_neg hc]
        have hE1 : (p i).eval (pt k) = 1 := GF16.ext' (by rw [← hval, h1]; rfl)
        refine ⟨_, rfl, rfl, hsz, ?_⟩
        intro r c hr hc
        dsimp only
        rw [hent r c hr hc]
        by_cases hci : c = i
        · subst hci
          by_cases hrk : r < k
          · rw [if_pos (Or.inl hrk), if_pos (Or.inl hrk)]
          · rw [if_pos (Or.inr (Nat.le_refl _)), if_neg (by omega), hE1, inv_one, mul_one]
        · by_cases h3 : r < k ∨ i ≤ c
          · rw [if_pos h3, if_pos (by omega)]
          · rw [if_neg h3, if_neg (by omega)]
      · have hc : (b[k*k+i]! != 1) = true := by simp [h1]
        rw [if_pos hc, hval, tdiv_one_val ht hE]
        dsimp only
        obtain ⟨e1, e2⟩ := colMult_spec (n := k+m) (b := k) (cnt := k+m-k) b
          (((p i).eval (pt k))⁻¹).val hik hsz (by omega)
        refine ⟨_, rfl, rfl, e1, ?_⟩
        intro r c hr hc
        dsimp only
        rw [e2 r c hc, hent r c hr hc]
        by_cases hci : c = i
        · subst hci
          by_cases hrk : r < k
          · rw [if_neg (by omega), if_pos (Or.inl hrk), if_pos (Or.inl hrk)]
          · rw [if_pos ⟨rfl, by omega, by omega⟩, if_pos (Or.inr (Nat.le_refl _)),
              if_neg (by omega), tmul_val ht]
        · rw [if_neg (fun h => hci h.1)]
          by_cases h3 : r < k ∨ i ≤ c
          · rw [if_pos h3, if_pos (by omega)]
          · rw [if_neg h3, if_neg (by omega)])
  rcases s with ⟨s1, a'⟩
  dsimp only at hs1 hsz hent
  subst hs1
  refine ⟨a', hs, hsz, ?_⟩
  intro r c hr hc
  rw [hent r c hr hc]
  by_cases hrk : r < k
  · rw [if_pos (Or.inl hrk), if_pos hrk]
  · rw [if_neg (by omega), if_neg hrk]

/-! ### closed form of the result -/

theorem genEntry_eq_val {k m : Nat} {a : Array Nat} {p : ℕ → GF16[X]} (h : Inv k m k a p)
    (hn : k + m ≤ 65536) {r c : Nat} (hr : r < k + m) (hc : c < k) :
    genEntry k r c =
      if r < k then ((p c).eval (pt r)).val
      else ((p c).eval (pt r) * ((p c).eval (pt k))⁻¹).val := by
  by_cases hrk : r < k
  · rw [if_pos hrk, genEntry_systematic c hrk, h.unit r hrk c hc]
    split <;> rfl
  · rw [if_neg hrk, ← GF16.ofNat_val_of_lt (genEntry_lt (j := c) hn hr),
      ofNat_genEntry_eq_gen hn hr hc, MDSGen.gen, if_neg hrk, inv_basis h hn hc, div_eq_mul_inv]

end MakeSys

open MakeSys in
/-- **`make_systematic_matrix` computes the closed-form generator.**  For every shape with
    `1 ≤ k` and `k + m ≤ 65536` the transliterated algorithm terminates normally (the pivot
    search never fails, no division by zero) and entry `(r, j)` of its result is
    `genEntry k r j`. -/
theorem makeSys_eq_genEntry (ht : TablesOK) {k m : Nat} (hk : 1 ≤ k) (hn : k + m ≤ 65536) :
    ∃ a, makeSys k m = some a ∧ a.size = (k+m)*k ∧
      ∀ r < k+m, ∀ j < k, a[r*k + j]! = genEntry k r j := by
  obtain ⟨a, p, hloop, hinv⟩ := outer_loop ht hk hn
  rw [makeSys_eq, hloop]
  by_cases hm : m = 0
  · refine ⟨a, ?_, hinv.rep.1, ?_⟩
    · show (msFinish k m (none, a)).run = some a
      unfold msFinish
      dsimp only
      rw [if_pos hm]; rfl
    · intro r hr j hj
      rw [hinv.rep.2 r j hr hj, genEntry_eq_val hinv hn hr hj, if_pos (by omega)]
  · obtain ⟨a', hfin, hsz, hent⟩ := final_loop ht hinv hn hm
    refine ⟨a', ?_, hsz, ?_⟩
    · show (msFinish k m (none, a)).run = some a'
      unfold msFinish
      dsimp only
      rw [if_neg hm, hfin]; rfl
    · intro r hr j hj
      rw [hent r j hr hj, genEntry_eq_val hinv hn hr hj]

/-- the swap branch and both failure exits of `makeSys` are dead code on Vandermonde input:
    at every outer step the pivot search returns the diagonal row itself. -/
theorem makeSys_isSome (ht : TablesOK) {k m : Nat} (hk : 1 ≤ k) (hn : k + m ≤ 65536) :
    (makeSys k m).isSome := by
  obtain ⟨a, h, _⟩ := makeSys_eq_genEntry ht hk hn
  rw [h]; rfl

/-- the same statement as an equation between arrays. -/
theorem makeSys_eq_ofFn (ht : TablesOK) {k m : Nat} (hk : 1 ≤ k) (hn : k + m ≤ 65536) :
    makeSys k m = some (Array.ofFn (n := (k+m)*k) fun i => genEntry k (i.val / k) (i.val % k)) := by
  obtain ⟨a, h, hsz, hent⟩ := makeSys_eq_genEntry ht hk hn
  rw [h]
  congr 1
  apply Array.ext
  · rw [hsz, Array.size_ofFn]
  · intro i h1 h2
    rw [Array.getElem_ofFn]
    have hi : i < (k+m)*k := by rw [← hsz]; exact h1
    have hdiv : i / k < k + m := (Nat.div_lt_iff_lt_mul (by omega)).mpr hi
    have hmod : i % k < k := Nat.mod_lt _ (by omega)
    have hdm : i / k * k + i % k = i := by rw [Nat.mul_comm]; exact Nat.div_add_mod i k
    have := hent (i / k) hdiv (i % k) hmod
    rw [hdm, getElem!_pos a i h1] at this
    exact this

end Lec

#print axioms Lec.makeSys_eq_genEntry
#print axioms Lec.makeSys_eq_ofFn
