/-
  LecProofs.CrcLemmas — range of the CRC functions, byte swapping is an involution.
-/
import LecModel.Crc32
import LecProofs.BytesLemmas
namespace Lec

theorem crcBit_lt {c : Nat} (h : c < 2 ^ 32) : crcBit c < 2 ^ 32 := by
  unfold crcBit
  have h1 : c >>> 1 < 2 ^ 32 := by rw [Nat.shiftRight_eq_div_pow]; omega
  split
  · exact Nat.xor_lt_two_pow h1 (by decide)
  · exact h1

theorem crcBits8_lt {c : Nat} (h : c < 2 ^ 32) : crcBits8 c < 2 ^ 32 := by
  unfold crcBits8
  exact crcBit_lt (crcBit_lt (crcBit_lt (crcBit_lt (crcBit_lt (crcBit_lt (crcBit_lt (crcBit_lt h)))))))

theorem crcStdByte_lt {c : Nat} (h : c < 2 ^ 32) (b : UInt8) : crcStdByte c b < 2 ^ 32 := by
  unfold crcStdByte
  apply crcBits8_lt
  exact Nat.xor_lt_two_pow h (Nat.lt_trans b.toNat_lt (by decide))

theorem crcStdRaw_lt {c : Nat} (h : c < 2 ^ 32) (buf : Bytes) : crcStdRaw c buf < 2 ^ 32 := by
  induction buf generalizing c with
  | nil => exact h
  | cons b bs ih => exact ih (crcStdByte_lt h b)

theorem crcStd_lt (buf : Bytes) : crcStd buf < 2 ^ 32 :=
  Nat.xor_lt_two_pow (crcStdRaw_lt (by decide) buf) (by decide)

theorem sext24_lt {x : Nat} (h : x < 2 ^ 24) : sext24 x < 2 ^ 32 := by
  unfold sext24
  split
  · omega
  · exact Nat.or_lt_two_pow (by omega) (by decide)

theorem crcAltByte_lt (c : Nat) (b : UInt8) : crcAltByteT crcTabEntry c b < 2 ^ 32 := by
  unfold crcAltByteT
  apply Nat.xor_lt_two_pow
  · unfold crcTabEntry
    exact crcBits8_lt (Nat.lt_trans (Nat.mod_lt _ (by decide)) (by decide))
  · apply sext24_lt
    exact Nat.lt_of_le_of_lt Nat.and_le_right (by decide)

theorem crcAlt_lt (buf : Bytes) : crcAlt buf < 2 ^ 32 := by
  unfold crcAlt crcAltT
  apply Nat.xor_lt_two_pow _ (by decide)
  have : ∀ (l : Bytes) (c : Nat), c < 2 ^ 32 → l.foldl (crcAltByteT crcTabEntry) c < 2 ^ 32 := by
    intro l
    induction l with
    | nil => intro c h; exact h
    | cons b bs ih => intro c _; exact ih _ (crcAltByte_lt c b)
  exact this buf _ (by decide)

theorem crcWrite_lt (legacy : Bool) (buf : Bytes) : crcWrite legacy buf < 2 ^ 32 := by
  unfold crcWrite; split
  · exact crcAlt_lt buf
  · exact crcStd_lt buf

/-! ### byte swapping -/

theorem bswap32_lt (x : Nat) : bswap32 x < 2 ^ 32 := by
  unfold bswap32
  have := leVal_lt (leBytes 4 x).reverse
  simpa using this

theorem bswap64_lt (x : Nat) : bswap64 x < 2 ^ 64 := by
  unfold bswap64
  have := leVal_lt (leBytes 8 x).reverse
  simpa using this

theorem leBytes_of_leVal_rev (w : Nat) (b : Bytes) (h : b.length = w) : leBytes w (leVal b) = b := by
  rw [← h]; exact leBytes_leVal b

theorem bswap32_bswap32 {x : Nat} (h : x < 2 ^ 32) : bswap32 (bswap32 x) = x := by
  unfold bswap32
  rw [leBytes_of_leVal_rev 4 _ (by simp), List.reverse_reverse]
  exact leVal_leBytes_of_lt (w := 4) (by simpa using h)

theorem bswap64_bswap64 {x : Nat} (h : x < 2 ^ 64) : bswap64 (bswap64 x) = x := by
  unfold bswap64
  rw [leBytes_of_leVal_rev 8 _ (by simp), List.reverse_reverse]
  exact leVal_leBytes_of_lt (w := 8) (by simpa using h)

/-- the bytes of a swapped value are the reversed bytes. -/
theorem le32_bswap32 (x : Nat) : le32 (bswap32 x) = (le32 x).reverse := by
  unfold bswap32 le32
  exact leBytes_of_leVal_rev 4 _ (by simp)

theorem le64_bswap64 (x : Nat) : le64 (bswap64 x) = (le64 x).reverse := by
  unfold bswap64 le64
  exact leBytes_of_leVal_rev 8 _ (by simp)

end Lec
