/-
  LecProofs.MDS — the closed-form generator `Lec.genEntry` is the canonical MDS code.

  * `genEntry_lt`, `genEntry_first_parity`, `genEntry_systematic`
  * `ofNat_genEntry_parity` : parity entries are `L_j(r) / L_j(k)` in `GF16`,
    `L_j(x) = ∏_{i<k, i≠j} (x - i)`
  * `gen_mds` : k vanishing code symbols force the data vector to vanish
  * `genMatrix_det_ne_zero` : every k×k row-submatrix is invertible.
-/
import LecModel.RS
import LecProofs.GF16Field
import Mathlib.LinearAlgebra.Lagrange
import Mathlib.LinearAlgebra.Matrix.ToLinearEquiv
open Polynomial Finset

namespace Lec

/-! ### MDS property of the normalised Lagrange generator over any field -/
namespace MDSGen
variable {F : Type*} [Field F]

/-- closed-form generator entry: row r, column j, evaluation points `v`, first `k` are data. -/
noncomputable def gen (k : ℕ) (v : ℕ → F) (r j : ℕ) : F :=
  if r < k then (if r = j then 1 else 0)
  else eval (v r) (Lagrange.basis (range k) v j) / eval (v k) (Lagrange.basis (range k) v j)

/-- codeword symbol r for data vector d -/
noncomputable def sym (k : ℕ) (v : ℕ → F) (d : ℕ → F) (r : ℕ) : F :=
  ∑ j ∈ range k, gen k v r j * d j

theorem mds (k n : ℕ) (hkn : k < n) (v : ℕ → F) (hv : Set.InjOn v (range n : Finset ℕ))
    (S : Finset ℕ) (hS : S ⊆ range n) (hc : S.card = k)
    (d : ℕ → F) (hz : ∀ r ∈ S, sym k v d r = 0) : ∀ j ∈ range k, d j = 0 := by
  classical
  have hvk : Set.InjOn v (range k : Finset ℕ) :=
    hv.mono (by intro x hx; simp at hx ⊢; omega)
  -- normalisers
  set c : ℕ → F := fun j => eval (v k) (Lagrange.basis (range k) v j) with hcdef
  have hc0 : ∀ j ∈ range k, c j ≠ 0 := by
    intro j hj
    simp only [hcdef, Lagrange.basis, eval_prod]
    apply Finset.prod_ne_zero_iff.mpr
    intro i hi
    rw [Lagrange.basisDivisor, eval_mul, eval_C, eval_sub, eval_X, eval_C]
    have hij : i ≠ j := (Finset.mem_erase.mp hi).1
    have hi' : i < k := by simpa using (Finset.mem_erase.mp hi).2
    have hj' : j < k := by simpa using hj
    apply mul_ne_zero
    · apply inv_ne_zero; apply sub_ne_zero.mpr
      intro h; exact hij ((hv (by simp; omega) (by simp; omega) h).symm)
    · apply sub_ne_zero.mpr
      intro h; have := hv (by simp; omega) (by simp; omega) h; omega
  -- the polynomial
  set f : F[X] := ∑ j ∈ range k, C (d j / c j) * Lagrange.basis (range k) v j with hf
  have hdeg : f.degree < (S.card : WithBot ℕ) := by
    rw [hc]
    have := Lagrange.degree_interpolate_lt (s := range k) (v := v) (r := fun j => d j / c j) hvk
    simpa [Lagrange.interpolate_apply, hf] using this
  have hroots : ∀ r ∈ S, eval (v r) f = 0 := by
    intro r hr
    have h0 := hz r hr
    by_cases hrk : r < k
    · -- data row: sym = d r, and f (v r) = d r / c r
      have hsym : sym k v d r = d r := by
        simp [sym, gen, hrk, Finset.sum_ite_eq, Finset.mem_range]
      have : eval (v r) f = d r / c r := by
        have := Lagrange.eval_interpolate_at_node (s := range k) (v := v)
          (r := fun j => d j / c j) hvk (Finset.mem_range.mpr hrk)
        simpa [Lagrange.interpolate_apply, hf] using this
      rw [this, ← hsym, h0, zero_div]
    · -- parity row
      have hsym : sym k v d r = eval (v r) f := by
        simp only [sym, gen, hrk, if_false, hf, eval_finsetSum, eval_mul, eval_C]
        apply Finset.sum_congr rfl
        intro j hj
        simp only [hcdef]; ring
      rw [← hsym]; exact h0
  have hf0 : f = 0 :=
    Polynomial.eq_zero_of_degree_lt_of_eval_index_eq_zero (v := v) (s := S)
      (hv.mono (by intro x hx; exact hS hx)) hdeg hroots
  intro j hj
  have : eval (v j) f = d j / c j := by
    have := Lagrange.eval_interpolate_at_node (s := range k) (v := v)
      (r := fun j => d j / c j) hvk hj
    simpa [Lagrange.interpolate_apply, hf] using this
  rw [hf0, eval_zero] at this
  have h2 := hc0 j hj
  field_simp at this
  simpa using this.symm

theorem eval_basis (k : ℕ) (v : ℕ → F) (j : ℕ) (x : F) :
    eval x (Lagrange.basis (range k) v j) =
      (∏ i ∈ (range k).erase j, (v j - v i)⁻¹) * ∏ i ∈ (range k).erase j, (x - v i) := by
  simp only [Lagrange.basis, eval_prod, Lagrange.basisDivisor, eval_mul, eval_C, eval_sub, eval_X]
  rw [Finset.prod_mul_distrib]

/-- the parity entries are `L_j(r) / L_j(k)` with the un-normalised `L_j`. -/
theorem gen_parity (k : ℕ) (v : ℕ → F) (hv : Set.InjOn v (range k : Finset ℕ)) {r j : ℕ}
    (hr : ¬ r < k) (hj : j < k) :
    gen k v r j =
      (∏ i ∈ (range k).erase j, (v r - v i)) / ∏ i ∈ (range k).erase j, (v k - v i) := by
  have hA : (∏ i ∈ (range k).erase j, (v j - v i)⁻¹) ≠ 0 := by
    apply Finset.prod_ne_zero_iff.mpr
    intro i hi
    apply inv_ne_zero; apply sub_ne_zero.mpr
    intro h
    have hij : i ≠ j := (Finset.mem_erase.mp hi).1
    have hi' : i < k := by simpa using (Finset.mem_erase.mp hi).2
    exact hij ((hv (by simpa using hj) (by simpa using hi') h).symm)
  simp only [gen, hr, if_false, eval_basis]
  exact mul_div_mul_left _ _ hA

end MDSGen

/-! ### `lagL` and `genEntry` in `GF16` -/

theorem lagL_succ (k j x : Nat) :
    lagL (k+1) j x = if k = j then lagL k j x else gmul (lagL k j x) (x ^^^ k) := by
  simp [lagL, List.range_succ, List.foldl_append]

theorem lagL_spec (k j x : Nat) (hk : k ≤ 2^16) (hx : x < 2^16) :
    lagL k j x < 2^16 ∧
    GF16.ofNat (lagL k j x) =
      ∏ i ∈ range k, if i = j then 1 else (GF16.ofNat x - GF16.ofNat i) := by
  induction k with
  | zero => exact ⟨by simp [lagL], by simp [lagL]⟩
  | succ n ih =>
    obtain ⟨h1, h2⟩ := ih (by omega)
    have hn : n < 2^16 := by omega
    rw [lagL_succ, Finset.prod_range_succ, ← h2]
    by_cases hnj : n = j
    · simp only [hnj, if_true, mul_one] at *
      exact ⟨h1, trivial⟩
    · simp only [hnj, if_false]
      have hxn := xor_lt16 hx hn
      exact ⟨gmul_lt h1 hxn, by rw [GF16.ofNat_gmul h1 hxn, GF16.ofNat_xor_sub hx hn]⟩

theorem lagL_lt {k j x : Nat} (hk : k ≤ 2^16) (hx : x < 2^16) : lagL k j x < 2^16 :=
  (lagL_spec k j x hk hx).1

theorem ofNat_lagL {k j x : Nat} (hk : k ≤ 2^16) (hx : x < 2^16) :
    GF16.ofNat (lagL k j x) = ∏ i ∈ (range k).erase j, (GF16.ofNat x - GF16.ofNat i) := by
  rw [(lagL_spec k j x hk hx).2]
  by_cases hj : j ∈ range k
  · rw [← Finset.mul_prod_erase _ _ hj]
    simp only [if_true, one_mul]
    apply Finset.prod_congr rfl
    intro i hi
    simp [(Finset.mem_erase.mp hi).1]
  · rw [Finset.erase_eq_of_notMem hj]
    apply Finset.prod_congr rfl
    intro i hi
    have : i ≠ j := fun h => hj (h ▸ hi)
    simp [this]

/-- `L_j(x) ≠ 0` when `x` is not one of the nodes `i < k`. -/
theorem lagL_pos {k j x : Nat} (hxk : k ≤ x) (hx : x < 2^16) : 0 < lagL k j x := by
  have hk : k ≤ 2^16 := by omega
  have h := ofNat_lagL (j := j) hk hx
  rcases Nat.eq_zero_or_pos (lagL k j x) with h0 | h0
  · exfalso
    rw [h0, GF16.ofNat_zero] at h
    have := Finset.prod_eq_zero_iff.mp h.symm
    obtain ⟨i, hi, hz⟩ := this
    have hi' : i < k := by simpa using (Finset.mem_erase.mp hi).2
    have := GF16.ofNat_inj hx (by omega) (sub_eq_zero.mp hz)
    omega
  · exact h0

/-- (a) all entries are field elements. -/
theorem genEntry_lt {k m r j : Nat} (hkm : k + m ≤ 65536) (hr : r < k + m) :
    genEntry k r j < 2^16 := by
  unfold genEntry
  split
  · split <;> norm_num
  · have hk : k < 2^16 := by omega
    exact gmul_lt (lagL_lt (by omega) (by omega)) (ginv_lt (lagL_lt (by omega) hk))

/-- (b) the first parity row is all ones (the all-XOR parity). -/
theorem genEntry_first_parity {k : Nat} (j : Nat) (hk : k < 65536) : genEntry k k j = 1 := by
  unfold genEntry
  rw [if_neg (Nat.lt_irrefl k)]
  exact gmul_ginv (lagL_pos (Nat.le_refl k) (by omega)) (lagL_lt (by omega) (by omega))

/-- (c) the systematic part is the identity. -/
theorem genEntry_systematic {k r : Nat} (j : Nat) (hr : r < k) :
    genEntry k r j = if r = j then 1 else 0 := by
  unfold genEntry; rw [if_pos hr]

/-- parity entries in the field: `L_j(r) / L_j(k)`. -/
theorem ofNat_genEntry_parity {k m r : Nat} (j : Nat) (hkm : k + m ≤ 65536) (hr : r < k + m)
    (hrk : ¬ r < k) :
    GF16.ofNat (genEntry k r j) =
      (∏ i ∈ (range k).erase j, (GF16.ofNat r - GF16.ofNat i)) /
        ∏ i ∈ (range k).erase j, (GF16.ofNat k - GF16.ofNat i) := by
  have hk : k < 2^16 := by omega
  have hr' : r < 2^16 := by omega
  unfold genEntry
  rw [if_neg hrk, GF16.ofNat_gmul (lagL_lt (by omega) hr') (ginv_lt (lagL_lt (by omega) hk)),
    GF16.ofNat_ginv (lagL_lt (by omega) hk), ofNat_lagL (by omega) hr', ofNat_lagL (by omega) hk,
    div_eq_mul_inv]

theorem ofNat_injOn_range {n : Nat} (hn : n ≤ 65536) :
    Set.InjOn GF16.ofNat (range n : Finset ℕ) := by
  intro a ha b hb h
  have ha' : a < n := by simpa using ha
  have hb' : b < n := by simpa using hb
  exact GF16.ofNat_inj (by omega) (by omega) h

/-- `genEntry` is the generic generator on the points `0, 1, …, k+m-1`. -/
theorem ofNat_genEntry_eq_gen {k m r j : Nat} (hkm : k + m ≤ 65536) (hr : r < k + m) (hj : j < k) :
    GF16.ofNat (genEntry k r j) = MDSGen.gen k GF16.ofNat r j := by
  by_cases hrk : r < k
  · rw [genEntry_systematic j hrk]
    simp only [MDSGen.gen, hrk, if_true]
    split <;> rfl
  · rw [ofNat_genEntry_parity j hkm hr hrk,
      MDSGen.gen_parity k GF16.ofNat (ofNat_injOn_range (by omega)) hrk hj]

/-- (d) THE MDS THEOREM, kernel form: if the code symbols of `d` vanish on `k` distinct
    rows then `d = 0`. -/
theorem gen_mds {k m : Nat} (hkm : k + m ≤ 65536) (S : Finset ℕ) (hS : S ⊆ range (k + m))
    (hc : S.card = k) (d : ℕ → GF16)
    (hz : ∀ r ∈ S, ∑ j ∈ range k, GF16.ofNat (genEntry k r j) * d j = 0) :
    ∀ j ∈ range k, d j = 0 := by
  by_cases hsub : S ⊆ range k
  · -- only data rows: S = range k
    have hSk : S = range k := Finset.eq_of_subset_of_card_le hsub (by simp [hc])
    intro j hj
    have h := hz j (hSk ▸ hj)
    have hjk : j < k := by simpa using hj
    have hterm : ∀ x ∈ range k, GF16.ofNat (genEntry k j x) * d x = if j = x then d x else 0 := by
      intro x _
      rw [genEntry_systematic _ hjk]
      split <;> simp
    rw [Finset.sum_congr rfl hterm, Finset.sum_ite_eq, if_pos hj] at h
    exact h
  · -- some parity row: k < k + m
    obtain ⟨r0, hr0, hr0k⟩ := Finset.not_subset.mp hsub
    have hr0' : r0 < k + m := by simpa using hS hr0
    have hkn : k < k + m := by
      have : ¬ r0 < k := by simpa using hr0k
      omega
    apply MDSGen.mds k (k + m) hkn GF16.ofNat (ofNat_injOn_range hkm) S hS hc d
    intro r hr
    rw [← hz r hr]
    apply Finset.sum_congr rfl
    intro j hj
    rw [ofNat_genEntry_eq_gen hkm (by simpa using hS hr) (by simpa using hj)]

/-- the k×k matrix of the generator rows `S 0, …, S (k-1)`. -/
def genMatrix (k : Nat) (S : Fin k → Nat) : Matrix (Fin k) (Fin k) GF16 :=
  fun a b => GF16.ofNat (genEntry k (S a) b)

/-- (d) THE MDS THEOREM, matrix form: any `k` distinct rows of the generator form an
    invertible matrix. -/
theorem genMatrix_det_ne_zero {k m : Nat} (hkm : k + m ≤ 65536) (S : Fin k → Nat)
    (hinj : Function.Injective S) (hlt : ∀ a, S a < k + m) : (genMatrix k S).det ≠ 0 := by
  intro hdet
  obtain ⟨v, hv0, hv⟩ := Matrix.exists_mulVec_eq_zero_iff.mpr hdet
  apply hv0
  let d : ℕ → GF16 := fun j => if h : j < k then v ⟨j, h⟩ else 0
  have hd : ∀ b : Fin k, d b.val = v b := by
    intro b; simp [d, b.isLt]
  have hmds := gen_mds hkm (Finset.univ.image S)
    (by intro r hr
        obtain ⟨a, _, rfl⟩ := Finset.mem_image.mp hr
        simpa using hlt a)
    (by rw [Finset.card_image_of_injective _ hinj]; simp) d
    (by intro r hr
        obtain ⟨a, _, rfl⟩ := Finset.mem_image.mp hr
        rw [Finset.sum_range]
        have := congrFun hv a
        simp only [Matrix.mulVec, dotProduct, Pi.zero_apply] at this
        rw [← this]
        apply Finset.sum_congr rfl
        intro b _
        rw [hd b]; rfl)
  funext b
  rw [← hd b]
  exact hmds b.val (by simp)

theorem genMatrix_isUnit {k m : Nat} (hkm : k + m ≤ 65536) (S : Fin k → Nat)
    (hinj : Function.Injective S) (hlt : ∀ a, S a < k + m) : IsUnit (genMatrix k S) :=
  (Matrix.isUnit_iff_isUnit_det _).mpr (isUnit_iff_ne_zero.mpr (genMatrix_det_ne_zero hkm S hinj hlt))

/-- the same matrix with entries written as structure literals. -/
theorem genMatrix_eq_mk {k m : Nat} (hkm : k + m ≤ 65536) (S : Fin k → Nat)
    (hlt : ∀ a, S a < k + m) :
    genMatrix k S =
      fun (a b : Fin k) => (⟨genEntry k (S a) b, genEntry_lt hkm (hlt a)⟩ : GF16) := by
  funext a b
  exact GF16.ofNat_eq_mk _

end Lec

#print axioms Lec.genEntry_lt
#print axioms Lec.genEntry_first_parity
#print axioms Lec.gen_mds
#print axioms Lec.genMatrix_det_ne_zero
