/-
  LecProofs.GFTables — the log/antilog *table* arithmetic of the model
  (`Lec.buildTables`, `Lec.logTable`, `Lec.ilogTable`, `Lec.tmul`, `Lec.tdiv`, i.e. the
  transliteration of `rs_galois_init_tables` / `rs_galois_mult` / `rs_galois_div`)
  equals the shift-and-add field arithmetic (`Lec.gmul`, `Lec.ginv`) for ALL inputs.

  Nothing here evaluates the 65536-entry tables; the proof is structural:

  * `GFTab.buildTables_eq`: the `for i in [0:65535]` loop is a `List.foldl` of
    `GFTab.tblStep` over `List.range' 0 65535`  (`GFTab.tblState n` = state after `n` rounds).
  * `GFTab.tblInv`: loop invariant by induction on `n ≤ 65535` with `pw i = (g ^ i).val`,
    `g = 2`:  `x = pw n`, `ilog[i] = pw i` and `log[pw i] = i` for `i < n`, `log[0] = 0`,
    sizes unchanged.  The step uses `tableNext x = xtime x = gmul x 2` and injectivity of
    `i ↦ g ^ i` below `orderOf g = 65535`.
  * `GFTab.pw_surj`: every non-zero element is `pw i` for some `i < 65535` (pigeonhole:
    an injection `Fin 65535 → {a : GF16 // a ≠ 0}` between sets of equal size).
  * `ilogTable` reduces its index modulo 65535 and `g ^ 65535 = 1`.

  Main results (namespace `Lec`): `tmul_eq_gmul`, `tdiv_eq`, `tdiv_zero`, `tdiv_zero_left`,
  `ilog_spec`, `log_spec`, `logTable_size`, `ilogTable_size`, `ilog_lt`, `log_lt`.
-/
import LecProofs.GF16Field

namespace Lec

open GF16

namespace GFTab

/-! ### the loop of `buildTables` as a fold -/

/-- one round of the loop: state is `(log, ilog, x)`. -/
def tblStep (s : Array Nat × Array Nat × Nat) (i : Nat) : Array Nat × Array Nat × Nat :=
  (s.1.set! s.2.2 i, s.2.1.set! i s.2.2, tableNext s.2.2)

def tblInit : Array Nat × Array Nat × Nat :=
  (Array.replicate 65536 0, Array.replicate 65535 0, 1)

/-- state after `n` rounds. -/
def tblState (n : Nat) : Array Nat × Array Nat × Nat :=
  (List.range' 0 n).foldl tblStep tblInit

theorem tblState_zero : tblState 0 = tblInit := rfl

theorem tblState_succ (n : Nat) : tblState (n+1) = tblStep (tblState n) n := by
  simp [tblState, List.range'_1_concat]

theorem buildTables_eq : buildTables = ((tblState 65535).1, (tblState 65535).2.1) := by
  have h : (forIn (m := Id) [0:65535] tblInit (fun i s => pure (ForInStep.yield (tblStep s i))))
      = pure (tblState 65535) := by
    rw [Std.Legacy.Range.forIn_eq_forIn_range', List.forIn_pure_yield_eq_foldl]
    simp [Std.Legacy.Range.size, tblState]
  unfold buildTables
  simp only [Id.run, bind, pure] at h ⊢
  unfold tblInit tblStep at h
  rw [h]

-- from here on `tblState` is only used through `tblState_zero` / `tblState_succ`
-- (keeps the elaborator from ever unfolding the 65535-element fold).
attribute [irreducible] tblState

/-! ### the generator: `tableNext` is multiplication by `g = 2` -/

theorem tableNext_eq_xtime (x : Nat) : tableNext x = xtime x := by
  simp [tableNext, xtime, Nat.testBit_shiftLeft]

theorem gmul_two (a : Nat) : gmul a 2 = xtime a := by
  simp [gmul, gmulLoop]

/-- `pw i` is the value of `g ^ i` in the field `GF16` (`g = 2`). -/
def pw (i : Nat) : Nat := (g ^ i).val

theorem pw_lt (i : Nat) : pw i < 2^16 := (g ^ i).lt

theorem pw_zero : pw 0 = 1 := by simp [pw]

theorem tableNext_pw (i : Nat) : tableNext (pw i) = pw (i+1) := by
  rw [tableNext_eq_xtime, ← gmul_two, pw, pw, pow_succ]
  rfl

theorem pw_inj {i j : Nat} (hi : i < 65535) (hj : j < 65535) (h : pw i = pw j) : i = j := by
  have := pow_injOn_Iio_orderOf (x := g)
  rw [orderOf_g] at this
  exact this hi hj (GF16.ext' h)

theorem pw_ne_zero (i : Nat) : pw i ≠ 0 := by
  intro h
  have : g ^ i = 0 := GF16.ext' h
  have hg : g ≠ 0 := by decide
  exact pow_ne_zero i hg this

theorem pw_mod (i : Nat) : pw (i % 65535) = pw i := by
  unfold pw
  have := pow_mod_orderOf g i
  rw [orderOf_g] at this
  rw [this]

theorem pw_add (i j : Nat) : pw (i + j) = gmul (pw i) (pw j) := by
  unfold pw; rw [pow_add]; rfl

theorem pw_eq_gpow {i : Nat} (hi : i < 2^16) : pw i = gpow 2 i :=
  (gpow_eq (a := 2) (by norm_num) hi).symm

/-- every non-zero element is a power of the generator (pigeonhole). -/
theorem pw_surj {x : Nat} (h0 : x ≠ 0) (hx : x < 2^16) : ∃ i, i < 65535 ∧ pw i = x := by
  classical
  let f : Fin 65535 → {a : GF16 // a ≠ 0} := fun i => ⟨g ^ i.val, by
    intro h; exact pw_ne_zero i.val (congrArg GF16.val h)⟩
  have hf : Function.Injective f := by
    intro i j h
    apply Fin.ext
    apply pw_inj i.isLt j.isLt
    exact congrArg (fun a : {a : GF16 // a ≠ 0} => a.val.val) h
  have hc2 : Fintype.card {a : GF16 // a ≠ 0} = 65535 := by
    rw [Fintype.card_subtype_compl, card_eq]; simp
  have hs := ((Fintype.bijective_iff_injective_and_card f).mpr ⟨hf, by simp [hc2]⟩).2
  have hne : (⟨x, hx⟩ : GF16) ≠ 0 := fun h => h0 (congrArg GF16.val h)
  obtain ⟨i, hi⟩ := hs ⟨⟨x, hx⟩, hne⟩
  exact ⟨i.val, i.isLt, congrArg (fun a : {a : GF16 // a ≠ 0} => a.val.val) hi⟩

-- the exponent is a variable `n` on purpose: with the literal `i + 65535 - j` in the
-- statement the kernel spends seconds normalising `Nat.add _ 65535`.
theorem g_pow_sub {i j n : Nat} (h : n + j = i + 65535) :
    g ^ n = g ^ i * (g ^ j)⁻¹ := by
  have hg : (g ^ j : GF16) ≠ 0 := fun h => pw_ne_zero j (congrArg GF16.val h)
  rw [eq_mul_inv_iff_mul_eq₀ hg, ← pow_add, h, pow_add, g_pow, mul_one]

theorem mk_pw (j : Nat) : (⟨pw j, pw_lt j⟩ : GF16) = g ^ j := GF16.ext' rfl

theorem ginv_pw (j : Nat) : ginv (pw j) = ((g ^ j)⁻¹).val := by
  rw [ginv_eq (pw_lt j), mk_pw]

theorem pw_sub {i j n : Nat} (h : n + j = i + 65535) :
    pw n = gmul (pw i) (ginv (pw j)) := by
  rw [ginv_pw]
  unfold pw
  rw [← GF16.val_mul, g_pow_sub h]

/-! ### the loop invariant -/

/-- loop invariant of `rs_galois_init_tables` after `n` rounds. -/
structure TblInv (n : Nat) (s : Array Nat × Array Nat × Nat) : Prop where
  cur : s.2.2 = pw n
  logSize : s.1.size = 65536
  ilogSize : s.2.1.size = 65535
  ilogGet : ∀ i, i < n → s.2.1[i]? = some (pw i)
  logGet : ∀ i, i < n → s.1[pw i]? = some i
  logZero : s.1[0]? = some 0

theorem tblInv (n : Nat) (hn : n ≤ 65535) : TblInv n (tblState n) := by
  induction n with
  | zero =>
    refine ⟨by simp [tblState_zero, tblInit, pw_zero], by simp [tblState_zero, tblInit],
      by simp [tblState_zero, tblInit], by simp, by simp, ?_⟩
    simp [tblState_zero, tblInit]
  | succ n ih =>
    have h := ih (by omega)
    have hlt : n < 65535 := by omega
    rw [tblState_succ]
    obtain ⟨c, ls, is, ig, lg, lz⟩ := h
    refine ⟨?_, ?_, ?_, ?_, ?_, ?_⟩
    · simp [tblStep, c, tableNext_pw]
    · simp [tblStep, ls]
    · simp [tblStep, is]
    · intro i hi
      simp only [tblStep, Array.set!_eq_setIfInBounds, Array.getElem?_setIfInBounds, c]
      by_cases hin : n = i
      · subst hin; simp [is, hlt]
      · rw [if_neg hin]; exact ig i (by omega)
    · intro i hi
      simp only [tblStep, Array.set!_eq_setIfInBounds, Array.getElem?_setIfInBounds, c]
      by_cases hin : n = i
      · subst hin
        have : pw n < 65536 := pw_lt n
        simp [ls, this]
      · have : pw n ≠ pw i := fun h => hin (pw_inj hlt (by omega) h)
        rw [if_neg this]; exact lg i (by omega)
    · simp only [tblStep, Array.set!_eq_setIfInBounds, Array.getElem?_setIfInBounds, c]
      rw [if_neg (pw_ne_zero n)]; exact lz

theorem tblInvFinal : TblInv 65535 (tblState 65535) := tblInv 65535 (Nat.le_refl _)

theorem gfTables_eq : gfTables = ((tblState 65535).1, (tblState 65535).2.1) := buildTables_eq

-- stated for variables `a`, `b` so that the kernel never reduces a projection of
-- `tblState 65535` (that costs ~10 s per occurrence).
theorem fst_snd_of_eq_mk {α β : Type} {p : α × β} {a : α} {b : β} (h : p = (a, b)) :
    p.1 = a ∧ p.2 = b := by
  subst h; exact ⟨rfl, rfl⟩

theorem gfTables_fst : gfTables.1 = (tblState 65535).1 := (fst_snd_of_eq_mk gfTables_eq).1
theorem gfTables_snd : gfTables.2 = (tblState 65535).2.1 := (fst_snd_of_eq_mk gfTables_eq).2

theorem getElem!_of_getElem? {a : Array Nat} {i v : Nat} (h : a[i]? = some v) : a[i]! = v := by
  simp [getElem!_def, h]

/-! ### the finished tables -/

theorem ilog_pw {i : Nat} (hi : i < 65535) : gfTables.2[i]! = pw i := by
  rw [gfTables_snd]; exact getElem!_of_getElem? (tblInvFinal.ilogGet i hi)

theorem logTable_pw {i : Nat} (hi : i < 65535) : logTable (pw i) = i := by
  unfold logTable
  rw [gfTables_fst]; exact getElem!_of_getElem? (tblInvFinal.logGet i hi)

theorem ilogTable_of_index {a : Int} {k : Nat}
    (h : ((a + 65535) % 65535).toNat = k % 65535) : ilogTable a = pw k := by
  unfold ilogTable
  rw [h, ilog_pw (Nat.mod_lt _ (by norm_num)), pw_mod]

theorem ilogTable_ofNat (k : Nat) : ilogTable (k : Int) = pw k :=
  ilogTable_of_index (by omega)

end GFTab

open GFTab

/-! ### main results -/

/-- `log_table` has `FIELD_SIZE` entries. -/
theorem logTable_size : gfTables.1.size = 65536 := by
  rw [gfTables_fst]; exact tblInvFinal.logSize

/-- the part of `ilog_table` built by the loop has `GROUP_SIZE` entries. -/
theorem ilogTable_size : gfTables.2.size = 65535 := by
  rw [gfTables_snd]; exact tblInvFinal.ilogSize

/-- the entry for 0 is never written. -/
theorem logTable_zero : logTable 0 = 0 := by
  unfold logTable
  rw [gfTables_fst]; exact getElem!_of_getElem? tblInvFinal.logZero

/-- antilog table: entry `i` is `2 ^ i` in the field. -/
theorem ilog_spec {i : Nat} (hi : i < 65535) : gfTables.2[i]! = gpow 2 i := by
  rw [ilog_pw hi, pw_eq_gpow (by omega)]

/-- the same in the field `GF16`. -/
theorem ilog_spec_field {i : Nat} (hi : i < 65535) : gfTables.2[i]! = (g ^ i).val :=
  ilog_pw hi

/-- log table: a discrete logarithm to base 2 of every non-zero element. -/
theorem log_spec {x : Nat} (h0 : 0 < x) (hx : x < 2^16) :
    logTable x < 65535 ∧ gfTables.2[logTable x]! = x := by
  obtain ⟨i, hi, rfl⟩ := pw_surj (by omega) hx
  rw [logTable_pw hi]
  exact ⟨hi, ilog_pw hi⟩

/-- … and it is *the* logarithm below the group order. -/
theorem logTable_gpow {i : Nat} (hi : i < 65535) : logTable (gpow 2 i) = i := by
  rw [← pw_eq_gpow (by omega), logTable_pw hi]

theorem gpow_two_logTable {x : Nat} (h0 : 0 < x) (hx : x < 2^16) : gpow 2 (logTable x) = x := by
  obtain ⟨h1, h2⟩ := log_spec h0 hx
  rw [← ilog_spec h1, h2]

/-- every antilog entry is a field element. -/
theorem ilog_lt {i : Nat} (hi : i < 65535) : gfTables.2[i]! < 2^16 := by
  rw [ilog_pw hi]; exact pw_lt i

/-- every log entry (of an index inside the table) is below the group order. -/
theorem log_lt {x : Nat} (hx : x < 2^16) : logTable x < 65535 := by
  rcases Nat.eq_zero_or_pos x with rfl | h0
  · rw [logTable_zero]; norm_num
  · exact (log_spec h0 hx).1

/-- `ilogTable` on the whole index range used by the C code. -/
theorem ilogTable_lt (i : Int) : ilogTable i < 2^16 := by
  unfold ilogTable
  apply ilog_lt
  omega

/-- `rs_galois_mult` is the field product. -/
theorem tmul_eq_gmul {x y : Nat} (hx : x < 2^16) (hy : y < 2^16) : tmul x y = gmul x y := by
  unfold tmul
  by_cases hx0 : x = 0
  · subst hx0; simp [zero_gmul hy]
  by_cases hy0 : y = 0
  · subst hy0; simp [gmul_zero hx]
  rw [if_neg (by simp [hx0, hy0])]
  obtain ⟨i, hi, rfl⟩ := pw_surj hx0 hx
  obtain ⟨j, hj, rfl⟩ := pw_surj hy0 hy
  rw [logTable_pw hi, logTable_pw hj, ilogTable_ofNat, pw_add]

theorem tmul_lt {x y : Nat} (hx : x < 2^16) (hy : y < 2^16) : tmul x y < 2^16 := by
  rw [tmul_eq_gmul hx hy]; exact gmul_lt hx hy

/-- `rs_galois_div` returns -1 exactly for a non-zero numerator over zero … -/
theorem tdiv_zero (x : Nat) (hx : x ≠ 0) : tdiv x 0 = none := by
  simp [tdiv, hx]

/-- … and 0 for a zero numerator (whatever the denominator). -/
theorem tdiv_zero_left (y : Nat) : tdiv 0 y = some 0 := by
  simp [tdiv]

/-- `rs_galois_div` is the field quotient. -/
theorem tdiv_eq {x y : Nat} (hx : x < 2^16) (hy : y < 2^16) (hy0 : y ≠ 0) :
    tdiv x y = some (gmul x (ginv y)) := by
  by_cases hx0 : x = 0
  · subst hx0; rw [tdiv_zero_left, zero_gmul (ginv_lt hy)]
  unfold tdiv
  rw [if_neg (by simp [hx0]), if_neg (by simp [hy0])]
  obtain ⟨i, hi, rfl⟩ := pw_surj hx0 hx
  obtain ⟨j, hj, rfl⟩ := pw_surj hy0 hy
  rw [logTable_pw hi, logTable_pw hj,
    ← pw_sub (n := i + 65535 - j) (i := i) (j := j) (by omega)]
  exact congrArg some (ilogTable_of_index (by omega))

theorem tdiv_eq_gdiv {x y : Nat} (hx : x < 2^16) (hy : y < 2^16) (hy0 : y ≠ 0) :
    tdiv x y = some (gdiv x y) := tdiv_eq hx hy hy0

end Lec

#print axioms Lec.tmul_eq_gmul
#print axioms Lec.tdiv_eq
#print axioms Lec.tdiv_zero
#print axioms Lec.tdiv_zero_left
#print axioms Lec.ilog_spec
#print axioms Lec.log_spec
#print axioms Lec.logTable_size
#print axioms Lec.ilogTable_size
#print axioms Lec.ilog_lt
#print axioms Lec.log_lt
