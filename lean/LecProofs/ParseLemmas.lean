/-
  LecProofs.ParseLemmas — reading the fields of a serialized header gives back the values.
-/
import LecModel.Header
import LecProofs.BytesLemmas
namespace Lec

/-- reading exactly the `j`-th segment of a segmented buffer. -/
theorem rdBytes_flatten_get (segs : List Bytes) (j off w : Nat) (hj : j < segs.length)
    (hoff : (segs.take j).flatten.length = off) (hw : (segs[j]).length = w) :
    rdBytes segs.flatten off w = segs[j] := by
  have hs : segs = segs.take j ++ [segs[j]] ++ segs.drop (j + 1) := by
    rw [List.append_assoc, List.singleton_append, List.getElem_cons_drop_succ_eq_drop hj,
      List.take_append_drop]
  conv => lhs; rw [hs]
  simp only [List.flatten_append, List.flatten_cons, List.flatten_nil, List.append_nil]
  rw [← hoff, ← hw]
  exact rdBytes_append_mid _ _ _

/-- field-width well-formedness of a logical header. -/
structure Header.WF (h : Header) : Prop where
  idx : h.md.idx < 2 ^ 32
  size : h.md.size < 2 ^ 32
  bmSize : h.md.bmSize < 2 ^ 32
  origSize : h.md.origSize < 2 ^ 64
  ctype : h.md.ctype < 256
  chkLen : h.md.chksum.length = 8
  chk : ∀ c ∈ h.md.chksum, c < 2 ^ 32
  mismatch : h.md.mismatch < 256
  beId : h.md.beId < 256
  beVer : h.md.beVer < 2 ^ 32
  magic : h.magic < 2 ^ 32
  libver : h.libver < 2 ^ 32
  metaCrc : h.metaCrc < 2 ^ 32

theorem leVal_le32 {n : Nat} (h : n < 2 ^ 32) : leVal (le32 n) = n :=
  leVal_leBytes_of_lt (w := 4) (by simpa using h)
theorem leVal_le64 {n : Nat} (h : n < 2 ^ 64) : leVal (le64 n) = n :=
  leVal_leBytes_of_lt (w := 8) (by simpa using h)
theorem leVal_byte {n : Nat} (h : n < 256) : leVal [UInt8.ofNat n] = n := by
  simp [leVal, UInt8.toNat_ofNat', Nat.mod_eq_of_lt h]

/-- the serialized header followed by anything, as 21 segments. -/
def hdrSegs (idx size bm orig ct c0 c1 c2 c3 c4 c5 c6 c7 mm be bv mg lv mc : Nat) (p : Bytes) : List Bytes :=
  [le32 idx, le32 size, le32 bm, le64 orig, [UInt8.ofNat ct], le32 c0, le32 c1, le32 c2, le32 c3, le32 c4,
   le32 c5, le32 c6, le32 c7, [UInt8.ofNat mm], [UInt8.ofNat be], le32 bv, le32 mg, le32 lv, le32 mc,
   zeros 9, p]

theorem header_bytes_segs (idx size bm orig ct c0 c1 c2 c3 c4 c5 c6 c7 mm be bv mg lv mc : Nat) (p : Bytes) :
    (Header.bytes ⟨⟨idx, size, bm, orig, ct, [c0, c1, c2, c3, c4, c5, c6, c7], mm, be, bv⟩, mg, lv, mc⟩) ++ p =
    (hdrSegs idx size bm orig ct c0 c1 c2 c3 c4 c5 c6 c7 mm be bv mg lv mc p).flatten := by
  simp [Header.bytes, Meta.bytes, hdrSegs, Hdr.padLen]

/-- **parse ∘ serialize = id** on well-formed headers, with any payload behind. -/
theorem parseHeader_bytes (h : Header) (hw : h.WF) (p : Bytes) : parseHeader (h.bytes ++ p) = h := by
  obtain ⟨⟨idx, size, bm, orig, ct, chk, mm, be, bv⟩, mg, lv, mc⟩ := h
  have hl := hw.chkLen
  simp only at hl
  match chk, hl with
  | [c0, c1, c2, c3, c4, c5, c6, c7], _ =>
    rw [header_bytes_segs]
    have hc := hw.chk
    simp only [List.mem_cons, List.not_mem_nil, or_false] at hc
    have r32 : ∀ (j off : Nat) (hj : j < 21) (v : Nat),
        ((hdrSegs idx size bm orig ct c0 c1 c2 c3 c4 c5 c6 c7 mm be bv mg lv mc p).take j).flatten.length = off →
        (hdrSegs idx size bm orig ct c0 c1 c2 c3 c4 c5 c6 c7 mm be bv mg lv mc p)[j]'(by simp [hdrSegs]; omega) = le32 v →
        v < 2 ^ 32 →
        rd32 (hdrSegs idx size bm orig ct c0 c1 c2 c3 c4 c5 c6 c7 mm be bv mg lv mc p).flatten off = v := by
      intro j off hj v ho hg hv
      unfold rd32
      rw [rdBytes_flatten_get _ j off 4 (by simp [hdrSegs]; omega) ho (by rw [hg]; simp), hg, leVal_le32 hv]
    have r8 : ∀ (j off : Nat) (hj : j < 21) (v : Nat),
        ((hdrSegs idx size bm orig ct c0 c1 c2 c3 c4 c5 c6 c7 mm be bv mg lv mc p).take j).flatten.length = off →
        (hdrSegs idx size bm orig ct c0 c1 c2 c3 c4 c5 c6 c7 mm be bv mg lv mc p)[j]'(by simp [hdrSegs]; omega) = [UInt8.ofNat v] →
        v < 256 →
        rd8 (hdrSegs idx size bm orig ct c0 c1 c2 c3 c4 c5 c6 c7 mm be bv mg lv mc p).flatten off = v := by
      intro j off hj v ho hg hv
      unfold rd8
      rw [rdBytes_flatten_get _ j off 1 (by simp [hdrSegs]; omega) ho (by rw [hg]; simp), hg, leVal_byte hv]
    have e0 := r32 0 0 (by omega) idx (by simp [hdrSegs]) (by simp [hdrSegs]) hw.idx
    have e1 := r32 1 4 (by omega) size (by simp [hdrSegs]) (by simp [hdrSegs]) hw.size
    have e2 := r32 2 8 (by omega) bm (by simp [hdrSegs]) (by simp [hdrSegs]) hw.bmSize
    have e3 : rd64 (hdrSegs idx size bm orig ct c0 c1 c2 c3 c4 c5 c6 c7 mm be bv mg lv mc p).flatten 12 = orig := by
      unfold rd64
      rw [rdBytes_flatten_get _ 3 12 8 (by simp [hdrSegs]) (by simp [hdrSegs]) (by simp [hdrSegs])]
      simpa [hdrSegs] using leVal_le64 hw.origSize
    have e4 := r8 4 20 (by omega) ct (by simp [hdrSegs]) (by simp [hdrSegs]) hw.ctype
    have e5 := r32 5 21 (by omega) c0 (by simp [hdrSegs]) (by simp [hdrSegs]) (hc c0 (by simp))
    have e6 := r32 6 25 (by omega) c1 (by simp [hdrSegs]) (by simp [hdrSegs]) (hc c1 (by simp))
    have e7 := r32 7 29 (by omega) c2 (by simp [hdrSegs]) (by simp [hdrSegs]) (hc c2 (by simp))
    have e8 := r32 8 33 (by omega) c3 (by simp [hdrSegs]) (by simp [hdrSegs]) (hc c3 (by simp))
    have e9 := r32 9 37 (by omega) c4 (by simp [hdrSegs]) (by simp [hdrSegs]) (hc c4 (by simp))
    have e10 := r32 10 41 (by omega) c5 (by simp [hdrSegs]) (by simp [hdrSegs]) (hc c5 (by simp))
    have e11 := r32 11 45 (by omega) c6 (by simp [hdrSegs]) (by simp [hdrSegs]) (hc c6 (by simp))
    have e12 := r32 12 49 (by omega) c7 (by simp [hdrSegs]) (by simp [hdrSegs]) (hc c7 (by simp))
    have e13 := r8 13 53 (by omega) mm (by simp [hdrSegs]) (by simp [hdrSegs]) hw.mismatch
    have e14 := r8 14 54 (by omega) be (by simp [hdrSegs]) (by simp [hdrSegs]) hw.beId
    have e15 := r32 15 55 (by omega) bv (by simp [hdrSegs]) (by simp [hdrSegs]) hw.beVer
    have e16 := r32 16 59 (by omega) mg (by simp [hdrSegs]) (by simp [hdrSegs]) hw.magic
    have e17 := r32 17 63 (by omega) lv (by simp [hdrSegs]) (by simp [hdrSegs]) hw.libver
    have e18 := r32 18 67 (by omega) mc (by simp [hdrSegs]) (by simp [hdrSegs]) hw.metaCrc
    simp only [parseHeader, parseMeta, fIdx, fSize, fBmSize, fOrig, fCtype, fChk, fMismatch, fBeId, fBeVer,
      fMagic, fLibver, fMetaCrc, Hdr.offIdx, Hdr.offSize, Hdr.offBmSize, Hdr.offOrig, Hdr.offCtype,
      Hdr.offChksum, Hdr.offMismatch, Hdr.offBeId, Hdr.offBeVer, Hdr.offMagic, Hdr.offLibver, Hdr.offMetaCrc,
      e0, e1, e2, e3, e4, e13, e14, e15, e16, e17, e18]
    have : List.map (fChk (hdrSegs idx size bm orig ct c0 c1 c2 c3 c4 c5 c6 c7 mm be bv mg lv mc p).flatten) (List.range 8) =
        [c0, c1, c2, c3, c4, c5, c6, c7] := by
      simp only [List.range, List.range.loop, List.map_cons, List.map_nil, fChk, Hdr.offChksum,
        Nat.mul_zero, Nat.add_zero, e5, e6, e7, e8, e9, e10, e11, e12]
    rw [this]

theorem header_bytes_length (h : Header) (hc : h.md.chksum.length = 8) : h.bytes.length = 80 := by
  obtain ⟨⟨idx, size, bm, orig, ct, chk, mm, be, bv⟩, mg, lv, mc⟩ := h
  simp only at hc
  match chk, hc with
  | [c0, c1, c2, c3, c4, c5, c6, c7], _ =>
    simp [Header.bytes, Meta.bytes, Hdr.padLen]

theorem meta_bytes_length (m : Meta) (hc : m.chksum.length = 8) : m.bytes.length = 59 := by
  obtain ⟨idx, size, bm, orig, ct, chk, mm, be, bv⟩ := m
  simp only at hc
  match chk, hc with
  | [c0, c1, c2, c3, c4, c5, c6, c7], _ =>
    simp [Meta.bytes]

end Lec
