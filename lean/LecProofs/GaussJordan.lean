/-
  LecProofs.GaussJordan — `Lec.gaussj` computes the inverse of every invertible matrix
  over GF(2^16), and whatever it returns is a left inverse.

  Structure: the three row operations (`swapR`, `scaleR`, `elimR`) commute with
  multiplication on the right (`op (B * A) = op B * A`) and are invertible, so
    * `toMatrix I_t * toMatrix M_0 = toMatrix M_t` is an invariant of `gjStep`,
    * `det (toMatrix M_t) ≠ 0` is an invariant,
    * columns `< t` of `M_t` are unit vectors after `t` steps,
    * a pivot exists at step `t` when `det ≠ 0` (`pivot_exists`).
-/
import LecModel.RS
import LecProofs.GF16Field
import Mathlib.LinearAlgebra.Matrix.NonsingularInverse
import Mathlib.LinearAlgebra.Matrix.Nondegenerate
open Matrix

namespace Lec

/-! ### row operations over a field of characteristic 2 -/
namespace GJ
variable {F : Type*} [Field F] {n : ℕ}

/-- pivot existence: `det ≠ 0` and unit columns `< t` give a non-zero entry in column `t`
    at or below the diagonal. -/
theorem pivot_exists (M : Matrix (Fin n) (Fin n) F)
    (hdet : M.det ≠ 0) (t : Fin n)
    (hcols : ∀ c : Fin n, c < t → ∀ r, M r c = if r = c then 1 else 0) :
    ∃ r : Fin n, t ≤ r ∧ M r t ≠ 0 := by
  by_contra hcon
  push Not at hcon
  let v : Fin n → F := fun c => if c = t then 1 else if c < t then - M c t else 0
  have hv : M *ᵥ v = 0 := by
    funext r
    simp only [mulVec, dotProduct, Pi.zero_apply]
    have hsplit : ∀ c, M r c * v c =
        (if c = t then M r t else 0) + (if c < t then - (M r c * M c t) else 0) := by
      intro c
      simp only [v]
      by_cases h1 : c = t
      · subst h1; simp
      · by_cases h2 : c < t
        · simp [h1, h2]
        · simp [h1, h2]
    simp_rw [hsplit, Finset.sum_add_distrib]
    rw [Finset.sum_ite_eq' Finset.univ t (fun _ => M r t)]
    simp only [Finset.mem_univ, if_true]
    have hsum : (∑ c, if c < t then -(M r c * M c t) else 0) = if r < t then - M r t else 0 := by
      have : ∀ c, (if c < t then -(M r c * M c t) else 0) =
          if c = r then (if r < t then - M r t else 0) else 0 := by
        intro c
        by_cases h2 : c < t
        · rw [if_pos h2, hcols c h2 r]
          by_cases h3 : r = c
          · subst h3; simp [h2]
          · have : ¬ c = r := fun h => h3 h.symm
            simp [h3, this]
        · rw [if_neg h2]
          by_cases h3 : c = r
          · subst h3; simp [h2]
          · simp [h3]
      simp_rw [this]
      rw [Finset.sum_ite_eq' Finset.univ r]
      simp
    rw [hsum]
    by_cases h : r < t
    · simp [h]
    · simp [h, hcon r (not_lt.mp h)]
  have hv0 : v = 0 := Matrix.eq_zero_of_mulVec_eq_zero hdet hv
  have : v t = 1 := by simp [v]
  rw [hv0] at this
  simp at this

def swapR (A : Matrix (Fin n) (Fin n) F) (c p : Fin n) : Matrix (Fin n) (Fin n) F :=
  fun i j => if i = c then A p j else if i = p then A c j else A i j

def scaleR (A : Matrix (Fin n) (Fin n) F) (c : Fin n) (s : F) : Matrix (Fin n) (Fin n) F :=
  fun i j => if i = c then A c j * s else A i j

def elimR (A : Matrix (Fin n) (Fin n) F) (c : Fin n) (col : Fin n → F) :
    Matrix (Fin n) (Fin n) F :=
  fun i j => if i = c then A i j else A i j + A c j * col i

theorem swapR_mul (B A : Matrix (Fin n) (Fin n) F) (c p : Fin n) :
    swapR (B * A) c p = swapR B c p * A := by
  ext i j
  simp only [swapR, Matrix.mul_apply]
  split_ifs <;> rfl

theorem scaleR_mul (B A : Matrix (Fin n) (Fin n) F) (c : Fin n) (s : F) :
    scaleR (B * A) c s = scaleR B c s * A := by
  ext i j
  simp only [scaleR, Matrix.mul_apply]
  split_ifs
  · rw [Finset.sum_mul]
    apply Finset.sum_congr rfl
    intro l _; ring
  · rfl

theorem elimR_mul (B A : Matrix (Fin n) (Fin n) F) (c : Fin n) (col : Fin n → F) :
    elimR (B * A) c col = elimR B c col * A := by
  ext i j
  simp only [elimR, Matrix.mul_apply]
  split_ifs
  · rfl
  · rw [Finset.sum_mul, ← Finset.sum_add_distrib]
    apply Finset.sum_congr rfl
    intro l _; ring

omit [Field F] in
theorem swapR_swapR (X : Matrix (Fin n) (Fin n) F) (c p : Fin n) :
    swapR (swapR X c p) c p = X := by
  ext i j
  simp only [swapR]
  by_cases h1 : i = c
  · subst h1
    by_cases h2 : p = i
    · subst h2; simp
    · simp [h2]
  · by_cases h2 : i = p
    · subst h2; simp [h1]
    · simp [h1, h2]

theorem scaleR_scaleR (X : Matrix (Fin n) (Fin n) F) (c : Fin n) {s : F} (hs : s ≠ 0) :
    scaleR (scaleR X c s) c s⁻¹ = X := by
  ext i j
  simp only [scaleR]
  by_cases h1 : i = c
  · subst h1; simp [hs]
  · simp [h1]

theorem elimR_elimR [CharP F 2] (X : Matrix (Fin n) (Fin n) F) (c : Fin n) (col : Fin n → F) :
    elimR (elimR X c col) c col = X := by
  ext i j
  simp only [elimR]
  by_cases h1 : i = c
  · subst h1; simp
  · simp only [h1, if_false, if_true, add_assoc, CharTwo.add_self_eq_zero, add_zero]

/-- a row-linear map with a row-linear left inverse preserves `det ≠ 0`. -/
theorem det_ne_zero_of_rowLinear
    (f g : Matrix (Fin n) (Fin n) F → Matrix (Fin n) (Fin n) F)
    (hf : ∀ B A, f (B * A) = f B * A) (hg : ∀ B A, g (B * A) = g B * A)
    (hgf : ∀ X, g (f X) = X) (B : Matrix (Fin n) (Fin n) F) (hB : B.det ≠ 0) :
    (f B).det ≠ 0 := by
  have h1 : f B = f 1 * B := by rw [← hf, one_mul]
  have h2 : g 1 * f 1 = 1 := by rw [← hg, one_mul, hgf]
  have h3 : (f 1).det ≠ 0 := Matrix.det_ne_zero_of_left_inverse h2
  rw [h1, Matrix.det_mul]
  exact mul_ne_zero h3 hB

theorem det_swapR (B : Matrix (Fin n) (Fin n) F) (c p : Fin n) (hB : B.det ≠ 0) :
    (swapR B c p).det ≠ 0 :=
  det_ne_zero_of_rowLinear (swapR · c p) (swapR · c p) (fun B A => swapR_mul B A c p)
    (fun B A => swapR_mul B A c p) (fun X => swapR_swapR X c p) B hB

theorem det_scaleR (B : Matrix (Fin n) (Fin n) F) (c : Fin n) {s : F} (hs : s ≠ 0)
    (hB : B.det ≠ 0) : (scaleR B c s).det ≠ 0 :=
  det_ne_zero_of_rowLinear (scaleR · c s) (scaleR · c s⁻¹) (fun B A => scaleR_mul B A c s)
    (fun B A => scaleR_mul B A c s⁻¹) (fun X => scaleR_scaleR X c hs) B hB

theorem det_elimR [CharP F 2] (B : Matrix (Fin n) (Fin n) F) (c : Fin n) (col : Fin n → F)
    (hB : B.det ≠ 0) : (elimR B c col).det ≠ 0 :=
  det_ne_zero_of_rowLinear (elimR · c col) (elimR · c col) (fun B A => elimR_mul B A c col)
    (fun B A => elimR_mul B A c col) (fun X => elimR_elimR X c col) B hB

/-- one column step with pivot row `p`, driven by `A`, applied to `B`. -/
def stepR (A B : Matrix (Fin n) (Fin n) F) (c p : Fin n) : Matrix (Fin n) (Fin n) F :=
  elimR (scaleR (swapR B c p) c (swapR A c p c c)⁻¹) c
    (fun i => scaleR (swapR A c p) c (swapR A c p c c)⁻¹ i c)

theorem stepR_mul (A B A0 : Matrix (Fin n) (Fin n) F) (c p : Fin n) :
    stepR A B c p * A0 = stepR A (B * A0) c p := by
  unfold stepR
  rw [← elimR_mul, ← scaleR_mul, ← swapR_mul]

/-- one elimination step makes column `c` a unit vector and keeps the earlier ones. -/
theorem unitCols_step [CharP F 2] (A : Matrix (Fin n) (Fin n) F) (c p : Fin n) (hcp : c ≤ p)
    (hp : A p c ≠ 0)
    (hcols : ∀ c' : Fin n, c' < c → ∀ r, A r c' = if r = c' then 1 else 0)
    (c' : Fin n) (hc' : c' ≤ c) (r : Fin n) :
    stepR A A c p r c' = if r = c' then 1 else 0 := by
  have hd : swapR A c p c c = A p c := by simp [swapR]
  unfold stepR
  rw [hd]
  rcases lt_or_eq_of_le hc' with hlt | heq
  · -- an earlier column
    have hpc' : p ≠ c' := fun h => by subst h; exact absurd hcp (not_le.mpr hlt)
    have hcc' : c ≠ c' := fun h => by subst h; exact lt_irrefl _ hlt
    have hA_p : A p c' = 0 := by rw [hcols c' hlt p, if_neg hpc']
    have hA_c : A c c' = 0 := by rw [hcols c' hlt c, if_neg hcc']
    have hrow : scaleR (swapR A c p) c (A p c)⁻¹ c c' = 0 := by
      simp [scaleR, swapR, hA_p]
    by_cases hrc : r = c
    · subst hrc
      simp only [elimR, if_true]
      rw [hrow, if_neg hcc']
    · simp only [elimR, hrc, if_false]
      rw [hrow, zero_mul, add_zero]
      simp only [scaleR, swapR, hrc, if_false]
      by_cases hrp : r = p
      · subst hrp
        rw [if_pos rfl, hA_c, if_neg hpc']
      · rw [if_neg hrp, hcols c' hlt r]
  · -- the pivot column
    subst heq
    have hone : scaleR (swapR A c' p) c' (A p c')⁻¹ c' c' = 1 := by
      simp [scaleR, swapR, hp]
    by_cases hrc : r = c'
    · subst hrc
      simp only [elimR, if_true]
      exact hone
    · simp only [elimR, hrc, if_false]
      rw [hone, one_mul]
      exact CharTwo.add_self_eq_zero _

end GJ

/-! ### `Mat` versus `Matrix` -/

@[simp] theorem Mat.get_ofFn {n : Nat} (f : Fin n → Fin n → Nat) (i j : Fin n) :
    (Mat.ofFn f).get i j = f i j := by
  simp [Mat.get, Mat.ofFn]

/-- all entries are field elements. -/
def Mat.Bounded {n : Nat} (M : Mat n) : Prop := ∀ i j, M.get i j < 2^16

/-- the matrix over `GF16` with the same entries. -/
def toMatrix {n : Nat} (M : Mat n) : Matrix (Fin n) (Fin n) GF16 :=
  fun i j => GF16.ofNat (M.get i j)

theorem toMatrix_apply {n : Nat} (M : Mat n) (i j : Fin n) :
    toMatrix M i j = GF16.ofNat (M.get i j) := rfl

theorem Mat.one_bounded (n : Nat) : (Mat.one n).Bounded := by
  intro i j
  simp only [Mat.one, Mat.get_ofFn]
  split <;> norm_num

theorem toMatrix_one (n : Nat) : toMatrix (Mat.one n) = 1 := by
  ext i j
  simp only [toMatrix, Mat.one, Mat.get_ofFn, Matrix.one_apply]
  split <;> rfl

theorem Mat.ext_get {n : Nat} {A B : Mat n} (h : ∀ i j, A.get i j = B.get i j) : A = B := by
  apply Vector.ext
  intro i hi
  apply Vector.ext
  intro j hj
  exact h ⟨i, hi⟩ ⟨j, hj⟩

theorem toMatrix_injOn {n : Nat} {A B : Mat n} (hA : A.Bounded) (hB : B.Bounded)
    (h : toMatrix A = toMatrix B) : A = B := by
  apply Mat.ext_get
  intro i j
  exact GF16.ofNat_inj (hA i j) (hB i j) (congrFun (congrFun h i) j)

section ops
variable {n : Nat}

theorem swapM_bounded {X : Mat n} (hX : X.Bounded) (c p : Fin n) : (swapM X c p).Bounded := by
  intro i j
  simp only [swapM, Mat.get_ofFn]
  split_ifs <;> exact hX _ _

theorem toMatrix_swapM (X : Mat n) (c p : Fin n) :
    toMatrix (swapM X c p) = GJ.swapR (toMatrix X) c p := by
  funext i j
  simp only [toMatrix, swapM, Mat.get_ofFn, GJ.swapR]
  split_ifs <;> rfl

theorem scaleM_bounded {X : Mat n} (hX : X.Bounded) (c : Fin n) {s : Nat} (hs : s < 2^16) :
    (scaleM X c s).Bounded := by
  intro i j
  simp only [scaleM, Mat.get_ofFn]
  split_ifs
  · exact gmul_lt (hX _ _) hs
  · exact hX _ _

theorem toMatrix_scaleM {X : Mat n} (hX : X.Bounded) (c : Fin n) {s : Nat} (hs : s < 2^16) :
    toMatrix (scaleM X c s) = GJ.scaleR (toMatrix X) c (GF16.ofNat s) := by
  funext i j
  simp only [toMatrix, scaleM, Mat.get_ofFn, GJ.scaleR]
  split_ifs
  · exact GF16.ofNat_gmul (hX _ _) hs
  · rfl

theorem elimM_bounded {X : Mat n} (hX : X.Bounded) (c : Fin n) {col : Fin n → Nat}
    (hcol : ∀ i, col i < 2^16) : (elimM X c col).Bounded := by
  intro i j
  simp only [elimM, Mat.get_ofFn]
  split_ifs
  · exact hX _ _
  · exact xor_lt16 (hX _ _) (gmul_lt (hX _ _) (hcol i))

theorem toMatrix_elimM {X : Mat n} (hX : X.Bounded) (c : Fin n) {col : Fin n → Nat}
    (hcol : ∀ i, col i < 2^16) :
    toMatrix (elimM X c col) = GJ.elimR (toMatrix X) c (fun i => GF16.ofNat (col i)) := by
  funext i j
  simp only [toMatrix, elimM, Mat.get_ofFn, GJ.elimR]
  split_ifs
  · rfl
  · rw [GF16.ofNat_xor (hX _ _) (gmul_lt (hX _ _) (hcol i)), GF16.ofNat_gmul (hX _ _) (hcol i)]

theorem findPivot_some {M : Mat n} {c p : Fin n} (h : findPivot M c = some p) :
    c ≤ p ∧ M.get p c ≠ 0 := by
  have := List.find?_some h
  simpa using this

theorem findPivot_exists {M : Mat n} {c : Fin n} (h : ∃ r, c ≤ r ∧ M.get r c ≠ 0) :
    ∃ p, findPivot M c = some p := by
  obtain ⟨r, h1, h2⟩ := h
  have : (findPivot M c).isSome := by
    unfold findPivot
    rw [List.find?_isSome]
    exact ⟨r, List.mem_finRange r, by simp [h1, h2]⟩
  exact Option.isSome_iff_exists.mp this

/-- the scale factor used by `gjStep` is the field inverse of the pivot. -/
theorem pivotScale_spec {d : Nat} (hd : d < 2^16) :
    (if d = 1 then 1 else ginv d) < 2^16 ∧
    GF16.ofNat (if d = 1 then 1 else ginv d) = (GF16.ofNat d)⁻¹ := by
  split
  · rename_i h
    subst h
    exact ⟨by norm_num, by simp⟩
  · exact ⟨ginv_lt hd, GF16.ofNat_ginv hd⟩

end ops

/-! ### the invariant of the elimination loop -/

/-- after `t` columns: entries bounded, `I * A0 = M`, columns `< t` of `M` are unit. -/
structure GJInv {n : Nat} (A0 : Matrix (Fin n) (Fin n) GF16) (t : Nat) (S : Mat n × Mat n) :
    Prop where
  bM : S.1.Bounded
  bI : S.2.Bounded
  mul : toMatrix S.2 * A0 = toMatrix S.1
  cols : ∀ c' : Fin n, c'.val < t → ∀ r, toMatrix S.1 r c' = if r = c' then 1 else 0

section step
variable {n : Nat}

/-- the scale factor of `gjStep` (as a natural). -/
def pivS (X : Mat n) (c p : Fin n) : Nat :=
  if (swapM X c p).get c c = 1 then 1 else ginv ((swapM X c p).get c c)

/-- `gjStep` on the first component, given the pivot row. -/
def stepN (X Y : Mat n) (c p : Fin n) : Mat n :=
  elimM (scaleM (swapM Y c p) c (pivS X c p)) c
    (fun i => (scaleM (swapM X c p) c (pivS X c p)).get i c)

theorem gjStep_eq {S : Mat n × Mat n} {c p : Fin n} (hp : findPivot S.1 c = some p) :
    gjStep S c = some (stepN S.1 S.1 c p, stepN S.1 S.2 c p) := by
  unfold gjStep
  rw [hp]
  rfl

theorem gjStep_none {S : Mat n × Mat n} {c : Fin n} (hp : findPivot S.1 c = none) :
    gjStep S c = none := by
  unfold gjStep
  rw [hp]

/-- `stepN` in terms of the matrix-level row operations. -/
theorem stepN_spec {X Y : Mat n} (hX : X.Bounded) (hY : Y.Bounded) (c p : Fin n) :
    (stepN X Y c p).Bounded ∧
    toMatrix (stepN X Y c p) = GJ.stepR (toMatrix X) (toMatrix Y) c p := by
  have hb1 : (swapM X c p).Bounded := swapM_bounded hX c p
  have hbY1 : (swapM Y c p).Bounded := swapM_bounded hY c p
  have hM1 : toMatrix (swapM X c p) = GJ.swapR (toMatrix X) c p := toMatrix_swapM X c p
  obtain ⟨hs, hsinv⟩ := pivotScale_spec (hb1 c c)
  have hd : GF16.ofNat ((swapM X c p).get c c) = GJ.swapR (toMatrix X) c p c c := by
    rw [← hM1, toMatrix_apply]
  rw [hd] at hsinv
  unfold stepN pivS
  generalize (if (swapM X c p).get c c = 1 then 1 else ginv ((swapM X c p).get c c)) = s at hs hsinv
  have hb2 := scaleM_bounded hb1 c hs
  have hbY2 := scaleM_bounded hbY1 c hs
  have hM2 : toMatrix (scaleM (swapM X c p) c s) =
      GJ.scaleR (GJ.swapR (toMatrix X) c p) c (GJ.swapR (toMatrix X) c p c c)⁻¹ := by
    rw [toMatrix_scaleM hb1 c hs, hM1, hsinv]
  have hcol : ∀ i, (scaleM (swapM X c p) c s).get i c < 2^16 := fun i => hb2 i c
  have hcolf : (fun i => GF16.ofNat ((scaleM (swapM X c p) c s).get i c)) =
      fun i => GJ.scaleR (GJ.swapR (toMatrix X) c p) c (GJ.swapR (toMatrix X) c p c c)⁻¹ i c := by
    funext i
    rw [← hM2, toMatrix_apply]
  refine ⟨elimM_bounded hbY2 c hcol, ?_⟩
  rw [toMatrix_elimM hbY2 c hcol, hcolf, toMatrix_scaleM hbY1 c hs, toMatrix_swapM, hsinv]
  rfl

/-- unfolding of `gjStep` in terms of the matrix-level row operations. -/
theorem gjStep_spec {S S' : Mat n × Mat n} {c : Fin n} (hbM : S.1.Bounded) (hbI : S.2.Bounded)
    (h : gjStep S c = some S') :
    ∃ p : Fin n, c ≤ p ∧ toMatrix S.1 p c ≠ 0 ∧ S'.1.Bounded ∧ S'.2.Bounded ∧
      toMatrix S'.1 = GJ.stepR (toMatrix S.1) (toMatrix S.1) c p ∧
      toMatrix S'.2 = GJ.stepR (toMatrix S.1) (toMatrix S.2) c p := by
  cases hp : findPivot S.1 c with
  | none => rw [gjStep_none hp] at h; exact absurd h (by simp)
  | some p =>
    obtain ⟨hcp, hne⟩ := findPivot_some hp
    rw [gjStep_eq hp, Option.some.injEq] at h
    subst h
    obtain ⟨b1, e1⟩ := stepN_spec hbM hbM c p
    obtain ⟨b2, e2⟩ := stepN_spec hbM hbI c p
    refine ⟨p, hcp, ?_, b1, b2, e1, e2⟩
    rw [toMatrix_apply]
    intro h0
    exact hne ((GF16.ofNat_eq_zero_iff (hbM p c)).mp h0)

/-- soundness of one step. -/
theorem gjStep_inv {A0 : Matrix (Fin n) (Fin n) GF16} {S S' : Mat n × Mat n} {c : Fin n}
    (hinv : GJInv A0 c.val S) (h : gjStep S c = some S') : GJInv A0 (c.val + 1) S' := by
  obtain ⟨p, hcp, hne, hb1, hb2, hM, hI⟩ := gjStep_spec hinv.bM hinv.bI h
  refine ⟨hb1, hb2, ?_, ?_⟩
  · rw [hM, hI, GJ.stepR_mul, hinv.mul]
  · intro c' hc' r
    rw [hM]
    exact GJ.unitCols_step (toMatrix S.1) c p hcp hne
      (fun c'' hlt r' => hinv.cols c'' hlt r') c' (Fin.le_def.mpr (by omega)) r

/-- `det ≠ 0` is preserved by one step. -/
theorem gjStep_det {S S' : Mat n × Mat n} {c : Fin n} (hbM : S.1.Bounded) (hbI : S.2.Bounded)
    (hdet : (toMatrix S.1).det ≠ 0) (h : gjStep S c = some S') : (toMatrix S'.1).det ≠ 0 := by
  obtain ⟨p, hcp, hne, hb1, hb2, hM, hI⟩ := gjStep_spec hbM hbI h
  rw [hM]
  apply GJ.det_elimR
  apply GJ.det_scaleR
  · apply inv_ne_zero
    simpa [GJ.swapR] using hne
  · exact GJ.det_swapR _ _ _ hdet

/-- progress of one step. -/
theorem gjStep_progress {A0 : Matrix (Fin n) (Fin n) GF16} {S : Mat n × Mat n} {c : Fin n}
    (hinv : GJInv A0 c.val S) (hdet : (toMatrix S.1).det ≠ 0) : ∃ S', gjStep S c = some S' := by
  obtain ⟨r, hr1, hr2⟩ := GJ.pivot_exists (toMatrix S.1) hdet c
    (fun c' hlt r => hinv.cols c' hlt r)
  have : ∃ r, c ≤ r ∧ S.1.get r c ≠ 0 := by
    refine ⟨r, hr1, ?_⟩
    intro h0
    apply hr2
    rw [toMatrix_apply, h0]; rfl
  obtain ⟨p, hp⟩ := findPivot_exists this
  unfold gjStep
  rw [hp]
  exact ⟨_, rfl⟩

theorem gjLoop_inv {A0 : Matrix (Fin n) (Fin n) GF16} :
    ∀ (cs : List (Fin n)) (t : Nat) (S S' : Mat n × Mat n), t ≤ n →
      cs.map Fin.val = List.range' t (n - t) → GJInv A0 t S → gjLoop cs S = some S' →
      GJInv A0 n S' := by
  intro cs
  induction cs with
  | nil =>
    intro t S S' htn hcs hinv h
    have : n - t = 0 := by
      rcases Nat.eq_zero_or_pos (n - t) with h0 | h0
      · exact h0
      · obtain ⟨m, hm⟩ := Nat.exists_eq_succ_of_ne_zero (Nat.pos_iff_ne_zero.mp h0)
        rw [hm] at hcs; simp [List.range'] at hcs
    have htn' : t = n := by omega
    simp only [gjLoop, Option.some.injEq] at h
    subst h; subst htn'; exact hinv
  | cons c cs ih =>
    intro t S S' htn hcs hinv h
    have hpos : n - t ≠ 0 := by
      intro h0; rw [h0] at hcs; simp at hcs
    obtain ⟨m, hm⟩ := Nat.exists_eq_succ_of_ne_zero hpos
    rw [hm, List.range'_succ, List.map_cons, List.cons.injEq] at hcs
    obtain ⟨hct, hrest⟩ := hcs
    simp only [gjLoop] at h
    split at h
    · exact absurd h (by simp)
    · rename_i S1 hS1
      have hinv1 : GJInv A0 (c.val + 1) S1 := gjStep_inv (hct ▸ hinv) hS1
      have hm' : m = n - (t + 1) := by omega
      exact ih (t + 1) S1 S' (by omega) (by rw [hrest, hm']) (hct ▸ hinv1) h

theorem gjLoop_progress {A0 : Matrix (Fin n) (Fin n) GF16} :
    ∀ (cs : List (Fin n)) (t : Nat) (S : Mat n × Mat n), t ≤ n →
      cs.map Fin.val = List.range' t (n - t) → GJInv A0 t S → (toMatrix S.1).det ≠ 0 →
      ∃ S', gjLoop cs S = some S' := by
  intro cs
  induction cs with
  | nil => intro t S _ _ _ _; exact ⟨S, rfl⟩
  | cons c cs ih =>
    intro t S htn hcs hinv hdet
    have hpos : n - t ≠ 0 := by
      intro h0; rw [h0] at hcs; simp at hcs
    obtain ⟨m, hm⟩ := Nat.exists_eq_succ_of_ne_zero hpos
    rw [hm, List.range'_succ, List.map_cons, List.cons.injEq] at hcs
    obtain ⟨hct, hrest⟩ := hcs
    have hinvc : GJInv A0 c.val S := hct ▸ hinv
    obtain ⟨S1, hS1⟩ := gjStep_progress hinvc hdet
    have hinv1 : GJInv A0 (c.val + 1) S1 := gjStep_inv hinvc hS1
    have hdet1 := gjStep_det hinv.bM hinv.bI hdet hS1
    have hm' : m = n - (t + 1) := by omega
    obtain ⟨S', hS'⟩ := ih (t + 1) S1 (by omega) (by rw [hrest, hm']) (hct ▸ hinv1) hdet1
    exact ⟨S', by simp only [gjLoop, hS1]; exact hS'⟩

theorem finRange_map_val (n : Nat) : (List.finRange n).map Fin.val = List.range' 0 (n - 0) := by
  apply List.ext_getElem
  · simp
  · intro i h1 h2
    simp

end step

/-! ### main theorems -/

/-- soundness: whatever `gaussj` returns is a (bounded) left inverse. -/
theorem gaussj_sound {n : Nat} {M N : Mat n} (hM : M.Bounded) (h : gaussj M = some N) :
    N.Bounded ∧ toMatrix N * toMatrix M = 1 := by
  unfold gaussj at h
  rw [Option.map_eq_some_iff] at h
  obtain ⟨S', hS', rfl⟩ := h
  have h0 : GJInv (toMatrix M) 0 (M, Mat.one n) :=
    ⟨hM, Mat.one_bounded n, by rw [toMatrix_one, one_mul], fun c' hc' => absurd hc' (by omega)⟩
  have hfin := gjLoop_inv (List.finRange n) 0 _ S' (Nat.zero_le n) (finRange_map_val n) h0 hS'
  refine ⟨hfin.bI, ?_⟩
  rw [hfin.mul]
  ext r c
  rw [hfin.cols c c.isLt r, Matrix.one_apply]

/-- the result is also a right inverse, hence *the* inverse. -/
theorem gaussj_sound' {n : Nat} {M N : Mat n} (hM : M.Bounded) (h : gaussj M = some N) :
    toMatrix M * toMatrix N = 1 ∧ toMatrix N = (toMatrix M)⁻¹ := by
  have h1 := (gaussj_sound hM h).2
  exact ⟨mul_eq_one_comm.mp h1, (Matrix.inv_eq_left_inv h1).symm⟩

/-- completeness: on an invertible matrix `gaussj` succeeds (the pivot search never fails)
    and returns the inverse. -/
theorem gaussj_complete {n : Nat} {M : Mat n} (hM : M.Bounded) (hdet : (toMatrix M).det ≠ 0) :
    ∃ N, gaussj M = some N ∧ N.Bounded ∧ toMatrix N * toMatrix M = 1 := by
  have h0 : GJInv (toMatrix M) 0 (M, Mat.one n) :=
    ⟨hM, Mat.one_bounded n, by rw [toMatrix_one, one_mul], fun c' hc' => absurd hc' (by omega)⟩
  obtain ⟨S', hS'⟩ := gjLoop_progress (List.finRange n) 0 _ (Nat.zero_le n)
    (finRange_map_val n) h0 hdet
  have hg : gaussj M = some S'.2 := by unfold gaussj; rw [hS']; rfl
  exact ⟨S'.2, hg, gaussj_sound hM hg⟩

theorem gaussj_complete_of_isUnit {n : Nat} {M : Mat n} (hM : M.Bounded)
    (hu : IsUnit (toMatrix M)) :
    ∃ N, gaussj M = some N ∧ N.Bounded ∧ toMatrix N * toMatrix M = 1 :=
  gaussj_complete hM (((Matrix.isUnit_iff_isUnit_det _).mp hu).ne_zero)

/-- `gaussj` succeeds exactly on the invertible matrices. -/
theorem gaussj_isSome_iff {n : Nat} {M : Mat n} (hM : M.Bounded) :
    (gaussj M).isSome ↔ (toMatrix M).det ≠ 0 := by
  constructor
  · intro h
    obtain ⟨N, hN⟩ := Option.isSome_iff_exists.mp h
    exact Matrix.det_ne_zero_of_left_inverse (gaussj_sound hM hN).2
  · intro h
    obtain ⟨N, hN, _⟩ := gaussj_complete hM h
    rw [hN]; rfl

end Lec

#print axioms Lec.gaussj_sound
#print axioms Lec.gaussj_complete
#print axioms Lec.gaussj_isSome_iff
