/-
  LecProofs.EncodeLemmas — what `encode` returns, for any backend whose encode operation
  keeps the data payloads and returns m parity payloads of the block size.
-/
import LecModel.Frontend
import LecModel.Backends
import LecProofs.HeaderLemmas
namespace Lec

/-- contract of a backend's encode operation that the front end relies on. -/
structure EncodeOK (be : Backend) (k m : Nat) (bsOK : Nat → Prop := fun _ => True) : Prop where
  data_kept : ∀ d p bs d' p', be.encode d p bs = .ok (d', p') → d' = d
  parity_len : ∀ d p bs d' p', bsOK bs → d.length = k → p.length = m → (∀ x ∈ d, x.length = bs) →
      (∀ x ∈ p, x.length = bs) → be.encode d p bs = .ok (d', p') → p'.length = m ∧ ∀ x ∈ p', x.length = bs

/-! ### the split loop -/

theorem splitLoop_length (k bs : Nat) (d : Bytes) : (splitLoop k bs d).length = k := by
  induction k generalizing d with
  | zero => rfl
  | succ k ih => simp [splitLoop, ih]

theorem splitLoop_elem_length (k bs : Nat) (d : Bytes) : ∀ x ∈ splitLoop k bs d, x.length = bs := by
  induction k generalizing d with
  | zero => intro x hx; simp [splitLoop] at hx
  | succ k ih =>
    intro x hx
    simp only [splitLoop, List.mem_cons] at hx
    rcases hx with rfl | hx
    · simp only [List.length_append, List.length_take, zeros_length]; omega
    · exact ih _ x hx

/-- payload `i` of the systematic split: bytes `[i*bs, (i+1)*bs)` of the input, zero padded. -/
def slice (d : Bytes) (bs i : Nat) : Bytes :=
  let piece := (d.drop (i * bs)).take bs
  piece ++ zeros (bs - piece.length)

theorem splitLoop_eq (k bs : Nat) (d : Bytes) :
    splitLoop k bs d = (List.range k).map (slice d bs) := by
  induction k generalizing d with
  | zero => rfl
  | succ k ih =>
    rw [splitLoop, ih, List.range_succ_eq_map, List.map_cons, List.map_map]
    congr 1
    · simp [slice]
    · apply List.map_congr_left
      intro i _
      simp only [slice, Function.comp, List.drop_drop]
      have : (i + 1) * bs = bs + i * bs := by rw [Nat.add_mul]; omega
      rw [this]

theorem slice_length (d : Bytes) (bs i : Nat) : (slice d bs i).length = bs := by
  simp only [slice, List.length_append, List.length_take, zeros_length]; omega

/-- the fragment the specification describes for payload `p` at index `idx`. -/
def specFragment (env : Env) (i : Inst) (len bs : Nat) (p : Bytes) (idx : Nat) : Bytes :=
  (specHeader env i idx len bs p).bytes ++ p

/-- payload size of every fragment of an encode of `len` bytes. -/
def blockSize (i : Inst) (len : Nat) : Nat := alignedSize i len / i.k

/-! ### the size guard -/

/-- an input the guard lets through is shorter than `INT_MAX` (whatever the instance). -/
theorem encodeTooLarge_false_lt {i : Inst} {len : Nat} (h : encodeTooLarge i len = false) :
    len < 2 ^ 31 := by
  unfold encodeTooLarge at h
  simp only [decide_eq_false_iff_not] at h
  omega

/-- the guard refuses: `-EINVALIDPARAMS`, whatever the backend. -/
theorem encode_of_tooLarge (env : Env) (be : Backend) (i : Inst) (data : Bytes)
    (h : encodeTooLarge i data.length = true) : encode env be i data = .error (.rc (-EINVALIDPARAMS)) := by
  unfold encode
  rw [if_pos h]; rfl

/-- a successful encode passed the guard. -/
theorem encodeTooLarge_false_of_ok {env : Env} {be : Backend} {i : Inst} {data : Bytes} {frags : List Bytes}
    (h : encode env be i data = .ok frags) : encodeTooLarge i data.length = false := by
  cases hg : encodeTooLarge i data.length with
  | false => rfl
  | true => rw [encode_of_tooLarge env be i data hg] at h; cases h

/-- a successful encode: the input is shorter than `INT_MAX`. -/
theorem encode_ok_length_lt {env : Env} {be : Backend} {i : Inst} {data : Bytes} {frags : List Bytes}
    (h : encode env be i data = .ok frags) : data.length < 2 ^ 31 :=
  encodeTooLarge_false_lt (encodeTooLarge_false_of_ok h)

/-- the guard in closed form when the alignment multiple `k * (w / 8)` is positive. -/
theorem alignedSize_one (i : Inst) (hk : 0 < i.k) (hw : 8 ≤ i.w) : alignedSize i 1 = i.k * (i.w / 8) := by
  unfold alignedSize alignedSizeW
  simp only
  have he : 0 < i.w / 8 := Nat.div_pos hw (by decide)
  have ham : 0 < i.k * (i.w / 8) := Nat.mul_pos hk he
  rw [Nat.add_sub_cancel_left, Nat.div_self ham, Nat.one_mul]

/-- inputs with the old slack `2^12` pass the guard whenever one aligned unit plus a header fits the slack
    (every instance `create` returns: `k ≤ 32`, `w ≤ 64`, so at most 256 + 80 bytes). -/
theorem encodeTooLarge_false_of_small {i : Inst} {len : Nat} (ha : alignedSize i 1 + Hdr.size ≤ 4095)
    (hlen : len < 2 ^ 31 - 2 ^ 12) : encodeTooLarge i len = false := by
  unfold encodeTooLarge
  simp only [decide_eq_false_iff_not]
  omega

/-- one aligned unit plus a header is at most 336 bytes for the fields `create` produces. -/
theorem alignedSize_one_created (i : Inst) (hk : 0 < i.k) (hk2 : i.k ≤ 32) (hw : 8 ≤ i.w) (hw2 : i.w ≤ 64) :
    alignedSize i 1 + Hdr.size ≤ 336 := by
  rw [alignedSize_one i hk hw]
  have he8 : i.w / 8 ≤ 8 := by omega
  have := Nat.mul_le_mul hk2 he8
  simp only [Hdr.size]
  omega

/-- the size guard of `encode` in closed form.  (`hfit` cannot be dropped: the model's subtraction is
    truncated, so with `k * (w / 8) + 80 > INT_MAX` the empty input would pass; see the example below.
    `create` only returns `k ≤ 32`, `w ≤ 64`.) -/
theorem encodeTooLarge_false_iff (i : Inst) (len : Nat) (hk : 0 < i.k) (hw : 8 ≤ i.w)
    (hfit : i.k * (i.w / 8) + 80 ≤ 2147483647) :
    encodeTooLarge i len = false ↔ len + i.k * (i.w / 8) + 80 ≤ 2147483647 := by
  unfold encodeTooLarge
  rw [alignedSize_one i hk hw, decide_eq_false_iff_not]
  simp only [Hdr.size]
  omega

/-- the closed form for every non-empty input (no bound on `k`, `w` needed). -/
theorem encodeTooLarge_false_iff_pos (i : Inst) (len : Nat) (hk : 0 < i.k) (hw : 8 ≤ i.w) (hlen : 0 < len) :
    encodeTooLarge i len = false ↔ len + i.k * (i.w / 8) + 80 ≤ 2147483647 := by
  unfold encodeTooLarge
  rw [alignedSize_one i hk hw, decide_eq_false_iff_not]
  simp only [Hdr.size]
  omega

example : encodeTooLarge { beId := 0, beVer := 0, k := 2147483648, m := 0, w := 8, ct := 0 } 0 = false := by decide

/-- the closed form for the fields `create` produces. -/
theorem encodeTooLarge_false_iff_created (i : Inst) (len : Nat) (hk : 0 < i.k) (hk2 : i.k ≤ 32)
    (hw : 8 ≤ i.w) (hw2 : i.w ≤ 64) :
    encodeTooLarge i len = false ↔ len + i.k * (i.w / 8) + 80 ≤ 2147483647 := by
  have := alignedSize_one_created i hk hk2 hw hw2
  rw [alignedSize_one i hk hw] at this
  simp only [Hdr.size] at this
  exact encodeTooLarge_false_iff i len hk hw (by omega)

/-- the hypothesis the theorems carried before `encode` had its guard (`len < 2^31 - 2^12`) implies
    the guard lets the input through, for the fields `create` produces. -/
theorem encodeTooLarge_false_of_created (i : Inst) (len : Nat) (hk : 0 < i.k) (hk2 : i.k ≤ 32)
    (hw : 8 ≤ i.w) (hw2 : i.w ≤ 64) (hlen : len < 2 ^ 31 - 2 ^ 12) : encodeTooLarge i len = false :=
  encodeTooLarge_false_of_small (by have := alignedSize_one_created i hk hk2 hw hw2; omega) hlen

/-! ### what encode returns -/

theorem encode_spec (env : Env) (be : Backend) (i : Inst) (data : Bytes) (frags : List Bytes)
    {bsOK : Nat → Prop} (hbe : EncodeOK be i.k i.m bsOK) (hbs : bsOK (blockSize i data.length))
    (h : encode env be i data = .ok frags) :
    ∃ par : List Bytes, par.length = i.m ∧ (∀ x ∈ par, x.length = blockSize i data.length) ∧
      frags = ((splitLoop i.k (blockSize i data.length) data ++ par).zipIdx.map fun (p, idx) =>
        specFragment env i data.length (blockSize i data.length) p idx) := by
  have hlen : data.length < 2 ^ 31 := encode_ok_length_lt h
  have hg := encodeTooLarge_false_of_ok h
  generalize hbs' : blockSize i data.length = bs
  unfold encode at h
  rw [if_neg (by rw [hg]; exact Bool.false_ne_true)] at h
  have hbs2 := hbs'
  unfold blockSize at hbs2
  simp only [hbs2] at h
  simp only [bind, Except.bind] at h
  split at h
  · cases h
  · rename_i v hv
    obtain ⟨d', p'⟩ := v
    simp only [pure, Except.pure, Except.ok.injEq] at h
    have hd : d' = splitLoop i.k bs data := hbe.data_kept _ _ _ _ _ hv
    have hp := hbe.parity_len _ _ _ _ _ (by rw [← hbs']; exact hbs) (splitLoop_length _ _ _) (List.length_replicate ..)
      (splitLoop_elem_length i.k bs data)
      (by intro x hx; rw [List.mem_replicate] at hx; rw [hx.2]; exact zeros_length _) hv
    refine ⟨p', hp.1, hp.2, ?_⟩
    rw [← h, hd]
    apply List.map_congr_left
    intro ⟨p, idx⟩ hmem
    have hpm : p ∈ splitLoop i.k bs data ++ p' := by
      have := List.mem_zipIdx hmem
      simp at this
      rw [this.2]; exact List.getElem_mem _
    have hpl : p.length = bs := by
      rcases List.mem_append.mp hpm with h1 | h1
      · exact splitLoop_elem_length _ _ _ _ h1
      · exact hp.2 _ h1
    exact addFragmentMetadata_spec env i idx data.length bs p hpl hlen

/-- the null backend satisfies the encode contract. -/
theorem nullBackend_encodeOK (k m : Nat) : EncodeOK nullBackend k m where
  data_kept := by intro d p bs d' p' h; simp [nullBackend] at h; exact h.1.symm
  parity_len := by
    intro d p bs d' p' _ _ hm _ hp h
    simp [nullBackend] at h
    rw [← h.2]; exact ⟨hm, hp⟩

end Lec
